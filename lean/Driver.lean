import Driver.Main
