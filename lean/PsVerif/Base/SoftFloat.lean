/-
IEEE-754 binary64 arithmetic on bit patterns, defined with exact `Nat`/`Int` arithmetic so
that the kernel can evaluate it (no use of Lean's opaque `Float`).  Only what the
interpreter needs: conversion from integers and decimal literals, `+ - ×`, negation,
comparison.  Rounding is round-to-nearest, ties-to-even (Go's and the hardware's mode).
NaNs are canonicalised to one quiet NaN.
-/
namespace PsVerif.Base.SoftFloat

def qNaN : UInt64 := 0x7ff8000000000001
def posInf : UInt64 := 0x7ff0000000000000
def signBit : UInt64 := 0x8000000000000000

def signOf (b : UInt64) : Bool := b &&& signBit != 0
def expField (b : UInt64) : Nat := ((b >>> 52) &&& 0x7ff).toNat
def fracField (b : UInt64) : Nat := (b &&& 0xfffffffffffff).toNat

def isNaN (b : UInt64) : Bool := expField b == 2047 && fracField b != 0
def isInf (b : UInt64) : Bool := expField b == 2047 && fracField b == 0
def isZero (b : UInt64) : Bool := expField b == 0 && fracField b == 0

/-- finite value as `(mantissa, exponent)`: `m * 2^e` -/
def decode (b : UInt64) : Nat × Int :=
  if expField b == 0 then (fracField b, -1074)
  else (fracField b + 4503599627370496, (expField b : Int) - 1075)

def withSign (neg : Bool) (b : UInt64) : UInt64 := if neg then b ||| signBit else b

/-- Round the non-negative value `v` with `m·2^e ≤ v < (m+1)·2^e` (equality iff `!sticky`) to
binary64; when `sticky` is set `m` must have at least 55 bits. Overflow gives +Inf. -/
def roundPos (m : Nat) (e : Int) (sticky : Bool) : UInt64 :=
  if m == 0 then 0
  else
    let L : Int := m.log2                       -- position of the leading bit
    let E : Int := e + L                        -- its weight 2^E
    -- exponent of the least significant kept bit
    let lsb : Int := if E < -1022 then -1074 else E - 52
    let sh : Int := lsb - e                     -- bits dropped (may be negative)
    let (q, half, rest) : Nat × Bool × Bool :=
      if sh ≤ 0 then (m <<< (-sh).toNat, false, sticky)
      else
        let s := sh.toNat
        let q := m >>> s
        let r := m % (2 ^ s)
        let h := 2 ^ (s - 1)
        (q, r ≥ h, (r % h != 0) || sticky)
    let q := if half && (rest || q % 2 == 1) then q + 1 else q
    -- q < 2^53 + 1; encode: subnormals have biased exponent 0, normals E + 1023
    let biased : Int := if E < -1022 then 0 else E + 1023
    let bits : Int := if E < -1022 then q else (biased - 1) * 4503599627370496 + q
    if bits ≥ 9218868437227405312 then posInf else UInt64.ofNat bits.toNat

/-- nearest binary64 to `±m·2^e` -/
def ofDyadic (neg : Bool) (m : Nat) (e : Int) : UInt64 := withSign neg (roundPos m e false)

/-- nearest binary64 to the rational `±num/den` (`den > 0`) -/
def ofRat (neg : Bool) (num den : Nat) : UInt64 :=
  if num == 0 then withSign neg 0
  else
    let L : Int := (num.log2 : Int) - den.log2
    let s : Int := 60 - L                       -- quotient gets 59..61 bits
    let (n, d) : Nat × Nat := if s ≥ 0 then (num <<< s.toNat, den) else (num, den <<< (-s).toNat)
    let q := n / d
    let r := n % d
    withSign neg (roundPos q (-s) (r != 0))

/-- Go `float64(i)` for a 64-bit integer -/
def ofInt (i : Int) : UInt64 := ofDyadic (i < 0) i.natAbs 0

/-- value of the decimal literal `±digits × 10^e10` (Go `strconv.ParseFloat`) -/
def ofDecimal (neg : Bool) (m : Nat) (e10 : Int) : UInt64 :=
  if m == 0 then withSign neg 0
  else if e10 ≥ 0 then
    if e10 > 400 then withSign neg posInf else ofDyadic neg (m * 10 ^ e10.toNat) 0
  else
    -- below 10^-400 with at most a few thousand digits the value still rounds correctly; cap
    -- the exponent so that the power stays small (the result is 0 or subnormal anyway)
    if m.log2 + 1 < 4 * ((-e10).toNat - 400) then withSign neg 0
    else ofRat neg m (10 ^ (-e10).toNat)

def neg (a : UInt64) : UInt64 := if isNaN a then qNaN else a ^^^ signBit

def add (a b : UInt64) : UInt64 :=
  if isNaN a || isNaN b then qNaN
  else if isInf a then (if isInf b && signOf a != signOf b then qNaN else a)
  else if isInf b then b
  else
    let (ma, ea) := decode a
    let (mb, eb) := decode b
    let e := if ea ≤ eb then ea else eb
    let va : Int := (if signOf a then -1 else 1) * (ma <<< (ea - e).toNat : Nat)
    let vb : Int := (if signOf b then -1 else 1) * (mb <<< (eb - e).toNat : Nat)
    let v := va + vb
    if v == 0 then
      -- exact zero: -0 only when both operands are negative (zeros)
      if signOf a && signOf b then signBit else 0
    else ofDyadic (v < 0) v.natAbs e

def sub (a b : UInt64) : UInt64 := if isNaN b then qNaN else add a (b ^^^ signBit)

def mul (a b : UInt64) : UInt64 :=
  if isNaN a || isNaN b then qNaN
  else
    let sg := signOf a != signOf b
    if isInf a || isInf b then
      if isZero a || isZero b then qNaN else withSign sg posInf
    else
      let (ma, ea) := decode a
      let (mb, eb) := decode b
      ofDyadic sg (ma * mb) (ea + eb)

/-- `a < 0` -/
def ltZero (a : UInt64) : Bool := !isNaN a && signOf a && !isZero a

/-- Go `a == b` on float64 -/
def eq (a b : UInt64) : Bool :=
  if isNaN a || isNaN b then false
  else if isZero a && isZero b then true
  else a == b

end PsVerif.Base.SoftFloat
