/-
Model of the two wrappers that pick the result out of the interpreter's final state:

* `ReadCMap` (`cmap.go`):
  ```go
  names := maps.Keys(intp.CMapDirectory)
  slices.Sort(names)
  for _, name := range names {
      val := intp.CMapDirectory[name]
      cmap, ok := val.(Dict)
      if !ok { continue }
      if n, _ := cmap["CMapName"].(Name); n == "" { cmap["CMapName"] = name }
      return cmap, nil
  }
  return nil, fmt.Errorf("no valid CMap found")
  ```
* `type1.Read` (`type1/read.go`):
  ```go
  if len(intp.FontDirectory) != 1 { return nil, errors.New("expected exactly one font in file") }
  …
  var key postscript.Name            // never assigned
  var fd postscript.Dict
  for _, val := range intp.FontDirectory {
      if dict, ok := val.(postscript.Dict); ok { fd = dict; break }
  }
  fontType, ok := fd["FontType"].(postscript.Integer)   // fd == nil: ok = false
  if !ok || fontType != 1 { return nil, errors.New("wrong FontType") }
  ```

A Go map is an association list with distinct keys whose ORDER IS ARBITRARY (`range` over a map and
`maps.Keys` visit the entries in an unspecified order that changes from run to run).  The functions
below take the list in whatever order it comes; `Props/C17Select.lean` proves that the order does
not matter.  Keys are byte strings compared bytewise (Go string comparison, what `slices.Sort` uses
on `[]Name`); the values are an abstract type `V` with the test `isDict` (`val.(Dict)` succeeds).

Core only, executable.
-/
namespace PsVerif.Model.Select

/-- a name: a Go string, i.e. a byte string -/
abbrev Key := List UInt8

/-- bytewise `≤` on names (Go's `<=` on strings; the empty name is the smallest).  Same definition as
`T1Write.nameLe`. -/
def nameLe : Key → Key → Bool
  | [], _ => true
  | _ :: _, [] => false
  | a :: as, b :: bs => a < b || (a == b && nameLe as bs)

/-- bytewise `<` on names -/
def nameLt (a b : Key) : Bool := !nameLe b a

/-- insertion into a sorted list of names -/
def insertKey (k : Key) : List Key → List Key
  | [] => [k]
  | q :: r => if nameLe k q then k :: q :: r else q :: insertKey k r

/-- `slices.Sort(names)` (insertion sort: structurally recursive, so that the kernel can evaluate it; the keys
of a Go map are distinct and the order is total and antisymmetric, so every sorting method gives the same list:
`Props.C17.sortKeys_unique`) -/
def sortKeys : List Key → List Key
  | [] => []
  | k :: r => insertKey k (sortKeys r)

/-- `intp.CMapDirectory[name]` -/
def lookup {V : Type} (k : Key) : List (Key × V) → Option V
  | [] => none
  | (k', v) :: r => if k = k' then some v else lookup k r

/-- the loop of `ReadCMap` over the sorted key snapshot -/
def firstDict {V : Type} (isDict : V → Bool) (dir : List (Key × V)) : List Key → Option (Key × V)
  | [] => none
  | k :: ks =>
    match lookup k dir with
    | some v => if isDict v then some (k, v) else firstDict isDict dir ks
    | none => firstDict isDict dir ks

/-- `ReadCMap` after `Execute`: which entry of `CMapDirectory` is returned (`none`: the error
"no valid CMap found").  `dir` lists the map in the arbitrary order `maps.Keys` produced. -/
def pickCMap {V : Type} (isDict : V → Bool) (dir : List (Key × V)) : Option (Key × V) :=
  firstDict isDict dir (sortKeys (dir.map (·.1)))

/-- the `CMapName` entry of the returned dictionary: `current` is `cmap["CMapName"].(Name)` when that is a name
(`none`: absent or not a name, for which the Go code reads `""`); the key under which the CMap was registered
is stored when there is no non-empty name -/
def cmapNameAfter (key : Key) (current : Option Key) : Key :=
  match current with
  | some n => if n = [] then key else n
  | none => key

/-- the seeded change: one pass over the map in its iteration order, keeping the smallest name seen so far in a
variable initialised with `""` and reading `""` as "nothing found yet":
```go
best := Name("")
for name, val := range intp.CMapDirectory {
    if _, ok := val.(Dict); !ok { continue }
    if best == "" || name < best { best = name }
}
if best == "" { return nil, fmt.Errorf("no valid CMap found") }
cmap := intp.CMapDirectory[best].(Dict)
```
A CMap registered under the empty name is indistinguishable from "none yet": whatever comes after it in the
iteration order replaces it. -/
def singlePassBest {V : Type} (isDict : V → Bool) : Key → List (Key × V) → Key
  | best, [] => best
  | best, (k, v) :: r =>
    if isDict v && (best == [] || nameLt k best) then singlePassBest isDict k r
    else singlePassBest isDict best r

def pickCMapSinglePass {V : Type} (isDict : V → Bool) (dir : List (Key × V)) : Option (Key × V) :=
  let best := singlePassBest isDict [] dir
  if best = [] then none
  else match lookup best dir with
    | some v => some (best, v)
    | none => none

/-- the two errors of the selection step of `type1.Read` -/
inductive FontErr where
  | notOneFont     -- "expected exactly one font in file"
  | wrongFontType  -- `fd` stayed nil: `fd["FontType"]` is absent
deriving DecidableEq, Repr

/-- the `for _, val := range intp.FontDirectory` loop: the first dictionary in iteration order -/
def firstDictEntry {V : Type} (isDict : V → Bool) : List (Key × V) → Option (Key × V)
  | [] => none
  | (k, v) :: r => if isDict v then some (k, v) else firstDictEntry isDict r

/-- `type1.Read` after `Execute`: which entry of `FontDirectory` becomes the font dictionary `fd`.
(The entry's key is reported here for the statement of uniqueness; the Go variable `key` is never assigned,
so the key itself is not observable in the result: a font without `FontName` gets the name `""`.) -/
def pickFont {V : Type} (isDict : V → Bool) (dir : List (Key × V)) : Except FontErr (Key × V) :=
  if dir.length ≠ 1 then .error .notOneFont
  else match firstDictEntry isDict dir with
    | some e => .ok e
    | none => .error .wrongFontType

/-- the seeded change: the length check accepts any non-empty directory and "the first" font of the map is taken -/
def pickFontAnyCount {V : Type} (isDict : V → Bool) (dir : List (Key × V)) : Except FontErr (Key × V) :=
  if dir.length = 0 then .error .notOneFont
  else match firstDictEntry isDict dir with
    | some e => .ok e
    | none => .error .wrongFontType

/-- names from ASCII text, for examples -/
def ofString (s : String) : Key := s.toUTF8.toList

#guard sortKeys [ofString "b", ofString "a", ofString "B", [], ofString "aa"] =
  [[], ofString "B", ofString "a", ofString "aa", ofString "b"]
#guard pickCMap (fun b : Bool => b) [(ofString "b", true), (ofString "a", false), (ofString "c", true)] =
  some (ofString "b", true)
#guard pickCMap (fun b : Bool => b) [(ofString "b", false)] = none
#guard cmapNameAfter (ofString "k") (some []) = ofString "k"
#guard cmapNameAfter (ofString "k") (some (ofString "n")) = ofString "n"
#guard cmapNameAfter (ofString "k") none = ofString "k"

end PsVerif.Model.Select
