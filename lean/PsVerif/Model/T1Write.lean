import PsVerif.Model.Cipher
import PsVerif.Model.T1Encode
import PsVerif.Model.Serialise
import PsVerif.Model.PFB
import PsVerif.Model.AFM
import PsVerif.Generated.Template
import PsVerif.Generated.StdEnc
/-!
Byte-level model of the Type 1 font writer: `type1/write.go` (`Font.Write`, `Font.WritePDF`,
`makeTemplateData`, `encodeCharstrings`, `hidesStandardGlyph`, `writeEncoding`,
`isStandardEncoding`, the template), `type1/eexec.go` (`newEExecWriter`, `eexecWriter`,
`obfuscateCharstring`) and `type1/hex.go` (`hexWriter`).

## What a font value is here

* Go strings are byte strings (`List UInt8`).
* `float64` fields that are only *printed* (`ItalicAngle`, `UnderlinePosition`, `UnderlineThickness`,
  `FontMatrix`, `BlueScale`, `StdHW`, `StdVW`) are IEEE-754 bit patterns (`UInt64`); every bit pattern is
  supported (NaN and the infinities included: Go prints `NaN`, `+Inf`, `-Inf`).
* glyph outlines and widths are exact rationals (`T1Encode.Glyph`, `Rat`), as in the existing model of
  `encodeCharString`; the *value* of the Go `float64` is meant.  `encodeCharString` computes in `float64`; the
  model computes in `Rat`.  The two agree when every operation is exact, which is guaranteed on the subset
  `coordOK`: every coordinate is a multiple of 1/64 of absolute value at most 2^23 (integers in particular).
  Outside this subset the outcome is `unsupported`.
* `funit.Int16` / `int32` fields are `Int`s; values outside the Go type are not representable: `unsupported`.
* `Glyphs map[string]*Glyph` is an association list; a list with a repeated name is not a Go map: `unsupported`.
  `nil` pointers (`FontInfo`, `Private`, a glyph) make the Go code panic and are not representable here, as are
  `GlyphOp`s with an unknown operator or the wrong number of arguments.
* `CreationDate` is the already formatted text of `CreationDate.Format("2006-01-02 15:04:05 -0700 MST")`
  (`none` for the zero time); the template passes it through `L` (line feeds, carriage returns and form feeds become
  blanks), as it does with the version in the first header line.
* `int32(math.Round(w))` for a width whose rounded value does not fit `int32` is implementation-specific in Go:
  `unsupported`.

## The template

The literal texts are taken from `PsVerif.Generated.Template` (extracted from the Go source on every run), with the
trimming rule of `text/template`: a text that follows an action ending in ` -}}` loses its leading white space
(`piece`).  The expansion below is specialised to this template (the index of the text in front of every action is
spelled out, `#guard`s pin the actions).  `.Subrs` is never set by `makeTemplateData`, so `len .Subrs` is 0 and the
`range` over it produces nothing.  `text/template` visits a map in sorted key order (bytewise for strings).

* `{{.X}}` on a `float64`: `fmt.Fprint`, i.e. `strconv.FormatFloat(x, 'g', -1, 64)`: shortest digits that read
  back; `%e` form (`d.ddde±XX`) when the decimal exponent is `< -4` or `≥ 6`, positional otherwise
  (`fmtV`).  Arrays and slices: `[a b c]`.
* a Go `error` from `Write` arises only from a panic inside `Name.PS` (`PN` and `E`), which `text/template`
  turns into an error: outcome `error` (the bytes written before are not modelled).

## Encryption and framing

`eexecWriter` buffers 512 bytes, but the cipher register lives across `flush`es, so the cipher text is
`Cipher.encrypt 55665 (iv ++ plain)` with `iv = ['X' xor (55665 >> 8), 0, 0, 0]`.  `hexWriter` is modelled byte by
byte (`hexGo`).  The charstring lead bytes are found by the deterministic search of `encodeCharstrings`
(`ivSearch`; it always ends at `[32,0,0,0]`, see `Proofs/T1Write.lean`).
-/
namespace PsVerif.Model.T1Write
open PsVerif.Base PsVerif.Model
open PsVerif.Generated.Template (chunks actions)

abbrev Bytes := List UInt8

inductive Err where
  | error          -- Go returns an error
  | unsupported    -- outside the modelled subset
  deriving DecidableEq, Repr

inductive Format where
  | pfa | pfb | binary | noEExec
  deriving DecidableEq, Repr

/-! ## byte strings -/

def ofNats (l : List Nat) : Bytes := l.map UInt8.ofNat

/-- the UTF-8 bytes of a literal (the kernel evaluates this form quickly) -/
def str (s : String) : Bytes := s.toUTF8.data.toList

def notdef : Bytes := [46, 110, 111, 116, 100, 101, 102]

/-! ## the template texts -/

/-- white space for the trim markers of `text/template` -/
def isTplSpace (b : UInt8) : Bool := b == 32 || b == 9 || b == 13 || b == 10

/-- does the action end in `-}}` -/
def trimsNext (a : String) : Bool := a.toList.reverse.take 3 == ['}', '}', '-']

/-- the text in front of action `i`, after trimming -/
def piece (i : Nat) : Bytes :=
  let c := str (chunks.getD i "")
  if i > 0 && trimsNext (actions.getD (i - 1) "") then c.dropWhile isTplSpace else c

-- the actions the expansion below relies on, by index
#guard actions.getD 0 "" == "{{define \"SectionA\" -}}"
#guard actions.getD 1 "" == "{{.FontName}}"
#guard actions.getD 2 "" == "{{.Version|L}}"
#guard actions.getD 3 "" == "{{if not .CreationDate.IsZero}}"
#guard actions.getD 4 "" == "{{.CreationDate.Format \"2006-01-02 15:04:05 -0700 MST\"|L}}"
#guard actions.getD 5 "" == "{{end -}}"
#guard actions.getD 6 "" == "{{.Version|PS}}"
#guard actions.getD 7 "" == "{{if .Notice}}"
#guard actions.getD 10 "" == "{{if .Copyright}}"
#guard actions.getD 13 "" == "{{.FullName|PS}}"
#guard actions.getD 14 "" == "{{.FamilyName|PS}}"
#guard actions.getD 15 "" == "{{.Weight|PS}}"
#guard actions.getD 16 "" == "{{.ItalicAngle}}"
#guard actions.getD 17 "" == "{{.IsFixedPitch}}"
#guard actions.getD 18 "" == "{{.UnderlinePosition}}"
#guard actions.getD 19 "" == "{{.UnderlineThickness}}"
#guard actions.getD 20 "" == "{{.FontName|PN}}"
#guard actions.getD 21 "" == "{{ E .Encoding .ExplicitEncoding -}}"
#guard actions.getD 22 "" == "{{ .FontMatrix }}"
#guard actions.getD 23 "" == "{{if .EExec}}"
#guard actions.getD 26 "" == "{{define \"SectionB\" -}}"
#guard actions.getD 27 "" == "{{ len .Subrs }}"
#guard actions.getD 28 "" == "{{ range $index, $subr := .Subrs -}}"
#guard actions.getD 32 "" == "{{ end -}}"
#guard actions.getD 33 "" == "{{ if .BlueValues}}"
#guard actions.getD 36 "" == "{{ if .OtherBlues}}"
#guard actions.getD 39 "" == "{{ if (or (lt .BlueScale .039624) (gt .BlueScale .039626)) -}}"
#guard actions.getD 42 "" == "{{ if ne .BlueShift 7 }}"
#guard actions.getD 45 "" == "{{ if ne .BlueFuzz 1 }}"
#guard actions.getD 48 "" == "{{ if .StdHW }}"
#guard actions.getD 51 "" == "{{ if .StdVW }}"
#guard actions.getD 54 "" == "{{ .ForceBold }}"
#guard actions.getD 55 "" == "{{ len .CharStrings }}"
#guard actions.getD 56 "" == "{{ range $name, $cs := .CharStrings -}}"
#guard actions.getD 57 "" == "{{ $name|PN }}"
#guard actions.getD 58 "" == "{{ len $cs }}"
#guard actions.getD 59 "" == "{{ $cs }}"
#guard actions.getD 60 "" == "{{ end -}}"
#guard actions.getD 61 "" == "{{if .EExec}}"
#guard actions.getD 64 "" == "{{define \"SectionC\" -}}"
#guard actions.getD 65 "" == "{{if .EExec -}}"
#guard actions.getD 68 "" == "{{template \"SectionA\" . -}}"
#guard actions.getD 69 "" == "{{template \"SectionB\" . -}}"
#guard actions.getD 70 "" == "{{template \"SectionC\" . -}}"
#guard actions.length == 71 && chunks.length == 72
-- texts that are trimmed away completely
#guard [0, 10, 25, 26, 33, 36, 39, 42, 45, 48, 51, 57, 63, 64, 65, 67, 68, 69, 70, 71].all (fun i => piece i == [])

/-! ## numbers -/

def decN (n : Nat) : Bytes := ofNats (AFM.decNat n)
def decI (i : Int) : Bytes := ofNats (AFM.decInt i)

/-- shortest decimal `D·10^p` (`D` without trailing zeros) that reads back as the finite non-zero `x`
(magnitude only); `none` does not happen -/
def shortest (x : UInt64) : Option (Nat × Int) :=
  let d := SoftFloat.decode x
  let (num, den) : Nat × Nat := if d.2 ≥ 0 then (d.1 * 2 ^ d.2.toNat, 1) else (d.1, 2 ^ (-d.2).toNat)
  let b2 : Int := (num.log2 : Int) - (den.log2 : Int)
  let k0 : Int := (b2 * 30103) / 100000 - 1
  let k := AFM.findK 8 num den k0
  let ax := x &&& ~~~SoftFloat.signBit
  (AFM.allCandidates num den k).find? (fun c => AFM.parseFloat (AFM.renderDec c.1 c.2) = .ok ax)

/-- `%e` with the shortest precision: `d[.ddd]e±XX` -/
def fmtE (ds : List Nat) (exp : Int) : List Nat :=
  let e := AFM.decNat exp.natAbs
  let e2 := if e.length < 2 then 48 :: e else e
  let mant := match ds with
    | [] => []
    | d :: r => if r.isEmpty then [d] else d :: 46 :: r
  mant ++ [101, if exp < 0 then 45 else 43] ++ e2

/-- `fmt.Sprint(x)` for a `float64` -/
def fmtVNat (x : UInt64) : Option (List Nat) :=
  if SoftFloat.isNaN x then some AFM.kNaN
  else if SoftFloat.isInf x then some (if SoftFloat.signOf x then AFM.kMInf else AFM.kPInf)
  else
    let sg : List Nat := if SoftFloat.signOf x then [45] else []
    if SoftFloat.isZero x then some (sg ++ [48])
    else
      match shortest x with
      | none => none
      | some (D, p) =>
        let ds := AFM.decNat D
        let exp : Int := (ds.length : Int) + p - 1
        if exp < -4 ∨ exp ≥ 6 then some (sg ++ fmtE ds exp)
        else some (sg ++ AFM.renderDec D p)

def fmtV? (x : UInt64) : Option Bytes := (fmtVNat x).map ofNats

/-- total version; `floatOK` guards its use -/
def fmtV (x : UInt64) : Bytes := (fmtV? x).getD []
def floatOK (x : UInt64) : Bool := (fmtV? x).isSome

/-- `strings.Join(parts, " ")` -/
def joinSp : List Bytes → Bytes
  | [] => []
  | [a] => a
  | a :: r => a ++ 32 :: joinSp r

/-- `fmt.Sprint` of a slice or array: `[a b c]` -/
def bracket (parts : List Bytes) : Bytes := 91 :: (joinSp parts ++ [93])

def fmtBool (b : Bool) : Bytes := if b then str "true" else str "false"

/-- exact value of a finite float -/
def fval (x : UInt64) : Rat :=
  let d := SoftFloat.decode x
  let m : Rat := if d.2 ≥ 0 then ((d.1 * 2 ^ d.2.toNat : Nat) : Rat) else (d.1 : Rat) / ((2 ^ (-d.2).toNat : Nat) : Rat)
  if SoftFloat.signOf x then -m else m

/-- Go `a < b` on `float64` (what the template function `lt` does for two floats) -/
def flt (a b : UInt64) : Bool :=
  if SoftFloat.isNaN a || SoftFloat.isNaN b then false
  else if SoftFloat.isInf a then SoftFloat.signOf a && !(SoftFloat.isInf b && SoftFloat.signOf b)
  else if SoftFloat.isInf b then !SoftFloat.signOf b
  else fval a < fval b

/-- the template function `gt`: "the inverse of `le`", and `le` is "`lt` or `eq`"; true for a NaN operand -/
def fgt (a b : UInt64) : Bool := !(flt a b || SoftFloat.eq a b)

/-- the template constants `.039624` and `.039626` (`strconv.ParseFloat`) -/
def blueScaleLo : UInt64 := SoftFloat.ofDecimal false 39624 (-6)
def blueScaleHi : UInt64 := SoftFloat.ofDecimal false 39626 (-6)

/-! ## the font value -/

structure Matrix where
  a : UInt64
  b : UInt64
  c : UInt64
  d : UInt64
  e : UInt64
  f : UInt64
  deriving Repr, DecidableEq

def Matrix.toList (m : Matrix) : List UInt64 := [m.a, m.b, m.c, m.d, m.e, m.f]

/-- `type1.FontInfo` -/
structure FontInfo where
  fontName : Bytes
  version : Bytes
  notice : Bytes
  copyright : Bytes
  fullName : Bytes
  familyName : Bytes
  weight : Bytes
  italicAngle : UInt64
  isFixedPitch : Bool
  underlinePosition : UInt64
  underlineThickness : UInt64
  fontMatrix : Matrix

/-- `type1.PrivateDict` -/
structure PrivateDict where
  blueValues : List Int
  otherBlues : List Int
  blueScale : UInt64
  blueShift : Int
  blueFuzz : Int
  stdHW : UInt64
  stdVW : UInt64
  forceBold : Bool

/-- `type1.Glyph` -/
structure Glyph where
  outline : T1Encode.Glyph
  widthX : Rat
  widthY : Rat

/-- `type1.Font` -/
structure Font where
  info : FontInfo
  glyphs : List (Bytes × Glyph)
  priv : PrivateDict
  encoding : List Bytes
  creationDate : Option Bytes

/-! ## what is representable / supported -/

def inInt16 (x : Int) : Bool := decide (-32768 ≤ x ∧ x ≤ 32767)
def inInt32 (x : Int) : Bool := decide (-2147483648 ≤ x ∧ x ≤ 2147483647)

/-- coordinates on which the rational model of `encodeCharString` is exact -/
def coordOK (r : Rat) : Bool := decide (64 % r.den = 0) && decide (r.num.natAbs ≤ 8388608 * r.den)

def cmdOK : T1Encode.Cmd → Bool
  | .moveTo x y => coordOK x && coordOK y
  | .lineTo x y => coordOK x && coordOK y
  | .curveTo x1 y1 x2 y2 x3 y3 => coordOK x1 && coordOK y1 && coordOK x2 && coordOK y2 && coordOK x3 && coordOK y3
  | .closePath => true

/-- `int32(math.Round(w))` before the conversion -/
def wInt (w : Rat) : Int := T1Encode.roundHalfAway w

def glyphOK (g : Glyph) : Bool :=
  inInt32 (wInt g.widthX) && inInt32 (wInt g.widthY) &&
  g.outline.hstem.all inInt16 && g.outline.vstem.all inInt16 && g.outline.cmds.all cmdOK

def nodupNames : List Bytes → Bool
  | [] => true
  | n :: r => !r.contains n && nodupNames r

def floatsOK (f : Font) : Bool :=
  floatOK f.info.italicAngle && floatOK f.info.underlinePosition && floatOK f.info.underlineThickness &&
  f.info.fontMatrix.toList.all floatOK && floatOK f.priv.blueScale && floatOK f.priv.stdHW && floatOK f.priv.stdVW

/-- the value is a Go value and the model determines the output -/
def supported (f : Font) : Bool :=
  f.priv.blueValues.all inInt16 && f.priv.otherBlues.all inInt16 &&
  inInt32 f.priv.blueShift && inInt32 f.priv.blueFuzz &&
  nodupNames (f.glyphs.map (·.1)) && f.glyphs.all (fun p => glyphOK p.2) && floatsOK f

/-! ## charstrings (`encodeCharstrings`) -/

/-- `g.encodeCharString(int32(math.Round(g.WidthX)), int32(math.Round(g.WidthY)))` -/
def csBytes (g : Glyph) : Bytes := ofNats (T1Encode.encodeCharString g.outline (wInt g.widthX) (wInt g.widthY))

/-- the test that leaves the search loop: `obf[0] > 32` and `obf[:4]` not all hexadecimal digits -/
def csAccept (obf : Bytes) : Bool :=
  match obf with
  | [] => false
  | b0 :: _ => decide (b0 > 32) && !(obf.take 4).all Scan.isHexDigit

/-- the little-endian counter `for pos < 4 { iv[pos]++; if iv[pos] != 0 { break }; pos++ }` -/
def nextIV : Bytes → Bytes
  | [] => []
  | b :: r => if b + 1 != 0 then (b + 1) :: r else (b + 1) :: nextIV r

/-- the `for { … }` loop of `encodeCharstrings`; the fuel is never exhausted (33 iterations) -/
def ivSearch : Nat → Bytes → Bytes → Bytes
  | 0, iv, cs => Cipher.obfuscate iv cs
  | fuel + 1, iv, cs =>
    let obf := Cipher.obfuscate iv cs
    if csAccept obf then obf else ivSearch fuel (nextIV iv) cs

def obfGlyph (g : Glyph) : Bytes := ivSearch 256 [0, 0, 0, 0] (csBytes g)

/-- bytewise `≤` on names (Go string order; what `text/template` uses to sort map keys) -/
def nameLe : Bytes → Bytes → Bool
  | [], _ => true
  | _ :: _, [] => false
  | a :: as, b :: bs => a < b || (a == b && nameLe as bs)

/-- insertion into a list sorted by name -/
def insertG (p : Bytes × Glyph) : List (Bytes × Glyph) → List (Bytes × Glyph)
  | [] => [p]
  | q :: r => if nameLe p.1 q.1 then p :: q :: r else q :: insertG p r

/-- the glyphs sorted by name (insertion sort: structurally recursive, so that the kernel can evaluate it; the names
of a Go map are distinct, so every sorting method gives the same list) -/
def sortGlyphs : List (Bytes × Glyph) → List (Bytes × Glyph)
  | [] => []
  | p :: r => insertG p (sortGlyphs r)

/-- the map `CharStrings` in the order in which `range` visits it -/
def charStrings (f : Font) : List (Bytes × Bytes) :=
  (sortGlyphs f.glyphs).map (fun p => (p.1, obfGlyph p.2))

/-! ## Encoding -/

def stdEnc : List Bytes := PsVerif.Generated.StdEnc.standardEncoding.map str

def hidesStandardGlyph (f : Font) : Bool :=
  f.encoding.length == 256 &&
  (f.encoding.zip stdEnc).any (fun p => p.1 == notdef && p.2 != notdef && f.glyphs.any (fun g => g.1 == p.2))

def isStandardEncoding (enc : List Bytes) : Bool :=
  enc.length == 256 && (enc.zip stdEnc).all (fun p => p.1 == p.2 || p.1 == notdef)

/-- is the explicit array written -/
def explicitArray (enc : List Bytes) (explicit : Bool) : Bool :=
  enc.length == 256 && !(!explicit && isStandardEncoding enc)

def encodingEntry (p : Bytes × Nat) : Bytes :=
  if p.1 == notdef then [] else str "dup " ++ decN p.2 ++ [32] ++ Ser.namePS p.1 ++ str " put\n"

/-- `writeEncoding` (when no name panics) -/
def writeEncoding (enc : List Bytes) (explicit : Bool) : Bytes :=
  if enc.length != 256 then []
  else if !explicit && isStandardEncoding enc then str "/Encoding StandardEncoding def\n"
  else str "/Encoding 256 array\n" ++ str "0 1 255 {1 index exch /.notdef put} for\n" ++
    enc.zipIdx.flatMap encodingEntry ++ str "readonly def\n"

/-! ## errors: a panic in `Name.PS` -/

def nameError (f : Font) : Bool :=
  Ser.namePSPanics f.info.fontName ||
  (explicitArray f.encoding (hidesStandardGlyph f) && f.encoding.any (fun n => n != notdef && Ser.namePSPanics n)) ||
  f.glyphs.any (fun p => Ser.namePSPanics p.1)

/-! ## the sections -/

/-- the bytes that end a comment: LF, CR, FF -/
def isBreak (b : UInt8) : Bool := b == 10 || b == 13 || b == 12

/-- the template function `L`: `strings.NewReplacer("\n", " ", "\r", " ", "\f", " ")` -/
def oneLine (s : Bytes) : Bytes := s.map (fun c => if isBreak c then 32 else c)

/-- `%!FontType1-1.1: {{.FontName}} {{.Version|L}}` without its line end -/
def headerLine1 (f : Font) : Bytes := piece 1 ++ f.info.fontName ++ piece 2 ++ oneLine f.info.version

/-- `%%CreationDate: {{.CreationDate.Format "…"|L}}` without its line end -/
def headerLine2 (d : Bytes) : Bytes := piece 4 ++ oneLine d

/-- the header comments: everything in front of `10 dict begin` -/
def header (f : Font) : Bytes :=
  headerLine1 f ++ piece 3 ++
  (match f.creationDate with
   | some d => headerLine2 d ++ piece 5
   | none => [])

/-- section A from `10 dict begin` on -/
def sectionABody (f : Font) (eexec : Bool) : Bytes :=
  let i := f.info
  piece 6 ++ Ser.stringPS i.version ++ piece 7 ++
  (if i.notice.isEmpty then [] else piece 8 ++ Ser.stringPS i.notice ++ piece 9) ++
  (if i.copyright.isEmpty then [] else piece 11 ++ Ser.stringPS i.copyright ++ piece 12) ++
  piece 13 ++ Ser.stringPS i.fullName ++ piece 14 ++ Ser.stringPS i.familyName ++
  piece 15 ++ Ser.stringPS i.weight ++ piece 16 ++ fmtV i.italicAngle ++
  piece 17 ++ fmtBool i.isFixedPitch ++ piece 18 ++ fmtV i.underlinePosition ++
  piece 19 ++ fmtV i.underlineThickness ++ piece 20 ++ Ser.namePS i.fontName ++ piece 21 ++
  writeEncoding f.encoding (hidesStandardGlyph f) ++
  piece 22 ++ bracket (i.fontMatrix.toList.map fmtV) ++ piece 23 ++
  (if eexec then piece 24 else [])

def sectionA (f : Font) (eexec : Bool) : Bytes := header f ++ sectionABody f eexec

/-- the Private dictionary up to the head of the CharStrings dictionary -/
def privateHead (f : Font) : Bytes :=
  let p := f.priv
  piece 27 ++ decN 0 ++ piece 28 ++
  (if p.blueValues.isEmpty then [] else piece 34 ++ bracket (p.blueValues.map decI) ++ piece 35) ++
  (if p.otherBlues.isEmpty then [] else piece 37 ++ bracket (p.otherBlues.map decI) ++ piece 38) ++
  (if flt p.blueScale blueScaleLo || fgt p.blueScale blueScaleHi then piece 40 ++ fmtV p.blueScale ++ piece 41 else []) ++
  (if p.blueShift != 7 then piece 43 ++ decI p.blueShift ++ piece 44 else []) ++
  (if p.blueFuzz != 1 then piece 46 ++ decI p.blueFuzz ++ piece 47 else []) ++
  (if !SoftFloat.eq p.stdHW 0 then piece 49 ++ bracket [fmtV p.stdHW] ++ piece 50 else []) ++
  (if !SoftFloat.eq p.stdVW 0 then piece 52 ++ bracket [fmtV p.stdVW] ++ piece 53 else []) ++
  piece 54 ++ fmtBool p.forceBold ++ piece 55 ++ decN f.glyphs.length ++ piece 56

/-- one iteration of `range $name, $cs := .CharStrings`: `/name n RD <n bytes> ND` -/
def csEntry (e : Bytes × Bytes) : Bytes :=
  Ser.namePS e.1 ++ piece 58 ++ decN e.2.length ++ piece 59 ++ e.2 ++ piece 60

def privateTail (eexec : Bool) : Bytes := piece 61 ++ (if eexec then piece 62 else [])

def sectionB (f : Font) (eexec : Bool) : Bytes :=
  privateHead f ++ (charStrings f).flatMap csEntry ++ privateTail eexec

def sectionC (eexec : Bool) : Bytes := if eexec then piece 66 else []

/-! ## eexec, hex, PFB -/

/-- `iv := []byte{'X' ^ byte(eexecR0>>8), 0, 0, 0}` -/
def eexecIV : Bytes := [88 ^^^ Cipher.keyByte Cipher.eexecR, 0, 0, 0]

/-- everything an `eexecWriter` passes on between `newEExecWriter` and `Close` -/
def eexecEncrypt (plain : Bytes) : Bytes := Cipher.encrypt Cipher.eexecR (eexecIV ++ plain)

/-- `hexWriter`: `n` is `len(w.buf)`; the last case is `Close` -/
def hexGo : Nat → Bytes → Bytes
  | n, [] => if n == 0 then [] else [10]
  | n, c :: cs =>
    PFB.hexEncode (c >>> 4) :: PFB.hexEncode (c &&& 0x0f) ::
      (if n + 2 ≥ 78 then 10 :: hexGo 0 cs else hexGo (n + 2) cs)

/-- `byte(n), byte(n>>8), byte(n>>16), byte(n>>24)` for `n := uint32(buf.Len())` -/
def le32 (len : Nat) : Bytes :=
  let n := len % 4294967296
  [UInt8.ofNat n, UInt8.ofNat (n / 256), UInt8.ofNat (n / 65536), UInt8.ofNat (n / 16777216)]

def pfbSegment (tp : UInt8) (data : Bytes) : Bytes := 128 :: tp :: (le32 data.length ++ data)

/-- the encrypted portion -/
def cipherPart (f : Font) : Bytes := eexecEncrypt (sectionB f true)

/-- the bytes written when there is no error -/
def assemble (f : Font) : Format → Bytes
  | .pfa => sectionA f true ++ hexGo 0 (cipherPart f) ++ sectionC true
  | .pfb => pfbSegment 1 (sectionA f true) ++ pfbSegment 2 (cipherPart f) ++ pfbSegment 1 (sectionC true) ++ [128, 3]
  | .binary => sectionA f true ++ cipherPart f ++ [10] ++ sectionC true
  | .noEExec => sectionA f false ++ sectionB f false ++ sectionC false

/-- `Font.Write(w, &WriterOptions{Format: fmt})` -/
def writeFont (f : Font) (fmt : Format) : Except Err Bytes :=
  if nameError f then .error .error
  else if !supported f then .error .unsupported
  else .ok (assemble f fmt)

/-- `Font.WritePDF(w)`: the bytes written, `length1`, `length2` -/
def writePDF (f : Font) : Except Err (Bytes × Nat × Nat) :=
  if nameError f then .error .error
  else if !supported f then .error .unsupported
  else
    let a := sectionA f true
    let c := cipherPart f
    .ok (a ++ c, a.length, c.length)

end PsVerif.Model.T1Write
