import PsVerif.Model.Builtins
import PsVerif.Model.CMapOps
import PsVerif.Model.Scanner
/-
Model of `interpreter.go` (`Execute`, `executeScanner`, `executeOne`), of the operators of
`builtin.go` that re-enter the interpreter (`exec if ifelse for forall loop repeat
readstring`), of the error-handler detour and of `eexec` (`eexec.go`).

All functions of the mutual block recurse structurally on one fuel argument: one unit per
Go call of `executeOne`, per iteration of its `recurseTail` loop, per loop iteration of a
looping operator and per scanned token.  Running out of fuel is the distinct result
`Res.fuel`.
-/
namespace PsVerif.Model
open State

def execDepthLimit : Nat := 100
def errorNestingLimit : Nat := 5

/-- run a scanner action on the interpreter's current scanner -/
def withScanner {α : Type} (s : State) (m : Scan.SM α) : State × Except Err α :=
  let (r, sc) := m s.scanner
  ({ s with scanner := sc }, r)

/-- apply a data-only operator to the data half of the state -/
def liftVM (s : State) (f : VM → VM × Res) : State × Res :=
  let (v, r) := f s.vm
  ({ s with vm := v }, r)

def psErrS (s : State) (n : ErrName) : State × Res := (s, .err (.ps n))
def okS (s : State) : State × Res := (s, .ok)
def setStack (s : State) (st : List Obj) : State := { s with vm := { s.vm with stack := st } }
def pushS (s : State) (o : Obj) : State := { s with vm := s.vm.push o }

/-- `DictStack = DictStack[:k]` on the Go slice (may also extend it again within capacity) -/
def truncDictStack (s : VM) (k : Nat) : VM :=
  let n := s.dictStack.length
  if k ≤ n then
    { s with dictStack := s.dictStack.drop (n - k), dictGhost := (s.dictStack.take (n - k)).reverse ++ s.dictGhost }
  else
    { s with dictStack := (s.dictGhost.take (k - n)).reverse ++ s.dictStack, dictGhost := s.dictGhost.drop (k - n) }

def pushDict (s : VM) (d : Nat) : VM :=
  { s with dictStack := d :: s.dictStack, dictGhost := s.dictGhost.tail }

def defaultErrorHandler (s : State) : State × Res :=
  match s.errors with
  | [] => okS s
  | e :: _ => (s, .err (.ps e))

/-- operators that do not re-enter the interpreter -/
def pureBuiltin (id : String) (s : VM) : Option (VM × Res) :=
  match id with
  | "[" | "<<" | "mark" => some (bMark s)
  | "]" => some (bListEnd s)
  | ">>" => some (bDictEnd s)
  | "abs" => some (bAbs s)
  | "add" => some (bAdd s)
  | "and" => some (bAnd s)
  | "array" => some (bArray s)
  | "begin" => some (bBegin s)
  | "bind" => some (bBind s)
  | "cleartomark" => some (bCleartomark s)
  | "closefile" => some (bClosefile s)
  | "copy" => some (bCopy s)
  | "count" => some (bCount s)
  | "currentdict" => some (bCurrentdict s)
  | "currentfile" => some (bCurrentfile s)
  | "cvx" => some (bCvx s)
  | "def" => some (bDef s)
  | "definefont" => some (bDefinefont s)
  | "defineresource" => some (bDefineresource s)
  | "dict" => some (bDict s)
  | "dup" => some (bDup s)
  | "end" => some (bEnd s)
  | "eq" => some (bEq s)
  | "exch" => some (bExch s)
  | "executeonly" | "noaccess" | "readonly" => some (bNop s)
  | "exit" => some (s, .err .exit)
  | "stop" => some (s, .err .stop)
  | "findfont" => some (bFindfont s)
  | "findresource" => some (bFindresource s)
  | "get" => some (bGet s)
  | "getinterval" => some (bGetinterval s)
  | "index" => some (bIndex s)
  | "internaldict" => some (bInternaldict s)
  | "known" => some (bKnown s)
  | "length" => some (bLength s)
  | "load" => some (bLoad s)
  | "matrix" => some (bMatrix s)
  | "maxlength" => some (bMaxlength s)
  | "mul" => some (bMul s)
  | "ne" => some (bNe s)
  | "not" => some (bNot s)
  | "or" => some (bOr s)
  | "pop" => some (bPop s)
  | "put" => some (bPut s)
  | "putinterval" => some (bPutinterval s)
  | "roll" => some (bRoll s)
  | "string" => some (bString s)
  | "sub" => some (bSub s)
  | "type" => some (bType s)
  | "where" => some (bWhere s)
  | _ => cmapBuiltin id s

/-- `bReadstring` on the parts of the state it touches: data, scanner -/
def readstringCore (vm : VM) (sc : Scanner) (scannerDepth : Nat) : VM × Scanner × Res :=
  match vm.stack with
  | buf :: _ :: rest =>
    match buf with
    | .str r o l =>
      let vm1 := { vm with stack := rest }
      if scannerDepth == 0 then (vm1, sc, .err (.panic "readstring: no scanner")) else
      let (r1, sc2) := Scan.next sc
      let stop : Option Err := match r1 with
        | .error .eof => none
        | .error e => some e
        | .ok _ => none
      match stop with
      | some e => (vm1, sc2, .err e)
      | none =>
        let (r2, sc3) := Scan.readN l [] sc2
        match r2 with
        | .error e => (vm1, sc3, .err e)
        | .ok (bytes, e?) =>
          let vm4 := vm1.setCell r (.bytes (writeAt (vm1.getBytes r) o bytes))
          let bad : Option Err := match e? with
            | some .eof => none
            | some e => some e
            | none => none
          match bad with
          | some e => (vm4, sc3, .err e)
          | none => ({ vm4 with stack := .bool (bytes.length == l) :: .str r o bytes.length :: rest }, sc3, .ok)
    | _ => (vm, sc, .err (.ps "typecheck"))
  | _ => (vm, sc, .err (.ps "stackunderflow"))

def bReadstring (s : State) : State × Res :=
  let p := readstringCore s.vm s.scanner s.scannerDepth
  ({ s with vm := p.1, scanner := p.2.1 }, p.2.2)

/-- the interpreter's view of a scanned token: string literals get a fresh store -/
def objOfTok (s : State) : Scan.Tok → State × Obj
  | .obj o => (s, o)
  | .str bytes =>
    let (v, r) := s.vm.alloc (.bytes bytes.toArray)
    ({ s with vm := v }, .str r 0 bytes.length)

/-- Go `sort.Slice(keys, func(i, j int) bool { return keys[i] < keys[j] })` on `[]Name`: ascending in the
byte order of the names (a `Name` of the model is a `String` whose characters are the bytes, so
`String`'s order is Go's).  The keys of a dictionary are distinct, so stability does not matter. -/
def sortNames (ks : List Name) : List Name := ks.mergeSort (fun a b => decide (a ≤ b))

#guard sortNames ["b", "a", "B", "aa"] = ["B", "a", "aa", "b"]

/-- a procedure called by name takes a level of the execution stack unless the call is counted already -/
def enterLevel (counted : Bool) (s : State) : State :=
  if counted then s else { s with execDepth := s.execDepth + 1, hiDepth := max s.hiDepth (s.execDepth + 1) }

/-- … and gives it back when `executeOne` returns -/
def leaveLevel (counted : Bool) (p : State × Res) : State × Res :=
  if counted then p else ({ p.1 with execDepth := p.1.execDepth - 1 }, p.2)

mutual

/-- `executeOne(obj, execProc)` -/
def execOne : Nat → (maxOps : Nat) → State → Obj → Bool → State × Res
  | 0, _, s, _, _ => (s, .fuel)
  | fuel + 1, m, s, obj, execProc =>
    if execProc then
      if s.execDepth ≥ execDepthLimit then psErrS s "execstackoverflow"
      else
        let (s', r) := execBody fuel m { s with execDepth := s.execDepth + 1, hiDepth := max s.hiDepth (s.execDepth + 1) } obj true
        ({ s' with execDepth := s'.execDepth - 1 }, r)
    else execBody fuel m s obj false

/-- the part of `executeOne` after the depth bookkeeping -/
def execBody : Nat → (maxOps : Nat) → State → Obj → Bool → State × Res
  | 0, _, s, _, _ => (s, .fuel)
  | fuel + 1, m, s, obj, execProc =>
    if s.vm.stack.length > maxOperandStackDepth then psErrS s "stackoverflow"
    else if obj == .op "}" then
      match s.procStart with
      | [] => psErrS s "syntaxerror"
      | a :: ps =>
        let b := s.vm.stack.length
        if b < a then psErrS { s with procStart := ps } "syntaxerror"
        else
          let body := (s.vm.stack.take (b - a)).reverse
          let (v, r) := s.vm.alloc (.objs body.toArray)
          okS { s with procStart := ps, vm := { v with stack := .proc r 0 (b - a) :: s.vm.stack.drop (b - a) } }
    else if obj == .op "{" then okS { s with procStart := s.vm.stack.length :: s.procStart }
    else if !s.procStart.isEmpty then okS (pushS s obj)
    else execTail fuel m s obj execProc execProc

/-- the `recurseTail` loop; `counted` = this call of `executeOne` occupies a level of the execution stack -/
def execTail : Nat → (maxOps : Nat) → State → Obj → Bool → Bool → State × Res
  | 0, _, s, _, _, _ => (s, .fuel)
  | fuel + 1, m, s, obj, execProc, counted =>
    let s := { s with numOps := s.numOps + 1 }
    -- the exported counter saturates at `MaxOps + 1`, however often `Execute` is called again
    if m > 0 ∧ s.numOps > m then ({ s with numOps := m + 1 }, .err .limit)
    else
      match obj with
      | .op n =>
        match lookupName s.vm n with
        | none => psErrS s "undefined"
        | some v => execTail fuel m s v true counted
      | .builtin id =>
        let (s1, r) := callBuiltin fuel m s id
        match r with
        | .err (.ps name) =>
          let level := s1.errors.length
          if level < errorNestingLimit then
            let s2 := { s1 with errors := name :: s1.errors, hiErrors := max s1.hiErrors (level + 1) }
            let (s3, r3) :=
              match s2.vm.dictGet s2.vm.roots.errorDict name with
              | some handler => execOne fuel m s2 handler true
              | none => (s2, r)
            ({ s3 with errors := s3.errors.drop (s3.errors.length - level) }, r3)
          else (s1, r)
        | _ => (s1, r)
      | .proc ref off len =>
        if execProc then
          if len == 0 then okS s
          else if !counted && s.execDepth ≥ execDepthLimit then psErrS s "execstackoverflow"
          else
            -- a procedure called by name occupies a level, too (until `executeOne` returns)
            leaveLevel counted (
              let (s1, r) := runBody fuel m (enterLevel counted s) ref off 0 (len - 1)
              match r with
              | .ok =>
                match (s1.vm.getObjs ref)[off + (len - 1)]? with
                | some last => execTail fuel m s1 last false true
                | none => (s1, .err (.panic "procedure view outside its store"))
              | _ => (s1, r))
        else okS (pushS s obj)
      | _ => okS (pushS s obj)

/-- `for _, token := range o[:len(o)-1] { executeOne(token, false) }` -/
def runBody : Nat → (maxOps : Nat) → State → (ref off i todo : Nat) → State × Res
  | 0, _, s, _, _, _, _ => (s, .fuel)
  | _ + 1, _, s, _, _, _, 0 => okS s
  | fuel + 1, m, s, ref, off, i, todo + 1 =>
    match (s.vm.getObjs ref)[off + i]? with
    | none => (s, .err (.panic "procedure view outside its store"))
    | some tok =>
      let (s1, r) := execOne fuel m s tok false
      match r with
      | .ok => runBody fuel m s1 ref off (i + 1) todo
      | _ => (s1, r)

/-- call of the Go function behind a `builtin` value -/
def callBuiltin : Nat → (maxOps : Nat) → State → String → State × Res
  | 0, _, s, _ => (s, .fuel)
  | fuel + 1, m, s, id =>
    match id with
    | "exec" =>
      match s.vm.stack with
      | [] => psErrS s "stackunderflow"
      | obj :: rest =>
        let s1 := setStack s rest
        match obj with
        | .builtin b => callBuiltin fuel m s1 b
        | .proc .. => execOne fuel m s1 obj true
        | _ => psErrS s1 "typecheck"
    | "if" =>
      match s.vm.stack with
      | proc :: c :: rest =>
        match c with
        | .bool cond =>
          let s1 := setStack s rest
          if cond then execOne fuel m s1 proc true else okS s1
        | _ => psErrS s "typecheck"
      | _ => psErrS s "stackunderflow"
    | "ifelse" =>
      match s.vm.stack with
      | p2 :: p1 :: c :: rest =>
        match c with
        | .bool cond =>
          let s1 := setStack s rest
          if cond then execOne fuel m s1 p1 true else execOne fuel m s1 p2 true
        | _ => psErrS s "typecheck"
      | _ => psErrS s "stackunderflow"
    | "for" =>
      match s.vm.stack with
      | proc :: lim :: inc :: ini :: rest =>
        match ini with
        | .int initial =>
          match inc with
          | .int increment =>
            match lim with
            | .int limit => forLoop fuel m (setStack s rest) initial increment limit proc
            | _ => psErrS s "typecheck"
          | _ => psErrS s "typecheck"
        | _ => psErrS s "typecheck"
      | _ => psErrS s "stackunderflow"
    | "repeat" =>
      match s.vm.stack with
      | proc :: c :: rest =>
        match c with
        | .int count =>
          if count < 0 then psErrS s "rangecheck"
          else
            match proc with
            | .proc .. => repeatLoop fuel m (setStack s rest) count.toNat proc
            | _ => psErrS s "typecheck"
        | _ => psErrS s "typecheck"
      | _ => psErrS s "stackunderflow"
    | "loop" =>
      match s.vm.stack with
      | [] => psErrS s "stackunderflow"
      | proc :: rest => loopLoop fuel m (setStack s rest) proc
    | "forall" =>
      match s.vm.stack with
      | proc :: obj :: rest =>
        match proc with
        | .proc .. =>
          match obj with
          | .arr r o l => forallArr fuel m (setStack s rest) r o 0 l proc
          | .str r o l => forallStr fuel m (setStack s rest) r o 0 l proc
          | .dict d => forallDict fuel m (setStack s rest) d (sortNames ((s.vm.getDict d).map (·.1))) proc
          | _ => psErrS s "typecheck"
        | _ => psErrS s "typecheck"
      | _ => psErrS s "stackunderflow"
    | "readstring" => bReadstring s
    | "defaultErrorHandler" => defaultErrorHandler s
    | "eexec" =>
      match s.vm.stack with
      | [] => psErrS s "stackunderflow"
      | .file :: rest =>
        let k := s.vm.dictStack.length
        let s1 := { s with vm := pushDict { s.vm with stack := rest } s.vm.roots.systemDict }
        if s1.scannerDepth == 0 then (s1, .err (.panic "eexec: no scanner")) else
        let (s2, r) := withScanner s1 Scan.beginEexec
        match r with
        | .error e => ({ s2 with vm := truncDictStack s2.vm k }, .err e)
        | .ok _ =>
          let (s3, r3) := scanRun fuel m s2
          match r3 with
          | .ok | .err .eof =>
            let (s4, _) := withScanner s3 Scan.endEexec
            okS { s4 with vm := truncDictStack s4.vm k }
          | _ => ({ s3 with vm := truncDictStack s3.vm k }, r3)
      | _ => psErrS s "typecheck"
    | _ =>
      match pureBuiltin id s.vm with
      | some (v, r) => ({ s with vm := v }, r)
      | none => (s, .err (.panic ("unknown builtin " ++ id)))

def forLoop : Nat → (maxOps : Nat) → State → (val inc lim : Int) → Obj → State × Res
  | 0, _, s, _, _, _, _ => (s, .fuel)
  | fuel + 1, m, s, val, inc, lim, proc =>
    if (inc > 0 ∧ val > lim) ∨ (inc < 0 ∧ val < lim) then okS s
    else
      let (s1, r) := execOne fuel m (pushS s (.int val)) proc true
      match r with
      | .err .exit => okS s1
      | .ok =>
        -- the next value would lie beyond every limit (and outside the integer range)
        if (inc > 0 ∧ val > maxInt64 - inc) ∨ (inc < 0 ∧ val < minInt64 - inc) then okS s1
        else forLoop fuel m s1 (wrap64 (val + inc)) inc lim proc
      | _ => (s1, r)

def repeatLoop : Nat → (maxOps : Nat) → State → Nat → Obj → State × Res
  | 0, _, s, _, _ => (s, .fuel)
  | _ + 1, _, s, 0, _ => okS s
  | fuel + 1, m, s, n + 1, proc =>
    let (s1, r) := execOne fuel m s proc true
    match r with
    | .err .exit => okS s1
    | .ok => repeatLoop fuel m s1 n proc
    | _ => (s1, r)

def loopLoop : Nat → (maxOps : Nat) → State → Obj → State × Res
  | 0, _, s, _ => (s, .fuel)
  | fuel + 1, m, s, proc =>
    let (s1, r) := execOne fuel m s proc true
    match r with
    | .err .exit => okS s1
    | .ok => loopLoop fuel m s1 proc
    | _ => (s1, r)

def forallArr : Nat → (maxOps : Nat) → State → (ref off i todo : Nat) → Obj → State × Res
  | 0, _, s, _, _, _, _, _ => (s, .fuel)
  | _ + 1, _, s, _, _, _, 0, _ => okS s
  | fuel + 1, m, s, ref, off, i, todo + 1, proc =>
    match (s.vm.getObjs ref)[off + i]? with
    | none => (s, .err (.panic "array view outside its store"))
    | some v =>
      let (s1, r) := execOne fuel m (pushS s v) proc true
      match r with
      | .err .exit => okS s1
      | .ok => forallArr fuel m s1 ref off (i + 1) todo proc
      | _ => (s1, r)

def forallStr : Nat → (maxOps : Nat) → State → (ref off i todo : Nat) → Obj → State × Res
  | 0, _, s, _, _, _, _, _ => (s, .fuel)
  | _ + 1, _, s, _, _, _, 0, _ => okS s
  | fuel + 1, m, s, ref, off, i, todo + 1, proc =>
    match (s.vm.getBytes ref)[off + i]? with
    | none => (s, .err (.panic "string view outside its store"))
    | some c =>
      let (s1, r) := execOne fuel m (pushS s (.int c.toNat)) proc true
      match r with
      | .err .exit => okS s1
      | .ok => forallStr fuel m s1 ref off (i + 1) todo proc
      | _ => (s1, r)

/-- `for _, key := range keys { val, ok := obj[key]; … }` over the sorted key snapshot `keys` (`sortNames`) -/
def forallDict : Nat → (maxOps : Nat) → State → Nat → List Name → Obj → State × Res
  | 0, _, s, _, _, _ => (s, .fuel)
  | _ + 1, _, s, _, [], _ => okS s
  | fuel + 1, m, s, d, k :: ks, proc =>
    match s.vm.dictGet d k with
    | none => forallDict fuel m s d ks proc
    | some v =>
      let (s1, r) := execOne fuel m (setStack s (v :: .name k :: s.vm.stack)) proc true
      match r with
      | .err .exit => okS s1
      | .ok => forallDict fuel m s1 d ks proc
      | _ => (s1, r)

/-- `executeScanner(s)` on the current scanner -/
def scanRun : Nat → (maxOps : Nat) → State → State × Res
  | 0, _, s => (s, .fuel)
  | fuel + 1, m, s =>
    let start : State × Option Err :=
      if s.checkStart then
        let (s1, r) := withScanner s (Scan.peekN 2 3)
        match r with
        | .ok head =>
          if head == [37, 33] then ({ s1 with checkStart := false }, none)
          else
            match (if head.length < 2 then s1.scanner.err else none) with
            | none | some .eof => (s1, some .noPS)
            | some e => (s1, some e)
        | .error e => (s1, some e)
      else (s, none)
    match start with
    | (s1, some e) => (s1, .err e)
    | (s1, none) =>
      let (s2, r) := scanLoop fuel m { s1 with scannerDepth := s1.scannerDepth + 1 }
      ({ s2 with scannerDepth := s2.scannerDepth - 1 }, r)

def scanLoop : Nat → (maxOps : Nat) → State → State × Res
  | 0, _, s => (s, .fuel)
  | fuel + 1, m, s =>
    let (s1, r) := withScanner s Scan.scanToken
    match r with
    | .error .eof => okS s1
    | .error e => (s1, .err e)
    | .ok tok =>
      let (s2, o) := objOfTok s1 tok
      let (s3, r3) := execOne fuel m s2 o false
      match r3 with
      | .ok => scanLoop fuel m s3
      | _ => (s3, r3)

end

/-- `Interpreter.Execute(r)` with a source given by its byte string and final error -/
def execute (fuel : Nat) (maxOps : Nat) (s : State) (input : List UInt8) (fault : Option String) : State × Res :=
  let s0 := { s with scanner := { src := input, fault := fault } }
  let (s1, r) := scanRun fuel maxOps s0
  -- the structured comments seen so far are kept, whether or not the call fails
  let s2 := { s1 with dsc := s1.dsc ++ s1.scanner.dsc }
  match r with
  | .err .exit => (s2, .err (.ps "invalidexit"))
  | .err .stop | .ok => (s2, .ok)
  | _ => (s2, r)

end PsVerif.Model
