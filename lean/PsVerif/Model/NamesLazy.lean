/-
Model of the LAZY loader behind `type1/names` (`names.go`: `glyphMap`, `getFile`, `lookup`,
`lookupSeq`).  `Model/Names.lean` works over pure tables; the Go code fills its maps on first
use: `nameToRune[file]` holds the single-character entries of a list file once that file has
been loaded, and ONE shared map `nameToSeq[file ++ "/" ++ name]` receives, as a side effect of
loading, the entries denoting several characters.  Here the loader is a state machine over an
abstract parameter `files` (file name -> entries in line order), so that a theorem can say that
the answers do not depend on what was looked up before.

Level of abstraction: one entry `(name, cps)` stands for one non-comment line `name;cps`.  As in
the Go code, an entry with two or more code points goes to `nameToSeq` (`len(codes) > 1`), any
other entry is a single-character entry (with no code point at all `strconv.ParseInt` fails, the
error is ignored and the code is 0); a later line for the same name overwrites an earlier one
(Go map assignment); the two `Tcommaaccent`/`tcommaaccent` corrections apply to single entries.
A file that is not in `files` is read as an empty file (the Go code panics there; its only
callers pass the constants "glyphlist" and "zapfdingbats").

Core only, executable.
-/
namespace PsVerif.Model.NamesLazy

/-- the entries of one list file, in line order: (glyph name, code points) -/
abbrev Entries := List (String × List Nat)
/-- the embedded files: file name -> entries (the first pair for a name is the file) -/
abbrev Files := List (String × Entries)

/-! ### association lists standing for Go maps -/

/-- `m[k]` with the comma-ok result -/
def get {β : Type} : List (String × β) → String → Option β
  | [], _ => none
  | (k', v) :: rest, k => if k' = k then some v else get rest k

/-- `m[k] = v`: replaces the value of an existing key, otherwise adds the key -/
def put {β : Type} : List (String × β) → String → β → List (String × β)
  | [], k, v => [(k, v)]
  | (k', v') :: rest, k, v => if k' = k then (k, v) :: rest else (k', v') :: put rest k v

/-- the state of `glyphMap` (without `runeToName`, which `getFile` never touches) -/
structure GM where
  nameToRune : List (String × List (String × Nat))
  nameToSeq : List (String × List Nat)
deriving DecidableEq, Repr

/-- the value of `var glyph`: two empty, non-nil maps -/
def GM.empty : GM := { nameToRune := [], nameToSeq := [] }

/-- the key of the shared sequence table: `file + "/" + name` -/
def key (file name : String) : String := file ++ "/" ++ name

/-- "fix up some swapped character codes" -/
def fixCode (name : String) (code : Nat) : Nat :=
  if name = "Tcommaaccent" ∧ code = 0x0162 then 0x021A
  else if name = "tcommaaccent" ∧ code = 0x0163 then 0x021B
  else code

/-- the entries of a file (`glyphData.Open`); an unknown file reads as empty -/
def content (files : Files) (file : String) : Entries := (get files file).getD []

/-- the scanner loop of `getFile`: `fMap` and `gm.nameToSeq` are updated line by line -/
def loadLines (file : String) :
    Entries → List (String × Nat) → List (String × List Nat) →
      List (String × Nat) × List (String × List Nat)
  | [], fMap, sq => (fMap, sq)
  | (name, cps) :: rest, fMap, sq =>
    if cps.length > 1 then
      loadLines file rest fMap (put sq (key file name) cps)
    else
      loadLines file rest (put fMap name (fixCode name (cps.headD 0))) sq

/-- `gm.getFile(file)`: the new state and the file's map.  A file that is already in
`nameToRune` (`fMap != nil`) is returned as it is. -/
def getFile (files : Files) (gm : GM) (file : String) : GM × List (String × Nat) :=
  match get gm.nameToRune file with
  | some fMap => (gm, fMap)
  | none =>
    let r := loadLines file (content files file) [] gm.nameToSeq
    ({ nameToRune := put gm.nameToRune file r.1, nameToSeq := r.2 }, r.1)

/-- `gm.lookup(file, name)` -/
def lookup (files : Files) (gm : GM) (file name : String) : GM × Option Nat :=
  let r := getFile files gm file
  (r.1, get r.2 name)

/-- `gm.lookupSeq(file, name)`: first the single entries, then the shared sequence table -/
def lookupSeq (files : Files) (gm : GM) (file name : String) : GM × Option (List Nat) :=
  let r := getFile files gm file
  match get r.2 name with
  | some c => (r.1, some [c])
  | none => (r.1, get r.1.nameToSeq (key file name))

/-! ### the pure reference: computed from `files` alone, no state -/

/-- the single-character entry for `name`: the LAST such line wins -/
def pureSingle : Entries → String → Option Nat
  | [], _ => none
  | (n, cps) :: rest, name =>
    match pureSingle rest name with
    | some c => some c
    | none => if n = name ∧ ¬ cps.length > 1 then some (fixCode n (cps.headD 0)) else none

/-- the sequence entry for `name`: the LAST such line wins -/
def pureSeq : Entries → String → Option (List Nat)
  | [], _ => none
  | (n, cps) :: rest, name =>
    match pureSeq rest name with
    | some s => some s
    | none => if n = name ∧ cps.length > 1 then some cps else none

def pureLookup (files : Files) (file name : String) : Option Nat :=
  pureSingle (content files file) name

def pureLookupSeq (files : Files) (file name : String) : Option (List Nat) :=
  match pureSingle (content files file) name with
  | some c => some [c]
  | none => pureSeq (content files file) name

/-! ### histories -/

/-- one operation `(seq?, file, name)`: `true` is `lookupSeq`, `false` is `lookup` (whose answer
is wrapped as a one-element list) -/
def step (files : Files) (gm : GM) (op : Bool × String × String) : GM × Option (List Nat) :=
  if op.1 then lookupSeq files gm op.2.1 op.2.2
  else
    let r := lookup files gm op.2.1 op.2.2
    (r.1, r.2.map (fun c => [c]))

def runFrom (files : Files) : GM → List (Bool × String × String) → List (Option (List Nat))
  | _, [] => []
  | gm, op :: ops =>
    let r := step files gm op
    r.2 :: runFrom files r.1 ops

/-- the answers of a history of look-ups on one `glyphMap`, starting from the initial state -/
def runHistory (files : List (String × List (String × List Nat)))
    (ops : List (Bool × String × String)) : List (Option (List Nat)) :=
  runFrom files GM.empty ops

def pureStep (files : Files) (op : Bool × String × String) : Option (List Nat) :=
  if op.1 then pureLookupSeq files op.2.1 op.2.2
  else (pureLookup files op.2.1 op.2.2).map (fun c => [c])

/-- what the pure tables say for each operation -/
def pureAnswers (files : List (String × List (String × List Nat)))
    (ops : List (Bool × String × String)) : List (Option (List Nat)) :=
  ops.map (pureStep files)

/-! ### two defective variants (seeded bugs), kept for the negative results -/

/-- variant (a): `nameToSeq` is consulted BEFORE `getFile` has loaded the file -/
def lookupSeqEarly (files : Files) (gm : GM) (file name : String) : GM × Option (List Nat) :=
  let seq := get gm.nameToSeq (key file name)
  let r := getFile files gm file
  match get r.2 name with
  | some c => (r.1, some [c])
  | none => (r.1, seq)

/-- variant (b): the sequence entries of a file are installed only if `nameToSeq` is still
empty, i.e. only by the first file loaded -/
def getFileFirstOnly (files : Files) (gm : GM) (file : String) : GM × List (String × Nat) :=
  match get gm.nameToRune file with
  | some fMap => (gm, fMap)
  | none =>
    let r := loadLines file (content files file) [] []
    ({ nameToRune := put gm.nameToRune file r.1,
       nameToSeq := if gm.nameToSeq.isEmpty then r.2 else gm.nameToSeq }, r.1)

def lookupSeqFirstOnly (files : Files) (gm : GM) (file name : String) :
    GM × Option (List Nat) :=
  let r := getFileFirstOnly files gm file
  match get r.2 name with
  | some c => (r.1, some [c])
  | none => (r.1, get r.1.nameToSeq (key file name))

end PsVerif.Model.NamesLazy
