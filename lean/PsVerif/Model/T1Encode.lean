import PsVerif.Model.T1Num
/-
Model of `type1/t1encode.go`: `appendNumber` and `Glyph.encodeCharString`, over exact
rationals (`Rat`).  Go computes in `float64`; the rounding of float arithmetic is not
modelled (see DESIGN.md section 7) — on inputs whose arithmetic is exact in float64
(integers and small dyadic fractions) the two coincide, which is what the
correspondence suite `numbers` checks byte for byte.
-/
namespace PsVerif.Model.T1Encode
open PsVerif.Model.T1Num

/-- Go `math.Round`: nearest integer, halves away from zero. -/
def roundHalfAway (x : Rat) : Int :=
  if 0 ≤ x then (x + 1/2).floor else -((-x + 1/2).floor)

def maxInt32 : Int := 2147483647
def minInt32 : Int := -2147483648

/-- the clamp applied to `pf` before the conversion to `int32` -/
def clamp32 (p : Int) : Int :=
  if p > maxInt32 then maxInt32 else if p < minInt32 then minInt32 else p

/-- numerator chosen for denominator `q` and the resulting distance; note that Go
computes the distance from the *unclamped* `pf`. -/
def candidate (x : Rat) (q : Nat) : Int × Rat :=
  let pf := roundHalfAway (x * q)
  (clamp32 pf, ((pf : Rat) / q - x).abs)

/-- state of the search loop: best distance so far (`none` = +Inf), best p, best q -/
structure Best where
  delta : Option Rat
  p : Int
  q : Nat
  deriving Repr

/-- one iteration of `for q := 1; q <= 107; q++` with the `delta <= bestDelta` update -/
def stepBest (x : Rat) (b : Best) (q : Nat) : Best :=
  let c := candidate x q
  match b.delta with
  | none => { delta := some c.2, p := c.1, q := q }
  | some d => if c.2 ≤ d then { delta := some c.2, p := c.1, q := q } else b

/-- the largest denominator tried -/
def maxQ : Nat := 107

def bestApprox (x : Rat) : Best :=
  (List.range' 1 maxQ).foldl (stepBest x) { delta := none, p := 0, q := 0 }

/-- `x` is an integer that fits `int32` (`float64(int32(x)) == x`) -/
def isInt32 (x : Rat) : Bool := x.den == 1 && decide (inInt32 x.num)

def opDiv : Nat := 12 * 256 + 12

/-- `appendNumber(buf, x)`: bytes appended and the value the decoder will see -/
def appendNumber (x : Rat) : List Nat × Rat :=
  if isInt32 x then (appendInt x.num, x)
  else
    let b := bestApprox x
    (appendInt b.p ++ appendInt b.q ++ appendOp opDiv, (b.p : Rat) / b.q)

inductive Cmd where
  | moveTo (x y : Rat)
  | lineTo (x y : Rat)
  | curveTo (x1 y1 x2 y2 x3 y3 : Rat)
  | closePath
  deriving Repr, DecidableEq

/-- the instruction emitted for a command, with the *encoded* operand values -/
inductive Instr where
  | hmoveto (dx : Rat) | vmoveto (dy : Rat) | rmoveto (dx dy : Rat)
  | hlineto (dx : Rat) | vlineto (dy : Rat) | rlineto (dx dy : Rat)
  | hvcurveto (dxa dxb dyb dyc : Rat)
  | vhcurveto (dya dxb dyb dxc : Rat)
  | rrcurveto (dxa dya dxb dyb dxc dyc : Rat)
  | closepath
  deriving Repr, DecidableEq

/-- the tolerance of the h/v shortcuts, `1e-6` -/
def eps : Rat := 1 / 1000000

/-- Encoding of one command from the tracked position, parametric in the number
approximation `ap : Rat → Rat` (value actually encoded for a requested value).
Mirrors the `switch cmd.Op` of `encodeCharString`, after the fix which requires exact
equality for the second test of the short curve forms. -/
def encodeCmd (ap : Rat → Rat) (px py : Rat) : Cmd → Instr × Rat × Rat
  | .moveTo x y =>
    if (y - py).abs < eps then
      let dx := ap (x - px); (.hmoveto dx, px + dx, py)
    else if (x - px).abs < eps then
      let dy := ap (y - py); (.vmoveto dy, px, py + dy)
    else
      let dx := ap (x - px); let dy := ap (y - py); (.rmoveto dx dy, px + dx, py + dy)
  | .lineTo x y =>
    if (y - py).abs < eps then
      let dx := ap (x - px); (.hlineto dx, px + dx, py)
    else if (x - px).abs < eps then
      let dy := ap (y - py); (.vlineto dy, px, py + dy)
    else
      let dx := ap (x - px); let dy := ap (y - py); (.rlineto dx dy, px + dx, py + dy)
  | .curveTo x1 y1 x2 y2 x3 y3 =>
    if (y1 - py).abs < eps ∧ x3 = x2 then
      let dxa := ap (x1 - px)
      let dxb := ap (x2 - px - dxa)
      let dyb := ap (y2 - py)
      let dyc := ap (y3 - py - dyb)
      (.hvcurveto dxa dxb dyb dyc, px + (dxa + dxb), py + (dyb + dyc))
    else if (x1 - px).abs < eps ∧ y3 = y2 then
      let dya := ap (y1 - py)
      let dxb := ap (x2 - px)
      let dyb := ap (y2 - py - dya)
      let dxc := ap (x3 - px - dxb)
      (.vhcurveto dya dxb dyb dxc, px + (dxb + dxc), py + (dya + dyb))
    else
      let dxa := ap (x1 - px)
      let dya := ap (y1 - py)
      let dxb := ap (x2 - px - dxa)
      let dyb := ap (y2 - py - dya)
      let dxc := ap (x3 - px - dxa - dxb)
      let dyc := ap (y3 - py - dya - dyb)
      (.rrcurveto dxa dya dxb dyb dxc dyc, px + (dxa + dxb + dxc), py + (dya + dyb + dyc))
  | .closePath => (.closepath, px, py)

def encodeCmds (ap : Rat → Rat) : Rat → Rat → List Cmd → List Instr
  | _, _, [] => []
  | px, py, c :: cs =>
    let r := encodeCmd ap px py c
    r.1 :: encodeCmds ap r.2.1 r.2.2 cs

/-- What the charstring interpreter reconstructs from one instruction at position
`(px, py)` (the `rMoveTo`/`rLineTo`/`rCurveTo` closures of `decodeCharString`). -/
def decodeInstr (px py : Rat) : Instr → Cmd × Rat × Rat
  | .hmoveto dx => (.moveTo (px + dx) py, px + dx, py)
  | .vmoveto dy => (.moveTo px (py + dy), px, py + dy)
  | .rmoveto dx dy => (.moveTo (px + dx) (py + dy), px + dx, py + dy)
  | .hlineto dx => (.lineTo (px + dx) py, px + dx, py)
  | .vlineto dy => (.lineTo px (py + dy), px, py + dy)
  | .rlineto dx dy => (.lineTo (px + dx) (py + dy), px + dx, py + dy)
  | .hvcurveto dxa dxb dyb dyc =>
    let xa := px + dxa; let ya := py
    let xb := xa + dxb; let yb := ya + dyb
    (.curveTo xa ya xb yb xb (yb + dyc), xb, yb + dyc)
  | .vhcurveto dya dxb dyb dxc =>
    let xa := px; let ya := py + dya
    let xb := xa + dxb; let yb := ya + dyb
    (.curveTo xa ya xb yb (xb + dxc) yb, xb + dxc, yb)
  | .rrcurveto dxa dya dxb dyb dxc dyc =>
    let xa := px + dxa; let ya := py + dya
    let xb := xa + dxb; let yb := ya + dyb
    (.curveTo xa ya xb yb (xb + dxc) (yb + dyc), xb + dxc, yb + dyc)
  | .closepath => (.closePath, px, py)

def decodeInstrs : Rat → Rat → List Instr → List Cmd
  | _, _, [] => []
  | px, py, i :: is =>
    let r := decodeInstr px py i
    r.1 :: decodeInstrs r.2.1 r.2.2 is

/-- bytes of one instruction as `encodeCharString` appends them -/
def num (x : Rat) : List Nat := (appendNumber x).1
def val (x : Rat) : Rat := (appendNumber x).2

/-- byte-level encoder of the path part: like `encodeCmds (val)` but producing bytes. -/
def encodeCmdBytes (px py : Rat) : Cmd → List Nat × Rat × Rat
  | .moveTo x y =>
    if (y - py).abs < eps then
      (num (x - px) ++ appendOp 22, px + val (x - px), py)
    else if (x - px).abs < eps then
      (num (y - py) ++ appendOp 4, px, py + val (y - py))
    else
      (num (x - px) ++ num (y - py) ++ appendOp 21, px + val (x - px), py + val (y - py))
  | .lineTo x y =>
    if (y - py).abs < eps then
      (num (x - px) ++ appendOp 6, px + val (x - px), py)
    else if (x - px).abs < eps then
      (num (y - py) ++ appendOp 7, px, py + val (y - py))
    else
      (num (x - px) ++ num (y - py) ++ appendOp 5, px + val (x - px), py + val (y - py))
  | .curveTo x1 y1 x2 y2 x3 y3 =>
    if (y1 - py).abs < eps ∧ x3 = x2 then
      let dxa := val (x1 - px)
      let dxb := val (x2 - px - dxa)
      let dyb := val (y2 - py)
      let dyc := val (y3 - py - dyb)
      (num (x1 - px) ++ num (x2 - px - dxa) ++ num (y2 - py) ++ num (y3 - py - dyb) ++ appendOp 31,
        px + (dxa + dxb), py + (dyb + dyc))
    else if (x1 - px).abs < eps ∧ y3 = y2 then
      let dya := val (y1 - py)
      let dxb := val (x2 - px)
      let dyb := val (y2 - py - dya)
      let dxc := val (x3 - px - dxb)
      (num (y1 - py) ++ num (x2 - px) ++ num (y2 - py - dya) ++ num (x3 - px - dxb) ++ appendOp 30,
        px + (dxb + dxc), py + (dya + dyb))
    else
      let dxa := val (x1 - px)
      let dya := val (y1 - py)
      let dxb := val (x2 - px - dxa)
      let dyb := val (y2 - py - dya)
      let dxc := val (x3 - px - dxa - dxb)
      let dyc := val (y3 - py - dya - dyb)
      (num (x1 - px) ++ num (y1 - py) ++ num (x2 - px - dxa) ++ num (y2 - py - dya)
          ++ num (x3 - px - dxa - dxb) ++ num (y3 - py - dya - dyb) ++ appendOp 8,
        px + (dxa + dxb + dxc), py + (dya + dyb + dyc))
  | .closePath => (appendOp 9, px, py)

def encodePathBytes : Rat → Rat → List Cmd → List Nat
  | _, _, [] => []
  | px, py, c :: cs =>
    let r := encodeCmdBytes px py c
    r.1 ++ encodePathBytes r.2.1 r.2.2 cs

/-- hint pairs: `appendInt a; appendInt (b - a); op` for consecutive pairs -/
def encodeStems (op : Nat) : List Int → List Nat
  | a :: b :: rest => appendInt a ++ appendInt (b - a) ++ appendOp op ++ encodeStems op rest
  | _ => []

structure Glyph where
  cmds : List Cmd
  hstem : List Int
  vstem : List Int

/-- `Glyph.encodeCharString(wx, wy)` -/
def encodeCharString (g : Glyph) (wx wy : Int) : List Nat :=
  (if wy = 0 then appendInt 0 ++ appendInt wx ++ appendOp 13
   else appendInt 0 ++ appendInt 0 ++ appendInt wx ++ appendInt wy ++ appendOp (12 * 256 + 7))
  ++ encodeStems 1 g.hstem ++ encodeStems 3 g.vstem
  ++ encodePathBytes 0 0 g.cmds ++ appendOp 14

end PsVerif.Model.T1Encode
