import PsVerif.Model.Obj
import PsVerif.Model.Cipher
import PsVerif.Base.SoftFloat
/-
Model of `scanner.go` (and the scanner half of `eexec.go`), function by function.
The buffering layer (`refill`, 512-byte buffer) is modelled separately in `Model/Refill.lean`;
here the scanner sees the remaining byte string `src` followed by the reader's final error.
Loops take a fuel argument; every iteration consumes input, so `src.length + peek.length + 8`
always suffices (running out yields `Err.other "scanner-fuel"`, which never happens).
-/
namespace PsVerif.Model.Scan
open PsVerif.Model

abbrev SM := ExceptT Err (StateM Scanner)

def getS : SM Scanner := fun s => (.ok s, s)
def modS (f : Scanner → Scanner) : SM Unit := fun s => (.ok (), f s)
def fail {α : Type} (e : Err) : SM α := fun s => (.error e, s)

/-- run and capture the error instead of propagating it -/
def attempt {α : Type} (m : SM α) : SM (Except Err α) := fun s =>
  let (r, s') := m s
  (.ok r, s')

def syntaxErr : Err := .ps "syntaxerror"

/-- `readByteRaw`: replayed peek bytes first, then the source, then the sticky error -/
def readByteRaw : SM UInt8 := fun s =>
  if s.regurgitate && !s.peek.isEmpty then
    match s.peek with
    | b :: rest => (.ok b, { s with peek := rest })
    | [] => (.error (.panic "unreachable"), s)
  else
    match s.err with
    | some e =>
      -- `refill` returns the sticky error as soon as the buffer is exhausted
      match s.src with
      | b :: rest => (.ok b, { s with src := rest })   -- bytes delivered together with the error
      | [] => (.error e, s)
    | none =>
      match s.src with
      | b :: rest => (.ok b, { s with src := rest })
      | [] =>
        let e : Err := match s.fault with | none => .eof | some t => .io t
        (.error e, { s with err := some e })

def hexNibble (b : UInt8) : Option UInt8 :=
  if 48 ≤ b ∧ b ≤ 57 then some (b - 48)
  else if 65 ≤ b ∧ b ≤ 70 then some (b - 65 + 10)
  else if 97 ≤ b ∧ b ≤ 102 then some (b - 97 + 10)
  else none

/-- `readByteEexec` in hex mode: two hex digits, skipping bytes ≤ 32 -/
def readHexPair : Nat → Nat → UInt8 → SM UInt8
  | 0, _, _ => fail (.other "scanner-fuel")
  | fuel + 1, i, out =>
    if i ≥ 2 then pure out
    else do
      let b ← readByteRaw
      if b ≤ 32 then readHexPair fuel i out
      else
        match hexNibble b with
        | some n => readHexPair fuel (i + 1) (out <<< 4 ||| n)
        | none => fail (.other "invalid hex digit")

def fuelOf (s : Scanner) : Nat := s.src.length + s.peek.length + 8

def readByteEexec : SM UInt8 := do
  let s ← getS
  if s.eexec == 2 then readByteRaw else readHexPair (fuelOf s) 0 0

def readByte : SM UInt8 := do
  let s ← getS
  if s.eexec == 0 then readByteRaw
  else
    let b ← readByteEexec
    let s ← getS
    let (p, r') := Cipher.decStep s.r b
    modS (fun s => { s with r := r' })
    pure p

/-- `Next` -/
def next : SM UInt8 := do
  let s ← getS
  let b ← (if !s.peek.isEmpty && !s.regurgitate then
      match s.peek with
      | b :: rest => do modS (fun s => { s with peek := rest }); pure b
      | [] => fail (.panic "unreachable")
    else readByte)
  modS (fun s =>
    let s := if s.crSeen && b == 10 then s
             else if b == 10 || b == 13 then { s with line := s.line + 1, col := 0 }
             else { s with col := s.col + 1 }
    { s with crSeen := (b == 13) })
  pure b

/-- `Peek` -/
def peek : SM UInt8 := do
  let s ← getS
  match s.peek with
  | b :: _ => pure b
  | [] =>
    let b ← readByte
    modS (fun s => { s with peek := s.peek ++ [b] })
    pure b

/-- `PeekN`: never fails; returns at most `n` peeked bytes -/
def peekN (n : Nat) : Nat → SM (List UInt8)
  | 0 => do let s ← getS; pure (s.peek.take n)
  | fuel + 1 => do
    let s ← getS
    if s.peek.length ≥ n then pure (s.peek.take n)
    else
      match ← attempt readByte with
      | .error _ => do let s ← getS; pure s.peek
      | .ok b => do
        modS (fun s => { s with peek := s.peek ++ [b] })
        peekN n fuel

def lookingAt (pat : List UInt8) : SM Bool := do
  let bb ← peekN pat.length (pat.length + 1)
  pure (bb == pat)

def skipByte : SM Unit := do let _ ← attempt next; pure ()

def skipN : Nat → SM Unit
  | 0 => pure ()
  | n + 1 => do skipByte; skipN n

def skipRequiredByte (expected : UInt8) : SM Unit := do
  let seen ← next
  if seen != expected then fail syntaxErr

def skipOptionalByte (b : UInt8) : SM Unit := do
  match ← attempt peek with
  | .ok nb => if nb == b then skipByte
  | .error _ => pure ()

def skipToEOL : Nat → SM Unit
  | 0 => pure ()
  | fuel + 1 => do
    match ← attempt next with
    | .error _ => pure ()
    | .ok b =>
      if b == 10 || b == 12 then pure ()   -- LF or FF end a comment
      else if b == 13 then skipOptionalByte 10
      else skipToEOL fuel

def skipComment : SM Unit := do
  match ← attempt (skipRequiredByte 37) with
  | .ok _ => do let s ← getS; skipToEOL (fuelOf s)
  | .error _ => pure ()

def isRegular (b : UInt8) : Bool :=
  if b ≤ 32 then false
  else !(b == 40 || b == 41 || b == 60 || b == 62 || b == 91 || b == 93 || b == 123 || b == 125 || b == 47 || b == 37)

def bytesToString (bs : List UInt8) : String := String.ofList (bs.map (fun b => Char.ofNat b.toNat))

/-- `readCommentKey` -/
def readCommentKey : Nat → List UInt8 → SM (List UInt8)
  | 0, acc => pure acc
  | fuel + 1, acc => do
    match ← attempt peek with
    | .error .eof => pure acc
    | .error e => fail e
    | .ok b =>
      if b ≤ 32 then pure acc
      else do
        skipByte
        if b == 58 then pure acc else readCommentKey fuel (acc ++ [b])

def skipBlanks : Nat → SM Unit
  | 0 => pure ()
  | fuel + 1 => do
    match ← attempt peek with
    | .error .eof => pure ()
    | .error e => fail e
    | .ok b =>
      if b == 10 || b == 13 || b == 12 || b > 32 then pure ()
      else do skipByte; skipBlanks fuel

def readLine : Nat → List UInt8 → SM (List UInt8)
  | 0, acc => pure acc
  | fuel + 1, acc => do
    match ← attempt next with
    | .error .eof => pure acc
    | .error e => fail e
    | .ok b =>
      if b == 10 || b == 12 then pure acc
      else if b == 13 then do skipOptionalByte 10; pure acc
      else readLine fuel (acc ++ [b])

/-- `readCommentValue` (with `%%+` continuation lines) -/
def readCommentValue : Nat → List UInt8 → SM (List UInt8)
  | 0, acc => pure acc
  | fuel + 1, acc => do
    let s ← getS
    skipBlanks (fuelOf s)
    let s ← getS
    let acc ← readLine (fuelOf s) acc
    if ← lookingAt [37, 37, 43] then do
      skipN 3
      readCommentValue fuel (acc ++ [32])
    else pure acc

/-- `readStructuredComment`: `none` when the key is empty (or not a `%%` comment) -/
def readStructuredComment : SM (Option (List UInt8 × List UInt8)) := do
  if !(← lookingAt [37, 37]) then pure none
  else do
    skipN 2
    let s ← getS
    match ← attempt (readCommentKey (fuelOf s) []) with
    | .error _ => do let s ← getS; skipToEOL (fuelOf s); pure none
    | .ok key =>
      if key.isEmpty then do let s ← getS; skipToEOL (fuelOf s); pure none
      else do
        let s ← getS
        match ← attempt (readCommentValue (fuelOf s) []) with
        | .error _ => pure none
        | .ok val => pure (some (key, val))

/-- `SkipWhiteSpace` -/
def skipWhiteSpace : Nat → SM Unit
  | 0 => fail (.other "scanner-fuel")
  | fuel + 1 => do
    let b ← peek
    if b ≤ 32 then do skipByte; skipWhiteSpace fuel
    else if b == 37 then do
      let s ← getS
      if s.col == 0 && (← lookingAt [37, 37]) then do
        match ← readStructuredComment with
        | some (k, v) => modS (fun s => { s with dsc := s.dsc ++ [(bytesToString k, bytesToString v)] })
        | none => pure ()
        skipWhiteSpace fuel
      else do
        skipComment
        skipWhiteSpace fuel
    else pure ()

/-- up to two further octal digits of a `\ddd` escape -/
def readOctal : Nat → UInt8 → SM UInt8
  | 0, oct => pure oct
  | n + 1, oct => do
    match ← attempt peek with
    | .error .eof => pure oct
    | .error e => fail e
    | .ok b =>
      if b < 48 || b > 55 then pure oct
      else do skipByte; readOctal n (oct * 8 + (b - 48))

/-- body of `ReadString` after the opening parenthesis -/
def readStringBody : Nat → List UInt8 → Nat → Bool → SM (List UInt8)
  | 0, _, _, _ => fail (.other "scanner-fuel")
  | fuel + 1, res, level, ignoreLF => do
    let b ← next
    if ignoreLF && b == 10 then readStringBody fuel res level false
    else if b == 40 then readStringBody fuel (res ++ [b]) (level + 1) false
    else if b == 41 then
      if level == 1 then pure res else readStringBody fuel (res ++ [b]) (level - 1) false
    else if b == 92 then do
      let e ← next
      if e == 110 then readStringBody fuel (res ++ [10]) level false
      else if e == 114 then readStringBody fuel (res ++ [13]) level false
      else if e == 116 then readStringBody fuel (res ++ [9]) level false
      else if e == 98 then readStringBody fuel (res ++ [8]) level false
      else if e == 102 then readStringBody fuel (res ++ [12]) level false
      else if e == 40 || e == 41 || e == 92 then readStringBody fuel (res ++ [e]) level false
      else if e == 10 then readStringBody fuel res level false
      else if e == 13 then readStringBody fuel res level true
      else if 48 ≤ e && e ≤ 55 then do
        let oct ← readOctal 2 (e - 48)
        readStringBody fuel (res ++ [oct]) level false
      else readStringBody fuel (res ++ [e]) level false
    else if b == 13 then readStringBody fuel (res ++ [10]) level true
    else readStringBody fuel (res ++ [b]) level false

def readString : SM (List UInt8) := do
  skipRequiredByte 40
  let s ← getS
  readStringBody (fuelOf s) [] 1 false

def readHexBody : Nat → List UInt8 → Bool → UInt8 → SM (List UInt8)
  | 0, _, _, _ => fail (.other "scanner-fuel")
  | fuel + 1, res, first, hi => do
    let b ← next
    if b == 62 then pure (if first then res else res ++ [hi])
    else if b ≤ 32 then readHexBody fuel res first hi
    else
      match hexNibble b with
      | none => fail syntaxErr
      | some lo =>
        if first then readHexBody fuel res false (lo <<< 4)
        else readHexBody fuel (res ++ [hi ||| lo]) true 0

def readHexString : SM (List UInt8) := do
  skipRequiredByte 60
  let s ← getS
  readHexBody (fuelOf s) [] true 0

def be32 (v : Nat) : List UInt8 :=
  [UInt8.ofNat (v / 16777216 % 256), UInt8.ofNat (v / 65536 % 256), UInt8.ofNat (v / 256 % 256), UInt8.ofNat (v % 256)]

/-- groups of `ReadBase85String`; `val` is the `uint64` accumulator (never wraps: ≤ 85^5) -/
def readA85Body : Nat → List UInt8 → Nat → Nat → SM (List UInt8 × Nat × Nat)
  | 0, _, _, _ => fail (.other "scanner-fuel")
  | fuel + 1, res, pos, val => do
    let b ← next
    if b == 126 then pure (res, pos, val)
    else if b ≤ 32 then readA85Body fuel res pos val
    else if b == 122 && pos == 0 then readA85Body fuel (res ++ [0, 0, 0, 0]) pos val
    else if 33 ≤ b && b ≤ 117 then
      let val := val * 85 + (b - 33).toNat
      if pos + 1 == 5 then
        if val > 4294967295 then fail syntaxErr
        else readA85Body fuel (res ++ be32 val) 0 0
      else readA85Body fuel res (pos + 1) val
    else fail syntaxErr

def padA85 : Nat → Nat → Nat
  | 0, val => val
  | n + 1, val => padA85 n (val * 85 + 84)

def readBase85String : SM (List UInt8) := do
  skipRequiredByte 60
  skipRequiredByte 126
  let s ← getS
  let (res, pos, val) ← readA85Body (fuelOf s) [] 0 0
  let res ←
    (if pos == 0 then pure res
     else if pos == 1 then fail syntaxErr
     else
       let v := padA85 (5 - pos) val
       if v > 4294967295 then fail syntaxErr
       else pure (res ++ (be32 v).take (pos - 1)))
  skipRequiredByte 62
  pure res

/-- regular characters following the first byte of a name -/
def readRegular : Nat → List UInt8 → SM (List UInt8)
  | 0, acc => pure acc
  | fuel + 1, acc => do
    match ← attempt peek with
    | .error .eof => pure acc
    | .error e => fail e
    | .ok b =>
      if !isRegular b then pure acc
      else do skipByte; readRegular fuel (acc ++ [b])

/-! ### numbers -/

def isDigit (b : UInt8) : Bool := 48 ≤ b && b ≤ 57

def digitsVal (bs : List UInt8) : Nat := bs.foldl (fun n b => n * 10 + (b - 48).toNat) 0

/-- `strconv.ParseInt(s, 10, 64)` -/
def parseDecInt (bs : List UInt8) : Option Int :=
  let (neg, ds) : Bool × List UInt8 :=
    match bs with
    | 43 :: r => (false, r)
    | 45 :: r => (true, r)
    | r => (false, r)
  if ds.isEmpty || !ds.all isDigit then none
  else
    let v : Int := digitsVal ds
    let v := if neg then -v else v
    if minInt64 ≤ v ∧ v ≤ maxInt64 then some v else none

/-- the syntax accepted for reals, `^[+-]?([0-9]+\.?[0-9]*|\.[0-9]+)([eE][+-]?[0-9]+)?$`;
returns sign, integer digits, fraction digits, exponent -/
def splitReal (bs : List UInt8) : Option (Bool × List UInt8 × List UInt8 × Int) :=
  let (neg, r) : Bool × List UInt8 :=
    match bs with
    | 43 :: r => (false, r)
    | 45 :: r => (true, r)
    | r => (false, r)
  let ip := r.takeWhile isDigit
  let r := r.dropWhile isDigit
  let (fp, r, hadDot) : List UInt8 × List UInt8 × Bool :=
    match r with
    | 46 :: r' => (r'.takeWhile isDigit, r'.dropWhile isDigit, true)
    | _ => ([], r, false)
  -- either digits before the (optional) dot, or a dot followed by digits
  if ip.isEmpty && !(hadDot && !fp.isEmpty) then none
  else
    match r with
    | [] => some (neg, ip, fp, 0)
    | e :: r' =>
      if e == 101 || e == 69 then
        let (eneg, ds) : Bool × List UInt8 :=
          match r' with
          | 43 :: x => (false, x)
          | 45 :: x => (true, x)
          | x => (false, x)
        if ds.isEmpty || !ds.all isDigit then none
        else
          let ev : Int := digitsVal ds
          some (neg, ip, fp, if eneg then -ev else ev)
      else none

/-- value of a syntactically valid real as Go's `ParseFloat` computes it (correctly
rounded); `none` = out of range (`ErrRange`, overflow to ±Inf). -/
def realValue (neg : Bool) (ip fp : List UInt8) (e : Int) : Option UInt64 :=
  let m := digitsVal (ip ++ fp)
  let b := PsVerif.Base.SoftFloat.ofDecimal neg m (e - fp.length)
  if PsVerif.Base.SoftFloat.isInf b then none else some b

def radixDigit (b : UInt8) : Option Nat :=
  if 48 ≤ b ∧ b ≤ 57 then some (b - 48).toNat
  else if 97 ≤ b ∧ b ≤ 122 then some ((b - 97).toNat + 10)
  else if 65 ≤ b ∧ b ≤ 90 then some ((b - 65).toNat + 10)
  else none

/-- `^([0-9]{1,2})#([0-9a-zA-Z]+)$` with base 2..36 and digits valid for the base, in `int64` -/
def parseRadix (bs : List UInt8) : Option Int :=
  let bd := bs.takeWhile isDigit
  let r := bs.dropWhile isDigit
  match r with
  | 35 :: ds =>
    if bd.length < 1 || bd.length > 2 || ds.isEmpty then none
    else
      let base := digitsVal bd
      if base < 2 || base > 36 then none
      else
        let go := ds.foldl (fun (acc : Option Nat) b =>
          match acc, radixDigit b with
          | some n, some d => if d < base then some (n * base + d) else none
          | _, _ => none) (some 0)
        match go with
        | some v => if (v : Int) ≤ maxInt64 then some v else none
        | none => none
  | _ => none

/-- `parseNumber`: `none` = not a number (the token is an executable name) -/
def parseNumber (bs : List UInt8) : Option Obj :=
  match parseDecInt bs with
  | some v => some (.int v)
  | none =>
    let real : Option (Option Obj) :=
      match splitReal bs with
      | some (neg, ip, fp, e) =>
        match realValue neg ip fp e with
        | some b => some (some (.real b))
        | none => some none      -- ErrRange: parseNumber returns an error
      | none => none
    match real with
    | some r => r
    | none =>
      match parseRadix bs with
      | some v => some (.int v)
      | none => none

/-! ### tokens -/

inductive Tok where
  | obj (o : Obj)
  | str (bytes : List UInt8)      -- a string literal: the interpreter allocates its store
  deriving Repr

/-- `ScanToken` -/
def scanToken : SM Tok := do
  let s ← getS
  skipWhiteSpace (fuelOf s + 4)
  let b ← peek
  if b == 40 then do pure (.str (← readString))
  else if b == 60 then do
    let bb ← peekN 2 3
    if bb == [60, 60] then do skipByte; skipByte; pure (.obj (.op "<<"))
    else if bb == [60, 126] then do pure (.str (← readBase85String))
    else do pure (.str (← readHexString))
  else if b == 62 then do
    let bb ← peekN 2 3
    if bb == [62, 62] then do skipByte; skipByte; pure (.obj (.op ">>"))
    else do
      let s ← getS
      -- the reader's error is only looked at when the look-ahead was cut short
      match (if bb.length < 2 then s.err else none) with
      | some e => fail e
      | none => fail syntaxErr
  else if b == 47 then do
    skipByte
    let s ← getS
    let name ← readRegular (fuelOf s) []
    pure (.obj (.name (bytesToString name)))
  else do
    skipByte
    let s ← getS
    let bytes ← (if isRegular b then readRegular (fuelOf s) [b] else pure [b])
    match parseNumber bytes with
    | some x => pure (.obj x)
    | none => pure (.obj (.op (bytesToString bytes)))

/-! ### eexec mode -/

def isEexecSpace (b : UInt8) : Bool := b == 32 || b == 9 || b == 13 || b == 10

def skipEexecSpace : Nat → SM Unit
  | 0 => fail (.other "scanner-fuel")
  | fuel + 1 => do
    let b ← peek
    if isEexecSpace b then do skipByte; skipEexecSpace fuel else pure ()

def isHexDigit (b : UInt8) : Bool := (48 ≤ b && b ≤ 57) || (97 ≤ b && b ≤ 102) || (65 ≤ b && b ≤ 70)

def skipIV : Nat → SM Unit
  | 0 => pure ()
  | n + 1 => do let _ ← next; skipIV n

/-- `BeginEexec(eexecN)` with `eexecN = 4` -/
def beginEexec : SM Unit := do
  let s ← getS
  if s.eexec != 0 then fail (.ps "invalidaccess")
  skipEexecSpace (fuelOf s)
  let bb ← peekN 4 5
  if bb.length < 4 then do
    let s ← getS
    match s.err with
    | some e => fail e
    | none => fail (.panic "BeginEexec: nil error returned")
  let isBinary := !bb.all isHexDigit
  modS (fun s => { s with eexec := if isBinary then 2 else 1, r := Cipher.eexecR, regurgitate := true })
  skipIV 4
  -- the plaintext starts a new line, whatever the lead bytes happen to decrypt to
  modS (fun s => { s with regurgitate := false, col := 0, crSeen := false })

def endEexec : SM Unit := modS (fun s => { s with eexec := 0 })

/-- `scanner.Read(p)`: up to `n` bytes through `Next` -/
def readN : Nat → List UInt8 → SM (List UInt8 × Option Err)
  | 0, acc => pure (acc, none)
  | n + 1, acc => do
    match ← attempt next with
    | .error e => pure (acc, some e)
    | .ok b => readN n (acc ++ [b])

end PsVerif.Model.Scan
