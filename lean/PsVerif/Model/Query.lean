/-
Model of the query methods of `type1/font.go`, `type1/glyph.go`, `afm/afm.go` and of
`rect.Rect.IsZero/Extend`: glyph list order, bounding boxes, widths.
Coordinates are integers here (the Go code uses float64; on integer-valued inputs the
arithmetic involved — comparisons, min/max — is exact); glyph names are byte strings
compared bytewise, as Go compares strings.
-/
namespace PsVerif.Model.Query

abbrev GName := List Nat

def notdef : GName := [46, 110, 111, 116, 100, 101, 102]

/-- bytewise `<` on names (Go string comparison) -/
def nameLt : GName → GName → Bool
  | [], [] => false
  | [], _ :: _ => true
  | _ :: _, [] => false
  | a :: as, b :: bs => if a < b then true else if b < a then false else nameLt as bs

def nameLe (a b : GName) : Bool := !nameLt b a

/-- the ordering key of `GlyphList`: -1 for `.notdef`, the highest code the encoding assigns
to the name, 256 otherwise -/
def orderOf (enc : List GName) (name : GName) : Int :=
  if name == notdef then -1
  else
    match (enc.zipIdx.filter (fun p => p.1 == name)).getLast? with
    | some p => p.2
    | none => 256

def keyLe (enc : List GName) (a b : GName) : Bool :=
  let oa := orderOf enc a
  let ob := orderOf enc b
  if oa != ob then oa < ob else nameLe a b

/-- `Font.GlyphList` / `Metrics.GlyphList`: `keys` are the glyph names present (no duplicates) -/
def glyphList (keys : List GName) (enc : List GName) : List GName :=
  let names := if keys.contains notdef then keys else keys ++ [notdef]
  names.mergeSort (keyLe enc)

/-- `NumGlyphs` -/
def numGlyphs (keys : List GName) : Nat := if keys.contains notdef then keys.length else keys.length + 1

structure Rect where
  llx : Int
  lly : Int
  urx : Int
  ury : Int
  deriving DecidableEq, Repr

def Rect.zero : Rect := ⟨0, 0, 0, 0⟩
def Rect.isZero (r : Rect) : Bool := r.llx == 0 && r.lly == 0 && r.urx == 0 && r.ury == 0

/-- `rect.Rect.Extend` -/
def Rect.extend (r other : Rect) : Rect :=
  if other.isZero then r
  else if r.isZero then other
  else ⟨min r.llx other.llx, min r.lly other.lly, max r.urx other.urx, max r.ury other.ury⟩

/-- the end points of the move/line/curve commands of a glyph, in order -/
abbrev Points := List (Int × Int)

/-- `Glyph.BBox` / `GlyphBBoxPDF`: the loop with the `first` flag -/
def bboxLoop : Points → Bool → Rect → Rect
  | [], _, r => r
  | (x, y) :: ps, first, r =>
    let llx := if first || x < r.llx then x else r.llx
    let urx := if first || x > r.urx then x else r.urx
    let lly := if first || y < r.lly then y else r.lly
    let ury := if first || y > r.ury then y else r.ury
    bboxLoop ps false ⟨llx, lly, urx, ury⟩

def glyphBBox (ps : Points) : Rect := bboxLoop ps true Rect.zero

/-- `Font.FontBBox`: skip zero boxes, first non-zero box, then `Extend`; in the order `boxes`
are visited (Go: map order) -/
def fontBBoxLoop : List Rect → Bool → Rect → Rect
  | [], _, acc => acc
  | b :: bs, first, acc =>
    if b.isZero then fontBBoxLoop bs first acc
    else if first then fontBBoxLoop bs false b
    else fontBBoxLoop bs false (acc.extend b)

def fontBBox (boxes : List Rect) : Rect := fontBBoxLoop boxes true Rect.zero

/-- `afm.Metrics.FontBBoxPDF`: plain `Extend` from the zero rectangle -/
def afmFontBBox (boxes : List Rect) : Rect := boxes.foldl Rect.extend Rect.zero

/-- `GlyphWidthPDF` on the widths table: the glyph's width, else `.notdef`'s, else 0 -/
def glyphWidth (widths : List (GName × Int)) (name : GName) : Int :=
  match widths.find? (fun p => p.1 == name) with
  | some p => p.2
  | none =>
    match widths.find? (fun p => p.1 == notdef) with
    | some p => p.2
    | none => 0

end PsVerif.Model.Query
