import PsVerif.Model.Interp
import PsVerif.Generated.StdEnc
/-
`NewInterpreter` / `makeSystemDict`: the initial state.  Each dictionary is a fresh heap
cell, so two instances share nothing (C18); the CIDInit procedure set is a fresh cell too
(Go: `maps.Clone(cidInit)`).
-/
namespace PsVerif.Model

/-- names bound to Go functions in `makeSystemDict` (value = `builtin` with the same id), in byte order -/
def systemOperators : List String :=
  ["<<", ">>", "[", "]", "abs", "add", "and", "array", "begin", "bind", "cleartomark", "closefile",
   "copy", "count", "currentdict", "currentfile", "cvx", "def", "definefont", "defineresource",
   "dict", "dup", "eexec", "end", "eq", "exch", "exec", "executeonly", "exit", "findfont",
   "findresource", "for", "forall", "get", "getinterval", "if", "ifelse", "index", "internaldict",
   "known", "length", "load", "loop", "mark", "matrix", "maxlength", "mul", "ne", "noaccess", "not",
   "or", "pop", "put", "putinterval", "readonly", "readstring", "repeat", "roll", "stop", "string",
   "sub", "type", "where"]

/-- the other entries of systemdict -/
def systemNonOperators : List String :=
  ["FontDirectory", "StandardEncoding", "errordict", "false", "systemdict", "true", "userdict"]

def allErrors : List String :=
  ["configurationerror", "dictfull", "dictstackoverflow", "dictstackunderflow", "execstackoverflow", "handleerror",
   "interrupt", "invalidaccess", "invalidexit", "invalidfileaccess", "invalidfont", "invalidrestore", "ioerror",
   "limitcheck", "nocurrentpoint", "rangecheck", "stackoverflow", "stackunderflow", "syntaxerror", "timeout",
   "typecheck", "undefined", "undefinedfilename", "undefinedresource", "undefinedresult", "unmatchedmark",
   "unregistered", "VMerror"]

def standardEncoding : List String := PsVerif.Generated.StdEnc.standardEncoding

/-- heap layout of a fresh interpreter -/
def refSystemDict : Nat := 0
def refUserDict : Nat := 1
def refErrorDict : Nat := 2
def refFontDirectory : Nat := 3
def refStdEnc : Nat := 4
def refCMapDirectory : Nat := 5
def refCIDFont : Nat := 6
def refCIDInit : Nat := 7
def refProcSet : Nat := 8
def refResources : Nat := 9
def refInternalDict : Nat := 10

def initSystemDict : List (Name × Obj) :=
  systemOperators.map (fun n => (n, Obj.builtin n)) ++
  [("errordict", .dict refErrorDict), ("false", .bool false), ("FontDirectory", .dict refFontDirectory),
   ("StandardEncoding", .arr refStdEnc 0 256), ("true", .bool true), ("userdict", .dict refUserDict),
   ("systemdict", .dict refSystemDict)]

def initErrorDict : List (Name × Obj) := allErrors.map (fun n => (n, Obj.builtin "defaultErrorHandler"))

def initCIDInit : List (Name × Obj) := cidInitKeys.map (fun n => (n, Obj.builtin ("cid:" ++ n)))

def initHeap : Array Cell := #[
  .dict initSystemDict,
  .dict [],
  .dict initErrorDict,
  .dict [],
  .objs (standardEncoding.map Obj.name).toArray,
  .dict [],
  .dict [],
  .dict initCIDInit,
  .dict [("CIDInit", .dict refCIDInit)],
  .dict [("Font", .dict refFontDirectory), ("CIDFont", .dict refCIDFont), ("CMap", .dict refCMapDirectory),
         ("ProcSet", .dict refProcSet)],
  .dict []
]

/-- `NewInterpreter()` -/
def newVM : VM :=
  { stack := [], dictStack := [refUserDict, refSystemDict], heap := initHeap,
    roots := { systemDict := refSystemDict, userDict := refUserDict, errorDict := refErrorDict,
               internalDict := refInternalDict, fontDirectory := refFontDirectory,
               cmapDirectory := refCMapDirectory, resources := refResources } }

def newInterpreter : State := { vm := newVM }

end PsVerif.Model
