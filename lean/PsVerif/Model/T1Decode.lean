import PsVerif.Model.T1Num
import PsVerif.Model.T1Encode
/-
Model of `decodeInfo.decodeCharString` (`type1/t1decode.go`), after the fixes (flex inside
an open contour, flex end without arguments).  Numbers are exact rationals (Go: float64);
a division by zero makes the Go value ±Inf/NaN, which the model reports as the distinct
outcome `nonfinite` (never confused with a result).
-/
namespace PsVerif.Model.T1Decode
open PsVerif.Model.T1Num PsVerif.Model.T1Encode

inductive DErr where
  | stackOverflow      -- errStackOverflow
  | incomplete         -- errIncomplete
  | invalid (why : String)   -- invalidSince(...)
  | nonfinite          -- a Go float became ±Inf or NaN (division by zero)
  | fuel
  deriving DecidableEq, Repr

structure Seac where
  base : Int
  accent : Int
  dx : Rat
  dy : Rat
  deriving Repr

structure Glyph where
  cmds : List Cmd := []
  hstem : List Int := []
  vstem : List Int := []
  widthX : Rat := 0
  widthY : Rat := 0
  deriving Repr

structure DState where
  stack : List Rat := []           -- bottom first (Go slice order)
  ps : List Rat := []              -- postscriptStack, bottom first
  flex : List Rat := []
  res : Glyph := {}
  posX : Rat := 0
  posY : Rat := 0
  lsbX : Int := 0
  lsbY : Int := 0
  isClosed : Bool := true
  inFlex : Bool := false
  seacs : List Seac := []
  numOps : Nat := 0                -- executed tokens (numbers and operators), subroutines included
  deriving Repr

def maxStack : Nat := 24
def maxCallDepth : Nat := 10
def maxOps : Nat := 1000000

/-- Go `funit.Int16(math.Round(x))` (two's complement wrap to 16 bits) -/
def int16OfRound (x : Rat) : Int :=
  let r := roundHalfAway x
  let m := r % 65536
  if m ≥ 32768 then m - 65536 else m

def wrap16 (x : Int) : Int :=
  let m := x % 65536
  if m ≥ 32768 then m - 65536 else m

/-- `getInt`: the value must be an integer that fits Go's `int` -/
def getInt (x : Rat) : Option Int :=
  if x.den == 1 ∧ -9223372036854775808 ≤ x.num ∧ x.num ≤ 9223372036854775807 then some x.num else none

def closePath (d : DState) : DState :=
  { d with res := { d.res with cmds := d.res.cmds ++ [.closePath] }, isClosed := true }

def rMoveTo (d : DState) (dx dy : Rat) : DState :=
  let d := if !d.isClosed && !d.inFlex then closePath d else d
  let x := d.posX + dx
  let y := d.posY + dy
  { d with posX := x, posY := y, res := { d.res with cmds := d.res.cmds ++ [.moveTo x y] } }

def rLineTo (d : DState) (dx dy : Rat) : DState :=
  let x := d.posX + dx
  let y := d.posY + dy
  { d with posX := x, posY := y, res := { d.res with cmds := d.res.cmds ++ [.lineTo x y] }, isClosed := false }

def rCurveTo (d : DState) (dxa dya dxb dyb dxc dyc : Rat) : DState :=
  let xa := d.posX + dxa
  let ya := d.posY + dya
  let xb := xa + dxb
  let yb := ya + dyb
  let xc := xb + dxc
  let yc := yb + dyc
  { d with posX := xc, posY := yc, res := { d.res with cmds := d.res.cmds ++ [.curveTo xa ya xb yb xc yc] } }

def clear (d : DState) : DState := { d with stack := [] }

inductive Step where
  | cont (d : DState)                 -- continue with the rest of this charstring
  | call (d : DState) (idx : Nat)     -- callsubr
  | ret (d : DState)                  -- return: continue in the caller
  | done (d : DState)                 -- endchar / seac: the glyph is finished
  | fail (e : DErr)

def getD (l : List Rat) (i : Nat) : Rat := l.getD i 0

/-- one operator (`op` is the opcode, two-byte opcodes are 12*256+b) -/
def execOp (d : DState) (op : Nat) (nsubrs : Nat) : Step :=
  let st := d.stack
  let n := st.length
  let need (k : Nat) (f : Unit → Step) : Step := if n < k then .fail .incomplete else f ()
  if op == 14 then .done d
  else if op == 13 then need 2 fun _ =>
    .cont (clear { d with posX := getD st 0, posY := 0, lsbX := int16OfRound (getD st 0), lsbY := 0,
                          res := { d.res with widthX := getD st 1, widthY := 0 } })
  else if op == 3078 then need 5 fun _ =>
    match getInt (getD st 3), getInt (getD st 4) with
    | some b, some a => .done { d with seacs := d.seacs ++ [{ base := b, accent := a, dx := getD st 1, dy := getD st 2 }] }
    | _, _ => .fail (.invalid "invalid operand type")
  else if op == 3079 then need 4 fun _ =>
    .cont (clear { d with posX := getD st 0, posY := getD st 1, lsbX := int16OfRound (getD st 0), lsbY := int16OfRound (getD st 1),
                          res := { d.res with widthX := getD st 2, widthY := getD st 3 } })
  else if op == 9 then .cont (closePath d)
  else if op == 6 then need 1 fun _ => .cont (clear (rLineTo d (getD st 0) 0))
  else if op == 22 then need 1 fun _ => .cont (clear (rMoveTo d (getD st 0) 0))
  else if op == 31 then need 4 fun _ => .cont (clear (rCurveTo d (getD st 0) 0 (getD st 1) (getD st 2) 0 (getD st 3)))
  else if op == 5 then need 2 fun _ => .cont (clear (rLineTo d (getD st 0) (getD st 1)))
  else if op == 21 then need 2 fun _ => .cont (clear (rMoveTo d (getD st 0) (getD st 1)))
  else if op == 8 then need 6 fun _ =>
    .cont (clear (rCurveTo d (getD st 0) (getD st 1) (getD st 2) (getD st 3) (getD st 4) (getD st 5)))
  else if op == 30 then need 4 fun _ => .cont (clear (rCurveTo d 0 (getD st 0) (getD st 1) (getD st 2) (getD st 3) 0))
  else if op == 7 then need 1 fun _ => .cont (clear (rLineTo d 0 (getD st 0)))
  else if op == 4 then need 1 fun _ => .cont (clear (rMoveTo d 0 (getD st 0)))
  else if op == 3072 then .cont (clear d)
  else if op == 1 then need 2 fun _ =>
    let a := wrap16 (d.lsbY + int16OfRound (getD st 0))
    let b := wrap16 (a + int16OfRound (getD st 1))
    .cont (clear { d with res := { d.res with hstem := d.res.hstem ++ [a, b] } })
  else if op == 3074 then need 6 fun _ =>
    let a := wrap16 (d.lsbY + int16OfRound (getD st 0)); let b := wrap16 (a + int16OfRound (getD st 1))
    let c := wrap16 (d.lsbY + int16OfRound (getD st 2)); let e := wrap16 (c + int16OfRound (getD st 3))
    let f := wrap16 (d.lsbY + int16OfRound (getD st 4)); let g := wrap16 (f + int16OfRound (getD st 5))
    .cont (clear { d with res := { d.res with hstem := [a, b, c, e, f, g] } })
  else if op == 3 then need 2 fun _ =>
    let a := wrap16 (d.lsbX + int16OfRound (getD st 0))
    let b := wrap16 (a + int16OfRound (getD st 1))
    .cont (clear { d with res := { d.res with vstem := d.res.vstem ++ [a, b] } })
  else if op == 3073 then need 6 fun _ =>
    let a := wrap16 (d.lsbX + int16OfRound (getD st 0)); let b := wrap16 (a + int16OfRound (getD st 1))
    let c := wrap16 (d.lsbX + int16OfRound (getD st 2)); let e := wrap16 (c + int16OfRound (getD st 3))
    let f := wrap16 (d.lsbX + int16OfRound (getD st 4)); let g := wrap16 (f + int16OfRound (getD st 5))
    .cont (clear { d with res := { d.res with vstem := [a, b, c, e, f, g] } })
  else if op == 3084 then need 2 fun _ =>
    let a := getD st (n - 2)
    let b := getD st (n - 1)
    if b == 0 then .fail .nonfinite
    else .cont { d with stack := st.take (n - 2) ++ [a / b] }
  else if op == 10 then need 1 fun _ =>
    match getInt (getD st (n - 1)) with
    | none => .fail (.invalid "invalid operand type")
    | some idx =>
      let d1 := { d with stack := st.take (n - 1) }
      if idx == 3 then .cont d1
      else if idx < 0 ∨ idx ≥ nsubrs then .fail (.invalid "invalid subr index")
      else .call d1 idx.toNat
  else if op == 3088 then need 2 fun _ =>
    match getInt (getD st (n - 1)), getInt (getD st (n - 2)) with
    | some idx, some argN =>
      if (n : Int) < argN + 2 then .fail .incomplete
      else
        let st2 := st.take (n - 2)
        let k := argN.toNat            -- negative argN: no arguments are moved
        let args := (st2.drop (st2.length - k)).reverse
        let d1 := { d with stack := st2.take (st2.length - k), ps := args }
        if idx == 0 then
          let d2 := if d1.flex.length == 14 then
              { d1 with res := { d1.res with cmds := d1.res.cmds ++
                  [.curveTo (getD d1.flex 2) (getD d1.flex 3) (getD d1.flex 4) (getD d1.flex 5) (getD d1.flex 6) (getD d1.flex 7),
                   .curveTo (getD d1.flex 8) (getD d1.flex 9) (getD d1.flex 10) (getD d1.flex 11) (getD d1.flex 12) (getD d1.flex 13)] } }
            else d1
          if d2.ps.length < 1 then .fail .incomplete
          else .cont { d2 with ps := d2.ps.take (d2.ps.length - 1), inFlex := false }
        else if idx == 1 then .cont { d1 with flex := [], inFlex := true }
        else if idx == 2 then
          let d2 := { d1 with flex := d1.flex ++ [d1.posX, d1.posY] }
          .cont (if d2.res.cmds.length > 0 then { d2 with res := { d2.res with cmds := d2.res.cmds.take (d2.res.cmds.length - 1) } } else d2)
        else if idx == 3 then .cont { d1 with ps := [3] }
        else .cont d1
    | _, _ => .fail (.invalid "invalid operand type")
  else if op == 3089 then
    if d.ps.length < 1 then .fail (.invalid "postscript interpreter operand stack underflow")
    else .cont { d with stack := st ++ [d.ps.getLast!], ps := d.ps.take (d.ps.length - 1) }
  else if op == 11 then .ret d
  else if op == 3105 then need 2 fun _ => .cont (clear { d with posX := getD st 0, posY := getD st 1 })
  else .fail (.invalid "invalid type 1 opcode")

/-- the `glyphLoop`/`opLoop` pair: `code` is the charstring being run, `callers` the saved
rests of the calling charstrings (`cmdStack`) -/
def run (subrs : List (List Nat)) : Nat → DState → (code : List Nat) → (callers : List (List Nat)) → Except DErr DState
  | 0, _, _, _ => .error .fuel
  | fuel + 1, d, code, callers =>
    match code with
    | [] =>
      match callers with
      | [] => .ok d
      | c :: cs => run subrs fuel d c cs
    | b :: rest =>
      if d.stack.length > maxStack then .error .stackOverflow
      else if d.numOps + 1 > maxOps then .error (.invalid "charstring execution limit exceeded")
      else
        let d := { d with numOps := d.numOps + 1 }
        match decodeNum code with
        | .ok v rest' => run subrs fuel { d with stack := d.stack ++ [(v : Rat)] } rest' callers
        | .incomplete => .error .incomplete
        | .notNum =>
          let opr : Option (Nat × List Nat) :=
            if b == 12 then
              match rest with
              | b2 :: r2 => some (12 * 256 + b2, r2)
              | [] => none
            else some (b, rest)
          match opr with
          | none => .error .incomplete
          | some (op, rest') =>
            match execOp d op subrs.length with
            | .cont d' => run subrs fuel d' rest' callers
            | .ret d' =>
              match callers with
              | [] => .ok d'
              | c :: cs => run subrs fuel d' c cs
            | .done d' => .ok d'
            | .fail e => .error e
            | .call d' idx =>
              if callers.length + 1 > maxCallDepth then .error (.invalid "maximum call stack size exceeded")
              else run subrs fuel d' (subrs.getD idx []) (rest' :: callers)

/-- `decodeCharString(code, name)`: the glyph, with the implicit final closepath -/
def decodeCharString (subrs : List (List Nat)) (code : List Nat) : Except DErr DState :=
  -- every iteration either executes a token (at most `maxOps`) or pops a caller (at most one
  -- per call executed)
  match run subrs (2 * maxOps + 64) {} code [] with
  | .error e => .error e
  | .ok d => .ok (if !d.isClosed then closePath d else d)

end PsVerif.Model.T1Decode
