/-
Charstring number formats as implemented in `type1/t1encode.go` (`appendInt`, `appendOp`)
and in the number branch at the head of the `opLoop` in `type1/t1decode.go`.

Bytes are `Nat`s below 256.  `int32` values are `Int`s with `-2^31 ≤ x < 2^31`.
-/
namespace PsVerif.Model.T1Num

/-- Go `byte(e)` for an `int32` (or `int`) expression `e`: truncation to the low 8 bits. -/
def byteOf (e : Int) : Nat := (e % 256).toNat

/-- Go `x >> k` on a signed integer (arithmetic shift = floor division). -/
def sar (x : Int) (k : Nat) : Int := x / (2 ^ k : Int)

/-- `appendInt(buf, x)` returns `buf ++ appendInt x`. -/
def appendInt (x : Int) : List Nat :=
  if -107 ≤ x ∧ x ≤ 107 then [byteOf (x + 139)]
  else if 108 ≤ x ∧ x ≤ 1131 then
    let y := x - 108
    [byteOf (Int.tdiv y 256 + 247), byteOf (Int.tmod y 256)]
  else if -1131 ≤ x ∧ x ≤ -108 then
    let y := -x - 108
    [byteOf (Int.tdiv y 256 + 251), byteOf (Int.tmod y 256)]
  else [255, byteOf (sar x 24), byteOf (sar x 16), byteOf (sar x 8), byteOf x]

/-- `appendOp(buf, op)`; two-byte operators are `12 * 256 + b`. -/
def appendOp (op : Nat) : List Nat :=
  if op < 256 then [op] else [(op / 256) % 256, op % 256]

/-- Go `int32(b1)<<24 | int32(b2)<<16 | int32(b3)<<8 | int32(b4)` -/
def int32OfBytes (b1 b2 b3 b4 : Nat) : Int :=
  let n : Int := b1 * 2 ^ 24 + b2 * 2 ^ 16 + b3 * 2 ^ 8 + b4
  if n ≥ 2 ^ 31 then n - 2 ^ 32 else n

inductive NumRes where
  | ok (v : Int) (rest : List Nat)
  | incomplete
  | notNum
  deriving DecidableEq, Repr

/-- the number branch of `decodeCharString` -/
def decodeNum : List Nat → NumRes
  | [] => .notNum
  | b :: rest =>
    if 32 ≤ b ∧ b ≤ 246 then .ok ((b : Int) - 139) rest
    else if 247 ≤ b ∧ b ≤ 250 then
      match rest with
      | b1 :: r => .ok (((b : Int) - 247) * 256 + b1 + 108) r
      | [] => .incomplete
    else if 251 ≤ b ∧ b ≤ 254 then
      match rest with
      | b1 :: r => .ok ((251 - (b : Int)) * 256 - b1 - 108) r
      | [] => .incomplete
    else if b = 255 then
      match rest with
      | b1 :: b2 :: b3 :: b4 :: r => .ok (int32OfBytes b1 b2 b3 b4) r
      | _ => .incomplete
    else .notNum

def inInt32 (x : Int) : Prop := -2 ^ 31 ≤ x ∧ x < 2 ^ 31

instance (x : Int) : Decidable (inInt32 x) := by unfold inInt32; infer_instance

end PsVerif.Model.T1Num
