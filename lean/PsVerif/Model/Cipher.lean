/-
Model of the Adobe Type 1 stream cipher as the repository implements it.

Go sources modelled:
* `eexec.go`        `scanner.eexecDecode`                         → `decStep`
* `type1/eexec.go`  `obfuscateCharstring`, `deobfuscateCharstring`,
                    `eexecWriter.flush`                            → `encrypt`, `decrypt`, `obfuscate`, `deobfuscate`

`uint16` arithmetic wraps in Go; `UInt16` wraps in Lean, so nothing is idealised.
-/
namespace PsVerif.Model.Cipher

def c1 : UInt16 := 52845
def c2 : UInt16 := 22719
/-- initial state of the eexec cipher -/
def eexecR : UInt16 := 55665
/-- initial state of the charstring cipher -/
def charstringR : UInt16 := 4330

/-- next cipher state after the cipher byte `c` (the same on both sides) -/
def nextR (r : UInt16) (c : UInt8) : UInt16 := (c.toUInt16 + r) * c1 + c2

/-- the key byte used in state `r` -/
def keyByte (r : UInt16) : UInt8 := (r >>> 8).toUInt8

/-- `scanner.eexecDecode`: plain byte and next state for cipher byte `c` -/
def decStep (r : UInt16) (c : UInt8) : UInt8 × UInt16 := (c ^^^ keyByte r, nextR r c)

/-- one step of `eexecWriter.flush` / `obfuscateCharstring`: cipher byte and next state -/
def encStep (r : UInt16) (p : UInt8) : UInt8 × UInt16 :=
  let c := p ^^^ keyByte r
  (c, nextR r c)

def decrypt : UInt16 → List UInt8 → List UInt8
  | _, [] => []
  | r, c :: cs => (decStep r c).1 :: decrypt (decStep r c).2 cs

def encrypt : UInt16 → List UInt8 → List UInt8
  | _, [] => []
  | r, p :: ps => (encStep r p).1 :: encrypt (encStep r p).2 ps

/-- cipher state after consuming the cipher bytes `cs` -/
def stateAfter : UInt16 → List UInt8 → UInt16
  | r, [] => r
  | r, c :: cs => stateAfter (nextR r c) cs

/-- `obfuscateCharstring plain iv` -/
def obfuscate (iv plain : List UInt8) : List UInt8 := encrypt charstringR (iv ++ plain)

/-- `deobfuscateCharstring cipher n`; `none` models the Go `nil` result
(after the fix: also for negative `n`). -/
def deobfuscate (cipher : List UInt8) (n : Int) : Option (List UInt8) :=
  if n < 0 ∨ (cipher.length : Int) < n then none
  else some ((decrypt charstringR cipher).drop n.toNat)

end PsVerif.Model.Cipher
