import PsVerif.Model.Obj
import PsVerif.Base.SoftFloat
/-
The operators of `builtin.go` that do not re-enter the interpreter, one definition each,
in the order of the Go code of each function (operand count, then types, then ranges),
so that the error reported when several preconditions fail is the one Go reports.
`VM.stack` is top first: Go's `Stack[len-1]` is the head.
-/
namespace PsVerif.Model
open VM

/-! ### constants (compared with `Generated.Consts` in `Props/Ties.lean`) -/
def maxArraySize : Int := 65536
def maxDictSize : Int := 65536
def maxDictStackDepth : Nat := 20
def maxOperandStackDepth : Nat := 500
def maxStringSize : Int := 65536
def maxBindDepth : Nat := 100
def internalDictPasscode : Int := 1183615869

def psErr (s : VM) (n : ErrName) : VM × Res := (s, .err (.ps n))
def okRes (s : VM) : VM × Res := (s, .ok)

/-! ### reals: IEEE-754 binary64 on bit patterns (`Base/SoftFloat.lean`) -/
open PsVerif.Base in
def realOfInt (i : Int) : UInt64 := SoftFloat.ofInt i
open PsVerif.Base in
def fadd (a b : UInt64) : UInt64 := SoftFloat.add a b
open PsVerif.Base in
def fsub (a b : UInt64) : UInt64 := SoftFloat.sub a b
open PsVerif.Base in
def fmul (a b : UInt64) : UInt64 := SoftFloat.mul a b
open PsVerif.Base in
def fneg (a : UInt64) : UInt64 := SoftFloat.neg a
open PsVerif.Base in
def fltZero (a : UInt64) : Bool := SoftFloat.ltZero a
open PsVerif.Base in
def feq (a b : UInt64) : Bool := SoftFloat.eq a b

/-! ### name lookup -/

/-- `intp.load`: search the dictionary stack from the top -/
def lookupName (s : VM) (n : Name) : Option Obj :=
  s.dictStack.findSome? (fun r => s.dictGet r n)

def load (s : VM) (key : Obj) : Except Err Obj :=
  match key with
  | .name n | .op n =>
    match lookupName s n with
    | some v => .ok v
    | none => .error (.ps "undefined")
  | _ => .error (.ps "typecheck")

/-! ### stack and mark operators -/

def bMark (s : VM) : VM × Res := okRes (s.push .mark)

def splitAtMark : List Obj → List Obj → Option (List Obj × List Obj)
  | _, [] => none
  | acc, .mark :: rest => some (acc.reverse, rest)
  | acc, o :: rest => splitAtMark (o :: acc) rest

/-- elements above the topmost mark (top first) and the stack below the mark -/
def toMark (st : List Obj) : Option (List Obj × List Obj) := splitAtMark [] st

def bListEnd (s : VM) : VM × Res :=
  match toMark s.stack with
  | none => psErr s "unmatchedmark"
  | some (above, below) =>
    let (s1, r) := s.alloc (.objs above.reverse.toArray)
    okRes { s1 with stack := .arr r 0 above.length :: below }

/-- insert `k₁ v₁ k₂ v₂ …` (bottom to top order) into a fresh dictionary -/
def fillDict : List Obj → List (Name × Obj) → Option (List (Name × Obj))
  | [], d => some d
  | .name k :: v :: rest, d => fillDict rest (dictInsert d k v)
  | _, _ => none

def bDictEnd (s : VM) : VM × Res :=
  match toMark s.stack with
  | none => psErr s "unmatchedmark"
  | some (above, below) =>
    if above.length % 2 != 0 then psErr s "rangecheck"
    else
      match fillDict above.reverse [] with
      | none => psErr s "typecheck"
      | some d =>
        let (s1, r) := s.alloc (.dict d)
        okRes { s1 with stack := .dict r :: below }

def bCleartomark (s : VM) : VM × Res :=
  match toMark s.stack with
  | none => psErr s "unmatchedmark"
  | some (_, below) => okRes { s with stack := below }

def bPop (s : VM) : VM × Res :=
  match s.stack with
  | [] => psErr s "stackunderflow"
  | _ :: rest => okRes { s with stack := rest }

def bDup (s : VM) : VM × Res :=
  match s.stack with
  | [] => psErr s "stackunderflow"
  | a :: rest => okRes { s with stack := a :: a :: rest }

def bExch (s : VM) : VM × Res :=
  match s.stack with
  | a :: b :: rest => okRes { s with stack := b :: a :: rest }
  | _ => psErr s "stackunderflow"

def bCount (s : VM) : VM × Res := okRes (s.push (.int s.stack.length))

def bIndex (s : VM) : VM × Res :=
  match s.stack with
  | top :: b :: rest =>
    match top with
    | .int i =>
      let st := b :: rest
      if i < 0 ∨ i ≥ st.length then psErr { s with stack := st } "rangecheck"
      else
        match st[i.toNat]? with
        | some o => okRes { s with stack := o :: st }
        | none => (s, .err (.panic "index"))
    | _ => psErr s "typecheck"
  | _ => psErr s "stackunderflow"

/-- Go `%` on ints (truncated) followed by the sign correction of `bRoll` -/
def rollAmount (j n : Int) : Int :=
  let r := Int.tmod j n
  if r < 0 then r + n else r

def bRoll (s : VM) : VM × Res :=
  match s.stack with
  | jo :: no :: rest =>
    match no with
    | .int n =>
      if n < 0 ∨ n > rest.length then psErr s "rangecheck"
      else
        match jo with
        | .int j =>
          if n = 0 then okRes { s with stack := rest }
          else
            let k := (rollAmount j n).toNat
            let nn := n.toNat
            let top := rest.take nn     -- top first
            let below := rest.drop nn
            -- the k topmost elements move below the other n-k
            okRes { s with stack := top.drop k ++ top.take k ++ below }
        | _ => psErr s "typecheck"
    | _ => psErr s "typecheck"
  | _ => psErr s "stackunderflow"

/-! ### arithmetic -/

def bAbs (s : VM) : VM × Res :=
  match s.stack with
  | [] => psErr s "stackunderflow"
  | x :: rest =>
    let s1 := { s with stack := rest }
    match x with
    | .int v =>
      if v = minInt64 then okRes (s1.push (.real (fneg (realOfInt v))))
      else if v < 0 then okRes (s1.push (.int (-v)))
      else okRes (s1.push (.int v))
    | .real b => if fltZero b then okRes (s1.push (.real (fneg b))) else okRes (s1.push (.real b))
    | _ => psErr s1 "typecheck"

def isNumber : Obj → Bool
  | .int _ | .real _ => true
  | _ => false

def asReal : Obj → UInt64
  | .int v => realOfInt v
  | .real b => b
  | _ => 0

def addOverflow (a b c : Int) : Bool := (a < 0 && b < 0 && c ≥ 0) || (a > 0 && b > 0 && c ≤ 0)
def subOverflow (a b c : Int) : Bool := (a < 0 && b > 0 && c ≥ 0) || (a ≥ 0 && b < 0 && c < 0)
/-- `ai != 0 && (ci/ai != bi || ai == -1 && bi == math.MinInt)`; Go `/` truncates and
`minint / -1` wraps to `minint` -/
def mulOverflow (a b c : Int) : Bool :=
  a != 0 && (wrap64 (Int.tdiv c a) != b || (a == -1 && b == minInt64))

def arith (iop : Int → Int → Int) (ovf : Int → Int → Int → Bool) (fop : UInt64 → UInt64 → UInt64)
    (s : VM) : VM × Res :=
  match s.stack with
  | b :: a :: rest =>
    if !(isNumber a) || !(isNumber b) then psErr s "typecheck"
    else
      let s1 := { s with stack := rest }
      match a, b with
      | .int ai, .int bi =>
        let ci := wrap64 (iop ai bi)
        if ovf ai bi ci then okRes (s1.push (.real (fop (realOfInt ai) (realOfInt bi))))
        else okRes (s1.push (.int ci))
      | _, _ => okRes (s1.push (.real (fop (asReal a) (asReal b))))
  | _ => psErr s "stackunderflow"

def bAdd := arith (· + ·) addOverflow fadd
def bSub := arith (· - ·) subOverflow fsub
def bMul := arith (· * ·) mulOverflow fmul

/-! ### boolean and comparison -/

/-- Go `a & b` / `a | b` on 64-bit integers -/
def and64 (x y : Int) : Int := (BitVec.ofInt 64 x &&& BitVec.ofInt 64 y).toInt
def or64 (x y : Int) : Int := (BitVec.ofInt 64 x ||| BitVec.ofInt 64 y).toInt

def bAnd (s : VM) : VM × Res :=
  match s.stack with
  | b :: a :: rest =>
    let s1 := { s with stack := rest }
    match a, b with
    | .bool x, .bool y => okRes (s1.push (.bool (x && y)))
    | .int x, .int y => okRes (s1.push (.int (and64 x y)))
    | _, _ => psErr s1 "typecheck"
  | _ => psErr s "stackunderflow"

def bOr (s : VM) : VM × Res :=
  match s.stack with
  | b :: a :: rest =>
    let s1 := { s with stack := rest }
    match a, b with
    | .bool x, .bool y => okRes (s1.push (.bool (x || y)))
    | .int x, .int y => okRes (s1.push (.int (or64 x y)))
    | _, _ => psErr s1 "typecheck"
  | _ => psErr s "stackunderflow"

def bNot (s : VM) : VM × Res :=
  match s.stack with
  | [] => psErr s "stackunderflow"
  | .bool x :: rest => okRes { s with stack := .bool (!x) :: rest }
  | .int x :: rest => okRes { s with stack := .int (-x - 1) :: rest }
  | _ => psErr s "typecheck"

inductive Norm where
  | num (bits : UInt64)
  | text (bytes : List UInt8)
  | flag (b : Bool)
  | ident (ref off len : Nat)   -- Go `sliceID`: first shared element and length
  | markv
  deriving DecidableEq

def nameBytes (n : Name) : List UInt8 := n.toList.map (fun c => UInt8.ofNat c.toNat)

def normalize (s : VM) : Obj → Option Norm
  | .real b => some (.num b)
  | .int v => some (.num (realOfInt v))
  | .str r o l => some (.text (s.viewBytes r o l))
  | .name n => some (.text (nameBytes n))
  | .bool b => some (.flag b)
  | .arr r o l => some (if l = 0 then .ident 0 0 0 else .ident r o l)
  | .proc r o l => some (if l = 0 then .ident 0 0 0 else .ident r o l)
  | .mark => some .markv
  | _ => none

/-- the Go function `equal`; `none` = typecheck -/
def equalObjs (s : VM) (a b : Obj) : Option Bool :=
  match a, b with
  | .dict x, .dict y => some (x == y)
  | .int x, .int y => some (x == y)
  | _, _ =>
    match normalize s a with
    | none => none
    | some na =>
      match normalize s b with
      | none => none
      | some nb =>
        match na, nb with
        | .num x, .num y => some (feq x y)
        | .text x, .text y => some (x == y)
        | .flag x, .flag y => some (x == y)
        | .ident r o l, .ident r' o' l' => some (r == r' && o == o' && l == l')
        | .markv, .markv => some true
        | _, _ => some false

def bEqNe (neg : Bool) (s : VM) : VM × Res :=
  match s.stack with
  | b :: a :: rest =>
    let s1 := { s with stack := rest }
    match equalObjs s a b with
    | none => psErr s1 "typecheck"
    | some e => okRes (s1.push (.bool (if neg then !e else e)))
  | _ => psErr s "stackunderflow"

def bEq := bEqNe false
def bNe := bEqNe true

/-! ### array, string, dictionary creation -/

def bArray (s : VM) : VM × Res :=
  match s.stack with
  | [] => psErr s "stackunderflow"
  | .int n :: rest =>
    if n < 0 then psErr s "rangecheck"
    else if n > maxArraySize then psErr s "limitcheck"
    else
      -- Go: make(Array, n): n nil interfaces; nil is the file object of this interpreter
      let (s1, r) := { s with stack := rest }.alloc (.objs (Array.replicate n.toNat .file))
      okRes (s1.push (.arr r 0 n.toNat))
  | _ => psErr s "typecheck"

def bString (s : VM) : VM × Res :=
  match s.stack with
  | [] => psErr s "stackunderflow"
  | .int n :: rest =>
    if n < 0 then psErr s "rangecheck"
    else if n > maxStringSize then psErr s "limitcheck"
    else
      let (s1, r) := { s with stack := rest }.alloc (.bytes (Array.replicate n.toNat 0))
      okRes (s1.push (.str r 0 n.toNat))
  | _ => psErr s "typecheck"

def bDict (s : VM) : VM × Res :=
  match s.stack with
  | [] => psErr s "stackunderflow"
  | .int n :: rest =>
    if n < 0 then psErr s "rangecheck"
    else if n > maxDictSize then psErr s "limitcheck"
    else
      let (s1, r) := { s with stack := rest }.alloc (.dict [])
      okRes (s1.push (.dict r))
  | _ => psErr s "typecheck"

def bMatrix (s : VM) : VM × Res :=
  let (s1, r) := s.alloc (.objs #[.int 1, .int 0, .int 0, .int 1, .int 0, .int 0])
  okRes (s1.push (.arr r 0 6))

def bCvx (s : VM) : VM × Res :=
  match s.stack with
  | [] => psErr s "stackunderflow"
  | .arr r o l :: rest =>
    let (s1, r') := s.alloc (.objs (s.viewObjs r o l).toArray)
    okRes { s1 with stack := .proc r' 0 l :: rest }
  | _ => okRes s

/-! ### dictionary stack and dictionaries -/

def bBegin (s : VM) : VM × Res :=
  match s.stack with
  | [] => psErr s "stackunderflow"
  | top :: rest =>
    if s.dictStack.length ≥ maxDictStackDepth then psErr s "dictstackoverflow"
    else
      match top with
      | .dict r => okRes { s with stack := rest, dictStack := r :: s.dictStack, dictGhost := s.dictGhost.tail }
      | _ => psErr s "typecheck"

def bEnd (s : VM) : VM × Res :=
  if s.dictStack.length ≤ 2 then psErr s "dictstackunderflow"
  else okRes { s with dictStack := s.dictStack.tail, dictGhost := s.dictStack.head! :: s.dictGhost }

def bCurrentdict (s : VM) : VM × Res :=
  match s.dictStack with
  | [] => (s, .err (.panic "currentdict: empty dictionary stack"))
  | d :: _ => okRes (s.push (.dict d))

def bDef (s : VM) : VM × Res :=
  match s.stack with
  | v :: k :: rest =>
    match k with
    | .name n =>
      match s.dictStack with
      | [] => (s, .err (.panic "def: empty dictionary stack"))
      | d :: _ => okRes { (s.dictPut d n v) with stack := rest }
    | _ => psErr s "typecheck"
  | _ => psErr s "stackunderflow"

def bLoad (s : VM) : VM × Res :=
  match s.stack with
  | [] => psErr s "stackunderflow"
  | .name n :: rest =>
    let s1 := { s with stack := rest }
    match lookupName s n with
    | some v => okRes (s1.push v)
    | none => psErr s1 "undefined"
  | _ => psErr s "typecheck"

def bKnown (s : VM) : VM × Res :=
  match s.stack with
  | k :: d :: rest =>
    match d with
    | .dict r =>
      match k with
      | .name n => okRes { s with stack := .bool (s.dictGet r n).isSome :: rest }
      | _ => psErr s "typecheck"
    | _ => psErr s "typecheck"
  | _ => psErr s "stackunderflow"

def bWhere (s : VM) : VM × Res :=
  match s.stack with
  | [] => psErr s "stackunderflow"
  | .name n :: rest =>
    match s.dictStack.find? (fun r => (s.dictGet r n).isSome) with
    | some r => okRes { s with stack := .bool true :: .dict r :: rest }
    | none => okRes { s with stack := .bool false :: rest }
  | _ => psErr s "typecheck"

def bMaxlength (s : VM) : VM × Res :=
  match s.stack with
  | [] => psErr s "stackunderflow"
  | .dict r :: rest => okRes { s with stack := .int ((s.getDict r).length + 1) :: rest }
  | _ => psErr s "typecheck"

def bLength (s : VM) : VM × Res :=
  match s.stack with
  | [] => psErr s "stackunderflow"
  | o :: rest =>
    let s1 := { s with stack := rest }
    match o with
    | .arr _ _ l | .proc _ _ l | .str _ _ l => okRes (s1.push (.int l))
    | .dict r => okRes (s1.push (.int (s.getDict r).length))
    | .name n | .op n => okRes (s1.push (.int n.length))
    | _ => psErr s1 "typecheck"

def bInternaldict (s : VM) : VM × Res :=
  match s.stack with
  | [] => psErr s "stackunderflow"
  | .int i :: rest =>
    if i ≠ internalDictPasscode then psErr s "invalidaccess"
    else okRes { s with stack := .dict s.roots.internalDict :: rest }
  | _ => psErr s "typecheck"

/-! ### get / put / intervals / copy -/

def bGet (s : VM) : VM × Res :=
  match s.stack with
  | sel :: obj :: rest =>
    let s1 := { s with stack := rest }
    match obj with
    | .arr r o l | .proc r o l =>
      match sel with
      | .int i =>
        if i < 0 ∨ i ≥ l then psErr s1 "rangecheck"
        else match (s.getObjs r)[o + i.toNat]? with
          | some v => okRes (s1.push v)
          | none => (s1, .err (.panic "get: view outside its store"))
      | _ => psErr s1 "typecheck"
    | .dict r =>
      match sel with
      | .name n =>
        match s.dictGet r n with
        | some v => okRes (s1.push v)
        | none => psErr s1 "undefined"
      | _ => psErr s1 "typecheck"
    | .str r o l =>
      match sel with
      | .int i =>
        if i < 0 ∨ i ≥ l then psErr s1 "rangecheck"
        else match (s.getBytes r)[o + i.toNat]? with
          | some v => okRes (s1.push (.int v.toNat))
          | none => (s1, .err (.panic "get: view outside its store"))
      | _ => psErr s1 "typecheck"
    | _ => psErr s1 "typecheck"
  | _ => psErr s "stackunderflow"

def bPut (s : VM) : VM × Res :=
  match s.stack with
  | value :: sel :: obj :: rest =>
    let s1 := { s with stack := rest }
    match obj with
    | .arr r o l | .proc r o l =>
      match sel with
      | .int i =>
        if i < 0 ∨ i ≥ l then psErr s1 "rangecheck"
        else okRes (s1.setCell r (.objs ((s.getObjs r).setIfInBounds (o + i.toNat) value)))
      | _ => psErr s1 "typecheck"
    | .dict r =>
      match sel with
      | .name n => okRes (s1.dictPut r n value)
      | _ => psErr s1 "typecheck"
    | .str r o l =>
      match sel with
      | .int i =>
        if i < 0 ∨ i ≥ l then psErr s1 "rangecheck"
        else
          match value with
          | .int c =>
            if c < 0 ∨ c > 255 then psErr s1 "rangecheck"
            else okRes (s1.setCell r (.bytes ((s.getBytes r).setIfInBounds (o + i.toNat) (UInt8.ofNat c.toNat))))
          | _ => psErr s1 "typecheck"
      | _ => psErr s1 "typecheck"
    | _ => psErr s1 "typecheck"
  | _ => psErr s "stackunderflow"

def bGetinterval (s : VM) : VM × Res :=
  match s.stack with
  | cnt :: idx :: obj :: rest =>
    match obj with
    | .arr _ _ n | .str _ _ n =>
      match idx with
      | .int index =>
        if index < 0 ∨ index > n then psErr s "rangecheck"
        else
          match cnt with
          | .int count =>
            if count < 0 ∨ count > n - index then psErr s "rangecheck"
            else
              match obj with
              | .arr r o _ => okRes { s with stack := .arr r (o + index.toNat) count.toNat :: rest }
              | .str r o _ => okRes { s with stack := .str r (o + index.toNat) count.toNat :: rest }
              | _ => okRes s
          | _ => psErr s "typecheck"
      | _ => psErr s "typecheck"
    | _ => psErr s "typecheck"
  | _ => psErr s "stackunderflow"

def bPutinterval (s : VM) : VM × Res :=
  match s.stack with
  | src :: idx :: dst :: rest =>
    match idx with
    | .int index =>
      if index < 0 then psErr s "rangecheck"
      else
        match dst with
        | .arr r o l =>
          match src with
          | .arr r2 o2 l2 =>
            if index > (l : Int) - l2 then psErr s "rangecheck"
            else
              let vals := s.viewObjs r2 o2 l2
              okRes { (s.setCell r (.objs (writeAt (s.getObjs r) (o + index.toNat) vals))) with stack := rest }
          | _ => psErr s "typecheck"
        | .str r o l =>
          match src with
          | .str r2 o2 l2 =>
            if index > (l : Int) - l2 then psErr s "rangecheck"
            else
              let vals := s.viewBytes r2 o2 l2
              okRes { (s.setCell r (.bytes (writeAt (s.getBytes r) (o + index.toNat) vals))) with stack := rest }
          | _ => psErr s "typecheck"
        | _ => psErr s "typecheck"
    | _ => psErr s "typecheck"
  | _ => psErr s "stackunderflow"

def bCopy (s : VM) : VM × Res :=
  match s.stack with
  | [] => psErr s "stackunderflow"
  | .int n :: rest =>
    if n < 0 then psErr s "rangecheck"
    else if n > rest.length then psErr s "stackunderflow"
    else okRes { s with stack := rest.take n.toNat ++ rest }
  | b :: a :: rest =>
    let s1 := { s with stack := rest }
    match a with
    | .arr r o l =>
      match b with
      | .arr r2 o2 l2 =>
        if l2 < l then psErr s1 "rangecheck"
        else
          let vals := s.viewObjs r o l
          okRes ((s1.setCell r2 (.objs (writeAt (s.getObjs r2) o2 vals))).push (.arr r2 o2 l))
      | _ => psErr s1 "typecheck"
    | .dict r =>
      match b with
      | .dict r2 =>
        let d := (s.getDict r).foldl (fun acc kv => dictInsert acc kv.1 kv.2) (s.getDict r2)
        okRes ((s1.setCell r2 (.dict d)).push (.dict r2))
      | _ => psErr s1 "typecheck"
    | .str r o l =>
      match b with
      | .str r2 o2 l2 =>
        if l2 < l then psErr s1 "rangecheck"
        else
          let vals := s.viewBytes r o l
          okRes ((s1.setCell r2 (.bytes (writeAt (s.getBytes r2) o2 vals))).push (.str r2 o2 l))
      | _ => psErr s1 "typecheck"
    | _ => psErr s1 "typecheck"
  | _ => psErr s "stackunderflow"

/-! ### fonts and resources -/

def bDefinefont (s : VM) : VM × Res :=
  match s.stack with
  | font :: k :: rest =>
    match k with
    | .name n =>
      match font with
      | .dict _ => okRes { (s.dictPut s.roots.fontDirectory n font) with stack := font :: rest }
      | _ => psErr s "typecheck"
    | _ => psErr s "typecheck"
  | _ => psErr s "stackunderflow"

def bFindfont (s : VM) : VM × Res :=
  match s.stack with
  | [] => psErr s "stackunderflow"
  | .name n :: rest =>
    match s.dictGet s.roots.fontDirectory n with
    | some f => okRes { s with stack := f :: rest }
    | none => psErr s "invalidfont"
  | _ => psErr s "typecheck"

def bDefineresource (s : VM) : VM × Res :=
  match s.stack with
  | cls :: inst :: key :: rest =>
    match key with
    | .name k =>
      match cls with
      | .name c =>
        match s.dictGet s.roots.resources c with
        | some (.dict cd) =>
          let isCMap : Bool :=
            match inst with
            | .dict d => match s.dictGet d "CodeMap" with
              | some (.cmapInfo _) => true
              | _ => false
            | _ => false
          if c == "CMap" && !isCMap then psErr s "typecheck"
          else okRes { (s.dictPut cd k inst) with stack := inst :: rest }
        | _ => psErr s "undefined"
      | _ => psErr s "typecheck"
    | _ => psErr s "typecheck"
  | _ => psErr s "stackunderflow"

def bFindresource (s : VM) : VM × Res :=
  match s.stack with
  | cat :: keyObj :: rest =>
    match cat with
    | .name c =>
      match s.dictGet s.roots.resources c with
      | none => psErr s "undefined"
      | some catv =>
        let key : Option Name :=
          match keyObj with
          | .name n => some n
          | .str r o l => some (String.ofList ((s.viewBytes r o l).map (fun b => Char.ofNat b.toNat)))
          | _ => none
        match key with
        | none => psErr s "undefinedresource"
        | some k =>
          match catv with
          | .dict cd =>
            match s.dictGet cd k with
            | some v => okRes { s with stack := v :: rest }
            | none => psErr s "undefinedresource"
          | _ => (s, .err (.panic "findresource: category is not a dictionary"))
    | _ => psErr s "typecheck"
  | _ => psErr s "stackunderflow"

/-! ### misc -/

def bType (s : VM) : VM × Res :=
  match s.stack with
  | [] => psErr s "stackunderflow"
  | o :: _ =>
    let tp : Name :=
      match o with
      | .arr .. | .proc .. => "arraytype"
      | .bool _ => "booleantype"
      | .dict _ => "dicttype"
      | .file => "filetype"
      | .int _ => "integertype"
      | .name _ | .op _ => "nametype"
      | .builtin _ => "operatortype"
      | .real _ => "realtype"
      | .str .. => "stringtype"
      | .mark => "marktype"
      | .cmapInfo _ => ""
    if tp == "" then psErr s "typecheck" else okRes { s with stack := .name tp :: s.stack.tail }   -- the operand is replaced

def bCurrentfile (s : VM) : VM × Res := okRes (s.push .file)

def bClosefile (s : VM) : VM × Res :=
  match s.stack with
  | [] => psErr s "stackunderflow"
  | .file :: rest => ({ s with stack := rest }, .err .eof)
  | _ => psErr s "typecheck"

def bNop (s : VM) : VM × Res := okRes s

/- `bindProc` and its `for i, elem := range proc` loop, structurally recursive on one
fuel argument (one unit per element visited and per nested call); each element is read at
iteration time, as Go does, because nested calls may write into the same store.  Every
procedure (position and length of its body) is visited once: `seen` in the Go code. -/
mutual
def bindProc : Nat → VM → (ref off len : Nat) → (depth : Nat) → VM × Res
  | 0, s, _, _, _, _ => (s, .fuel)
  | fuel + 1, s, ref, off, len, depth =>
    if depth > maxBindDepth then psErr s "limitcheck"
    else if len == 0 then okRes s
    else if s.bindSeen.contains (ref, off, len) then okRes s
    else bindLoop fuel { s with bindSeen := (ref, off, len) :: s.bindSeen } ref off depth 0 len
def bindLoop : Nat → VM → (ref off depth i todo : Nat) → VM × Res
  | 0, s, _, _, _, _, _ => (s, .fuel)
  | _ + 1, s, _, _, _, _, 0 => okRes s
  | fuel + 1, s, ref, off, depth, i, todo + 1 =>
    match (s.getObjs ref)[off + i]? with
    | none => (s, .err (.panic "bind: view outside its store"))
    | some elem =>
      match elem with
      | .op n =>
        match lookupName s n with
        | some (.builtin b) =>
          bindLoop fuel (s.setCell ref (.objs ((s.getObjs ref).setIfInBounds (off + i) (.builtin b)))) ref off depth (i + 1) todo
        | _ => bindLoop fuel s ref off depth (i + 1) todo
      | .proc r o l =>
        let (s2, res) := bindProc fuel s r o l (depth + 1)
        match res with
        | .ok => bindLoop fuel s2 ref off depth (i + 1) todo
        | e => (s2, e)
      | _ => bindLoop fuel s ref off depth (i + 1) todo
end

/-- total number of object slots in the heap: bounds the elements `bind` can visit per level -/
def heapSlots (s : VM) : Nat :=
  s.heap.foldl (fun n c => match c with | .objs a => n + a.size + 1 | _ => n + 1) 0

def bBind (s : VM) : VM × Res :=
  match s.stack with
  | [] => psErr s "stackunderflow"
  | .proc r o l :: _ =>
    let (s', res) := bindProc ((heapSlots s + 2) * (maxBindDepth + 3)) { s with bindSeen := [] } r o l 0
    ({ s' with bindSeen := [] }, res)
  | _ => psErr s "typecheck"

end PsVerif.Model
