import PsVerif.Model.PFB
/-!
Model of `pfb/reader.go` (`pfbReader.Read`) over an *eager* underlying `io.Reader`: one that
returns its last bytes together with `io.EOF` (`(n > 0, io.EOF)`) instead of `(n, nil)` followed by
`(0, io.EOF)`.  Both are legal `io.Reader` behaviours; `Model/PFB.lean` has only the second.

The source is the same pair as in `Model.PFB` (remaining bytes `src`, short-read schedule
`sched`), the decoder state is the same `St`.  Once the source has reported EOF together with
data its `src` is `[]`, and every further raw read returns `(0, io.EOF)`.
-/
namespace PsVerif.Model.PFBEager
open PsVerif.Model.PFB

/-- one `Read(p)` of an eager reader, `len(p) = k`: bytes delivered, "io.EOF returned with this
read" (true iff nothing is left afterwards, which includes the already empty source), rest,
rest of the schedule -/
def rawReadE (src : List UInt8) (sched : List Nat) (k : Nat) : List UInt8 × Bool × List UInt8 × List Nat :=
  (src.take (wantOf sched k), (src.drop (wantOf sched k)).isEmpty, src.drop (wantOf sched k), sched.tail)

/-- `io.ReadFull(r, buf[:k])` = `io.ReadAtLeast(r, buf, k)`:
`for n < min && err == nil { nn, err = r.Read(buf[n:]); n += nn }`,
then `n >= min → nil`, `n > 0 && err == EOF → ErrUnexpectedEOF`, else `err`.
`acc` is what has been read so far (`n = acc.length`), `k` what is still missing. -/
def readFullE : Nat → List UInt8 → List Nat → (k : Nat) → List UInt8 → List UInt8 × Option PErr × List UInt8 × List Nat
  | 0, src, sched, _, acc => (acc, none, src, sched)
  | fuel + 1, src, sched, k, acc =>
    if k == 0 then (acc, none, src, sched)
    else
      let (got, eof, src', sched') := rawReadE src sched k
      if eof then
        -- the loop ends with err = io.EOF
        if got.length ≥ k then (acc ++ got, none, src', sched')
        else (acc ++ got, some (if (acc ++ got).isEmpty then .eof else .unexpectedEOF), src', sched')
      else readFullE fuel src' sched' (k - got.length) (acc ++ got)

/-- one `Read(b)` call with `len(b) = n`, line by line after `pfb/reader.go` -/
def readLoopE : Nat → St → (n : Nat) → (out : List UInt8) → List UInt8 × Option PErr × St
  | 0, st, _, out => (out, none, st)
  | fuel + 1, st, n, out =>
    if n == 0 then (out, none, st)
    else if st.state == 0 then
      -- k, err := io.ReadFull(r.r, buf[:])
      let (buf, err, src', sched') := readFullE 7 st.src st.sched 6 []
      let st1 := { st with src := src', sched := sched' }
      let k := buf.length
      -- if k >= 2 && buf[0] == 0x80 && buf[1] == 0x03 && err == io.ErrUnexpectedEOF { pass }
      let pass := k ≥ 2 && buf[0]! == 0x80 && buf[1]! == 3 && err == some .unexpectedEOF
      -- else if err != nil { return n, err }
      if !pass && err.isSome then (out, err, st1)
      else
        let b := buf ++ List.replicate (6 - k) 0
        if b[0]! != 0x80 || b[1]! == 0 || b[1]! > 3 then (out, some .invalidPFB, st1)
        else readLoopE fuel { st1 with state := b[1]!.toNat, len := le32 b[2]! b[3]! b[4]! b[5]! } n out
    else if st.state == -1 then
      readLoopE fuel { st with state := if st.len == 0 then 0 else 2 } (n - 1) (out ++ [st.tail])
    else if st.state == 1 then
      let k := min n st.len
      -- k, err = r.r.Read(b[:k])   (a zero-length read takes no schedule entry, as in `Model.PFB`)
      let (got, eof, src', sched') :=
        if k == 0 then ([], st.src.isEmpty, st.src, st.sched) else rawReadE st.src st.sched k
      let j := got.length
      -- r.len -= int64(k); n += k
      let st1 := { st with src := src', sched := sched', len := st.len - j }
      -- if err == io.EOF && r.len > 0 { err = io.ErrUnexpectedEOF };  if err != nil { return n, err }
      if eof then (out ++ got, some (if st1.len > 0 then .unexpectedEOF else .eof), st1)
      else
        let st2 := if st1.len == 0 then { st1 with state := 0 } else st1
        readLoopE fuel st2 (n - j) (out ++ got)
    else if st.state == 2 then
      let k := min ((n + 1) / 2) st.len
      -- k, err = io.ReadFull(r.r, b[:k]);  r.len -= int64(k)
      let (got, err, src', sched') := readFullE (k + 1) st.src st.sched k []
      let j := got.length
      let st1 := { st with src := src', sched := sched', len := st.len - j }
      -- if err == io.EOF && k == 0 && r.len > 0 { err = io.ErrUnexpectedEOF }
      let err' := if err == some .eof && j == 0 && st1.len > 0 then some .unexpectedEOF else err
      -- if err != nil { return n, err }   (the bytes read by ReadFull are not delivered)
      if err'.isSome then (out, err', st1)
      else
        let full := hexLower got
        if n < 2 * k then
          let st2 := { st1 with tail := hexEncode (got.getLast! &&& 0x0f), state := -1 }
          readLoopE fuel st2 (n - (2 * k - 1)) (out ++ full.take (2 * k - 1))
        else
          let st2 := if st1.len == 0 then { st1 with state := 0 } else st1
          readLoopE fuel st2 (n - 2 * k) (out ++ full)
    else (out, some .eof, st)

def readE (st : St) (n : Nat) : List UInt8 × Option PErr × St :=
  readLoopE (2 * n + 2 * st.src.length + 8) st n []

/-- successive `Read` calls with the given buffer sizes, until an error is returned -/
def drainE : St → List Nat → List (List UInt8 × Option PErr)
  | _, [] => []
  | st, n :: ns =>
    let (out, e, st') := readE st n
    match e with
    | some _ => [(out, e)]
    | none => (out, e) :: drainE st' ns

/-- what a caller that concatenates the results sees: all bytes, and the error that ended the run -/
def flat (l : List (List UInt8 × Option PErr)) : List UInt8 × Option PErr :=
  ((l.map (·.1)).flatten, l.getLast?.bind (·.2))

end PsVerif.Model.PFBEager
