/-
Model of `pfb/reader.go` (`pfbReader.Read`), after the fix that turns an end of input
inside a segment into `io.ErrUnexpectedEOF`.

The underlying reader is the remaining byte string `src`; `io.ReadFull` is a function of
`src` only, a plain `Read` (text segments) may deliver any positive number of bytes up to
what was asked for: the amounts come from an oracle list `sched` (one entry per call; an
exhausted list means "everything asked for").
-/
namespace PsVerif.Model.PFB

inductive PErr where
  | eof | unexpectedEOF | invalidPFB
  deriving DecidableEq, Repr

structure St where
  src : List UInt8
  sched : List Nat := []
  state : Int := 0          -- 0 header, 1 text, 2 binary, 3 end, -1 leftover nibble
  len : Nat := 0
  tail : UInt8 := 0
  deriving Repr

def hexEncode (b : UInt8) : UInt8 := if b < 10 then 48 + b else 97 + b - 10

/-- lower-case hexadecimal of a byte string -/
def hexLower : List UInt8 → List UInt8
  | [] => []
  | b :: bs => hexEncode (b >>> 4) :: hexEncode (b &&& 0x0f) :: hexLower bs

/-- the back-to-front in-place expansion `for i := l-1; i >= 0; i-- { b[i] = hex(b[i/2] …) }` -/
def expandInPlace (b : Array UInt8) : Nat → Array UInt8
  | 0 => b
  | i + 1 =>
    let v := b[i / 2]!
    let h := if i % 2 == 0 then hexEncode (v >>> 4) else hexEncode (v &&& 0x0f)
    expandInPlace (b.set! i h) i

/-- one `Read(p)` of the underlying reader with `len(p) = k > 0`: the next schedule entry
bounds the amount delivered (at least one byte while input remains) -/
def wantOf (sched : List Nat) (k : Nat) : Nat :=
  match sched with
  | [] => k
  | w :: _ => min (max w 1) k

def rawRead (src : List UInt8) (sched : List Nat) (k : Nat) : List UInt8 × List UInt8 × List Nat :=
  (src.take (wantOf sched k), src.drop (wantOf sched k), sched.tail)

/-- `io.ReadFull(r, buf[:k])`: repeated reads until `k` bytes or the end of input; the result
depends on the schedule only through the number of entries consumed -/
def readFull : Nat → List UInt8 → List Nat → (k : Nat) → List UInt8 → List UInt8 × List UInt8 × List Nat
  | 0, src, sched, _, acc => (acc, src, sched)
  | fuel + 1, src, sched, k, acc =>
    if k == 0 then (acc, src, sched)
    else
      let (got, src', sched') := rawRead src sched k
      if got.isEmpty then (acc, src', sched')
      else readFull fuel src' sched' (k - got.length) (acc ++ got)

def le32 (b2 b3 b4 b5 : UInt8) : Nat := b2.toNat + b3.toNat * 256 + b4.toNat * 65536 + b5.toNat * 16777216

/-- one `Read(b)` call with `len(b) = n`: bytes delivered, error, new state.
Structural recursion on fuel; every iteration of the Go loop either delivers a byte,
consumes input, changes state or returns, so `n + src.length + 4` always suffices. -/
def readLoop : Nat → St → (n : Nat) → (out : List UInt8) → List UInt8 × Option PErr × St
  | 0, st, _, out => (out, none, st)
  | fuel + 1, st, n, out =>
    if n == 0 then (out, none, st)
    else if st.state == 0 then
      let (buf, src', sched') := readFull 7 st.src st.sched 6 []
      let st1 := { st with src := src', sched := sched' }
      let k := buf.length
      let endMarker := k ≥ 2 && buf[0]! == 0x80 && buf[1]! == 3 && k < 6
      if !endMarker && k < 6 then
        (out, some (if k == 0 then .eof else .unexpectedEOF), st1)
      else
        let b := buf ++ List.replicate (6 - k) 0
        if b[0]! != 0x80 || b[1]! == 0 || b[1]! > 3 then (out, some .invalidPFB, st1)
        else readLoop fuel { st1 with state := b[1]!.toNat, len := le32 b[2]! b[3]! b[4]! b[5]! } n out
    else if st.state == -1 then
      readLoop fuel { st with state := if st.len == 0 then 0 else 2 } (n - 1) (out ++ [st.tail])
    else if st.state == 1 then
      let k := min n st.len
      -- a plain Read: between 1 and k bytes (0 only at the end of input or when k = 0)
      let want := wantOf st.sched k
      let (got, src', sched') := if k == 0 then ([], st.src, st.sched) else rawRead st.src st.sched k
      let j := got.length
      let st1 := { st with src := src', sched := sched', len := st.len - j }
      if j == 0 && k > 0 then
        -- end of input inside the segment
        (out, some .unexpectedEOF, st1)
      else if j < want then
        (out ++ got, some (if st1.len > 0 then .unexpectedEOF else .eof), st1)
      else
        let st2 := if st1.len == 0 then { st1 with state := 0 } else st1
        readLoop fuel st2 (n - j) (out ++ got)
    else if st.state == 2 then
      let k := min ((n + 1) / 2) st.len
      let (got, src', sched') := readFull (k + 1) st.src st.sched k []
      let j := got.length
      let st1 := { st with src := src', sched := sched', len := st.len - j }
      if j < k then
        -- io.ReadFull: EOF (nothing read) or ErrUnexpectedEOF; the bytes read are dropped
        (out, some .unexpectedEOF, st1)
      else
        let full := hexLower got
        if n < 2 * k then
          -- odd buffer: the last nibble is parked
          let st2 := { st1 with tail := hexEncode (got.getLast! &&& 0x0f), state := -1 }
          readLoop fuel st2 (n - (2 * k - 1)) (out ++ full.take (2 * k - 1))
        else
          let st2 := if st1.len == 0 then { st1 with state := 0 } else st1
          readLoop fuel st2 (n - 2 * k) (out ++ full)
    else (out, some .eof, st)

def read (st : St) (n : Nat) : List UInt8 × Option PErr × St :=
  readLoop (2 * n + 2 * st.src.length + 8) st n []

/-- successive `Read` calls with the given buffer sizes, until an error is returned -/
def drain : St → List Nat → List (List UInt8 × Option PErr)
  | _, [] => []
  | st, n :: ns =>
    let (out, e, st') := read st n
    match e with
    | some _ => [(out, e)]
    | none => (out, e) :: drain st' ns

end PsVerif.Model.PFB
