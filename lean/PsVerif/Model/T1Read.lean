import PsVerif.Model.Init
import PsVerif.Model.PFB
import PsVerif.Model.Cipher
import PsVerif.Model.T1Decode
import PsVerif.Model.T1Write
/-!
Model of `type1.Read` (`type1/read.go`, with `type1/peekreader.go`): PFB unwrapping when the first byte
is `0x80`, `Interpreter.Execute` with `CheckStart = true` and `MaxOps = 3_000_000`, then the *extraction*
of a `type1.Font` from the interpreter's final state.  The extraction (`extract`) is a function of the
final `VM` and of the collected DSC comments; it is written function by function after the Go text.

## The font value

`FontInfo` and `PrivateDict` are the structures of the writer model (`Model/T1Write.lean`): byte strings,
`float64` fields as IEEE bit patterns, `funit.Int16` / `int32` fields as `Int`s (already wrapped to the Go type).
A glyph is the decoder's `T1Decode.Glyph` (commands over exact rationals, stems, widths).  `T1Write.Font` is
not reused as a whole for two reasons: its `creationDate` is the text of `time.Time.Format` of a parsed
instant, whereas the reader model keeps the *raw* candidates (`dates`: the values of all non-empty
`%%CreationDate:` comments in order; Go takes the first one that `time.Parse` accepts under one of the
five layouts of `dateFormats`, and the zero time if there is none — parsing dates is not modelled); and its
glyphs carry a `T1Encode.Glyph` plus widths where the decoder produces one record.  `Font.toWrite` converts.

`Glyphs map[string]*Glyph` is an association list **sorted by name** (bytewise, `T1Write.nameLe`), which is
also the canonical order of the text form in `Driver/T1ReadDriver.lean`.  `Encoding []string`: `[]` is Go's `nil`.

## Conventions

* names of the interpreter model are `String`s whose characters are bytes; they are converted to byte strings
  first (`Model.nameBytes`); on characters below 256 (an invariant of the scanner) this is injective.
* Go type assertions `x.(T)` with `ok == false` are the `| _ =>` branches; the absent key and the Go `nil`
  object (`Obj.file`) fall into them as well.
* the one place where the Go text dereferences a pointer taken from a map without a test
  (`g := glyphs[seac.name]; g.WidthX = …`) is an explicit `panic` outcome, proved unreachable in
  `Proofs/T1Read.lean`.
* charstring arithmetic is exact (`Rat`), as in `Model/T1Decode.lean`; a division by zero (Go: ±Inf/NaN in the
  outline, no error) is the outcome `unsupported`, as is running out of model fuel.
* PFB: the bytes the scanner sees are those delivered by `pfbReader.Read` for 512-byte buffers.  For a
  well-framed file every sequence of buffer sizes gives the same stream (`Props/C14Refine`); for an ill-framed
  one the stream ends in a reader error, which `Execute` returns unless the program stopped before.
-/
namespace PsVerif.Model.T1Read
open PsVerif.Base PsVerif.Model
open PsVerif.Model.T1Write (Bytes FontInfo PrivateDict Matrix nameLe)
open PsVerif.Model.T1Decode (Glyph Seac DErr decodeCharString)
open PsVerif.Model.T1Encode (Cmd)

/-! ## results -/

inductive RErr where
  | interp (e : Err)                 -- `intp.Execute` returned an error (incl. ErrNoPostScript, budget, reader faults)
  | notOneFont                       -- "expected exactly one font in file"
  | wrongFontType                    -- "wrong FontType" (also: the one entry of FontDirectory is not a dictionary)
  | invalidFontInfo                  -- "invalid FontInfo"
  | invalidFontMatrix                -- "invalid FontMatrix"
  | noPrivate                        -- "missing/invalid Private dictionary"
  | invalidEncoding                  -- "invalid Encoding array"
  | noCharStrings                    -- "missing/invalid CharStrings dictionary"
  | charstring (name : Bytes) (e : DErr)   -- the error of `decodeCharString` for the first failing glyph (name order)
  deriving DecidableEq, Repr

/-- the reader's font (see the header) -/
structure Font where
  info : FontInfo
  priv : PrivateDict
  glyphs : List (Bytes × Glyph)
  encoding : List Bytes
  dates : List Bytes

inductive ReadResult where
  | ok (f : Font)
  | error (e : RErr)
  | unsupported (why : String)       -- outside the model: fuel, or a non-finite coordinate
  | panic (site : String)            -- a Go run-time panic would occur (proved impossible)

/-! ## small helpers -/

-- a model name as a Go string: `PsVerif.Model.nameBytes` (`Model/Builtins.lean`)

def notdef : Bytes := T1Write.notdef
def space : Bytes := [115, 112, 97, 99, 101]

/-- `v.(postscript.Dict)` -/
def asDict (vm : VM) : Option Obj → Option (List (Name × Obj))
  | some (.dict r) => some (vm.getDict r)
  | _ => none

/-- `s, _ := v.(postscript.String)` followed by `string(s)` -/
def asString (vm : VM) : Option Obj → Bytes
  | some (.str r off len) => vm.viewBytes r off len
  | _ => []

/-- `v.(postscript.Array)` -/
def asArray (vm : VM) : Option Obj → Option (List Obj)
  | some (.arr r off len) => some (vm.viewObjs r off len)
  | _ => none

/-- `getReal` -/
def getReal : Option Obj → Option UInt64
  | some (.real b) => some b
  | some (.int i) => some (SoftFloat.ofInt i)
  | _ => none

/-- `v.(postscript.Integer)` -/
def asInt : Option Obj → Option Int
  | some (.int i) => some i
  | _ => none

/-- `b, _ := v.(postscript.Boolean)` -/
def asBool : Option Obj → Bool
  | some (.bool b) => b
  | _ => false

/-- Go `funit.Int16(i)` -/
def wrap16 (x : Int) : Int := T1Decode.wrap16 x

/-- Go `int32(i)` -/
def wrap32 (x : Int) : Int :=
  let m := x % 4294967296
  if m ≥ 2147483648 then m - 4294967296 else m

/-! ## FontInfo -/

/-- `0.001` and `0.039625` as `float64` -/
def real0001 : UInt64 := 0x3f50624dd2f1a9fc
def real0039625 : UInt64 := 0x3fa449ba5e353f7d
#guard real0001 == SoftFloat.ofDecimal false 1 (-3)
#guard real0039625 == SoftFloat.ofDecimal false 39625 (-6)

def defaultFontMatrix : Matrix := { a := real0001, b := 0, c := 0, d := real0001, e := 0, f := 0 }

/-- the loop over `fontMatrixArray`; `none` = "invalid FontMatrix" -/
def matrixOfObjs : List Obj → Option Matrix
  | [a, b, c, d, e, f] =>
    match getReal (some a), getReal (some b), getReal (some c), getReal (some d), getReal (some e), getReal (some f) with
    | some a, some b, some c, some d, some e, some f => some { a, b, c, d, e, f }
    | _, _, _, _, _, _ => none
  | _ => none

/-- `fd["FontMatrix"]`: not an array or not of length 6 gives the default -/
def fontMatrixOf (vm : VM) (o : Option Obj) : Option Matrix :=
  match asArray vm o with
  | some l => if l.length = 6 then matrixOfObjs l else some defaultFontMatrix
  | none => some defaultFontMatrix

/-- `fontName`: the variable `key` of the Go text is never assigned, so an absent `FontName` gives `""`, as does a
value that is not a name -/
def fontNameOf : Option Obj → Bytes
  | some (.name n) => nameBytes n
  | _ => []

/-- `Version`: `version`, and `Version` when that is absent, not a string or empty -/
def versionOf (vm : VM) (fi : List (Name × Obj)) : Bytes :=
  let v := asString vm (dictLookup fi "version")
  if v.length = 0 then asString vm (dictLookup fi "Version") else v

/-- `ItalicAngle`: a Real, else an Integer converted, else 0 (the same function as `getReal` with default 0) -/
def realOr0 (o : Option Obj) : UInt64 := (getReal o).getD 0

def infoOf (vm : VM) (fd fi : List (Name × Obj)) (fm : Matrix) : FontInfo :=
  { fontName := fontNameOf (dictLookup fd "FontName")
    version := versionOf vm fi
    notice := asString vm (dictLookup fi "Notice")
    copyright := asString vm (dictLookup fi "Copyright")
    fullName := asString vm (dictLookup fi "FullName")
    familyName := asString vm (dictLookup fi "FamilyName")
    weight := asString vm (dictLookup fi "Weight")
    italicAngle := realOr0 (dictLookup fi "ItalicAngle")
    isFixedPitch := asBool (dictLookup fi "isFixedPitch")
    underlinePosition := realOr0 (dictLookup fi "UnderlinePosition")
    underlineThickness := realOr0 (dictLookup fi "UnderlineThickness")
    fontMatrix := fm }

/-! ## Private -/

/-- all elements integers: the values as `funit.Int16`; otherwise `nil` -/
def int16sOf : List Obj → Option (List Int)
  | [] => some []
  | .int i :: r => (int16sOf r).map (wrap16 i :: ·)
  | _ :: _ => none

/-- `BlueValues` / `OtherBlues`: a non-empty array of integers, else `nil` -/
def bluesOf (vm : VM) (o : Option Obj) : List Int :=
  match asArray vm o with
  | some l => (int16sOf l).getD []
  | none => []

/-- `StdHW` / `StdVW`: an array of length one holding a number, else 0 -/
def stdWOf (vm : VM) (o : Option Obj) : UInt64 :=
  match asArray vm o with
  | some [x] => realOr0 (some x)
  | _ => 0

def privOf (vm : VM) (pd : List (Name × Obj)) : PrivateDict :=
  { blueValues := bluesOf vm (dictLookup pd "BlueValues")
    otherBlues := bluesOf vm (dictLookup pd "OtherBlues")
    blueScale := (getReal (dictLookup pd "BlueScale")).getD real0039625
    blueShift := ((asInt (dictLookup pd "BlueShift")).map wrap32).getD 7
    blueFuzz := ((asInt (dictLookup pd "BlueFuzz")).map wrap32).getD 1
    stdHW := stdWOf vm (dictLookup pd "StdHW")
    stdVW := stdWOf vm (dictLookup pd "StdVW")
    forceBold := asBool (dictLookup pd "ForceBold") }

/-- `lenIV`: an Integer, else 4 -/
def lenIVOf (pd : List (Name × Obj)) : Int := (asInt (dictLookup pd "lenIV")).getD 4

/-! ## Encoding -/

def namesOf : List Obj → Option (List Bytes)
  | [] => some []
  | .name n :: r => (namesOf r).map (nameBytes n :: ·)
  | _ :: _ => none

/-- `fd["Encoding"]`: an array of 256 names; an array of 256 with another element is the error
"invalid Encoding array" (`none`); everything else gives `nil` -/
def encodingOf (vm : VM) (o : Option Obj) : Option (List Bytes) :=
  match asArray vm o with
  | some l => if l.length = 256 then namesOf l else some []
  | none => some []

/-! ## charstrings -/

def toNats (b : Bytes) : List Nat := b.map UInt8.toNat

/-- `deobfuscateCharstring(cipher, int(lenIV))`, a `nil` result being an empty charstring -/
def plainOf (cipher : Bytes) (lenIV : Int) : List Nat := toNats ((Cipher.deobfuscate cipher lenIV).getD [])

/-- `ctx.subrs`: an element that is not a string gives `nil` -/
def subrOf (vm : VM) (lenIV : Int) : Obj → List Nat
  | .str r off len => plainOf (vm.viewBytes r off len) lenIV
  | _ => []

def subrsOf (vm : VM) (pd : List (Name × Obj)) (lenIV : Int) : List (List Nat) :=
  match asArray vm (dictLookup pd "Subrs") with
  | some l => l.map (subrOf vm lenIV)
  | none => []

/-- insertion into a list sorted by name (`slices.Sort(names)`; the keys of a map are distinct, so every sorting
method gives the same list) -/
def insertE {α : Type} (p : Bytes × α) : List (Bytes × α) → List (Bytes × α)
  | [] => [p]
  | q :: r => if nameLe p.1 q.1 then p :: q :: r else q :: insertE p r

def sortE {α : Type} : List (Bytes × α) → List (Bytes × α)
  | [] => []
  | p :: r => insertE p (sortE r)

/-- the value of a CharStrings entry as the loop sees it: `none` for "not a string" -/
def csValue (vm : VM) : Obj → Option Bytes
  | .str r off len => some (vm.viewBytes r off len)
  | _ => none

/-- the entries of CharStrings in the order of the loop -/
def csEntries (vm : VM) (cs : List (Name × Obj)) : List (Bytes × Option Bytes) :=
  sortE (cs.map (fun p => (nameBytes p.1, csValue vm p.2)))

/-- is the entry decoded at all: `!ok || len(obfuscated) < int(lenIV)` skips it (a negative `lenIV` skips nothing) -/
def csUsable (lenIV : Int) : Option Bytes → Bool
  | some b => decide (lenIV ≤ b.length)
  | none => false

inductive DecodeFail where
  | cs (name : Bytes) (e : DErr)

/-- one recorded `seacInfo` -/
structure SeacInfo where
  name : Bytes
  seac : Seac

/-- the loop `for _, name := range names`: glyphs and recorded composites, or the first error -/
def decodeAll (subrs : List (List Nat)) (lenIV : Int) :
    List (Bytes × Option Bytes) → Except DecodeFail (List (Bytes × Glyph) × List SeacInfo)
  | [] => .ok ([], [])
  | (n, v) :: rest =>
    match v with
    | none => decodeAll subrs lenIV rest
    | some ob =>
      if (ob.length : Int) < lenIV then decodeAll subrs lenIV rest
      else
        match decodeCharString subrs (plainOf ob lenIV) with
        | .error e => .error (.cs n e)
        | .ok d =>
          match decodeAll subrs lenIV rest with
          | .error e => .error e
          | .ok (gs, ss) => .ok ((n, d.res) :: gs, d.seacs.map (fun s => { name := n, seac := s }) ++ ss)

/-! ## composites -/

def lookupG (gs : List (Bytes × Glyph)) (n : Bytes) : Option Glyph :=
  match gs.find? (fun p => p.1 == n) with
  | some p => some p.2
  | none => none

/-- `*glyphs[n] = g` for a key that is present -/
def setG (gs : List (Bytes × Glyph)) (n : Bytes) (g : Glyph) : List (Bytes × Glyph) :=
  gs.map (fun p => if p.1 == n then (n, g) else p)

/-- the accent's command moved by `(dx, dy)` -/
def translate (dx dy : Rat) : Cmd → Cmd
  | .moveTo x y => .moveTo (x + dx) (y + dy)
  | .lineTo x y => .lineTo (x + dx) (y + dy)
  | .curveTo a b c d e f => .curveTo (a + dx) (b + dy) (c + dx) (d + dy) (e + dx) (f + dy)
  | .closePath => .closePath

/-- `psenc.StandardEncoding` as byte strings -/
def stdEnc : List Bytes := T1Write.stdEnc

/-- are the two codes usable: `0 ≤ code ≤ 255` -/
def codesOK (s : Seac) : Bool :=
  decide (0 ≤ s.base ∧ s.base ≤ 255 ∧ 0 ≤ s.accent ∧ s.accent ≤ 255)

/-- `psenc.StandardEncoding[c]`: the codes of `seac` refer to the standard encoding, whatever `Encoding` the font has
(and also when it has none) -/
def codeName (c : Int) : Bytes := stdEnc.getD c.toNat []

/-- the glyph a composite becomes: outline and stems of the base, then the accent's outline moved by `(adx, ady)`;
the composite keeps the width its own charstring declares (`own`).  `accCmds` are the accent's commands *as the loop
reads them*: when the accent is the composite itself, `g.Cmds` has already been overwritten with the base's. -/
def composite (own base : Glyph) (accCmds : List Cmd) (s : Seac) : Glyph :=
  { own with cmds := base.cmds ++ accCmds.map (translate s.dx s.dy), hstem := base.hstem, vstem := base.vstem }

/-- `isComposite`: the names of all recorded composites of the font, collected before the loop -/
def compositeNames (ss : List SeacInfo) : List Bytes := ss.map (·.name)

/-- one turn of `for _, seac := range ctx.seacs`; `none` is the nil dereference of `glyphs[seac.name]`.  `comp` is
`isComposite`: a composite whose base or accent is itself a composite is skipped (a composite built from composites
could double its outline at every level).  The tests come in the order of the Go text: range of the codes,
composite parts, missing glyphs. -/
def resolveOne (comp : List Bytes) (gs : List (Bytes × Glyph)) (si : SeacInfo) : Option (List (Bytes × Glyph)) :=
  if !codesOK si.seac then some gs
  else
    let bn := codeName si.seac.base
    let an := codeName si.seac.accent
    if comp.contains bn || comp.contains an then some gs
    else
    match lookupG gs bn, lookupG gs an with
    | some base, some accent =>
      match lookupG gs si.name with
      | none => none
      | some own =>
        let accCmds := if an == si.name then base.cmds else accent.cmds
        some (setG gs si.name (composite own base accCmds si.seac))
    | _, _ => some gs

def resolveSeacs (comp : List Bytes) : List SeacInfo → List (Bytes × Glyph) → Option (List (Bytes × Glyph))
  | [], gs => some gs
  | si :: rest, gs =>
    match resolveOne comp gs si with
    | none => none
    | some gs' => resolveSeacs comp rest gs'

/-! ## `.notdef` and the final encoding -/

/-- a missing `.notdef` is added: empty, with the width of `space` (0 without one) -/
def addNotdef (gs : List (Bytes × Glyph)) : List (Bytes × Glyph) :=
  match lookupG gs notdef with
  | some _ => gs
  | none =>
    let w : Rat := match lookupG gs space with
      | some g => g.widthX
      | none => 0
    insertE (notdef, { widthX := w }) gs

/-- codes naming a glyph that does not exist are mapped to `.notdef` -/
def fixEncoding (gs : List (Bytes × Glyph)) (enc : List Bytes) : List Bytes :=
  enc.map (fun n => if (lookupG gs n).isSome then n else notdef)

/-! ## DSC -/

def creationDateKey : String := "CreationDate"

/-- the candidates for `CreationDate`, in order (the first that parses is taken by Go) -/
def datesOf (dsc : List (String × String)) : List Bytes :=
  dsc.filterMap (fun c => if c.1 == creationDateKey && c.2 != "" then some (nameBytes c.2) else none)

/-! ## the extraction -/

/-- the font dictionary: the only entry of FontDirectory when it is a dictionary (Go: a `nil` map otherwise, on
which every lookup fails) -/
def fontDictOf (vm : VM) : Option (List (Name × Obj)) :=
  match vm.getDict vm.roots.fontDirectory with
  | [(_, v)] => some ((asDict vm (some v)).getD [])
  | _ => none

/-- everything after `intp.Execute` returned `nil` -/
def extract (vm : VM) (dsc : List (String × String)) : ReadResult :=
  match fontDictOf vm with
  | none => .error .notOneFont
  | some fd =>
  match dictLookup fd "FontType" with
  | some (.int 1) =>
    match asDict vm (dictLookup fd "FontInfo") with
    | none => .error .invalidFontInfo
    | some fi =>
    match fontMatrixOf vm (dictLookup fd "FontMatrix") with
    | none => .error .invalidFontMatrix
    | some fm =>
    match asDict vm (dictLookup fd "Private") with
    | none => .error .noPrivate
    | some pd =>
    match encodingOf vm (dictLookup fd "Encoding") with
    | none => .error .invalidEncoding
    | some enc =>
    match asDict vm (dictLookup fd "CharStrings") with
    | none => .error .noCharStrings
    | some cs =>
    match decodeAll (subrsOf vm pd (lenIVOf pd)) (lenIVOf pd) (csEntries vm cs) with
    | .error (.cs n .nonfinite) => .unsupported ("non-finite coordinate in " ++ toString n)
    | .error (.cs n .fuel) => .unsupported ("charstring fuel in " ++ toString n)
    | .error (.cs n e) => .error (.charstring n e)
    | .ok (gs, ss) =>
    match resolveSeacs (compositeNames ss) ss gs with
    | none => .panic "nil pointer dereference: glyphs[seac.name]"
    | some gs1 =>
      let gs2 := addNotdef gs1
      .ok { info := infoOf vm fd fi fm, priv := privOf vm pd, glyphs := gs2,
            encoding := fixEncoding gs2 enc, dates := datesOf dsc }
  | _ => .error .wrongFontType

/-! ## PFB unwrapping and the whole of `Read` -/

def pfbErrTag : PFB.PErr → Option String
  | .eof => none
  | .unexpectedEOF => some "unexpected EOF"
  | .invalidPFB => some "invalid PFB file"

/-- successive `Read` calls with 512-byte buffers until the reader returns an error; the chunks in reverse -/
def pfbDrain : Nat → PFB.St → List (List UInt8) → List (List UInt8) × Option PFB.PErr
  | 0, _, acc => (acc, none)
  | fuel + 1, st, acc =>
    match PFB.read st 512 with
    | (out, some e, _) => (out :: acc, some e)
    | (out, none, st') => pfbDrain fuel st' (out :: acc)

/-- `pfb.Decode(r)` read to its end: the bytes and the final reader error (`none` = `io.EOF`) -/
def unwrapPFB (input : List UInt8) : List UInt8 × Option String :=
  let (chunks, e) := pfbDrain (input.length + 2) { src := input } []
  (chunks.reverse.flatten, e.bind pfbErrTag)

/-- `intp.MaxOps = 3_000_000` -/
def maxOps : Nat := 3000000

/-- model fuel: enough for every run the budget allows (one unit per Go call, loop turn or token) -/
def fuelFor (len : Nat) : Nat := 40 * (maxOps + len) + 100000

/-- the source handed to `Execute` -/
def sourceOf (input : List UInt8) : List UInt8 × Option String :=
  match input with
  | 0x80 :: _ => unwrapPFB input
  | _ => (input, none)

/-- the state `Execute` is called on -/
def startState : State := { newInterpreter with checkStart := true }

def afterExecute (p : State × Res) : ReadResult :=
  match p.2 with
  | .ok => extract p.1.vm p.1.dsc
  | .fuel => .unsupported "interpreter fuel"
  | .err (.panic site) => .panic site
  | .err e => .error (.interp e)

/-- `type1.Read(bytes.NewReader(input))` -/
def readFont (input : List UInt8) : ReadResult :=
  let src := sourceOf input
  afterExecute (execute (fuelFor src.1.length) maxOps startState src.1 src.2)

/-- conversion to the writer's font value, given the text of the parsed date -/
def Font.toWrite (f : Font) (date : Option Bytes) : T1Write.Font :=
  { info := f.info, priv := f.priv, encoding := f.encoding, creationDate := date,
    glyphs := f.glyphs.map (fun p => (p.1, { outline := { cmds := p.2.cmds, hstem := p.2.hstem, vstem := p.2.vstem },
                                              widthX := p.2.widthX, widthY := p.2.widthY })) }

end PsVerif.Model.T1Read
