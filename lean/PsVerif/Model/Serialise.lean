import PsVerif.Model.Scanner
/-
Model of the library's own PostScript serialisers in `object.go`:

* `func (s String) PS() string`  — `stringPS`
* `func (n Name) PS() string`    — `namePS` / `namePSPanics`

`String.PS` makes two passes over the bytes.  The first pass counts parentheses
(`level++` on `(`, `level--` on `)`, leaving the loop with `break` as soon as the level is
negative); the string is *balanced* when the level is 0 afterwards.  The second pass writes
`(`, then for every byte `c`

    `\`   ->  `\\`
    `(`   ->  `(`  when balanced, `\(` otherwise
    `)`   ->  `)`  when balanced, `\)` otherwise
    CR    ->  `\r`
    any other byte (LF, TAB, NUL, bytes >= 128, ...) -> the byte itself

and finally `)`.  There are no octal escapes and no hex-string form.

`Name.PS` panics when one of the bytes is not a regular character (`isRegular` of
`scanner.go`, the same function the tokenizer uses) and otherwise returns `/` followed by
the bytes (the empty name gives `/`).
-/
namespace PsVerif.Model.Ser
open PsVerif.Model

/-- first loop of `String.PS`: the value of `level` when the loop is left.  Go's `int` is
64 bits wide; it cannot wrap for a byte string that fits into memory, so `Int` is exact. -/
def parenLevel : Int → List UInt8 → Int
  | lv, [] => lv
  | lv, c :: r =>
    if c == 40 then parenLevel (lv + 1) r
    else if c == 41 then
      (if lv - 1 < 0 then lv - 1      -- `break`
       else parenLevel (lv - 1) r)
    else parenLevel lv r

/-- `balanced := level == 0` -/
def balanced (bs : List UInt8) : Bool := parenLevel 0 bs == 0

/-- the `switch c` of the second loop: output for one byte -/
def escByte (bal : Bool) (c : UInt8) : List UInt8 :=
  if c == 92 then [92, 92]
  else if c == 40 then (if bal then [40] else [92, 40])
  else if c == 41 then (if bal then [41] else [92, 41])
  else if c == 13 then [92, 114]
  else [c]

/-- second loop of `String.PS` -/
def escBytes (bal : Bool) : List UInt8 → List UInt8
  | [] => []
  | c :: r => escByte bal c ++ escBytes bal r

/-- `String.PS` -/
def stringPS (bs : List UInt8) : List UInt8 :=
  40 :: (escBytes (balanced bs) bs ++ [41])

/-- `Name.PS` panics ("invalid character in name") iff some byte is not regular -/
def namePSPanics (n : List UInt8) : Bool := !n.all Scan.isRegular

/-- `Name.PS` when it does not panic: `"/" + string(n)` -/
def namePS (n : List UInt8) : List UInt8 := 47 :: n

/-- `Name.PS` with the panic made explicit -/
def namePS? (n : List UInt8) : Option (List UInt8) :=
  if namePSPanics n then none else some (namePS n)

end PsVerif.Model.Ser
