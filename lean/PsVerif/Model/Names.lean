import PsVerif.Generated.Glyphlist
import PsVerif.Generated.Dingbats
import PsVerif.Generated.Aglfn
import PsVerif.Generated.Compat
/-
Model of `type1/names`: `ToUnicode`, `FromUnicode`, `IsValid` (`names.go`, `valid.go`,
`compat.go`).  Names are byte lists (`List Nat`); the three tables are the generated ones
(`Generated/Glyphlist`, `Dingbats`, `Aglfn`, `Compat`), keyed by the name packed into a
natural number so that the kernel compares keys with big-number arithmetic.
-/
namespace PsVerif.Model.Names
open PsVerif.Generated

/-- a name as one natural number: base-256 digits with a leading 1 -/
def pack (bs : List Nat) : Nat := bs.foldl (fun n b => n * 256 + b) 1

def glyphlist : List (Nat × List Nat) := Glyphlist.parts.flatten
def dingbatsTable : List (Nat × List Nat) := Dingbats.parts.flatten

def lookup (tbl : List (Nat × List Nat)) (k : Nat) : Option (List Nat) :=
  match tbl.find? (fun e => e.1 == k) with
  | some e => some e.2
  | none => none

/-- `getFile("glyphlist")` applies two corrections to single-code entries -/
def fixup (key : Nat) (cps : List Nat) : List Nat :=
  if key == pack [84, 99, 111, 109, 109, 97, 97, 99, 99, 101, 110, 116] && cps == [0x0162] then [0x021A]
  else if key == pack [116, 99, 111, 109, 109, 97, 97, 99, 99, 101, 110, 116] && cps == [0x0163] then [0x021B]
  else cps

def lookupFile (tbl : List (Nat × List Nat)) (name : List Nat) : Option (List Nat) :=
  (lookup tbl (pack name)).map (fixup (pack name))

/-- value of an upper-case hexadecimal digit -/
def hexUpper (c : Nat) : Option Nat :=
  if 48 ≤ c ∧ c ≤ 57 then some (c - 48)
  else if 65 ≤ c ∧ c ≤ 70 then some (c - 65 + 10)
  else none

def parseHexUpper : List Nat → Nat → Option Nat
  | [], acc => some acc
  | c :: cs, acc =>
    match hexUpper c with
    | some d => parseHexUpper cs (acc * 16 + d)
    | none => none

def isSurrogate (v : Nat) : Bool := 0xD800 ≤ v && v < 0xE000

/-- groups of four hex digits after `uni`; `none` if any group is malformed or a surrogate -/
def uniGroups : List Nat → Option (List Nat)
  | [] => some []
  | a :: b :: c :: d :: rest =>
    match parseHexUpper [a, b, c, d] 0 with
    | some v =>
      if isSurrogate v then none
      else
        match uniGroups rest with
        | some vs => some (v :: vs)
        | none => none
    | none => none
  | _ => none

/-- the text of one underscore-separated component -/
def component (dingbats : Bool) (part : List Nat) : List Nat :=
  match (if dingbats then lookupFile dingbatsTable part else none) with
  | some cps => cps
  | none =>
    match lookupFile glyphlist part with
    | some cps => cps
    | none =>
      let uni : Option (List Nat) :=
        if part.take 3 == [117, 110, 105] && part.length % 4 == 3 then
          -- every byte must be an upper-case hex digit for the name to be "good"
          if (part.drop 3).all (fun c => (hexUpper c).isSome) then uniGroups (part.drop 3) else none
        else none
      match uni with
      | some vs => vs
      | none =>
        if part.length ≥ 5 && part.length ≤ 7 && part.head? == some 117 then
          match parseHexUpper (part.drop 1) 0 with
          | some v => if v < 0xD800 || (0xE000 ≤ v && v < 0x110000) then [v] else []
          | none => []
        else []

/-- split at every occurrence of `sep` (Go `strings.Split`) -/
def splitOn (sep : Nat) : List Nat → List (List Nat)
  | [] => [[]]
  | c :: cs =>
    match splitOn sep cs with
    | [] => [[]]
    | p :: ps => if c == sep then [] :: p :: ps else (c :: p) :: ps

/-- everything from the first period on is ignored -/
def stripSuffix (name : List Nat) : List Nat := name.takeWhile (fun c => c != 46)

/-- `ToUnicode(name, dingbats)` -/
def toUnicode (name : List Nat) (dingbats : Bool) : List Nat :=
  ((splitOn 95 (stripSuffix name)).map (component dingbats)).flatten

/-- `expand`: compatibility decomposition of a few characters -/
def expand (r : Nat) : List Nat :=
  match Compat.compat.find? (fun e => e.1 == r) with
  | some e => e.2
  | none => [r]

/-- `runeToName`: later entries of aglfn.txt overwrite earlier ones (Go map assignment) -/
def aglfnName (r : Nat) : Option (List Nat) :=
  match Aglfn.entries.reverse.find? (fun e => e.1 == r) with
  | some e => some e.2
  | none => none

def hexDigitUpper (d : Nat) : Nat := if d < 10 then 48 + d else 55 + d

/-- upper-case hex digits of `n`, most significant first, without leading zeros (`[]` for 0) -/
def hexDigits : Nat → Nat → List Nat
  | 0, _ => []
  | fuel + 1, n => if n == 0 then [] else hexDigits fuel (n / 16) ++ [hexDigitUpper (n % 16)]

/-- `fmt.Sprintf("u%04X", r)` for `r ≥ 0` -/
def uName (r : Nat) : List Nat :=
  let ds := hexDigits 8 r
  117 :: (List.replicate (4 - ds.length) 48 ++ ds)

def joinUnderscore : List (List Nat) → List Nat
  | [] => []
  | [p] => p
  | p :: ps => p ++ 95 :: joinUnderscore ps

/-- `FromUnicode(r)` -/
def fromUnicode (r : Nat) : List Nat :=
  joinUnderscore ((expand r).map (fun c => match aglfnName c with | some n => n | none => uName c))

def isNameChar (c : Nat) : Bool :=
  (65 ≤ c && c ≤ 90) || (97 ≤ c && c ≤ 122) || (48 ≤ c && c ≤ 57) || c == 46 || c == 95

def maxNameLength : Nat := 31

/-- `IsValid(s)` -/
def isValid (s : List Nat) : Bool :=
  if s == [46, 110, 111, 116, 100, 101, 102] then true
  else if s.length < 1 || s.length > maxNameLength then false
  else
    match s with
    | [] => false
    | c :: _ => if (48 ≤ c && c ≤ 57) || c == 46 then false else s.all isNameChar

end PsVerif.Model.Names
