import PsVerif.Model.Refill
/-
Model of the SEEKABLE branch of `peek(r, n)` in `type1/peekreader.go`
(`Model/Refill.lean` has the other branch, `peekBuffered`, as `Refill.peek`):

    if r, ok := r.(io.ReadSeeker); ok {
        pos, err := r.Seek(0, io.SeekCurrent)
        if err != nil {
            return peekBuffered(r, buf)      // has a Seek method but cannot seek (a pipe)
        }
        k, err := io.ReadFull(r, buf)
        if err != nil && err != io.ErrUnexpectedEOF && err != io.EOF {
            return nil, nil, err
        }
        _, err = r.Seek(pos, io.SeekStart)
        if err != nil {
            return nil, nil, err
        }
        return buf[:k], r, nil
    }

The source is a window into a container: `data` is the WHOLE file, `pos` the offset the
source has when it is handed to `peek` (non-zero for a font stored inside a larger file).
What the caller reads afterwards is `data.drop pos` (`SeekSrc.stream`).

Not modelled here: a `Read` of the seekable source failing with an error other than `io.EOF`
(the structure has no such answer); that path returns the error unchanged and is the same
line as in the buffered branch (`Refill.peek`, `peek_fails_only_with_reader`).
-/

namespace PsVerif.Model.PeekSeek

open PsVerif.Model.Refill

/-- an `io.ReadSeeker`: the bytes of the whole container, the current offset, whether `Seek`
succeeds (a pipe wrapped in an `*os.File` has the method and fails), and the short-read
schedule of its `Read`: the i-th call hands over at most `sched[i]` bytes (a `0` is a
`(0, nil)` answer); once the schedule is used up every call hands over all it can -/
structure SeekSrc where
  data : List UInt8
  pos : Nat := 0
  seekWorks : Bool := true
  sched : List Nat := []
  deriving DecidableEq, Repr

/-- the byte stream a caller reading the source to its end sees -/
def SeekSrc.stream (s : SeekSrc) : List UInt8 := s.data.drop s.pos

/-- `r.Seek(0, io.SeekCurrent)`: the offset, or an error -/
def SeekSrc.seekCurrent (s : SeekSrc) : Option Nat :=
  if s.seekWorks then some s.pos else none

/-- `r.Seek(p, io.SeekStart)`: the source positioned at `p` (the schedule of `Read` goes on
where it was), or an error -/
def SeekSrc.seekStart (s : SeekSrc) (p : Nat) : Option SeekSrc :=
  if s.seekWorks then some { s with pos := p } else none

/-- `r.Read(b)` with `len(b) = k`: bytes, "the error is `io.EOF`", the source afterwards.
`len(b) = 0` gives `(0, nil)`; at or behind the end of the data `(0, io.EOF)`; otherwise at
most `k` bytes, at most the current schedule entry, at most what is left, and `pos` advances
by the number of bytes handed over. -/
def SeekSrc.read (s : SeekSrc) (k : Nat) : List UInt8 × Bool × SeekSrc :=
  if k = 0 then ([], false, s)
  else if s.data.length ≤ s.pos then ([], true, s)
  else
    let cap := match s.sched with
      | [] => k
      | c :: _ => min c k
    let d := (s.data.drop s.pos).take cap
    (d, false, { s with pos := s.pos + d.length, sched := s.sched.tail })

/-- the loop of `io.ReadAtLeast(r, buf, len(buf))` with `need` bytes still missing:
`for n < min && err == nil { nn, err = r.Read(buf[n:]); n += nn }` -/
def readFullLoop : Nat → SeekSrc → Nat → List UInt8 → List UInt8 × Bool × SeekSrc
  | 0, s, _, acc => (acc, false, s)
  | fuel + 1, s, need, acc =>
    if need = 0 then (acc, false, s)
    else
      let (d, e, s') := s.read need
      if e then (acc ++ d, true, s')
      else readFullLoop fuel s' (need - d.length) (acc ++ d)

/-- the errors `io.ReadFull` can return over a `SeekSrc` -/
inductive RFErr where
  | eof
  | unexpectedEOF
  deriving DecidableEq, Repr

/-- `io.ReadFull(r, buf)` with `len(buf) = n`: after the loop
`if n >= min { err = nil } else if n > 0 && err == EOF { err = ErrUnexpectedEOF }`.
The fuel covers every schedule entry plus the two calls after the schedule is used up. -/
def SeekSrc.readFull (s : SeekSrc) (n : Nat) : List UInt8 × Option RFErr × SeekSrc :=
  let (got, e, s') := readFullLoop (s.sched.length + 2) s n []
  if got.length ≥ n then (got, none, s')
  else if got.length > 0 && e then (got, some .unexpectedEOF, s')
  else (got, if e then some .eof else none, s')

/-- what `peek` returns on a source with a `Seek` method -/
inductive PeekRes where
  /-- `return peekBuffered(r, buf)` on the source `s` -/
  | fallback (s : SeekSrc)
  /-- `return buf[:k], r, nil` -/
  | ok (head : List UInt8) (s : SeekSrc)
  /-- `return nil, nil, err` -/
  | error
  deriving DecidableEq, Repr

/-- the seekable branch of `peek(r, n)`, line by line -/
def peekSeekable (s : SeekSrc) (n : Nat) : PeekRes :=
  -- pos, err := r.Seek(0, io.SeekCurrent)
  match s.seekCurrent with
  | none => .fallback s            -- if err != nil { return peekBuffered(r, buf) }
  | some pos =>
    -- k, err := io.ReadFull(r, buf)
    let (got, err, s1) := s.readFull n
    -- if err != nil && err != io.ErrUnexpectedEOF && err != io.EOF { return nil, nil, err }
    match err with
    | none | some .eof | some .unexpectedEOF =>
      -- _, err = r.Seek(pos, io.SeekStart)
      match s1.seekStart pos with
      | none => .error             -- if err != nil { return nil, nil, err }
      | some s2 => .ok got s2      -- return buf[:k], r, nil

/-- the seeded variant: `r.Seek(0, io.SeekStart)` instead of `r.Seek(pos, io.SeekStart)` -/
def peekSeekableRewindZero (s : SeekSrc) (n : Nat) : PeekRes :=
  match s.seekCurrent with
  | none => .fallback s
  | some _pos =>
    let (got, err, s1) := s.readFull n
    match err with
    | none | some .eof | some .unexpectedEOF =>
      match s1.seekStart 0 with
      | none => .error
      | some s2 => .ok got s2

end PsVerif.Model.PeekSeek
