/-
Objects, stores and interpreter state of the model of `interpreter.go` / `builtin.go`.

* Go `Integer` (= `int`, 64 bit) is `Int` kept in range by `wrap64` at every arithmetic site.
* Go `Real` (float64) is carried as its IEEE bit pattern; arithmetic goes through Lean's
  `Float`, which the kernel does not unfold (DESIGN.md section 4).
* `Name`/`Operator` are byte strings; they are represented as `String`s whose characters
  are the bytes (Latin-1), so ordering is byte ordering.
* Arrays, strings and procedures are *views* `(ref, off, len)` into heap cells (Go slices);
  dictionaries and `*CMapInfo` are references (Go maps / pointers).
-/
namespace PsVerif.Model

def minInt64 : Int := -9223372036854775808
def maxInt64 : Int := 9223372036854775807

/-- two's-complement wrap to 64 bits -/
def wrap64 (x : Int) : Int :=
  let m := x % 18446744073709551616
  if m ≥ 9223372036854775808 then m - 18446744073709551616 else m

def inInt64 (x : Int) : Prop := minInt64 ≤ x ∧ x ≤ maxInt64
instance (x : Int) : Decidable (inInt64 x) := by unfold inInt64; infer_instance

abbrev Name := String

inductive Obj where
  | int (v : Int)
  | real (bits : UInt64)
  | bool (b : Bool)
  | name (n : Name)            -- literal name
  | op (n : Name)              -- executable name (Go `Operator`)
  | str (ref off len : Nat)
  | arr (ref off len : Nat)
  | proc (ref off len : Nat)
  | dict (ref : Nat)
  | builtin (id : String)
  | mark
  | file                       -- Go `nil`, the value pushed by `currentfile`
  | cmapInfo (ref : Nat)       -- `*CMapInfo`
  deriving DecidableEq, Repr, Inhabited

structure CodeSpaceRange where
  low : Obj
  high : Obj
  deriving DecidableEq, Repr, Inhabited

structure CharMap where
  src : Obj
  dst : Obj
  deriving DecidableEq, Repr, Inhabited

structure RangeMap where
  low : Obj
  high : Obj
  dst : Obj
  deriving DecidableEq, Repr, Inhabited

structure CMapInfo where
  useCMap : Name := ""
  codeSpaceRanges : List CodeSpaceRange := []
  cidChars : List CharMap := []
  cidRanges : List RangeMap := []
  bfChars : List CharMap := []
  bfRanges : List RangeMap := []
  notdefChars : List CharMap := []
  notdefRanges : List RangeMap := []
  deriving DecidableEq, Repr, Inhabited

inductive Cell where
  | objs (a : Array Obj)
  | bytes (a : Array UInt8)
  | dict (d : List (Name × Obj))      -- unique keys; order = insertion order (Go: unordered)
  | cmap (c : CMapInfo)
  deriving Repr, Inhabited

/-- PostScript error names are names -/
abbrev ErrName := String

inductive Err where
  | ps (name : ErrName)         -- *postScriptError
  | limit                       -- ErrExecutionLimitExceeded
  | exit | stop                 -- errExit / errStop
  | eof                         -- io.EOF
  | noPS                        -- ErrNoPostScript
  | io (tag : String)           -- an error returned by the underlying reader
  | other (tag : String)        -- any other Go error value
  | panic (site : String)       -- a Go run-time panic would occur here
  deriving DecidableEq, Repr, Inhabited

inductive Res where
  | ok
  | err (e : Err)
  | fuel                        -- the model ran out of fuel (never a result of the Go code)
  deriving DecidableEq, Repr, Inhabited

/-- one input source as the scanner sees it after buffering: the remaining bytes and the
error the reader returns once they are used up (`none` = clean io.EOF) -/
structure Scanner where
  src : List UInt8 := []
  fault : Option String := none
  peek : List UInt8 := []
  regurgitate : Bool := false
  eexec : Nat := 0                -- 0 off, 1 hex, 2 binary
  r : UInt16 := 0
  line : Nat := 0
  col : Nat := 0
  crSeen : Bool := false
  dsc : List (String × String) := []    -- collected in order
  /-- sticky `s.err` -/
  err : Option Err := none
  deriving Repr, Inhabited

structure Roots where
  systemDict : Nat
  userDict : Nat
  errorDict : Nat
  internalDict : Nat
  fontDirectory : Nat
  cmapDirectory : Nat
  resources : Nat
  deriving Repr, Inhabited

/-- the data half of the interpreter: everything the non-reentrant operators can touch -/
structure VM where
  stack : List Obj := []            -- top first
  dictStack : List Nat := []        -- top first
  dictGhost : List Nat := []        -- stale entries of the DictStack backing array above its length, nearest first
  heap : Array Cell := #[]
  cmapMappings : Option Nat := none        -- ref of the CMapInfo under construction
  cmapCodeSpaceRanges : Nat := 0           -- lengths of the scratch slices
  cmapChars : Nat := 0
  cmapRanges : Nat := 0
  roots : Roots
  /-- the procedures visited by the running `bind` (its `seen` map: position and length of each body);
  empty outside `bind` -/
  bindSeen : List (Nat × Nat × Nat) := []
  deriving Repr, Inhabited

/-- the whole interpreter: data plus the control fields only `executeOne`, `Execute`,
`eexec` and `readstring` touch -/
structure State where
  vm : VM
  numOps : Nat := 0
  checkStart : Bool := false
  execDepth : Nat := 0
  errors : List ErrName := []       -- pending errors, innermost first
  procStart : List Nat := []        -- innermost first
  scanner : Scanner := {}           -- the scanner of the running Execute call (one object, shared by eexec)
  scannerDepth : Nat := 0           -- len(intp.scanners)
  dsc : List (String × String) := []
  hiDepth : Nat := 0                -- ghost: highest execDepth reached
  hiErrors : Nat := 0               -- ghost: highest number of pending errors reached
  deriving Repr, Inhabited

namespace VM

def alloc (s : VM) (c : Cell) : VM × Nat :=
  ({ s with heap := s.heap.push c }, s.heap.size)

def getDict (s : VM) (r : Nat) : List (Name × Obj) :=
  match s.heap[r]? with
  | some (.dict d) => d
  | _ => []

def getObjs (s : VM) (r : Nat) : Array Obj :=
  match s.heap[r]? with
  | some (.objs a) => a
  | _ => #[]

def getBytes (s : VM) (r : Nat) : Array UInt8 :=
  match s.heap[r]? with
  | some (.bytes a) => a
  | _ => #[]

def getCMap (s : VM) (r : Nat) : CMapInfo :=
  match s.heap[r]? with
  | some (.cmap c) => c
  | _ => {}

def setCell (s : VM) (r : Nat) (c : Cell) : VM :=
  { s with heap := s.heap.setIfInBounds r c }

end VM

def dictLookup (d : List (Name × Obj)) (k : Name) : Option Obj :=
  match d.find? (fun p => p.1 == k) with
  | some p => some p.2
  | none => none

/-- Go `d[k] = v` -/
def dictInsert (d : List (Name × Obj)) (k : Name) (v : Obj) : List (Name × Obj) :=
  if d.any (fun p => p.1 == k) then d.map (fun p => if p.1 == k then (k, v) else p)
  else d ++ [(k, v)]

namespace VM

def dictGet (s : VM) (r : Nat) (k : Name) : Option Obj := dictLookup (s.getDict r) k

def dictPut (s : VM) (r : Nat) (k : Name) (v : Obj) : VM :=
  s.setCell r (.dict (dictInsert (s.getDict r) k v))

/-- elements of an array/procedure view -/
def viewObjs (s : VM) (ref off len : Nat) : List Obj :=
  ((s.getObjs ref).extract off (off + len)).toList

def viewBytes (s : VM) (ref off len : Nat) : List UInt8 :=
  ((s.getBytes ref).extract off (off + len)).toList

def push (s : VM) (o : Obj) : VM := { s with stack := o :: s.stack }

end VM

/-- write `vals` into an array at `off` (Go `copy(dst[off:], src)`) -/
def writeAt {α : Type} (a : Array α) (off : Nat) (vals : List α) : Array α :=
  (vals.foldl (fun (acc : Array α × Nat) v => (acc.1.setIfInBounds acc.2 v, acc.2 + 1)) (a, off)).1

end PsVerif.Model
