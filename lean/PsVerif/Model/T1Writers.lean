import PsVerif.Model.Cipher
/-!
State-machine models of the two buffering writers of the Type 1 font writer, over a fallible
underlying writer.

Go sources modelled (line by line):
* `type1/eexec.go`  `eexecWriter`, `newEExecWriter`, `Write`, `Close`, `flush`
                    → `EW`, `ewNew`, `ewWrite` (`ewWriteLoop`), `ewClose`, `ewFlush`
* `type1/hex.go`    `hexWriter`, `Write`, `Close`, `flush`
                    → `HW`, `hwWrite` (`hwWriteLoop`), `hwClose`, `hwFlush`

The underlying `io.Writer` is `UW`: it records the blocks it accepted, counts the calls, and fails at
the call with 0-based index `failAt` (a failing call accepts nothing and returns an error).  The runs
stop at the first error, as the callers in `type1/write.go` do, so what a writer does after it has
returned an error is not observed.

Idealisations: `eexecWriter.buf` is modelled by its live part `buf[:pos]` (`EW.buf`, `pos` is its
length); the bytes of `buf[pos:]` are never read by the code.  A failing underlying call is assumed
to accept no byte (`n` of the underlying call is ignored by both writers).
-/
namespace PsVerif.Model.T1Writers
open PsVerif.Model

abbrev Bytes := List UInt8

/-! ## the underlying writer -/

structure UW where
  /-- the blocks accepted so far, oldest first -/
  blocks : List Bytes := []
  /-- number of `Write` calls received so far (failed one included) -/
  calls : Nat := 0
  /-- index (0-based) of the call that fails -/
  failAt : Option Nat := none
  deriving Repr, DecidableEq

def uwNew (failAt : Option Nat) : UW := { failAt := failAt }

/-- `w.Write(p)`; the `Bool` is `true` iff an error is returned -/
def uwWrite (w : UW) (p : Bytes) : UW × Bool :=
  if w.failAt = some w.calls then ({ w with calls := w.calls + 1 }, true)
  else ({ w with blocks := w.blocks ++ [p], calls := w.calls + 1 }, false)

/-! ## `eexecWriter` -/

/-- `len(w.buf)` -/
def cap : Nat := 512

structure EW where
  /-- `buf[:pos]` -/
  buf : Bytes
  R : UInt16
  deriving Repr, DecidableEq

/-- the loop of `flush`: encrypts in place, advancing `R`; result: the cipher bytes and the new `R` -/
def encLoop : UInt16 → Bytes → Bytes × UInt16
  | r, [] => ([], r)
  | r, p :: ps =>
    let s := Cipher.encStep r p
    let t := encLoop s.2 ps
    (s.1 :: t.1, t.2)

/-- `flush`: (state, underlying writer, error?) -/
def ewFlush (e : EW) (w : UW) : EW × UW × Bool :=
  let cr := encLoop e.R e.buf            -- for i := 0; i < w.pos; i++ { … }
  let r := uwWrite w cr.1                -- _, err := w.w.Write(w.buf[:w.pos])
  if r.2 then ({ buf := cr.1, R := cr.2 }, r.1, true)     -- return err (pos unchanged, buf encrypted)
  else ({ buf := [], R := cr.2 }, r.1, false)             -- w.pos = 0

/-- the loop of `Write`; `n` counts the bytes copied so far.  The fuel is `len(p)+1`: an iteration that
copies nothing (only possible with a full buffer) flushes, and the next one copies at least one byte. -/
def ewWriteLoop : Nat → EW → UW → Bytes → Nat → EW × UW × Nat × Bool
  | 0, e, w, _, n => (e, w, n, true)     -- not reachable with fuel `len(p)+1`
  | fuel + 1, e, w, p, n =>
    if p.isEmpty then (e, w, n, false)   -- for len(p) > 0 { … }; return n, nil
    else
      let k := min (cap - e.buf.length) p.length     -- k := copy(w.buf[w.pos:], p)
      let e1 : EW := { e with buf := e.buf ++ p.take k }   -- w.pos += k
      let n1 := n + k                                -- n += k
      let p1 := p.drop k                             -- p = p[k:]
      if e1.buf.length ≥ cap then                    -- if w.pos >= len(w.buf)
        let r := ewFlush e1 w
        if r.2.2 then (r.1, r.2.1, n1, true)         -- return n, err
        else ewWriteLoop fuel r.1 r.2.1 p1 n1
      else ewWriteLoop fuel e1 w p1 n1

/-- `Write(p)`: (state, underlying writer, n, error?) -/
def ewWrite (e : EW) (w : UW) (p : Bytes) : EW × UW × Nat × Bool :=
  ewWriteLoop (p.length + 1) e w p 0

/-- `Close` -/
def ewClose (e : EW) (w : UW) : EW × UW × Bool := ewFlush e w

/-- the four lead bytes `{'X' ^ byte(eexecR0>>8), 0, 0, 0}` -/
def iv : Bytes := [(0x58 : UInt8) ^^^ (Cipher.eexecR >>> 8).toUInt8, 0, 0, 0]

/-- `newEExecWriter(w)` -/
def ewNew (w : UW) : EW × UW × Bool :=
  let r := ewWrite { buf := [], R := Cipher.eexecR } w iv
  (r.1, r.2.1, r.2.2.2)

/-! ## `hexWriter` -/

structure HW where
  buf : Bytes
  deriving Repr, DecidableEq

/-- `const hex = "0123456789abcdef"` -/
def hexTable : Bytes := [48, 49, 50, 51, 52, 53, 54, 55, 56, 57, 97, 98, 99, 100, 101, 102]

/-- `hex[n]` (the code only uses `n < 16`) -/
def hexDigit (n : UInt8) : UInt8 := hexTable.getD n.toNat 0

/-- `flush` -/
def hwFlush (h : HW) (w : UW) : HW × UW × Bool :=
  if h.buf.isEmpty then (h, w, false)               -- if len(w.buf) == 0 { return nil }
  else
    let r := uwWrite w (h.buf ++ [10])              -- w.buf = append(w.buf, '\n'); _, err := w.w.Write(w.buf)
    ({ buf := [] }, r.1, r.2)                       -- w.buf = w.buf[:0]; return err

/-- the loop of `Write`; `n` counts the bytes consumed so far -/
def hwWriteLoop : HW → UW → Bytes → Nat → HW × UW × Nat × Bool
  | h, w, [], n => (h, w, n, false)
  | h, w, c :: cs, n =>
    let h1 : HW := { buf := h.buf ++ [hexDigit (c >>> 4), hexDigit (c &&& 0x0f)] }
    let n1 := n + 1
    if h1.buf.length ≥ 78 then
      let r := hwFlush h1 w
      if r.2.2 then (r.1, r.2.1, n1, true)           -- return n, err
      else hwWriteLoop r.1 r.2.1 cs n1
    else hwWriteLoop h1 w cs n1

/-- `Write(p)`: (state, underlying writer, n, error?) -/
def hwWrite (h : HW) (w : UW) (p : Bytes) : HW × UW × Nat × Bool :=
  let r := hwWriteLoop h w p 0
  if r.2.2.2 then r else (r.1, r.2.1, p.length, false)   -- return len(p), nil

/-- `Close` -/
def hwClose (h : HW) (w : UW) : HW × UW × Bool := hwFlush h w

/-! ## the runs -/

/-- write the chunks one by one, stop at the first error, otherwise close:
(the `n` of every `Write` call made, no error?, the underlying writer) -/
def ewRun : EW → UW → List Bytes → List Nat × Bool × UW
  | e, w, [] =>
    let r := ewClose e w
    ([], !r.2.2, r.2.1)
  | e, w, p :: ps =>
    let r := ewWrite e w p
    if r.2.2.2 then ([r.2.2.1], false, r.2.1)
    else
      let t := ewRun r.1 r.2.1 ps
      (r.2.2.1 :: t.1, t.2.1, t.2.2)

def hwRun : HW → UW → List Bytes → List Nat × Bool × UW
  | h, w, [] =>
    let r := hwClose h w
    ([], !r.2.2, r.2.1)
  | h, w, p :: ps =>
    let r := hwWrite h w p
    if r.2.2.2 then ([r.2.2.1], false, r.2.1)
    else
      let t := hwRun r.1 r.2.1 ps
      (r.2.2.1 :: t.1, t.2.1, t.2.2)

/-- `newEExecWriter(w)`, one `Write` per chunk, `Close`; stops at the first error.
Result: the `n` of every `Write(chunk)` call made (the failing one included), `true` iff no call
returned an error, the blocks the underlying writer accepted (oldest first). -/
def runEexec (failAt : Option Nat) (chunks : List (List UInt8)) : List Nat × Bool × List (List UInt8) :=
  let r := ewNew (uwNew failAt)
  if r.2.2 then ([], false, r.2.1.blocks)
  else
    let t := ewRun r.1 r.2.1 chunks
    (t.1, t.2.1, t.2.2.blocks)

/-- `&hexWriter{w: w}`, one `Write` per chunk, `Close`; stops at the first error. -/
def runHex (failAt : Option Nat) (chunks : List (List UInt8)) : List Nat × Bool × List (List UInt8) :=
  let t := hwRun { buf := [] } (uwNew failAt) chunks
  (t.1, t.2.1, t.2.2.blocks)

end PsVerif.Model.T1Writers
