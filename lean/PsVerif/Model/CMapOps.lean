import PsVerif.Model.Builtins
/-
The CIDInit procedure set of `cmap.go` (15 operators).  The scratch slices
`cmapCodeSpaceRanges/cmapChars/cmapRanges` are only observable through their lengths
(every entry is overwritten before it is appended), so the state keeps the lengths.
-/
namespace PsVerif.Model
open VM

def cmapBlockLimit : Int := 100

def withCMap (s : VM) (k : Nat → CMapInfo → VM × Res) : VM × Res :=
  match s.cmapMappings with
  | none => psErr s "undefined"
  | some r => k r (s.getCMap r)

def setCMap (s : VM) (r : Nat) (c : CMapInfo) : VM := s.setCell r (.cmap c)

def bBegincmap (s : VM) : VM × Res :=
  let (s1, r) := s.alloc (.cmap {})
  okRes { s1 with cmapMappings := some r }

def strBytes (s : VM) : Obj → List UInt8
  | .str r o l => s.viewBytes r o l
  | _ => []

/-- `bytes.Compare(a, b) < 0` -/
def bytesLt : List UInt8 → List UInt8 → Bool
  | [], [] => false
  | [], _ :: _ => true
  | _ :: _, [] => false
  | a :: as, b :: bs => if a < b then true else if a > b then false else bytesLt as bs

def bytesLe (a b : List UInt8) : Bool := !bytesLt b a

def bEndcmap (s : VM) : VM × Res :=
  match s.dictStack, s.cmapMappings with
  | d :: _, some r =>
    let c := s.getCMap r
    let key (o : Obj) := strBytes s o
    let c' : CMapInfo := { c with
      codeSpaceRanges := c.codeSpaceRanges.mergeSort (fun a b =>
        let la := (key a.low).length; let lb := (key b.low).length
        if la != lb then la ≤ lb else bytesLe (key a.low) (key b.low)),
      cidChars := c.cidChars.mergeSort (fun a b => bytesLe (key a.src) (key b.src)),
      cidRanges := c.cidRanges.mergeSort (fun a b => bytesLe (key a.low) (key b.low)),
      bfChars := c.bfChars.mergeSort (fun a b => bytesLe (key a.src) (key b.src)),
      bfRanges := c.bfRanges.mergeSort (fun a b => bytesLe (key a.low) (key b.low)),
      notdefChars := c.notdefChars.mergeSort (fun a b => bytesLe (key a.src) (key b.src)),
      notdefRanges := c.notdefRanges.mergeSort (fun a b => bytesLe (key a.low) (key b.low)) }
    let s1 := setCMap s r c'
    okRes { (s1.dictPut d "CodeMap" (.cmapInfo r)) with cmapMappings := none }
  | _, _ => psErr s "stackunderflow"

def bUsecmap (s : VM) : VM × Res :=
  withCMap s fun r c =>
    match s.stack with
    | [] => psErr s "stackunderflow"
    | .name n :: rest => okRes { (setCMap s r { c with useCMap := n }) with stack := rest }
    | _ => psErr s "typecheck"

/-- common head of the `begin…` operators: pops the count `n` -/
def beginBlock (s : VM) (set : VM → Nat → VM) : VM × Res :=
  withCMap s fun _ _ =>
    match s.stack with
    | [] => psErr s "stackunderflow"
    | .int n :: rest =>
      if n < 0 ∨ n > cmapBlockLimit then psErr s "rangecheck"
      else okRes (set { s with stack := rest } n.toNat)
    | _ => psErr s "typecheck"

def bBegincodespacerange (s : VM) := beginBlock s (fun s n => { s with cmapCodeSpaceRanges := n })
def bBeginChars (s : VM) := beginBlock s (fun s n => { s with cmapChars := n })
def bBeginRanges (s : VM) := beginBlock s (fun s n => { s with cmapRanges := n })

def isStr : Obj → Bool | .str .. => true | _ => false
def isInt : Obj → Bool | .int _ => true | _ => false
def isStrOrName : Obj → Bool | .str .. | .name _ => true | _ => false
def isStrOrArr : Obj → Bool | .str .. | .arr .. => true | _ => false

/-- entries `lo hi` (bottom to top) -/
def collectPairs (s : VM) (checkOrder : Bool) : List Obj → Except ErrName (List CodeSpaceRange)
  | [] => .ok []
  | lo :: hi :: rest =>
    if !isStr lo then .error "typecheck"
    else if !isStr hi then .error "typecheck"
    else if (strBytes s lo).length != (strBytes s hi).length then .error "rangecheck"
    else if checkOrder && bytesLt (strBytes s hi) (strBytes s lo) then .error "rangecheck"
    else do
      let r ← collectPairs s checkOrder rest
      pure ({ low := lo, high := hi } :: r)
  | _ => .ok []

def bEndcodespacerange (s : VM) : VM × Res :=
  withCMap s fun r c =>
    let n := 2 * s.cmapCodeSpaceRanges
    if s.stack.length < n then psErr s "stackunderflow"
    else
      match collectPairs s true (s.stack.take n).reverse with
      | .error e => psErr s e
      | .ok es =>
        okRes { (setCMap s r { c with codeSpaceRanges := c.codeSpaceRanges ++ es }) with
                  stack := s.stack.drop n, cmapCodeSpaceRanges := 0 }

def collectChars (valOk : Obj → Bool) : List Obj → Except ErrName (List CharMap)
  | [] => .ok []
  | code :: val :: rest =>
    if !isStr code then .error "typecheck"
    else if !valOk val then .error "typecheck"
    else do
      let r ← collectChars valOk rest
      pure ({ src := code, dst := val } :: r)
  | _ => .ok []

def endChars (valOk : Obj → Bool) (add : CMapInfo → List CharMap → CMapInfo) (s : VM) : VM × Res :=
  withCMap s fun r c =>
    let n := 2 * s.cmapChars
    if s.stack.length < n then psErr s "stackunderflow"
    else
      match collectChars valOk (s.stack.take n).reverse with
      | .error e => psErr s e
      | .ok es => okRes { (setCMap s r (add c es)) with stack := s.stack.drop n, cmapChars := 0 }

def collectRanges (s : VM) (valOk : Obj → Bool) : List Obj → Except ErrName (List RangeMap)
  | [] => .ok []
  | lo :: hi :: val :: rest =>
    if !isStr lo then .error "typecheck"
    else if !isStr hi then .error "typecheck"
    else if (strBytes s lo).length != (strBytes s hi).length || bytesLt (strBytes s hi) (strBytes s lo) then .error "rangecheck"
    else if !valOk val then .error "typecheck"
    else do
      let r ← collectRanges s valOk rest
      pure ({ low := lo, high := hi, dst := val } :: r)
  | _ => .ok []

def endRanges (valOk : Obj → Bool) (add : CMapInfo → List RangeMap → CMapInfo) (s : VM) : VM × Res :=
  withCMap s fun r c =>
    let n := 3 * s.cmapRanges
    if s.stack.length < n then psErr s "stackunderflow"
    else
      match collectRanges s valOk (s.stack.take n).reverse with
      | .error e => psErr s e
      | .ok es => okRes { (setCMap s r (add c es)) with stack := s.stack.drop n, cmapRanges := 0 }

def bEndcidchar := endChars isInt (fun c es => { c with cidChars := c.cidChars ++ es })
def bEndbfchar := endChars isStrOrName (fun c es => { c with bfChars := c.bfChars ++ es })
def bEndnotdefchar := endChars isInt (fun c es => { c with notdefChars := c.notdefChars ++ es })
def bEndcidrange := endRanges isInt (fun c es => { c with cidRanges := c.cidRanges ++ es })
def bEndbfrange := endRanges isStrOrArr (fun c es => { c with bfRanges := c.bfRanges ++ es })
def bEndnotdefrange := endRanges isInt (fun c es => { c with notdefRanges := c.notdefRanges ++ es })

/-- keys of the CIDInit procedure set -/
def cidInitKeys : List String :=
  ["beginbfchar", "beginbfrange", "begincidchar", "begincidrange", "begincmap", "begincodespacerange",
   "beginnotdefchar", "beginnotdefrange", "endbfchar", "endbfrange", "endcidchar", "endcidrange",
   "endcmap", "endcodespacerange", "endnotdefchar", "endnotdefrange", "usecmap"]

def cmapBuiltin (id : String) (s : VM) : Option (VM × Res) :=
  match id with
  | "cid:begincmap" => some (bBegincmap s)
  | "cid:endcmap" => some (bEndcmap s)
  | "cid:usecmap" => some (bUsecmap s)
  | "cid:begincodespacerange" => some (bBegincodespacerange s)
  | "cid:endcodespacerange" => some (bEndcodespacerange s)
  | "cid:begincidchar" | "cid:beginbfchar" | "cid:beginnotdefchar" => some (bBeginChars s)
  | "cid:begincidrange" | "cid:beginbfrange" | "cid:beginnotdefrange" => some (bBeginRanges s)
  | "cid:endcidchar" => some (bEndcidchar s)
  | "cid:endbfchar" => some (bEndbfchar s)
  | "cid:endnotdefchar" => some (bEndnotdefchar s)
  | "cid:endcidrange" => some (bEndcidrange s)
  | "cid:endbfrange" => some (bEndbfrange s)
  | "cid:endnotdefrange" => some (bEndnotdefrange s)
  | _ => none

end PsVerif.Model
