import PsVerif.Model.Scanner
/-
Model of the buffering layer of `scanner.go` (`refill`, the 512-byte buffer and the one
function built directly on it, `readByteRaw`), and of `type1/peekreader.go`.

`Model/Scanner.lean` abstracts this layer away: there the scanner sees the remaining byte
string `src` followed by the reader's final error.  Here the underlying `io.Reader` is a
*schedule*: it decides, call by call, how many bytes it hands over and whether an error comes
with them.  `Proofs/Refill.lean` shows that the abstract model is what every schedule yields.

### Which Go code touches `buf`/`pos`/`used`
Only `readByteRaw` and `refill` (grep over the package).  Everything else in `scanner.go` and
`eexec.go` (`readByte`, `readByteEexec`, `Next`, `Peek`, `PeekN`, `SkipN`, `BeginEexec`, …) goes
through `readByteRaw` and, in addition, manipulates `peek`/`regurgitate` and *reads the field
`s.err` directly* (`ScanToken` case '>', `BeginEexec`, `executeScanner` with `CheckStart`; no
other place).  These accesses are the operations `Op` below.

### `srcErr` and `err` (fix f155a2c)
`refill` remembers the first error of `src.Read` in `srcErr` — possibly while bytes delivered
together with it are still unread — and `readByteRaw` copies it to the visible field `err` at
the moment it returns it.  Before that fix there was one field: `refill` stored the error in
`s.err` at once, and a reader returning `(n > 0, err)` made `s.err` visible early.  Witness of
the OLD behaviour (confirmed on the Go code before 3164b19/f155a2c): the program `1 >x 2`
delivered as `(6 bytes, io.EOF)` in one call made `Execute` return nil with stack `[1]`, delivered
as `(6 bytes, nil), (0, io.EOF)` it returned `syntaxerror`; in the terms of this file the
operations `[read, getErr]` observed `[byte 49, errField (some eof)]` on
`{ chunks := [⟨[49, 32, 62, 120, 32, 50], some .eof⟩] }` but `[byte 49, errField none]` on
`{ chunks := [⟨[49, 32, 62, 120, 32, 50], none⟩, ⟨[], some .eof⟩] }`.  With the split the visible
`err` is exactly the `err` field of the abstract scanner under every schedule
(`Proofs.Refill.step_sim`).

### The reader (`io.Reader` contract)
A `Read(p)` with `len(p) = k` returns `0 ≤ n ≤ k` bytes and an error or nil:
 * `n ≥ 1`, nil            — a (short) read;
 * `n ≥ 0`, `err ≠ nil`    — data together with the error, or the error alone;
 * `0`, nil                — "nothing happened"; discouraged by the contract but allowed; the
                             model allows any *finite* number of them in a row (the Go loop
                             `for s.pos >= s.used { refill }` retries; an endless sequence of
                             `(0, nil)` would spin forever and cannot be written as a finite list).
A schedule is a list of chunks (bytes, optional error).  A call takes the head chunk; if it is
larger than the space offered, only the first `k` bytes are delivered (with nil) and the rest,
with its error, stays for the next call: the amount is limited by the space offered.  An
exhausted list returns `(0, fin)` for ever.  What the list contains *after* the first chunk
carrying an error is arbitrary (the reader need not be "sticky"); `refill` never looks at it.
Since `readByteRaw` only refills an empty buffer the space offered is always the full
capacity (proved: `Proofs.Refill.fillLoop_offers_cap`), so for a deterministic reader the list of its
answers to `Read(p)` with `len(p) = cap` is such a schedule: nothing is lost by not making the
chunks depend on `k`.
-/
namespace PsVerif.Model.Refill
open PsVerif.Model

/-- an error value returned by the underlying reader: `io.EOF` or anything else -/
inductive RdErr where
  | eof
  | fault (tag : String)
  deriving DecidableEq, Repr, Inhabited

/-- the Go `error` value as seen by the scanner model -/
def RdErr.toErr : RdErr → Err
  | .eof => .eof
  | .fault t => .io t

/-- the `fault` field of the abstract scanner that produces this error -/
def RdErr.toFault : RdErr → Option String
  | .eof => none
  | .fault t => some t

/-- one answer of the reader: the bytes and the error returned with them (`none` = nil) -/
structure Chunk where
  data : List UInt8
  err : Option RdErr := none
  deriving DecidableEq, Repr

/-- the underlying `io.Reader`: its future answers; `fin` is returned once they are used up -/
structure Rd where
  chunks : List Chunk
  fin : RdErr := .eof
  deriving DecidableEq, Repr

/-- `r.Read(p)` with `len(p) = k`: bytes, error, the reader afterwards -/
def Rd.read (r : Rd) (k : Nat) : List UInt8 × Option RdErr × Rd :=
  match r.chunks with
  | [] => ([], some r.fin, r)
  | c :: rest =>
    if c.data.length ≤ k then (c.data, c.err, { r with chunks := rest })
    else (c.data.take k, none, { r with chunks := { c with data := c.data.drop k } :: rest })

/-- what the reader delivers when read to its first error: all bytes up to and including the
first chunk carrying an error, and that error -/
def deliveredL : List Chunk → RdErr → List UInt8 × RdErr
  | [], fin => ([], fin)
  | c :: rest, fin =>
    match c.err with
    | some e => (c.data, e)
    | none => (c.data ++ (deliveredL rest fin).1, (deliveredL rest fin).2)

def Rd.delivered (r : Rd) : List UInt8 × RdErr := deliveredL r.chunks r.fin

/-! ### The buffer -/

/-- the fields of `scanner` used by `refill`/`readByteRaw`; `buf.length` is the capacity
(512 in `newScanner`) -/
structure Buf where
  buf : List UInt8
  pos : Nat := 0
  used : Nat := 0
  /-- `s.srcErr`: the first error returned by `src.Read` (sticky) -/
  srcErr : Option RdErr := none
  /-- `s.err`: `srcErr` from the moment `readByteRaw` has returned it -/
  err : Option Err := none
  peek : List UInt8 := []
  regurgitate : Bool := false
  /-- `s.src` -/
  rd : Rd
  deriving Repr

/-- `newScanner(r)` with a buffer of `cap` bytes -/
def newBuf (cap : Nat) (rd : Rd) : Buf := { buf := List.replicate cap 0, rd := rd }

/-- `newScanner`: 512 bytes -/
def newScanner (rd : Rd) : Buf := newBuf 512 rd

/-- `refill`: the returned error (`none` = nil) and the new state.

```go
if s.srcErr != nil { return s.srcErr }
s.used = copy(s.buf, s.buf[s.pos:s.used])
s.pos = 0
n, err := s.src.Read(s.buf[s.used:])
s.used += n
if err != nil { s.srcErr = err }
if n > 0 { err = nil }
return err
```
`copy` with overlapping slices is a `memmove`: the `used-pos` unread bytes go to the front, the
rest of the buffer keeps its old contents.  The slice expression panics unless
`pos ≤ used ≤ cap`. -/
def refill (b : Buf) : Option Err × Buf :=
  match b.srcErr with
  | some e => (some e.toErr, b)
  | none =>
    if b.pos > b.used ∨ b.used > b.buf.length then (some (.panic "slice bounds out of range"), b)
    else
      let m := b.used - b.pos
      let buf1 := (b.buf.drop b.pos).take m ++ b.buf.drop m
      let (d, e, rd') := b.rd.read (buf1.length - m)
      let buf2 := buf1.take m ++ d ++ buf1.drop (m + d.length)
      let b' : Buf := { b with buf := buf2, pos := 0, used := m + d.length, srcErr := e, rd := rd' }
      (if d.length > 0 then none else e.map RdErr.toErr, b')

/-- the loop
`for s.pos >= s.used { err := s.refill(); if err != nil { s.err = err; return 0, err } }`.
Every turn either ends the loop or consumes a zero-progress chunk, so `chunks.length + 2`
turns always suffice (`Proofs.Refill.fillLoop_spec`: the fuel error never occurs). -/
def fillLoop : Nat → Buf → Option Err × Buf
  | 0, b => (some (.other "refill-fuel"), b)
  | fuel + 1, b =>
    if b.pos ≥ b.used then
      match refill b with
      | (some e, b') => (some e, { b' with err := some e })
      | (none, b') => fillLoop fuel b'
    else (none, b)

/-- `readByteRaw` -/
def readByteRaw (b : Buf) : Except Err UInt8 × Buf :=
  if b.regurgitate && !b.peek.isEmpty then
    match b.peek with
    | x :: rest => (.ok x, { b with peek := rest })
    | [] => (.error (.panic "unreachable"), b)
  else
    match fillLoop (b.rd.chunks.length + 2) b with
    | (some e, b') => (.error e, b')
    | (none, b') =>
      match b'.buf[b'.pos]? with
      | some x => (.ok x, { b' with pos := b'.pos + 1 })
      | none => (.error (.panic "index out of range"), b')

/-! ### Operations of the upper layers on this state

Between two raw reads the rest of the scanner may change `peek` and `regurgitate` in any way
(`Peek`/`PeekN` append, `Next` removes the head, `BeginEexec` toggles `regurgitate`) and looks at
`s.err`.  A client is any sequence of such operations; the adaptive version (`drive`) lets the
next operation depend on everything observed so far. -/

inductive Op where
  | read                              -- `readByteRaw`
  | getErr                            -- read the field `s.err`
  | setRegurgitate (v : Bool)
  | setPeek (p : List UInt8)
  deriving DecidableEq, Repr

inductive Obs where
  | byte (b : UInt8)
  | fail (e : Err)
  | errField (e : Option Err)
  | done
  deriving DecidableEq, Repr

def obsOf : Except Err UInt8 → Obs
  | .ok b => .byte b
  | .error e => .fail e

/-- one operation on the buffered scanner -/
def stepB (op : Op) (b : Buf) : Obs × Buf :=
  match op with
  | .read => (obsOf (readByteRaw b).1, (readByteRaw b).2)
  | .getErr => (.errField b.err, b)
  | .setRegurgitate v => (.done, { b with regurgitate := v })
  | .setPeek p => (.done, { b with peek := p })

/-- the same operation on the abstract scanner of `Model/Scanner.lean` -/
def stepA (op : Op) (a : Scanner) : Obs × Scanner :=
  match op with
  | .read => (obsOf (Scan.readByteRaw a).1, (Scan.readByteRaw a).2)
  | .getErr => (.errField a.err, a)
  | .setRegurgitate v => (.done, { a with regurgitate := v })
  | .setPeek p => (.done, { a with peek := p })

def runB : List Op → Buf → List Obs
  | [], _ => []
  | op :: ops, b => (stepB op b).1 :: runB ops (stepB op b).2

def runA : List Op → Scanner → List Obs
  | [], _ => []
  | op :: ops, a => (stepA op a).1 :: runA ops (stepA op a).2

/-- an adaptive client: the next operation is a function of the observations so far
(`none` = stop) -/
abbrev Client := List Obs → Option Op

def driveB (c : Client) : Nat → List Obs → Buf → List Obs
  | 0, h, _ => h
  | n + 1, h, b =>
    match c h with
    | none => h
    | some op => driveB c n (h ++ [(stepB op b).1]) (stepB op b).2

def driveA (c : Client) : Nat → List Obs → Scanner → List Obs
  | 0, h, _ => h
  | n + 1, h, a =>
    match c h with
    | none => h
    | some op => driveA c n (h ++ [(stepA op a).1]) (stepA op a).2

/-- the abstract scanner for a byte string and a final error -/
def absInit (bs : List UInt8) (e : RdErr) : Scanner := { src := bs, fault := e.toFault }

/-! ### `type1/peekreader.go` -/

/-- `peekReader`: the bytes already taken from `r` and `r` itself -/
structure PeekRd where
  buf : List UInt8
  r : Rd
  deriving Repr

/-- `(*peekReader).Read(b)` with `len(b) = k` -/
def PeekRd.read (p : PeekRd) (k : Nat) : List UInt8 × Option RdErr × PeekRd :=
  if p.buf.length = 0 then
    let (d, e, r') := p.r.read k
    (d, e, { p with r := r' })
  else
    let k' := if k > p.buf.length then p.buf.length else k
    (p.buf.take k', none, { p with buf := p.buf.drop k' })

/-- the loop of `io.ReadAtLeast(r, buf, len(buf))` (`io.ReadFull`) with `need` bytes still
missing: `for n < min && err == nil { nn, err = r.Read(buf[n:]); n += nn }`; returns the bytes,
the error of the last `Read`, and the reader -/
def readFullLoop : Nat → Rd → Nat → List UInt8 → List UInt8 × Option RdErr × Rd
  | 0, r, _, acc => (acc, none, r)
  | fuel + 1, r, need, acc =>
    if need = 0 then (acc, none, r)
    else
      let (d, e, r') := r.read need
      match e with
      | some x => (acc ++ d, some x, r')
      | none => readFullLoop fuel r' (need - d.length) (acc ++ d)

/-- the non-seekable branch of `peek(r, n)`: `io.ReadFull`, then
`if err != nil && err != io.ErrUnexpectedEOF && err != io.EOF { return nil, nil, err }` and
`return buf[:k], &peekReader{r, buf[:k]}, nil`.  `ReadAtLeast` drops the error when all `n`
bytes arrived and turns `EOF` after `0 < k < n` bytes into `ErrUnexpectedEOF`; both are
accepted here, every other error is returned. -/
def peek (r : Rd) (n : Nat) : Except RdErr (List UInt8 × PeekRd) :=
  let (got, e, r') := readFullLoop (r.chunks.length + n + 2) r n []
  if got.length ≥ n then .ok (got, { buf := got, r := r' })
  else
    match e with
    | some (.fault t) => .error (.fault t)
    | _ => .ok (got, { buf := got, r := r' })

/-- the schedule a `peekReader` is equivalent to -/
def PeekRd.toRd (p : PeekRd) : Rd :=
  if p.buf.length = 0 then p.r else { p.r with chunks := { data := p.buf } :: p.r.chunks }

/-- a reader that keeps returning its first error (with no more data): the chunks after the
first one carrying an error `e` are all `([], e)` and `fin = e` -/
def stickyL : List Chunk → RdErr → Bool
  | [], _ => true
  | c :: rest, fin =>
    match c.err with
    | some e => fin == e && rest.all (fun c' => c'.data.isEmpty && c'.err == some e)
    | none => stickyL rest fin

def Rd.sticky (r : Rd) : Bool := stickyL r.chunks r.fin

end PsVerif.Model.Refill
