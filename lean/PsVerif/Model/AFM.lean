import PsVerif.Base.SoftFloat
import PsVerif.Model.Query
/-!
Model of `afm/read.go` (`afm.Read`), `afm/write.go` (`Metrics.Write`) and of the parts of
`afm/afm.go`, `rect.Rect`, `strconv` and `fmt` they use.

* Texts are byte strings (`List Nat`, every element a byte); Go strings are byte strings too.
* Go maps become association lists sorted by key (bytewise order, no duplicate keys); a `nil`
  map and an empty map are both `[]` (the reader only ever produces `nil` for "no ligatures").
  `Metrics.Glyphs` holds no `nil` pointers in the model.
* `float64` fields are IEEE-754 bit patterns (`UInt64`, `PsVerif.Base.SoftFloat`), NaNs
  canonicalised to one quiet NaN.
* `bufio.Scanner` with the split function `scanLines` of `afm/read.go`: a line ends at `\n`, at
  `\r\n` or at a bare `\r`; a final piece without line end counts unless it is empty (the
  function's waiting for more data at a buffer boundary does not show, the model sees the whole
  text).  `Read` calls `scanner.Buffer(nil, math.MaxInt)`, so there is no
  limit on the length of a line (`bufio.ErrTooLong` would need a buffer of more than
  `MaxInt/2` bytes, which no input that fits into memory reaches).
* `strings.Fields` splits at the Unicode white space characters (UTF-8 decoded the way Go does:
  an invalid byte is one non-space rune).
* `strconv.Atoi`: optional sign, decimal digits, value in the int64 range – modelled exactly.
  `strconv.ParseFloat(s, 64)`: modelled exactly for `inf`/`infinity`/`nan` and for decimal
  literals `[+-]? (digits [. digits?] | . digits) ([eE] [+-]? digits)?`; a text that contains
  an underscore or starts (after the sign) with `0x`/`0X` followed by at least one more byte
  gives the distinguished outcome `unsupported`.
* `fmt` `%.0f`: exact value rounded to an integer, ties to even, sign kept (`-0`);
  `strconv.FormatFloat(x, 'f', -1, 64)`: shortest digit string that parses back to `x`
  (searched among the two neighbours with 1 … 17 digits, nearest first, each checked with the
  model's own `parseFloat`).
* `Write`: the glyph lines come in the order of `Metrics.GlyphList` (`Query.glyphList`: `.notdef`,
  then by the highest code, then by name); a glyph's code is the first index of its name in the
  encoding; ligatures are written in key order (the stored order of the sorted list); `Version`
  and `Notice` only when not empty; `FamilyName`/`Weight` from `strings.Split(FullName, " ")`.
  `FontBBox` is the union of the glyph boxes taken in ascending order of the glyph names
  (`FontBBoxPDF` sorts the keys; `sortByName`), then `int(floor/ceil)`: `writeSupported` says
  whether the printed text is determined (the four values finite and inside int64, Go's `int(x)`
  being implementation-specific otherwise); the driver answers `unsupported` otherwise.  `write`
  itself is total.
* `read = readCore`.
-/
namespace PsVerif.Model.AFM
open PsVerif.Base

abbrev Bytes := List Nat

/-- three-way outcome: Go succeeded / Go returned an error / outside the modelled subset -/
inductive Res (α : Type) where
  | ok (a : α)
  | error
  | unsupported
  deriving Repr, DecidableEq

def Res.bind {α β : Type} (r : Res α) (f : α → Res β) : Res β :=
  match r with
  | .ok a => f a
  | .error => .error
  | .unsupported => .unsupported

instance : Monad Res where
  pure := Res.ok
  bind := Res.bind

/-! ## key words -/
def kEndCharMetrics : Bytes := [69,110,100,67,104,97,114,77,101,116,114,105,99,115]  -- "EndCharMetrics"
def kC : Bytes := [67]  -- "C"
def kWX : Bytes := [87,88]  -- "WX"
def kN : Bytes := [78]  -- "N"
def kB : Bytes := [66]  -- "B"
def kL : Bytes := [76]  -- "L"
def kEndKernPairs : Bytes := [69,110,100,75,101,114,110,80,97,105,114,115]  -- "EndKernPairs"
def kKPX : Bytes := [75,80,88]  -- "KPX"
def kFontName : Bytes := [70,111,110,116,78,97,109,101]  -- "FontName"
def kFullName : Bytes := [70,117,108,108,78,97,109,101]  -- "FullName"
def kVersion : Bytes := [86,101,114,115,105,111,110]  -- "Version"
def kNotice : Bytes := [78,111,116,105,99,101]  -- "Notice"
def kCapHeight : Bytes := [67,97,112,72,101,105,103,104,116]  -- "CapHeight"
def kXHeight : Bytes := [88,72,101,105,103,104,116]  -- "XHeight"
def kAscender : Bytes := [65,115,99,101,110,100,101,114]  -- "Ascender"
def kDescender : Bytes := [68,101,115,99,101,110,100,101,114]  -- "Descender"
def kUnderlinePosition : Bytes := [85,110,100,101,114,108,105,110,101,80,111,115,105,116,105,111,110]  -- "UnderlinePosition"
def kUnderlineThickness : Bytes := [85,110,100,101,114,108,105,110,101,84,104,105,99,107,110,101,115,115]  -- "UnderlineThickness"
def kItalicAngle : Bytes := [73,116,97,108,105,99,65,110,103,108,101]  -- "ItalicAngle"
def kIsFixedPitch : Bytes := [73,115,70,105,120,101,100,80,105,116,99,104]  -- "IsFixedPitch"
def kStartCharMetrics : Bytes := [83,116,97,114,116,67,104,97,114,77,101,116,114,105,99,115]  -- "StartCharMetrics"
def kStartKernPairs : Bytes := [83,116,97,114,116,75,101,114,110,80,97,105,114,115]  -- "StartKernPairs"
def ktrue : Bytes := [116,114,117,101]  -- "true"
def kfalse : Bytes := [102,97,108,115,101]  -- "false"
def notdef : Bytes := [46,110,111,116,100,101,102]  -- ".notdef"
def kStartFontMetrics41 : Bytes := [83,116,97,114,116,70,111,110,116,77,101,116,114,105,99,115,32,52,46,49]  -- "StartFontMetrics 4.1"
def kFamilyName : Bytes := [70,97,109,105,108,121,78,97,109,101]  -- "FamilyName"
def kWeight : Bytes := [87,101,105,103,104,116]  -- "Weight"
def kFontBBox : Bytes := [70,111,110,116,66,66,111,120]  -- "FontBBox"
def kStartKernData : Bytes := [83,116,97,114,116,75,101,114,110,68,97,116,97]  -- "StartKernData"
def kEndKernData : Bytes := [69,110,100,75,101,114,110,68,97,116,97]  -- "EndKernData"
def kEndFontMetrics : Bytes := [69,110,100,70,111,110,116,77,101,116,114,105,99,115]  -- "EndFontMetrics"
def kNaN : Bytes := [78,97,78]  -- "NaN"
def kPInf : Bytes := [43,73,110,102]  -- "+Inf"
def kMInf : Bytes := [45,73,110,102]  -- "-Inf"
def kinf : Bytes := [105,110,102]  -- "inf"
def kinfinity : Bytes := [105,110,102,105,110,105,116,121]  -- "infinity"
def knan : Bytes := [110,97,110]  -- "nan"

/-! ## lines (`bufio.Scanner` with the split function `scanLines` of `afm/read.go`) -/

/-- the lines the scanner delivers: a line ends at `\n`, at `\r\n` or at a bare `\r` (also a `\r`
at the very end of the text); a final piece without line end is a line unless it is empty -/
def scanLines : Bytes → List Bytes
  | [] => []
  | [b] => if b = 10 ∨ b = 13 then [[]] else [[b]]
  | b :: c :: bs =>
    if b = 10 then [] :: scanLines (c :: bs)
    else if b = 13 then
      (if c = 10 then [] :: scanLines bs else [] :: scanLines (c :: bs))
    else
      match scanLines (c :: bs) with
      | [] => [[b]]
      | l :: ls => (b :: l) :: ls

/-! ## `strings.Fields`, `strings.Split`, `strings.Join` -/

def isAsciiSpace (b : Nat) : Bool := b = 9 || b = 10 || b = 11 || b = 12 || b = 13 || b = 32

/-- UTF-8 encodings of the non-ASCII runes with `unicode.IsSpace`:
U+0085, U+00A0, U+1680, U+2000–U+200A, U+2028, U+2029, U+202F, U+205F, U+3000 -/
def mbSpaces : List Bytes :=
  [[0xC2,0x85], [0xC2,0xA0], [0xE1,0x9A,0x80],
   [0xE2,0x80,0x80], [0xE2,0x80,0x81], [0xE2,0x80,0x82], [0xE2,0x80,0x83], [0xE2,0x80,0x84],
   [0xE2,0x80,0x85], [0xE2,0x80,0x86], [0xE2,0x80,0x87], [0xE2,0x80,0x88], [0xE2,0x80,0x89],
   [0xE2,0x80,0x8A], [0xE2,0x80,0xA8], [0xE2,0x80,0xA9], [0xE2,0x80,0xAF], [0xE2,0x81,0x9F],
   [0xE3,0x80,0x80]]

/-- width of the multi-byte space at the head of the text (0: none) -/
def mbLen (l : Bytes) : Nat :=
  match mbSpaces.find? (fun p => p.isPrefixOf l) with
  | some p => p.length
  | none => 0

/-- width in bytes of the white-space rune at the head of the (non-empty) text, 0 if the head
is not white space -/
def spaceLen (l : Bytes) : Nat :=
  match l with
  | [] => 0
  | b :: _ => if isAsciiSpace b then 1 else mbLen l

def flush (cur : Bytes) : List Bytes := if cur = [] then [] else [cur.reverse]

/-- `skip`: bytes of a multi-byte space still to pass; `cur`: current field, reversed -/
def fieldsGo : Bytes → Nat → Bytes → List Bytes
  | [], _, cur => flush cur
  | _ :: bs, skip + 1, cur => fieldsGo bs skip cur
  | b :: bs, 0, cur =>
    match spaceLen (b :: bs) with
    | 0 => fieldsGo bs 0 (b :: cur)
    | n + 1 => flush cur ++ fieldsGo bs n []

/-- `strings.Fields` -/
def fields (l : Bytes) : List Bytes := fieldsGo l 0 []

/-- `strings.Split(s, string(c))` for a one-byte separator -/
def splitOn (c : Nat) : Bytes → List Bytes
  | [] => [[]]
  | b :: bs =>
    if b = c then [] :: splitOn c bs
    else
      match splitOn c bs with
      | [] => [[b]]
      | l :: ls => (b :: l) :: ls

/-- `strings.Join(parts, " ")` -/
def joinSp : List Bytes → Bytes
  | [] => []
  | [a] => a
  | a :: b :: rest => a ++ 32 :: joinSp (b :: rest)

/-! ## numbers: parsing -/

def isDigit (b : Nat) : Bool := 48 ≤ b && b ≤ 57

/-- value of a digit string -/
def parseNat (ds : Bytes) : Nat := ds.foldl (fun a d => a * 10 + (d - 48)) 0

/-- optional sign: (negative, sign present, rest) -/
def splitSign (s : Bytes) : Bool × Bool × Bytes :=
  match s with
  | 43 :: r => (false, true, r)
  | 45 :: r => (true, true, r)
  | _ => (false, false, s)

/-- `strconv.Atoi` on a 64-bit platform; `none`: Go returns an error -/
def atoi (s : Bytes) : Option Int :=
  let sg := splitSign s
  let ds := sg.2.2
  if ds = [] || !ds.all isDigit then none
  else
    let v : Int := if sg.1 then -(parseNat ds : Int) else (parseNat ds : Int)
    if -9223372036854775808 ≤ v ∧ v ≤ 9223372036854775807 then some v else none

/-- conversion `funit.Int16(x)` of an `int`: wrap to 16 bits, two's complement -/
def wrap16 (x : Int) : Int := (x + 32768) % 65536 - 32768

def lower (c : Nat) : Nat := if 65 ≤ c ∧ c ≤ 90 then c + 32 else c

/-- leading digits and the rest -/
def spanDigits : Bytes → Bytes × Bytes
  | [] => ([], [])
  | b :: bs => if isDigit b then let (d, r) := spanDigits bs; (b :: d, r) else ([], b :: bs)

/-- the exponent part after the mantissa: `none` = syntax error -/
def parseExp (r : Bytes) : Option Int :=
  match r with
  | [] => some 0
  | c :: r1 =>
    if lower c ≠ 101 then none
    else
      let sg := splitSign r1
      let ds := sg.2.2
      if ds = [] || !ds.all isDigit then none
      else some (if sg.1 then -(parseNat ds : Int) else (parseNat ds : Int))

/-- does the text (after the sign) start a hexadecimal mantissa: `0x`/`0X` and one more byte -/
def isHexPrefix (body : Bytes) : Bool :=
  match body with
  | 48 :: x :: _ :: _ => lower x == 120
  | _ => false

/-- fraction digits after the integer digits: (digits, rest) -/
def fracPart (r1 : Bytes) : Bytes × Bytes :=
  match r1 with
  | 46 :: r => spanDigits r
  | _ => ([], r1)

/-- decimal literal without its sign -/
def parseDec (neg : Bool) (body : Bytes) : Res UInt64 :=
  let ip := spanDigits body
  let fp := fracPart ip.2
  if ip.1 = [] && fp.1 = [] then .error
  else
    match parseExp fp.2 with
    | none => .error
    | some e =>
      let v := SoftFloat.ofDecimal neg (parseNat (ip.1 ++ fp.1)) (e - fp.1.length)
      if SoftFloat.isInf v then .error else .ok v

/-- `strconv.ParseFloat(s, 64)` -/
def parseFloat (s : Bytes) : Res UInt64 :=
  let sg := splitSign s
  let body := sg.2.2
  let lb := body.map lower
  if lb = kinf || lb = kinfinity then .ok (SoftFloat.withSign sg.1 SoftFloat.posInf)
  else if !sg.2.1 && lb = knan then .ok SoftFloat.qNaN
  else if s.contains 95 then .unsupported
  else if isHexPrefix body then .unsupported
  else parseDec sg.1 body

/-! ## numbers: formatting -/

def decNatF : Nat → Nat → Bytes
  | 0, n => [48 + n % 10]
  | f + 1, n => if n < 10 then [48 + n] else decNatF f (n / 10) ++ [48 + n % 10]

/-- decimal digits of a natural number -/
def decNat (n : Nat) : Bytes := decNatF n n

/-- `%d` -/
def decInt (i : Int) : Bytes := if i < 0 then 45 :: decNat i.natAbs else decNat i.natAbs

/-- magnitude of a finite float rounded to an integer, ties to even (`m·2^e`) -/
def rintAbs (m : Nat) (e : Int) : Nat :=
  if e ≥ 0 then m * 2 ^ e.toNat
  else
    let k := (-e).toNat
    let q := m / 2 ^ k
    let r := m % 2 ^ k
    let h := 2 ^ (k - 1)
    if r > h || (r = h && q % 2 = 1) then q + 1 else q

/-- `fmt.Sprintf("%.0f", x)` -/
def fmt0 (x : UInt64) : Bytes :=
  if SoftFloat.isNaN x then kNaN
  else if SoftFloat.isInf x then (if SoftFloat.signOf x then kMInf else kPInf)
  else
    let d := SoftFloat.decode x
    let r := rintAbs d.1 d.2
    if SoftFloat.signOf x then 45 :: decNat r else decNat r

/-- integer part and "has a fractional part" of the magnitude of a finite float -/
def truncAbs (m : Nat) (e : Int) : Nat × Bool :=
  if e ≥ 0 then (m * 2 ^ e.toNat, false)
  else
    let k := (-e).toNat
    (m / 2 ^ k, m % 2 ^ k ≠ 0)

/-- `math.Floor` -/
def floorF (x : UInt64) : UInt64 :=
  if SoftFloat.isNaN x then SoftFloat.qNaN
  else if SoftFloat.isInf x then x
  else
    let d := SoftFloat.decode x
    if d.2 ≥ 0 then x
    else
      let t := truncAbs d.1 d.2
      SoftFloat.ofDyadic (SoftFloat.signOf x) (if SoftFloat.signOf x && t.2 then t.1 + 1 else t.1) 0

/-- `math.Ceil` -/
def ceilF (x : UInt64) : UInt64 :=
  if SoftFloat.isNaN x then SoftFloat.qNaN
  else if SoftFloat.isInf x then x
  else
    let d := SoftFloat.decode x
    if d.2 ≥ 0 then x
    else
      let t := truncAbs d.1 d.2
      SoftFloat.ofDyadic (SoftFloat.signOf x) (if !SoftFloat.signOf x && t.2 then t.1 + 1 else t.1) 0

/-- `int(x)` for a float that is an integer; `none`: NaN, infinite or outside int64 (the Go
result is then implementation-specific) -/
def toInt64 (x : UInt64) : Option Int :=
  if SoftFloat.isNaN x || SoftFloat.isInf x then none
  else
    let d := SoftFloat.decode x
    let t := truncAbs d.1 d.2
    let v : Int := if SoftFloat.signOf x then -(t.1 : Int) else (t.1 : Int)
    if -9223372036854775808 ≤ v ∧ v ≤ 9223372036854775807 then some v else none

/-- positional rendering of `D·10^p` (`D > 0` without trailing zeros when `p < 0`) -/
def renderDec (D : Nat) (p : Int) : Bytes :=
  if p ≥ 0 then decNat D ++ List.replicate p.toNat 48
  else
    let k := (-p).toNat
    let ds := decNat D
    if ds.length > k then ds.take (ds.length - k) ++ 46 :: ds.drop (ds.length - k)
    else 48 :: 46 :: (List.replicate (k - ds.length) 48 ++ ds)

/-- strip trailing zeros of `D·10^p` -/
def stripZeros : Nat → Nat → Int → Nat × Int
  | 0, D, p => (D, p)
  | f + 1, D, p => if D ≠ 0 ∧ D % 10 = 0 then stripZeros f (D / 10) (p + 1) else (D, p)

/-- number of decimal digits of `⌊num/den⌋`-like magnitude: least `k` with `num < den·10^k`
(searching upward from `k0`, at most `fuel` steps) -/
def findK : Nat → Nat → Nat → Int → Int
  | 0, _, _, k => k
  | f + 1, num, den, k =>
    -- is num/den < 10^k ?
    let lt : Bool := if k ≥ 0 then num < den * 10 ^ k.toNat else num * 10 ^ (-k).toNat < den
    if lt then k else findK f num den (k + 1)

/-- the two `n`-digit neighbours of `num/den` (`10^(k-1) ≤ num/den < 10^k`), nearest first,
as `(D, p)` meaning `D·10^p` -/
def candidates (num den : Nat) (k : Int) (n : Nat) : List (Nat × Int) :=
  let p : Int := k - n                       -- weight of the last kept digit
  let (N, Dn) : Nat × Nat := if p ≥ 0 then (num, den * 10 ^ p.toNat) else (num * 10 ^ (-p).toNat, den)
  let d := N / Dn
  let r := N % Dn
  let lo := stripZeros 20 d p
  let hi := stripZeros 20 (d + 1) p
  if r = 0 then [lo]
  else if 2 * r < Dn then [lo, hi]
  else if 2 * r > Dn then [hi, lo]
  else if d % 2 = 0 then [lo, hi] else [hi, lo]

/-- all candidates for 1 … 17 digits -/
def allCandidates (num den : Nat) (k : Int) : List (Nat × Int) :=
  (List.range 17).flatMap (fun i => candidates num den k (i + 1))

/-- `strconv.FormatFloat(x, 'f', -1, 64)`; `none`: no digit string of up to 17 digits parses
back to `x` (does not happen) -/
def fmtShortest (x : UInt64) : Option Bytes :=
  if SoftFloat.isNaN x then some kNaN
  else if SoftFloat.isInf x then some (if SoftFloat.signOf x then kMInf else kPInf)
  else
    let sg : Bytes := if SoftFloat.signOf x then [45] else []
    let d := SoftFloat.decode x
    if d.1 = 0 then some (sg ++ [48])
    else
      let (num, den) : Nat × Nat := if d.2 ≥ 0 then (d.1 * 2 ^ d.2.toNat, 1) else (d.1, 2 ^ (-d.2).toNat)
      -- estimate of the decimal exponent from the binary one, never too large
      let b2 : Int := (num.log2 : Int) - (den.log2 : Int)
      let k0 : Int := (b2 * 30103) / 100000 - 1
      let k := findK 8 num den k0
      let cs := (allCandidates num den k).map (fun c => sg ++ renderDec c.1 c.2)
      cs.find? (fun s => parseFloat s = .ok x)

/-! ## the metrics value -/

structure Rect where
  llx : UInt64
  lly : UInt64
  urx : UInt64
  ury : UInt64
  deriving DecidableEq, Repr

def Rect.zero : Rect := ⟨0, 0, 0, 0⟩

structure Glyph where
  widthX : UInt64
  bbox : Rect
  /-- `Ligatures`: successor ↦ ligature, sorted by successor -/
  ligs : List (Bytes × Bytes)
  deriving DecidableEq, Repr

structure KernPair where
  left : Bytes
  right : Bytes
  /-- `funit.Int16` -/
  adjust : Int
  deriving DecidableEq, Repr

structure Metrics where
  /-- `Glyphs`, sorted by name -/
  glyphs : List (Bytes × Glyph)
  encoding : List Bytes
  fontName : Bytes
  fullName : Bytes
  version : Bytes
  notice : Bytes
  capHeight : UInt64
  xHeight : UInt64
  ascent : UInt64
  descent : UInt64
  underlinePosition : UInt64
  underlineThickness : UInt64
  italicAngle : UInt64
  isFixedPitch : Bool
  kern : List KernPair
  deriving DecidableEq, Repr

/-! ## association lists sorted by key -/

def lookup {β : Type} (k : Bytes) : List (Bytes × β) → Option β
  | [] => none
  | (k', v) :: rest => if k' = k then some v else lookup k rest

/-- `m[k] = v` -/
def upsert {β : Type} (k : Bytes) (v : β) : List (Bytes × β) → List (Bytes × β)
  | [] => [(k, v)]
  | (k', v') :: rest =>
    if k' = k then (k, v) :: rest
    else if Query.nameLt k k' then (k, v) :: (k', v') :: rest
    else (k', v') :: upsert k v rest

/-! ## `afm.Read` -/

/-- the local variables of one pass through the `charMetrics` branch -/
structure CharLine where
  name : Bytes := []
  width : Int := 0
  code : Int := -1
  bbox : Rect := Rect.zero
  ligs : List (Bytes × Bytes) := []
  deriving DecidableEq, Repr

/-- one `key value …` group of a character metrics line -/
def charKV (c : CharLine) (kv : Bytes) : Res CharLine :=
  match fields kv with
  | k :: v :: rest =>
    if k = kC then
      match atoi v with
      | some n => .ok { c with code := n }
      | none => .error
    else if k = kWX then
      match atoi v with
      | some n => .ok { c with width := wrap16 n }
      | none => .error
    else if k = kN then .ok { c with name := v }
    else if k = kB then
      match rest with
      | [b, cc, d] =>
        (parseFloat v).bind fun llx =>
        (parseFloat b).bind fun lly =>
        (parseFloat cc).bind fun urx =>
        (parseFloat d).bind fun ury =>
        .ok { c with bbox := ⟨llx, lly, urx, ury⟩ }
      | _ => .ok c
    else if k = kL then
      match rest with
      | l :: _ => .ok { c with ligs := upsert v l c.ligs }
      | [] => .ok c
    else .ok c
  | _ => .ok c

def charKVs : CharLine → List Bytes → Res CharLine
  | c, [] => .ok c
  | c, kv :: kvs => (charKV c kv).bind fun c' => charKVs c' kvs

/-- `res.Encoding[code] = name` -/
def setEnc (enc : List Bytes) (code : Int) (name : Bytes) : List Bytes :=
  if 0 ≤ code ∧ code < 256 then enc.set code.toNat name else enc

structure St where
  m : Metrics
  charMetrics : Bool := false
  kernPairs : Bool := false
  deriving DecidableEq, Repr

def emptyMetrics : Metrics :=
  { glyphs := [], encoding := List.replicate 256 notdef,
    fontName := [], fullName := [], version := [], notice := [],
    capHeight := 0, xHeight := 0, ascent := 0, descent := 0,
    underlinePosition := 0, underlineThickness := 0, italicAngle := 0,
    isFixedPitch := false, kern := [] }

/-- a line while `charMetrics` is set -/
def charLine (st : St) (line : Bytes) : Res St :=
  (charKVs {} (splitOn 59 line)).bind fun c =>
    if c.name = [] || (lookup c.name st.m.glyphs).isSome then .ok st
    else
      .ok { st with m := { st.m with
        encoding := setEnc st.m.encoding c.code c.name
        glyphs := upsert c.name
          { widthX := SoftFloat.ofInt c.width, bbox := c.bbox, ligs := c.ligs } st.m.glyphs } }

/-- a header field holding a number -/
def numField (st : St) (v : Bytes) (set : Metrics → UInt64 → Metrics) : Res St :=
  (parseFloat v).bind fun x => .ok { st with m := set st.m x }

/-- a line while `charMetrics` is not set -/
def headerLine (st : St) (line : Bytes) : Res St :=
  match fields line with
  | [] => .ok st
  | k :: rest =>
    if k = kEndKernPairs then .ok { st with kernPairs := false }
    else if st.kernPairs && rest.length = 3 && k = kKPX then
      match rest with
      | [l, r, a] =>
        match atoi a with
        | some x => .ok { st with m := { st.m with kern := st.m.kern ++ [⟨l, r, wrap16 x⟩] } }
        | none => .error
      | _ => .ok st
    else
      match rest with
      | [] => .ok st
      | v :: _ =>
        if k = kFontName then .ok { st with m := { st.m with fontName := v } }
        else if k = kFullName then .ok { st with m := { st.m with fullName := joinSp rest } }
        else if k = kVersion then .ok { st with m := { st.m with version := joinSp rest } }
        else if k = kNotice then .ok { st with m := { st.m with notice := joinSp rest } }
        else if k = kCapHeight then numField st v (fun m x => { m with capHeight := x })
        else if k = kXHeight then numField st v (fun m x => { m with xHeight := x })
        else if k = kAscender then numField st v (fun m x => { m with ascent := x })
        else if k = kDescender then numField st v (fun m x => { m with descent := x })
        else if k = kUnderlinePosition then numField st v (fun m x => { m with underlinePosition := x })
        else if k = kUnderlineThickness then numField st v (fun m x => { m with underlineThickness := x })
        else if k = kItalicAngle then numField st v (fun m x => { m with italicAngle := x })
        else if k = kIsFixedPitch then .ok { st with m := { st.m with isFixedPitch := v = ktrue } }
        else if k = kStartCharMetrics then .ok { st with charMetrics := true }
        else if k = kStartKernPairs then .ok { st with kernPairs := true }
        else .ok st

/-- `len(ff) > 0 && strings.HasPrefix(ff[0], "EndCharMetrics")` for `ff := strings.Fields(line)`:
the end of the character metrics section, indented or not -/
def isEndCharMetrics (ff : List Bytes) : Bool :=
  match ff with
  | [] => false
  | f :: _ => kEndCharMetrics.isPrefixOf f

/-- the body of the scanner loop -/
def readLine (st : St) (line : Bytes) : Res St :=
  if isEndCharMetrics (fields line) then .ok { st with charMetrics := false }
  else if st.charMetrics then charLine st line
  else headerLine st line

def readLines : St → List Bytes → Res St
  | st, [] => .ok st
  | st, l :: ls => (readLine st l).bind fun st' => readLines st' ls

/-- the scanner loop of `Read` and its result -/
def readCore (t : Bytes) : Res Metrics :=
  (readLines { m := emptyMetrics } (scanLines t)).bind fun st => .ok st.m

/-- `afm.Read` (the scanner has no limit on the length of a line) -/
def read (t : Bytes) : Res Metrics := readCore t

/-! ## `Metrics.Write` -/

/-- key of a float for `<`: sign-magnitude to a signed integer (not for NaN) -/
def fkey (x : UInt64) : Int :=
  let mag : Int := (x &&& 0x7fffffffffffffff).toNat
  if SoftFloat.signOf x then -mag else mag

def fLt (a b : UInt64) : Bool := !SoftFloat.isNaN a && !SoftFloat.isNaN b && fkey a < fkey b
def fIsZero (a : UInt64) : Bool := SoftFloat.isZero a

def Rect.isZero (r : Rect) : Bool := fIsZero r.llx && fIsZero r.lly && fIsZero r.urx && fIsZero r.ury

/-- `rect.Rect.Extend` -/
def Rect.extend (r other : Rect) : Rect :=
  if other.isZero then r
  else if r.isZero then other
  else
    ⟨if fLt other.llx r.llx then other.llx else r.llx,
     if fLt other.lly r.lly then other.lly else r.lly,
     if fLt r.urx other.urx then other.urx else r.urx,
     if fLt r.ury other.ury then other.ury else r.ury⟩

/-- the entries of a glyph map in ascending order of their names (bytewise order, Go's
`sort.Strings` on the keys): every entry is put at its place in a sorted list.  For a list that is
sorted already this is the identity; the names of a map are distinct. -/
def sortByName {β : Type} (l : List (Bytes × β)) : List (Bytes × β) :=
  l.foldl (fun acc e => upsert e.1 e.2 acc) []

/-- `FontBBoxPDF`: the glyphs are visited in ascending order of their names, whatever the order of
the association list (for degenerate boxes – NaN, inverted – the union depends on the order) -/
def fontBBox (m : Metrics) : Rect :=
  ((sortByName m.glyphs).map (fun g => g.2.bbox)).foldl Rect.extend Rect.zero

/-- first index of `name` in the encoding (`-1`: none) -/
def charCode (name : Bytes) : List Bytes → Nat → Int
  | [], _ => -1
  | n :: rest, i => if n = name then i else charCode name rest (i + 1)

def sp (a b : Bytes) : Bytes := a ++ 32 :: b

def ligText : List (Bytes × Bytes) → Bytes
  | [] => []
  | (s, l) :: rest => [32, 76, 32] ++ s ++ [32] ++ l ++ [32, 59] ++ ligText rest

/-- one line of the character metrics section -/
def glyphLine (enc : List Bytes) (name : Bytes) (g : Glyph) : Bytes :=
  [67, 32] ++ decInt (charCode name enc 0) ++ [32, 59, 32, 87, 88, 32] ++ fmt0 g.widthX ++
  [32, 59, 32, 78, 32] ++ name ++ [32, 59, 32, 66, 32] ++
  fmt0 (floorF g.bbox.llx) ++ [32] ++ fmt0 (floorF g.bbox.lly) ++ [32] ++
  fmt0 (ceilF g.bbox.urx) ++ [32] ++ fmt0 (ceilF g.bbox.ury) ++ [32, 59] ++ ligText g.ligs

def glyphLines (m : Metrics) : List Bytes :=
  (Query.glyphList (m.glyphs.map (·.1)) m.encoding).filterMap fun name =>
    (lookup name m.glyphs).map (glyphLine m.encoding name)

def kernLine (k : KernPair) : Bytes := sp kKPX (sp k.left (sp k.right (decInt k.adjust)))

def intOr0 (x : UInt64) : Int := (toInt64 x).getD 0

/-- the lines `Write` prints before the glyph lines, without their `\n`; `ia`: the text for
`ItalicAngle` -/
def headLines (m : Metrics) (ia : Bytes) : List Bytes :=
  let names := splitOn 32 m.fullName
  let bb := fontBBox m
  [kStartFontMetrics41, sp kFontName m.fontName, sp kFullName m.fullName] ++
  (if m.version ≠ [] then [sp kVersion m.version] else []) ++
  (if m.notice ≠ [] then [sp kNotice m.notice] else []) ++
  [sp kFamilyName names.head!, sp kWeight (joinSp names.tail),
   sp kFontBBox (sp (decInt (intOr0 (floorF bb.llx))) (sp (decInt (intOr0 (floorF bb.lly)))
     (sp (decInt (intOr0 (ceilF bb.urx))) (decInt (intOr0 (ceilF bb.ury)))))),
   sp kItalicAngle ia,
   sp kIsFixedPitch (if m.isFixedPitch then ktrue else kfalse),
   sp kUnderlinePosition (fmt0 m.underlinePosition),
   sp kUnderlineThickness (fmt0 m.underlineThickness),
   sp kCapHeight (fmt0 m.capHeight),
   sp kXHeight (fmt0 m.xHeight),
   sp kAscender (fmt0 m.ascent),
   sp kDescender (fmt0 m.descent),
   sp kStartCharMetrics (decNat m.glyphs.length)]

/-- the lines after the glyph lines -/
def tailLines (m : Metrics) : List Bytes :=
  [kEndCharMetrics] ++
  (if m.kern ≠ [] then
    [kStartKernData, sp kStartKernPairs (decNat m.kern.length)] ++ m.kern.map kernLine ++
    [kEndKernPairs, kEndKernData]
   else []) ++
  [kEndFontMetrics]

/-- all lines `Write` prints -/
def writeLinesWith (m : Metrics) (ia : Bytes) : List Bytes :=
  headLines m ia ++ glyphLines m ++ tailLines m

def unlines : List Bytes → Bytes
  | [] => []
  | l :: ls => l ++ 10 :: unlines ls

/-- the text for `ItalicAngle`; when the shortest-digits search fails (it does not) the
`%.0f` text is used so that `write` is total -/
def italicText (x : UInt64) : Bytes := (fmtShortest x).getD (fmt0 x)

/-- `Metrics.Write` (the bytes written) -/
def write (m : Metrics) : Bytes := unlines (writeLinesWith m (italicText m.italicAngle))

/-- is everything `Write` prints determined by the model? (`FontBBox` needs `int(x)` of finite
values inside int64 – Go's result for NaN, ±Inf and larger values is implementation-specific;
`ItalicAngle` needs the digit search to succeed) -/
def writeSupported (m : Metrics) : Bool :=
  let bb := fontBBox m
  (toInt64 (floorF bb.llx)).isSome && (toInt64 (floorF bb.lly)).isSome &&
  (toInt64 (ceilF bb.urx)).isSome && (toInt64 (ceilF bb.ury)).isSome &&
  (fmtShortest m.italicAngle).isSome

end PsVerif.Model.AFM
