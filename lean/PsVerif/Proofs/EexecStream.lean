import PsVerif.Model.Scanner
import PsVerif.Props.Cipher
/-
Byte-stream theorems underneath property C05 (`eexec`), for plaintexts, prefixes and layouts of ANY length.
Statements and their reading: `Props/C05.lean`.

Contents
* cipher: `decrypt_append`, `stateAfter_append` (`nextR`/`keyByte` are kept irreducible: the unifier must not unfold
  `UInt16` arithmetic on symbolic bytes).
* raw reads and hexadecimal pairs: `readByteRaw_src/_peek`, `SpellsByte`, `HexTail`, `readHexPair_spell`.
* one decrypted byte in either mode: `Layout`, `readByte_enc`.
* simulation: `SimL dl` / `Sim = SimL 0` (the invariant; `dl` = constant difference of the line counters, which are
  never read; fields: mode, no replay, equal peek buffers, column, `crSeen`, DSC comments, error, fault, raw source = layout of the remaining cipher
  bytes ++ rest, register = `stateAfter eexecR` of the consumed cipher bytes, plain source = decryption of the
  remaining cipher bytes), `Exhausted`, `SimM` and its closure lemmas, `SimM.readByte/next/peek/peekN/…`.
* `beginEexec`: clear phase (`skipEexecSpace_clear`, `peekN_clear`, `beginEexec_front`), replay phase
  (`next_ov_bin`, `next_ov_hex`, `next_ov_enc`), `beginEexec_binary_raw`, `beginEexec_hex_raw`.
* the stream: `SimL.next_step`, `SimL.readN_steps`, `SimL.position`, `eexec_begin_binary`, `eexec_begin_hex`
  (plain scanner `plainOf s1 plain`, same line), `eexec_begin_binary0`, `eexec_begin_hex0` (plain scanner
  `plainStart0 s0 ws plain`, independent of the random prefix; `beginEexec` leaves column 0 and `crSeen` off),
  `eexec_stream`.
* `endEexec`: `endEexec_run`, `Sim.endEexec_at_end`; look-ahead past the end: `Sim.peek_past_end_binary`.
* tokenizer loops at equal fuel: `SimM.readRegular`, `SimM.readStringBody`, ….
* clear scanners: `next_clear`, `peekN_spec`, `Mono` (operations only consume), `AgreeOn`/`FI` (fuel independence
  of every loop once the fuel exceeds the bytes left: `FI.readRegular` … `FI.skipWhiteSpace`), `SimM.fuel_bind`,
  and with them `SimM.skipWhiteSpace`, `SimM.readString`, …, `SimM.scanToken`.
-/
namespace PsVerif.Proofs.EexecStream
open PsVerif.Model PsVerif.Model.Scan PsVerif.Model.Cipher

/-! ### cipher facts -/

-- `nextR`/`keyByte` are `UInt16` arithmetic; the unifier must never look inside them
attribute [local irreducible] nextR keyByte

theorem stateAfter_cons (r : UInt16) (c : UInt8) (cs : List UInt8) :
    stateAfter r (c :: cs) = stateAfter (nextR r c) cs := rfl
theorem stateAfter_nil (r : UInt16) : stateAfter r [] = r := rfl
theorem decrypt_cons (r : UInt16) (c : UInt8) (cs : List UInt8) :
    decrypt r (c :: cs) = (c ^^^ keyByte r) :: decrypt (nextR r c) cs := rfl
theorem decrypt_nil (r : UInt16) : decrypt r [] = [] := rfl

theorem decrypt_append (r : UInt16) (a b : List UInt8) :
    decrypt r (a ++ b) = decrypt r a ++ decrypt (stateAfter r a) b := by
  induction a generalizing r with
  | nil => rfl
  | cons x xs ih =>
    rw [List.cons_append, decrypt_cons, decrypt_cons, stateAfter_cons, ih, List.cons_append]

theorem stateAfter_append (r : UInt16) (a b : List UInt8) :
    stateAfter r (a ++ b) = stateAfter (stateAfter r a) b := by
  induction a generalizing r with
  | nil => rfl
  | cons x xs ih => rw [List.cons_append, stateAfter_cons, stateAfter_cons, ih]

/-! ### monad plumbing -/

theorem bind_ok {α β : Type} (m : SM α) (k : α → SM β) (s s' : Scanner) (a : α) (h : m s = (.ok a, s')) :
    (m >>= k) s = k a s' := by
  simp [bind, ExceptT.bind, ExceptT.mk, StateT.bind, ExceptT.bindCont, h]

theorem bind_err {α β : Type} (m : SM α) (k : α → SM β) (s s' : Scanner) (e : Err) (h : m s = (.error e, s')) :
    (m >>= k) s = (.error e, s') := by
  simp [bind, ExceptT.bind, ExceptT.mk, StateT.bind, ExceptT.bindCont, h, pure, StateT.pure]

theorem pure_run {α : Type} (a : α) (s : Scanner) : (pure a : SM α) s = (.ok a, s) := rfl

/-! ### raw reads -/

theorem readByteRaw_src (s : Scanner) (b : UInt8) (x : List UInt8)
    (hreg : s.regurgitate = false ∨ s.peek = []) (hs : s.src = b :: x) :
    readByteRaw s = (.ok b, { s with src := x }) := by
  obtain ⟨src, fault, peek, reg, eexec, r, line, col, crSeen, dsc, err⟩ := s
  simp only at hreg hs
  subst hs
  rcases hreg with h | h <;> subst h <;> cases err <;> simp [readByteRaw]

theorem readByteRaw_peek (s : Scanner) (b : UInt8) (p : List UInt8)
    (hreg : s.regurgitate = true) (hp : s.peek = b :: p) :
    readByteRaw s = (.ok b, { s with peek := p }) := by
  obtain ⟨src, fault, peek, reg, eexec, r, line, col, crSeen, dsc, err⟩ := s
  simp only at hreg hp
  subst hreg hp
  simp [readByteRaw]

/-! ### hexadecimal spelling -/

theorem forall_uint8 (P : UInt8 → Prop) (h : ∀ n, n < 256 → P (UInt8.ofNat n)) : ∀ b, P b := fun b => by
  have := h b.toNat (UInt8.toNat_lt b)
  simpa using this

theorem hexNibble_not_le (b : UInt8) : (hexNibble b).isSome = true → ¬ b ≤ 32 := by
  revert b
  apply forall_uint8
  decide +kernel

theorem isHexDigit_not_le (b : UInt8) : isHexDigit b = true → ¬ b ≤ 32 := by
  revert b
  apply forall_uint8
  decide +kernel

theorem isHexDigit_iff (b : UInt8) : isHexDigit b = (hexNibble b).isSome := by
  revert b
  apply forall_uint8
  decide +kernel

theorem nibbles_join (c : UInt8) : ((0 : UInt8) <<< 4 ||| c >>> 4) <<< 4 ||| (c &&& 15) = c := by
  revert c
  apply forall_uint8
  decide +kernel

/-- all bytes are ≤ 32 (what `readByteEexec` skips between hex digits) -/
def IsWs (w : List UInt8) : Prop := ∀ b ∈ w, b ≤ 32

/-- `t` spells the cipher byte `c`: bytes ≤ 32, the high digit (either case), bytes ≤ 32, the low digit -/
def SpellsByte (c : UInt8) (t : List UInt8) : Prop :=
  ∃ w1 h w2 l, t = w1 ++ h :: (w2 ++ [l]) ∧ IsWs w1 ∧ IsWs w2 ∧
    hexNibble h = some (c >>> 4) ∧ hexNibble l = some (c &&& 15)

/-- `t` is a hexadecimal spelling of the byte string `cs` with bytes ≤ 32 inserted anywhere
(before any digit; none after the last digit) -/
inductive HexTail : List UInt8 → List UInt8 → Prop
  | nil : HexTail [] []
  | cons {c : UInt8} {cs t ts : List UInt8} : SpellsByte c t → HexTail cs ts → HexTail (c :: cs) (t ++ ts)

/-- replay is off or has nothing to replay: raw reads come from `src` -/
def NR (s : Scanner) : Prop := s.regurgitate = false ∨ s.peek = []

theorem readHexPair_ws (w : List UInt8) (hw : IsWs w) (fuel i : Nat) (out : UInt8) (hi : i < 2) (s : Scanner) (x : List UInt8)
    (hn : NR s) (hs : s.src = w ++ x) :
    readHexPair (fuel + w.length) i out s = readHexPair fuel i out { s with src := x } := by
  induction w generalizing s with
  | nil => simp at hs; simp [← hs]
  | cons b w ih =>
    have hb : b ≤ 32 := hw b (by simp)
    have h1 := readByteRaw_src s b (w ++ x) hn hs
    show readHexPair ((fuel + w.length) + 1) i out s = _
    conv => lhs; unfold readHexPair
    rw [if_neg (by omega), bind_ok _ _ _ _ _ h1, if_pos hb]
    exact ih (fun c hc => hw c (by simp [hc])) _ hn rfl

theorem readHexPair_digit (b n : UInt8) (hb : hexNibble b = some n) (fuel i : Nat) (out : UInt8) (hi : i < 2) (s : Scanner)
    (x : List UInt8) (hn : NR s) (hs : s.src = b :: x) :
    readHexPair (fuel + 1) i out s = readHexPair fuel (i + 1) (out <<< 4 ||| n) { s with src := x } := by
  have h1 := readByteRaw_src s b x hn hs
  have hb' : ¬ b ≤ 32 := hexNibble_not_le b (by simp [hb])
  conv => lhs; unfold readHexPair
  rw [if_neg (by omega), bind_ok _ _ _ _ _ h1, if_neg hb']
  simp only [hb]

theorem readHexPair_done (fuel : Nat) (out : UInt8) (s : Scanner) : readHexPair (fuel + 1) 2 out s = (.ok out, s) := by
  unfold readHexPair
  simp [pure_run]

theorem readHexPair_spell (c : UInt8) (t : List UInt8) (ht : SpellsByte c t) (fuel : Nat) (s : Scanner) (x : List UInt8)
    (hn : NR s) (hs : s.src = t ++ x) (hf : t.length + 1 ≤ fuel) :
    readHexPair fuel 0 0 s = (.ok c, { s with src := x }) := by
  obtain ⟨w1, h, w2, l, rfl, hw1, hw2, hh, hl⟩ := ht
  simp only [List.length_append, List.length_cons, List.length_nil] at hf
  obtain ⟨k, rfl⟩ : ∃ k, fuel = ((((k + 1) + 1) + w2.length) + 1) + w1.length := ⟨fuel - (w1.length + w2.length + 3), by omega⟩
  rw [readHexPair_ws w1 hw1 _ 0 0 (by omega) s (h :: (w2 ++ [l]) ++ x) hn (by simp [hs])]
  rw [readHexPair_digit h _ hh _ 0 0 (by omega) { s with src := h :: (w2 ++ [l]) ++ x } (w2 ++ (l :: x)) hn (by simp)]
  rw [readHexPair_ws w2 hw2 _ 1 _ (by omega) { s with src := w2 ++ (l :: x) } (l :: x) hn rfl]
  rw [readHexPair_digit l _ hl _ 1 _ (by omega) { s with src := l :: x } x hn rfl]
  rw [readHexPair_done, nibbles_join]

/-! ### one decrypted byte -/

theorem readByte_of_eexec (s s1 : Scanner) (b : UInt8) (he : s.eexec ≠ 0) (h : readByteEexec s = (.ok b, s1)) :
    readByte s = (.ok (b ^^^ keyByte s1.r), { s1 with r := nextR s1.r b }) := by
  have he' : (s.eexec == 0) = false := by simpa using he
  unfold readByte
  simp [bind, ExceptT.bind, ExceptT.mk, StateT.bind, ExceptT.bindCont, getS, modS, he', h, decStep, pure,
    ExceptT.pure, StateT.pure]

theorem readByte_clear (s : Scanner) (he : s.eexec = 0) : readByte s = readByteRaw s := by
  unfold readByte
  simp [bind, ExceptT.bind, ExceptT.mk, StateT.bind, ExceptT.bindCont, getS, he]

theorem readByteEexec_bin (s : Scanner) (he : s.eexec = 2) : readByteEexec s = readByteRaw s := by
  unfold readByteEexec
  simp [bind, ExceptT.bind, ExceptT.mk, StateT.bind, ExceptT.bindCont, getS, he]

theorem readByteEexec_hex (s : Scanner) (he : s.eexec = 1) : readByteEexec s = readHexPair (fuelOf s) 0 0 s := by
  unfold readByteEexec
  simp [bind, ExceptT.bind, ExceptT.mk, StateT.bind, ExceptT.bindCont, getS, he]

/-- the raw text `t` carries the cipher bytes `cs` in mode `mode` (2 = binary, 1 = hexadecimal) -/
def Layout (mode : Nat) (cs t : List UInt8) : Prop := (mode = 2 ∧ t = cs) ∨ (mode = 1 ∧ HexTail cs t)

theorem Layout.nil_inv {mode : Nat} {t : List UInt8} (h : Layout mode [] t) : t = [] := by
  rcases h with ⟨_, h⟩ | ⟨_, h⟩
  · exact h
  · cases h; rfl

/-- **one step**: in either mode `readByte` consumes exactly the raw text of one cipher byte and returns its
decryption; the register advances by that cipher byte -/
theorem readByte_enc (mode : Nat) (s : Scanner) (c : UInt8) (cs t rest : List UInt8)
    (hm : s.eexec = mode) (hn : NR s) (hl : Layout mode (c :: cs) t) (hs : s.src = t ++ rest) :
    ∃ t', Layout mode cs t' ∧
      readByte s = (.ok (c ^^^ keyByte s.r), { s with src := t' ++ rest, r := nextR s.r c }) := by
  rcases hl with ⟨h2, rfl⟩ | ⟨h1, hh⟩
  · subst hm
    refine ⟨cs, Or.inl ⟨h2, rfl⟩, ?_⟩
    have h := readByteRaw_src s c (cs ++ rest) hn (by simpa using hs)
    rw [← readByteEexec_bin s h2] at h
    exact readByte_of_eexec s _ c (by omega) h
  · subst hm
    cases hh with
    | cons hsp htl =>
      rename_i t1 ts
      refine ⟨ts, Or.inr ⟨h1, htl⟩, ?_⟩
      have h := readHexPair_spell c t1 hsp (fuelOf s) s (ts ++ rest) hn (by simpa using hs)
        (by simp [fuelOf, hs]; omega)
      rw [← readByteEexec_hex s h1] at h
      exact readByte_of_eexec s _ c (by omega) h

/-! ### the simulation relation -/

/-- position bookkeeping of `Next` for byte `b` -/
def bump (b : UInt8) (s : Scanner) : Scanner :=
  { s with
    line := if s.crSeen && b == 10 then s.line else if b == 10 || b == 13 then s.line + 1 else s.line
    col := if s.crSeen && b == 10 then s.col else if b == 10 || b == 13 then 0 else s.col + 1
    crSeen := (b == 13) }

theorem bump_eq (b : UInt8) :
    (fun s : Scanner =>
      let s := if s.crSeen && b == 10 then s
               else if b == 10 || b == 13 then { s with line := s.line + 1, col := 0 }
               else { s with col := s.col + 1 }
      { s with crSeen := (b == 13) }) = bump b := by
  funext s
  unfold bump
  dsimp only
  split
  · rfl
  · split <;> rfl

/-- `se` is a scanner inside an eexec section (mode 1 = hex, 2 = binary) over the cipher text `cipher` (random
prefix included): the cipher bytes `done` have been consumed, the register is the one reached after them, the raw
source is the layout of the remaining cipher bytes `cs` followed by the clear text `rest`; `sp` is the plain scanner
(eexec off) whose source is the decryption of `cs` under the current register of `se`. Everything else (peek buffer, position, DSC comments, sticky
error) agrees. -/
structure SimL (dl : Nat) (mode : Nat) (cipher rest : List UInt8) (se sp : Scanner) : Prop where
  mode_ok : mode = 1 ∨ mode = 2
  eexec_e : se.eexec = mode
  eexec_p : sp.eexec = 0
  reg_e : se.regurgitate = false
  reg_p : sp.regurgitate = false
  peek_eq : se.peek = sp.peek
  stream : ∃ done cs t, cipher = done ++ cs ∧ Layout mode cs t ∧ se.src = t ++ rest ∧
    se.r = stateAfter eexecR done ∧ sp.src = decrypt se.r cs
  line_eq : se.line = sp.line + dl
  col_eq : se.col = sp.col
  crSeen_eq : se.crSeen = sp.crSeen
  dsc_eq : se.dsc = sp.dsc
  err_eq : se.err = sp.err
  fault_eq : se.fault = sp.fault

/-- the relation with equal line counters (the plain scanner is taken at the line the decrypting scanner has
reached after the random prefix) -/
abbrev Sim (mode : Nat) (cipher rest : List UInt8) (se sp : Scanner) : Prop := SimL 0 mode cipher rest se sp

/-- the plain scanner has run into its end (only then the two sides part company) -/
def Exhausted (sp : Scanner) : Prop :=
  sp.eexec = 0 ∧ sp.regurgitate = false ∧ sp.src = [] ∧ sp.err.isSome = true

/-- `m` cannot tell an eexec-encrypted source from its plaintext: run on `Sim`-related states it gives the same
result (value or error) and `Sim`-related states, unless the plain side runs into the end of the plaintext. -/
def SimM {α : Type} (m : SM α) : Prop :=
  (∀ dl mode cipher rest se sp, SimL dl mode cipher rest se sp →
    (∃ r se' sp', m se = (r, se') ∧ m sp = (r, sp') ∧ SimL dl mode cipher rest se' sp') ∨ Exhausted (m sp).2) ∧
  (∀ sp, Exhausted sp → Exhausted (m sp).2)

theorem SimM.pure {α : Type} (a : α) : SimM (pure a : SM α) :=
  ⟨fun _ _ _ _ se sp h => Or.inl ⟨.ok a, se, sp, rfl, rfl, h⟩, fun _ h => h⟩

theorem SimM.fail {α : Type} (e : Err) : SimM (fail e : SM α) :=
  ⟨fun _ _ _ _ se sp h => Or.inl ⟨.error e, se, sp, rfl, rfl, h⟩, fun _ h => h⟩

theorem bind_run {α β : Type} (m : SM α) (k : α → SM β) (s : Scanner) :
    (m >>= k) s = match m s with
      | (.ok a, s') => k a s'
      | (.error e, s') => (.error e, s') := by
  generalize hm : m s = p
  obtain ⟨r, s'⟩ := p
  cases r with
  | ok a => exact bind_ok m k s s' a hm
  | error e => exact bind_err m k s s' e hm

theorem SimM.bind {α β : Type} {m : SM α} {k : α → SM β} (hm : SimM m) (hk : ∀ a, SimM (k a)) : SimM (m >>= k) := by
  constructor
  · intro dl mode cipher rest se sp h
    rcases hm.1 dl mode cipher rest se sp h with ⟨r, se', sp', h1, h2, h'⟩ | hex
    · cases r with
      | error e =>
        exact Or.inl ⟨.error e, se', sp', bind_err _ _ _ _ _ h1, bind_err _ _ _ _ _ h2, h'⟩
      | ok a =>
        rw [bind_ok _ _ _ _ _ h1, bind_ok _ _ _ _ _ h2]
        exact (hk a).1 dl mode cipher rest se' sp' h'
    · right
      rw [bind_run]
      generalize hq : m sp = p at hex
      obtain ⟨r, s'⟩ := p
      cases r with
      | ok a => exact (hk a).2 _ hex
      | error e => exact hex
  · intro sp h
    have := hm.2 sp h
    rw [bind_run]
    generalize hq : m sp = p at this
    obtain ⟨r, s'⟩ := p
    cases r with
    | ok a => exact (hk a).2 _ this
    | error e => exact this

theorem SimM.attempt {α : Type} {m : SM α} (hm : SimM m) : SimM (attempt m) := by
  constructor
  · intro dl mode cipher rest se sp h
    rcases hm.1 dl mode cipher rest se sp h with ⟨r, se', sp', h1, h2, h'⟩ | hex
    · exact Or.inl ⟨.ok r, se', sp', by simp [Scan.attempt, h1], by simp [Scan.attempt, h2], h'⟩
    · exact Or.inr hex
  · intro sp h
    exact hm.2 sp h

/-- a state update that both sides perform alike -/
def Benign (f : Scanner → Scanner) : Prop :=
  (∀ dl mode cipher rest se sp, SimL dl mode cipher rest se sp → SimL dl mode cipher rest (f se) (f sp)) ∧ (∀ sp, Exhausted sp → Exhausted (f sp))

theorem SimM.modS {f : Scanner → Scanner} (hf : Benign f) : SimM (modS f) :=
  ⟨fun dl mode cipher rest se sp h => Or.inl ⟨.ok (), f se, f sp, rfl, rfl, hf.1 dl mode cipher rest se sp h⟩, fun sp h => hf.2 sp h⟩

/-- reading the scanner state is harmless as long as only the peek buffer, the replay flag and the
column are looked at (not the line counter: it is never read, and the two sides may differ in it by a constant) -/
theorem SimM.getS_bind {β : Type} (k : List UInt8 → Bool → Nat → Bool → SM β)
    (hk : ∀ p g c x, SimM (k p g c x)) :
    SimM (getS >>= fun s => k s.peek s.regurgitate s.col s.crSeen) := by
  constructor
  · intro dl mode cipher rest se sp h
    have e1 : (getS >>= fun s => k s.peek s.regurgitate s.col s.crSeen) se =
        k se.peek se.regurgitate se.col se.crSeen se := bind_ok _ _ _ _ _ rfl
    have e2 : (getS >>= fun s => k s.peek s.regurgitate s.col s.crSeen) sp =
        k sp.peek sp.regurgitate sp.col sp.crSeen sp := bind_ok _ _ _ _ _ rfl
    rw [e1, e2, h.peek_eq, h.reg_e, h.reg_p, h.col_eq, h.crSeen_eq]
    exact (hk _ _ _ _).1 dl mode cipher rest se sp h
  · intro sp h
    have e2 : (getS >>= fun s => k s.peek s.regurgitate s.col s.crSeen) sp =
        k sp.peek sp.regurgitate sp.col sp.crSeen sp := bind_ok _ _ _ _ _ rfl
    rw [e2]
    exact (hk _ _ _ _).2 sp h

theorem Benign.setPeek (p : List UInt8) : Benign (fun s => { s with peek := p }) :=
  ⟨fun _ _ _ _ _ _ h => ⟨h.mode_ok, h.eexec_e, h.eexec_p, h.reg_e, h.reg_p, rfl, h.stream, h.line_eq, h.col_eq,
      h.crSeen_eq, h.dsc_eq, h.err_eq, h.fault_eq⟩,
   fun _ h => h⟩

theorem Benign.pushPeek (b : UInt8) : Benign (fun s => { s with peek := s.peek ++ [b] }) :=
  ⟨fun _ _ _ _ _ _ h => ⟨h.mode_ok, h.eexec_e, h.eexec_p, h.reg_e, h.reg_p, by simp [h.peek_eq], h.stream, h.line_eq,
      h.col_eq, h.crSeen_eq, h.dsc_eq, h.err_eq, h.fault_eq⟩,
   fun _ h => h⟩

theorem Benign.bump (b : UInt8) : Benign (bump b) :=
  ⟨fun _ _ _ _ _ _ h => ⟨h.mode_ok, h.eexec_e, h.eexec_p, h.reg_e, h.reg_p, h.peek_eq, h.stream,
      (by
        simp only [EexecStream.bump, h.line_eq, h.crSeen_eq]
        split
        · rfl
        · split <;> omega),
      by simp [EexecStream.bump, h.col_eq, h.crSeen_eq], rfl,
      h.dsc_eq, h.err_eq, h.fault_eq⟩,
   fun _ h => h⟩

theorem readByteRaw_end (s : Scanner) (hreg : s.regurgitate = false) (hs : s.src = []) :
    (readByteRaw s).2.src = [] ∧ (readByteRaw s).2.err.isSome = true ∧ (readByteRaw s).2.eexec = s.eexec ∧
      (readByteRaw s).2.regurgitate = false := by
  obtain ⟨src, fault, peek, reg, eexec, r, line, col, crSeen, dsc, err⟩ := s
  simp only at hreg hs
  subst hreg hs
  cases err <;> simp [readByteRaw]

/-- **`readByte`**: the decrypting read of the eexec side returns what the plain side reads -/
theorem SimM.readByte : SimM readByte := by
  constructor
  · intro dl mode cipher rest se sp h
    obtain ⟨done, cs, t, hci, hl, hse, hr, hsp⟩ := h.stream
    cases cs with
    | nil =>
      right
      rw [readByte_clear sp h.eexec_p]
      have := readByteRaw_end sp h.reg_p (by simpa [decrypt_nil] using hsp)
      exact ⟨by rw [this.2.2.1, h.eexec_p], this.2.2.2, this.1, this.2.1⟩
    | cons c cs =>
      left
      obtain ⟨t', hl', he⟩ := readByte_enc mode se c cs t rest h.eexec_e (Or.inl h.reg_e) hl hse
      rw [decrypt_cons] at hsp
      have hp := readByteRaw_src sp _ _ (Or.inl h.reg_p) hsp
      rw [← readByte_clear sp h.eexec_p] at hp
      exact ⟨_, _, _, he, hp, ⟨h.mode_ok, h.eexec_e, h.eexec_p, h.reg_e, h.reg_p, h.peek_eq, ⟨done ++ [c], cs, t', by simp [hci], hl', rfl,
          by show nextR se.r c = _; rw [stateAfter_append, stateAfter_cons, stateAfter_nil, hr], rfl⟩,
        h.line_eq, h.col_eq, h.crSeen_eq, h.dsc_eq, h.err_eq, h.fault_eq⟩⟩
  · intro sp h
    obtain ⟨h0, hr, hs, he⟩ := h
    rw [readByte_clear sp h0]
    have := readByteRaw_end sp hr hs
    exact ⟨by rw [this.2.2.1, h0], this.2.2.2, this.1, this.2.1⟩

/-- body of `next` after the state has been looked at -/
def nextK (p : List UInt8) (g : Bool) : SM UInt8 :=
  (if !p.isEmpty && !g then
      match p with
      | b :: rest => do modS (fun s => { s with peek := rest }); pure b
      | [] => fail (.panic "unreachable")
    else readByte) >>= fun b => modS (bump b) >>= fun _ => pure b

theorem next_eq : next = getS >>= fun s => nextK s.peek s.regurgitate := by
  unfold next nextK
  simp only [bump_eq]
  rfl

theorem SimM.nextK (p : List UInt8) (g : Bool) : SimM (nextK p g) := by
  unfold EexecStream.nextK
  refine SimM.bind ?_ (fun b => SimM.bind (SimM.modS (Benign.bump b)) (fun _ => SimM.pure b))
  split
  · cases p with
    | nil => exact SimM.fail _
    | cons b rest => exact SimM.bind (SimM.modS (Benign.setPeek rest)) (fun _ => SimM.pure b)
  · exact SimM.readByte

/-- **`Next`** -/
theorem SimM.next : SimM next := by
  rw [next_eq]
  exact SimM.getS_bind (fun p g _ _ => EexecStream.nextK p g) (fun p g _ _ => SimM.nextK p g)

def peekK (p : List UInt8) : SM UInt8 :=
  match p with
  | b :: _ => pure b
  | [] => readByte >>= fun b => modS (fun s => { s with peek := s.peek ++ [b] }) >>= fun _ => pure b

theorem peek_eq : Scan.peek = getS >>= fun s => peekK s.peek := by
  unfold Scan.peek peekK
  rfl

/-- **`Peek`** -/
theorem SimM.peek : SimM Scan.peek := by
  rw [peek_eq]
  refine SimM.getS_bind (fun p _ _ _ => peekK p) (fun p _ _ _ => ?_)
  unfold peekK
  cases p with
  | cons b _ => exact SimM.pure b
  | nil => exact SimM.bind SimM.readByte (fun b => SimM.bind (SimM.modS (Benign.pushPeek b)) (fun _ => SimM.pure b))

/-- **`PeekN`** -/
theorem SimM.peekN (n fuel : Nat) : SimM (peekN n fuel) := by
  induction fuel with
  | zero =>
    exact SimM.getS_bind (fun p _ _ _ => (Pure.pure (p.take n) : SM (List UInt8))) (fun p _ _ _ => SimM.pure _)
  | succ fuel ih =>
    refine SimM.getS_bind (fun p _ _ _ =>
      (if p.length ≥ n then Pure.pure (p.take n)
       else
        Scan.attempt Scan.readByte >>= fun r =>
          match r with
          | .error _ => getS >>= fun s => Pure.pure s.peek
          | .ok b => Scan.modS (fun s => { s with peek := s.peek ++ [b] }) >>= fun _ => Scan.peekN n fuel : SM (List UInt8)))
      (fun p _ _ _ => ?_)
    split
    · exact SimM.pure _
    · refine SimM.bind (SimM.attempt SimM.readByte) (fun r => ?_)
      cases r with
      | error e =>
        exact SimM.getS_bind (fun p _ _ _ => (Pure.pure p : SM (List UInt8))) (fun p _ _ _ => SimM.pure _)
      | ok b => exact SimM.bind (SimM.modS (Benign.pushPeek b)) (fun _ => ih)

theorem SimM.lookingAt (pat : List UInt8) : SimM (lookingAt pat) :=
  SimM.bind (SimM.peekN _ _) (fun _ => SimM.pure _)

theorem SimM.skipByte : SimM skipByte :=
  SimM.bind (SimM.attempt SimM.next) (fun _ => SimM.pure _)

theorem SimM.skipN (n : Nat) : SimM (skipN n) := by
  induction n with
  | zero => exact SimM.pure _
  | succ n ih => exact SimM.bind SimM.skipByte (fun _ => ih)

theorem SimM.skipRequiredByte (b : UInt8) : SimM (skipRequiredByte b) := by
  refine SimM.bind SimM.next (fun seen => ?_)
  split
  · exact SimM.fail _
  · exact SimM.pure _

theorem SimM.skipOptionalByte (b : UInt8) : SimM (skipOptionalByte b) := by
  refine SimM.bind (SimM.attempt SimM.peek) (fun r => ?_)
  cases r with
  | error e => exact SimM.pure _
  | ok nb =>
    dsimp only
    split
    · exact SimM.skipByte
    · exact SimM.pure _

/-- **`scanner.Read`** (what `readstring` uses) -/
theorem SimM.readN (n : Nat) (acc : List UInt8) : SimM (readN n acc) := by
  induction n generalizing acc with
  | zero => exact SimM.pure _
  | succ n ih =>
    refine SimM.bind (SimM.attempt SimM.next) (fun r => ?_)
    cases r with
    | error e => exact SimM.pure _
    | ok b => exact ih _

/-! ### `beginEexec`: clear-text phase (white space, four-byte look-ahead) -/

def Clear (s : Scanner) : Prop := s.eexec = 0 ∧ s.regurgitate = false

/-- what `Peek` does to a clear scanner: at least one byte is in the peek buffer afterwards -/
def fill1 (s : Scanner) : Scanner :=
  match s.peek with
  | [] => { s with peek := s.src.take 1, src := s.src.drop 1 }
  | _ :: _ => s

/-- what `Peek` + `SkipByte` do to a clear scanner whose next byte is `b` -/
def eat1 (s : Scanner) (b : UInt8) : Scanner :=
  bump b (match s.peek with
    | [] => { s with src := s.src.tail }
    | _ :: p => { s with peek := p })

theorem getS_bind_run {β : Type} (k : Scanner → SM β) (s : Scanner) : (getS >>= k) s = k s s := bind_ok _ _ _ _ _ rfl

theorem modS_bind_run {β : Type} (f : Scanner → Scanner) (k : Unit → SM β) (s : Scanner) :
    (modS f >>= k) s = k () (f s) := bind_ok _ _ _ _ _ rfl

theorem next_peeked (s : Scanner) (b : UInt8) (p : List UInt8) (hreg : s.regurgitate = false) (hp : s.peek = b :: p) :
    next s = (.ok b, bump b { s with peek := p }) := by
  rw [next_eq, getS_bind_run]
  unfold nextK
  have : (!s.peek.isEmpty && !s.regurgitate) = true := by simp [hp, hreg]
  rw [this, hp]
  simp only [if_true]
  rw [bind_ok _ _ s { s with peek := p } b (by rw [modS_bind_run]; rfl), modS_bind_run]
  rfl

/-- `next` when nothing is served from the peek buffer by `next` itself -/
theorem next_read (s s' : Scanner) (b : UInt8) (h : s.peek = [] ∨ s.regurgitate = true)
    (hr : readByte s = (.ok b, s')) : next s = (.ok b, bump b s') := by
  rw [next_eq, getS_bind_run]
  unfold nextK
  have : (!s.peek.isEmpty && !s.regurgitate) = false := by
    rcases h with h | h <;> simp [h]
  rw [this]
  simp only [Bool.false_eq_true, if_false]
  rw [bind_ok _ _ s s' b hr, modS_bind_run]
  rfl

theorem skipByte_ok (s s' : Scanner) (b : UInt8) (h : next s = (.ok b, s')) : skipByte s = (.ok (), s') := by
  unfold skipByte
  rw [bind_ok _ _ s s' (.ok b) (by simp [Scan.attempt, h])]
  rfl

theorem peek_clear (s : Scanner) (b : UInt8) (x : List UInt8) (hc : Clear s) (hs : s.peek ++ s.src = b :: x) :
    Scan.peek s = (.ok b, fill1 s) := by
  rw [peek_eq, getS_bind_run]
  unfold peekK fill1
  cases hp : s.peek with
  | cons a p =>
    rw [hp] at hs
    simp at hs
    rw [hs.1]
    rfl
  | nil =>
    rw [hp] at hs
    simp at hs
    have h1 := readByteRaw_src s b x (Or.inl hc.2) hs
    rw [← readByte_clear s hc.1] at h1
    simp only
    rw [bind_ok _ _ _ _ _ h1, modS_bind_run, hs]
    simp [pure_run, hp]

theorem fill1_eat (s : Scanner) (b : UInt8) (x : List UInt8) (hs : s.peek ++ s.src = b :: x) :
    ∃ p, (fill1 s).peek = b :: p ∧ bump b { fill1 s with peek := p } = eat1 s b := by
  obtain ⟨src, fault, peek, reg, eexec, r, line, col, crSeen, dsc, err⟩ := s
  simp only at hs
  cases peek with
  | nil =>
    simp only [List.nil_append] at hs
    subst hs
    exact ⟨[], rfl, rfl⟩
  | cons a p =>
    simp only [List.cons_append, List.cons.injEq] at hs
    obtain ⟨rfl, _⟩ := hs
    exact ⟨p, rfl, rfl⟩

theorem fill1_clear (s : Scanner) (hc : Clear s) : Clear (fill1 s) := by
  unfold fill1; split <;> exact hc

theorem fill1_stream (s : Scanner) : (fill1 s).peek ++ (fill1 s).src = s.peek ++ s.src := by
  unfold fill1
  split
  · rename_i h
    show List.take 1 s.src ++ List.drop 1 s.src = s.peek ++ s.src
    rw [h, List.take_append_drop]; rfl
  · rfl

theorem fill1_peek_len (s : Scanner) : (fill1 s).peek.length ≤ max 1 s.peek.length := by
  unfold fill1
  split
  · simp only [List.length_take]; omega
  · omega

theorem eat1_clear (s : Scanner) (b : UInt8) (hc : Clear s) : Clear (eat1 s b) := by
  unfold eat1 bump; split <;> exact hc

theorem eat1_stream (s : Scanner) (b : UInt8) (x : List UInt8) (hs : s.peek ++ s.src = b :: x) :
    (eat1 s b).peek ++ (eat1 s b).src = x := by
  obtain ⟨src, fault, peek, reg, eexec, r, line, col, crSeen, dsc, err⟩ := s
  simp only at hs
  cases peek with
  | nil => simp only [List.nil_append] at hs; subst hs; rfl
  | cons a p =>
    simp only [List.cons_append, List.cons.injEq] at hs
    exact hs.2

theorem eat1_peek_len (s : Scanner) (b : UInt8) : (eat1 s b).peek.length ≤ s.peek.length := by
  obtain ⟨src, fault, peek, reg, eexec, r, line, col, crSeen, dsc, err⟩ := s
  cases peek with
  | nil => exact Nat.le_refl _
  | cons a p => exact Nat.le_succ _

theorem skipEexecSpace_step (fuel : Nat) (s : Scanner) (b : UInt8) (x : List UInt8) (hc : Clear s)
    (hs : s.peek ++ s.src = b :: x) :
    skipEexecSpace (fuel + 1) s =
      if isEexecSpace b then skipEexecSpace fuel (eat1 s b) else (.ok (), fill1 s) := by
  conv => lhs; unfold skipEexecSpace
  rw [bind_ok _ _ _ _ _ (peek_clear s b x hc hs)]
  split
  · obtain ⟨p, hp, he⟩ := fill1_eat s b x hs
    have := skipByte_ok _ _ _ (next_peeked (fill1 s) b p (fill1_clear s hc).2 hp)
    rw [bind_ok _ _ _ _ _ this, he]
  · rfl

/-- the clear scanner after `Peek`+`SkipByte` over the bytes `ws` -/
def eats (s : Scanner) (ws : List UInt8) : Scanner := ws.foldl eat1 s

theorem skipEexecSpace_clear (ws : List UInt8) (s : Scanner) (b : UInt8) (x : List UInt8) (hc : Clear s)
    (hs : s.peek ++ s.src = ws ++ b :: x) (hws : ∀ a ∈ ws, isEexecSpace a = true) (hb : isEexecSpace b = false)
    (fuel : Nat) (hf : ws.length + 1 ≤ fuel) :
    skipEexecSpace fuel s = (.ok (), fill1 (eats s ws)) ∧ Clear (eats s ws) ∧
      (eats s ws).peek ++ (eats s ws).src = b :: x ∧ (eats s ws).peek.length ≤ s.peek.length := by
  induction ws generalizing s fuel with
  | nil =>
    obtain ⟨f, rfl⟩ : ∃ f, fuel = f + 1 := ⟨fuel - 1, by simp at hf; omega⟩
    rw [skipEexecSpace_step f s b x hc (by simpa using hs), hb]
    exact ⟨rfl, hc, by simpa [eats] using hs, Nat.le_refl _⟩
  | cons a ws ih =>
    obtain ⟨f, rfl⟩ : ∃ f, fuel = f + 1 := ⟨fuel - 1, by simp at hf; omega⟩
    rw [skipEexecSpace_step f s a (ws ++ b :: x) hc (by simpa using hs), hws a (by simp)]
    have := ih (eat1 s a) (eat1_clear s a hc) (eat1_stream s a _ (by simpa using hs))
      (fun c hc' => hws c (by simp [hc'])) f (by simp at hf; omega)
    exact ⟨this.1, this.2.1, this.2.2.1, Nat.le_trans this.2.2.2 (eat1_peek_len s a)⟩

/-- everything but the peek buffer and the source -/
def core (s : Scanner) : Scanner := { s with peek := [], src := [] }

def bumps (s : Scanner) (l : List UInt8) : Scanner := l.foldl (fun s b => bump b s) s

theorem core_fill1 (s : Scanner) : core (fill1 s) = core s := by
  unfold fill1; split <;> rfl

theorem core_eat1 (s : Scanner) (b : UInt8) : core (eat1 s b) = bump b (core s) := by
  unfold eat1; split <;> rfl

theorem core_eats (s : Scanner) (ws : List UInt8) : core (eats s ws) = bumps (core s) ws := by
  induction ws generalizing s with
  | nil => rfl
  | cons a ws ih =>
    show core (eats (eat1 s a) ws) = bumps (bump a (core s)) ws
    rw [ih, core_eat1]

theorem peekN_clear (n fuel : Nat) (s : Scanner) (hc : Clear s) (hn : n ≤ (s.peek ++ s.src).length)
    (hf : n + 1 ≤ fuel + s.peek.length) :
    ∃ s', peekN n fuel s = (.ok ((s.peek ++ s.src).take n), s') ∧ core s' = core s ∧
      s'.peek ++ s'.src = s.peek ++ s.src ∧ s'.peek.length = max n s.peek.length := by
  induction fuel generalizing s with
  | zero =>
    refine ⟨s, ?_, rfl, rfl, by omega⟩
    unfold peekN
    rw [getS_bind_run, List.take_append_of_le_length (by omega)]
    rfl
  | succ fuel ih =>
    unfold peekN
    rw [getS_bind_run]
    by_cases hlen : s.peek.length ≥ n
    · refine ⟨s, ?_, rfl, rfl, by omega⟩
      rw [if_pos hlen, List.take_append_of_le_length (by omega)]
      rfl
    · rw [if_neg hlen]
      cases hsrc : s.src with
      | nil => simp [hsrc] at hn; omega
      | cons b x =>
        have h1 := readByteRaw_src s b x (Or.inl hc.2) hsrc
        rw [← readByte_clear s hc.1] at h1
        rw [bind_ok _ _ s { s with src := x } (.ok b) (by simp [Scan.attempt, h1])]
        simp only
        rw [modS_bind_run]
        obtain ⟨s', h1, h2, h3, h4⟩ := ih { s with src := x, peek := s.peek ++ [b] } hc
          (by simp [hsrc] at hn ⊢; omega) (by simp; omega)
        refine ⟨s', ?_, h2, ?_, ?_⟩
        · rw [h1]; simp
        · rw [h3]; simp
        · rw [h4]; simp; omega

/-- overlay of the five fields `beginEexec` sets -/
def ov (P S : List UInt8) (m : Nat) (r : UInt16) (g : Bool) (s : Scanner) : Scanner :=
  { s with peek := P, src := S, eexec := m, r := r, regurgitate := g }

theorem bumps_ov (P S : List UInt8) (m : Nat) (r : UInt16) (g : Bool) (s : Scanner) (l : List UInt8) :
    bumps (ov P S m r g s) l = ov P S m r g (bumps s l) := by
  induction l generalizing s with
  | nil => rfl
  | cons b l ih => exact ih (bump b s)

theorem bumps_append (s : Scanner) (l m : List UInt8) : bumps s (l ++ m) = bumps (bumps s l) m := by
  simp [bumps, List.foldl_append]

theorem bumps_core (s : Scanner) (l : List UInt8) : bumps (core s) l = core (bumps s l) := by
  induction l generalizing s with
  | nil => rfl
  | cons b l ih => exact ih (bump b s)

theorem isHexDigit_not_space (b : UInt8) : isHexDigit b = true → isEexecSpace b = false := by
  revert b
  apply forall_uint8
  decide +kernel

/-- the clear-text phase of `beginEexec`: white space is skipped, four bytes are peeked, the mode is chosen -/
theorem beginEexec_front (s0 : Scanner) (ws : List UInt8) (b1 b2 b3 b4 : UInt8) (y : List UInt8) (hc : Clear s0)
    (hpk : s0.peek.length ≤ 4) (hs : s0.peek ++ s0.src = ws ++ b1 :: b2 :: b3 :: b4 :: y)
    (hws : ∀ a ∈ ws, isEexecSpace a = true) (hb : isEexecSpace b1 = false) :
    beginEexec s0 =
      (skipIV 4 >>= fun _ => modS (fun s => { s with regurgitate := false, col := 0, crSeen := false }))
        (ov [b1, b2, b3, b4] y (if [b1, b2, b3, b4].all isHexDigit then 1 else 2) eexecR true (bumps s0 ws)) := by
  obtain ⟨h1, h2, h3, h4⟩ := skipEexecSpace_clear ws s0 b1 (b2 :: b3 :: b4 :: y) hc hs hws hb (fuelOf s0)
    (by have := congrArg List.length hs; simp [fuelOf] at this ⊢; omega)
  have hc1 := fill1_clear _ h2
  have hst : (fill1 (eats s0 ws)).peek ++ (fill1 (eats s0 ws)).src = b1 :: b2 :: b3 :: b4 :: y := by
    rw [fill1_stream, h3]
  have hl1 : (fill1 (eats s0 ws)).peek.length ≤ 4 := by
    have := fill1_peek_len (eats s0 ws); omega
  obtain ⟨s2, g1, g2, g3, g4⟩ := peekN_clear 4 5 (fill1 (eats s0 ws)) hc1 (by rw [hst]; simp) (by omega)
  rw [hst] at g1 g3
  have hmax : s2.peek.length = 4 := by omega
  have hpeek : s2.peek = [b1, b2, b3, b4] ∧ s2.src = y := by
    have e1 : s2.peek = (s2.peek ++ s2.src).take 4 := by
      rw [List.take_append_of_le_length (by omega), List.take_of_length_le (by omega)]
    have e2 : s2.src = (s2.peek ++ s2.src).drop 4 := by
      rw [List.drop_append_of_le_length (by omega), List.drop_of_length_le (by omega)]; rfl
    rw [g3] at e1 e2
    exact ⟨e1, e2⟩
  have hs2 : s2 = { bumps s0 ws with peek := [b1, b2, b3, b4], src := y } := by
    have : s2 = { core s2 with peek := s2.peek, src := s2.src } := rfl
    rw [this, g2, core_fill1, core_eats, bumps_core, hpeek.1, hpeek.2]
    rfl
  unfold beginEexec
  rw [getS_bind_run]
  have h0 : (s0.eexec != 0) = false := by simp [hc.1]
  rw [h0]
  simp only [Bool.false_eq_true, if_false]
  have g1' : peekN 4 5 (fill1 (eats s0 ws)) = (Except.ok [b1, b2, b3, b4], s2) := by simpa using g1
  rw [bind_ok _ _ _ _ _ h1, bind_ok _ _ _ _ _ g1']
  simp only [List.length_cons, List.length_nil, Nat.lt_irrefl, if_false]
  rw [modS_bind_run, hs2]
  by_cases hall : [b1, b2, b3, b4].all isHexDigit = true
  · rw [hall]; rfl
  · have : [b1, b2, b3, b4].all isHexDigit = false := by simpa using hall
    rw [this]; rfl

/-! ### `beginEexec`: replay of the four peeked bytes and the rest of the random prefix -/

theorem next_ov_bin (s0 : Scanner) (a : UInt8) (p S : List UInt8) (r : UInt16) :
    next (ov (a :: p) S 2 r true s0) =
      (.ok (a ^^^ keyByte r), ov p S 2 (nextR r a) true (bump (a ^^^ keyByte r) s0)) := by
  have h := readByteRaw_peek (ov (a :: p) S 2 r true s0) a p rfl rfl
  rw [← readByteEexec_bin _ rfl] at h
  have h' := readByte_of_eexec _ _ a (by show (2 : Nat) ≠ 0; omega) h
  exact next_read _ _ _ (Or.inr rfl) h'

theorem readHexPair_digit' (b n : UInt8) (hb : hexNibble b = some n) (fuel i : Nat) (out : UInt8) (hi : i < 2)
    (s s' : Scanner) (h1 : readByteRaw s = (.ok b, s')) :
    readHexPair (fuel + 1) i out s = readHexPair fuel (i + 1) (out <<< 4 ||| n) s' := by
  have hb' : ¬ b ≤ 32 := hexNibble_not_le b (by simp [hb])
  conv => lhs; unfold readHexPair
  rw [if_neg (by omega), bind_ok _ _ _ _ _ h1, if_neg hb']
  simp only [hb]

theorem next_ov_hex (s0 : Scanner) (c h l : UInt8) (p S : List UInt8) (r : UInt16)
    (hh : hexNibble h = some (c >>> 4)) (hl : hexNibble l = some (c &&& 15)) :
    next (ov (h :: l :: p) S 1 r true s0) =
      (.ok (c ^^^ keyByte r), ov p S 1 (nextR r c) true (bump (c ^^^ keyByte r) s0)) := by
  have e : readByteEexec (ov (h :: l :: p) S 1 r true s0) = (.ok c, ov p S 1 r true s0) := by
    rw [readByteEexec_hex _ rfl]
    obtain ⟨f, hf⟩ : ∃ f, fuelOf (ov (h :: l :: p) S 1 r true s0) = f + 1 + 1 + 1 :=
      ⟨S.length + p.length + 7, by simp [fuelOf, ov]; omega⟩
    rw [hf]
    rw [readHexPair_digit' h _ hh _ 0 0 (by omega) _ _ (readByteRaw_peek _ h (l :: p) rfl rfl)]
    rw [readHexPair_digit' l _ hl _ 1 _ (by omega) _ _
      (readByteRaw_peek { ov (h :: l :: p) S 1 r true s0 with peek := l :: p } l p rfl rfl)]
    rw [readHexPair_done, nibbles_join]
    rfl
  have h' := readByte_of_eexec _ _ c (by show (1 : Nat) ≠ 0; omega) e
  exact next_read _ _ _ (Or.inr rfl) h'

theorem next_ov_enc (mode : Nat) (s0 : Scanner) (c : UInt8) (cs t rest : List UInt8) (r : UInt16) (g : Bool)
    (hl : Layout mode (c :: cs) t) :
    ∃ t', Layout mode cs t' ∧
      next (ov [] (t ++ rest) mode r g s0) =
        (.ok (c ^^^ keyByte r), ov [] (t' ++ rest) mode (nextR r c) g (bump (c ^^^ keyByte r) s0)) := by
  obtain ⟨t', hl', h⟩ := readByte_enc mode (ov [] (t ++ rest) mode r g s0) c cs t rest rfl (Or.inr rfl) hl rfl
  exact ⟨t', hl', next_read _ _ _ (Or.inl rfl) h⟩

theorem skipIV_succ (n : Nat) (s s' : Scanner) (b : UInt8) (h : next s = (.ok b, s')) :
    skipIV (n + 1) s = skipIV n s' := by
  conv => lhs; unfold skipIV
  exact bind_ok _ _ _ _ _ h

/-- the state `beginEexec` leaves: line counter advanced over `skipped`, column 0 (the plaintext starts a new
line whatever the random prefix decrypts to), nothing peeked, decryption on -/
def afterBegin (s0 : Scanner) (mode : Nat) (skipped : List UInt8) (r : UInt16) (src : List UInt8) : Scanner :=
  { ov [] src mode r false (bumps s0 skipped) with col := 0, crSeen := false }

theorem stateAfter4 (r : UInt16) (a1 a2 a3 a4 : UInt8) :
    stateAfter r [a1, a2, a3, a4] = nextR (nextR (nextR (nextR r a1) a2) a3) a4 := by
  rw [stateAfter_cons, stateAfter_cons, stateAfter_cons, stateAfter_cons, stateAfter_nil]

theorem decrypt4 (r : UInt16) (a1 a2 a3 a4 : UInt8) :
    decrypt r [a1, a2, a3, a4] = [a1 ^^^ keyByte r, a2 ^^^ keyByte (nextR r a1), a3 ^^^ keyByte (nextR (nextR r a1) a2),
      a4 ^^^ keyByte (nextR (nextR (nextR r a1) a2) a3)] := by
  rw [decrypt_cons, decrypt_cons, decrypt_cons, decrypt_cons, decrypt_nil]

theorem bumps4 (s : Scanner) (p1 p2 p3 p4 : UInt8) :
    bumps s [p1, p2, p3, p4] = bump p4 (bump p3 (bump p2 (bump p1 s))) := rfl

theorem skipIV_bin (s : Scanner) (a1 a2 a3 a4 : UInt8) (y : List UInt8) (r : UInt16) :
    skipIV 4 (ov [a1, a2, a3, a4] y 2 r true s) =
      (.ok (), ov [] y 2 (stateAfter r [a1, a2, a3, a4]) true (bumps s (decrypt r [a1, a2, a3, a4]))) := by
  rw [skipIV_succ _ _ _ _ (next_ov_bin _ _ _ _ _), skipIV_succ _ _ _ _ (next_ov_bin _ _ _ _ _),
    skipIV_succ _ _ _ _ (next_ov_bin _ _ _ _ _), skipIV_succ _ _ _ _ (next_ov_bin _ _ _ _ _),
    stateAfter4, decrypt4, bumps4]
  rfl

theorem regurgitate_off (P S : List UInt8) (m : Nat) (r : UInt16) (s : Scanner) :
    modS (fun s => { s with regurgitate := false, col := 0, crSeen := false }) (ov P S m r true s) =
      (.ok (), { ov P S m r false s with col := 0, crSeen := false }) := rfl

/-- **binary**: `beginEexec` consumes the white space and exactly the four peeked cipher bytes -/
theorem beginEexec_binary_raw (s0 : Scanner) (ws : List UInt8) (a1 a2 a3 a4 : UInt8) (y : List UInt8) (hc : Clear s0)
    (hpk : s0.peek.length ≤ 4) (hs : s0.peek ++ s0.src = ws ++ a1 :: a2 :: a3 :: a4 :: y)
    (hws : ∀ a ∈ ws, isEexecSpace a = true) (hb : isEexecSpace a1 = false)
    (hbin : [a1, a2, a3, a4].all isHexDigit = false) :
    beginEexec s0 = (.ok (), afterBegin s0 2 (ws ++ decrypt eexecR [a1, a2, a3, a4])
      (stateAfter eexecR [a1, a2, a3, a4]) y) := by
  rw [beginEexec_front s0 ws a1 a2 a3 a4 y hc hpk hs hws hb, hbin]
  simp only [Bool.false_eq_true, if_false]
  rw [bind_ok _ _ _ _ _ (skipIV_bin _ _ _ _ _ _ _)]
  unfold afterBegin
  rw [bumps_append]
  exact regurgitate_off _ _ _ _ _

theorem HexTail.strip {c : UInt8} {cs t : List UInt8} (h : HexTail (c :: cs) t)
    (hd : (t.take 2).all isHexDigit = true) :
    ∃ a b y, t = a :: b :: y ∧ hexNibble a = some (c >>> 4) ∧ hexNibble b = some (c &&& 15) ∧ HexTail cs y := by
  cases h with
  | cons hsp htl =>
    rename_i t1 ts
    obtain ⟨w1, h, w2, l, rfl, hw1, hw2, hh, hl⟩ := hsp
    cases w1 with
    | cons w w1' =>
      exfalso
      have h1 : isHexDigit w = true := by simp at hd; exact hd.1
      exact isHexDigit_not_le w h1 (hw1 w (by simp))
    | nil =>
      cases w2 with
      | cons w w2' =>
        exfalso
        have h1 : isHexDigit w = true := by simp at hd; exact hd.2
        exact isHexDigit_not_le w h1 (hw2 w (by simp))
      | nil => exact ⟨h, l, ts, by simp, hh, hl, htl⟩

/-- **hexadecimal**: `beginEexec` consumes the white space, the four peeked digits (two cipher bytes, replayed from
the peek buffer) and the spelling of two more cipher bytes, white space included -/
theorem beginEexec_hex_raw (s0 : Scanner) (ws : List UInt8) (c1 c2 c3 c4 : UInt8) (cs t rest : List UInt8)
    (hc : Clear s0) (hpk : s0.peek.length ≤ 4) (hs : s0.peek ++ s0.src = ws ++ t ++ rest)
    (hws : ∀ a ∈ ws, isEexecSpace a = true) (ht : HexTail (c1 :: c2 :: c3 :: c4 :: cs) t)
    (hd : (t.take 4).all isHexDigit = true) :
    ∃ t', HexTail cs t' ∧
      beginEexec s0 = (.ok (), afterBegin s0 1 (ws ++ decrypt eexecR [c1, c2, c3, c4])
        (stateAfter eexecR [c1, c2, c3, c4]) (t' ++ rest)) := by
  obtain ⟨h1, l1, y1, rfl, hh1, hl1, ht1⟩ := ht.strip (by
    cases t with
    | nil => rfl
    | cons a t => cases t with
      | nil => simp at hd ⊢; exact hd
      | cons b t => simp at hd ⊢; exact ⟨hd.1, hd.2.1⟩)
  obtain ⟨h2, l2, y2, rfl, hh2, hl2, ht2⟩ := ht1.strip (by
    cases y1 with
    | nil => rfl
    | cons a t => cases t with
      | nil => simp at hd ⊢; exact hd.2.2
      | cons b t => simp at hd ⊢; exact ⟨hd.2.2.1, hd.2.2.2⟩)
  have hall : [h1, l1, h2, l2].all isHexDigit = true := by simpa using hd
  have hsp : isEexecSpace h1 = false := isHexDigit_not_space h1 (by simp at hall; exact hall.1)
  obtain ⟨t3, ht3, e3⟩ := next_ov_enc 1 (bump (c2 ^^^ keyByte (nextR eexecR c1)) (bump (c1 ^^^ keyByte eexecR) (bumps s0 ws)))
    c3 (c4 :: cs) y2 rest (nextR (nextR eexecR c1) c2) true (Or.inr ⟨rfl, ht2⟩)
  obtain ⟨t4, ht4, e4⟩ := next_ov_enc 1
    (bump (c3 ^^^ keyByte (nextR (nextR eexecR c1) c2)) (bump (c2 ^^^ keyByte (nextR eexecR c1)) (bump (c1 ^^^ keyByte eexecR) (bumps s0 ws))))
    c4 cs t3 rest (nextR (nextR (nextR eexecR c1) c2) c3) true ht3
  have ht4' : HexTail cs t4 := by
    rcases ht4 with ⟨h, _⟩ | ⟨_, h⟩
    · omega
    · exact h
  refine ⟨t4, ht4', ?_⟩
  rw [beginEexec_front s0 ws h1 l1 h2 l2 (y2 ++ rest) hc hpk (by simpa using hs) hws hsp, hall]
  simp only [if_true]
  have e : skipIV 4 (ov [h1, l1, h2, l2] (y2 ++ rest) 1 eexecR true (bumps s0 ws)) =
      (.ok (), ov [] (t4 ++ rest) 1 (stateAfter eexecR [c1, c2, c3, c4]) true
        (bumps (bumps s0 ws) (decrypt eexecR [c1, c2, c3, c4]))) := by
    rw [skipIV_succ _ _ _ _ (next_ov_hex _ c1 _ _ _ _ _ hh1 hl1), skipIV_succ _ _ _ _ (next_ov_hex _ c2 _ _ _ _ _ hh2 hl2),
      skipIV_succ _ _ _ _ e3, skipIV_succ _ _ _ _ e4, stateAfter4, decrypt4, bumps4]
    rfl
  rw [bind_ok _ _ _ _ _ e]
  unfold afterBegin
  rw [bumps_append]
  exact regurgitate_off _ _ _ _ _

/-! ### the byte stream after `beginEexec` -/

/-- one decrypting read, with the plain side spelled out -/
theorem SimL.readByte_step {dl mode : Nat} {cipher rest : List UInt8} {se sp : Scanner} (h : SimL dl mode cipher rest se sp)
    (b : UInt8) (x : List UInt8) (hs : sp.src = b :: x) :
    ∃ se', readByte se = (.ok b, se') ∧ readByte sp = (.ok b, { sp with src := x }) ∧
      SimL dl mode cipher rest se' { sp with src := x } := by
  obtain ⟨done, cs, t, hci, hl, hse, hr, hsp⟩ := h.stream
  cases cs with
  | nil => rw [decrypt_nil, hs] at hsp; cases hsp
  | cons c cs =>
    obtain ⟨t', hl', he⟩ := readByte_enc mode se c cs t rest h.eexec_e (Or.inl h.reg_e) hl hse
    rw [decrypt_cons, hs] at hsp
    obtain ⟨hb, hx⟩ := List.cons.inj hsp
    have hp := readByteRaw_src sp b x (Or.inl h.reg_p) hs
    rw [← readByte_clear sp h.eexec_p] at hp
    rw [← hb] at he
    exact ⟨_, he, hp, ⟨h.mode_ok, h.eexec_e, h.eexec_p, h.reg_e, h.reg_p, h.peek_eq,
      ⟨done ++ [c], cs, t', by simp [hci], hl', rfl,
        by show nextR se.r c = _; rw [stateAfter_append, stateAfter_cons, stateAfter_nil, hr], hx⟩,
      h.line_eq, h.col_eq, h.crSeen_eq, h.dsc_eq, h.err_eq, h.fault_eq⟩⟩

/-- **`Next` delivers the plaintext**: if the plain side still has the byte `b` (peeked or not), both sides
return `b`, stay related, and the plain side has advanced by exactly that byte -/
theorem SimL.next_step {dl mode : Nat} {cipher rest : List UInt8} {se sp : Scanner} (h : SimL dl mode cipher rest se sp)
    (b : UInt8) (x : List UInt8) (hs : sp.peek ++ sp.src = b :: x) :
    ∃ se' sp', next se = (.ok b, se') ∧ next sp = (.ok b, sp') ∧ SimL dl mode cipher rest se' sp' ∧
      sp'.peek ++ sp'.src = x ∧ sp'.peek = sp.peek.tail := by
  cases hp : sp.peek with
  | cons b' p =>
    rw [hp] at hs
    obtain ⟨rfl, hx⟩ := List.cons.inj hs
    have hpe : se.peek = b' :: p := by rw [h.peek_eq, hp]
    exact ⟨_, _, next_peeked se b' p h.reg_e hpe, next_peeked sp b' p h.reg_p hp,
      (Benign.bump b').1 _ _ _ _ _ _ ((Benign.setPeek p).1 _ _ _ _ _ _ h), hx, rfl⟩
  | nil =>
    rw [hp] at hs
    obtain ⟨se', h1, h2, h3⟩ := h.readByte_step b x hs
    have hpe : se.peek = [] := by rw [h.peek_eq, hp]
    exact ⟨_, _, next_read se se' b (Or.inl hpe) h1, next_read sp _ b (Or.inl hp) h2,
      (Benign.bump b).1 _ _ _ _ _ _ h3, by show sp.peek ++ x = x; rw [hp]; rfl, by show sp.peek = _; rw [hp]; rfl⟩

/-- **`scanner.Read` delivers the plaintext byte-exact**: `k` successive `Next` calls return the next `k`
plaintext bytes, on both sides, and leave related states with the plain side advanced by `k` -/
theorem SimL.readN_steps {dl mode : Nat} {cipher rest : List UInt8} (k : Nat) :
    ∀ {se sp : Scanner} (acc : List UInt8), SimL dl mode cipher rest se sp → k ≤ (sp.peek ++ sp.src).length →
    ∃ se' sp', readN k acc se = (.ok (acc ++ (sp.peek ++ sp.src).take k, none), se') ∧
      readN k acc sp = (.ok (acc ++ (sp.peek ++ sp.src).take k, none), sp') ∧
      SimL dl mode cipher rest se' sp' ∧ sp'.peek ++ sp'.src = (sp.peek ++ sp.src).drop k ∧
      (sp.peek = [] → sp'.peek = []) := by
  induction k with
  | zero =>
    intro se sp acc h _
    exact ⟨se, sp, by simp [readN, pure_run], by simp [readN, pure_run], h, rfl, fun h => h⟩
  | succ k ih =>
    intro se sp acc h hk
    cases hl : sp.peek ++ sp.src with
    | nil => rw [hl] at hk; simp at hk
    | cons b x =>
      obtain ⟨se1, sp1, h1, h2, h3, h4, h5⟩ := h.next_step b x hl
      obtain ⟨se', sp', g1, g2, g3, g4, g5⟩ := ih (acc ++ [b]) h3 (by rw [h4]; rw [hl] at hk; simp at hk; omega)
      refine ⟨se', sp', ?_, ?_, g3, by rw [g4, h4]; rfl, fun hp => g5 (by rw [h5, hp]; rfl)⟩
      · unfold readN
        rw [bind_ok _ _ se se1 (.ok b) (by simp [Scan.attempt, h1])]
        simp only
        rw [g1, h4]; simp
      · unfold readN
        rw [bind_ok _ _ sp sp1 (.ok b) (by simp [Scan.attempt, h2])]
        simp only
        rw [g2, h4]; simp

/-- the position in the cipher text and the register are determined by the number of plaintext bytes that are
not yet decrypted: with `n = cipher.length - sp.src.length` cipher bytes consumed, the raw source is the layout of
`cipher.drop n` followed by `rest` and the register is the one after `cipher.take n` -/
theorem SimL.position {dl mode : Nat} {cipher rest : List UInt8} {se sp : Scanner} (h : SimL dl mode cipher rest se sp) :
    ∃ t, Layout mode (cipher.drop (cipher.length - sp.src.length)) t ∧ se.src = t ++ rest ∧
      se.r = stateAfter eexecR (cipher.take (cipher.length - sp.src.length)) ∧
      sp.src = decrypt se.r (cipher.drop (cipher.length - sp.src.length)) := by
  obtain ⟨done, cs, t, hci, hl, hse, hr, hsp⟩ := h.stream
  have hlen : cipher.length - sp.src.length = done.length := by
    rw [hsp, PsVerif.Props.Cipher.decrypt_length, hci, List.length_append]; omega
  rw [hlen, hci, List.drop_left, List.take_left]
  exact ⟨t, hl, hse, hr, hsp⟩

/-! ### `endEexec` -/

/-- closing the section switches decryption off and touches nothing else: bytes already decrypted into the peek
buffer stay there (they are delivered first, as they are), the raw text of the cipher bytes not yet consumed and
`rest` are read as clear text from now on -/
theorem endEexec_run (se : Scanner) : endEexec se = (.ok (), { se with eexec := 0 }) := rfl

/-- when the whole plaintext has been decrypted (peeked bytes may be outstanding), closing the section gives
the plain scanner continued with the clear text `rest`, at the line the decrypting scanner has counted -/
theorem SimL.endEexec_at_end_line {dl mode : Nat} {cipher rest : List UInt8} {se sp : Scanner}
    (h : SimL dl mode cipher rest se sp) (hend : sp.src = []) :
    endEexec se = (.ok (), { sp with src := rest, r := se.r, line := sp.line + dl }) := by
  obtain ⟨done, cs, t, hci, hl, hse, hr, hsp⟩ := h.stream
  have hcs : cs = [] := by
    have := congrArg List.length hsp
    rw [hend, PsVerif.Props.Cipher.decrypt_length] at this
    exact List.eq_nil_of_length_eq_zero this.symm
  subst hcs
  have ht := hl.nil_inv
  subst ht
  rw [endEexec_run]
  obtain ⟨h1, h2, h3, h4, h5, h6, _, h7, h8, h9, h10, h11, h12⟩ := h
  obtain ⟨src, fault, peek, reg, eexec, r, line, col, crSeen, dsc, err⟩ := se
  obtain ⟨src', fault', peek', reg', eexec', r', line', col', crSeen', dsc', err'⟩ := sp
  simp only at *
  subst h3 h4 h5 h6 h7 h8 h9 h10 h11 h12 hse
  simp

/-- … with equal line counters: exactly the plain scanner continued with the clear text `rest` -/
theorem Sim.endEexec_at_end {mode : Nat} {cipher rest : List UInt8} {se sp : Scanner} (h : Sim mode cipher rest se sp)
    (hend : sp.src = []) : endEexec se = (.ok (), { sp with src := rest, r := se.r }) :=
  SimL.endEexec_at_end_line h hend

/-! ### layouts, legality, and the two main theorems -/

/-- binary form: the cipher bytes as they are -/
def binaryLayout (c : List UInt8) : List UInt8 := c

/-- legality of a binary section (the conditions of the Type 1 book, and exactly what `BeginEexec` needs): the first
cipher byte is not blank/tab/CR/LF (it would be skipped) and the first four cipher bytes are not all hex digits
(the section would be taken for hexadecimal) -/
def BinaryLegal (c : List UInt8) : Prop :=
  (∀ b, c.head? = some b → isEexecSpace b = false) ∧ (c.take 4).all isHexDigit = false

/-- `t` is a legal hexadecimal layout of `c`: a hex spelling (either case, mixed) with bytes ≤ 32 anywhere
(`HexTail`) whose first four bytes are hex digits — exactly the condition under which `BeginEexec` chooses hex mode -/
def HexLayout (c t : List UInt8) : Prop := HexTail c t ∧ (t.take 4).all isHexDigit = true

theorem four_of_length {α : Type} (l : List α) (h : 4 ≤ l.length) : ∃ a b c d y, l = a :: b :: c :: d :: y := by
  match l, h with
  | a :: b :: c :: d :: y, _ => exact ⟨a, b, c, d, y, rfl⟩

theorem split_cipher (pre plain : List UInt8) (a1 a2 a3 a4 : UInt8) (y : List UInt8) (hpre : pre.length = 4)
    (hc : encrypt eexecR (pre ++ plain) = a1 :: a2 :: a3 :: a4 :: y) :
    decrypt eexecR [a1, a2, a3, a4] = pre ∧ decrypt (stateAfter eexecR [a1, a2, a3, a4]) y = plain := by
  have h := PsVerif.Props.Cipher.dec_enc eexecR (pre ++ plain)
  rw [hc] at h
  have h' : decrypt eexecR ([a1, a2, a3, a4] ++ y) = pre ++ plain := h
  rw [decrypt_append] at h'
  exact List.append_inj h' (by rw [PsVerif.Props.Cipher.decrypt_length, hpre]; rfl)

/-- the plain scanner that goes with the state `beginEexec` leaves -/
def plainOf (s1 : Scanner) (plain : List UInt8) : Scanner := { s1 with eexec := 0, src := plain }

/-- **binary sections**: from any clear scanner state whose pending input (peeked bytes, then source) is
blank/tab/CR/LF bytes `ws`, the cipher text of `pre ++ plain` (`pre` = the four random bytes) and `rest`,
`beginEexec` succeeds, consumes exactly `ws` and four cipher bytes — the four peeked bytes are replayed, none is
lost or duplicated —, and leaves a state `Sim`-related to the plain scanner over `plain`. -/
theorem eexec_begin_binary (s0 : Scanner) (ws pre plain rest : List UInt8) (hc : Clear s0) (hpk : s0.peek.length ≤ 4)
    (hpre : pre.length = 4) (hws : ∀ a ∈ ws, isEexecSpace a = true)
    (hlegal : BinaryLegal (encrypt eexecR (pre ++ plain)))
    (hs : s0.peek ++ s0.src = ws ++ binaryLayout (encrypt eexecR (pre ++ plain)) ++ rest) :
    ∃ s1, beginEexec s0 = (.ok (), s1) ∧
      s1 = afterBegin s0 2 (ws ++ pre) (stateAfter eexecR ((encrypt eexecR (pre ++ plain)).take 4))
            ((encrypt eexecR (pre ++ plain)).drop 4 ++ rest) ∧
      Sim 2 (encrypt eexecR (pre ++ plain)) rest s1 (plainOf s1 plain) := by
  obtain ⟨a1, a2, a3, a4, y, hcy⟩ := four_of_length (encrypt eexecR (pre ++ plain))
    (by rw [PsVerif.Props.Cipher.encrypt_length, List.length_append, hpre]; omega)
  rw [hcy] at hlegal ⊢
  rw [hcy, binaryLayout] at hs
  obtain ⟨hd1, hd2⟩ := split_cipher pre plain a1 a2 a3 a4 y hpre hcy
  have hb := beginEexec_binary_raw s0 ws a1 a2 a3 a4 (y ++ rest) hc hpk (by simpa using hs) hws
    (hlegal.1 a1 rfl) (by simpa using hlegal.2)
  rw [hd1] at hb
  refine ⟨_, hb, rfl, ?_⟩
  exact ⟨Or.inr rfl, rfl, rfl, rfl, rfl, rfl, ⟨[a1, a2, a3, a4], y, y, rfl, Or.inl ⟨rfl, rfl⟩, rfl, rfl, hd2.symm⟩,
    rfl, rfl, rfl, rfl, rfl, rfl⟩

/-- **hexadecimal sections**: the same for every legal hexadecimal layout `t` of the cipher text: upper, lower or
mixed case, bytes ≤ 32 anywhere after the first four digits, also immediately after the fourth digit. -/
theorem eexec_begin_hex (s0 : Scanner) (ws pre plain t rest : List UInt8) (hc : Clear s0) (hpk : s0.peek.length ≤ 4)
    (hpre : pre.length = 4) (hws : ∀ a ∈ ws, isEexecSpace a = true)
    (hlay : HexLayout (encrypt eexecR (pre ++ plain)) t)
    (hs : s0.peek ++ s0.src = ws ++ t ++ rest) :
    ∃ s1 t', beginEexec s0 = (.ok (), s1) ∧ HexTail ((encrypt eexecR (pre ++ plain)).drop 4) t' ∧
      s1 = afterBegin s0 1 (ws ++ pre) (stateAfter eexecR ((encrypt eexecR (pre ++ plain)).take 4)) (t' ++ rest) ∧
      Sim 1 (encrypt eexecR (pre ++ plain)) rest s1 (plainOf s1 plain) := by
  obtain ⟨a1, a2, a3, a4, y, hcy⟩ := four_of_length (encrypt eexecR (pre ++ plain))
    (by rw [PsVerif.Props.Cipher.encrypt_length, List.length_append, hpre]; omega)
  rw [hcy] at hlay ⊢
  obtain ⟨hd1, hd2⟩ := split_cipher pre plain a1 a2 a3 a4 y hpre hcy
  obtain ⟨t', ht', hb⟩ := beginEexec_hex_raw s0 ws a1 a2 a3 a4 y t rest hc hpk hs hws hlay.1 hlay.2
  rw [hd1] at hb
  refine ⟨_, t', hb, ht', rfl, ?_⟩
  exact ⟨Or.inl rfl, rfl, rfl, rfl, rfl, rfl, ⟨[a1, a2, a3, a4], y, t', rfl, Or.inr ⟨rfl, ht'⟩, rfl, rfl, hd2.symm⟩,
    rfl, rfl, rfl, rfl, rfl, rfl⟩

/-! ### a plain scanner that does not depend on the random prefix -/

/-- the plain scanner at the beginning of the plaintext, built from the clear scanner `s0` and the white space `ws`
only: line counter after `ws`, column 0, `crSeen` off, nothing peeked, source `plain` -/
def plainStart0 (s0 : Scanner) (ws plain : List UInt8) : Scanner :=
  { ov [] plain 0 0 false (bumps s0 ws) with col := 0, crSeen := false }

theorem bumps_frame (s : Scanner) (l : List UInt8) :
    bumps s l = { s with line := (bumps s l).line, col := (bumps s l).col, crSeen := (bumps s l).crSeen } := by
  induction l generalizing s with
  | nil => rfl
  | cons b l ih =>
    have e : bumps s (b :: l) = bumps (bump b s) l := rfl
    rw [e, ih]
    rfl

theorem bump_line_le (b : UInt8) (s : Scanner) : s.line ≤ (bump b s).line := by
  simp only [bump]
  split
  · exact Nat.le_refl _
  · split <;> omega

theorem bumps_line_le (s : Scanner) (l : List UInt8) : s.line ≤ (bumps s l).line := by
  induction l generalizing s with
  | nil => exact Nat.le_refl _
  | cons b l ih => exact Nat.le_trans (bump_line_le b s) (ih (bump b s))

/-- number of line ends among the decrypted random prefix (as `Next` counts them after `ws`) -/
def prefixLines (s0 : Scanner) (ws pre : List UInt8) : Nat := (bumps s0 (ws ++ pre)).line - (bumps s0 ws).line

theorem prefixLines_eq (s0 : Scanner) (ws pre : List UInt8) :
    (bumps s0 (ws ++ pre)).line = (bumps s0 ws).line + prefixLines s0 ws pre := by
  have := bumps_line_le (bumps s0 ws) pre
  rw [← bumps_append] at this
  unfold prefixLines
  omega

/-- replacing the plain scanner by one that differs only in the line counter and the (unused) cipher register -/
theorem SimL.reline {dl mode : Nat} {cipher rest : List UInt8} {se sp : Scanner} (h : SimL dl mode cipher rest se sp)
    (L : Nat) (R : UInt16) (dl' : Nat) (hL : sp.line + dl = L + dl') :
    SimL dl' mode cipher rest se { sp with line := L, r := R } :=
  ⟨h.mode_ok, h.eexec_e, h.eexec_p, h.reg_e, h.reg_p, h.peek_eq, h.stream, by rw [h.line_eq, hL], h.col_eq,
    h.crSeen_eq, h.dsc_eq, h.err_eq, h.fault_eq⟩

theorem plainOf_afterBegin_reline (s0 : Scanner) (mode : Nat) (ws pre : List UInt8) (r : UInt16) (src plain : List UInt8) :
    plainStart0 s0 ws plain =
      { plainOf (afterBegin s0 mode (ws ++ pre) r src) plain with line := (bumps s0 ws).line, r := 0 } := by
  unfold plainStart0 plainOf afterBegin ov
  rw [bumps_frame s0 ws, bumps_frame s0 (ws ++ pre)]

/-- **binary sections, plain scanner independent of the prefix**: the state `beginEexec` leaves is related to
`plainStart0 s0 ws plain`, which does not mention `pre`; only the line counters differ, by the number of line ends
among the decrypted prefix bytes -/
theorem eexec_begin_binary0 (s0 : Scanner) (ws pre plain rest : List UInt8) (hc : Clear s0) (hpk : s0.peek.length ≤ 4)
    (hpre : pre.length = 4) (hws : ∀ a ∈ ws, isEexecSpace a = true)
    (hlegal : BinaryLegal (encrypt eexecR (pre ++ plain)))
    (hs : s0.peek ++ s0.src = ws ++ binaryLayout (encrypt eexecR (pre ++ plain)) ++ rest) :
    ∃ s1, beginEexec s0 = (.ok (), s1) ∧
      s1 = afterBegin s0 2 (ws ++ pre) (stateAfter eexecR ((encrypt eexecR (pre ++ plain)).take 4))
            ((encrypt eexecR (pre ++ plain)).drop 4 ++ rest) ∧
      SimL (prefixLines s0 ws pre) 2 (encrypt eexecR (pre ++ plain)) rest s1 (plainStart0 s0 ws plain) := by
  obtain ⟨s1, hb, hs1, hsim⟩ := eexec_begin_binary s0 ws pre plain rest hc hpk hpre hws hlegal hs
  refine ⟨s1, hb, hs1, ?_⟩
  subst hs1
  rw [plainOf_afterBegin_reline s0 2 ws pre]
  refine hsim.reline _ _ _ ?_
  show (bumps s0 (ws ++ pre)).line + 0 = _
  rw [prefixLines_eq]; rfl

theorem eexec_begin_hex0 (s0 : Scanner) (ws pre plain t rest : List UInt8) (hc : Clear s0) (hpk : s0.peek.length ≤ 4)
    (hpre : pre.length = 4) (hws : ∀ a ∈ ws, isEexecSpace a = true)
    (hlay : HexLayout (encrypt eexecR (pre ++ plain)) t)
    (hs : s0.peek ++ s0.src = ws ++ t ++ rest) :
    ∃ s1 t', beginEexec s0 = (.ok (), s1) ∧ HexTail ((encrypt eexecR (pre ++ plain)).drop 4) t' ∧
      s1 = afterBegin s0 1 (ws ++ pre) (stateAfter eexecR ((encrypt eexecR (pre ++ plain)).take 4)) (t' ++ rest) ∧
      SimL (prefixLines s0 ws pre) 1 (encrypt eexecR (pre ++ plain)) rest s1 (plainStart0 s0 ws plain) := by
  obtain ⟨s1, t', hb, ht', hs1, hsim⟩ := eexec_begin_hex s0 ws pre plain t rest hc hpk hpre hws hlay hs
  refine ⟨s1, t', hb, ht', hs1, ?_⟩
  subst hs1
  rw [plainOf_afterBegin_reline s0 1 ws pre]
  refine hsim.reline _ _ _ ?_
  show (bumps s0 (ws ++ pre)).line + 0 = _
  rw [prefixLines_eq]; rfl

/-- **the stream theorem** for both forms, from the state `beginEexec` leaves: `k ≤ plain.length` successive
`Next` calls (this is `scanner.Read`, what `readstring` uses) return exactly `plain.take k`; afterwards exactly
`4 + k` cipher bytes have been consumed: the raw source is the layout of `cipher.drop (4 + k)` followed by `rest`,
the register is the one after `cipher.take (4 + k)`, nothing is peeked, and the state is still `Sim`-related to
the plain scanner, which stands before `plain.drop k`. -/
theorem eexec_stream (mode : Nat) (cipher plain rest : List UInt8) (s1 : Scanner)
    (hlen : cipher.length = 4 + plain.length) (hpk : s1.peek = [])
    (hsim : SimL dl mode cipher rest s1 (plainOf s1 plain)) (k : Nat) (hk : k ≤ plain.length) :
    ∃ s' sp' t, readN k [] s1 = (.ok (plain.take k, none), s') ∧
      SimL dl mode cipher rest s' sp' ∧ sp'.peek = [] ∧ sp'.src = plain.drop k ∧ s'.peek = [] ∧
      Layout mode (cipher.drop (4 + k)) t ∧ s'.src = t ++ rest ∧
      s'.r = stateAfter eexecR (cipher.take (4 + k)) := by
  have hp0 : (plainOf s1 plain).peek = [] := hpk
  have hl0 : (plainOf s1 plain).peek ++ (plainOf s1 plain).src = plain := by rw [hp0]; rfl
  obtain ⟨s', sp', h1, _, h3, h4, h5⟩ := SimL.readN_steps k [] hsim (by rw [hl0]; exact hk)
  rw [hl0] at h1 h4
  have hp' := h5 hp0
  rw [hp'] at h4
  obtain ⟨t, g1, g2, g3, _⟩ := h3.position
  have hn : cipher.length - sp'.src.length = 4 + k := by
    have : sp'.src.length = plain.length - k := by
      have := congrArg List.length h4; simpa using this
    omega
  rw [hn] at g1 g3
  exact ⟨s', sp', t, by simpa using h1, h3, hp', by simpa using h4, by rw [h3.peek_eq, hp'], g1, g2, g3⟩

/-! ### looking past the end of the section -/

/-- **what a look-ahead past the end of the plaintext does (binary form).** When every plaintext byte has been
delivered (nothing peeked, nothing left to decrypt) and the scanner peeks once more — for instance because the
plaintext ends in a name such as `closefile` with no delimiter after it inside the section — the first CLEAR byte
`b` of `rest` is consumed as a cipher byte: its "decryption" `b ^^^ keyByte r` is returned and stays in the peek
buffer, the register moves on. After `endEexec` that garbage byte is delivered in place of `b`. -/
theorem Sim.peek_past_end_binary {cipher rest : List UInt8} {se sp : Scanner} (h : Sim 2 cipher rest se sp)
    (hpk : sp.peek = []) (hend : sp.src = []) (b : UInt8) (rest' : List UInt8) (hr : rest = b :: rest') :
    Scan.peek se = (.ok (b ^^^ keyByte se.r),
      { se with peek := [b ^^^ keyByte se.r], src := rest', r := nextR se.r b }) := by
  obtain ⟨done, cs, t, hci, hl, hse, _, hsp⟩ := h.stream
  have hcs : cs = [] := by
    have := congrArg List.length hsp
    rw [hend, PsVerif.Props.Cipher.decrypt_length] at this
    exact List.eq_nil_of_length_eq_zero this.symm
  subst hcs
  have ht := hl.nil_inv
  subst ht
  have hpe : se.peek = [] := by rw [h.peek_eq, hpk]
  have hsrc : se.src = b :: rest' := by rw [hse, hr]; rfl
  have h1 := readByteRaw_src se b rest' (Or.inl h.reg_e) hsrc
  rw [← readByteEexec_bin se h.eexec_e] at h1
  have h2 := readByte_of_eexec se _ b (by rw [h.eexec_e]; omega) h1
  rw [EexecStream.peek_eq, getS_bind_run, hpe]
  unfold peekK
  simp only
  rw [bind_ok _ _ _ _ _ h2, modS_bind_run]
  simp [pure_run, hpe]

/-! ### the scanner's loops at equal fuel

Every loop of the tokenizer that reads only through `next`/`peek`/`peekN` is simulation-invariant for each fixed
fuel. `scanToken` computes its fuel from `fuelOf s`, which depends on the length of the RAW source and therefore
differs between the two sides; further down (`FI.…`, `SimM.fuel_bind`) it is shown that on clear scanners each
loop's result does not depend on the fuel once the fuel exceeds the number of bytes left to read, which gives
`SimM.scanToken`. -/

theorem SimM.ite {α : Type} {c : Prop} [Decidable c] {a b : SM α} (ha : SimM a) (hb : SimM b) :
    SimM (if c then a else b) := by
  split <;> assumption

theorem SimM.readRegular (fuel : Nat) : ∀ acc, SimM (readRegular fuel acc) := by
  induction fuel with
  | zero => intro acc; exact SimM.pure _
  | succ fuel ih =>
    intro acc
    unfold Scan.readRegular
    refine SimM.bind (SimM.attempt SimM.peek) (fun r => ?_)
    split
    · exact SimM.pure _
    · exact SimM.fail _
    · split
      · exact SimM.pure _
      · exact SimM.bind SimM.skipByte (fun _ => ih _)

theorem SimM.readOctal (n : Nat) : ∀ oct, SimM (readOctal n oct) := by
  induction n with
  | zero => intro oct; exact SimM.pure _
  | succ n ih =>
    intro oct
    unfold Scan.readOctal
    refine SimM.bind (SimM.attempt SimM.peek) (fun r => ?_)
    split
    · exact SimM.pure _
    · exact SimM.fail _
    · split
      · exact SimM.pure _
      · exact SimM.bind SimM.skipByte (fun _ => ih _)

theorem SimM.readHexBody (fuel : Nat) : ∀ res first hi, SimM (readHexBody fuel res first hi) := by
  induction fuel with
  | zero => intro _ _ _; exact SimM.fail _
  | succ fuel ih =>
    intro res first hi
    unfold Scan.readHexBody
    refine SimM.bind SimM.next (fun b => ?_)
    split
    · exact SimM.pure _
    · split
      · exact ih _ _ _
      · split
        · exact SimM.fail _
        · split <;> exact ih _ _ _

theorem SimM.readStringBody (fuel : Nat) : ∀ res level ign, SimM (readStringBody fuel res level ign) := by
  induction fuel with
  | zero => intro _ _ _; exact SimM.fail _
  | succ fuel ih =>
    intro res level ign
    unfold Scan.readStringBody
    refine SimM.bind SimM.next (fun b => ?_)
    repeat' (first
      | exact ih _ _ _
      | refine SimM.ite ?_ ?_
      | refine SimM.bind SimM.next (fun e => ?_)
      | refine SimM.bind (SimM.readOctal _ _) (fun _ => ?_)
      | exact SimM.pure _)

theorem SimM.readA85Body (fuel : Nat) : ∀ res pos val, SimM (readA85Body fuel res pos val) := by
  induction fuel with
  | zero => intro _ _ _; exact SimM.fail _
  | succ fuel ih =>
    intro res pos val
    unfold Scan.readA85Body
    refine SimM.bind SimM.next (fun b => ?_)
    repeat' (first
      | exact ih _ _ _
      | refine SimM.ite ?_ ?_
      | exact SimM.pure _
      | exact SimM.fail _)

theorem SimM.skipToEOL (fuel : Nat) : SimM (skipToEOL fuel) := by
  induction fuel with
  | zero => exact SimM.pure _
  | succ fuel ih =>
    unfold Scan.skipToEOL
    refine SimM.bind (SimM.attempt SimM.next) (fun r => ?_)
    split
    · exact SimM.pure _
    · exact SimM.ite (SimM.pure _) (SimM.ite (SimM.skipOptionalByte _) ih)

theorem SimM.readLine (fuel : Nat) : ∀ acc, SimM (readLine fuel acc) := by
  induction fuel with
  | zero => intro acc; exact SimM.pure _
  | succ fuel ih =>
    intro acc
    unfold Scan.readLine
    refine SimM.bind (SimM.attempt SimM.next) (fun r => ?_)
    split
    · exact SimM.pure _
    · exact SimM.fail _
    · exact SimM.ite (SimM.pure _) (SimM.ite (SimM.bind (SimM.skipOptionalByte _) (fun _ => SimM.pure _)) (ih _))

theorem SimM.skipBlanks (fuel : Nat) : SimM (skipBlanks fuel) := by
  induction fuel with
  | zero => exact SimM.pure _
  | succ fuel ih =>
    unfold Scan.skipBlanks
    refine SimM.bind (SimM.attempt SimM.peek) (fun r => ?_)
    split
    · exact SimM.pure _
    · exact SimM.fail _
    · exact SimM.ite (SimM.pure _) (SimM.bind SimM.skipByte (fun _ => ih))

theorem SimM.readCommentKey (fuel : Nat) : ∀ acc, SimM (readCommentKey fuel acc) := by
  induction fuel with
  | zero => intro acc; exact SimM.pure _
  | succ fuel ih =>
    intro acc
    unfold Scan.readCommentKey
    refine SimM.bind (SimM.attempt SimM.peek) (fun r => ?_)
    split
    · exact SimM.pure _
    · exact SimM.fail _
    · exact SimM.ite (SimM.pure _) (SimM.bind SimM.skipByte (fun _ => SimM.ite (SimM.pure _) (ih _)))


/-! ### clear scanners: every operation consumes its input monotonically -/

/-- number of bytes a clear scanner can still deliver -/
def mu (s : Scanner) : Nat := s.peek.length + s.src.length

theorem readByte_clear_nil (s : Scanner) (hc : Clear s) (hs : s.src = []) :
    ∃ e s', readByte s = (.error e, s') ∧ Clear s' ∧ s'.peek = s.peek ∧ s'.src = [] := by
  rw [readByte_clear s hc.1]
  obtain ⟨h0, h1⟩ := hc
  obtain ⟨src, fault, peek, reg, eexec, r, line, col, crSeen, dsc, err⟩ := s
  simp only at hs h0 h1
  subst hs h0 h1
  cases err with
  | none => exact ⟨_, _, rfl, ⟨rfl, rfl⟩, rfl, rfl⟩
  | some e => exact ⟨e, _, rfl, ⟨rfl, rfl⟩, rfl, rfl⟩

theorem readByte_clear_cons (s : Scanner) (hc : Clear s) (b : UInt8) (x : List UInt8) (hs : s.src = b :: x) :
    readByte s = (.ok b, { s with src := x }) := by
  rw [readByte_clear s hc.1]
  exact readByteRaw_src s b x (Or.inl hc.2) hs

theorem bump_clear (b : UInt8) (s : Scanner) (hc : Clear s) : Clear (bump b s) := hc
theorem bump_mu (b : UInt8) (s : Scanner) : mu (bump b s) = mu s := rfl

/-- `Next` on a clear scanner: a byte is delivered and the scanner has one byte less, or nothing changes
but the sticky error -/
theorem next_clear (s : Scanner) (hc : Clear s) :
    Clear (next s).2 ∧ (∀ b, (next s).1 = .ok b → mu (next s).2 + 1 = mu s) ∧
      (∀ e, (next s).1 = .error e → mu (next s).2 = mu s) := by
  cases hp : s.peek with
  | cons b p =>
    rw [next_peeked s b p hc.2 hp]
    refine ⟨hc, fun _ _ => ?_, (fun e h => by cases h)⟩
    simp [mu, bump, hp]; omega
  | nil =>
    cases hsrc : s.src with
    | nil =>
      obtain ⟨e, s', h1, h2, h3, h4⟩ := readByte_clear_nil s hc hsrc
      have : next s = (.error e, s') := by
        rw [next_eq, getS_bind_run]
        unfold nextK
        have : (!s.peek.isEmpty && !s.regurgitate) = false := by simp [hp]
        rw [this]
        simp only [Bool.false_eq_true, if_false]
        exact bind_err _ _ _ _ _ h1
      rw [this]
      exact ⟨h2, (fun b h => by cases h), fun _ _ => by simp [mu, h3, h4, hp, hsrc]⟩
    | cons b x =>
      rw [next_read s _ b (Or.inl hp) (readByte_clear_cons s hc b x hsrc)]
      refine ⟨hc, fun _ _ => ?_, (fun e h => by cases h)⟩
      simp [mu, bump, hp, hsrc]

theorem peek_clear_nil (s : Scanner) (hc : Clear s) (hp : s.peek = []) (hs : s.src = []) :
    ∃ e s', Scan.peek s = (.error e, s') ∧ Clear s' ∧ s'.peek = [] ∧ s'.src = [] := by
  obtain ⟨e, s', h1, h2, h3, h4⟩ := readByte_clear_nil s hc hs
  refine ⟨e, s', ?_, h2, by rw [h3, hp], h4⟩
  rw [EexecStream.peek_eq, getS_bind_run, hp]
  unfold peekK
  exact bind_err _ _ _ _ _ h1

/-- `Peek` on a clear scanner: the stream is unchanged; after success a byte is in the peek buffer -/
theorem peek_clear' (s : Scanner) (hc : Clear s) :
    Clear (Scan.peek s).2 ∧ mu (Scan.peek s).2 = mu s ∧ s.peek.length ≤ (Scan.peek s).2.peek.length ∧
      (∀ b, (Scan.peek s).1 = .ok b → (Scan.peek s).2.peek ≠ []) := by
  cases hl : s.peek ++ s.src with
  | nil =>
    have hp : s.peek = [] := (List.append_eq_nil_iff.mp hl).1
    have hs : s.src = [] := (List.append_eq_nil_iff.mp hl).2
    obtain ⟨e, s', h1, h2, h3, h4⟩ := peek_clear_nil s hc hp hs
    rw [h1]
    exact ⟨h2, by simp [mu, h3, h4, hp, hs], by simp [hp], (fun b h => by cases h)⟩
  | cons b x =>
    rw [peek_clear s b x hc hl]
    refine ⟨fill1_clear s hc, ?_, ?_, fun _ _ => ?_⟩
    · have := congrArg List.length (fill1_stream s)
      simp only [List.length_append] at this
      exact this
    · unfold fill1; split
      · rename_i h; simp [h]
      · exact Nat.le_refl _
    · obtain ⟨p, hp, _⟩ := fill1_eat s b x hl
      rw [hp]; simp

/-- `PeekN` on a clear scanner: the stream is unchanged, the peek buffer only grows, and the value returned is
the head of the peek buffer -/
theorem peekN_spec (n fuel : Nat) (s : Scanner) (hc : Clear s) :
    ∃ bb s', peekN n fuel s = (.ok bb, s') ∧ Clear s' ∧ s'.peek ++ s'.src = s.peek ++ s.src ∧
      s.peek.length ≤ s'.peek.length ∧ bb = s'.peek.take n := by
  induction fuel generalizing s with
  | zero =>
    refine ⟨s.peek.take n, s, ?_, hc, rfl, Nat.le_refl _, rfl⟩
    unfold peekN
    rw [getS_bind_run]; rfl
  | succ fuel ih =>
    unfold peekN
    rw [getS_bind_run]
    by_cases hlen : s.peek.length ≥ n
    · rw [if_pos hlen]
      exact ⟨s.peek.take n, s, rfl, hc, rfl, Nat.le_refl _, rfl⟩
    · rw [if_neg hlen]
      cases hsrc : s.src with
      | nil =>
        obtain ⟨e, s', h1, h2, h3, h4⟩ := readByte_clear_nil s hc hsrc
        rw [bind_ok _ _ s s' (.error e) (by simp [Scan.attempt, h1])]
        simp only
        rw [getS_bind_run]
        refine ⟨s'.peek, s', rfl, h2, by rw [h3, h4], by rw [h3]; exact Nat.le_refl _, ?_⟩
        rw [List.take_of_length_le (by rw [h3]; omega)]
      | cons b x =>
        have h1 := readByte_clear_cons s hc b x hsrc
        rw [bind_ok _ _ s { s with src := x } (.ok b) (by simp [Scan.attempt, h1])]
        simp only
        rw [modS_bind_run]
        obtain ⟨bb, s', g1, g2, g3, g4, g5⟩ := ih { s with src := x, peek := s.peek ++ [b] } hc
        refine ⟨bb, s', g1, g2, by rw [g3]; simp, ?_, g5⟩
        have : s.peek.length ≤ (s.peek ++ [b]).length := by simp
        exact Nat.le_trans this g4

theorem lookingAt_spec (pat : List UInt8) (s : Scanner) (hc : Clear s) :
    ∃ x s', lookingAt pat s = (.ok x, s') ∧ Clear s' ∧ s'.peek ++ s'.src = s.peek ++ s.src ∧
      s.peek.length ≤ s'.peek.length ∧ (x = true → s'.peek.take pat.length = pat) := by
  obtain ⟨bb, s', h1, h2, h3, h4, h5⟩ := peekN_spec pat.length (pat.length + 1) s hc
  refine ⟨bb == pat, s', ?_, h2, h3, h4, fun hx => ?_⟩
  · unfold lookingAt
    rw [bind_ok _ _ _ _ _ h1]; rfl
  · rw [← h5]; simpa using hx

/-- looking at the same pattern again changes nothing -/
theorem lookingAt_again (pat : List UInt8) (s : Scanner) (h : s.peek.take pat.length = pat) :
    lookingAt pat s = (.ok true, s) := by
  have hl : s.peek.length ≥ pat.length := by
    have := congrArg List.length h
    simp only [List.length_take] at this
    omega
  unfold lookingAt peekN
  rw [bind_ok _ _ s s (s.peek.take pat.length) (by rw [getS_bind_run, if_pos hl]; rfl), h]
  simp [pure_run]

/-- on clear scanners `m` keeps the scanner clear and does not lengthen what is left to read -/
def Mono {α : Type} (m : SM α) : Prop := ∀ s, Clear s → Clear (m s).2 ∧ mu (m s).2 ≤ mu s

theorem Mono.pure {α : Type} (a : α) : Mono (Pure.pure a : SM α) := fun _ h => ⟨h, Nat.le_refl _⟩
theorem Mono.fail {α : Type} (e : Err) : Mono (Scan.fail e : SM α) := fun _ h => ⟨h, Nat.le_refl _⟩

theorem Mono.bind {α β : Type} {m : SM α} {k : α → SM β} (hm : Mono m) (hk : ∀ a, Mono (k a)) : Mono (m >>= k) := by
  intro s hc
  have h1 := hm s hc
  rw [bind_run]
  generalize m s = p at h1
  obtain ⟨r, s'⟩ := p
  cases r with
  | error e => exact h1
  | ok a =>
    have h2 := hk a s' h1.1
    exact ⟨h2.1, Nat.le_trans h2.2 h1.2⟩

theorem Mono.attempt {α : Type} {m : SM α} (hm : Mono m) : Mono (Scan.attempt m) := fun s hc => hm s hc

theorem Mono.ite {α : Type} {c : Prop} [Decidable c] {a b : SM α} (ha : Mono a) (hb : Mono b) :
    Mono (if c then a else b) := by
  split <;> assumption

theorem Mono.getS_bind {β : Type} {k : Scanner → SM β} (hk : ∀ s0, Mono (k s0)) : Mono (getS >>= k) := by
  intro s hc
  rw [getS_bind_run]
  exact hk s s hc

theorem Mono.modS {f : Scanner → Scanner} (hf : ∀ s, Clear s → Clear (f s) ∧ mu (f s) ≤ mu s) : Mono (Scan.modS f) :=
  fun s hc => hf s hc

theorem Mono.next : Mono next := fun s hc => by
  obtain ⟨h1, h2, h3⟩ := next_clear s hc
  refine ⟨h1, ?_⟩
  generalize Scan.next s = p at h2 h3
  obtain ⟨r, s'⟩ := p
  cases r with
  | ok b => have := h2 b rfl; omega
  | error e => have := h3 e rfl; omega

theorem Mono.peek : Mono Scan.peek := fun s hc => by
  obtain ⟨h1, h2, _, _⟩ := peek_clear' s hc
  exact ⟨h1, Nat.le_of_eq h2⟩

theorem mu_of_stream {s s' : Scanner} (h : s'.peek ++ s'.src = s.peek ++ s.src) : mu s' = mu s := by
  have := congrArg List.length h
  simpa [mu] using this

theorem Mono.peekN (n fuel : Nat) : Mono (peekN n fuel) := fun s hc => by
  obtain ⟨bb, s', h1, h2, h3, _, _⟩ := peekN_spec n fuel s hc
  rw [h1]
  exact ⟨h2, Nat.le_of_eq (mu_of_stream h3)⟩

theorem Mono.lookingAt (pat : List UInt8) : Mono (lookingAt pat) :=
  Mono.bind (Mono.peekN _ _) (fun _ => Mono.pure _)

theorem Mono.skipByte : Mono skipByte := Mono.bind (Mono.attempt Mono.next) (fun _ => Mono.pure _)

theorem Mono.skipN (n : Nat) : Mono (skipN n) := by
  induction n with
  | zero => exact Mono.pure _
  | succ n ih => exact Mono.bind Mono.skipByte (fun _ => ih)

theorem Mono.skipRequiredByte (b : UInt8) : Mono (skipRequiredByte b) :=
  Mono.bind Mono.next (fun _ => Mono.ite (Mono.fail _) (Mono.pure _))

theorem Mono.skipOptionalByte (b : UInt8) : Mono (skipOptionalByte b) := by
  refine Mono.bind (Mono.attempt Mono.peek) (fun r => ?_)
  cases r with
  | error e => exact Mono.pure _
  | ok nb => exact Mono.ite Mono.skipByte (Mono.pure _)

theorem Mono.readOctal (n : Nat) : ∀ oct, Mono (readOctal n oct) := by
  induction n with
  | zero => intro oct; exact Mono.pure _
  | succ n ih =>
    intro oct
    unfold Scan.readOctal
    refine Mono.bind (Mono.attempt Mono.peek) (fun r => ?_)
    split
    · exact Mono.pure _
    · exact Mono.fail _
    · exact Mono.ite (Mono.pure _) (Mono.bind Mono.skipByte (fun _ => ih _))

theorem Mono.skipToEOL (fuel : Nat) : Mono (skipToEOL fuel) := by
  induction fuel with
  | zero => exact Mono.pure _
  | succ fuel ih =>
    unfold Scan.skipToEOL
    refine Mono.bind (Mono.attempt Mono.next) (fun r => ?_)
    split
    · exact Mono.pure _
    · exact Mono.ite (Mono.pure _) (Mono.ite (Mono.skipOptionalByte _) ih)

theorem Mono.readLine (fuel : Nat) : ∀ acc, Mono (readLine fuel acc) := by
  induction fuel with
  | zero => intro acc; exact Mono.pure _
  | succ fuel ih =>
    intro acc
    unfold Scan.readLine
    refine Mono.bind (Mono.attempt Mono.next) (fun r => ?_)
    split
    · exact Mono.pure _
    · exact Mono.fail _
    · exact Mono.ite (Mono.pure _) (Mono.ite (Mono.bind (Mono.skipOptionalByte _) (fun _ => Mono.pure _)) (ih _))

theorem Mono.skipBlanks (fuel : Nat) : Mono (skipBlanks fuel) := by
  induction fuel with
  | zero => exact Mono.pure _
  | succ fuel ih =>
    unfold Scan.skipBlanks
    refine Mono.bind (Mono.attempt Mono.peek) (fun r => ?_)
    split
    · exact Mono.pure _
    · exact Mono.fail _
    · exact Mono.ite (Mono.pure _) (Mono.bind Mono.skipByte (fun _ => ih))

theorem Mono.readCommentKey (fuel : Nat) : ∀ acc, Mono (readCommentKey fuel acc) := by
  induction fuel with
  | zero => intro acc; exact Mono.pure _
  | succ fuel ih =>
    intro acc
    unfold Scan.readCommentKey
    refine Mono.bind (Mono.attempt Mono.peek) (fun r => ?_)
    split
    · exact Mono.pure _
    · exact Mono.fail _
    · exact Mono.ite (Mono.pure _) (Mono.bind Mono.skipByte (fun _ => Mono.ite (Mono.pure _) (ih _)))

theorem Mono.readCommentValue (fuel : Nat) : ∀ acc, Mono (readCommentValue fuel acc) := by
  induction fuel with
  | zero => intro acc; exact Mono.pure _
  | succ fuel ih =>
    intro acc
    unfold Scan.readCommentValue
    refine Mono.getS_bind (fun _ => Mono.bind (Mono.skipBlanks _) (fun _ => Mono.getS_bind (fun _ =>
      Mono.bind (Mono.readLine _ _) (fun _ => Mono.bind (Mono.lookingAt _) (fun _ =>
        Mono.ite (Mono.bind (Mono.skipN _) (fun _ => ih _)) (Mono.pure _))))))

theorem Mono.skipComment : Mono skipComment := by
  unfold Scan.skipComment
  refine Mono.bind (Mono.attempt (Mono.skipRequiredByte _)) (fun r => ?_)
  split
  · exact Mono.getS_bind (fun _ => Mono.skipToEOL _)
  · exact Mono.pure _

theorem Mono.readStructuredComment : Mono readStructuredComment := by
  unfold Scan.readStructuredComment
  refine Mono.bind (Mono.lookingAt _) (fun x => Mono.ite (Mono.pure _) (Mono.bind (Mono.skipN _) (fun _ =>
    Mono.getS_bind (fun _ => Mono.bind (Mono.attempt (Mono.readCommentKey _ _)) (fun r => ?_)))))
  split
  · exact Mono.getS_bind (fun _ => Mono.bind (Mono.skipToEOL _) (fun _ => Mono.pure _))
  · refine Mono.ite (Mono.getS_bind (fun _ => Mono.bind (Mono.skipToEOL _) (fun _ => Mono.pure _))) ?_
    refine Mono.getS_bind (fun _ => Mono.bind (Mono.attempt (Mono.readCommentValue _ _)) (fun r => ?_))
    split <;> exact Mono.pure _

/-! ### fuel independence on clear scanners -/

def CL (n : Nat) (s : Scanner) : Prop := Clear s ∧ mu s ≤ n
def CLT (n : Nat) (s : Scanner) : Prop := Clear s ∧ mu s < n
def CP (n : Nat) (s : Scanner) : Prop := Clear s ∧ mu s ≤ n ∧ s.peek ≠ []

/-- the two computations agree on every scanner state in `P` -/
def AgreeOn {α : Type} (P : Scanner → Prop) (m m' : SM α) : Prop := ∀ s, P s → m s = m' s

theorem AgreeOn.rfl {α : Type} {P : Scanner → Prop} (m : SM α) : AgreeOn P m m := fun _ _ => Eq.refl _

theorem AgreeOn.mono {α : Type} {P Q : Scanner → Prop} {m m' : SM α} (h : AgreeOn Q m m') (hpq : ∀ s, P s → Q s) :
    AgreeOn P m m' := fun s hs => h s (hpq s hs)

theorem AgreeOn.bind {α β : Type} {P : Scanner → Prop} (Q : α → Scanner → Prop) {p : SM α} {k k' : α → SM β}
    (hp : ∀ s, P s → ∀ a s', p s = (.ok a, s') → Q a s') (hk : ∀ a, AgreeOn (Q a) (k a) (k' a)) :
    AgreeOn P (p >>= k) (p >>= k') := by
  intro s hs
  rw [bind_run, bind_run]
  have := hp s hs
  generalize p s = q at this
  obtain ⟨r, s'⟩ := q
  cases r with
  | error e => rfl
  | ok a => exact hk a s' (this a s' (Eq.refl _))

theorem AgreeOn.bind_left {α β : Type} {P : Scanner → Prop} {p p' : SM α} {k : α → SM β} (h : AgreeOn P p p') :
    AgreeOn P (p >>= k) (p' >>= k) := by
  intro s hs
  rw [bind_run, bind_run, h s hs]

theorem AgreeOn.attempt {α : Type} {P : Scanner → Prop} {p p' : SM α} (h : AgreeOn P p p') :
    AgreeOn P (Scan.attempt p) (Scan.attempt p') := by
  intro s hs
  simp [Scan.attempt, h s hs]

theorem AgreeOn.ite {α : Type} {P : Scanner → Prop} {c : Prop} [Decidable c] {a a' b b' : SM α}
    (ha : AgreeOn P a a') (hb : AgreeOn P b b') : AgreeOn P (if c then a else b) (if c then a' else b') := by
  split <;> assumption

theorem AgreeOn.getS_bind {β : Type} {P : Scanner → Prop} {k k' : Scanner → SM β} (h : ∀ s0, AgreeOn P (k s0) (k' s0)) :
    AgreeOn P (getS >>= k) (getS >>= k') := by
  intro s hs
  rw [getS_bind_run, getS_bind_run]
  exact h s s hs

theorem AgreeOn.of_ih {α : Type} {n : Nat} {m m' : SM α} (ih : ∀ k, k < n → AgreeOn (CL k) m m') :
    AgreeOn (CLT n) m m' := fun s hs => ih (mu s) hs.2 s ⟨hs.1, Nat.le_refl _⟩

theorem CP.toCL {n : Nat} {s : Scanner} (h : CP n s) : CL n s := ⟨h.1, h.2.1⟩
theorem CLT.toCL {n : Nat} {s : Scanner} (h : CLT n s) : CL n s := ⟨h.1, Nat.le_of_lt h.2⟩

theorem AgreeOn.peek_bind {β : Type} {n : Nat} {K K' : UInt8 → SM β} (h : ∀ b, AgreeOn (CP n) (K b) (K' b)) :
    AgreeOn (CL n) (Scan.peek >>= K) (Scan.peek >>= K') := by
  refine AgreeOn.bind (fun _ => CP n) (fun s hs a s' he => ?_) h
  obtain ⟨h1, h2, _, h4⟩ := peek_clear' s hs.1
  rw [he] at h1 h2 h4
  exact ⟨h1, by rw [h2]; exact hs.2, h4 a (Eq.refl _)⟩

theorem AgreeOn.attempt_peek_bind {β : Type} {n : Nat} {K K' : Except Err UInt8 → SM β}
    (hok : ∀ b, AgreeOn (CP n) (K (.ok b)) (K' (.ok b))) (herr : ∀ e, AgreeOn (CL n) (K (.error e)) (K' (.error e))) :
    AgreeOn (CL n) (Scan.attempt Scan.peek >>= K) (Scan.attempt Scan.peek >>= K') := by
  refine AgreeOn.bind (fun r s => (∀ b, r = .ok b → CP n s) ∧ (∀ e, r = .error e → CL n s))
    (fun s hs a s' he => ?_) (fun r => ?_)
  · obtain ⟨h1, h2, _, h4⟩ := peek_clear' s hs.1
    have e2 : Scan.peek s = (a, s') := by
      simp only [Scan.attempt] at he
      generalize Scan.peek s = q at he
      obtain ⟨r, t⟩ := q
      cases he
      rfl
    rw [e2] at h1 h2 h4
    exact ⟨fun b hb => ⟨h1, by rw [h2]; exact hs.2, h4 b hb⟩, fun e _ => ⟨h1, by rw [h2]; exact hs.2⟩⟩
  · cases r with
    | ok b => exact (hok b).mono (fun s hs => hs.1 b (Eq.refl _))
    | error e => exact (herr e).mono (fun s hs => hs.2 e (Eq.refl _))

theorem skipByte_CP {n : Nat} {s : Scanner} (hs : CP n s) : ∃ s', skipByte s = (.ok (), s') ∧ CLT n s' := by
  obtain ⟨hc, hm, hp⟩ := hs
  cases hpk : s.peek with
  | nil => exact absurd hpk hp
  | cons b p =>
    refine ⟨_, skipByte_ok _ _ _ (next_peeked s b p hc.2 hpk), hc, ?_⟩
    have : mu (bump b { s with peek := p }) + 1 = mu s := by simp [mu, bump, hpk]; omega
    omega

theorem AgreeOn.skipByte_bind {β : Type} {n : Nat} {K K' : Unit → SM β} (h : AgreeOn (CLT n) (K ()) (K' ())) :
    AgreeOn (CP n) (skipByte >>= K) (skipByte >>= K') := by
  refine AgreeOn.bind (fun _ => CLT n) (fun s hs a s' he => ?_) (fun _ => h)
  obtain ⟨s'', h1, h2⟩ := skipByte_CP hs
  rw [h1] at he
  cases he
  exact h2

theorem next_CL {n : Nat} {s : Scanner} (hs : CL n s) :
    (∀ b s', next s = (.ok b, s') → CLT n s') ∧ (∀ e s', next s = (.error e, s') → CL n s') := by
  obtain ⟨h1, h2, h3⟩ := next_clear s hs.1
  constructor
  · intro b s' he
    rw [he] at h1 h2
    exact ⟨h1, by have := h2 b (Eq.refl _); dsimp only at this; have := hs.2; omega⟩
  · intro e s' he
    rw [he] at h1 h3
    exact ⟨h1, by have := h3 e (Eq.refl _); dsimp only at this; have := hs.2; omega⟩

theorem AgreeOn.next_bind {β : Type} {n : Nat} {K K' : UInt8 → SM β} (h : ∀ b, AgreeOn (CLT n) (K b) (K' b)) :
    AgreeOn (CL n) (next >>= K) (next >>= K') :=
  AgreeOn.bind (fun _ => CLT n) (fun _ hs a s' he => (next_CL hs).1 a s' he) h

theorem AgreeOn.attempt_next_bind {β : Type} {n : Nat} {K K' : Except Err UInt8 → SM β}
    (hok : ∀ b, AgreeOn (CLT n) (K (.ok b)) (K' (.ok b))) (herr : ∀ e, AgreeOn (CL n) (K (.error e)) (K' (.error e))) :
    AgreeOn (CL n) (Scan.attempt next >>= K) (Scan.attempt next >>= K') := by
  refine AgreeOn.bind (fun r s => (∀ b, r = .ok b → CLT n s) ∧ (∀ e, r = .error e → CL n s))
    (fun s hs a s' he => ?_) (fun r => ?_)
  · have e2 : next s = (a, s') := by
      simp only [Scan.attempt] at he
      generalize next s = q at he
      obtain ⟨r, t⟩ := q
      cases he
      rfl
    exact ⟨fun b hb => (next_CL hs).1 b s' (by rw [e2, hb]), fun e hb => (next_CL hs).2 e s' (by rw [e2, hb])⟩
  · cases r with
    | ok b => exact (hok b).mono (fun s hs => hs.1 b (Eq.refl _))
    | error e => exact (herr e).mono (fun s hs => hs.2 e (Eq.refl _))

/-- a monotone prefix keeps the class `CLT n` -/
theorem AgreeOn.mono_bind {α β : Type} {n : Nat} {p : SM α} {K K' : α → SM β} (hm : Mono p)
    (h : ∀ a, AgreeOn (CLT n) (K a) (K' a)) : AgreeOn (CLT n) (p >>= K) (p >>= K') := by
  refine AgreeOn.bind (fun _ => CLT n) (fun s hs a s' he => ?_) h
  have := hm s hs.1
  rw [he] at this
  exact ⟨this.1, Nat.lt_of_le_of_lt this.2 hs.2⟩

theorem AgreeOn.mono_bind_CL {α β : Type} {n : Nat} {p : SM α} {K K' : α → SM β} (hm : Mono p)
    (h : ∀ a, AgreeOn (CL n) (K a) (K' a)) : AgreeOn (CL n) (p >>= K) (p >>= K') := by
  refine AgreeOn.bind (fun _ => CL n) (fun s hs a s' he => ?_) h
  have := hm s hs.1
  rw [he] at this
  exact ⟨this.1, Nat.le_trans this.2 hs.2⟩

/-- the result of the loop `L` does not depend on its fuel once the fuel exceeds what is left to read -/
def FI {α : Type} (L : Nat → SM α) : Prop := ∀ n f f', n < f → n < f' → AgreeOn (CL n) (L f) (L f')

theorem FI.readRegular : ∀ n f f', n < f → n < f' → ∀ acc, AgreeOn (CL n) (readRegular f acc) (readRegular f' acc) := by
  intro n
  induction n using Nat.strongRecOn with
  | _ n ih =>
    intro f f' hf hf' acc
    obtain ⟨g, rfl⟩ : ∃ g, f = g + 1 := ⟨f - 1, by omega⟩
    obtain ⟨g', rfl⟩ : ∃ g, f' = g + 1 := ⟨f' - 1, by omega⟩
    unfold Scan.readRegular
    refine AgreeOn.attempt_peek_bind (fun b => ?_) (fun e => ?_)
    · dsimp only
      exact AgreeOn.ite (AgreeOn.rfl _) (AgreeOn.skipByte_bind (AgreeOn.of_ih
        (fun k hk => ih k hk g g' (by omega) (by omega) _)))
    · cases e <;> exact AgreeOn.rfl _

theorem FI.readCommentKey : ∀ n f f', n < f → n < f' → ∀ acc, AgreeOn (CL n) (readCommentKey f acc) (readCommentKey f' acc) := by
  intro n
  induction n using Nat.strongRecOn with
  | _ n ih =>
    intro f f' hf hf' acc
    obtain ⟨g, rfl⟩ : ∃ g, f = g + 1 := ⟨f - 1, by omega⟩
    obtain ⟨g', rfl⟩ : ∃ g, f' = g + 1 := ⟨f' - 1, by omega⟩
    unfold Scan.readCommentKey
    refine AgreeOn.attempt_peek_bind (fun b => ?_) (fun e => ?_)
    · dsimp only
      exact AgreeOn.ite (AgreeOn.rfl _) (AgreeOn.skipByte_bind (AgreeOn.ite (AgreeOn.rfl _) (AgreeOn.of_ih
        (fun k hk => ih k hk g g' (by omega) (by omega) _))))
    · cases e <;> exact AgreeOn.rfl _

theorem FI.skipBlanks : ∀ n f f', n < f → n < f' → AgreeOn (CL n) (skipBlanks f) (skipBlanks f') := by
  intro n
  induction n using Nat.strongRecOn with
  | _ n ih =>
    intro f f' hf hf'
    obtain ⟨g, rfl⟩ : ∃ g, f = g + 1 := ⟨f - 1, by omega⟩
    obtain ⟨g', rfl⟩ : ∃ g, f' = g + 1 := ⟨f' - 1, by omega⟩
    unfold Scan.skipBlanks
    refine AgreeOn.attempt_peek_bind (fun b => ?_) (fun e => ?_)
    · dsimp only
      exact AgreeOn.ite (AgreeOn.rfl _) (AgreeOn.skipByte_bind (AgreeOn.of_ih
        (fun k hk => ih k hk g g' (by omega) (by omega))))
    · cases e <;> exact AgreeOn.rfl _

theorem FI.skipToEOL : ∀ n f f', n < f → n < f' → AgreeOn (CL n) (skipToEOL f) (skipToEOL f') := by
  intro n
  induction n using Nat.strongRecOn with
  | _ n ih =>
    intro f f' hf hf'
    obtain ⟨g, rfl⟩ : ∃ g, f = g + 1 := ⟨f - 1, by omega⟩
    obtain ⟨g', rfl⟩ : ∃ g, f' = g + 1 := ⟨f' - 1, by omega⟩
    unfold Scan.skipToEOL
    refine AgreeOn.attempt_next_bind (fun b => ?_) (fun e => ?_)
    · dsimp only
      exact AgreeOn.ite (AgreeOn.rfl _) (AgreeOn.ite (AgreeOn.rfl _) (AgreeOn.of_ih
        (fun k hk => ih k hk g g' (by omega) (by omega))))
    · exact AgreeOn.rfl _

theorem FI.readLine : ∀ n f f', n < f → n < f' → ∀ acc, AgreeOn (CL n) (readLine f acc) (readLine f' acc) := by
  intro n
  induction n using Nat.strongRecOn with
  | _ n ih =>
    intro f f' hf hf' acc
    obtain ⟨g, rfl⟩ : ∃ g, f = g + 1 := ⟨f - 1, by omega⟩
    obtain ⟨g', rfl⟩ : ∃ g, f' = g + 1 := ⟨f' - 1, by omega⟩
    unfold Scan.readLine
    refine AgreeOn.attempt_next_bind (fun b => ?_) (fun e => ?_)
    · dsimp only
      exact AgreeOn.ite (AgreeOn.rfl _) (AgreeOn.ite (AgreeOn.rfl _) (AgreeOn.of_ih
        (fun k hk => ih k hk g g' (by omega) (by omega) _)))
    · cases e <;> exact AgreeOn.rfl _

theorem FI.readHexBody : ∀ n f f', n < f → n < f' → ∀ res first hi,
    AgreeOn (CL n) (readHexBody f res first hi) (readHexBody f' res first hi) := by
  intro n
  induction n using Nat.strongRecOn with
  | _ n ih =>
    intro f f' hf hf' res first hi
    obtain ⟨g, rfl⟩ : ∃ g, f = g + 1 := ⟨f - 1, by omega⟩
    obtain ⟨g', rfl⟩ : ∃ g, f' = g + 1 := ⟨f' - 1, by omega⟩
    unfold Scan.readHexBody
    refine AgreeOn.next_bind (fun b => ?_)
    have hi' : ∀ res first hi, AgreeOn (CLT n) (Scan.readHexBody g res first hi) (Scan.readHexBody g' res first hi) :=
      fun _ _ _ => AgreeOn.of_ih (fun k hk => ih k hk g g' (by omega) (by omega) _ _ _)
    refine AgreeOn.ite (AgreeOn.rfl _) (AgreeOn.ite (hi' _ _ _) ?_)
    split
    · exact AgreeOn.rfl _
    · exact AgreeOn.ite (hi' _ _ _) (hi' _ _ _)

theorem FI.readA85Body : ∀ n f f', n < f → n < f' → ∀ res pos val,
    AgreeOn (CL n) (readA85Body f res pos val) (readA85Body f' res pos val) := by
  intro n
  induction n using Nat.strongRecOn with
  | _ n ih =>
    intro f f' hf hf' res pos val
    obtain ⟨g, rfl⟩ : ∃ g, f = g + 1 := ⟨f - 1, by omega⟩
    obtain ⟨g', rfl⟩ : ∃ g, f' = g + 1 := ⟨f' - 1, by omega⟩
    unfold Scan.readA85Body
    refine AgreeOn.next_bind (fun b => ?_)
    have hi' : ∀ res pos val, AgreeOn (CLT n) (Scan.readA85Body g res pos val) (Scan.readA85Body g' res pos val) :=
      fun _ _ _ => AgreeOn.of_ih (fun k hk => ih k hk g g' (by omega) (by omega) _ _ _)
    repeat' (first
      | exact hi' _ _ _
      | exact AgreeOn.rfl _
      | refine AgreeOn.ite ?_ ?_)

theorem FI.readStringBody : ∀ n f f', n < f → n < f' → ∀ res level ign,
    AgreeOn (CL n) (readStringBody f res level ign) (readStringBody f' res level ign) := by
  intro n
  induction n using Nat.strongRecOn with
  | _ n ih =>
    intro f f' hf hf' res level ign
    obtain ⟨g, rfl⟩ : ∃ g, f = g + 1 := ⟨f - 1, by omega⟩
    obtain ⟨g', rfl⟩ : ∃ g, f' = g + 1 := ⟨f' - 1, by omega⟩
    unfold Scan.readStringBody
    refine AgreeOn.next_bind (fun b => ?_)
    have hi' : ∀ res level ign, AgreeOn (CLT n) (Scan.readStringBody g res level ign) (Scan.readStringBody g' res level ign) :=
      fun _ _ _ => AgreeOn.of_ih (fun k hk => ih k hk g g' (by omega) (by omega) _ _ _)
    repeat' (first
      | exact hi' _ _ _
      | exact AgreeOn.rfl _
      | refine AgreeOn.ite ?_ ?_
      | refine AgreeOn.mono_bind Mono.next (fun e => ?_)
      | refine AgreeOn.mono_bind (Mono.readOctal _ _) (fun oct => ?_))

theorem skipByte_total (s : Scanner) : ∃ s', skipByte s = (.ok (), s') := by
  unfold skipByte
  rw [bind_run]
  simp only [Scan.attempt]
  exact ⟨_, Eq.refl _⟩

theorem skipN_total (k : Nat) : ∀ s, ∃ s', skipN k s = (.ok (), s') := by
  induction k with
  | zero => intro s; exact ⟨s, Eq.refl _⟩
  | succ k ih =>
    intro s
    obtain ⟨s1, h1⟩ := skipByte_total s
    obtain ⟨s2, h2⟩ := ih s1
    refine ⟨s2, ?_⟩
    unfold Scan.skipN
    rw [bind_ok _ _ _ _ _ h1, h2]

theorem skipN_CP {n : Nat} (k : Nat) {s : Scanner} (hs : CP n s) : ∃ s', skipN (k + 1) s = (.ok (), s') ∧ CLT n s' := by
  obtain ⟨s1, h1, hc1⟩ := skipByte_CP hs
  obtain ⟨s2, h2⟩ := skipN_total k s1
  refine ⟨s2, ?_, ?_⟩
  · unfold Scan.skipN
    rw [bind_ok _ _ _ _ _ h1, h2]
  · have := Mono.skipN k s1 hc1.1
    rw [h2] at this
    exact ⟨this.1, Nat.lt_of_le_of_lt this.2 hc1.2⟩

/-- a prefix that strictly consumes, followed by a monotone rest, strictly consumes -/
theorem strict_bind {α β : Type} {n : Nat} {p : SM α} {k : α → SM β} {s : Scanner}
    (hp : ∃ a1 s1, p s = (.ok a1, s1) ∧ CLT n s1) (hk : ∀ a, Mono (k a)) : CLT n ((p >>= k) s).2 := by
  obtain ⟨a1, s1, h1, hc1⟩ := hp
  rw [bind_ok _ _ _ _ _ h1]
  have := hk a1 s1 hc1.1
  exact ⟨this.1, Nat.lt_of_le_of_lt this.2 hc1.2⟩

theorem skipComment_CP {n : Nat} {s : Scanner} (hs : CP n s) : CLT n (skipComment s).2 := by
  obtain ⟨hc, hm, hp⟩ := hs
  cases hpk : s.peek with
  | nil => exact absurd hpk hp
  | cons b p =>
    have hn := next_peeked s b p hc.2 hpk
    have hclt : CLT n (bump b { s with peek := p }) := by
      refine ⟨hc, ?_⟩
      have : mu (bump b { s with peek := p }) + 1 = mu s := by simp [mu, bump, hpk]; omega
      omega
    unfold Scan.skipComment
    refine strict_bind ?_ (fun r => ?_)
    · by_cases hb : (b != 37) = true
      · refine ⟨.error syntaxErr, _, ?_, hclt⟩
        simp only [Scan.attempt, Scan.skipRequiredByte]
        rw [bind_ok _ _ _ _ _ hn, if_pos hb]; rfl
      · refine ⟨.ok (), _, ?_, hclt⟩
        simp only [Scan.attempt, Scan.skipRequiredByte]
        rw [bind_ok _ _ _ _ _ hn, if_neg hb]; rfl
    · split
      · exact Mono.getS_bind (fun _ => Mono.skipToEOL _)
      · exact Mono.pure _

/-- the scanner stands before `%%` (already peeked) -/
def C2 (n : Nat) (s : Scanner) : Prop := CL n s ∧ s.peek.take 2 = [37, 37]

theorem readStructuredComment_C2 {n : Nat} {s : Scanner} (hs : C2 n s) : CLT n (readStructuredComment s).2 := by
  obtain ⟨⟨hc, hm⟩, h2⟩ := hs
  have hp : s.peek ≠ [] := by intro h; rw [h] at h2; simp at h2
  unfold Scan.readStructuredComment
  rw [bind_ok _ _ _ _ _ (lookingAt_again [37, 37] s h2)]
  simp only [Bool.not_true, Bool.false_eq_true, if_false]
  refine strict_bind ?_ (fun _ => ?_)
  · obtain ⟨s', h1, h2⟩ := skipN_CP 1 (s := s) ⟨hc, hm, hp⟩
    exact ⟨(), s', h1, h2⟩
  · refine Mono.getS_bind (fun _ => Mono.bind (Mono.attempt (Mono.readCommentKey _ _)) (fun r => ?_))
    split
    · exact Mono.getS_bind (fun _ => Mono.bind (Mono.skipToEOL _) (fun _ => Mono.pure _))
    · refine Mono.ite (Mono.getS_bind (fun _ => Mono.bind (Mono.skipToEOL _) (fun _ => Mono.pure _))) ?_
      refine Mono.getS_bind (fun _ => Mono.bind (Mono.attempt (Mono.readCommentValue _ _)) (fun r => ?_))
      split <;> exact Mono.pure _

theorem FI.readCommentValue : ∀ n f f', n < f → n < f' → ∀ acc,
    AgreeOn (CL n) (readCommentValue f acc) (readCommentValue f' acc) := by
  intro n
  induction n using Nat.strongRecOn with
  | _ n ih =>
    intro f f' hf hf' acc
    obtain ⟨g, rfl⟩ : ∃ g, f = g + 1 := ⟨f - 1, by omega⟩
    obtain ⟨g', rfl⟩ : ∃ g, f' = g + 1 := ⟨f' - 1, by omega⟩
    unfold Scan.readCommentValue
    refine AgreeOn.getS_bind (fun _ => AgreeOn.mono_bind_CL (Mono.skipBlanks _) (fun _ =>
      AgreeOn.getS_bind (fun _ => AgreeOn.mono_bind_CL (Mono.readLine _ _) (fun acc' => ?_))))
    refine AgreeOn.bind (fun x s => CL n s ∧ (x = true → s.peek ≠ [])) (fun s hs x s' he => ?_) (fun x => ?_)
    · obtain ⟨x', s'', h1, h2, h3, _, h5⟩ := lookingAt_spec [37, 37, 43] s hs.1
      rw [h1] at he
      cases he
      refine ⟨⟨h2, by rw [mu_of_stream h3]; exact hs.2⟩, fun hx h => ?_⟩
      have := h5 hx
      rw [h] at this
      simp at this
    · cases x with
      | false => exact AgreeOn.rfl _
      | true =>
        simp only [if_true]
        refine AgreeOn.bind (fun _ => CLT n) (fun s hs a s' he => ?_) (fun _ => AgreeOn.of_ih
          (fun k hk => ih k hk g g' (by omega) (by omega) _))
        obtain ⟨s'', h1, h2⟩ := skipN_CP 2 (s := s) ⟨hs.1.1, hs.1.2, hs.2 (by first | rfl | trivial)⟩
        rw [h1] at he
        cases he
        exact h2

theorem FI.skipWhiteSpace : ∀ n f f', n < f → n < f' → AgreeOn (CL n) (skipWhiteSpace f) (skipWhiteSpace f') := by
  intro n
  induction n using Nat.strongRecOn with
  | _ n ih =>
    intro f f' hf hf'
    obtain ⟨g, rfl⟩ : ∃ g, f = g + 1 := ⟨f - 1, by omega⟩
    obtain ⟨g', rfl⟩ : ∃ g, f' = g + 1 := ⟨f' - 1, by omega⟩
    have hi' : AgreeOn (CLT n) (Scan.skipWhiteSpace g) (Scan.skipWhiteSpace g') :=
      AgreeOn.of_ih (fun k hk => ih k hk g g' (by omega) (by omega))
    have hcom : AgreeOn (CP n) (skipComment >>= fun _ => Scan.skipWhiteSpace g) (skipComment >>= fun _ => Scan.skipWhiteSpace g') := by
      refine AgreeOn.bind (fun _ => CLT n) (fun s hs a s' he => ?_) (fun _ => hi')
      have := skipComment_CP hs
      rw [he] at this
      exact this
    unfold Scan.skipWhiteSpace
    refine AgreeOn.peek_bind (fun b => AgreeOn.ite (AgreeOn.skipByte_bind hi') (AgreeOn.ite ?_ (AgreeOn.rfl _)))
    refine AgreeOn.getS_bind (fun s0 => ?_)
    refine AgreeOn.bind (fun x s => CP n s ∧ (x = true → C2 n s)) (fun s hs x s' he => ?_) (fun x => ?_)
    · obtain ⟨x', s'', h1, h2, h3, h4, h5⟩ := lookingAt_spec [37, 37] s hs.1
      rw [h1] at he
      cases he
      have hcl : CL n s' := ⟨h2, by rw [mu_of_stream h3]; exact hs.2.1⟩
      refine ⟨⟨hcl.1, hcl.2, fun h => hs.2.2 ?_⟩, fun hx => ⟨hcl, h5 hx⟩⟩
      rw [h] at h4
      exact List.eq_nil_of_length_eq_zero (Nat.le_zero.mp h4)
    · cases x with
      | false =>
        simp only [Bool.and_false, Bool.false_eq_true, if_false]
        exact hcom.mono (fun s hs => hs.1)
      | true =>
        refine AgreeOn.ite ?_ (hcom.mono (fun s hs => hs.1))
        refine AgreeOn.bind (fun _ => CLT n) (fun s hs a s' he => ?_) (fun r => ?_)
        · have := readStructuredComment_C2 (hs.2 (by first | rfl | trivial))
          rw [he] at this
          exact this
        · dsimp only
          split
          · exact AgreeOn.mono_bind (Mono.modS (fun s hc => ⟨hc, Nat.le_refl _⟩)) (fun _ => hi')
          · exact hi'

/-! ### the simulation through fuel taken from `fuelOf` -/

theorem HexTail.length_le {cs t : List UInt8} (h : HexTail cs t) : cs.length ≤ t.length := by
  induction h with
  | nil => exact Nat.le_refl _
  | cons hsp _ ih =>
    obtain ⟨w1, a, w2, l, rfl, _⟩ := hsp
    simp only [List.length_cons, List.length_append, List.length_nil]
    omega

theorem Layout.length_le {mode : Nat} {cs t : List UInt8} (h : Layout mode cs t) : cs.length ≤ t.length := by
  rcases h with ⟨_, rfl⟩ | ⟨_, h⟩
  · exact Nat.le_refl _
  · exact h.length_le

/-- the fuel computed on the eexec side is at least the fuel computed on the plain side -/
theorem SimL.mu_lt_fuel {dl mode : Nat} {cipher rest : List UInt8} {se sp : Scanner} (h : SimL dl mode cipher rest se sp) :
    mu sp < fuelOf se ∧ mu sp < fuelOf sp := by
  obtain ⟨done, cs, t, _, hl, hse, _, hsp⟩ := h.stream
  have h1 := hl.length_le
  have h2 : sp.src.length = cs.length := by rw [hsp, PsVerif.Props.Cipher.decrypt_length]
  have h3 : se.src.length = t.length + rest.length := by rw [hse, List.length_append]
  have h4 : se.peek.length = sp.peek.length := by rw [h.peek_eq]
  simp only [mu, fuelOf]
  omega

/-- **fuel from `fuelOf`**: a loop that is simulation-invariant at every fixed fuel and fuel-independent on clear
scanners is simulation-invariant when its fuel is computed from the length of the raw source -/
theorem SimM.fuel_bind {β : Type} (L : Nat → SM β) (c : Nat) (hs : ∀ f, SimM (L f)) (hfi : FI L) :
    SimM (getS >>= fun s => L (fuelOf s + c)) := by
  constructor
  · intro dl mode cipher rest se sp h
    rw [getS_bind_run, getS_bind_run]
    have hmu := h.mu_lt_fuel
    have e : L (fuelOf sp + c) sp = L (fuelOf se + c) sp :=
      hfi (mu sp) _ _ (by omega) (by omega) sp ⟨⟨h.eexec_p, h.reg_p⟩, Nat.le_refl _⟩
    rw [e]
    exact (hs _).1 dl mode cipher rest se sp h
  · intro sp h
    rw [getS_bind_run]
    exact (hs _).2 sp h

theorem SimM.fuel_bind2 {α β : Type} (L : Nat → SM α) (c : Nat) (K : α → SM β) (hs : ∀ f, SimM (L f)) (hfi : FI L)
    (hK : ∀ a, SimM (K a)) : SimM (getS >>= fun s => L (fuelOf s + c) >>= K) :=
  SimM.fuel_bind (fun f => L f >>= K) c (fun f => SimM.bind (hs f) hK) (fun n f f' hf hf' => AgreeOn.bind_left (hfi n f f' hf hf'))

/-- reading the scanner state: also the sticky error may be looked at -/
theorem SimM.getS_bind' {β : Type} (k : List UInt8 → Nat → Option Err → SM β) (hk : ∀ p c e, SimM (k p c e)) :
    SimM (getS >>= fun s => k s.peek s.col s.err) := by
  constructor
  · intro dl mode cipher rest se sp h
    rw [getS_bind_run, getS_bind_run, h.peek_eq, h.col_eq, h.err_eq]
    exact (hk _ _ _).1 dl mode cipher rest se sp h
  · intro sp h
    rw [getS_bind_run]
    exact (hk _ _ _).2 sp h

theorem SimM.skipComment : SimM skipComment := by
  unfold Scan.skipComment
  refine SimM.bind (SimM.attempt (SimM.skipRequiredByte _)) (fun r => ?_)
  split
  · exact SimM.fuel_bind (fun f => Scan.skipToEOL f) 0 SimM.skipToEOL FI.skipToEOL
  · exact SimM.pure _

theorem SimM.readCommentValue (fuel : Nat) : ∀ acc, SimM (readCommentValue fuel acc) := by
  induction fuel with
  | zero => intro acc; exact SimM.pure _
  | succ fuel ih =>
    intro acc
    unfold Scan.readCommentValue
    refine SimM.fuel_bind2 (fun f => Scan.skipBlanks f) 0 _ SimM.skipBlanks FI.skipBlanks (fun _ => ?_)
    refine SimM.fuel_bind2 (fun f => Scan.readLine f acc) 0 _ (fun f => SimM.readLine f acc)
      (fun n f f' hf hf' => FI.readLine n f f' hf hf' acc) (fun acc' => ?_)
    exact SimM.bind (SimM.lookingAt _) (fun x => SimM.ite (SimM.bind (SimM.skipN _) (fun _ => ih _)) (SimM.pure _))

theorem SimM.readStructuredComment : SimM readStructuredComment := by
  unfold Scan.readStructuredComment
  refine SimM.bind (SimM.lookingAt _) (fun x => SimM.ite (SimM.pure _) (SimM.bind (SimM.skipN _) (fun _ => ?_)))
  have heol : SimM (getS >>= fun s => Scan.skipToEOL (fuelOf s) >>= fun _ => (Pure.pure none : SM (Option (List UInt8 × List UInt8)))) :=
    SimM.fuel_bind2 (fun f => Scan.skipToEOL f) 0 _ SimM.skipToEOL FI.skipToEOL (fun _ => SimM.pure _)
  refine SimM.fuel_bind2 (fun f => Scan.attempt (Scan.readCommentKey f [])) 0 _
    (fun f => SimM.attempt (SimM.readCommentKey f []))
    (fun n f f' hf hf' => AgreeOn.attempt (FI.readCommentKey n f f' hf hf' [])) (fun r => ?_)
  split
  · exact heol
  · refine SimM.ite heol ?_
    refine SimM.fuel_bind2 (fun f => Scan.attempt (Scan.readCommentValue f [])) 0 _
      (fun f => SimM.attempt (SimM.readCommentValue f []))
      (fun n f f' hf hf' => AgreeOn.attempt (FI.readCommentValue n f f' hf hf' [])) (fun r => ?_)
    split <;> exact SimM.pure _

theorem Benign.pushDsc (kv : String × String) : Benign (fun s => { s with dsc := s.dsc ++ [kv] }) :=
  ⟨fun _ _ _ _ _ _ h => ⟨h.mode_ok, h.eexec_e, h.eexec_p, h.reg_e, h.reg_p, h.peek_eq, h.stream, h.line_eq,
      h.col_eq, h.crSeen_eq, by simp [h.dsc_eq], h.err_eq, h.fault_eq⟩,
   fun _ h => h⟩

theorem SimM.skipWhiteSpace (fuel : Nat) : SimM (skipWhiteSpace fuel) := by
  induction fuel with
  | zero => exact SimM.fail _
  | succ fuel ih =>
    unfold Scan.skipWhiteSpace
    refine SimM.bind SimM.peek (fun b => SimM.ite (SimM.bind SimM.skipByte (fun _ => ih)) (SimM.ite ?_ (SimM.pure _)))
    refine SimM.getS_bind' (fun _ c _ => Scan.lookingAt [37, 37] >>= fun x =>
      if (c == 0 && x) = true then _ else _) (fun p c e => ?_)
    refine SimM.bind (SimM.lookingAt _) (fun x => SimM.ite ?_ (SimM.bind SimM.skipComment (fun _ => ih)))
    refine SimM.bind SimM.readStructuredComment (fun r => ?_)
    dsimp only
    split
    · exact SimM.bind (SimM.modS (Benign.pushDsc _)) (fun _ => ih)
    · exact ih

theorem SimM.readString : SimM readString := by
  unfold Scan.readString
  exact SimM.bind (SimM.skipRequiredByte _) (fun _ =>
    SimM.fuel_bind (fun f => Scan.readStringBody f [] 1 false) 0 (fun f => SimM.readStringBody f _ _ _)
      (fun n f f' hf hf' => FI.readStringBody n f f' hf hf' _ _ _))

theorem SimM.readHexString : SimM readHexString := by
  unfold Scan.readHexString
  exact SimM.bind (SimM.skipRequiredByte _) (fun _ =>
    SimM.fuel_bind (fun f => Scan.readHexBody f [] true 0) 0 (fun f => SimM.readHexBody f _ _ _)
      (fun n f f' hf hf' => FI.readHexBody n f f' hf hf' _ _ _))

theorem SimM.readBase85String : SimM readBase85String := by
  unfold Scan.readBase85String
  refine SimM.bind (SimM.skipRequiredByte _) (fun _ => SimM.bind (SimM.skipRequiredByte _) (fun _ => ?_))
  refine SimM.fuel_bind2 (fun f => Scan.readA85Body f [] 0 0) 0 _ (fun f => SimM.readA85Body f _ _ _)
    (fun n f f' hf hf' => FI.readA85Body n f f' hf hf' _ _ _) (fun r => ?_)
  refine SimM.bind ?_ (fun _ => SimM.bind (SimM.skipRequiredByte _) (fun _ => SimM.pure _))
  repeat' (first | exact SimM.pure _ | exact SimM.fail _ | refine SimM.ite ?_ ?_)

/-- **`ScanToken`** cannot tell an eexec section from its plaintext -/
theorem SimM.scanToken : SimM scanToken := by
  unfold Scan.scanToken
  refine SimM.fuel_bind2 (fun f => Scan.skipWhiteSpace f) 4 _ SimM.skipWhiteSpace FI.skipWhiteSpace (fun _ => ?_)
  refine SimM.bind SimM.peek (fun b => ?_)
  refine SimM.ite (SimM.bind SimM.readString (fun _ => SimM.pure _)) (SimM.ite ?_ (SimM.ite ?_ (SimM.ite ?_ ?_)))
  · refine SimM.bind (SimM.peekN _ _) (fun bb => SimM.ite
      (SimM.bind SimM.skipByte (fun _ => SimM.bind SimM.skipByte (fun _ => SimM.pure _)))
      (SimM.ite (SimM.bind SimM.readBase85String (fun _ => SimM.pure _))
        (SimM.bind SimM.readHexString (fun _ => SimM.pure _))))
  · refine SimM.bind (SimM.peekN _ _) (fun bb => SimM.ite
      (SimM.bind SimM.skipByte (fun _ => SimM.bind SimM.skipByte (fun _ => SimM.pure _))) ?_)
    refine SimM.getS_bind' (fun _ _ e => match (if bb.length < 2 then e else none) with
      | some e => Scan.fail e
      | none => Scan.fail syntaxErr) (fun p c e => ?_)
    split <;> exact SimM.fail _
  · refine SimM.bind SimM.skipByte (fun _ => ?_)
    exact SimM.fuel_bind2 (fun f => Scan.readRegular f []) 0 _ (fun f => SimM.readRegular f _)
      (fun n f f' hf hf' => FI.readRegular n f f' hf hf' _) (fun _ => SimM.pure _)
  · refine SimM.bind SimM.skipByte (fun _ => ?_)
    refine SimM.fuel_bind2 (fun f => if isRegular b = true then Scan.readRegular f [b] else Pure.pure [b]) 0 _
      (fun f => SimM.ite (SimM.readRegular f _) (SimM.pure _))
      (fun n f f' hf hf' => AgreeOn.ite (FI.readRegular n f f' hf hf' _) (AgreeOn.rfl _)) (fun bytes => ?_)
    split <;> exact SimM.pure _


#print axioms eexec_begin_binary
#print axioms eexec_begin_hex
#print axioms eexec_stream
#print axioms SimM.readStringBody
#print axioms Sim.endEexec_at_end
#print axioms eexec_begin_binary0
#print axioms eexec_begin_hex0
#print axioms SimM.scanToken

end PsVerif.Proofs.EexecStream
