import PsVerif.Props.C16
/-!
# C16 — `ToUnicode (FromUnicode r) = expand r` for every Unicode scalar value

Nothing is missing: `from_to_unicode` is proved for every scalar value `r`, from four finite
facts about the generated tables that are stated as explicit hypotheses:

* `AglfnRoundTrip` — the content of `PsVerif.Props.C16Slow.aglfn_roundtrip`
  (slow: 586 look-ups in the glyph list; `decide +kernel` in `C16Slow`), stated without `match`:
  `∀ e ∈ Aglfn.entries, ∃ n, aglfnName e.1 = some n ∧ toUnicode n false = [e.1]`;
* `AglfnNoSep` — no AGLFN name contains `.` or `_` (cheap, `decide +kernel`, discharged below);
* `GlyphlistNoUKey` — no glyph-list key is the packed form of `u` + 4..7 upper-case hex digits
  (cheap: one arithmetic pass over the 4,281 keys, `decide +kernel`, discharged below);
* `CompatScalar` — every compatibility expansion is non-empty and consists of scalar values
  (cheap, `decide +kernel`, discharged below).

`from_to_unicode_of_aglfn` is the same theorem with the three cheap facts discharged.

How to plug in `C16Slow.aglfn_roundtrip` (checked on a scratch copy): its `match` is compiled to an
auxiliary matcher constant of *its* module, so passing it where a `match` elaborated in this
module is expected makes the unifier unfold `aglfnName` on a free variable ("maximum recursion
depth").  Hence the hypothesis is `match`-free here, and the bridge is (in a file importing both)

```
theorem aglfn_roundtrip_all : AglfnRoundTrip := by
  intro e he
  have := List.all_eq_true.mp PsVerif.Props.C16Slow.aglfn_roundtrip e he
  cases hn : aglfnName e.1 with
  | none => simp only [hn] at this; cases this
  | some n => simp only [hn, beq_iff_eq] at this; exact ⟨n, rfl, this⟩

theorem from_to_unicode_all (r : Nat) (hr : r < 0x110000) (hs : ¬ (0xD800 ≤ r ∧ r < 0xE000)) :
    toUnicode (fromUnicode r) false = expand r :=
  from_to_unicode_of_aglfn aglfn_roundtrip_all r hr hs
```

(`aglfnRoundTrip_of_B` below is the same bridge for the `match` form elaborated in this module.)
-/
namespace PsVerif.Proofs.NamesRoundTrip
open PsVerif.Model.Names PsVerif.Props.C16 PsVerif.Generated

/-! ## 1. digit arithmetic -/

/-- an upper-case hexadecimal digit -/
def IsHex (c : Nat) : Prop := (48 ≤ c ∧ c ≤ 57) ∨ (65 ≤ c ∧ c ≤ 70)

theorem hexUpper_digit (d : Nat) (h : d < 16) : hexUpper (hexDigitUpper d) = some d := by
  unfold hexUpper hexDigitUpper
  by_cases h10 : d < 10
  · rw [if_pos h10, if_pos (by omega)]; congr 1; omega
  · rw [if_neg h10, if_neg (by omega), if_pos (by omega)]; congr 1; omega

theorem isHex_digit (d : Nat) (h : d < 16) : IsHex (hexDigitUpper d) := by
  unfold IsHex hexDigitUpper
  by_cases h10 : d < 10
  · rw [if_pos h10]; omega
  · rw [if_neg h10]; omega

theorem parseHexUpper_append (xs ys : List Nat) (acc : Nat) :
    parseHexUpper (xs ++ ys) acc = (parseHexUpper xs acc).bind (parseHexUpper ys) := by
  induction xs generalizing acc with
  | nil => simp [parseHexUpper]
  | cons c cs ih =>
    simp only [List.cons_append, parseHexUpper]
    cases hexUpper c with
    | none => simp
    | some d => simp [ih]

theorem parse_hexDigits (fuel n : Nat) (h : n < 16 ^ fuel) :
    parseHexUpper (hexDigits fuel n) 0 = some n := by
  induction fuel generalizing n with
  | zero =>
    have : n = 0 := by simp at h; exact h
    subst this; simp [hexDigits, parseHexUpper]
  | succ f ih =>
    unfold hexDigits
    by_cases h0 : n = 0
    · subst h0; simp [parseHexUpper]
    · have hb : (n == 0) = false := by simp [h0]
      have hdiv : n / 16 < 16 ^ f := by
        rw [Nat.pow_succ] at h
        exact Nat.div_lt_of_lt_mul (by rw [Nat.mul_comm]; exact h)
      rw [hb, if_neg (by simp), parseHexUpper_append, ih (n / 16) hdiv]
      simp only [Option.bind_some, parseHexUpper, hexUpper_digit (n % 16) (Nat.mod_lt _ (by decide))]
      congr 1; omega

theorem hexDigits_length (fuel k n : Nat) (h : n < 16 ^ k) : (hexDigits fuel n).length ≤ k := by
  induction fuel generalizing k n with
  | zero => simp [hexDigits]
  | succ f ih =>
    unfold hexDigits
    by_cases h0 : n = 0
    · subst h0; simp
    · have hb : (n == 0) = false := by simp [h0]
      rw [hb, if_neg (by simp)]
      cases k with
      | zero => simp at h; exact (h0 h).elim
      | succ k' =>
        have hdiv : n / 16 < 16 ^ k' := by
          rw [Nat.pow_succ] at h
          exact Nat.div_lt_of_lt_mul (by rw [Nat.mul_comm]; exact h)
        have := ih k' (n / 16) hdiv
        simp only [List.length_append, List.length_cons, List.length_nil]
        omega

theorem hexDigits_hex (fuel n : Nat) : ∀ c ∈ hexDigits fuel n, IsHex c := by
  induction fuel generalizing n with
  | zero => intro c hc; simp [hexDigits] at hc
  | succ f ih =>
    intro c hc
    unfold hexDigits at hc
    by_cases h0 : n = 0
    · subst h0; simp at hc
    · have hb : (n == 0) = false := by simp [h0]
      rw [hb, if_neg (by simp)] at hc
      rcases List.mem_append.mp hc with h | h
      · exact ih _ c h
      · simp only [List.mem_cons, List.not_mem_nil, or_false] at h
        subst h; exact isHex_digit _ (Nat.mod_lt _ (by decide))

/-- the digits of `uName n`: `hexDigits 8 n` padded with `'0'` to at least four -/
def body (n : Nat) : List Nat := List.replicate (4 - (hexDigits 8 n).length) 48 ++ hexDigits 8 n

theorem uName_eq (n : Nat) : uName n = 117 :: body n := rfl

theorem body_length (n : Nat) (h : n < 16 ^ 6) : 4 ≤ (body n).length ∧ (body n).length ≤ 6 := by
  have := hexDigits_length 8 6 n h
  unfold body
  simp only [List.length_append, List.length_replicate]
  omega

theorem body_hex (n : Nat) : ∀ c ∈ body n, IsHex c := by
  intro c hc
  unfold body at hc
  rcases List.mem_append.mp hc with h | h
  · have := (List.mem_replicate.mp h).2
    subst this; unfold IsHex; omega
  · exact hexDigits_hex 8 n c h

theorem parse_zeros (k : Nat) (ds : List Nat) :
    parseHexUpper (List.replicate k 48 ++ ds) 0 = parseHexUpper ds 0 := by
  induction k with
  | zero => simp
  | succ k ih =>
    rw [List.replicate_succ, List.cons_append]
    have : hexUpper 48 = some 0 := by decide
    simp only [parseHexUpper, this]
    exact ih

theorem body_parse (n : Nat) (h : n < 16 ^ 8) : parseHexUpper (body n) 0 = some n := by
  unfold body
  rw [parse_zeros]
  exact parse_hexDigits 8 n h

theorem lt_pow6 {n : Nat} (h : n < 0x110000) : n < 16 ^ 6 := Nat.lt_trans h (by decide)
theorem lt_pow8 {n : Nat} (h : n < 0x110000) : n < 16 ^ 8 := Nat.lt_trans h (by decide)

/-- **`uXXXX` names parse back**: `parseHexUpper (drop 1 (uName n)) 0 = some n` -/
theorem uName_parse (n : Nat) (h : n < 0x110000) : parseHexUpper ((uName n).drop 1) 0 = some n := by
  rw [uName_eq]; exact body_parse n (lt_pow8 h)

theorem uName_length (n : Nat) (h : n < 0x110000) : 5 ≤ (uName n).length ∧ (uName n).length ≤ 7 := by
  have := body_length n (lt_pow6 h)
  rw [uName_eq, List.length_cons]; omega

theorem uName_head (n : Nat) : (uName n).head? = some 117 := rfl

theorem uName_tail_hex (n : Nat) : ∀ c ∈ (uName n).drop 1, IsHex c := by
  rw [uName_eq]; exact body_hex n

theorem noSep_of_u_hex (bd : List Nat) (h : ∀ c ∈ bd, IsHex c) : noSep (117 :: bd) := by
  intro c hc
  rcases List.mem_cons.mp hc with rfl | hm
  · omega
  · have := h c hm; unfold IsHex at this; omega

theorem uName_noSep (n : Nat) : noSep (uName n) := by
  rw [uName_eq]; exact noSep_of_u_hex _ (body_hex n)

theorem uName_not_uni (n : Nat) (h : n < 0x110000) : (uName n).take 3 ≠ [117, 110, 105] := by
  have hl := body_length n (lt_pow6 h)
  have hh := body_hex n
  rw [uName_eq]
  cases hb : body n with
  | nil => rw [hb] at hl; simp at hl
  | cons b rest =>
    rw [hb] at hh
    have := hh b (by simp)
    unfold IsHex at this
    intro heq
    simp only [List.take_succ_cons, List.cons.injEq, true_and] at heq
    omega

/-! ## 2. no glyph-list entry is called `uXXXX` -/

def isHexByte (c : Nat) : Bool := (48 ≤ c && c ≤ 57) || (65 ≤ c && c ≤ 70)

theorem isHexByte_of_isHex {c : Nat} (h : IsHex c) : isHexByte c = true := by
  unfold IsHex at h; unfold isHexByte
  simp only [Bool.or_eq_true, Bool.and_eq_true, decide_eq_true_eq]; exact h

/-- number of trailing upper-case hex bytes of a packed name, if what precedes them is exactly
`u` (`pack [117] = 373`); pure arithmetic on the packed number -/
def uKeyLen : Nat → Nat → Option Nat
  | 0, _ => none
  | f + 1, k =>
    if k == 373 then some 0
    else if isHexByte (k % 256) then
      match uKeyLen f (k / 256) with
      | some l => some (l + 1)
      | none => none
    else none

/-- the packed name is `u` followed by at least four (and at most seven) upper-case hex digits -/
def isUKey (k : Nat) : Bool :=
  match uKeyLen 8 k with
  | some l => decide (4 ≤ l)
  | none => false

theorem pack_snoc (bs : List Nat) (b : Nat) : pack (bs ++ [b]) = pack bs * 256 + b := by
  unfold pack; simp [List.foldl_append]

theorem pack_u : pack [117] = 373 := by decide

theorem pack_u_ge (rs : List Nat) : 373 ≤ pack (117 :: rs.reverse) := by
  induction rs with
  | nil => simp [pack]
  | cons r rs ih => rw [List.reverse_cons, ← List.cons_append, pack_snoc]; omega

theorem uKeyLen_pack (rs : List Nat) (hh : ∀ c ∈ rs, IsHex c) (f : Nat) (hf : rs.length < f) :
    uKeyLen f (pack (117 :: rs.reverse)) = some rs.length := by
  induction rs generalizing f with
  | nil =>
    cases f with
    | zero => simp at hf
    | succ f => simp [uKeyLen, pack]
  | cons r rs ih =>
    cases f with
    | zero => simp at hf
    | succ f =>
      rw [List.reverse_cons, ← List.cons_append, pack_snoc]
      have hge := pack_u_ge rs
      have hr := hh r (by simp)
      have hr256 : r < 256 := by unfold IsHex at hr; omega
      have h1 : (pack (117 :: rs.reverse) * 256 + r == 373) = false := by
        simp only [beq_eq_false_iff_ne]; omega
      have h2 : (pack (117 :: rs.reverse) * 256 + r) % 256 = r := by omega
      have h3 : (pack (117 :: rs.reverse) * 256 + r) / 256 = pack (117 :: rs.reverse) := by omega
      have h4 := isHexByte_of_isHex hr
      have h5 := ih (fun c hc => hh c (by simp [hc])) f (by simp at hf; omega)
      unfold uKeyLen
      rw [h1, h2, h3, h4, h5]
      simp

theorem isUKey_pack (bd : List Nat) (hh : ∀ c ∈ bd, IsHex c) (h4 : 4 ≤ bd.length) (h7 : bd.length ≤ 7) :
    isUKey (pack (117 :: bd)) = true := by
  have := uKeyLen_pack bd.reverse (fun c hc => hh c (List.mem_reverse.mp hc)) 8 (by simp; omega)
  rw [List.reverse_reverse] at this
  unfold isUKey
  rw [this]
  simp [h4]

theorem isUKey_uName (n : Nat) (h : n < 0x110000) : isUKey (pack (uName n)) = true := by
  have hl := body_length n (lt_pow6 h)
  rw [uName_eq]
  exact isUKey_pack _ (body_hex n) hl.1 (by omega)

/-- `lookup` only ever returns an entry whose key is the one searched for -/
theorem lookup_none_of_all (tbl : List (Nat × List Nat)) (p : Nat → Bool)
    (hall : (tbl.all fun e => !p e.1) = true) (k : Nat) (hk : p k = true) : lookup tbl k = none := by
  unfold lookup
  cases hf : tbl.find? (fun e => e.1 == k) with
  | none => rfl
  | some e =>
    have hm := List.mem_of_find?_eq_some hf
    have he := List.find?_some hf
    have hek : e.1 = k := by simpa using he
    have := List.all_eq_true.mp hall e hm
    rw [hek, hk] at this
    simp at this

/-- finite fact (cheap): no key of the glyph list has the shape `u` + ≥4 hex digits -/
def GlyphlistNoUKey : Prop := (glyphlist.all fun e => !isUKey e.1) = true

theorem lookupFile_uName (hno : GlyphlistNoUKey) (n : Nat) (h : n < 0x110000) :
    lookupFile glyphlist (uName n) = none := by
  unfold lookupFile
  rw [lookup_none_of_all glyphlist isUKey hno _ (isUKey_uName n h)]
  rfl

/-! ## 3. `component false (uName n) = [n]` -/

theorem component_uName (hno : GlyphlistNoUKey) (n : Nat) (h : n < 0x110000)
    (hs : ¬ (0xD800 ≤ n ∧ n < 0xE000)) : component false (uName n) = [n] := by
  have hlk := lookupFile_uName hno n h
  have hlen := uName_length n h
  have hhead := uName_head n
  have hparse := uName_parse n h
  have huni : ((uName n).take 3 == [117, 110, 105]) = false := by
    simp only [beq_eq_false_iff_ne]; exact uName_not_uni n h
  have hl : (decide ((uName n).length ≥ 5) && decide ((uName n).length ≤ 7) &&
      ((uName n).head? == some 117)) = true := by
    simp only [Bool.and_eq_true, decide_eq_true_eq, beq_iff_eq]
    exact ⟨⟨hlen.1, hlen.2⟩, hhead⟩
  have hv : (decide (n < 0xD800) || (decide (0xE000 ≤ n) && decide (n < 0x110000))) = true := by
    simp only [Bool.or_eq_true, Bool.and_eq_true, decide_eq_true_eq]
    omega
  unfold component
  simp only [Bool.false_eq_true, if_false, hlk, huni, Bool.false_and, hl, if_true, hparse, hv]

/-! ## 4. characters with an AGLFN name -/

/-- finite fact (slow): the content of `C16Slow.aglfn_roundtrip`, stated without `match` so that
it does not depend on which auxiliary matcher constant the elaborator generated -/
def AglfnRoundTrip : Prop :=
  ∀ e ∈ Aglfn.entries, ∃ n, aglfnName e.1 = some n ∧ toUnicode n false = [e.1]

/-- the statement of `C16Slow.aglfn_roundtrip`, literally (as elaborated in *this* module) -/
def AglfnRoundTripB : Prop :=
  (Aglfn.entries.all fun e =>
    match aglfnName e.1 with
    | some n => toUnicode n false == [e.1]
    | none => false) = true

theorem aglfnRoundTrip_of_B (h : AglfnRoundTripB) : AglfnRoundTrip := by
  intro e he
  have := List.all_eq_true.mp h e he
  cases hn : aglfnName e.1 with
  | none => simp only [hn] at this; cases this
  | some n => simp only [hn, beq_iff_eq] at this; exact ⟨n, rfl, this⟩

/-- finite fact (cheap): no AGLFN name contains a period or an underscore -/
def AglfnNoSep : Prop :=
  (Aglfn.entries.all fun e => e.2.all fun c => c != 46 && c != 95) = true

theorem aglfnName_mem {c : Nat} {n : List Nat} (h : aglfnName c = some n) : (c, n) ∈ Aglfn.entries := by
  unfold aglfnName at h
  cases hf : Aglfn.entries.reverse.find? (fun e => e.1 == c) with
  | none => rw [hf] at h; cases h
  | some e =>
    rw [hf] at h
    have hm := List.mem_reverse.mp (List.mem_of_find?_eq_some hf)
    have he : e.1 = c := by simpa using List.find?_some hf
    have hn : e.2 = n := by simpa using h
    rw [← he, ← hn]; exact hm

theorem aglfn_noSep (hns : AglfnNoSep) {c : Nat} {n : List Nat} (h : aglfnName c = some n) : noSep n := by
  have := List.all_eq_true.mp hns (c, n) (aglfnName_mem h)
  intro x hx
  have := List.all_eq_true.mp this x hx
  simpa using this

theorem toUnicode_noSep (name : List Nat) (hn : noSep name) :
    toUnicode name false = component false name := by
  unfold toUnicode
  rw [stripSuffix_noSep name hn, splitOn_noSep name hn]
  simp

theorem component_aglfn (hrt : AglfnRoundTrip) (hns : AglfnNoSep) {c : Nat} {n : List Nat}
    (h : aglfnName c = some n) : component false n = [c] := by
  obtain ⟨n', hn', ht⟩ := hrt (c, n) (aglfnName_mem h)
  simp only [h, Option.some.injEq] at hn'
  subst hn'
  rw [← toUnicode_noSep n (aglfn_noSep hns h)]
  exact ht

/-! ## 5. splitting a joined name -/

theorem splitOn_ne_nil (sep : Nat) (s : List Nat) : splitOn sep s ≠ [] := by
  cases s with
  | nil => simp [splitOn]
  | cons c cs =>
    unfold splitOn
    cases splitOn sep cs with
    | nil => simp
    | cons p ps => dsimp only; split <;> simp

theorem splitOn_append_sep (p rest : List Nat) (hp : ∀ c ∈ p, c ≠ 95) :
    splitOn 95 (p ++ 95 :: rest) = p :: splitOn 95 rest := by
  induction p with
  | nil =>
    simp only [List.nil_append, splitOn]
    cases hsp : splitOn 95 rest with
    | nil => exact (splitOn_ne_nil 95 rest hsp).elim
    | cons q qs => simp
  | cons c p ih =>
    have hc : (c == 95) = false := by simp [hp c (by simp)]
    rw [List.cons_append]
    simp only [splitOn]
    rw [ih (fun x hx => hp x (by simp [hx]))]
    simp [hc]

theorem splitOn_join (names : List (List Nat)) (hne : names ≠ []) (hn : ∀ p ∈ names, noSep p) :
    splitOn 95 (joinUnderscore names) = names := by
  induction names with
  | nil => exact (hne rfl).elim
  | cons p ps ih =>
    cases ps with
    | nil => simp only [joinUnderscore]; exact splitOn_noSep p (hn p (by simp))
    | cons q qs =>
      simp only [joinUnderscore]
      rw [splitOn_append_sep p _ (fun c hc => (hn p (by simp) c hc).2)]
      rw [ih (by simp) (fun x hx => hn x (by simp [hx]))]

theorem stripSuffix_no46 (name : List Nat) (h : ∀ c ∈ name, c ≠ 46) : stripSuffix name = name := by
  unfold stripSuffix
  induction name with
  | nil => rfl
  | cons c cs ih =>
    have hc := h c (by simp)
    have := ih (fun x hx => h x (by simp [hx]))
    simp [hc, this]

theorem join_no46 (names : List (List Nat)) (hn : ∀ p ∈ names, noSep p) :
    ∀ c ∈ joinUnderscore names, c ≠ 46 := by
  induction names with
  | nil => intro c hc; simp [joinUnderscore] at hc
  | cons p ps ih =>
    cases ps with
    | nil => intro c hc; simp only [joinUnderscore] at hc; exact (hn p (by simp) c hc).1
    | cons q qs =>
      intro c hc
      simp only [joinUnderscore] at hc
      rcases List.mem_append.mp hc with h | h
      · exact (hn p (by simp) c h).1
      · rcases List.mem_cons.mp h with rfl | h'
        · omega
        · exact ih (fun x hx => hn x (by simp [hx])) c (by simpa only [joinUnderscore] using h')

theorem flatten_map_map (g : Nat → List Nat) (f : List Nat → List Nat) (cs : List Nat)
    (h : ∀ c ∈ cs, f (g c) = [c]) : ((cs.map g).map f).flatten = cs := by
  induction cs with
  | nil => rfl
  | cons c cs ih =>
    simp only [List.map_cons, List.flatten_cons, h c (by simp), ih (fun x hx => h x (by simp [hx]))]
    rfl

/-! ## 6. assembly -/

/-- Unicode scalar value, as a Boolean (the test `component` applies) -/
def isScalarB (v : Nat) : Bool := v < 0xD800 || (0xE000 ≤ v && v < 0x110000)

theorem isScalarB_iff (v : Nat) : isScalarB v = true ↔ (v < 0x110000 ∧ ¬ (0xD800 ≤ v ∧ v < 0xE000)) := by
  unfold isScalarB
  simp only [Bool.or_eq_true, Bool.and_eq_true, decide_eq_true_eq]
  omega

/-- finite fact (cheap): every compatibility expansion is non-empty and made of scalar values -/
def CompatScalar : Prop :=
  (Compat.compat.all fun e => !e.2.isEmpty && e.2.all isScalarB) = true

/-- the name `FromUnicode` gives to one character of the expansion -/
def nameOf (c : Nat) : List Nat :=
  match aglfnName c with
  | some n => n
  | none => uName c

theorem fromUnicode_eq (r : Nat) : fromUnicode r = joinUnderscore ((expand r).map nameOf) := by
  unfold fromUnicode
  refine congrArg joinUnderscore (congrArg (fun f => List.map f (expand r)) ?_)
  funext c
  unfold nameOf
  cases aglfnName c <;> rfl

theorem nameOf_noSep (hns : AglfnNoSep) (c : Nat) : noSep (nameOf c) := by
  unfold nameOf
  cases h : aglfnName c with
  | some n => exact aglfn_noSep hns h
  | none => exact uName_noSep c

theorem component_nameOf (hrt : AglfnRoundTrip) (hns : AglfnNoSep) (hno : GlyphlistNoUKey)
    (c : Nat) (hc : isScalarB c = true) : component false (nameOf c) = [c] := by
  unfold nameOf
  cases h : aglfnName c with
  | some n => exact component_aglfn hrt hns h
  | none =>
    have := (isScalarB_iff c).mp hc
    exact component_uName hno c this.1 this.2

/-- the expansion of a scalar value is a non-empty list of scalar values -/
theorem expand_scalar (hcs : CompatScalar) (r : Nat) (hr : isScalarB r = true) :
    expand r ≠ [] ∧ ∀ c ∈ expand r, isScalarB c = true := by
  unfold expand
  cases hf : Compat.compat.find? (fun e => e.1 == r) with
  | none => simp [hr]
  | some e =>
    have := List.all_eq_true.mp hcs e (List.mem_of_find?_eq_some hf)
    simp only [Bool.and_eq_true, Bool.not_eq_true', List.isEmpty_eq_false_iff, List.all_eq_true] at this
    exact ⟨this.1, this.2⟩

/-- round trip for any list of scalar values joined by underscores -/
theorem toUnicode_join (hrt : AglfnRoundTrip) (hns : AglfnNoSep) (hno : GlyphlistNoUKey)
    (cs : List Nat) (hne : cs ≠ []) (hsc : ∀ c ∈ cs, isScalarB c = true) :
    toUnicode (joinUnderscore (cs.map nameOf)) false = cs := by
  have hnames : ∀ p ∈ cs.map nameOf, noSep p := by
    intro p hp
    obtain ⟨c, _, rfl⟩ := List.mem_map.mp hp
    exact nameOf_noSep hns c
  have hne' : cs.map nameOf ≠ [] := by
    cases cs with
    | nil => exact (hne rfl).elim
    | cons c cs => intro h; cases h
  unfold toUnicode
  rw [stripSuffix_no46 _ (join_no46 _ hnames)]
  rw [splitOn_join _ hne' hnames]
  exact flatten_map_map nameOf (component false) cs
    (fun c hc => component_nameOf hrt hns hno c (hsc c hc))

/-- **C16, round trip**: for every Unicode scalar value `r`, the name `FromUnicode` produces maps
back to `expand r` (the character itself, or its compatibility expansion).  The four hypotheses
are finite facts about the generated tables, each one `decide +kernel` away:
`h_aglfn_roundtrip` follows from `C16Slow.aglfn_roundtrip` (slow; see the bridge in the header),
the other three are discharged below (`aglfn_noSep_fact`, `glyphlist_noUKey_fact`,
`compat_scalar_fact`). -/
theorem from_to_unicode
    (h_aglfn_roundtrip : AglfnRoundTrip)
    (h_aglfn_noSep : AglfnNoSep)
    (h_glyphlist_noUKey : GlyphlistNoUKey)
    (h_compat_scalar : CompatScalar)
    (r : Nat) (hr : r < 0x110000) (hs : ¬ (0xD800 ≤ r ∧ r < 0xE000)) :
    toUnicode (fromUnicode r) false = expand r := by
  have hsc := expand_scalar h_compat_scalar r ((isScalarB_iff r).mpr ⟨hr, hs⟩)
  rw [fromUnicode_eq]
  exact toUnicode_join h_aglfn_roundtrip h_aglfn_noSep h_glyphlist_noUKey (expand r) hsc.1 hsc.2

/-! ## the cheap finite facts, by complete kernel evaluation -/

section Cheap

theorem aglfn_noSep_fact : AglfnNoSep := by unfold AglfnNoSep; decide +kernel

theorem glyphlist_noUKey_fact : GlyphlistNoUKey := by unfold GlyphlistNoUKey; decide +kernel

theorem compat_scalar_fact : CompatScalar := by unfold CompatScalar; decide +kernel

/-- non-vacuity of `isUKey`: it does recognise `u0041` and `u10FFFF`, and not `u` or `uni0041` -/
example : isUKey (pack [117, 48, 48, 52, 49]) = true ∧ isUKey (pack [117, 49, 48, 70, 70, 70, 70]) = true ∧
    isUKey (pack [117]) = false ∧ isUKey (pack [117, 110, 105, 48, 48, 52, 49]) = false := by decide +kernel

end Cheap

/-- the round trip with only the slow fact left as a hypothesis -/
theorem from_to_unicode_of_aglfn (h_aglfn_roundtrip : AglfnRoundTrip)
    (r : Nat) (hr : r < 0x110000) (hs : ¬ (0xD800 ≤ r ∧ r < 0xE000)) :
    toUnicode (fromUnicode r) false = expand r :=
  from_to_unicode h_aglfn_roundtrip aglfn_noSep_fact glyphlist_noUKey_fact compat_scalar_fact r hr hs

/-- the same, with the slow fact in the Boolean `match` form of `C16Slow.aglfn_roundtrip` -/
theorem from_to_unicode_of_aglfnB
    (h_aglfn_roundtrip :
      (Aglfn.entries.all fun e =>
        match aglfnName e.1 with
        | some n => toUnicode n false == [e.1]
        | none => false) = true)
    (r : Nat) (hr : r < 0x110000) (hs : ¬ (0xD800 ≤ r ∧ r < 0xE000)) :
    toUnicode (fromUnicode r) false = expand r :=
  from_to_unicode_of_aglfn (aglfnRoundTrip_of_B h_aglfn_roundtrip) r hr hs

/-- names without an AGLFN entry: the `uXXXX` form alone round-trips, for every scalar value,
without any slow hypothesis -/
theorem uName_roundtrip (n : Nat) (h : n < 0x110000) (hs : ¬ (0xD800 ≤ n ∧ n < 0xE000)) :
    toUnicode (uName n) false = [n] := by
  rw [toUnicode_noSep _ (uName_noSep n)]
  exact component_uName glyphlist_noUKey_fact n h hs

#print axioms from_to_unicode
#print axioms from_to_unicode_of_aglfn
#print axioms from_to_unicode_of_aglfnB
#print axioms uName_roundtrip

end PsVerif.Proofs.NamesRoundTrip
