import PsVerif.Model.Select
/-!
Helper lemmas for `Props/C17Select.lean`: the byte order is a total order, insertion sort sorts and keeps the
elements, `lookup` on an association list with distinct keys, the first-dictionary loop over a sorted key list.
-/
namespace PsVerif.Proofs.C17Select
open PsVerif.Model.Select

/-! ## the byte order -/

theorem nameLe_nil (k : Key) : nameLe [] k = true := by cases k <;> rfl

theorem nameLe_refl : ∀ a : Key, nameLe a a = true := by
  intro a
  induction a with
  | nil => rfl
  | cons x a ih => simp [nameLe, ih]

theorem nameLe_total : ∀ a b : Key, (nameLe a b || nameLe b a) = true := by
  intro a
  induction a with
  | nil => intro b; simp [nameLe_nil]
  | cons x a ih =>
    intro b
    cases b with
    | nil => simp [nameLe]
    | cons y b =>
      have := ih b
      simp only [nameLe, Bool.or_eq_true, Bool.and_eq_true, decide_eq_true_eq, beq_iff_eq] at this ⊢
      rcases Nat.lt_trichotomy x.toNat y.toNat with h | h | h
      · exact Or.inl (Or.inl (UInt8.lt_iff_toNat_lt.mpr h))
      · have e : x = y := UInt8.toNat_inj.mp h
        subst e
        rcases this with t | t
        · exact Or.inl (Or.inr ⟨rfl, t⟩)
        · exact Or.inr (Or.inr ⟨rfl, t⟩)
      · exact Or.inr (Or.inl (UInt8.lt_iff_toNat_lt.mpr h))

theorem nameLe_trans : ∀ a b c : Key, nameLe a b = true → nameLe b c = true → nameLe a c = true := by
  intro a
  induction a with
  | nil => intro b c _ _; exact nameLe_nil c
  | cons x a ih =>
    intro b c h1 h2
    cases b with
    | nil => simp [nameLe] at h1
    | cons y b =>
      cases c with
      | nil => simp [nameLe] at h2
      | cons z c =>
        simp only [nameLe, Bool.or_eq_true, Bool.and_eq_true, decide_eq_true_eq, beq_iff_eq] at h1 h2 ⊢
        rcases h1 with h1 | ⟨e1, h1⟩
        · rcases h2 with h2 | ⟨e2, _⟩
          · exact Or.inl (UInt8.lt_iff_toNat_lt.mpr
              (Nat.lt_trans (UInt8.lt_iff_toNat_lt.mp h1) (UInt8.lt_iff_toNat_lt.mp h2)))
          · subst e2; exact Or.inl h1
        · subst e1
          rcases h2 with h2 | ⟨e2, h2⟩
          · exact Or.inl h2
          · exact Or.inr ⟨e2, ih b c h1 h2⟩

theorem nameLe_antisymm : ∀ a b : Key, nameLe a b = true → nameLe b a = true → a = b := by
  intro a
  induction a with
  | nil => intro b _ h2; cases b with
    | nil => rfl
    | cons y b => simp [nameLe] at h2
  | cons x a ih =>
    intro b h1 h2
    cases b with
    | nil => simp [nameLe] at h1
    | cons y b =>
      simp only [nameLe, Bool.or_eq_true, Bool.and_eq_true, decide_eq_true_eq, beq_iff_eq] at h1 h2
      rcases h1 with h1 | ⟨e1, h1⟩
      · rcases h2 with h2 | ⟨e2, _⟩
        · exact absurd (UInt8.lt_iff_toNat_lt.mp h2) (Nat.lt_asymm (UInt8.lt_iff_toNat_lt.mp h1))
        · subst e2; exact absurd (UInt8.lt_iff_toNat_lt.mp h1) (Nat.lt_irrefl _)
      · subst e1
        rcases h2 with h2 | ⟨_, h2⟩
        · exact absurd (UInt8.lt_iff_toNat_lt.mp h2) (Nat.lt_irrefl _)
        · rw [ih b h1 h2]

/-! ## insertion sort -/

theorem mem_insertKey (x k : Key) : ∀ l, x ∈ insertKey k l ↔ x = k ∨ x ∈ l := by
  intro l
  induction l with
  | nil => simp [insertKey]
  | cons q r ih =>
    simp only [insertKey]
    split
    · simp
    · simp only [List.mem_cons, ih]
      constructor
      · rintro (h | h | h)
        · exact Or.inr (Or.inl h)
        · exact Or.inl h
        · exact Or.inr (Or.inr h)
      · rintro (h | h | h)
        · exact Or.inr (Or.inl h)
        · exact Or.inl h
        · exact Or.inr (Or.inr h)

theorem mem_sortKeys (x : Key) : ∀ l, x ∈ sortKeys l ↔ x ∈ l := by
  intro l
  induction l with
  | nil => simp [sortKeys]
  | cons k r ih => simp [sortKeys, mem_insertKey, ih]

theorem insertKey_perm (k : Key) : ∀ l, (insertKey k l).Perm (k :: l) := by
  intro l
  induction l with
  | nil => exact List.Perm.refl _
  | cons q r ih =>
    simp only [insertKey]
    split
    · exact List.Perm.refl _
    · exact ((List.Perm.cons q ih).trans (List.Perm.swap k q r))

theorem sortKeys_perm : ∀ l, (sortKeys l).Perm l := by
  intro l
  induction l with
  | nil => exact List.Perm.refl _
  | cons k r ih => exact (insertKey_perm k _).trans (List.Perm.cons k ih)

theorem insertKey_sorted (k : Key) : ∀ l, l.Pairwise (fun a b => nameLe a b = true) →
    (insertKey k l).Pairwise (fun a b => nameLe a b = true) := by
  intro l
  induction l with
  | nil => intro _; simp [insertKey]
  | cons q r ih =>
    intro h
    rw [List.pairwise_cons] at h
    simp only [insertKey]
    split
    · rename_i hle
      refine List.pairwise_cons.mpr ⟨?_, List.pairwise_cons.mpr h⟩
      intro x hx
      rcases List.mem_cons.mp hx with e | hx
      · rw [e]; exact hle
      · exact nameLe_trans _ _ _ hle (h.1 x hx)
    · rename_i hle
      refine List.pairwise_cons.mpr ⟨?_, ih h.2⟩
      intro x hx
      rcases (mem_insertKey x k r).mp hx with e | hx
      · rw [e]
        have := nameLe_total k q
        simp only [Bool.or_eq_true] at this
        rcases this with t | t
        · exact absurd t hle
        · exact t
      · exact h.1 x hx

theorem sortKeys_sorted : ∀ l, (sortKeys l).Pairwise (fun a b => nameLe a b = true) := by
  intro l
  induction l with
  | nil => simp [sortKeys]
  | cons k r ih => exact insertKey_sorted k _ ih

/-! ## look-up in an association list with distinct keys -/

theorem lookup_some_mem {V : Type} (k : Key) (v : V) : ∀ dir : List (Key × V), lookup k dir = some v → (k, v) ∈ dir := by
  intro dir
  induction dir with
  | nil => simp [lookup]
  | cons p r ih =>
    obtain ⟨k', v'⟩ := p
    simp only [lookup]
    split
    · rename_i e
      intro h
      cases h
      rw [e]
      exact List.mem_cons_self
    · intro h; exact List.mem_cons_of_mem _ (ih h)

theorem lookup_of_mem {V : Type} (k : Key) (v : V) : ∀ dir : List (Key × V), (dir.map (·.1)).Nodup → (k, v) ∈ dir →
    lookup k dir = some v := by
  intro dir
  induction dir with
  | nil => simp
  | cons p r ih =>
    obtain ⟨k', v'⟩ := p
    intro hn hm
    simp only [List.map_cons, List.nodup_cons] at hn
    simp only [lookup]
    rcases List.mem_cons.mp hm with e | hm
    · cases e; simp
    · have hk : k ∈ r.map (·.1) := List.mem_map.mpr ⟨(k, v), hm, rfl⟩
      have : k ≠ k' := fun e => hn.1 (e ▸ hk)
      simp [this, ih hn.2 hm]

theorem lookup_iff {V : Type} (k : Key) (v : V) (dir : List (Key × V)) (hn : (dir.map (·.1)).Nodup) :
    lookup k dir = some v ↔ (k, v) ∈ dir :=
  ⟨lookup_some_mem k v dir, lookup_of_mem k v dir hn⟩

/-- distinct keys: two entries with the same key are the same entry -/
theorem entry_unique {V : Type} (dir : List (Key × V)) (hn : (dir.map (·.1)).Nodup) (e₁ e₂ : Key × V)
    (h₁ : e₁ ∈ dir) (h₂ : e₂ ∈ dir) (hk : e₁.1 = e₂.1) : e₁ = e₂ := by
  obtain ⟨k₁, v₁⟩ := e₁
  obtain ⟨k₂, v₂⟩ := e₂
  dsimp only at hk
  subst hk
  have a := lookup_of_mem k₁ v₁ dir hn h₁
  have b := lookup_of_mem k₁ v₂ dir hn h₂
  rw [a] at b
  cases b
  rfl

/-! ## the loop over the sorted keys -/

theorem firstDict_some {V : Type} (isDict : V → Bool) (dir : List (Key × V)) (k : Key) (v : V) :
    ∀ ks : List Key, ks.Pairwise (fun a b => nameLe a b = true) → firstDict isDict dir ks = some (k, v) →
      k ∈ ks ∧ lookup k dir = some v ∧ isDict v = true ∧
      ∀ k' ∈ ks, ∀ v', lookup k' dir = some v' → isDict v' = true → nameLe k k' = true := by
  intro ks
  induction ks with
  | nil => intro _ h; simp [firstDict] at h
  | cons q r ih =>
    intro hs h
    rw [List.pairwise_cons] at hs
    -- what the tail gives, once the head is known not to be a dictionary
    have tail : (∀ v', lookup q dir = some v' → isDict v' = false) → firstDict isDict dir r = some (k, v) →
        k ∈ q :: r ∧ lookup k dir = some v ∧ isDict v = true ∧
        ∀ k' ∈ q :: r, ∀ v', lookup k' dir = some v' → isDict v' = true → nameLe k k' = true := by
      intro hq h
      obtain ⟨hm, hl, hd, hmin⟩ := ih hs.2 h
      refine ⟨List.mem_cons_of_mem _ hm, hl, hd, ?_⟩
      intro k' hk' v' hl' hd'
      rcases List.mem_cons.mp hk' with e | hk'
      · subst e
        rw [hq v' hl'] at hd'
        exact absurd hd' (by simp)
      · exact hmin k' hk' v' hl' hd'
    simp only [firstDict] at h
    split at h
    · rename_i w hw
      split at h
      · rename_i hd
        cases h
        refine ⟨List.mem_cons_self, hw, hd, ?_⟩
        intro k' hk' v' _ _
        rcases List.mem_cons.mp hk' with e | hk'
        · rw [e]; exact nameLe_refl _
        · exact hs.1 k' hk'
      · rename_i hd
        refine tail ?_ h
        intro v' hl'
        rw [hw] at hl'
        cases hl'
        simpa using hd
    · rename_i hw
      refine tail ?_ h
      intro v' hl'
      rw [hw] at hl'
      cases hl'

theorem firstDict_none {V : Type} (isDict : V → Bool) (dir : List (Key × V)) :
    ∀ ks : List Key, firstDict isDict dir ks = none ↔ ∀ k ∈ ks, ∀ v, lookup k dir = some v → isDict v = false := by
  intro ks
  induction ks with
  | nil => simp [firstDict]
  | cons q r ih =>
    simp only [firstDict]
    split
    · rename_i w hw
      split
      · rename_i hd
        constructor
        · intro h; cases h
        · intro h
          have := h q List.mem_cons_self w hw
          rw [hd] at this
          cases this
      · rename_i hd
        rw [ih]
        constructor
        · intro h k hk v hl
          rcases List.mem_cons.mp hk with e | hk
          · subst e
            rw [hw] at hl
            cases hl
            simpa using hd
          · exact h k hk v hl
        · intro h k hk v hl
          exact h k (List.mem_cons_of_mem _ hk) v hl
    · rename_i hw
      rw [ih]
      constructor
      · intro h k hk v hl
        rcases List.mem_cons.mp hk with e | hk
        · subst e
          rw [hw] at hl
          cases hl
        · exact h k hk v hl
      · intro h k hk v hl
        exact h k (List.mem_cons_of_mem _ hk) v hl

/-- the loop only reads the directory through `lookup` -/
theorem firstDict_congr {V : Type} (isDict : V → Bool) (d₁ d₂ : List (Key × V)) (h : ∀ k, lookup k d₁ = lookup k d₂) :
    ∀ ks, firstDict isDict d₁ ks = firstDict isDict d₂ ks := by
  intro ks
  induction ks with
  | nil => rfl
  | cons q r ih => simp only [firstDict, h q, ih]

end PsVerif.Proofs.C17Select
