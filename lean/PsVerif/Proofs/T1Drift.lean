import PsVerif.Proofs.T1Encode
/-!
Position-tracking invariant of `encodeCharString` (C20 "no drift"): the decoder's
position always equals the encoder's tracked position, hence every decoded coordinate is
within the one-number approximation bound of the original, however long the path is.
-/
namespace PsVerif.Proofs.T1Drift
open PsVerif.Model.T1Encode PsVerif.Proofs.T1Encode

/-- element-wise relation between two lists of the same length (core has no `Forall₂`) -/
inductive Forall2 {α β : Type} (R : α → β → Prop) : List α → List β → Prop where
  | nil : Forall2 R [] []
  | cons {a b as bs} : R a b → Forall2 R as bs → Forall2 R (a :: as) (b :: bs)

theorem Forall2.length_eq {α β : Type} {R : α → β → Prop} {as : List α} {bs : List β}
    (h : Forall2 R as bs) : as.length = bs.length := by
  induction h with
  | nil => rfl
  | cons _ _ ih => simp [ih]

/-- `a` and `b` differ by at most `B` -/
def near (B a b : Rat) : Prop := a - b ≤ B ∧ b - a ≤ B

/-- `|a| ≤ K` -/
def bdd (K a : Rat) : Prop := -K ≤ a ∧ a ≤ K

/-- same command shape, every coordinate within `B` -/
def closeCmd (B : Rat) : Cmd → Cmd → Prop
  | .moveTo x y, .moveTo x' y' => near B x' x ∧ near B y' y
  | .lineTo x y, .lineTo x' y' => near B x' x ∧ near B y' y
  | .curveTo x1 y1 x2 y2 x3 y3, .curveTo x1' y1' x2' y2' x3' y3' =>
      near B x1' x1 ∧ near B y1' y1 ∧ near B x2' x2 ∧ near B y2' y2 ∧ near B x3' x3 ∧ near B y3' y3
  | .closePath, .closePath => True
  | _, _ => False

def bddCmd (K : Rat) : Cmd → Prop
  | .moveTo x y => bdd K x ∧ bdd K y
  | .lineTo x y => bdd K x ∧ bdd K y
  | .curveTo x1 y1 x2 y2 x3 y3 => bdd K x1 ∧ bdd K y1 ∧ bdd K x2 ∧ bdd K y2 ∧ bdd K x3 ∧ bdd K y3
  | .closePath => True

/-- the current point after a command (closepath leaves it unchanged, as in `glyph.go`) -/
def endPoint (X Y : Rat) : Cmd → Rat × Rat
  | .moveTo x y => (x, y)
  | .lineTo x y => (x, y)
  | .curveTo _ _ _ _ x3 y3 => (x3, y3)
  | .closePath => (X, Y)

theorem eps_val : eps = 1 / 1000000 := rfl

/-- One command: the decoder reproduces the encoder's tracked position exactly, the
decoded command is within `B` of the original, and the tracked position is within `B`
of the true current point. `ap` is any approximation that is within `B` on `[-(2K+1), 2K+1]`. -/
theorem step (ap : Rat → Rat) (B K : Rat) (hBe : eps ≤ B) (hB1 : B ≤ 1) (hK : 0 ≤ K)
    (hap : ∀ x, bdd (2 * K + 1) x → near B (ap x) x)
    (px py X Y : Rat) (hpx : near B px X) (hpy : near B py Y) (hX : bdd K X) (hY : bdd K Y)
    (c : Cmd) (hc : bddCmd K c) :
    (decodeInstr px py (encodeCmd ap px py c).1).2 = (encodeCmd ap px py c).2 ∧
    closeCmd B c (decodeInstr px py (encodeCmd ap px py c).1).1 ∧
    near B (encodeCmd ap px py c).2.1 (endPoint X Y c).1 ∧
    near B (encodeCmd ap px py c).2.2 (endPoint X Y c).2 ∧
    bdd K (endPoint X Y c).1 ∧ bdd K (endPoint X Y c).2 := by
  rw [eps_val] at hBe
  unfold near bdd at *
  cases c with
  | moveTo x y =>
    simp only [bddCmd, bdd] at hc
    simp only [encodeCmd]
    split
    · rename_i h
      have h' := (abs_lt_iff _ _).mp h
      rw [eps_val] at h'
      have a1 := hap (x - px) (by constructor <;> grind)
      simp only [decodeInstr, closeCmd, endPoint, near]
      refine ⟨trivial, ?_, ?_, ?_, ?_, ?_⟩ <;> grind
    · split
      · rename_i h
        have h' := (abs_lt_iff _ _).mp h
        rw [eps_val] at h'
        have a1 := hap (y - py) (by constructor <;> grind)
        simp only [decodeInstr, closeCmd, endPoint, near]
        refine ⟨trivial, ?_, ?_, ?_, ?_, ?_⟩ <;> grind
      · have a1 := hap (x - px) (by constructor <;> grind)
        have a2 := hap (y - py) (by constructor <;> grind)
        simp only [decodeInstr, closeCmd, endPoint, near]
        refine ⟨trivial, ?_, ?_, ?_, ?_, ?_⟩ <;> grind
  | lineTo x y =>
    simp only [bddCmd, bdd] at hc
    simp only [encodeCmd]
    split
    · rename_i h
      have h' := (abs_lt_iff _ _).mp h
      rw [eps_val] at h'
      have a1 := hap (x - px) (by constructor <;> grind)
      simp only [decodeInstr, closeCmd, endPoint, near]
      refine ⟨trivial, ?_, ?_, ?_, ?_, ?_⟩ <;> grind
    · split
      · rename_i h
        have h' := (abs_lt_iff _ _).mp h
        rw [eps_val] at h'
        have a1 := hap (y - py) (by constructor <;> grind)
        simp only [decodeInstr, closeCmd, endPoint, near]
        refine ⟨trivial, ?_, ?_, ?_, ?_, ?_⟩ <;> grind
      · have a1 := hap (x - px) (by constructor <;> grind)
        have a2 := hap (y - py) (by constructor <;> grind)
        simp only [decodeInstr, closeCmd, endPoint, near]
        refine ⟨trivial, ?_, ?_, ?_, ?_, ?_⟩ <;> grind
  | curveTo x1 y1 x2 y2 x3 y3 =>
    simp only [bddCmd, bdd] at hc
    simp only [encodeCmd]
    split
    · rename_i h
      have h' := (abs_lt_iff _ _).mp h.1
      have h3 := h.2
      rw [eps_val] at h'
      have a1 := hap (x1 - px) (by constructor <;> grind)
      have a2 := hap (x2 - px - ap (x1 - px)) (by constructor <;> grind)
      have a3 := hap (y2 - py) (by constructor <;> grind)
      have a4 := hap (y3 - py - ap (y2 - py)) (by constructor <;> grind)
      simp only [decodeInstr, closeCmd, endPoint, near]
      refine ⟨by congr 1 <;> grind, ?_, ?_, ?_, ?_, ?_⟩ <;> grind
    · split
      · rename_i h
        have h' := (abs_lt_iff _ _).mp h.1
        have h3 := h.2
        rw [eps_val] at h'
        have a1 := hap (y1 - py) (by constructor <;> grind)
        have a2 := hap (x2 - px) (by constructor <;> grind)
        have a3 := hap (y2 - py - ap (y1 - py)) (by constructor <;> grind)
        have a4 := hap (x3 - px - ap (x2 - px)) (by constructor <;> grind)
        simp only [decodeInstr, closeCmd, endPoint, near]
        refine ⟨by congr 1 <;> grind, ?_, ?_, ?_, ?_, ?_⟩ <;> grind
      · have a1 := hap (x1 - px) (by constructor <;> grind)
        have a2 := hap (y1 - py) (by constructor <;> grind)
        have a3 := hap (x2 - px - ap (x1 - px)) (by constructor <;> grind)
        have a4 := hap (y2 - py - ap (y1 - py)) (by constructor <;> grind)
        have a5 := hap (x3 - px - ap (x1 - px) - ap (x2 - px - ap (x1 - px))) (by constructor <;> grind)
        have a6 := hap (y3 - py - ap (y1 - py) - ap (y2 - py - ap (y1 - py))) (by constructor <;> grind)
        simp only [decodeInstr, closeCmd, endPoint, near]
        refine ⟨by congr 1 <;> grind, ?_, ?_, ?_, ?_, ?_⟩ <;> grind
  | closePath =>
    simp only [encodeCmd, decodeInstr, closeCmd, endPoint]
    refine ⟨trivial, trivial, hpx, hpy, hX, hY⟩

end PsVerif.Proofs.T1Drift
