import PsVerif.Model.Serialise
/-
Round trip  serialiser -> tokenizer  on the models (`Model/Serialise.lean`, `Model/Scanner.lean`),
for byte strings and names of ANY length.

Main results (restated in `Props/C04.lean`):

* `scanToken_stringPS` : from any scanner state with an empty peek buffer and eexec decoding off,
  `scanToken` on `stringPS bs ++ rest` (ANY `bs`, ANY `rest`) returns `Tok.str bs` and the state reached by
  consuming exactly the bytes of `stringPS bs` (`advs`), so `rest` is unread and nothing is peeked.
* `scanToken_namePS` : `scanToken` on `namePS n ++ d :: rest` with all bytes of `n` regular and `d` not
  regular returns the literal name; `d` is left in the peek buffer, `rest` unread.
* `scanToken_namePS_eof` : the same when `namePS n` is the whole remaining input.
* `fuel_suffices` : the fuel `readString` computes (`fuelOf`) covers the loop.

Per-byte lemmas: `step_other` (any byte but a parenthesis, at EVERY nesting level and for both forms),
`step_open`, `step_close`, `step_paren_esc`, `step_end`.
-/
namespace PsVerif.Proofs.ScanRoundTrip
open PsVerif.Model PsVerif.Model.Scan PsVerif.Model.Ser

/-- position bookkeeping of `Next` for byte `b` -/
def bump (s : Scanner) (b : UInt8) : Scanner :=
  let s := if s.crSeen && b == 10 then s
           else if b == 10 || b == 13 then { s with line := s.line + 1, col := 0 }
           else { s with col := s.col + 1 }
  { s with crSeen := (b == 13) }

/-- the scanner state after `Next` has delivered the first source byte `b` -/
def adv (s : Scanner) (b : UInt8) : Scanner := bump { s with src := s.src.tail } b

def advs (s : Scanner) (l : List UInt8) : Scanner := l.foldl adv s

def Ready (s : Scanner) : Prop := s.peek = [] ∧ s.eexec = 0

theorem next_cons (s : Scanner) (b : UInt8) (r : List UInt8) (hr : Ready s) (hs : s.src = b :: r) :
    next s = (.ok b, adv s b) := by
  obtain ⟨hp, he⟩ := hr
  obtain ⟨src, fault, peek, reg, eexec, r, line, col, crSeen, dsc, err⟩ := s
  simp only at hp he hs
  subst hp he hs
  cases err <;> cases reg <;> rfl

theorem adv_ready (s : Scanner) (b : UInt8) (hr : Ready s) : Ready (adv s b) := by
  obtain ⟨hp, he⟩ := hr
  unfold adv bump Ready
  dsimp only
  split
  · exact ⟨hp, he⟩
  · split <;> exact ⟨hp, he⟩

theorem adv_src (s : Scanner) (b : UInt8) : (adv s b).src = s.src.tail := by
  unfold adv bump
  dsimp only
  split
  · rfl
  · split <;> rfl

theorem bind_ok {α β : Type} (m : SM α) (k : α → SM β) (s s' : Scanner) (a : α) (h : m s = (.ok a, s')) :
    (m >>= k) s = k a s' := by
  simp [bind, ExceptT.bind, ExceptT.mk, StateT.bind, ExceptT.bindCont, h]

theorem step_next (fuel : Nat) (res : List UInt8) (level : Nat) (ign : Bool) (s : Scanner) (b : UInt8) (r : List UInt8)
   (hr : Ready s) (hs : s.src = b :: r) :
   readStringBody (fuel + 1) res level ign s =
   (if ign && b == 10 then readStringBody fuel res level false
    else if b == 40 then readStringBody fuel (res ++ [b]) (level + 1) false
    else if b == 41 then
      if level == 1 then pure res else readStringBody fuel (res ++ [b]) (level - 1) false
    else if b == 92 then do
      let e ← next
      if e == 110 then readStringBody fuel (res ++ [10]) level false
      else if e == 114 then readStringBody fuel (res ++ [13]) level false
      else if e == 116 then readStringBody fuel (res ++ [9]) level false
      else if e == 98 then readStringBody fuel (res ++ [8]) level false
      else if e == 102 then readStringBody fuel (res ++ [12]) level false
      else if e == 40 || e == 41 || e == 92 then readStringBody fuel (res ++ [e]) level false
      else if e == 10 then readStringBody fuel res level false
      else if e == 13 then readStringBody fuel res level true
      else if 48 ≤ e && e ≤ 55 then do
        let oct ← readOctal 2 (e - 48)
        readStringBody fuel (res ++ [oct]) level false
      else readStringBody fuel (res ++ [e]) level false
    else if b == 13 then readStringBody fuel (res ++ [10]) level true
    else readStringBody fuel (res ++ [b]) level false : SM (List UInt8)) (adv s b) := by
  conv => lhs; unfold readStringBody
  exact bind_ok _ _ _ _ _ (next_cons s b r hr hs)

theorem adv_src_cons (s : Scanner) (b : UInt8) (r : List UInt8) (hs : s.src = b :: r) : (adv s b).src = r := by
  rw [adv_src, hs]; rfl

theorem advs_cons (s : Scanner) (b : UInt8) (l : List UInt8) : advs s (b :: l) = advs (adv s b) l := rfl
theorem advs_nil (s : Scanner) : advs s [] = s := rfl
theorem advs_append (s : Scanner) (l m : List UInt8) : advs s (l ++ m) = advs (advs s l) m := by
  simp [advs, List.foldl_append]

theorem advs_ready (s : Scanner) (l : List UInt8) (hr : Ready s) : Ready (advs s l) := by
  induction l generalizing s with
  | nil => exact hr
  | cons b l ih => exact ih _ (adv_ready s b hr)

theorem advs_src (s : Scanner) (l t : List UInt8) (hs : s.src = l ++ t) : (advs s l).src = t := by
  induction l generalizing s with
  | nil => simpa [advs] using hs
  | cons b l ih => exact ih _ (adv_src_cons s b (l ++ t) hs)

/-- one byte other than a parenthesis: its escape is consumed with one unit of fuel, the byte is appended,
the nesting level is unchanged -/
theorem step_other (bal : Bool) (c : UInt8) (h40 : c ≠ 40) (h41 : c ≠ 41) (fuel : Nat) (res : List UInt8) (level : Nat)
    (s : Scanner) (t : List UInt8) (hr : Ready s) (hs : s.src = escByte bal c ++ t) :
    readStringBody (fuel + 1) res level false s =
      readStringBody fuel (res ++ [c]) level false (advs s (escByte bal c)) := by
  by_cases h92 : c = 92
  · subst h92
    have e : escByte bal 92 = [92, 92] := by simp [escByte]
    rw [e] at hs ⊢
    rw [step_next fuel res level false s 92 (92 :: t) hr hs]
    simp only [advs_cons, advs_nil]
    have := next_cons (adv s 92) 92 t (adv_ready _ _ hr) (adv_src_cons _ _ _ hs)
    simp [bind_ok _ _ _ _ _ this]
  · by_cases h13 : c = 13
    · subst h13
      have e : escByte bal 13 = [92, 114] := by simp [escByte]
      rw [e] at hs ⊢
      rw [step_next fuel res level false s 92 (114 :: t) hr hs]
      simp only [advs_cons, advs_nil]
      have := next_cons (adv s 92) 114 t (adv_ready _ _ hr) (adv_src_cons _ _ _ hs)
      simp [bind_ok _ _ _ _ _ this]
    · have e : escByte bal c = [c] := by simp [escByte, h92, h40, h41, h13]
      rw [e] at hs ⊢
      rw [step_next fuel res level false s c t hr hs]
      simp [advs_cons, advs_nil, h92, h40, h41, h13]

/-- an opening parenthesis of a balanced string -/
theorem step_open (fuel : Nat) (res : List UInt8) (level : Nat)
    (s : Scanner) (t : List UInt8) (hr : Ready s) (hs : s.src = escByte true 40 ++ t) :
    readStringBody (fuel + 1) res level false s =
      readStringBody fuel (res ++ [40]) (level + 1) false (advs s (escByte true 40)) := by
  have e : escByte true 40 = [40] := by simp [escByte]
  rw [e] at hs ⊢
  rw [step_next fuel res level false s 40 t hr hs]
  simp [advs_cons, advs_nil]

/-- a closing parenthesis of a balanced string, at nesting level above 1 -/
theorem step_close (fuel : Nat) (res : List UInt8) (level : Nat) (hl : level ≠ 1)
    (s : Scanner) (t : List UInt8) (hr : Ready s) (hs : s.src = escByte true 41 ++ t) :
    readStringBody (fuel + 1) res level false s =
      readStringBody fuel (res ++ [41]) (level - 1) false (advs s (escByte true 41)) := by
  have e : escByte true 41 = [41] := by simp [escByte]
  rw [e] at hs ⊢
  rw [step_next fuel res level false s 41 t hr hs]
  simp [advs_cons, advs_nil, hl]

/-- a parenthesis of an unbalanced string (escaped) -/
theorem step_paren_esc (c : UInt8) (hc : c = 40 ∨ c = 41) (fuel : Nat) (res : List UInt8) (level : Nat)
    (s : Scanner) (t : List UInt8) (hr : Ready s) (hs : s.src = escByte false c ++ t) :
    readStringBody (fuel + 1) res level false s =
      readStringBody fuel (res ++ [c]) level false (advs s (escByte false c)) := by
  have e : escByte false c = [92, c] := by rcases hc with h | h <;> subst h <;> simp [escByte]
  rw [e] at hs ⊢
  rw [step_next fuel res level false s 92 (c :: t) hr hs]
  simp only [advs_cons, advs_nil]
  have := next_cons (adv s 92) c t (adv_ready _ _ hr) (adv_src_cons _ _ _ hs)
  rcases hc with h | h <;> subst h <;> simp [bind_ok _ _ _ _ _ this]

/-- the closing parenthesis that ends the string -/
theorem step_end (fuel : Nat) (res : List UInt8) (s : Scanner) (t : List UInt8) (hr : Ready s) (hs : s.src = 41 :: t) :
    readStringBody (fuel + 1) res 1 false s = (.ok res, adv s 41) := by
  rw [step_next fuel res 1 false s 41 t hr hs]
  simp
  rfl

theorem escBytes_cons (bal : Bool) (c : UInt8) (l : List UInt8) :
    escBytes bal (c :: l) = escByte bal c ++ escBytes bal l := rfl

/-- strings whose parentheses are all escaped: the level never changes -/
theorem loop_unbal (l : List UInt8) : ∀ (fuel : Nat) (res : List UInt8) (level : Nat) (s : Scanner) (t : List UInt8),
    Ready s → s.src = escBytes false l ++ t →
    readStringBody (fuel + l.length) res level false s =
      readStringBody fuel (res ++ l) level false (advs s (escBytes false l)) := by
  induction l with
  | nil => intro fuel res level s t _ _; simp [escBytes, advs]
  | cons c l ih =>
    intro fuel res level s t hr hs
    rw [escBytes_cons, List.append_assoc] at hs
    show readStringBody ((fuel + l.length) + 1) res level false s = _
    have h1 : readStringBody ((fuel + l.length) + 1) res level false s =
        readStringBody (fuel + l.length) (res ++ [c]) level false (advs s (escByte false c)) := by
      by_cases hc : c = 40 ∨ c = 41
      · exact step_paren_esc c hc _ _ _ _ _ hr hs
      · have h40 : c ≠ 40 := fun h => hc (Or.inl h)
        have h41 : c ≠ 41 := fun h => hc (Or.inr h)
        exact step_other false c h40 h41 _ _ _ _ _ hr hs
    rw [h1, ih fuel (res ++ [c]) level _ t (advs_ready _ _ hr) (advs_src _ _ _ hs), escBytes_cons, advs_append]
    simp

/-- strings with balanced parentheses written as they are: the tokenizer's nesting level follows the
serialiser's count -/
theorem loop_bal (l : List UInt8) : ∀ (k : Int) (fuel : Nat) (res : List UInt8) (s : Scanner) (t : List UInt8),
    0 ≤ k → parenLevel k l = 0 → Ready s → s.src = escBytes true l ++ t →
    readStringBody (fuel + l.length) res (k.toNat + 1) false s =
      readStringBody fuel (res ++ l) 1 false (advs s (escBytes true l)) := by
  induction l with
  | nil =>
    intro k fuel res s t _ hp _ _
    simp only [parenLevel] at hp
    subst hp
    simp [escBytes, advs]
  | cons c l ih =>
    intro k fuel res s t hk hp hr hs
    rw [escBytes_cons, List.append_assoc] at hs
    show readStringBody ((fuel + l.length) + 1) res (k.toNat + 1) false s = _
    have hr' := advs_ready s (escByte true c) hr
    have hs' := advs_src _ _ _ hs
    rw [escBytes_cons, advs_append]
    by_cases h40 : c = 40
    · subst h40
      have hp' : parenLevel (k + 1) l = 0 := by simpa [parenLevel] using hp
      rw [step_open _ _ _ _ _ hr hs]
      have := ih (k + 1) fuel (res ++ [40]) _ t (by omega) hp' hr' hs'
      have e : (k + 1).toNat + 1 = k.toNat + 1 + 1 := by omega
      rw [e] at this
      rw [this]; simp
    · by_cases h41 : c = 41
      · subst h41
        have hk1 : ¬ (k - 1 < 0) := by
          intro h
          simp [parenLevel, h] at hp
          omega
        have hp' : parenLevel (k - 1) l = 0 := by simpa [parenLevel, hk1] using hp
        rw [step_close _ _ _ (by omega) _ _ hr hs]
        have := ih (k - 1) fuel (res ++ [41]) _ t (by omega) hp' hr' hs'
        have e : (k - 1).toNat + 1 = k.toNat + 1 - 1 := by omega
        rw [e] at this
        rw [this]; simp
      · have hp' : parenLevel k l = 0 := by simpa [parenLevel, h40, h41] using hp
        rw [step_other true c h40 h41 _ _ _ _ _ hr hs]
        rw [ih k fuel (res ++ [c]) _ t hk hp' hr' hs']; simp

/-- the body of `ReadString` on the body written by `String.PS` -/
theorem body_roundtrip (bs rest : List UInt8) (fuel : Nat) (s : Scanner) (hr : Ready s)
    (hs : s.src = escBytes (balanced bs) bs ++ 41 :: rest) :
    readStringBody (fuel + 1 + bs.length) [] 1 false s =
      (.ok bs, advs s (escBytes (balanced bs) bs ++ [41])) := by
  have hfin : ∀ s', Ready s' → s'.src = 41 :: rest →
      readStringBody (fuel + 1) ([] ++ bs) 1 false s' = (.ok bs, advs s' [41]) := by
    intro s' h1 h2
    rw [step_end fuel _ s' rest h1 h2]; rfl
  rw [advs_append]
  cases hb : balanced bs with
  | false =>
    rw [hb] at hs
    rw [loop_unbal bs (fuel + 1) [] 1 s _ hr hs]
    exact hfin _ (advs_ready _ _ hr) (advs_src _ _ _ hs)
  | true =>
    rw [hb] at hs
    have hp : parenLevel 0 bs = 0 := by simpa [balanced] using hb
    have := loop_bal bs 0 (fuel + 1) [] s _ (by omega) hp hr hs
    rw [show (0 : Int).toNat + 1 = 1 from rfl] at this
    rw [this]
    exact hfin _ (advs_ready _ _ hr) (advs_src _ _ _ hs)

/-- `ScanToken` on input that starts with `(`: the parenthesis is peeked, then taken by `ReadString` -/
theorem scanToken_paren (s : Scanner) (r : List UInt8) (hr : Ready s) (hs : s.src = 40 :: r) :
    scanToken s = (do pure (.str (← readStringBody (fuelOf (adv s 40)) [] 1 false)) : SM Tok) (adv s 40) := by
  obtain ⟨hp, he⟩ := hr
  obtain ⟨src, fault, peek, reg, eexec, r, line, col, crSeen, dsc, err⟩ := s
  simp only at hp he hs
  subst hp he hs
  cases err <;> cases reg <;> rfl

theorem escBytes_length (bal : Bool) (l : List UInt8) : l.length ≤ (escBytes bal l).length := by
  induction l with
  | nil => simp [escBytes]
  | cons c l ih =>
    have : 1 ≤ (escByte bal c).length := by
      unfold escByte; cases bal <;> (repeat' split) <;> simp
    simp only [escBytes_cons, List.length_append, List.length_cons]
    omega

/-- the fuel `ReadString` hands to its loop suffices for the text written by `String.PS` -/
theorem fuel_suffices (s : Scanner) (bs rest : List UInt8) (hs : s.src = escBytes (balanced bs) bs ++ 41 :: rest) :
    ∃ f, fuelOf s = f + 1 + bs.length := by
  have := escBytes_length (balanced bs) bs
  refine ⟨fuelOf s - 1 - bs.length, ?_⟩
  simp only [fuelOf, hs, List.length_append, List.length_cons]
  omega

/-- **string round trip** on the scanner model: from any state with an empty peek buffer and eexec
decoding off (in particular a fresh scanner), `ScanToken` on `String(bs).PS()` followed by ANY bytes
`rest` returns the string token with exactly the bytes `bs`; the state afterwards is the one reached by
consuming exactly the bytes of `String(bs).PS()` -/
theorem scanToken_stringPS (s : Scanner) (bs rest : List UInt8) (hr : Ready s) (hs : s.src = stringPS bs ++ rest) :
    scanToken s = (.ok (.str bs), advs s (stringPS bs)) := by
  have hs0 : s.src = 40 :: (escBytes (balanced bs) bs ++ 41 :: rest) := by
    rw [hs]; simp [stringPS]
  rw [scanToken_paren s _ hr hs0]
  have hr1 := adv_ready s 40 hr
  have hs1 := adv_src_cons s 40 _ hs0
  obtain ⟨f, hf⟩ := fuel_suffices (adv s 40) bs rest hs1
  rw [hf]
  have := body_roundtrip bs rest f (adv s 40) hr1 hs1
  rw [bind_ok _ _ _ _ _ this]
  rfl

/-! ### names -/

/-- the state after `Peek` has moved the first source byte `d` into the peek buffer -/
def stopAt (s : Scanner) (d : UInt8) : Scanner := { s with src := s.src.tail, peek := [d] }

theorem peek_cons (s : Scanner) (b : UInt8) (r : List UInt8) (hr : Ready s) (hs : s.src = b :: r) :
    attempt peek s = (.ok (.ok b), stopAt s b) := by
  obtain ⟨hp, he⟩ := hr
  obtain ⟨src, fault, peek, reg, eexec, r, line, col, crSeen, dsc, err⟩ := s
  simp only at hp he hs
  subst hp he hs
  cases err <;> cases reg <;> rfl

theorem skip_peeked (s : Scanner) (b : UInt8) (hr : Ready s) :
    skipByte (stopAt s b) = (.ok (), adv s b) := by
  obtain ⟨hp, he⟩ := hr
  obtain ⟨src, fault, peek, reg, eexec, r, line, col, crSeen, dsc, err⟩ := s
  simp only at hp he
  subst hp he
  cases err <;> cases reg <;> rfl

theorem readRegular_step (fuel : Nat) (acc : List UInt8) (s : Scanner) (b : UInt8) (r : List UInt8)
    (hr : Ready s) (hs : s.src = b :: r) :
    readRegular (fuel + 1) acc s =
      (if !isRegular b then pure acc else do skipByte; readRegular fuel (acc ++ [b]) : SM (List UInt8)) (stopAt s b) := by
  conv => lhs; unfold readRegular
  rw [bind_ok _ _ _ _ _ (peek_cons s b r hr hs)]

theorem readRegular_loop (n : List UInt8) : ∀ (fuel : Nat) (acc : List UInt8) (s : Scanner) (d : UInt8) (rest : List UInt8),
    Ready s → s.src = n ++ d :: rest → n.all isRegular = true → isRegular d = false →
    readRegular (fuel + 1 + n.length) acc s = (.ok (acc ++ n), stopAt (advs s n) d) := by
  induction n with
  | nil =>
    intro fuel acc s d rest hr hs _ hd
    rw [List.nil_append] at hs
    show readRegular (fuel + 1) acc s = _
    rw [readRegular_step fuel acc s d rest hr hs]
    simp [hd, advs]
    rfl
  | cons b n ih =>
    intro fuel acc s d rest hr hs hn hd
    rw [List.cons_append] at hs
    have hb : isRegular b = true := by simp at hn; exact hn.1
    have hn' : n.all isRegular = true := by simp at hn ⊢; exact hn.2
    show readRegular ((fuel + 1 + n.length) + 1) acc s = _
    rw [readRegular_step _ acc s b _ hr hs]
    simp only [hb, Bool.not_true, Bool.false_eq_true, if_false]
    rw [bind_ok _ _ _ _ _ (skip_peeked s b hr)]
    rw [ih fuel (acc ++ [b]) (adv s b) d rest (adv_ready _ _ hr) (adv_src_cons _ _ _ hs) hn' hd, advs_cons]
    simp

/-- `ScanToken` on input that starts with `/` -/
theorem scanToken_slash (s : Scanner) (r : List UInt8) (hr : Ready s) (hs : s.src = 47 :: r) :
    scanToken s = (do
      let name ← readRegular (fuelOf (adv s 47)) []
      pure (.obj (.name (bytesToString name))) : SM Tok) (adv s 47) := by
  obtain ⟨hp, he⟩ := hr
  obtain ⟨src, fault, peek, reg, eexec, r, line, col, crSeen, dsc, err⟩ := s
  simp only at hp he hs
  subst hp he hs
  cases err <;> cases reg <;> rfl

/-- **name round trip** on the scanner model: `ScanToken` on `Name(n).PS()` followed by any byte `d` that
is not a regular character (white space or a delimiter) and ANY bytes `rest` returns the literal name
`n`; exactly the bytes of `Name(n).PS()` are consumed, `d` sits in the peek buffer, `rest` is unread.
`n` may be empty (`/` reads back as the empty name). -/
theorem scanToken_namePS (s : Scanner) (n : List UInt8) (d : UInt8) (rest : List UInt8) (hr : Ready s)
    (hn : n.all isRegular = true) (hd : isRegular d = false) (hs : s.src = namePS n ++ d :: rest) :
    scanToken s = (.ok (.obj (.name (bytesToString n))), stopAt (advs s (namePS n)) d) := by
  have hs0 : s.src = 47 :: (n ++ d :: rest) := by rw [hs]; simp [namePS]
  rw [scanToken_slash s _ hr hs0]
  have hr1 := adv_ready s 47 hr
  have hs1 := adv_src_cons s 47 _ hs0
  have hf : fuelOf (adv s 47) = (fuelOf (adv s 47) - 1 - n.length) + 1 + n.length := by
    simp only [fuelOf, hs1, List.length_append, List.length_cons]
    omega
  rw [hf]
  have := readRegular_loop n (fuelOf (adv s 47) - 1 - n.length) [] (adv s 47) d rest hr1 hs1 hn hd
  rw [bind_ok _ _ _ _ _ this]
  rfl

/-! ### frame: what consuming bytes does not touch -/

theorem adv_frame (s : Scanner) (b : UInt8) :
    (adv s b).fault = s.fault ∧ (adv s b).peek = s.peek ∧ (adv s b).regurgitate = s.regurgitate ∧
    (adv s b).eexec = s.eexec ∧ (adv s b).r = s.r ∧ (adv s b).dsc = s.dsc ∧ (adv s b).err = s.err := by
  unfold adv bump
  dsimp only
  split
  · simp
  · split <;> simp

theorem advs_frame (s : Scanner) (l : List UInt8) :
    (advs s l).fault = s.fault ∧ (advs s l).peek = s.peek ∧ (advs s l).regurgitate = s.regurgitate ∧
    (advs s l).eexec = s.eexec ∧ (advs s l).r = s.r ∧ (advs s l).dsc = s.dsc ∧ (advs s l).err = s.err := by
  induction l generalizing s with
  | nil => simp [advs]
  | cons b l ih =>
    rw [advs_cons]
    obtain ⟨h1, h2, h3, h4, h5, h6, h7⟩ := ih (adv s b)
    obtain ⟨g1, g2, g3, g4, g5, g6, g7⟩ := adv_frame s b
    exact ⟨h1.trans g1, h2.trans g2, h3.trans g3, h4.trans g4, h5.trans g5, h6.trans g6, h7.trans g7⟩

/-! ### `bytesToString` loses nothing: the literal name determines its bytes -/

def stringToBytes (s : String) : List UInt8 := s.toList.map (fun c => UInt8.ofNat c.toNat)

theorem charOfByte (b : UInt8) : UInt8.ofNat (Char.ofNat b.toNat).toNat = b := by
  have h : b.toNat < 256 := b.toNat_lt
  have hv : b.toNat.isValidChar := by left; unfold Nat.isValidChar at *; omega
  rw [Char.ofNat, dif_pos hv]
  show UInt8.ofNat (Char.ofNatAux b.toNat hv).val.toNat = b
  simp [Char.ofNatAux]

theorem stringToBytes_bytesToString (bs : List UInt8) : stringToBytes (bytesToString bs) = bs := by
  simp [stringToBytes, bytesToString, List.map_map, Function.comp_def, charOfByte]

theorem bytesToString_injective (a b : List UInt8) (h : bytesToString a = bytesToString b) : a = b := by
  rw [← stringToBytes_bytesToString a, h, stringToBytes_bytesToString]

/-! ### a name at the very end of the input -/

theorem readRegular_eof (fuel : Nat) (acc : List UInt8) (s : Scanner) (hr : Ready s) (hs : s.src = [])
    (he : s.err = none) (hf : s.fault = none) :
    readRegular (fuel + 1) acc s = (.ok acc, { s with err := some .eof }) := by
  obtain ⟨hp, hx⟩ := hr
  obtain ⟨src, fault, peek, reg, eexec, r, line, col, crSeen, dsc, err⟩ := s
  simp only at hp hx hs he hf
  subst hp hx hs he hf
  cases reg <;> rfl

theorem readRegular_loop_eof (n : List UInt8) : ∀ (fuel : Nat) (acc : List UInt8) (s : Scanner),
    Ready s → s.src = n → s.err = none → s.fault = none → n.all isRegular = true →
    readRegular (fuel + 1 + n.length) acc s = (.ok (acc ++ n), { advs s n with err := some .eof }) := by
  induction n with
  | nil =>
    intro fuel acc s hr hs he hf _
    show readRegular (fuel + 1) acc s = _
    rw [readRegular_eof fuel acc s hr hs he hf]
    simp [advs]
  | cons b n ih =>
    intro fuel acc s hr hs he hf hn
    have hb : isRegular b = true := by simp at hn; exact hn.1
    have hn' : n.all isRegular = true := by simp at hn ⊢; exact hn.2
    show readRegular ((fuel + 1 + n.length) + 1) acc s = _
    rw [readRegular_step _ acc s b _ hr hs]
    simp only [hb, Bool.not_true, Bool.false_eq_true, if_false]
    rw [bind_ok _ _ _ _ _ (skip_peeked s b hr)]
    obtain ⟨g1, _, _, _, _, _, g7⟩ := adv_frame s b
    rw [ih fuel (acc ++ [b]) (adv s b) (adv_ready _ _ hr) (adv_src_cons _ _ _ hs) (g7.trans he) (g1.trans hf) hn', advs_cons]
    simp

/-- name round trip when `Name(n).PS()` is the whole remaining input (no fault injected): the
tokenizer stops at end of input, which it records as its sticky error -/
theorem scanToken_namePS_eof (s : Scanner) (n : List UInt8) (hr : Ready s) (he : s.err = none) (hf : s.fault = none)
    (hn : n.all isRegular = true) (hs : s.src = namePS n) :
    scanToken s = (.ok (.obj (.name (bytesToString n))), { advs s (namePS n) with err := some .eof }) := by
  have hs0 : s.src = 47 :: n := by rw [hs]; rfl
  rw [scanToken_slash s _ hr hs0]
  have hr1 := adv_ready s 47 hr
  have hs1 := adv_src_cons s 47 _ hs0
  obtain ⟨g1, _, _, _, _, _, g7⟩ := adv_frame s 47
  have hfu : fuelOf (adv s 47) = (fuelOf (adv s 47) - 1 - n.length) + 1 + n.length := by
    simp only [fuelOf, hs1]
    omega
  rw [hfu]
  have := readRegular_loop_eof n (fuelOf (adv s 47) - 1 - n.length) [] (adv s 47) hr1 hs1 (g7.trans he) (g1.trans hf) hn
  rw [bind_ok _ _ _ _ _ this]
  rfl

#print axioms scanToken_stringPS
#print axioms scanToken_namePS
#print axioms scanToken_namePS_eof
#print axioms fuel_suffices
#print axioms bytesToString_injective
#print axioms advs_frame

end PsVerif.Proofs.ScanRoundTrip
