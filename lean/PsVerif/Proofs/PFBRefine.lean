import PsVerif.Props.C14
namespace PsVerif.Proofs.PFBRefine
open PsVerif.Model.PFB

structure Seg where
  tp : Nat
  data : List UInt8

def le32bytes (n : Nat) : List UInt8 :=
  [UInt8.ofNat n, UInt8.ofNat (n / 256), UInt8.ofNat (n / 65536), UInt8.ofNat (n / 16777216)]

def frame : List Seg → List UInt8
  | [] => []
  | s :: ss => 0x80 :: UInt8.ofNat s.tp :: (le32bytes s.data.length ++ (s.data ++ frame ss))

def specOut : List Seg → List UInt8
  | [] => []
  | s :: ss => (if s.tp = 2 then hexLower s.data else s.data) ++ specOut ss

def WF (segs : List Seg) : Prop :=
  ∀ s ∈ segs, (s.tp = 1 ∨ s.tp = 2) ∧ s.data.length < 4294967296

def TailOK (tl : List UInt8) : Prop := tl = [] ∨ ∃ g, tl = 0x80 :: 3 :: g

/-! ## `io.ReadFull` -/

theorem wantOf_bounds (sc : List Nat) (k : Nat) (hk : 0 < k) : 1 ≤ wantOf sc k ∧ wantOf sc k ≤ k := by
  unfold wantOf
  cases sc with
  | nil => simp only; omega
  | cons w t => simp only; omega

theorem wantOf_zero (sc : List Nat) : wantOf sc 0 = 0 := by
  unfold wantOf
  cases sc with
  | nil => rfl
  | cons w t => simp

theorem readFull_gen : ∀ (fuel k : Nat) (src acc : List UInt8) (sc : List Nat), k < fuel →
    (readFull fuel src sc k acc).1 = acc ++ src.take k ∧ (readFull fuel src sc k acc).2.1 = src.drop k := by
  intro fuel
  induction fuel with
  | zero => intro k src acc sc h; omega
  | succ f ih =>
    intro k src acc sc hf
    unfold readFull
    by_cases h0 : k = 0
    · subst h0; simp
    · have hk0 : (k == 0) = false := by simp [h0]
      simp only [hk0, Bool.false_eq_true, if_false, rawRead]
      have hw1 := wantOf_bounds sc k (by omega)
      obtain ⟨want, hwe⟩ : ∃ w, wantOf sc k = w := ⟨_, rfl⟩
      simp only [hwe] at hw1 ⊢
      cases src with
      | nil => simp
      | cons x xs =>
        have hne : (List.take want (x :: xs)).isEmpty = false := by
          cases want with
          | zero => omega
          | succ w => simp
        simp only [hne, Bool.false_eq_true, if_false, List.length_take]
        have hpos : 0 < (x :: xs).length := by simp
        generalize x :: xs = src at hpos ⊢
        have := ih (k - min want src.length) (src.drop want) (acc ++ src.take want) sc.tail (by omega)
        rw [this.1, this.2]
        by_cases hle : want ≤ src.length
        · have hmin : min want src.length = want := by omega
          rw [hmin]
          constructor
          · rw [List.append_assoc]
            congr 1
            rw [← List.take_add]
            congr 1; omega
          · rw [List.drop_drop]; congr 1; omega
        · have h1 : src.drop want = [] := List.drop_eq_nil_of_le (by omega)
          have h2 : src.take want = src := List.take_of_length_le (by omega)
          have h3 : src.take k = src := List.take_of_length_le (by omega)
          have h4 : src.drop k = [] := List.drop_eq_nil_of_le (by omega)
          simp [h1, h2, h3, h4]

/-! ## hexadecimal expansion -/

theorem hexLower_append (a b : List UInt8) : hexLower (a ++ b) = hexLower a ++ hexLower b := by
  induction a with
  | nil => rfl
  | cons x xs ih => simp [hexLower, ih]

theorem hexLower_take (bs : List UInt8) (k : Nat) : (hexLower bs).take (2 * k) = hexLower (bs.take k) := by
  induction bs generalizing k with
  | nil => simp [hexLower]
  | cons x xs ih =>
    cases k with
    | zero => simp [hexLower]
    | succ k =>
      have : 2 * (k + 1) = 2 * k + 1 + 1 := by omega
      rw [this]
      simp [hexLower, ih]

theorem hexLower_drop (bs : List UInt8) (k : Nat) : (hexLower bs).drop (2 * k) = hexLower (bs.drop k) := by
  induction bs generalizing k with
  | nil => simp [hexLower]
  | cons x xs ih =>
    cases k with
    | zero => simp [hexLower]
    | succ k =>
      have : 2 * (k + 1) = 2 * k + 1 + 1 := by omega
      rw [this]
      simp [hexLower, ih]

/-- all but the last nibble, then the parked nibble -/
theorem hexLower_park (bs : List UInt8) (h : bs ≠ []) :
    hexLower bs = (hexLower bs).take (2 * bs.length - 1) ++ [hexEncode (bs.getLast! &&& 0x0f)] := by
  induction bs with
  | nil => exact absurd rfl h
  | cons b bs ih =>
    cases bs with
    | nil => simp [hexLower]
    | cons c cs =>
      have ih' := ih (by simp)
      have e : 2 * (b :: c :: cs).length - 1 = (2 * (c :: cs).length - 1) + 1 + 1 := by
        simp only [List.length_cons]; omega
      rw [e]
      have hl : (b :: c :: cs).getLast! = (c :: cs).getLast! := by
        simp [List.getLast!]
      rw [hl]
      conv => lhs; unfold hexLower
      conv => rhs; unfold hexLower
      simp only [List.take_succ_cons, List.cons_append]
      rw [← ih']

/-! ## single steps of the loop -/

theorem loop_zero (fuel : Nat) (st : St) (out : List UInt8) : readLoop fuel st 0 out = (out, none, st) := by
  cases fuel <;> simp [readLoop]

theorem loop_end (fuel : Nat) (st : St) (n : Nat) (out : List UInt8) (hs : st.state = 3) (hn : 0 < n) :
    readLoop (fuel + 1) st n out = (out, some .eof, st) := by
  unfold readLoop
  have hn0 : (n == 0) = false := by simp; omega
  simp [hn0, hs]

theorem le32_bytes (n : Nat) (h : n < 4294967296) :
    le32 (UInt8.ofNat n) (UInt8.ofNat (n / 256)) (UInt8.ofNat (n / 65536)) (UInt8.ofNat (n / 16777216)) = n := by
  simp only [le32, UInt8.toNat_ofNat']
  omega

theorem step_header (tp b2 b3 b4 b5 : UInt8) (h1 : tp ≠ 0) (h3 : tp ≤ 3) (more : List UInt8) (sc : List Nat)
    (l0 : Nat) (t : UInt8) (n fuel : Nat) (out : List UInt8) (hn : 0 < n) :
    ∃ sc', readLoop (fuel + 1)
        { src := 0x80 :: tp :: b2 :: b3 :: b4 :: b5 :: more, sched := sc, state := 0, len := l0, tail := t } n out =
      readLoop fuel { src := more, sched := sc', state := tp.toNat, len := le32 b2 b3 b4 b5, tail := t } n out := by
  conv => enter [1, sched', 1]; unfold readLoop
  have hn0 : (n == 0) = false := by simp; omega
  simp only [hn0, Bool.false_eq_true, if_false]
  have h6 := readFull_gen 7 6 (0x80 :: tp :: b2 :: b3 :: b4 :: b5 :: more) [] sc (by omega)
  generalize readFull 7 (0x80 :: tp :: b2 :: b3 :: b4 :: b5 :: more) sc 6 [] = p at h6
  obtain ⟨buf, src', sched'⟩ := p
  simp only [List.nil_append] at h6
  obtain ⟨hb, hs⟩ := h6
  subst hb hs
  refine ⟨sched', ?_⟩
  have hgt : ¬ tp > 3 := by
    intro h; exact absurd h3 (UInt8.not_le.mpr h)
  have hlt : ¬ (3 : UInt8) < tp := hgt
  simp [h1, hlt]

theorem step_end (g : List UInt8) (sc : List Nat) (l0 : Nat) (t : UInt8) (n fuel : Nat) (out : List UInt8)
    (hn : 0 < n) :
    ∃ st', readLoop (fuel + 2) { src := 0x80 :: 3 :: g, sched := sc, state := 0, len := l0, tail := t } n out =
      (out, some .eof, st') := by
  conv => enter [1, st', 1]; unfold readLoop
  have hn0 : (n == 0) = false := by simp; omega
  simp only [hn0, Bool.false_eq_true, if_false]
  have h6 := readFull_gen 7 6 (0x80 :: 3 :: g) [] sc (by omega)
  generalize readFull 7 (0x80 :: 3 :: g) sc 6 [] = p at h6
  obtain ⟨buf, src', sched'⟩ := p
  simp only [List.nil_append] at h6
  obtain ⟨hb, hs⟩ := h6
  subst hb hs
  simp
  exact ⟨_, loop_end _ _ _ _ rfl hn⟩

theorem step_empty (sc : List Nat) (l0 : Nat) (t : UInt8) (n fuel : Nat) (out : List UInt8) (hn : 0 < n) :
    ∃ st', readLoop (fuel + 1) { src := [], sched := sc, state := 0, len := l0, tail := t } n out =
      (out, some .eof, st') := by
  conv => enter [1, st', 1]; unfold readLoop
  have hn0 : (n == 0) = false := by simp; omega
  simp only [hn0, Bool.false_eq_true, if_false]
  have h6 := readFull_gen 7 6 [] [] sc (by omega)
  generalize readFull 7 [] sc 6 [] = p at h6
  obtain ⟨buf, src', sched'⟩ := p
  simp only [List.nil_append] at h6
  obtain ⟨hb, hs⟩ := h6
  subst hb hs
  simp

theorem step_tail (src : List UInt8) (sc : List Nat) (len : Nat) (t : UInt8) (n fuel : Nat) (out : List UInt8)
    (hn : 0 < n) :
    readLoop (fuel + 1) { src := src, sched := sc, state := -1, len := len, tail := t } n out =
      readLoop fuel { src := src, sched := sc, state := if len = 0 then 0 else 2, len := len, tail := t }
        (n - 1) (out ++ [t]) := by
  conv => lhs; unfold readLoop
  have hn0 : (n == 0) = false := by simp; omega
  simp [hn0]

theorem step_text (src : List UInt8) (sc : List Nat) (len : Nat) (t : UInt8) (n fuel : Nat) (out : List UInt8)
    (hn : 0 < n) (hlen : len ≤ src.length) :
    ∃ j sc', (0 < len → 0 < j) ∧ j ≤ n ∧ j ≤ len ∧
      readLoop (fuel + 1) { src := src, sched := sc, state := 1, len := len, tail := t } n out =
      readLoop fuel { src := src.drop j, sched := sc', state := if len - j = 0 then 0 else 1, len := len - j, tail := t }
        (n - j) (out ++ src.take j) := by
  have hn0 : (n == 0) = false := by simp; omega
  by_cases hl : len = 0
  · subst hl
    refine ⟨0, sc, by omega, by omega, by omega, ?_⟩
    conv => lhs; unfold readLoop
    simp [hn0, wantOf_zero]
  · have hb := wantOf_bounds sc (min n len) (by omega)
    refine ⟨wantOf sc (min n len), sc.tail, by omega, by omega, by omega, ?_⟩
    conv => lhs; unfold readLoop
    have hk0 : (min n len == 0) = false := by simp; omega
    simp only [hn0, hk0, rawRead]
    generalize wantOf sc (min n len) = w at hb
    have hm : min w src.length = w := by omega
    simp [hm]
    have hw0 : ¬ (w = 0 ∧ 0 < min n len) := by omega
    rw [if_neg hw0]
    by_cases hz : len - w = 0 <;> simp [hz]

theorem step_bin (src : List UInt8) (sc : List Nat) (len : Nat) (t : UInt8) (n fuel : Nat) (out : List UInt8)
    (hn : 0 < n) (hlen : len ≤ src.length) (k : Nat) (hk : k = min ((n + 1) / 2) len) :
    ∃ sc', readLoop (fuel + 1) { src := src, sched := sc, state := 2, len := len, tail := t } n out =
      if n < 2 * k then
        readLoop fuel { src := src.drop k, sched := sc', state := -1, len := len - k,
                        tail := hexEncode ((src.take k).getLast! &&& 0x0f) }
          (n - (2 * k - 1)) (out ++ (hexLower (src.take k)).take (2 * k - 1))
      else
        readLoop fuel { src := src.drop k, sched := sc', state := if len - k = 0 then 0 else 2, len := len - k,
                        tail := t }
          (n - 2 * k) (out ++ hexLower (src.take k)) := by
  have hn0 : (n == 0) = false := by simp; omega
  conv => enter [1, sc', 1]; unfold readLoop
  simp only [hn0, ← hk]
  have h6 := readFull_gen (k + 1) k src [] sc (by omega)
  generalize readFull (k + 1) src sc k [] = p at h6
  obtain ⟨buf, src', sched'⟩ := p
  simp only [List.nil_append] at h6
  obtain ⟨hb, hs⟩ := h6
  subst hb hs
  refine ⟨sched', ?_⟩
  have hm : min k src.length = k := by omega
  simp [hm]
  by_cases hz : len - k = 0 <;> simp [hz]

/-! ## the invariant -/

/-- `Pending st rest`: the bytes still to be delivered from state `st` are exactly `rest` -/
def Pending (st : St) (rest : List UInt8) : Prop :=
  ∃ (d : List UInt8) (segs : List Seg) (tl : List UInt8), WF segs ∧ TailOK tl ∧
    st.src = d ++ (frame segs ++ tl) ∧ d.length = st.len ∧
    ((st.state = 0 ∧ d = [] ∧ rest = specOut segs) ∨
     (st.state = 1 ∧ rest = d ++ specOut segs) ∨
     (st.state = 2 ∧ rest = hexLower d ++ specOut segs) ∨
     (st.state = -1 ∧ rest = st.tail :: (hexLower d ++ specOut segs)))

/-- result of one loop run started with `n` bytes of room, `out0` already delivered -/
def Post (rest : List UInt8) (n : Nat) (out0 : List UInt8) (r : List UInt8 × Option PErr × St) : Prop :=
  r.1 = out0 ++ rest.take n ∧
  (n ≤ rest.length → r.2.1 = none ∧ Pending r.2.2 (rest.drop n)) ∧
  (rest.length < n → r.2.1 = some .eof)

theorem post_shift (A rest' : List UInt8) (n : Nat) (out : List UInt8) (r : List UInt8 × Option PErr × St)
    (hA : A.length ≤ n) (h : Post rest' (n - A.length) (out ++ A) r) : Post (A ++ rest') n out r := by
  obtain ⟨h1, h2, h3⟩ := h
  refine ⟨?_, ?_, ?_⟩
  · rw [h1, List.take_append, List.take_of_length_le hA, List.append_assoc]
  · intro hle
    rw [List.length_append] at hle
    have := h2 (by omega)
    rw [List.drop_append, List.drop_eq_nil_of_le hA, List.nil_append]
    exact this
  · intro hlt
    rw [List.length_append] at hlt
    exact h3 (by omega)

def cst (s : Int) : Nat := if s = 0 then 2 else 3

theorem cst_0 : cst 0 = 2 := rfl
theorem cst_1 : cst 1 = 3 := rfl
theorem cst_2 : cst 2 = 3 := rfl
theorem cst_m1 : cst (-1) = 3 := rfl
theorem cst_le (s : Int) : cst s ≤ 3 := by unfold cst; split <;> omega

theorem frame_cons_length (s : Seg) (ss : List Seg) :
    (frame (s :: ss)).length = 6 + s.data.length + (frame ss).length := by
  simp [frame, le32bytes]; omega

theorem loop_spec : ∀ (fuel : Nat) (st : St) (n : Nat) (out rest : List UInt8), Pending st rest →
    2 * n + 2 * st.src.length + cst st.state ≤ fuel → Post rest n out (readLoop fuel st n out) := by
  intro fuel
  induction fuel with
  | zero =>
    intro st n out rest _ hf
    unfold cst at hf; split at hf <;> omega
  | succ fuel ih =>
    intro st n out rest hP hf
    by_cases hn : n = 0
    · subst hn
      rw [loop_zero]
      exact ⟨by simp, fun _ => ⟨rfl, by simpa using hP⟩, fun h => by omega⟩
    have hn' : 0 < n := by omega
    obtain ⟨src, sc, state, len, t⟩ := st
    obtain ⟨d, segs, tl, hwf, htl, hsrc, hlen, hcase⟩ := hP
    simp only at hsrc hlen hcase hf
    subst hsrc hlen
    rcases hcase with ⟨hs, hd, hr⟩ | ⟨hs, hr⟩ | ⟨hs, hr⟩ | ⟨hs, hr⟩
    · -- header
      subst hs hd hr
      sorry
    · -- text
      subst hs hr
      sorry
    · -- binary
      subst hs hr
      sorry
    · -- parked nibble
      subst hs hr
      rw [step_tail _ _ _ _ _ _ _ hn']
      have : t :: (hexLower d ++ specOut segs) = [t] ++ (hexLower d ++ specOut segs) := rfl
      rw [this]
      apply post_shift _ _ _ _ _ (by simp only [List.length_cons, List.length_nil]; omega)
      apply ih
      · refine ⟨d, segs, tl, hwf, htl, rfl, rfl, ?_⟩
        by_cases hz : d.length = 0
        · have : d = [] := List.eq_nil_of_length_eq_zero hz
          subst this
          left; simp [hexLower]
        · right; right; left; simp [hz]
      · simp only [cst_m1, List.length_cons, List.length_nil] at hf ⊢
        have := cst_le (if d.length = 0 then 0 else 2)
        omega

end PsVerif.Proofs.PFBRefine
