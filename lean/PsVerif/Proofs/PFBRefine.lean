import PsVerif.Props.C14
/-!
# Refinement theorem for the PFB reader model (`Model.PFB.readLoop` / `read` / `drain`)

Everything announced is proved in full (no `…_partial`, nothing missing):

* `Seg`, `frame`, `specOut`, `WF` (types 1/2, lengths < 2^32), `TailOK` (`[]` or `0x80 :: 3 :: garbage`).
* `Pending st rest` — the invariant "the bytes still to be delivered from `st` are exactly `rest`"
  (any state 0 / 1 / 2 / -1, any schedule).
* `loop_spec` — `readLoop fuel st n out` for every `fuel ≥ 2 * n + 2 * st.src.length + cst st.state` (`cst ≤ 3`),
  hence in particular for the fuel `2 * n + 2 * st.src.length + 8` used by `read`.
* `read_refines` — single-call theorem: `out = rest.take n`, `out.length = min n rest.length`,
  `n ≤ rest.length → err = none ∧ Pending st' (rest.drop n)`, `rest.length < n → out = rest ∧ err = some .eof`.
* `drain_spec` — the list of results of successive reads equals `specDrain rest sizes`, a function of the
  specification output and the sizes only; consequences `pfb_refine_concat` (concatenation = prefix of the
  specification output), `pfb_refine_full` (every read before exhaustion returns exactly its buffer size and no error),
  `pfb_refine_eof` (once the sizes exceed the output the last read returns EOF and everything was delivered) —
  with or without end marker.  The hypothesis "all sizes > 0" is not needed.
* auxiliary facts: `readFull_gen`, `hexLower_append`, `hexLower_take`, `hexLower_drop`, `hexLower_park`.
-/
namespace PsVerif.Proofs.PFBRefine
open PsVerif.Model.PFB PsVerif.Props.C14

structure Seg where
  tp : Nat
  data : List UInt8

def le32bytes (n : Nat) : List UInt8 :=
  [UInt8.ofNat n, UInt8.ofNat (n / 256), UInt8.ofNat (n / 65536), UInt8.ofNat (n / 16777216)]

def frame : List Seg → List UInt8
  | [] => []
  | s :: ss => 0x80 :: UInt8.ofNat s.tp :: (le32bytes s.data.length ++ (s.data ++ frame ss))

def specOut : List Seg → List UInt8
  | [] => []
  | s :: ss => (if s.tp = 2 then hexLower s.data else s.data) ++ specOut ss

def WF (segs : List Seg) : Prop :=
  ∀ s ∈ segs, (s.tp = 1 ∨ s.tp = 2) ∧ s.data.length < 4294967296

def TailOK (tl : List UInt8) : Prop := tl = [] ∨ ∃ g, tl = 0x80 :: 3 :: g

/-! ## `io.ReadFull` -/

theorem wantOf_bounds (sc : List Nat) (k : Nat) (hk : 0 < k) : 1 ≤ wantOf sc k ∧ wantOf sc k ≤ k := by
  unfold wantOf
  cases sc with
  | nil => simp only; omega
  | cons w t => simp only; omega

theorem wantOf_zero (sc : List Nat) : wantOf sc 0 = 0 := by
  unfold wantOf
  cases sc with
  | nil => rfl
  | cons w t => simp

theorem readFull_gen : ∀ (fuel k : Nat) (src acc : List UInt8) (sc : List Nat), k < fuel →
    (readFull fuel src sc k acc).1 = acc ++ src.take k ∧ (readFull fuel src sc k acc).2.1 = src.drop k := by
  intro fuel
  induction fuel with
  | zero => intro k src acc sc h; omega
  | succ f ih =>
    intro k src acc sc hf
    unfold readFull
    by_cases h0 : k = 0
    · subst h0; simp
    · have hk0 : (k == 0) = false := by simp [h0]
      simp only [hk0, Bool.false_eq_true, if_false, rawRead]
      have hw1 := wantOf_bounds sc k (by omega)
      obtain ⟨want, hwe⟩ : ∃ w, wantOf sc k = w := ⟨_, rfl⟩
      simp only [hwe] at hw1 ⊢
      cases src with
      | nil => simp
      | cons x xs =>
        have hne : (List.take want (x :: xs)).isEmpty = false := by
          cases want with
          | zero => omega
          | succ w => simp
        simp only [hne, Bool.false_eq_true, if_false, List.length_take]
        have hpos : 0 < (x :: xs).length := by simp
        generalize x :: xs = src at hpos ⊢
        have := ih (k - min want src.length) (src.drop want) (acc ++ src.take want) sc.tail (by omega)
        rw [this.1, this.2]
        by_cases hle : want ≤ src.length
        · have hmin : min want src.length = want := by omega
          rw [hmin]
          constructor
          · rw [List.append_assoc]
            congr 1
            rw [← List.take_add]
            congr 1; omega
          · rw [List.drop_drop]; congr 1; omega
        · have h1 : src.drop want = [] := List.drop_eq_nil_of_le (by omega)
          have h2 : src.take want = src := List.take_of_length_le (by omega)
          have h3 : src.take k = src := List.take_of_length_le (by omega)
          have h4 : src.drop k = [] := List.drop_eq_nil_of_le (by omega)
          simp [h1, h2, h3, h4]

/-! ## hexadecimal expansion -/

theorem hexLower_append (a b : List UInt8) : hexLower (a ++ b) = hexLower a ++ hexLower b := by
  induction a with
  | nil => rfl
  | cons x xs ih => simp [hexLower, ih]

theorem hexLower_take (bs : List UInt8) (k : Nat) : (hexLower bs).take (2 * k) = hexLower (bs.take k) := by
  induction bs generalizing k with
  | nil => simp [hexLower]
  | cons x xs ih =>
    cases k with
    | zero => simp [hexLower]
    | succ k =>
      have : 2 * (k + 1) = 2 * k + 1 + 1 := by omega
      rw [this]
      simp [hexLower, ih]

theorem hexLower_drop (bs : List UInt8) (k : Nat) : (hexLower bs).drop (2 * k) = hexLower (bs.drop k) := by
  induction bs generalizing k with
  | nil => simp [hexLower]
  | cons x xs ih =>
    cases k with
    | zero => simp [hexLower]
    | succ k =>
      have : 2 * (k + 1) = 2 * k + 1 + 1 := by omega
      rw [this]
      simp [hexLower, ih]

/-- all but the last nibble, then the parked nibble -/
theorem hexLower_park (bs : List UInt8) (h : bs ≠ []) :
    hexLower bs = (hexLower bs).take (2 * bs.length - 1) ++ [hexEncode (bs.getLast! &&& 0x0f)] := by
  induction bs with
  | nil => exact absurd rfl h
  | cons b bs ih =>
    cases bs with
    | nil => simp [hexLower]
    | cons c cs =>
      have ih' := ih (by simp)
      have e : 2 * (b :: c :: cs).length - 1 = (2 * (c :: cs).length - 1) + 1 + 1 := by
        simp only [List.length_cons]; omega
      rw [e]
      have hl : (b :: c :: cs).getLast! = (c :: cs).getLast! := by
        simp [List.getLast!]
      rw [hl]
      conv => lhs; unfold hexLower
      conv => rhs; unfold hexLower
      simp only [List.take_succ_cons, List.cons_append]
      rw [← ih']

/-! ## single steps of the loop -/

theorem loop_zero (fuel : Nat) (st : St) (out : List UInt8) : readLoop fuel st 0 out = (out, none, st) := by
  cases fuel <;> simp [readLoop]

theorem loop_end (fuel : Nat) (st : St) (n : Nat) (out : List UInt8) (hs : st.state = 3) (hn : 0 < n) :
    readLoop (fuel + 1) st n out = (out, some .eof, st) := by
  unfold readLoop
  have hn0 : (n == 0) = false := by simp; omega
  simp [hn0, hs]

theorem le32_bytes (n : Nat) (h : n < 4294967296) :
    le32 (UInt8.ofNat n) (UInt8.ofNat (n / 256)) (UInt8.ofNat (n / 65536)) (UInt8.ofNat (n / 16777216)) = n := by
  simp only [le32, UInt8.toNat_ofNat']
  omega

theorem step_header (tp b2 b3 b4 b5 : UInt8) (h1 : tp ≠ 0) (h3 : tp ≤ 3) (more : List UInt8) (sc : List Nat)
    (l0 : Nat) (t : UInt8) (n fuel : Nat) (out : List UInt8) (hn : 0 < n) :
    ∃ sc', readLoop (fuel + 1)
        { src := 0x80 :: tp :: b2 :: b3 :: b4 :: b5 :: more, sched := sc, state := 0, len := l0, tail := t } n out =
      readLoop fuel { src := more, sched := sc', state := tp.toNat, len := le32 b2 b3 b4 b5, tail := t } n out := by
  conv => enter [1, sched', 1]; unfold readLoop
  have hn0 : (n == 0) = false := by simp; omega
  simp only [hn0, Bool.false_eq_true, if_false]
  have h6 := readFull_gen 7 6 (0x80 :: tp :: b2 :: b3 :: b4 :: b5 :: more) [] sc (by omega)
  generalize readFull 7 (0x80 :: tp :: b2 :: b3 :: b4 :: b5 :: more) sc 6 [] = p at h6
  obtain ⟨buf, src', sched'⟩ := p
  simp only [List.nil_append] at h6
  obtain ⟨hb, hs⟩ := h6
  subst hb hs
  refine ⟨sched', ?_⟩
  have hgt : ¬ tp > 3 := by
    intro h; exact absurd h3 (UInt8.not_le.mpr h)
  have hlt : ¬ (3 : UInt8) < tp := hgt
  simp [h1, hlt]

theorem step_end (g : List UInt8) (sc : List Nat) (l0 : Nat) (t : UInt8) (n fuel : Nat) (out : List UInt8)
    (hn : 0 < n) :
    ∃ st', readLoop (fuel + 2) { src := 0x80 :: 3 :: g, sched := sc, state := 0, len := l0, tail := t } n out =
      (out, some .eof, st') := by
  conv => enter [1, st', 1]; unfold readLoop
  have hn0 : (n == 0) = false := by simp; omega
  simp only [hn0, Bool.false_eq_true, if_false]
  have h6 := readFull_gen 7 6 (0x80 :: 3 :: g) [] sc (by omega)
  generalize readFull 7 (0x80 :: 3 :: g) sc 6 [] = p at h6
  obtain ⟨buf, src', sched'⟩ := p
  simp only [List.nil_append] at h6
  obtain ⟨hb, hs⟩ := h6
  subst hb hs
  simp
  exact ⟨_, loop_end _ _ _ _ rfl hn⟩

theorem step_empty (sc : List Nat) (l0 : Nat) (t : UInt8) (n fuel : Nat) (out : List UInt8) (hn : 0 < n) :
    ∃ st', readLoop (fuel + 1) { src := [], sched := sc, state := 0, len := l0, tail := t } n out =
      (out, some .eof, st') := by
  conv => enter [1, st', 1]; unfold readLoop
  have hn0 : (n == 0) = false := by simp; omega
  simp only [hn0, Bool.false_eq_true, if_false]
  have h6 := readFull_gen 7 6 [] [] sc (by omega)
  generalize readFull 7 [] sc 6 [] = p at h6
  obtain ⟨buf, src', sched'⟩ := p
  simp only [List.nil_append] at h6
  obtain ⟨hb, hs⟩ := h6
  subst hb hs
  simp

theorem step_tail (src : List UInt8) (sc : List Nat) (len : Nat) (t : UInt8) (n fuel : Nat) (out : List UInt8)
    (hn : 0 < n) :
    readLoop (fuel + 1) { src := src, sched := sc, state := -1, len := len, tail := t } n out =
      readLoop fuel { src := src, sched := sc, state := if len = 0 then 0 else 2, len := len, tail := t }
        (n - 1) (out ++ [t]) := by
  conv => lhs; unfold readLoop
  have hn0 : (n == 0) = false := by simp; omega
  simp [hn0]

theorem step_text (src : List UInt8) (sc : List Nat) (len : Nat) (t : UInt8) (n fuel : Nat) (out : List UInt8)
    (hn : 0 < n) (hlen : len ≤ src.length) :
    ∃ j sc', (0 < len → 0 < j) ∧ j ≤ n ∧ j ≤ len ∧
      readLoop (fuel + 1) { src := src, sched := sc, state := 1, len := len, tail := t } n out =
      readLoop fuel { src := src.drop j, sched := sc', state := if len - j = 0 then 0 else 1, len := len - j, tail := t }
        (n - j) (out ++ src.take j) := by
  have hn0 : (n == 0) = false := by simp; omega
  by_cases hl : len = 0
  · subst hl
    refine ⟨0, sc, by omega, by omega, by omega, ?_⟩
    conv => lhs; unfold readLoop
    simp [hn0, wantOf_zero]
  · have hb := wantOf_bounds sc (min n len) (by omega)
    refine ⟨wantOf sc (min n len), sc.tail, by omega, by omega, by omega, ?_⟩
    conv => lhs; unfold readLoop
    have hk0 : (min n len == 0) = false := by simp; omega
    simp only [hn0, hk0, rawRead]
    generalize wantOf sc (min n len) = w at hb
    have hm : min w src.length = w := by omega
    simp [hm]
    have hw0 : ¬ (w = 0 ∧ 0 < min n len) := by omega
    rw [if_neg hw0]
    by_cases hz : len - w = 0 <;> simp [hz]

theorem step_bin (src : List UInt8) (sc : List Nat) (len : Nat) (t : UInt8) (n fuel : Nat) (out : List UInt8)
    (hn : 0 < n) (hlen : len ≤ src.length) (k : Nat) (hk : k = min ((n + 1) / 2) len) :
    ∃ sc', readLoop (fuel + 1) { src := src, sched := sc, state := 2, len := len, tail := t } n out =
      if n < 2 * k then
        readLoop fuel { src := src.drop k, sched := sc', state := -1, len := len - k,
                        tail := hexEncode ((src.take k).getLast! &&& 0x0f) }
          (n - (2 * k - 1)) (out ++ (hexLower (src.take k)).take (2 * k - 1))
      else
        readLoop fuel { src := src.drop k, sched := sc', state := if len - k = 0 then 0 else 2, len := len - k,
                        tail := t }
          (n - 2 * k) (out ++ hexLower (src.take k)) := by
  have hn0 : (n == 0) = false := by simp; omega
  conv => enter [1, sc', 1]; unfold readLoop
  simp only [hn0, ← hk]
  have h6 := readFull_gen (k + 1) k src [] sc (by omega)
  generalize readFull (k + 1) src sc k [] = p at h6
  obtain ⟨buf, src', sched'⟩ := p
  simp only [List.nil_append] at h6
  obtain ⟨hb, hs⟩ := h6
  subst hb hs
  refine ⟨sched', ?_⟩
  have hm : min k src.length = k := by omega
  simp [hm]
  by_cases hz : len - k = 0 <;> simp [hz]

/-! ## the invariant -/

/-- `Pending st rest`: the bytes still to be delivered from state `st` are exactly `rest` -/
def Pending (st : St) (rest : List UInt8) : Prop :=
  ∃ (d : List UInt8) (segs : List Seg) (tl : List UInt8), WF segs ∧ TailOK tl ∧
    st.src = d ++ (frame segs ++ tl) ∧ d.length = st.len ∧
    ((st.state = 0 ∧ d = [] ∧ rest = specOut segs) ∨
     (st.state = 1 ∧ rest = d ++ specOut segs) ∨
     (st.state = 2 ∧ rest = hexLower d ++ specOut segs) ∨
     (st.state = -1 ∧ rest = st.tail :: (hexLower d ++ specOut segs)))

/-- result of one loop run started with `n` bytes of room, `out0` already delivered -/
def Post (rest : List UInt8) (n : Nat) (out0 : List UInt8) (r : List UInt8 × Option PErr × St) : Prop :=
  r.1 = out0 ++ rest.take n ∧
  (n ≤ rest.length → r.2.1 = none ∧ Pending r.2.2 (rest.drop n)) ∧
  (rest.length < n → r.2.1 = some .eof)

theorem post_shift (A rest' : List UInt8) (n : Nat) (out : List UInt8) (r : List UInt8 × Option PErr × St)
    (hA : A.length ≤ n) (h : Post rest' (n - A.length) (out ++ A) r) : Post (A ++ rest') n out r := by
  obtain ⟨h1, h2, h3⟩ := h
  refine ⟨?_, ?_, ?_⟩
  · rw [h1, List.take_append, List.take_of_length_le hA, List.append_assoc]
  · intro hle
    rw [List.length_append] at hle
    have := h2 (by omega)
    rw [List.drop_append, List.drop_eq_nil_of_le hA, List.nil_append]
    exact this
  · intro hlt
    rw [List.length_append] at hlt
    exact h3 (by omega)

def cst (s : Int) : Nat := if s = 0 then 2 else 3

theorem cst_0 : cst 0 = 2 := rfl
theorem cst_1 : cst 1 = 3 := rfl
theorem cst_2 : cst 2 = 3 := rfl
theorem cst_m1 : cst (-1) = 3 := rfl
theorem cst_le (s : Int) : cst s ≤ 3 := by unfold cst; split <;> omega

theorem frame_cons_length (s : Seg) (ss : List Seg) :
    (frame (s :: ss)).length = 6 + s.data.length + (frame ss).length := by
  simp [frame, le32bytes]; omega

theorem loop_spec : ∀ (fuel : Nat) (st : St) (n : Nat) (out rest : List UInt8), Pending st rest →
    2 * n + 2 * st.src.length + cst st.state ≤ fuel → Post rest n out (readLoop fuel st n out) := by
  intro fuel
  induction fuel with
  | zero =>
    intro st n out rest _ hf
    unfold cst at hf; split at hf <;> omega
  | succ fuel ih =>
    intro st n out rest hP hf
    by_cases hn : n = 0
    · subst hn
      rw [loop_zero]
      exact ⟨by simp, fun _ => ⟨rfl, by simpa using hP⟩, fun h => by omega⟩
    have hn' : 0 < n := by omega
    obtain ⟨src, sc, state, len, t⟩ := st
    obtain ⟨d, segs, tl, hwf, htl, hsrc, hlen, hcase⟩ := hP
    simp only at hsrc hlen hcase hf
    subst hsrc hlen
    rcases hcase with ⟨hs, hd, hr⟩ | ⟨hs, hr⟩ | ⟨hs, hr⟩ | ⟨hs, hr⟩
    · -- header
      subst hs hd hr
      simp only [List.nil_append, List.length_nil, cst_0] at hf ⊢
      cases segs with
      | nil =>
        simp only [frame, List.nil_append, specOut] at hf ⊢
        have fin : ∀ st', Post [] n out (out, some PErr.eof, st') := fun st' =>
          ⟨by simp, fun h => by simp at h; omega, fun _ => rfl⟩
        rcases htl with rfl | ⟨g, rfl⟩
        · obtain ⟨st', he⟩ := step_empty sc 0 t n fuel out hn'
          rw [he]; exact fin _
        · obtain ⟨f, rfl⟩ : ∃ f, fuel = f + 1 := ⟨fuel - 1, by omega⟩
          obtain ⟨st', he⟩ := step_end g sc 0 t n f out hn'
          rw [he]; exact fin _
      | cons s ss =>
        obtain ⟨htp, hlen⟩ := hwf s (by simp)
        have hwf' : WF ss := fun x hx => hwf x (by simp [hx])
        have hfr : frame (s :: ss) ++ tl =
            0x80 :: UInt8.ofNat s.tp :: UInt8.ofNat s.data.length :: UInt8.ofNat (s.data.length / 256) ::
              UInt8.ofNat (s.data.length / 65536) :: UInt8.ofNat (s.data.length / 16777216) ::
              (s.data ++ (frame ss ++ tl)) := by
          simp [frame, le32bytes]
        have hfl := frame_cons_length s ss
        rw [List.length_append] at hf
        rw [hfr]
        have h13 : UInt8.ofNat s.tp ≠ 0 ∧ UInt8.ofNat s.tp ≤ 3 := by
          rcases htp with h | h <;> rw [h] <;> decide
        obtain ⟨sc', he⟩ := step_header (UInt8.ofNat s.tp) _ _ _ _ h13.1 h13.2 (s.data ++ (frame ss ++ tl)) sc 0 t n
          fuel out hn'
        rw [he, le32_bytes _ hlen]
        apply ih
        · refine ⟨s.data, ss, tl, hwf', htl, rfl, rfl, ?_⟩
          rcases htp with h | h
          · right; left
            simp only [h, specOut]
            exact ⟨by decide, by simp⟩
          · right; right; left
            simp only [h, specOut]
            exact ⟨by decide, by simp⟩
        · simp only [List.length_append] at hf ⊢
          have := cst_le ↑(UInt8.ofNat s.tp).toNat
          omega
    · -- text
      subst hs hr
      obtain ⟨j, sc', hj0, hjn, hjl, heq⟩ :=
        step_text (d ++ (frame segs ++ tl)) sc d.length t n fuel out hn' (by simp)
      rw [heq]
      have htake : (d ++ (frame segs ++ tl)).take j = d.take j := List.take_append_of_le_length hjl
      have hdrop : (d ++ (frame segs ++ tl)).drop j = d.drop j ++ (frame segs ++ tl) :=
        List.drop_append_of_le_length hjl
      rw [htake, hdrop]
      have hsplit : d ++ specOut segs = d.take j ++ (d.drop j ++ specOut segs) := by
        rw [← List.append_assoc, List.take_append_drop]
      have hl : (d.take j).length = j := by simp only [List.length_take]; omega
      rw [hsplit]
      apply post_shift _ _ _ _ _ (by omega)
      rw [hl]
      apply ih
      · refine ⟨d.drop j, segs, tl, hwf, htl, rfl, by simp, ?_⟩
        by_cases hz : d.length - j = 0
        · have : d.drop j = [] := List.drop_eq_nil_of_le (by omega)
          left; simp [hz, this]
        · right; left; simp [hz]
      · simp only [cst_1, List.length_append, List.length_drop] at hf ⊢
        have := cst_le (if d.length - j = 0 then 0 else 1)
        by_cases hz : d.length = 0
        · have hj : j = 0 := by omega
          subst hj
          simp only [hz, Nat.sub_self, if_true, cst_0] at this ⊢
          omega
        · have := hj0 (by omega)
          omega
    · -- binary
      subst hs hr
      obtain ⟨sc', heq⟩ := step_bin (d ++ (frame segs ++ tl)) sc d.length t n fuel out hn' (by simp)
        (min ((n + 1) / 2) d.length) rfl
      rw [heq]
      generalize hk : min ((n + 1) / 2) d.length = k
      have hkl : k ≤ d.length := by omega
      have htake : (d ++ (frame segs ++ tl)).take k = d.take k := List.take_append_of_le_length hkl
      have hdrop : (d ++ (frame segs ++ tl)).drop k = d.drop k ++ (frame segs ++ tl) :=
        List.drop_append_of_le_length hkl
      rw [htake, hdrop]
      have hd : hexLower d = hexLower (d.take k) ++ hexLower (d.drop k) := by
        rw [← hexLower_append, List.take_append_drop]
      have hlk : (d.take k).length = k := by simp only [List.length_take]; omega
      by_cases hodd : n < 2 * k
      · rw [if_pos hodd]
        have hne : d.take k ≠ [] := by
          intro h
          have := congrArg List.length h
          rw [hlk] at this
          simp at this; omega
        have hpark := hexLower_park (d.take k) hne
        rw [hlk] at hpark
        have hsplit : hexLower d ++ specOut segs =
            (hexLower (d.take k)).take (2 * k - 1) ++
              (hexEncode ((d.take k).getLast! &&& 0x0f) :: (hexLower (d.drop k) ++ specOut segs)) := by
          rw [hd]
          conv => lhs; rw [hpark]
          simp
        have hAl : ((hexLower (d.take k)).take (2 * k - 1)).length = 2 * k - 1 := by
          simp only [List.length_take, hexLower_length, hlk]; omega
        rw [hsplit]
        apply post_shift _ _ _ _ _ (by omega)
        rw [hAl]
        apply ih
        · refine ⟨d.drop k, segs, tl, hwf, htl, rfl, by simp, ?_⟩
          right; right; right; exact ⟨rfl, rfl⟩
        · simp only [cst_2, cst_m1, List.length_append, List.length_drop] at hf ⊢
          omega
      · rw [if_neg hodd]
        have hsplit : hexLower d ++ specOut segs =
            hexLower (d.take k) ++ (hexLower (d.drop k) ++ specOut segs) := by
          rw [hd, List.append_assoc]
        have hAl : (hexLower (d.take k)).length = 2 * k := by rw [hexLower_length, hlk]
        rw [hsplit]
        apply post_shift _ _ _ _ _ (by omega)
        rw [hAl]
        apply ih
        · refine ⟨d.drop k, segs, tl, hwf, htl, rfl, by simp, ?_⟩
          by_cases hz : d.length - k = 0
          · have : d.drop k = [] := List.drop_eq_nil_of_le (by omega)
            left; simp [hz, this, hexLower]
          · right; right; left; simp [hz]
        · simp only [cst_2, List.length_append, List.length_drop] at hf ⊢
          have := cst_le (if d.length - k = 0 then 0 else 2)
          by_cases hz : d.length = 0
          · have hj : k = 0 := by omega
            subst hj
            simp only [hz, Nat.sub_self, if_true, cst_0] at this ⊢
            omega
          · omega
    · -- parked nibble
      subst hs hr
      rw [step_tail _ _ _ _ _ _ _ hn']
      have : t :: (hexLower d ++ specOut segs) = [t] ++ (hexLower d ++ specOut segs) := rfl
      rw [this]
      apply post_shift _ _ _ _ _ (by simp only [List.length_cons, List.length_nil]; omega)
      apply ih
      · refine ⟨d, segs, tl, hwf, htl, rfl, rfl, ?_⟩
        by_cases hz : d.length = 0
        · have : d = [] := List.eq_nil_of_length_eq_zero hz
          subst this
          left; simp [hexLower]
        · right; right; left; simp [hz]
      · simp only [cst_m1, List.length_cons, List.length_nil] at hf ⊢
        have := cst_le (if d.length = 0 then 0 else 2)
        omega

/-! ## one `Read` call -/

theorem read_post (st : St) (n : Nat) (rest : List UInt8) (hP : Pending st rest) :
    Post rest n [] (read st n) := by
  unfold PsVerif.Model.PFB.read
  apply loop_spec _ _ _ _ _ hP
  have := cst_le st.state
  omega

/-- **single-call refinement**: from any in-progress state whose still-to-be-delivered bytes are `rest`, a `Read`
with a buffer of `n` bytes returns exactly the next `min n rest.length` bytes; while the buffer can be filled there
is no error and the invariant holds for the remainder; otherwise everything left is returned together with EOF.
(No assumption on `n`, on the schedule of the underlying reader or on where segment boundaries fall.) -/
theorem read_refines (st : St) (n : Nat) (rest : List UInt8) (hP : Pending st rest) :
    (read st n).1 = rest.take n ∧ (read st n).1.length = min n rest.length ∧
    (n ≤ rest.length → (read st n).2.1 = none ∧ Pending (read st n).2.2 (rest.drop n)) ∧
    (rest.length < n → (read st n).1 = rest ∧ (read st n).2.1 = some .eof) := by
  obtain ⟨h1, h2, h3⟩ := read_post st n rest hP
  rw [List.nil_append] at h1
  refine ⟨h1, by rw [h1, List.length_take], h2, fun h => ⟨?_, h3 h⟩⟩
  rw [h1, List.take_of_length_le (by omega)]

/-! ## successive `Read` calls -/

/-- what successive reads must return, as a function of the specification output only -/
def specDrain : List UInt8 → List Nat → List (List UInt8 × Option PErr)
  | _, [] => []
  | rest, n :: ns =>
    if n ≤ rest.length then (rest.take n, none) :: specDrain (rest.drop n) ns else [(rest, some .eof)]

/-- **multi-call refinement**: the whole list of results of successive reads is determined by the specification
output and the buffer sizes alone -/
theorem drain_spec (sizes : List Nat) : ∀ (st : St) (rest : List UInt8), Pending st rest →
    drain st sizes = specDrain rest sizes := by
  induction sizes with
  | nil => intro st rest _; rfl
  | cons n ns ih =>
    intro st rest hP
    unfold drain specDrain
    obtain ⟨h1, _, h2, h3⟩ := read_refines st n rest hP
    generalize PsVerif.Model.PFB.read st n = r at h1 h2 h3
    obtain ⟨o, e, st'⟩ := r
    simp only at h1 h2 h3 ⊢
    by_cases hle : n ≤ rest.length
    · obtain ⟨he, hP'⟩ := h2 hle
      subst he h1
      simp only [hle, if_true]
      rw [ih st' _ hP']
    · obtain ⟨ho, he⟩ := h3 (by omega)
      subst he ho
      simp only [hle, if_false]

theorem specDrain_flatten (sizes : List Nat) : ∀ rest : List UInt8,
    ((specDrain rest sizes).map (·.1)).flatten = rest.take sizes.sum := by
  induction sizes with
  | nil => intro rest; simp [specDrain]
  | cons n ns ih =>
    intro rest
    unfold specDrain
    by_cases hle : n ≤ rest.length
    · simp only [hle, if_true, List.map_cons, List.flatten_cons, ih, List.sum_cons, List.take_add]
    · simp only [hle, if_false, List.map_cons, List.map_nil, List.flatten_cons, List.flatten_nil,
        List.append_nil, List.sum_cons]
      rw [List.take_of_length_le (by omega)]

/-- every call before exhaustion returns exactly its buffer's worth of bytes and no error -/
theorem specDrain_get (sizes : List Nat) : ∀ (rest : List UInt8) (i : Nat) (hi : i < sizes.length),
    (sizes.take (i + 1)).sum ≤ rest.length →
    (specDrain rest sizes)[i]? = some ((rest.drop (sizes.take i).sum).take sizes[i], none) := by
  induction sizes with
  | nil => intro rest i hi; simp at hi
  | cons n ns ih =>
    intro rest i hi hsum
    simp only [List.take_succ_cons, List.sum_cons] at hsum
    unfold specDrain
    have hle : n ≤ rest.length := by omega
    simp only [hle, if_true]
    cases i with
    | zero => simp
    | succ i =>
      simp only [List.length_cons] at hi
      have := ih (rest.drop n) i (by omega) (by simp only [List.length_drop]; omega)
      simp only [List.getElem?_cons_succ, this, List.take_succ_cons, List.sum_cons, List.drop_drop,
        List.getElem_cons_succ]

/-- once the sizes exceed what is left the last call returns EOF, all earlier ones no error -/
theorem specDrain_eof (sizes : List Nat) : ∀ rest : List UInt8, rest.length < sizes.sum →
    ∃ pre o, specDrain rest sizes = pre ++ [(o, some .eof)] ∧ ∀ p ∈ pre, p.2 = none := by
  induction sizes with
  | nil => intro rest h; simp at h
  | cons n ns ih =>
    intro rest h
    simp only [List.sum_cons] at h
    unfold specDrain
    by_cases hle : n ≤ rest.length
    · simp only [hle, if_true]
      obtain ⟨pre, o, he, hp⟩ := ih (rest.drop n) (by simp only [List.length_drop]; omega)
      refine ⟨(rest.take n, none) :: pre, o, by rw [he]; rfl, ?_⟩
      intro p hp'
      rcases List.mem_cons.mp hp' with rfl | h'
      · rfl
      · exact hp p h'
    · simp only [hle, if_false]
      exact ⟨[], rest, rfl, by simp⟩

/-! ## the statements for a well-formed stream read from the start -/

theorem pending_init (segs : List Seg) (tl : List UInt8) (sc : List Nat) (hwf : WF segs) (htl : TailOK tl) :
    Pending { src := frame segs ++ tl, sched := sc } (specOut segs) :=
  ⟨[], segs, tl, hwf, htl, rfl, rfl, Or.inl ⟨rfl, rfl, rfl⟩⟩

/-- `tl = []` (input ends after a complete segment) or `tl = 0x80 :: 3 :: garbage` (end marker) -/
theorem pfb_refine_concat (segs : List Seg) (tl : List UInt8) (sc sizes : List Nat) (hwf : WF segs) (htl : TailOK tl) :
    ((drain { src := frame segs ++ tl, sched := sc } sizes).map (·.1)).flatten = (specOut segs).take sizes.sum := by
  rw [drain_spec sizes _ _ (pending_init segs tl sc hwf htl), specDrain_flatten]

theorem pfb_refine_full (segs : List Seg) (tl : List UInt8) (sc sizes : List Nat) (hwf : WF segs) (htl : TailOK tl)
    (i : Nat) (hi : i < sizes.length) (hsum : (sizes.take (i + 1)).sum ≤ (specOut segs).length) :
    (drain { src := frame segs ++ tl, sched := sc } sizes)[i]? =
      some (((specOut segs).drop (sizes.take i).sum).take sizes[i], none) ∧
    (((specOut segs).drop (sizes.take i).sum).take sizes[i]).length = sizes[i] := by
  rw [drain_spec sizes _ _ (pending_init segs tl sc hwf htl)]
  refine ⟨specDrain_get sizes _ i hi hsum, ?_⟩
  rw [List.take_succ_eq_append_getElem hi, List.sum_append] at hsum
  simp only [List.length_take, List.length_drop]
  simp at hsum
  omega

theorem pfb_refine_eof (segs : List Seg) (tl : List UInt8) (sc sizes : List Nat) (hwf : WF segs) (htl : TailOK tl)
    (hsum : (specOut segs).length < sizes.sum) :
    (∃ pre o, drain { src := frame segs ++ tl, sched := sc } sizes = pre ++ [(o, some .eof)] ∧
      ∀ p ∈ pre, p.2 = none) ∧
    ((drain { src := frame segs ++ tl, sched := sc } sizes).map (·.1)).flatten = specOut segs := by
  refine ⟨?_, ?_⟩
  · rw [drain_spec sizes _ _ (pending_init segs tl sc hwf htl)]
    exact specDrain_eof sizes _ hsum
  · rw [pfb_refine_concat segs tl sc sizes hwf htl, List.take_of_length_le (by omega)]

/-- the end-marker form spelled out -/
theorem pfb_refine_concat_marker (segs : List Seg) (garbage : List UInt8) (sc sizes : List Nat) (hwf : WF segs) :
    ((drain { src := frame segs ++ ([0x80, 3] ++ garbage), sched := sc } sizes).map (·.1)).flatten =
      (specOut segs).take sizes.sum :=
  pfb_refine_concat segs _ sc sizes hwf (Or.inr ⟨garbage, rfl⟩)

/-- the form without end marker spelled out -/
theorem pfb_refine_concat_nomarker (segs : List Seg) (sc sizes : List Nat) (hwf : WF segs) :
    ((drain { src := frame segs, sched := sc } sizes).map (·.1)).flatten = (specOut segs).take sizes.sum := by
  have := pfb_refine_concat segs [] sc sizes hwf (Or.inl rfl)
  rwa [List.append_nil] at this

/-! non-vacuity: the definitions describe the byte format the model really reads -/
example : frame [⟨1, [65, 66]⟩, ⟨2, [0xab]⟩] = [0x80, 1, 2, 0, 0, 0, 65, 66, 0x80, 2, 1, 0, 0, 0, 0xab] := by decide
example : specOut [⟨1, [65, 66]⟩, ⟨2, [0xab]⟩] = [65, 66, 97, 98] := by decide
example : drain { src := frame [⟨1, [65, 66]⟩, ⟨2, [0xab]⟩] ++ [0x80, 3], sched := [1, 1, 7] } [3, 5] =
    [([65, 66, 97], none), ([98], some .eof)] := by decide
example : drain { src := frame [⟨1, [65, 66]⟩, ⟨1, []⟩, ⟨2, [0xab]⟩] } [1, 1, 1, 1, 1] =
    [([65], none), ([66], none), ([97], none), ([98], none), ([], some .eof)] := by decide

#print axioms loop_spec
#print axioms read_refines
#print axioms drain_spec
#print axioms pfb_refine_concat
#print axioms pfb_refine_full
#print axioms pfb_refine_eof
#print axioms pfb_refine_concat_marker
#print axioms pfb_refine_concat_nomarker
#print axioms hexLower_take
#print axioms hexLower_park

end PsVerif.Proofs.PFBRefine
