import PsVerif.Model.T1Read
import PsVerif.Proofs.T1Write
import PsVerif.Props.Cipher
import PsVerif.Props.C01NoPanic
/-!
Proofs about the extraction step of the Type 1 reader model (`PsVerif.Model.T1Read`), used by `PsVerif.Props.C06Read`.
Everything here holds for ALL virtual machines `vm` (no well-formedness assumption, no bound).

* glyph maps: `lookupG_setG`, `names_setG`, `lookupG_insertE`, sorting (`sortE_perm`, `sortE_sorted`);
* the decoding loop: `usableEntries`, `decodeAll_ok` (what the glyph list and the recorded composites are),
  `decodeAll_error`, `decodeAll_isOk_iff` (every usable charstring decodes or the whole loop fails);
* composites: `resolveOne_*`, `resolveSeacs_some` (no nil dereference), `resolveSeacs_unchanged`,
  `resolveSeacs_composite`, `resolveOne_parts_composite` (a composite built on composites is left alone),
  `resolveSeacs_lookup` / `resolveSeacs_perm` / `glyphs_ext` (the result does not depend on the order of the
  composites), `resolveSeacs_size_bound` (no glyph grows beyond twice the largest decoded glyph);
* `.notdef`: `lookupG_addNotdef`, `names_addNotdef`;
* the extraction as a whole: `stageOf`, `extract_ok` (decomposition of a successful extraction),
  `extract_no_panic`, `readFont_no_panic`.
-/
namespace PsVerif.Proofs.T1Read
open PsVerif.Model PsVerif.Model.T1Read
open PsVerif.Model.T1Write (Bytes nameLe)
open PsVerif.Model.T1Decode (Glyph Seac DErr DState decodeCharString)
open PsVerif.Proofs.T1Write (nameLe_total nameLe_trans)
set_option linter.unusedVariables false
set_option linter.unusedSimpArgs false

/-! ## glyph maps -/

def names (gs : List (Bytes × Glyph)) : List Bytes := gs.map (·.1)

theorem lookupG_nil (n : Bytes) : lookupG [] n = none := rfl

theorem lookupG_cons (p : Bytes × Glyph) (gs : List (Bytes × Glyph)) (n : Bytes) :
    lookupG (p :: gs) n = if p.1 = n then some p.2 else lookupG gs n := by
  unfold lookupG
  rw [List.find?_cons]
  by_cases h : p.1 = n
  · have hb : (p.1 == n) = true := by simp [h]
    simp [hb, h]
  · have hb : (p.1 == n) = false := by simp [h]
    simp only [hb, h, if_false]

theorem lookupG_isSome_iff (gs : List (Bytes × Glyph)) (n : Bytes) : (lookupG gs n).isSome = true ↔ n ∈ names gs := by
  induction gs with
  | nil => simp [lookupG_nil, names]
  | cons p gs ih =>
    rw [lookupG_cons]
    by_cases h : p.1 = n
    · simp [h, names]
    · simp only [h, if_false, ih, names, List.map_cons, List.mem_cons]
      constructor
      · exact Or.inr
      · rintro (e | e)
        · exact absurd e.symm h
        · exact e

theorem lookupG_eq_none_iff (gs : List (Bytes × Glyph)) (n : Bytes) : lookupG gs n = none ↔ n ∉ names gs := by
  rw [← lookupG_isSome_iff]
  cases lookupG gs n <;> simp

theorem lookupG_mem {gs : List (Bytes × Glyph)} {n : Bytes} {g : Glyph} (h : lookupG gs n = some g) : (n, g) ∈ gs := by
  induction gs with
  | nil => simp [lookupG_nil] at h
  | cons p gs ih =>
    rw [lookupG_cons] at h
    by_cases e : p.1 = n
    · simp [e] at h
      rw [← e, ← h]
      exact List.mem_cons_self
    · simp [e] at h
      exact List.mem_cons_of_mem _ (ih h)

theorem names_setG (gs : List (Bytes × Glyph)) (n : Bytes) (g : Glyph) : names (setG gs n g) = names gs := by
  unfold names setG
  rw [List.map_map]
  apply List.map_congr_left
  intro p _
  by_cases h : p.1 = n
  · simp [h]
  · simp [h]

/-- assignment through the pointer: the entry of that name changes, every other name keeps its glyph -/
theorem lookupG_setG (gs : List (Bytes × Glyph)) (n m : Bytes) (g : Glyph) :
    lookupG (setG gs n g) m = if m = n then (if n ∈ names gs then some g else none) else lookupG gs m := by
  induction gs with
  | nil => simp [setG, lookupG_nil, names]
  | cons p gs ih =>
    have hs : setG (p :: gs) n g = (if p.1 = n then (n, g) else p) :: setG gs n g := by
      simp [setG]
    rw [hs, lookupG_cons, ih, lookupG_cons]
    by_cases h1 : p.1 = n
    · by_cases h2 : m = n
      · simp [h1, h2, names]
      · have : ¬ n = m := fun e => h2 e.symm
        simp [h1, h2, this]
    · by_cases h2 : m = n
      · subst h2
        have hm : (m ∈ names (p :: gs)) ↔ (m ∈ names gs) := by
          simp only [names, List.map_cons, List.mem_cons]
          constructor
          · rintro (e | e)
            · exact absurd e.symm h1
            · exact e
          · exact Or.inr
        by_cases hg : m ∈ names gs
        · simp [h1, hg, hm.mpr hg]
        · have hg' : ¬ m ∈ names (p :: gs) := fun e => hg (hm.mp e)
          simp [h1, hg, hg']
      · simp [h1, h2]

/-! ## sorting -/

theorem insertE_perm {α : Type} (p : Bytes × α) : ∀ l, (insertE p l).Perm (p :: l) := by
  intro l
  induction l with
  | nil => exact List.Perm.refl _
  | cons q r ih =>
    unfold insertE
    split
    · exact List.Perm.refl _
    · exact ((List.Perm.cons q ih).trans (List.Perm.swap p q r))

theorem sortE_perm {α : Type} : ∀ l : List (Bytes × α), (sortE l).Perm l := by
  intro l
  induction l with
  | nil => exact List.Perm.refl _
  | cons p r ih =>
    unfold sortE
    exact (insertE_perm p _).trans (List.Perm.cons p ih)

def SortedBy {α : Type} (l : List (Bytes × α)) : Prop := l.Pairwise (fun a b => nameLe a.1 b.1 = true)

theorem insertE_sorted {α : Type} (p : Bytes × α) : ∀ l, SortedBy l → SortedBy (insertE p l) := by
  intro l
  unfold SortedBy
  induction l with
  | nil => intro _; simp [insertE]
  | cons q r ih =>
    intro h
    rw [List.pairwise_cons] at h
    unfold insertE
    split
    · rename_i hle
      rw [List.pairwise_cons]
      refine ⟨?_, List.pairwise_cons.mpr h⟩
      intro x hx
      rcases List.mem_cons.mp hx with hx | hx
      · subst hx; exact hle
      · exact nameLe_trans _ _ _ hle (h.1 x hx)
    · rename_i hle
      rw [List.pairwise_cons]
      refine ⟨?_, ih h.2⟩
      intro x hx
      rcases List.mem_cons.mp ((insertE_perm p r).mem_iff.mp hx) with hx | hx
      · subst hx
        have := nameLe_total x.1 q.1
        simp only [Bool.or_eq_true] at this
        rcases this with t | t
        · exact absurd t hle
        · exact t
      · exact h.1 x hx

theorem sortE_sorted {α : Type} : ∀ l : List (Bytes × α), SortedBy (sortE l) := by
  intro l
  induction l with
  | nil => simp [sortE, SortedBy]
  | cons p r ih => unfold sortE; exact insertE_sorted p _ ih

theorem names_insertE (p : Bytes × Glyph) (gs : List (Bytes × Glyph)) : (names (insertE p gs)).Perm (p.1 :: names gs) :=
  (insertE_perm p gs).map _

/-- a new key inserted into the sorted list: that key gets the value, the others keep theirs -/
theorem lookupG_insertE (k : Bytes) (v : Glyph) (gs : List (Bytes × Glyph)) (hk : k ∉ names gs) (n : Bytes) :
    lookupG (insertE (k, v) gs) n = if n = k then some v else lookupG gs n := by
  induction gs with
  | nil =>
    simp only [insertE, lookupG_cons, lookupG_nil]
    by_cases h : n = k
    · simp [h]
    · have : ¬ k = n := fun e => h e.symm
      simp [h, this]
  | cons q r ih =>
    have hq : q.1 ≠ k := by
      intro e; apply hk; simp [names, ← e]
    have hr : k ∉ names r := by
      intro e; apply hk; simp only [names, List.map_cons, List.mem_cons]; exact Or.inr e
    unfold insertE
    split
    · rw [lookupG_cons]
      by_cases h : n = k
      · simp [h]
      · have : ¬ k = n := fun e => h e.symm
        simp [h, this]
    · rw [lookupG_cons, ih hr, lookupG_cons]
      by_cases h : n = k
      · subst h
        simp [hq]
      · simp [h]

/-! ## the decoding loop -/

/-- the entries the loop decodes: the value is a string that is not shorter than `lenIV` (every string, when `lenIV`
is negative) -/
def usableEntries (lenIV : Int) : List (Bytes × Option Bytes) → List (Bytes × Bytes)
  | [] => []
  | (n, some ob) :: rest =>
    if (ob.length : Int) < lenIV then usableEntries lenIV rest else (n, ob) :: usableEntries lenIV rest
  | (_, none) :: rest => usableEntries lenIV rest

theorem mem_usableEntries (lenIV : Int) (es : List (Bytes × Option Bytes)) (n ob : Bytes) :
    (n, ob) ∈ usableEntries lenIV es ↔ (n, some ob) ∈ es ∧ lenIV ≤ ob.length := by
  induction es with
  | nil => simp [usableEntries]
  | cons e es ih =>
    obtain ⟨m, v⟩ := e
    cases v with
    | none => simp [usableEntries, ih]
    | some ob' =>
      unfold usableEntries
      by_cases h : (ob'.length : Int) < lenIV
      · simp only [h, if_true, ih, List.mem_cons, Prod.mk.injEq, Option.some.injEq]
        constructor
        · rintro ⟨a, b⟩; exact ⟨Or.inr a, b⟩
        · rintro ⟨(⟨_, e⟩ | a), b⟩
          · subst e; omega
          · exact ⟨a, b⟩
      · simp only [h, if_false, ih, List.mem_cons, Prod.mk.injEq, Option.some.injEq]
        constructor
        · rintro (⟨a, b⟩ | ⟨a, b⟩)
          · subst a b; exact ⟨Or.inl ⟨rfl, rfl⟩, by omega⟩
          · exact ⟨Or.inr a, b⟩
        · rintro ⟨(⟨a, b⟩ | a), c⟩
          · exact Or.inl ⟨a, b⟩
          · exact Or.inr ⟨a, c⟩

theorem usableEntries_sorted (lenIV : Int) (es : List (Bytes × Option Bytes)) (h : SortedBy es) :
    SortedBy (usableEntries lenIV es) := by
  unfold SortedBy at *
  induction es with
  | nil => simp [usableEntries]
  | cons e es ih =>
    rw [List.pairwise_cons] at h
    obtain ⟨m, v⟩ := e
    cases v with
    | none => simpa [usableEntries] using ih h.2
    | some ob =>
      unfold usableEntries
      split
      · exact ih h.2
      · rw [List.pairwise_cons]
        refine ⟨?_, ih h.2⟩
        intro x hx
        obtain ⟨xn, xo⟩ := x
        exact h.1 (xn, some xo) ((mem_usableEntries lenIV es xn xo).mp hx).1

/-- the glyph of one usable entry, `none` when its charstring does not decode -/
def decodedOf (subrs : List (List Nat)) (lenIV : Int) (ob : Bytes) : Option DState :=
  match decodeCharString subrs (plainOf ob lenIV) with
  | .ok d => some d
  | .error _ => none

/-- glyphs and composites of a list of usable entries when each of them decodes -/
def glyphsOf (subrs : List (List Nat)) (lenIV : Int) : List (Bytes × Bytes) → List (Bytes × Glyph)
  | [] => []
  | (n, ob) :: rest =>
    match decodeCharString subrs (plainOf ob lenIV) with
    | .ok d => (n, d.res) :: glyphsOf subrs lenIV rest
    | .error _ => glyphsOf subrs lenIV rest

def seacsOf (subrs : List (List Nat)) (lenIV : Int) : List (Bytes × Bytes) → List SeacInfo
  | [] => []
  | (n, ob) :: rest =>
    match decodeCharString subrs (plainOf ob lenIV) with
    | .ok d => d.seacs.map (fun s => { name := n, seac := s }) ++ seacsOf subrs lenIV rest
    | .error _ => seacsOf subrs lenIV rest

/-- does every usable entry decode -/
def allDecode (subrs : List (List Nat)) (lenIV : Int) (us : List (Bytes × Bytes)) : Prop :=
  ∀ e ∈ us, ∃ d, decodeCharString subrs (plainOf e.2 lenIV) = .ok d

theorem decodeAll_ok (subrs : List (List Nat)) (lenIV : Int) :
    ∀ (es : List (Bytes × Option Bytes)) (gs : List (Bytes × Glyph)) (ss : List SeacInfo),
      decodeAll subrs lenIV es = .ok (gs, ss) →
      allDecode subrs lenIV (usableEntries lenIV es) ∧ gs = glyphsOf subrs lenIV (usableEntries lenIV es) ∧
        ss = seacsOf subrs lenIV (usableEntries lenIV es) ∧ names gs = (usableEntries lenIV es).map (·.1) := by
  intro es
  induction es with
  | nil =>
    intro gs ss h
    simp only [decodeAll, Except.ok.injEq, Prod.mk.injEq] at h
    obtain ⟨rfl, rfl⟩ := h
    simp [usableEntries, glyphsOf, seacsOf, allDecode, names]
  | cons e es ih =>
    intro gs ss h
    obtain ⟨n, v⟩ := e
    cases v with
    | none =>
      simp only [decodeAll] at h
      simpa [usableEntries] using ih gs ss h
    | some ob =>
      simp only [decodeAll] at h
      by_cases hl : (ob.length : Int) < lenIV
      · simp only [hl, if_true] at h
        simpa [usableEntries, hl] using ih gs ss h
      · simp only [hl, if_false] at h
        cases hd : decodeCharString subrs (plainOf ob lenIV) with
        | error e => simp [hd] at h
        | ok d =>
          simp only [hd] at h
          cases hr : decodeAll subrs lenIV es with
          | error e => simp [hr] at h
          | ok p =>
            obtain ⟨gs0, ss0⟩ := p
            simp only [hr, Except.ok.injEq, Prod.mk.injEq] at h
            obtain ⟨rfl, rfl⟩ := h
            obtain ⟨h1, h2, h3, h4⟩ := ih gs0 ss0 hr
            simp only [usableEntries, hl, if_false]
            refine ⟨?_, ?_, ?_, ?_⟩
            · intro e he
              rcases List.mem_cons.mp he with he | he
              · subst he; exact ⟨d, hd⟩
              · exact h1 e he
            · simp [glyphsOf, hd, h2]
            · simp [seacsOf, hd, h3]
            · simp only [names, List.map_cons] at h4 ⊢
              rw [h4]

theorem decodeAll_error (subrs : List (List Nat)) (lenIV : Int) :
    ∀ (es : List (Bytes × Option Bytes)) (n : Bytes) (e : DErr),
      decodeAll subrs lenIV es = .error (.cs n e) →
      ∃ ob, (n, ob) ∈ usableEntries lenIV es ∧ decodeCharString subrs (plainOf ob lenIV) = .error e := by
  intro es
  induction es with
  | nil => intro n e h; simp [decodeAll] at h
  | cons x es ih =>
    intro n e h
    obtain ⟨m, v⟩ := x
    cases v with
    | none =>
      simp only [decodeAll] at h
      simpa [usableEntries] using ih n e h
    | some ob =>
      simp only [decodeAll] at h
      by_cases hl : (ob.length : Int) < lenIV
      · simp only [hl, if_true] at h
        simpa [usableEntries, hl] using ih n e h
      · simp only [hl, if_false] at h
        simp only [usableEntries, hl, if_false]
        cases hd : decodeCharString subrs (plainOf ob lenIV) with
        | error e' =>
          simp only [hd, Except.error.injEq, DecodeFail.cs.injEq] at h
          obtain ⟨rfl, rfl⟩ := h
          exact ⟨ob, List.mem_cons_self, hd⟩
        | ok d =>
          simp only [hd] at h
          cases hr : decodeAll subrs lenIV es with
          | error e' =>
            simp only [hr, Except.error.injEq] at h
            subst h
            obtain ⟨ob', h1, h2⟩ := ih n e hr
            exact ⟨ob', List.mem_cons_of_mem _ h1, h2⟩
          | ok p =>
            obtain ⟨gs0, ss0⟩ := p
            simp [hr] at h

/-- every usable charstring decodes, or the whole loop fails -/
theorem decodeAll_isOk_iff (subrs : List (List Nat)) (lenIV : Int) (es : List (Bytes × Option Bytes)) :
    (∃ gs ss, decodeAll subrs lenIV es = .ok (gs, ss)) ↔ allDecode subrs lenIV (usableEntries lenIV es) := by
  constructor
  · rintro ⟨gs, ss, h⟩
    exact (decodeAll_ok subrs lenIV es gs ss h).1
  · intro h
    cases hr : decodeAll subrs lenIV es with
    | ok p => exact ⟨p.1, p.2, rfl⟩
    | error f =>
      obtain ⟨n, e⟩ := f
      obtain ⟨ob, h1, h2⟩ := decodeAll_error subrs lenIV es n e hr
      obtain ⟨d, hd⟩ := h (n, ob) h1
      rw [hd] at h2
      cases h2

theorem seacsOf_names (subrs : List (List Nat)) (lenIV : Int) (us : List (Bytes × Bytes)) :
    ∀ si ∈ seacsOf subrs lenIV us, si.name ∈ names (glyphsOf subrs lenIV us) := by
  induction us with
  | nil => intro si h; simp [seacsOf] at h
  | cons u us ih =>
    intro si h
    obtain ⟨n, ob⟩ := u
    unfold seacsOf at h
    unfold glyphsOf
    cases hd : decodeCharString subrs (plainOf ob lenIV) with
    | error e =>
      simp only [hd] at h ⊢
      exact ih si h
    | ok d =>
      simp only [hd] at h ⊢
      rcases List.mem_append.mp h with h | h
      · obtain ⟨s, _, rfl⟩ := List.mem_map.mp h
        simp [names]
      · have := ih si h
        simp only [names, List.map_cons, List.mem_cons]
        exact Or.inr this

/-! ## composites -/

theorem resolveOne_names (comp : List Bytes) (gs gs' : List (Bytes × Glyph)) (si : SeacInfo)
    (h : resolveOne comp gs si = some gs') : names gs' = names gs := by
  unfold resolveOne at h
  split at h
  · cases h; rfl
  · dsimp only at h
    split at h
    · cases h; rfl
    · split at h
      · split at h
        · cases h
        · cases h; exact names_setG _ _ _
      · cases h; rfl

/-- the dereference of `glyphs[seac.name]` is safe as long as the composite's own name is a glyph -/
theorem resolveOne_some (comp : List Bytes) (gs : List (Bytes × Glyph)) (si : SeacInfo) (h : si.name ∈ names gs) :
    ∃ gs', resolveOne comp gs si = some gs' := by
  unfold resolveOne
  split
  · exact ⟨_, rfl⟩
  · dsimp only
    split
    · exact ⟨_, rfl⟩
    · split
      · split
        · rename_i hn
          exact absurd h ((lookupG_eq_none_iff gs si.name).mp hn)
        · exact ⟨_, rfl⟩
      · exact ⟨_, rfl⟩

theorem resolveSeacs_some (comp : List Bytes) : ∀ (ss : List SeacInfo) (gs : List (Bytes × Glyph)),
    (∀ si ∈ ss, si.name ∈ names gs) → ∃ gs', resolveSeacs comp ss gs = some gs' ∧ names gs' = names gs := by
  intro ss
  induction ss with
  | nil => intro gs _; exact ⟨gs, rfl, rfl⟩
  | cons si ss ih =>
    intro gs h
    obtain ⟨g1, h1⟩ := resolveOne_some comp gs si (h si List.mem_cons_self)
    have hn := resolveOne_names comp gs g1 si h1
    obtain ⟨g2, h2, h3⟩ := ih g1 (fun s hs => by rw [hn]; exact h s (List.mem_cons_of_mem _ hs))
    refine ⟨g2, ?_, h3.trans hn⟩
    simp [resolveSeacs, h1, h2]

theorem resolveSeacs_names (comp : List Bytes) : ∀ (ss : List SeacInfo) (gs gs' : List (Bytes × Glyph)),
    resolveSeacs comp ss gs = some gs' → names gs' = names gs := by
  intro ss
  induction ss with
  | nil => intro gs gs' h; simp [resolveSeacs] at h; rw [h]
  | cons si ss ih =>
    intro gs gs' h
    unfold resolveSeacs at h
    cases h1 : resolveOne comp gs si with
    | none => simp [h1] at h
    | some g1 =>
      simp only [h1] at h
      exact (ih g1 gs' h).trans (resolveOne_names comp gs g1 si h1)

/-- one turn of the loop leaves every glyph other than the composite itself as it was -/
theorem resolveOne_other (comp : List Bytes) (gs gs' : List (Bytes × Glyph)) (si : SeacInfo) (n : Bytes)
    (h : resolveOne comp gs si = some gs') (hn : n ≠ si.name) : lookupG gs' n = lookupG gs n := by
  unfold resolveOne at h
  split at h
  · cases h; rfl
  · dsimp only at h
    split at h
    · cases h; rfl
    · split at h
      · split at h
        · cases h
        · cases h; rw [lookupG_setG]; simp [hn]
      · cases h; rfl

/-- the glyphs that are not composites come out of the loop unchanged: in particular a base glyph is not
modified by the composites built on it -/
theorem resolveSeacs_unchanged (comp : List Bytes) : ∀ (ss : List SeacInfo) (gs gs' : List (Bytes × Glyph)) (n : Bytes),
    resolveSeacs comp ss gs = some gs' → (∀ si ∈ ss, si.name ≠ n) → lookupG gs' n = lookupG gs n := by
  intro ss
  induction ss with
  | nil => intro gs gs' n h _; simp [resolveSeacs] at h; rw [h]
  | cons si ss ih =>
    intro gs gs' n h hn
    unfold resolveSeacs at h
    cases h1 : resolveOne comp gs si with
    | none => simp [h1] at h
    | some g1 =>
      simp only [h1] at h
      rw [ih g1 gs' n h (fun s hs => hn s (List.mem_cons_of_mem _ hs))]
      exact resolveOne_other comp gs g1 si n h1 (fun e => hn si List.mem_cons_self e.symm)

/-- the hypotheses under which one turn of the loop composes: both codes are in `0 … 255`, their names in the
standard encoding are not names of composites and are glyphs; `own` is the composite as its charstring was decoded -/
structure Composable (comp : List Bytes) (gs : List (Bytes × Glyph)) (si : SeacInfo) (own base accent : Glyph) : Prop where
  codes : codesOK si.seac = true
  baseNC : codeName si.seac.base ∉ comp
  accentNC : codeName si.seac.accent ∉ comp
  base : lookupG gs (codeName si.seac.base) = some base
  accent : lookupG gs (codeName si.seac.accent) = some accent
  own : lookupG gs si.name = some own

theorem contains_false_of_not_mem {comp : List Bytes} {n : Bytes} (h : n ∉ comp) : comp.contains n = false := by
  cases hc : comp.contains n
  · rfl
  · exact absurd (List.contains_iff_mem.mp hc) h

theorem contains_true_of_mem {comp : List Bytes} {n : Bytes} (h : n ∈ comp) : comp.contains n = true :=
  List.contains_iff_mem.mpr h

/-- one turn on a composable composite whose accent is not the composite itself -/
theorem resolveOne_composite (comp : List Bytes) (gs : List (Bytes × Glyph)) (si : SeacInfo) (own base accent : Glyph)
    (hc : Composable comp gs si own base accent) (ha : codeName si.seac.accent ≠ si.name) :
    resolveOne comp gs si = some (setG gs si.name (composite own base accent.cmds si.seac)) := by
  unfold resolveOne
  simp only [hc.codes, Bool.not_true, Bool.false_eq_true, if_false, hc.base, hc.accent, hc.own, beq_iff_eq, ha,
    contains_false_of_not_mem hc.baseNC, contains_false_of_not_mem hc.accentNC, Bool.or_self]

/-- the accent is the composite itself and the composite's name is not in `comp` (this does not happen in `extract`,
where `comp` holds the names of all composites): the loop reads the commands it has just copied from the base -/
theorem resolveOne_composite_self (comp : List Bytes) (gs : List (Bytes × Glyph)) (si : SeacInfo) (own base accent : Glyph)
    (hc : Composable comp gs si own base accent) (ha : codeName si.seac.accent = si.name) :
    resolveOne comp gs si = some (setG gs si.name (composite own base base.cmds si.seac)) := by
  have h2 : comp.contains si.name = false := by
    rw [← ha]; exact contains_false_of_not_mem hc.accentNC
  unfold resolveOne
  simp only [hc.codes, Bool.not_true, Bool.false_eq_true, if_false, hc.base, hc.accent, hc.own, beq_iff_eq, ha, if_true,
    contains_false_of_not_mem hc.baseNC, h2, Bool.or_self]

/-- a composite whose base or accent is the name of a composite is left as decoded -/
theorem resolveOne_parts_composite (comp : List Bytes) (gs : List (Bytes × Glyph)) (si : SeacInfo)
    (h : codeName si.seac.base ∈ comp ∨ codeName si.seac.accent ∈ comp) : resolveOne comp gs si = some gs := by
  unfold resolveOne
  by_cases hc : codesOK si.seac = true
  · rcases h with h | h
    · simp only [hc, Bool.not_true, Bool.false_eq_true, if_false, contains_true_of_mem h, Bool.true_or, if_true]
    · simp only [hc, Bool.not_true, Bool.false_eq_true, if_false, contains_true_of_mem h, Bool.or_true, if_true]
  · simp [hc]

/-- a composite that cannot be composed (a code outside `0 … 255`, a part that is a composite, or a part naming
no glyph) is left as decoded -/
theorem resolveOne_skip (comp : List Bytes) (gs : List (Bytes × Glyph)) (si : SeacInfo)
    (h : codesOK si.seac = false ∨ codeName si.seac.base ∈ comp ∨ codeName si.seac.accent ∈ comp ∨
      lookupG gs (codeName si.seac.base) = none ∨ lookupG gs (codeName si.seac.accent) = none) :
    resolveOne comp gs si = some gs := by
  rcases h with h | h | h | h | h
  · unfold resolveOne; simp [h]
  · exact resolveOne_parts_composite comp gs si (Or.inl h)
  · exact resolveOne_parts_composite comp gs si (Or.inr h)
  · unfold resolveOne
    by_cases hc : codesOK si.seac = true
    · simp only [hc, Bool.not_true, Bool.false_eq_true, if_false, h]
      split <;> rfl
    · simp [hc]
  · unfold resolveOne
    by_cases hc : codesOK si.seac = true
    · simp only [hc, Bool.not_true, Bool.false_eq_true, if_false, h]
      split
      · rfl
      · split <;> simp_all
    · simp [hc]

/-- **the whole loop**: a composite that occurs once in the list, whose base and accent are not composites, ends up
with the base's outline followed by the accent's outline moved by `(adx, ady)`, the base's stems and **its own
width** — whatever other composites there are, on the same base or not, and in whatever order. -/
theorem resolveSeacs_composite (comp : List Bytes) (pre post : List SeacInfo) (si : SeacInfo)
    (gs gs' : List (Bytes × Glyph)) (own base accent : Glyph)
    (h : resolveSeacs comp (pre ++ si :: post) gs = some gs')
    (hc : Composable comp gs si own base accent)
    (hpre : ∀ s ∈ pre, s.name ≠ si.name) (hpost : ∀ s ∈ post, s.name ≠ si.name)
    (hcomp : ∀ s ∈ pre, s.name ∈ comp) (hself : si.name ∈ comp) :
    lookupG gs' si.name = some (composite own base accent.cmds si.seac) := by
  have hne : codeName si.seac.accent ≠ si.name := fun e => hc.accentNC (e ▸ hself)
  induction pre generalizing gs with
  | nil =>
    simp only [List.nil_append, resolveSeacs] at h
    rw [resolveOne_composite comp gs si own base accent hc hne] at h
    simp only at h
    rw [resolveSeacs_unchanged comp post _ gs' si.name h hpost, lookupG_setG]
    have : si.name ∈ names gs := by
      rw [← lookupG_isSome_iff, hc.own]; rfl
    simp [this]
  | cons p pre ih =>
    simp only [List.cons_append, resolveSeacs] at h
    cases h1 : resolveOne comp gs p with
    | none => simp [h1] at h
    | some g1 =>
      simp only [h1] at h
      have hpc : p.name ∈ comp := hcomp p List.mem_cons_self
      have hp1 : si.name ≠ p.name := fun e => hpre p List.mem_cons_self e.symm
      have hp2 : codeName si.seac.base ≠ p.name := fun e => hc.baseNC (e ▸ hpc)
      have hp3 : codeName si.seac.accent ≠ p.name := fun e => hc.accentNC (e ▸ hpc)
      refine ih g1 h ⟨hc.codes, hc.baseNC, hc.accentNC, ?_, ?_, ?_⟩ (fun s hs => hpre s (List.mem_cons_of_mem _ hs))
        (fun s hs => hcomp s (List.mem_cons_of_mem _ hs))
      · rw [resolveOne_other comp gs g1 p _ h1 hp2]; exact hc.base
      · rw [resolveOne_other comp gs g1 p _ h1 hp3]; exact hc.accent
      · rw [resolveOne_other comp gs g1 p _ h1 hp1]; exact hc.own

/-! ### what every name ends up as: the result does not depend on the order of the composites -/

/-- the glyph the composite `si` becomes, from the glyphs as decoded (`own` is the composite as decoded) -/
def resolvedGlyph (comp : List Bytes) (gs : List (Bytes × Glyph)) (si : SeacInfo) (own : Glyph) : Glyph :=
  if codesOK si.seac = true ∧ codeName si.seac.base ∉ comp ∧ codeName si.seac.accent ∉ comp then
    match lookupG gs (codeName si.seac.base), lookupG gs (codeName si.seac.accent) with
    | some base, some accent => composite own base accent.cmds si.seac
    | _, _ => own
  else own

/-- `resolvedGlyph` reads only glyphs that are not composites -/
theorem resolvedGlyph_congr (comp : List Bytes) (g1 g2 : List (Bytes × Glyph)) (si : SeacInfo) (own : Glyph)
    (h : ∀ n, n ∉ comp → lookupG g1 n = lookupG g2 n) : resolvedGlyph comp g1 si own = resolvedGlyph comp g2 si own := by
  unfold resolvedGlyph
  split
  · rename_i hc
    rw [h _ hc.2.1, h _ hc.2.2]
  · rfl

/-- `resolvedGlyph` depends on `comp` as a set only -/
theorem resolvedGlyph_comp_congr (c1 c2 : List Bytes) (gs : List (Bytes × Glyph)) (si : SeacInfo) (own : Glyph)
    (h : ∀ n, n ∈ c1 ↔ n ∈ c2) : resolvedGlyph c1 gs si own = resolvedGlyph c2 gs si own := by
  unfold resolvedGlyph
  simp only [h]

theorem resolveOne_lookup_self (comp : List Bytes) (gs g1 : List (Bytes × Glyph)) (si : SeacInfo)
    (h : resolveOne comp gs si = some g1) (hs : si.name ∈ comp) :
    lookupG g1 si.name = (lookupG gs si.name).map (resolvedGlyph comp gs si) := by
  have skip : ∀ (hr : ∀ own, resolvedGlyph comp gs si own = own),
      lookupG gs si.name = (lookupG gs si.name).map (resolvedGlyph comp gs si) := by
    intro hr
    cases lookupG gs si.name with
    | none => rfl
    | some o => simp [hr]
  by_cases hc : codesOK si.seac = true
  · by_cases hb : codeName si.seac.base ∈ comp ∨ codeName si.seac.accent ∈ comp
    · rw [resolveOne_parts_composite comp gs si hb] at h
      cases h
      apply skip
      intro own
      unfold resolvedGlyph
      rw [if_neg]
      intro hh
      rcases hb with hb | hb
      · exact hh.2.1 hb
      · exact hh.2.2 hb
    · have hb1 : codeName si.seac.base ∉ comp := fun e => hb (Or.inl e)
      have hb2 : codeName si.seac.accent ∉ comp := fun e => hb (Or.inr e)
      cases hl1 : lookupG gs (codeName si.seac.base) with
      | none =>
        rw [resolveOne_skip comp gs si (Or.inr (Or.inr (Or.inr (Or.inl hl1))))] at h
        cases h
        apply skip
        intro own
        simp [resolvedGlyph, hl1]
      | some base =>
        cases hl2 : lookupG gs (codeName si.seac.accent) with
        | none =>
          rw [resolveOne_skip comp gs si (Or.inr (Or.inr (Or.inr (Or.inr hl2))))] at h
          cases h
          apply skip
          intro own
          simp [resolvedGlyph, hl1, hl2]
        | some accent =>
          cases hl3 : lookupG gs si.name with
          | none =>
            have hnone : resolveOne comp gs si = none := by
              unfold resolveOne
              simp only [hc, Bool.not_true, Bool.false_eq_true, if_false, contains_false_of_not_mem hb1,
                contains_false_of_not_mem hb2, Bool.or_self, hl1, hl2, hl3]
            rw [hnone] at h
            cases h
          | some own =>
            have hne : codeName si.seac.accent ≠ si.name := fun e => hb2 (e ▸ hs)
            rw [resolveOne_composite comp gs si own base accent ⟨hc, hb1, hb2, hl1, hl2, hl3⟩ hne] at h
            cases h
            rw [lookupG_setG]
            have : si.name ∈ names gs := by
              rw [← lookupG_isSome_iff, hl3]; rfl
            simp [this, resolvedGlyph, hc, hb1, hb2, hl1, hl2]
  · have hc' : codesOK si.seac = false := by
      cases hcc : codesOK si.seac
      · rfl
      · exact absurd hcc hc
    rw [resolveOne_skip comp gs si (Or.inl hc')] at h
    cases h
    apply skip
    intro own
    simp [resolvedGlyph, hc']

/-- **what the loop computes**, when `comp` holds the names of all composites and no name is recorded twice: a
composite `si` becomes `resolvedGlyph comp gs si own`, computed from the glyphs *as decoded*; this does not mention
the position of `si` in the list -/
theorem resolveSeacs_lookup (comp : List Bytes) : ∀ (ss : List SeacInfo) (gs gs' : List (Bytes × Glyph)),
    resolveSeacs comp ss gs = some gs' → (∀ s ∈ ss, s.name ∈ comp) → (ss.map (·.name)).Nodup →
    ∀ si ∈ ss, lookupG gs' si.name = (lookupG gs si.name).map (resolvedGlyph comp gs si) := by
  intro ss
  induction ss with
  | nil => intro gs gs' _ _ _ si hsi; cases hsi
  | cons s rest ih =>
    intro gs gs' h hcomp hnd si hsi
    simp only [List.map_cons, List.nodup_cons, List.mem_map, not_exists, not_and] at hnd
    unfold resolveSeacs at h
    cases h1 : resolveOne comp gs s with
    | none => simp [h1] at h
    | some g1 =>
      simp only [h1] at h
      have hsc : s.name ∈ comp := hcomp s List.mem_cons_self
      rcases List.mem_cons.mp hsi with e | e
      · subst e
        rw [resolveSeacs_unchanged comp rest g1 gs' si.name h (fun t ht e => hnd.1 t ht e)]
        exact resolveOne_lookup_self comp gs g1 si h1 hsc
      · have hne : si.name ≠ s.name := fun e' => hnd.1 si e e'
        rw [ih g1 gs' h (fun t ht => hcomp t (List.mem_cons_of_mem _ ht)) hnd.2 si e,
          resolveOne_other comp gs g1 s si.name h1 hne]
        congr 1
        funext own
        apply resolvedGlyph_congr
        intro n hn
        exact resolveOne_other comp gs g1 s n h1 (fun e' => hn (e' ▸ hsc))

/-- **order independence**: two orders of the same composites (distinct names, all in `comp`) give glyph maps that
agree on every name -/
theorem resolveSeacs_perm (comp : List Bytes) (ss1 ss2 : List SeacInfo) (gs g1 g2 : List (Bytes × Glyph))
    (hp : ss1.Perm ss2) (hnd : (ss1.map (·.name)).Nodup) (hcomp : ∀ s ∈ ss1, s.name ∈ comp)
    (h1 : resolveSeacs comp ss1 gs = some g1) (h2 : resolveSeacs comp ss2 gs = some g2) :
    names g1 = names g2 ∧ ∀ n, lookupG g1 n = lookupG g2 n := by
  refine ⟨(resolveSeacs_names comp ss1 gs g1 h1).trans (resolveSeacs_names comp ss2 gs g2 h2).symm, ?_⟩
  intro n
  have hnd2 : (ss2.map (·.name)).Nodup := (hp.map _).nodup_iff.mp hnd
  have hcomp2 : ∀ s ∈ ss2, s.name ∈ comp := fun s hs => hcomp s (hp.mem_iff.mpr hs)
  by_cases hex : ∃ si ∈ ss1, si.name = n
  · obtain ⟨si, hsi, rfl⟩ := hex
    rw [resolveSeacs_lookup comp ss1 gs g1 h1 hcomp hnd si hsi,
      resolveSeacs_lookup comp ss2 gs g2 h2 hcomp2 hnd2 si (hp.mem_iff.mp hsi)]
  · have hn1 : ∀ s ∈ ss1, s.name ≠ n := fun s hs e => hex ⟨s, hs, e⟩
    have hn2 : ∀ s ∈ ss2, s.name ≠ n := fun s hs => hn1 s (hp.mem_iff.mpr hs)
    rw [resolveSeacs_unchanged comp ss1 gs g1 n h1 hn1, resolveSeacs_unchanged comp ss2 gs g2 n h2 hn2]

/-- two glyph lists with the same names (no name twice) and the same glyph under every name are equal -/
theorem glyphs_ext : ∀ (g1 g2 : List (Bytes × Glyph)), names g1 = names g2 → (names g1).Nodup →
    (∀ n, lookupG g1 n = lookupG g2 n) → g1 = g2 := by
  intro g1
  induction g1 with
  | nil => intro g2 hn _ _; cases g2 with
    | nil => rfl
    | cons q r => simp [names] at hn
  | cons p r1 ih =>
    intro g2 hn hnd hl
    cases g2 with
    | nil => simp [names] at hn
    | cons q r2 =>
      simp only [names, List.map_cons, List.cons.injEq] at hn
      have hnd' := hnd
      simp only [names, List.map_cons, List.nodup_cons] at hnd'
      have hpq : p = q := by
        have := hl p.1
        rw [lookupG_cons, lookupG_cons] at this
        simp only [if_true, hn.1.symm] at this
        simp only [Option.some.injEq] at this
        exact Prod.ext hn.1 this
      subst hpq
      congr 1
      apply ih r2 hn.2 hnd'.2
      intro n
      by_cases e : p.1 = n
      · subst e
        have a1 : lookupG r1 p.1 = none := (lookupG_eq_none_iff r1 p.1).mpr hnd'.1
        have a2 : lookupG r2 p.1 = none := by
          rw [lookupG_eq_none_iff]; unfold names; rw [← hn.2]; exact hnd'.1
        rw [a1, a2]
      · have := hl n
        rw [lookupG_cons, lookupG_cons] at this
        simpa [e] using this

/-- the loop depends on `comp` as a set only -/
theorem resolveOne_comp_congr (c1 c2 : List Bytes) (h : ∀ n, n ∈ c1 ↔ n ∈ c2) (gs : List (Bytes × Glyph)) (si : SeacInfo) :
    resolveOne c1 gs si = resolveOne c2 gs si := by
  have hc : ∀ n, c1.contains n = c2.contains n := by
    intro n
    rw [Bool.eq_iff_iff, List.contains_iff_mem, List.contains_iff_mem]
    exact h n
  unfold resolveOne
  simp only [hc]

theorem resolveSeacs_comp_congr (c1 c2 : List Bytes) (h : ∀ n, n ∈ c1 ↔ n ∈ c2) :
    ∀ (ss : List SeacInfo) (gs : List (Bytes × Glyph)), resolveSeacs c1 ss gs = resolveSeacs c2 ss gs := by
  intro ss
  induction ss with
  | nil => intro gs; rfl
  | cons s rest ih =>
    intro gs
    unfold resolveSeacs
    rw [resolveOne_comp_congr c1 c2 h gs s]
    cases resolveOne c2 gs s with
    | none => rfl
    | some g1 => exact ih g1

/-! ### size: composites cannot blow up -/

/-- the largest number of commands of a glyph in the list -/
def maxCmds : List (Bytes × Glyph) → Nat
  | [] => 0
  | p :: r => max p.2.cmds.length (maxCmds r)

theorem le_maxCmds {gs : List (Bytes × Glyph)} {p : Bytes × Glyph} (h : p ∈ gs) : p.2.cmds.length ≤ maxCmds gs := by
  induction gs with
  | nil => cases h
  | cons q r ih =>
    unfold maxCmds
    rcases List.mem_cons.mp h with e | e
    · subst e; exact Nat.le_max_left _ _
    · exact Nat.le_trans (ih e) (Nat.le_max_right _ _)

theorem mem_setG {gs : List (Bytes × Glyph)} {n : Bytes} {g : Glyph} {p : Bytes × Glyph} (h : p ∈ setG gs n g) :
    p ∈ gs ∨ p = (n, g) := by
  unfold setG at h
  obtain ⟨q, hq, e⟩ := List.mem_map.mp h
  by_cases c : q.1 = n
  · simp [c] at e; exact Or.inr e.symm
  · simp [c] at e; subst e; exact Or.inl hq

/-- one turn: a glyph of the new list is a glyph of the old list, or it is made of two glyphs of the old list whose
names are not in `comp` -/
theorem resolveOne_mem (comp : List Bytes) (gs g1 : List (Bytes × Glyph)) (si : SeacInfo)
    (h : resolveOne comp gs si = some g1) (p : Bytes × Glyph) (hp : p ∈ g1) :
    p ∈ gs ∨ ∃ bn an base accent, bn ∉ comp ∧ an ∉ comp ∧ lookupG gs bn = some base ∧ lookupG gs an = some accent ∧
      p.2.cmds.length ≤ base.cmds.length + max base.cmds.length accent.cmds.length := by
  unfold resolveOne at h
  split at h
  · cases h; exact Or.inl hp
  · dsimp only at h
    split at h
    · cases h; exact Or.inl hp
    · rename_i hcont
      simp only [Bool.or_eq_true, not_or, Bool.not_eq_true] at hcont
      split at h
      · rename_i base accent hb ha
        split at h
        · cases h
        · cases h
          rcases mem_setG hp with e | e
          · exact Or.inl e
          · refine Or.inr ⟨_, _, base, accent, ?_, ?_, hb, ha, ?_⟩
            · intro e'; rw [contains_true_of_mem e'] at hcont; cases hcont.1
            · intro e'; rw [contains_true_of_mem e'] at hcont; cases hcont.2
            · subst e
              simp only [composite, List.length_append, List.length_map]
              split
              · exact Nat.add_le_add_left (Nat.le_max_left _ _) _
              · exact Nat.add_le_add_left (Nat.le_max_right _ _) _
      · cases h; exact Or.inl hp

/-- **size bound**: when `comp` holds the names of all composites, every glyph after the loop has at most twice as
many commands as the largest glyph *as decoded* -/
theorem resolveSeacs_size (comp : List Bytes) (gs0 : List (Bytes × Glyph)) :
    ∀ (ss : List SeacInfo) (gs gs' : List (Bytes × Glyph)),
      resolveSeacs comp ss gs = some gs' → (∀ s ∈ ss, s.name ∈ comp) →
      (∀ n, n ∉ comp → lookupG gs n = lookupG gs0 n) → (∀ p ∈ gs, p.2.cmds.length ≤ 2 * maxCmds gs0) →
      ∀ p ∈ gs', p.2.cmds.length ≤ 2 * maxCmds gs0 := by
  intro ss
  induction ss with
  | nil => intro gs gs' h _ _ hb; simp [resolveSeacs] at h; subst h; exact hb
  | cons s rest ih =>
    intro gs gs' h hcomp hun hb
    unfold resolveSeacs at h
    cases h1 : resolveOne comp gs s with
    | none => simp [h1] at h
    | some g1 =>
      simp only [h1] at h
      have hsc : s.name ∈ comp := hcomp s List.mem_cons_self
      refine ih g1 gs' h (fun t ht => hcomp t (List.mem_cons_of_mem _ ht)) ?_ ?_
      · intro n hn
        rw [resolveOne_other comp gs g1 s n h1 (fun e => hn (e ▸ hsc))]
        exact hun n hn
      · intro p hp
        rcases resolveOne_mem comp gs g1 s h1 p hp with e | ⟨bn, an, base, accent, hbn, han, hb1, ha1, hlen⟩
        · exact hb p e
        · rw [hun bn hbn] at hb1
          rw [hun an han] at ha1
          have m1 := le_maxCmds (lookupG_mem hb1)
          have m2 := le_maxCmds (lookupG_mem ha1)
          simp only at m1 m2
          have : max base.cmds.length accent.cmds.length ≤ maxCmds gs0 := Nat.max_le.mpr ⟨m1, m2⟩
          omega

theorem resolveSeacs_size_bound (comp : List Bytes) (ss : List SeacInfo) (gs gs' : List (Bytes × Glyph))
    (h : resolveSeacs comp ss gs = some gs') (hcomp : ∀ s ∈ ss, s.name ∈ comp) :
    ∀ p ∈ gs', p.2.cmds.length ≤ 2 * maxCmds gs :=
  resolveSeacs_size comp gs ss gs gs' h hcomp (fun _ _ => rfl)
    (fun p hp => Nat.le_trans (le_maxCmds hp) (by omega))

/-- the total number of commands -/
def totalCmds (gs : List (Bytes × Glyph)) : Nat := (gs.map (fun p => p.2.cmds.length)).sum

theorem totalCmds_le (gs : List (Bytes × Glyph)) (B : Nat) (h : ∀ p ∈ gs, p.2.cmds.length ≤ B) :
    totalCmds gs ≤ gs.length * B := by
  unfold totalCmds
  induction gs with
  | nil => simp
  | cons p r ih =>
    simp only [List.map_cons, List.sum_cons, List.length_cons]
    have := ih (fun q hq => h q (List.mem_cons_of_mem _ hq))
    have := h p List.mem_cons_self
    rw [Nat.add_mul]
    omega

/-! ## `.notdef` -/

theorem lookupG_addNotdef (gs : List (Bytes × Glyph)) (n : Bytes) (hn : n ≠ notdef) :
    lookupG (addNotdef gs) n = lookupG gs n := by
  unfold addNotdef
  cases h : lookupG gs notdef with
  | some g => rfl
  | none =>
    simp only
    rw [lookupG_insertE _ _ _ ((lookupG_eq_none_iff gs notdef).mp h)]
    simp [hn]

theorem lookupG_addNotdef_present (gs : List (Bytes × Glyph)) (g : Glyph) (h : lookupG gs notdef = some g) :
    addNotdef gs = gs := by
  unfold addNotdef; rw [h]

/-- the glyph added for a missing `.notdef`: empty, with the width of `space` (0 without one) -/
def notdefFor (gs : List (Bytes × Glyph)) : Glyph :=
  { widthX := match lookupG gs space with
      | some g => g.widthX
      | none => 0 }

theorem lookupG_addNotdef_absent (gs : List (Bytes × Glyph)) (h : lookupG gs notdef = none) :
    lookupG (addNotdef gs) notdef = some (notdefFor gs) := by
  unfold addNotdef
  simp only [h]
  rw [lookupG_insertE _ _ _ ((lookupG_eq_none_iff gs notdef).mp h)]
  cases hs : lookupG gs space <;> simp [notdefFor, hs]

theorem mem_names_addNotdef (gs : List (Bytes × Glyph)) (n : Bytes) :
    n ∈ names (addNotdef gs) ↔ n = notdef ∨ n ∈ names gs := by
  unfold addNotdef
  cases h : lookupG gs notdef with
  | some g =>
    simp only
    constructor
    · exact Or.inr
    · rintro (e | e)
      · subst e
        rw [← lookupG_isSome_iff, h]; rfl
      · exact e
  | none =>
    simp only
    rw [(names_insertE _ gs).mem_iff]
    simp

theorem addNotdef_sorted (gs : List (Bytes × Glyph)) (h : SortedBy gs) : SortedBy (addNotdef gs) := by
  unfold addNotdef
  split
  · exact h
  · exact insertE_sorted _ _ h

/-! ## the extraction as a whole -/

/-- the Private dictionary of the one font -/
def privateOf (vm : VM) : Option (List (Name × Obj)) :=
  match fontDictOf vm with
  | some fd => asDict vm (dictLookup fd "Private")
  | none => none

/-- the FontInfo dictionary of the one font -/
def fontInfoOf (vm : VM) : Option (List (Name × Obj)) :=
  match fontDictOf vm with
  | some fd => asDict vm (dictLookup fd "FontInfo")
  | none => none

/-- the CharStrings dictionary of the one font -/
def charStringsOf (vm : VM) : Option (List (Name × Obj)) :=
  match fontDictOf vm with
  | some fd => asDict vm (dictLookup fd "CharStrings")
  | none => none

/-- what the extraction has in hand before the composites are resolved: the encoding as read, the decoded glyphs
(in name order) and the recorded composites -/
def stageOf (vm : VM) : Option (List Bytes × List (Bytes × Glyph) × List SeacInfo) :=
  match fontDictOf vm with
  | none => none
  | some fd =>
    match asDict vm (dictLookup fd "Private"), encodingOf vm (dictLookup fd "Encoding"),
          asDict vm (dictLookup fd "CharStrings") with
    | some pd, some enc, some cs =>
      match decodeAll (subrsOf vm pd (lenIVOf pd)) (lenIVOf pd) (csEntries vm cs) with
      | .ok (gs, ss) => some (enc, gs, ss)
      | .error _ => none
    | _, _, _ => none

/-- **decomposition of a successful extraction** -/
theorem extract_ok {vm : VM} {dsc : List (String × String)} {f : Font} (h : extract vm dsc = .ok f) :
    ∃ fd fi fm pd enc cs gs ss gs1,
      fontDictOf vm = some fd ∧ dictLookup fd "FontType" = some (.int 1) ∧
      asDict vm (dictLookup fd "FontInfo") = some fi ∧ fontMatrixOf vm (dictLookup fd "FontMatrix") = some fm ∧
      asDict vm (dictLookup fd "Private") = some pd ∧ encodingOf vm (dictLookup fd "Encoding") = some enc ∧
      asDict vm (dictLookup fd "CharStrings") = some cs ∧
      decodeAll (subrsOf vm pd (lenIVOf pd)) (lenIVOf pd) (csEntries vm cs) = .ok (gs, ss) ∧
      resolveSeacs (compositeNames ss) ss gs = some gs1 ∧
      f = { info := infoOf vm fd fi fm, priv := privOf vm pd, glyphs := addNotdef gs1,
            encoding := fixEncoding (addNotdef gs1) enc, dates := datesOf dsc } := by
  unfold extract at h
  split at h
  · cases h
  · rename_i fd hfd
    split at h
    · rename_i hft
      split at h
      · cases h
      · rename_i fi hfi
        split at h
        · cases h
        · rename_i fm hfm
          split at h
          · cases h
          · rename_i pd hpd
            split at h
            · cases h
            · rename_i enc henc
              split at h
              · cases h
              · rename_i cs hcs
                split at h
                · cases h
                · cases h
                · cases h
                · rename_i gs ss hdec
                  split at h
                  · cases h
                  · rename_i gs1 hres
                    simp only [ReadResult.ok.injEq] at h
                    exact ⟨fd, fi, fm, pd, enc, cs, gs, ss, gs1, hfd, hft, hfi, hfm, hpd, henc, hcs, hdec, hres, h.symm⟩
    · cases h

/-- the extraction never dereferences a nil glyph pointer -/
theorem extract_no_panic (vm : VM) (dsc : List (String × String)) (site : String) : extract vm dsc ≠ .panic site := by
  intro h
  unfold extract at h
  split at h
  · cases h
  · split at h
    · split at h
      · cases h
      · split at h
        · cases h
        · split at h
          · cases h
          · rename_i pd _
            split at h
            · cases h
            · split at h
              · cases h
              · rename_i cs _
                split at h
                · cases h
                · cases h
                · cases h
                · rename_i gs ss hdec
                  split at h
                  · rename_i hres
                    obtain ⟨_, h2, h3, _⟩ := decodeAll_ok _ _ _ gs ss hdec
                    obtain ⟨g', hg, _⟩ := resolveSeacs_some (compositeNames ss) ss gs (by
                      intro si hsi
                      rw [h2]; rw [h3] at hsi
                      exact seacsOf_names _ _ _ si hsi)
                    rw [hg] at hres
                    cases hres
                  · cases h
    · cases h

theorem startState_eq : startState = { newInterpreter with checkStart := true } := rfl

/-- **totality**: `type1.Read` never panics -/
theorem readFont_no_panic (input : List UInt8) (site : String) : readFont input ≠ .panic site := by
  unfold readFont afterExecute
  dsimp only
  split
  · exact extract_no_panic _ _ _
  · intro h; cases h
  · rename_i s hs
    exact absurd hs (PsVerif.Props.C01NoPanic.execute_no_panic_checkStart _ _ _ _ s)
  · intro h; cases h

/-! ## further facts used by `Props/C06Read` -/

theorem mem_csEntries (vm : VM) (cs : List (Name × Obj)) (n : Bytes) (v : Option Bytes) :
    (n, v) ∈ csEntries vm cs ↔ ∃ k o, (k, o) ∈ cs ∧ nameBytes k = n ∧ csValue vm o = v := by
  unfold csEntries
  rw [(sortE_perm _).mem_iff, List.mem_map]
  constructor
  · rintro ⟨p, hp, he⟩
    simp only [Prod.mk.injEq] at he
    exact ⟨p.1, p.2, hp, he.1, he.2⟩
  · rintro ⟨k, o, hp, h1, h2⟩
    exact ⟨(k, o), hp, by simp [h1, h2]⟩

theorem csEntries_sorted (vm : VM) (cs : List (Name × Obj)) : SortedBy (csEntries vm cs) := sortE_sorted _

theorem extract_ok_stage {vm : VM} {dsc : List (String × String)} {f : Font} (h : extract vm dsc = .ok f) :
    ∃ enc gs ss gs1, stageOf vm = some (enc, gs, ss) ∧ resolveSeacs (compositeNames ss) ss gs = some gs1 ∧
      f.glyphs = addNotdef gs1 ∧ f.encoding = fixEncoding (addNotdef gs1) enc := by
  obtain ⟨fd, fi, fm, pd, enc, cs, gs, ss, gs1, h1, h2, h3, h4, h5, h6, h7, h8, h9, rfl⟩ := extract_ok h
  refine ⟨enc, gs, ss, gs1, ?_, h9, rfl, rfl⟩
  unfold stageOf
  simp only [h1, h5, h6, h7, h8]

/-- the pieces of `stageOf`, named -/
theorem stageOf_some {vm : VM} {enc : List Bytes} {gs : List (Bytes × Glyph)} {ss : List SeacInfo}
    (h : stageOf vm = some (enc, gs, ss)) :
    ∃ fd pd cs, fontDictOf vm = some fd ∧ privateOf vm = some pd ∧ charStringsOf vm = some cs ∧
      encodingOf vm (dictLookup fd "Encoding") = some enc ∧
      decodeAll (subrsOf vm pd (lenIVOf pd)) (lenIVOf pd) (csEntries vm cs) = .ok (gs, ss) := by
  unfold stageOf at h
  split at h
  · cases h
  · rename_i fd hfd
    split at h
    · rename_i pd enc' cs hpd henc hcs
      split at h
      · rename_i gs' ss' hdec
        simp only [Option.some.injEq, Prod.mk.injEq] at h
        obtain ⟨rfl, rfl, rfl⟩ := h
        refine ⟨fd, pd, cs, hfd, ?_, ?_, henc, hdec⟩
        · simp [privateOf, hfd, hpd]
        · simp [charStringsOf, hfd, hcs]
      · cases h
    · cases h

theorem lookupG_addNotdef_of_some (gs : List (Bytes × Glyph)) (n : Bytes) (g : Glyph) (h : lookupG gs n = some g) :
    lookupG (addNotdef gs) n = some g := by
  by_cases hn : n = notdef
  · subst hn
    rw [lookupG_addNotdef_present gs g h]; exact h
  · rw [lookupG_addNotdef gs n hn]; exact h

theorem fixEncoding_length (gs : List (Bytes × Glyph)) (enc : List Bytes) : (fixEncoding gs enc).length = enc.length := by
  simp [fixEncoding]

theorem fixEncoding_getD (gs : List (Bytes × Glyph)) (enc : List Bytes) (i : Nat) (hi : i < enc.length) :
    (fixEncoding gs enc).getD i [] = if enc.getD i [] ∈ names gs then enc.getD i [] else notdef := by
  unfold fixEncoding
  simp only [List.getD_eq_getElem?_getD, List.getElem?_map, List.getElem?_eq_getElem hi, Option.map_some, Option.getD_some]
  by_cases h : enc[i] ∈ names gs
  · simp [h, (lookupG_isSome_iff gs enc[i]).mpr h]
  · have : (lookupG gs enc[i]).isSome = false := by
      cases hl : (lookupG gs enc[i]).isSome
      · rfl
      · exact absurd ((lookupG_isSome_iff gs enc[i]).mp hl) h
    simp [h, this]

/-! ### lenIV -/

theorem plainOf_negative (ob : Bytes) (n : Int) (h : n < 0) : plainOf ob n = [] := by
  unfold plainOf
  rw [PsVerif.Props.Cipher.deobf_negative ob n h]
  rfl

theorem plainOf_too_long (ob : Bytes) (n : Int) (h : (ob.length : Int) < n) : plainOf ob n = [] := by
  unfold plainOf Cipher.deobfuscate
  simp [h, toNats]

theorem plainOf_ok (ob : Bytes) (n : Int) (h0 : 0 ≤ n) (h1 : n ≤ ob.length) :
    plainOf ob n = toNats ((Cipher.decrypt Cipher.charstringR ob).drop n.toNat) := by
  unfold plainOf Cipher.deobfuscate
  have : ¬ (n < 0 ∨ (ob.length : Int) < n) := by omega
  simp [this]

/-- whatever `lenIV` is, the plain text is never longer than the cipher text: no allocation is driven by the number -/
theorem plainOf_length_le (ob : Bytes) (n : Int) : (plainOf ob n).length ≤ ob.length := by
  unfold plainOf Cipher.deobfuscate toNats
  split
  · simp
  · simp [PsVerif.Props.Cipher.decrypt_length]

theorem decode_empty (subrs : List (List Nat)) : decodeCharString subrs [] = .ok {} := by
  unfold decodeCharString
  rw [show 2 * T1Decode.maxOps + 64 = 2000063 + 1 from rfl]
  simp [T1Decode.run]

theorem glyphsOf_negative (subrs : List (List Nat)) (lenIV : Int) (h : lenIV < 0) (us : List (Bytes × Bytes)) :
    (∀ p ∈ glyphsOf subrs lenIV us, p.2 = {}) ∧ seacsOf subrs lenIV us = [] ∧
      names (glyphsOf subrs lenIV us) = us.map (·.1) := by
  induction us with
  | nil => simp [glyphsOf, seacsOf, names]
  | cons u us ih =>
    obtain ⟨n, ob⟩ := u
    unfold glyphsOf seacsOf
    rw [plainOf_negative ob lenIV h, decode_empty]
    simp only
    refine ⟨?_, ?_, ?_⟩
    · intro p hp
      rcases List.mem_cons.mp hp with hp | hp
      · subst hp; rfl
      · exact ih.1 p hp
    · simp [ih.2.1]
    · simp only [names, List.map_cons] at ih ⊢
      rw [ih.2.2]

end PsVerif.Proofs.T1Read

#print axioms PsVerif.Proofs.T1Read.lookupG_nil
#print axioms PsVerif.Proofs.T1Read.lookupG_cons
#print axioms PsVerif.Proofs.T1Read.lookupG_isSome_iff
#print axioms PsVerif.Proofs.T1Read.lookupG_eq_none_iff
#print axioms PsVerif.Proofs.T1Read.lookupG_mem
#print axioms PsVerif.Proofs.T1Read.names_setG
#print axioms PsVerif.Proofs.T1Read.lookupG_setG
#print axioms PsVerif.Proofs.T1Read.insertE_perm
#print axioms PsVerif.Proofs.T1Read.sortE_perm
#print axioms PsVerif.Proofs.T1Read.insertE_sorted
#print axioms PsVerif.Proofs.T1Read.sortE_sorted
#print axioms PsVerif.Proofs.T1Read.names_insertE
#print axioms PsVerif.Proofs.T1Read.lookupG_insertE
#print axioms PsVerif.Proofs.T1Read.mem_usableEntries
#print axioms PsVerif.Proofs.T1Read.usableEntries_sorted
#print axioms PsVerif.Proofs.T1Read.decodeAll_ok
#print axioms PsVerif.Proofs.T1Read.decodeAll_error
#print axioms PsVerif.Proofs.T1Read.decodeAll_isOk_iff
#print axioms PsVerif.Proofs.T1Read.seacsOf_names
#print axioms PsVerif.Proofs.T1Read.resolveOne_names
#print axioms PsVerif.Proofs.T1Read.resolveOne_some
#print axioms PsVerif.Proofs.T1Read.resolveSeacs_some
#print axioms PsVerif.Proofs.T1Read.resolveSeacs_names
#print axioms PsVerif.Proofs.T1Read.resolveOne_other
#print axioms PsVerif.Proofs.T1Read.resolveSeacs_unchanged
#print axioms PsVerif.Proofs.T1Read.contains_false_of_not_mem
#print axioms PsVerif.Proofs.T1Read.contains_true_of_mem
#print axioms PsVerif.Proofs.T1Read.resolveOne_composite
#print axioms PsVerif.Proofs.T1Read.resolveOne_composite_self
#print axioms PsVerif.Proofs.T1Read.resolveOne_parts_composite
#print axioms PsVerif.Proofs.T1Read.resolveOne_skip
#print axioms PsVerif.Proofs.T1Read.resolveSeacs_composite
#print axioms PsVerif.Proofs.T1Read.resolvedGlyph_congr
#print axioms PsVerif.Proofs.T1Read.resolvedGlyph_comp_congr
#print axioms PsVerif.Proofs.T1Read.resolveOne_lookup_self
#print axioms PsVerif.Proofs.T1Read.resolveSeacs_lookup
#print axioms PsVerif.Proofs.T1Read.resolveSeacs_perm
#print axioms PsVerif.Proofs.T1Read.glyphs_ext
#print axioms PsVerif.Proofs.T1Read.resolveOne_comp_congr
#print axioms PsVerif.Proofs.T1Read.resolveSeacs_comp_congr
#print axioms PsVerif.Proofs.T1Read.le_maxCmds
#print axioms PsVerif.Proofs.T1Read.mem_setG
#print axioms PsVerif.Proofs.T1Read.resolveOne_mem
#print axioms PsVerif.Proofs.T1Read.resolveSeacs_size
#print axioms PsVerif.Proofs.T1Read.resolveSeacs_size_bound
#print axioms PsVerif.Proofs.T1Read.totalCmds_le
#print axioms PsVerif.Proofs.T1Read.lookupG_addNotdef
#print axioms PsVerif.Proofs.T1Read.lookupG_addNotdef_present
#print axioms PsVerif.Proofs.T1Read.lookupG_addNotdef_absent
#print axioms PsVerif.Proofs.T1Read.mem_names_addNotdef
#print axioms PsVerif.Proofs.T1Read.addNotdef_sorted
#print axioms PsVerif.Proofs.T1Read.extract_ok
#print axioms PsVerif.Proofs.T1Read.extract_no_panic
#print axioms PsVerif.Proofs.T1Read.startState_eq
#print axioms PsVerif.Proofs.T1Read.readFont_no_panic
#print axioms PsVerif.Proofs.T1Read.mem_csEntries
#print axioms PsVerif.Proofs.T1Read.csEntries_sorted
#print axioms PsVerif.Proofs.T1Read.extract_ok_stage
#print axioms PsVerif.Proofs.T1Read.stageOf_some
#print axioms PsVerif.Proofs.T1Read.lookupG_addNotdef_of_some
#print axioms PsVerif.Proofs.T1Read.fixEncoding_length
#print axioms PsVerif.Proofs.T1Read.fixEncoding_getD
#print axioms PsVerif.Proofs.T1Read.plainOf_negative
#print axioms PsVerif.Proofs.T1Read.plainOf_too_long
#print axioms PsVerif.Proofs.T1Read.plainOf_ok
#print axioms PsVerif.Proofs.T1Read.plainOf_length_le
#print axioms PsVerif.Proofs.T1Read.decode_empty
#print axioms PsVerif.Proofs.T1Read.glyphsOf_negative
