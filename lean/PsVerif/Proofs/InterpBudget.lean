import PsVerif.Proofs.InterpFuel
/-!
Budget transparency of the interpreter model: a call of any function of the mutual block with
operation budget `m` that does not end with `.err .limit` (Go: `ErrExecutionLimitExceeded`)
returns exactly the same pair as the call without a budget (`m = 0`).  "A program that does
not exceed the budget ends in exactly the state it reaches without a budget."

The simultaneous induction over the 13 functions is the one of `InterpFuel.lean`
(`AllRel.step`), instantiated with `bad := .err .limit` and the budgets `m` and `0`: the
budget is only read by the test at the start of `execTail`, and `.err .limit` is passed on
unchanged by every caller.
-/
namespace PsVerif.Proofs.InterpBudget
open PsVerif.Model PsVerif.Proofs.InterpFuel

/-- **the budget is transparent for calls that do not exceed it**, for all functions of the
mutual block at once -/
theorem budget_all (m : Nat) : ∀ f, AllRel (.err .limit) f m f 0
  | 0 =>
    ⟨fun _ _ _ => fun _ => by simp only [execOne],
     fun _ _ _ => fun _ => by simp only [execBody],
     fun _ _ _ _ => fun _ => by simp only [execTail],
     fun _ _ _ _ _ => fun _ => by simp only [runBody],
     fun _ _ => fun _ => by simp only [callBuiltin],
     fun _ _ _ _ _ => fun _ => by simp only [forLoop],
     fun _ _ _ => fun _ => by simp only [repeatLoop],
     fun _ _ => fun _ => by simp only [loopLoop],
     fun _ _ _ _ _ _ => fun _ => by simp only [forallArr],
     fun _ _ _ _ _ _ => fun _ => by simp only [forallStr],
     fun _ _ _ _ => fun _ => by simp only [forallDict],
     fun _ => fun _ => by simp only [scanRun],
     fun _ => fun _ => by simp only [scanLoop]⟩
  | f + 1 => (budget_all m f).step (Or.inr rfl) (Or.inr ⟨rfl, rfl⟩)

theorem execOne_budget (f m : Nat) (s : State) (o : Obj) (b : Bool)
    (h : (execOne f m s o b).2 ≠ .err .limit) : execOne f 0 s o b = execOne f m s o b :=
  (budget_all m f).one s o b h

theorem execBody_budget (f m : Nat) (s : State) (o : Obj) (b : Bool)
    (h : (execBody f m s o b).2 ≠ .err .limit) : execBody f 0 s o b = execBody f m s o b :=
  (budget_all m f).body s o b h

theorem execTail_budget (f m : Nat) (s : State) (o : Obj) (b c : Bool)
    (h : (execTail f m s o b c).2 ≠ .err .limit) : execTail f 0 s o b c = execTail f m s o b c :=
  (budget_all m f).tail s o b c h

theorem runBody_budget (f m : Nat) (s : State) (r o i n : Nat)
    (h : (runBody f m s r o i n).2 ≠ .err .limit) : runBody f 0 s r o i n = runBody f m s r o i n :=
  (budget_all m f).run s r o i n h

theorem callBuiltin_budget (f m : Nat) (s : State) (id : String)
    (h : (callBuiltin f m s id).2 ≠ .err .limit) : callBuiltin f 0 s id = callBuiltin f m s id :=
  (budget_all m f).call s id h

theorem forLoop_budget (f m : Nat) (s : State) (v i l : Int) (p : Obj)
    (h : (forLoop f m s v i l p).2 ≠ .err .limit) : forLoop f 0 s v i l p = forLoop f m s v i l p :=
  (budget_all m f).forL s v i l p h

theorem repeatLoop_budget (f m : Nat) (s : State) (n : Nat) (p : Obj)
    (h : (repeatLoop f m s n p).2 ≠ .err .limit) : repeatLoop f 0 s n p = repeatLoop f m s n p :=
  (budget_all m f).rep s n p h

theorem loopLoop_budget (f m : Nat) (s : State) (p : Obj)
    (h : (loopLoop f m s p).2 ≠ .err .limit) : loopLoop f 0 s p = loopLoop f m s p :=
  (budget_all m f).loop s p h

theorem forallArr_budget (f m : Nat) (s : State) (r o i n : Nat) (p : Obj)
    (h : (forallArr f m s r o i n p).2 ≠ .err .limit) : forallArr f 0 s r o i n p = forallArr f m s r o i n p :=
  (budget_all m f).fArr s r o i n p h

theorem forallStr_budget (f m : Nat) (s : State) (r o i n : Nat) (p : Obj)
    (h : (forallStr f m s r o i n p).2 ≠ .err .limit) : forallStr f 0 s r o i n p = forallStr f m s r o i n p :=
  (budget_all m f).fStr s r o i n p h

theorem forallDict_budget (f m : Nat) (s : State) (d : Nat) (ks : List Name) (p : Obj)
    (h : (forallDict f m s d ks p).2 ≠ .err .limit) : forallDict f 0 s d ks p = forallDict f m s d ks p :=
  (budget_all m f).fDict s d ks p h

theorem scanRun_budget (f m : Nat) (s : State)
    (h : (scanRun f m s).2 ≠ .err .limit) : scanRun f 0 s = scanRun f m s :=
  (budget_all m f).sRun s h

theorem scanLoop_budget (f m : Nat) (s : State)
    (h : (scanLoop f m s).2 ≠ .err .limit) : scanLoop f 0 s = scanLoop f m s :=
  (budget_all m f).sLoop s h

/-- **budget transparency of the top-level `Execute`**: a program that does not exceed the
budget ends in exactly the state it reaches without a budget -/
theorem execute_budget (f m : Nat) (s : State) (input : List UInt8) (fault : Option String)
    (h : (execute f m s input fault).2 ≠ .err .limit) :
    execute f 0 s input fault = execute f m s input fault :=
  rel_execute (Or.inr rfl) s input fault (budget_all m f).sRun h

#print axioms budget_all
#print axioms execOne_budget
#print axioms execTail_budget
#print axioms scanRun_budget
#print axioms execute_budget

end PsVerif.Proofs.InterpBudget
