import PsVerif.Model.T1Decode
import PsVerif.Props.C20
/-!
Helper lemmas for C06 (byte-level round trip of Type 1 charstrings in the integer domain).

Layers, bottom up:
1. numbers: `run_int`/`run_num` — one `run` step on `appendInt n ++ rest` pushes `n`
   (uses `C20.int_rt`); `run_op_cont`, `run_op2_cont`, `run_endchar` for operators;
2. instructions: `run_hmoveto … run_rrcurveto`, `run_closepath`, `run_hstem_pair`, `run_vstem_pair`,
   `run_hsbw`, `run_sbw` on canonical states `mk …`;
3. commands: `encodeCmdBytes_int` (what the encoder writes when all operands are `int32`
   integers) and `run_command` (the decoder executes exactly that command);
4. lists: `run_path`, `run_hstems`, `run_vstems` (induction, no bound on the length; the budget
   consumed is exactly `pathTokens`/`stemTokens`, fuel is threaded as `f + tokens`);
5. `decode_encode_state`: the assembled charstring.
The statements of the property are in `Props/C06Round.lean`.
-/

namespace PsVerif.Proofs.T1RoundTrip
open PsVerif.Model.T1Num PsVerif.Model.T1Encode PsVerif.Model.T1Decode
open PsVerif.Proofs.T1Encode

/-! ## integers inside `Rat` -/

theorem cast_num_of_den_one (r : Rat) (h : r.den = 1) : ((r.num : Int) : Rat) = r := by
  apply Rat.ext
  · simp
  · simp [h]

theorem isInt32_den {r : Rat} (h : isInt32 r = true) : r.den = 1 := by
  unfold isInt32 at h; simp at h; exact h.1

theorem isInt32_num {r : Rat} (h : isInt32 r = true) : inInt32 r.num := by
  unfold isInt32 at h; simp at h; exact h.2

theorem isInt32_cast {r : Rat} (h : isInt32 r = true) : ((r.num : Int) : Rat) = r :=
  cast_num_of_den_one r (isInt32_den h)

theorem isInt32_intCast (n : Int) (h : inInt32 n) : isInt32 (n : Rat) = true := by
  unfold isInt32; simp [h]

theorem num_of_isInt32 {r : Rat} (h : isInt32 r = true) : num r = appendInt r.num := by
  unfold num appendNumber; simp [h]

theorem val_of_isInt32 {r : Rat} (h : isInt32 r = true) : val r = r := by
  unfold val appendNumber; simp [h]

theorem int_abs_lt_eps {r : Rat} (h : isInt32 r = true) : r.abs < eps ↔ r = 0 := by
  have hc := isInt32_cast h
  rw [abs_lt_iff]
  constructor
  · intro ⟨h1, h2⟩
    rw [← hc] at h1 h2 ⊢
    have e : eps = 1 / 1000000 := rfl
    rw [e] at h1 h2
    have : r.num = 0 := by
      by_cases hp : 1 ≤ r.num
      · have : ((1 : Int) : Rat) ≤ (r.num : Rat) := Rat.intCast_le_intCast.mpr hp
        grind
      · by_cases hn : r.num ≤ -1
        · have : (r.num : Rat) ≤ ((-1 : Int) : Rat) := Rat.intCast_le_intCast.mpr hn
          grind
        · omega
    rw [this]; rfl
  · intro h0; subst h0; decide +kernel

theorem round_intCast (n : Int) : roundHalfAway (n : Rat) = n := by
  have h := round_err (n : Rat)
  generalize roundHalfAway (n : Rat) = m at h
  obtain ⟨h1, h2⟩ := h
  have e1 : (m : Rat) - (n : Rat) = ((m - n : Int) : Rat) := by simp [Rat.intCast_sub]
  have e2 : (n : Rat) - (m : Rat) = ((n - m : Int) : Rat) := by simp [Rat.intCast_sub]
  rw [e1] at h1; rw [e2] at h2
  by_cases hp : 1 ≤ m - n
  · have : ((1 : Int) : Rat) ≤ ((m - n : Int) : Rat) := Rat.intCast_le_intCast.mpr hp
    grind
  · by_cases hn : 1 ≤ n - m
    · have : ((1 : Int) : Rat) ≤ ((n - m : Int) : Rat) := Rat.intCast_le_intCast.mpr hn
      grind
    · omega

theorem int16OfRound_intCast (n : Int) : int16OfRound (n : Rat) = wrap16 n := by
  unfold int16OfRound wrap16; rw [round_intCast]

def inInt16 (x : Int) : Prop := -32768 ≤ x ∧ x ≤ 32767
instance (x : Int) : Decidable (inInt16 x) := by unfold inInt16; infer_instance

theorem stem_pair (a b : Int) (ha : inInt16 a) (hb : inInt16 b) :
    wrap16 (0 + wrap16 a) = a ∧ wrap16 (a + wrap16 (b - a)) = b := by
  unfold inInt16 at ha hb
  unfold wrap16
  simp only
  constructor
  · split <;> split <;> omega
  · split <;> split <;> omega

/-! ## decoder states in canonical form -/

/-- the decoder state with the fields that never change during the decoding of an encoder
output fixed to their initial values -/
def mk (st : List Rat) (cmds : List Cmd) (hs vs : List Int) (wx wy px py : Rat) (closed : Bool)
    (nops : Nat) : DState :=
  { stack := st, ps := [], flex := [],
    res := { cmds := cmds, hstem := hs, vstem := vs, widthX := wx, widthY := wy },
    posX := px, posY := py, lsbX := 0, lsbY := 0, isClosed := closed, inFlex := false,
    seacs := [], numOps := nops }

theorem init_eq : ({} : DState) = mk [] [] [] [] 0 0 0 0 true 0 := rfl

section
variable (subrs : List (List Nat)) (callers : List (List Nat))

/-- pushing one integer -/
theorem run_int (f : Nat) (d : DState) (n : Int) (hn : inInt32 n) (rest : List Nat)
    (hs : d.stack.length ≤ maxStack) (ho : d.numOps + 1 ≤ maxOps) :
    run subrs (f + 1) d (appendInt n ++ rest) callers
      = run subrs f { d with numOps := d.numOps + 1, stack := d.stack ++ [(n : Rat)] } rest callers := by
  have hrt := PsVerif.Props.C20.int_rt n hn rest
  cases hc : appendInt n ++ rest with
  | nil => rw [hc] at hrt; simp [decodeNum] at hrt
  | cons b tl =>
    rw [hc] at hrt
    conv => lhs; unfold run
    simp only [hrt]
    have h1 : ¬ d.stack.length > maxStack := by omega
    have h2 : ¬ d.numOps + 1 > maxOps := by omega
    simp only [h1, h2, if_false]

theorem run_num (f : Nat) (st : List Rat) (cmds : List Cmd) (hs vs : List Int) (wx wy px py : Rat)
    (closed : Bool) (nops : Nat) (r : Rat) (hr : isInt32 r = true) (rest : List Nat)
    (hst : st.length ≤ maxStack) (ho : nops + 1 ≤ maxOps) :
    run subrs (f + 1) (mk st cmds hs vs wx wy px py closed nops) (num r ++ rest) callers
      = run subrs f (mk (st ++ [r]) cmds hs vs wx wy px py closed (nops + 1)) rest callers := by
  rw [num_of_isInt32 hr, run_int subrs callers f _ _ (isInt32_num hr) rest hst ho, isInt32_cast hr]
  rfl

theorem decodeNum_op (b : Nat) (rest : List Nat) (hb : b < 32) : decodeNum (b :: rest) = .notNum := by
  unfold decodeNum
  have h1 : ¬ (32 ≤ b ∧ b ≤ 246) := by omega
  have h2 : ¬ (247 ≤ b ∧ b ≤ 250) := by omega
  have h3 : ¬ (251 ≤ b ∧ b ≤ 254) := by omega
  have h4 : ¬ b = 255 := by omega
  simp only [h1, h2, h3, h4, if_false]

/-- a one-byte operator after which the charstring continues -/
theorem run_op_cont (f : Nat) (d d' : DState) (b : Nat) (rest : List Nat) (hb : b < 32) (hb12 : b ≠ 12)
    (hs : d.stack.length ≤ maxStack) (ho : d.numOps + 1 ≤ maxOps)
    (h : execOp { d with numOps := d.numOps + 1 } b subrs.length = .cont d') :
    run subrs (f + 1) d (b :: rest) callers = run subrs f d' rest callers := by
  conv => lhs; unfold run
  have h1 : ¬ d.stack.length > maxStack := by omega
  have h2 : ¬ d.numOps + 1 > maxOps := by omega
  have h3 : (b == 12) = false := by simp [hb12]
  simp only [h1, h2, if_false, decodeNum_op b rest hb, h3, Bool.false_eq_true, h]

/-- a two-byte operator (12 b2) after which the charstring continues -/
theorem run_op2_cont (f : Nat) (d d' : DState) (b2 : Nat) (rest : List Nat)
    (hs : d.stack.length ≤ maxStack) (ho : d.numOps + 1 ≤ maxOps)
    (h : execOp { d with numOps := d.numOps + 1 } (12 * 256 + b2) subrs.length = .cont d') :
    run subrs (f + 1) d (12 :: b2 :: rest) callers = run subrs f d' rest callers := by
  conv => lhs; unfold run
  have h1 : ¬ d.stack.length > maxStack := by omega
  have h2 : ¬ d.numOps + 1 > maxOps := by omega
  simp only [h1, h2, if_false, decodeNum_op 12 _ (by omega), BEq.rfl, if_true, h]

/-- endchar -/
theorem run_endchar (f : Nat) (d : DState) (rest : List Nat)
    (hs : d.stack.length ≤ maxStack) (ho : d.numOps + 1 ≤ maxOps) :
    run subrs (f + 1) d (14 :: rest) callers = .ok { d with numOps := d.numOps + 1 } := by
  conv => lhs; unfold run
  have h1 : ¬ d.stack.length > maxStack := by omega
  have h2 : ¬ d.numOps + 1 > maxOps := by omega
  have h3 : execOp { d with numOps := d.numOps + 1 } 14 subrs.length = .done { d with numOps := d.numOps + 1 } := rfl
  simp only [h1, h2, if_false, decodeNum_op 14 _ (by omega), show (14 == 12) = false from rfl,
    Bool.false_eq_true, h3]

end

/-! ## the decoder's closures on canonical states -/

theorem rMoveTo_mk (st cmds hs vs wx wy px py closed nops) (dx dy : Rat) :
    rMoveTo (mk st cmds hs vs wx wy px py closed nops) dx dy
      = mk st (cmds ++ ((if closed then [] else [.closePath]) ++ [.moveTo (px + dx) (py + dy)]))
          hs vs wx wy (px + dx) (py + dy) true nops := by
  cases closed <;> simp [rMoveTo, mk, closePath]

theorem rLineTo_mk (st cmds hs vs wx wy px py closed nops) (dx dy : Rat) :
    rLineTo (mk st cmds hs vs wx wy px py closed nops) dx dy
      = mk st (cmds ++ [.lineTo (px + dx) (py + dy)]) hs vs wx wy (px + dx) (py + dy) false nops := rfl

theorem rCurveTo_mk (st cmds hs vs wx wy px py closed nops) (dxa dya dxb dyb dxc dyc : Rat) :
    rCurveTo (mk st cmds hs vs wx wy px py closed nops) dxa dya dxb dyb dxc dyc
      = mk st (cmds ++ [.curveTo (px + dxa) (py + dya) (px + dxa + dxb) (py + dya + dyb)
                          (px + dxa + dxb + dxc) (py + dya + dyb + dyc)])
          hs vs wx wy (px + dxa + dxb + dxc) (py + dya + dyb + dyc) closed nops := rfl

theorem closePath_mk (st cmds hs vs wx wy px py closed nops) :
    closePath (mk st cmds hs vs wx wy px py closed nops)
      = mk st (cmds ++ [.closePath]) hs vs wx wy px py true nops := rfl

theorem clear_mk (st cmds hs vs wx wy px py closed nops) :
    clear (mk st cmds hs vs wx wy px py closed nops) = mk [] cmds hs vs wx wy px py closed nops := rfl

/-! ## one instruction at a time -/

section
variable (subrs : List (List Nat)) (callers : List (List Nat))
variable (f : Nat) (acc : List Cmd) (hs vs : List Int) (wx wy px py : Rat) (closed : Bool) (nops : Nat)
variable (rest : List Nat)

theorem run_hmoveto (a : Rat) (ha : isInt32 a = true) (ho : nops + 2 ≤ maxOps) :
    run subrs (f + 2) (mk [] acc hs vs wx wy px py closed nops) (num a ++ (22 :: rest)) callers
      = run subrs f (mk [] (acc ++ ((if closed then [] else [.closePath]) ++ [.moveTo (px + a) (py + 0)]))
          hs vs wx wy (px + a) (py + 0) true (nops + 2)) rest callers := by
  rw [run_num subrs callers (f + 1) _ _ _ _ _ _ _ _ _ _ a ha _ (by simp [maxStack]) (by omega)]
  rw [run_op_cont subrs callers f _ (clear (rMoveTo (mk [a] acc hs vs wx wy px py closed (nops + 2)) a 0)) 22 rest
    (by omega) (by omega) (by simp [mk, maxStack]) (by simp [mk]; omega) rfl]
  rw [rMoveTo_mk, clear_mk]

theorem run_vmoveto (a : Rat) (ha : isInt32 a = true) (ho : nops + 2 ≤ maxOps) :
    run subrs (f + 2) (mk [] acc hs vs wx wy px py closed nops) (num a ++ (4 :: rest)) callers
      = run subrs f (mk [] (acc ++ ((if closed then [] else [.closePath]) ++ [.moveTo (px + 0) (py + a)])) hs vs wx wy (px + 0) (py + a) true (nops + 2)) rest callers := by
  rw [run_num subrs callers (f + 1) _ _ _ _ _ _ _ _ _ _ a ha _ (by simp [maxStack]) (by omega)]
  rw [run_op_cont subrs callers f _ (clear (rMoveTo (mk [a] acc hs vs wx wy px py closed (nops + 2)) 0 a)) 4 rest
    (by omega) (by omega) (by simp [mk, maxStack]) (by simp [mk]; omega) rfl]
  rw [rMoveTo_mk, clear_mk]

theorem run_rmoveto (a b : Rat) (ha : isInt32 a = true) (hb : isInt32 b = true) (ho : nops + 3 ≤ maxOps) :
    run subrs (f + 3) (mk [] acc hs vs wx wy px py closed nops) (num a ++ (num b ++ (21 :: rest))) callers
      = run subrs f (mk [] (acc ++ ((if closed then [] else [.closePath]) ++ [.moveTo (px + a) (py + b)])) hs vs wx wy (px + a) (py + b) true (nops + 3)) rest callers := by
  rw [run_num subrs callers (f + 2) _ _ _ _ _ _ _ _ _ _ a ha _ (by simp [maxStack]) (by omega)]
  rw [run_num subrs callers (f + 1) _ _ _ _ _ _ _ _ _ _ b hb _ (by simp [maxStack]) (by omega)]
  rw [run_op_cont subrs callers f _ (clear (rMoveTo (mk [a, b] acc hs vs wx wy px py closed (nops + 3)) a b)) 21 rest
    (by omega) (by omega) (by simp [mk, maxStack]) (by simp [mk]; omega) rfl]
  rw [rMoveTo_mk, clear_mk]

theorem run_hlineto (a : Rat) (ha : isInt32 a = true) (ho : nops + 2 ≤ maxOps) :
    run subrs (f + 2) (mk [] acc hs vs wx wy px py closed nops) (num a ++ (6 :: rest)) callers
      = run subrs f (mk [] (acc ++ [.lineTo (px + a) (py + 0)]) hs vs wx wy (px + a) (py + 0) false (nops + 2)) rest callers := by
  rw [run_num subrs callers (f + 1) _ _ _ _ _ _ _ _ _ _ a ha _ (by simp [maxStack]) (by omega)]
  rw [run_op_cont subrs callers f _ (clear (rLineTo (mk [a] acc hs vs wx wy px py closed (nops + 2)) a 0)) 6 rest
    (by omega) (by omega) (by simp [mk, maxStack]) (by simp [mk]; omega) rfl]
  rw [rLineTo_mk, clear_mk]

theorem run_vlineto (a : Rat) (ha : isInt32 a = true) (ho : nops + 2 ≤ maxOps) :
    run subrs (f + 2) (mk [] acc hs vs wx wy px py closed nops) (num a ++ (7 :: rest)) callers
      = run subrs f (mk [] (acc ++ [.lineTo (px + 0) (py + a)]) hs vs wx wy (px + 0) (py + a) false (nops + 2)) rest callers := by
  rw [run_num subrs callers (f + 1) _ _ _ _ _ _ _ _ _ _ a ha _ (by simp [maxStack]) (by omega)]
  rw [run_op_cont subrs callers f _ (clear (rLineTo (mk [a] acc hs vs wx wy px py closed (nops + 2)) 0 a)) 7 rest
    (by omega) (by omega) (by simp [mk, maxStack]) (by simp [mk]; omega) rfl]
  rw [rLineTo_mk, clear_mk]

theorem run_rlineto (a b : Rat) (ha : isInt32 a = true) (hb : isInt32 b = true) (ho : nops + 3 ≤ maxOps) :
    run subrs (f + 3) (mk [] acc hs vs wx wy px py closed nops) (num a ++ (num b ++ (5 :: rest))) callers
      = run subrs f (mk [] (acc ++ [.lineTo (px + a) (py + b)]) hs vs wx wy (px + a) (py + b) false (nops + 3)) rest callers := by
  rw [run_num subrs callers (f + 2) _ _ _ _ _ _ _ _ _ _ a ha _ (by simp [maxStack]) (by omega)]
  rw [run_num subrs callers (f + 1) _ _ _ _ _ _ _ _ _ _ b hb _ (by simp [maxStack]) (by omega)]
  rw [run_op_cont subrs callers f _ (clear (rLineTo (mk [a, b] acc hs vs wx wy px py closed (nops + 3)) a b)) 5 rest
    (by omega) (by omega) (by simp [mk, maxStack]) (by simp [mk]; omega) rfl]
  rw [rLineTo_mk, clear_mk]

theorem run_hvcurveto (a b c d : Rat) (ha : isInt32 a = true) (hb : isInt32 b = true) (hc : isInt32 c = true) (hd : isInt32 d = true) (ho : nops + 5 ≤ maxOps) :
    run subrs (f + 5) (mk [] acc hs vs wx wy px py closed nops) (num a ++ (num b ++ (num c ++ (num d ++ (31 :: rest))))) callers
      = run subrs f (mk [] (acc ++ [.curveTo (px + a) (py + 0) (px + a + b) (py + 0 + c) (px + a + b + 0) (py + 0 + c + d)]) hs vs wx wy (px + a + b + 0) (py + 0 + c + d) closed (nops + 5)) rest callers := by
  rw [run_num subrs callers (f + 4) _ _ _ _ _ _ _ _ _ _ a ha _ (by simp [maxStack]) (by omega)]
  rw [run_num subrs callers (f + 3) _ _ _ _ _ _ _ _ _ _ b hb _ (by simp [maxStack]) (by omega)]
  rw [run_num subrs callers (f + 2) _ _ _ _ _ _ _ _ _ _ c hc _ (by simp [maxStack]) (by omega)]
  rw [run_num subrs callers (f + 1) _ _ _ _ _ _ _ _ _ _ d hd _ (by simp [maxStack]) (by omega)]
  rw [run_op_cont subrs callers f _ (clear (rCurveTo (mk [a, b, c, d] acc hs vs wx wy px py closed (nops + 5)) a 0 b c 0 d)) 31 rest
    (by omega) (by omega) (by simp [mk, maxStack]) (by simp [mk]; omega) rfl]
  rw [rCurveTo_mk, clear_mk]

theorem run_vhcurveto (a b c d : Rat) (ha : isInt32 a = true) (hb : isInt32 b = true) (hc : isInt32 c = true) (hd : isInt32 d = true) (ho : nops + 5 ≤ maxOps) :
    run subrs (f + 5) (mk [] acc hs vs wx wy px py closed nops) (num a ++ (num b ++ (num c ++ (num d ++ (30 :: rest))))) callers
      = run subrs f (mk [] (acc ++ [.curveTo (px + 0) (py + a) (px + 0 + b) (py + a + c) (px + 0 + b + d) (py + a + c + 0)]) hs vs wx wy (px + 0 + b + d) (py + a + c + 0) closed (nops + 5)) rest callers := by
  rw [run_num subrs callers (f + 4) _ _ _ _ _ _ _ _ _ _ a ha _ (by simp [maxStack]) (by omega)]
  rw [run_num subrs callers (f + 3) _ _ _ _ _ _ _ _ _ _ b hb _ (by simp [maxStack]) (by omega)]
  rw [run_num subrs callers (f + 2) _ _ _ _ _ _ _ _ _ _ c hc _ (by simp [maxStack]) (by omega)]
  rw [run_num subrs callers (f + 1) _ _ _ _ _ _ _ _ _ _ d hd _ (by simp [maxStack]) (by omega)]
  rw [run_op_cont subrs callers f _ (clear (rCurveTo (mk [a, b, c, d] acc hs vs wx wy px py closed (nops + 5)) 0 a b c d 0)) 30 rest
    (by omega) (by omega) (by simp [mk, maxStack]) (by simp [mk]; omega) rfl]
  rw [rCurveTo_mk, clear_mk]

theorem run_rrcurveto (a b c d e g : Rat) (ha : isInt32 a = true) (hb : isInt32 b = true) (hc : isInt32 c = true) (hd : isInt32 d = true) (he : isInt32 e = true) (hg : isInt32 g = true) (ho : nops + 7 ≤ maxOps) :
    run subrs (f + 7) (mk [] acc hs vs wx wy px py closed nops) (num a ++ (num b ++ (num c ++ (num d ++ (num e ++ (num g ++ (8 :: rest))))))) callers
      = run subrs f (mk [] (acc ++ [.curveTo (px + a) (py + b) (px + a + c) (py + b + d) (px + a + c + e) (py + b + d + g)]) hs vs wx wy (px + a + c + e) (py + b + d + g) closed (nops + 7)) rest callers := by
  rw [run_num subrs callers (f + 6) _ _ _ _ _ _ _ _ _ _ a ha _ (by simp [maxStack]) (by omega)]
  rw [run_num subrs callers (f + 5) _ _ _ _ _ _ _ _ _ _ b hb _ (by simp [maxStack]) (by omega)]
  rw [run_num subrs callers (f + 4) _ _ _ _ _ _ _ _ _ _ c hc _ (by simp [maxStack]) (by omega)]
  rw [run_num subrs callers (f + 3) _ _ _ _ _ _ _ _ _ _ d hd _ (by simp [maxStack]) (by omega)]
  rw [run_num subrs callers (f + 2) _ _ _ _ _ _ _ _ _ _ e he _ (by simp [maxStack]) (by omega)]
  rw [run_num subrs callers (f + 1) _ _ _ _ _ _ _ _ _ _ g hg _ (by simp [maxStack]) (by omega)]
  rw [run_op_cont subrs callers f _ (clear (rCurveTo (mk [a, b, c, d, e, g] acc hs vs wx wy px py closed (nops + 7)) a b c d e g)) 8 rest
    (by omega) (by omega) (by simp [mk, maxStack]) (by simp [mk]; omega) rfl]
  rw [rCurveTo_mk, clear_mk]

theorem run_closepath (ho : nops + 1 ≤ maxOps) :
    run subrs (f + 1) (mk [] acc hs vs wx wy px py closed nops) (9 :: rest) callers
      = run subrs f (mk [] (acc ++ [.closePath]) hs vs wx wy px py true (nops + 1)) rest callers := by
  rw [run_op_cont subrs callers f _ (closePath (mk [] acc hs vs wx wy px py closed (nops + 1))) 9 rest
    (by omega) (by omega) (by simp [mk, maxStack]) (by simp [mk]; omega) rfl]
  rw [closePath_mk]

end

/-! ## one command at a time -/

/-- every operand written for the command at tracked position `(px, py)` is an integer that
fits `int32` (the operands are the successive differences of the control points) -/
def cmdFits (px py : Rat) : Cmd → Bool
  | .moveTo x y => isInt32 (x - px) && isInt32 (y - py)
  | .lineTo x y => isInt32 (x - px) && isInt32 (y - py)
  | .curveTo x1 y1 x2 y2 x3 y3 =>
    isInt32 (x1 - px) && isInt32 (y1 - py) && isInt32 (x2 - x1) && isInt32 (y2 - y1)
      && isInt32 (x3 - x2) && isInt32 (y3 - y2)
  | .closePath => true

/-- the current point after the command -/
def cmdEnd (px py : Rat) : Cmd → Rat × Rat
  | .moveTo x y => (x, y)
  | .lineTo x y => (x, y)
  | .curveTo _ _ _ _ x3 y3 => (x3, y3)
  | .closePath => (px, py)

/-- number of charstring tokens (numbers and operators) written for the command -/
def cmdTokens (px py : Rat) : Cmd → Nat
  | .moveTo x y => if y = py ∨ x = px then 2 else 3
  | .lineTo x y => if y = py ∨ x = px then 2 else 3
  | .curveTo x1 y1 x2 y2 x3 y3 => if (y1 = py ∧ x3 = x2) ∨ (x1 = px ∧ y3 = y2) then 5 else 7
  | .closePath => 1

/-- what the decoder appends to the outline for the command: a `moveTo` inside an open
contour is preceded by the implicit `closePath` -/
def cmdOut (closed : Bool) : Cmd → List Cmd
  | .moveTo x y => (if closed then [] else [.closePath]) ++ [.moveTo x y]
  | c => [c]

/-- the decoder's `isClosed` flag after the command (note: a `curveTo` does not open the contour) -/
def cmdClosed (closed : Bool) : Cmd → Bool
  | .moveTo _ _ => true
  | .lineTo _ _ => false
  | .curveTo .. => closed
  | .closePath => true

theorem cmdTokens_le (px py : Rat) (c : Cmd) : cmdTokens px py c ≤ 7 := by
  cases c <;> simp only [cmdTokens] <;> (try split) <;> omega

theorem cmdTokens_pos (px py : Rat) (c : Cmd) : 1 ≤ cmdTokens px py c := by
  cases c <;> simp only [cmdTokens] <;> (try split) <;> omega

theorem sub_eq_zero_iff (a b : Rat) : a - b = 0 ↔ a = b := by
  constructor <;> intro h <;> grind

theorem eps_test {a b : Rat} (h : isInt32 (a - b) = true) : (a - b).abs < eps ↔ a = b := by
  rw [int_abs_lt_eps h, sub_eq_zero_iff]

theorem isInt32_zero : isInt32 0 = true := by decide +kernel

section
variable (subrs : List (List Nat)) (callers : List (List Nat))
variable (f : Nat) (acc : List Cmd) (hs vs : List Int) (wx wy px py : Rat) (closed : Bool) (nops : Nat)
variable (rest : List Nat)

/-- the bytes written for a command in the integer domain -/
def intBytes (px py : Rat) : Cmd → List Nat
  | .moveTo x y =>
    if y = py then num (x - px) ++ [22]
    else if x = px then num (y - py) ++ [4]
    else num (x - px) ++ num (y - py) ++ [21]
  | .lineTo x y =>
    if y = py then num (x - px) ++ [6]
    else if x = px then num (y - py) ++ [7]
    else num (x - px) ++ num (y - py) ++ [5]
  | .curveTo x1 y1 x2 y2 x3 y3 =>
    if y1 = py ∧ x3 = x2 then
      num (x1 - px) ++ num (x2 - x1) ++ num (y2 - y1) ++ num (y3 - y2) ++ [31]
    else if x1 = px ∧ y3 = y2 then
      num (y1 - py) ++ num (x2 - x1) ++ num (y2 - y1) ++ num (x3 - x2) ++ [30]
    else
      num (x1 - px) ++ num (y1 - py) ++ num (x2 - x1) ++ num (y2 - y1) ++ num (x3 - x2) ++ num (y3 - y2) ++ [8]
  | .closePath => [9]

theorem encodeCmdBytes_int (c : Cmd) (hfit : cmdFits px py c = true) :
    encodeCmdBytes px py c = (intBytes px py c, cmdEnd px py c) := by
  cases c with
  | moveTo x y =>
    simp only [cmdFits, Bool.and_eq_true] at hfit
    obtain ⟨hx, hy⟩ := hfit
    simp only [encodeCmdBytes, eps_test hx, eps_test hy, cmdEnd, intBytes, appendOp]
    split
    · rename_i h; subst h; simp only [val_of_isInt32 hx]; congr 2; grind
    · split
      · rename_i h; subst h; simp only [val_of_isInt32 hy]; congr 2; grind
      · simp only [val_of_isInt32 hx, val_of_isInt32 hy]; congr 2 <;> grind
  | lineTo x y =>
    simp only [cmdFits, Bool.and_eq_true] at hfit
    obtain ⟨hx, hy⟩ := hfit
    simp only [encodeCmdBytes, eps_test hx, eps_test hy, cmdEnd, intBytes, appendOp]
    split
    · rename_i h; subst h; simp only [val_of_isInt32 hx]; congr 2; grind
    · split
      · rename_i h; subst h; simp only [val_of_isInt32 hy]; congr 2; grind
      · simp only [val_of_isInt32 hx, val_of_isInt32 hy]; congr 2 <;> grind
  | curveTo x1 y1 x2 y2 x3 y3 =>
    simp only [cmdFits, Bool.and_eq_true] at hfit
    obtain ⟨⟨⟨⟨⟨h1, h2⟩, h3⟩, h4⟩, h5⟩, h6⟩ := hfit
    simp only [encodeCmdBytes, eps_test h1, eps_test h2, cmdEnd, intBytes, appendOp]
    split
    · rename_i h; obtain ⟨ha, hb⟩ := h; subst ha; subst hb
      have e1 : x3 - px - (x1 - px) = x3 - x1 := by grind
      have e2 : y3 - y1 - (y2 - y1) = y3 - y2 := by grind
      simp only [val_of_isInt32 h1, e1, val_of_isInt32 h3, val_of_isInt32 h4, e2, val_of_isInt32 h6]
      congr 2 <;> grind
    · split
      · rename_i h; obtain ⟨ha, hb⟩ := h; subst ha; subst hb
        have e1 : y3 - py - (y1 - py) = y3 - y1 := by grind
        have e2 : x3 - x1 - (x2 - x1) = x3 - x2 := by grind
        simp only [val_of_isInt32 h2, e1, val_of_isInt32 h3, val_of_isInt32 h4, e2, val_of_isInt32 h5]
        congr 2 <;> grind
      · have e1 : x2 - px - (x1 - px) = x2 - x1 := by grind
        have e2 : y2 - py - (y1 - py) = y2 - y1 := by grind
        have e3 : x3 - px - (x1 - px) - (x2 - x1) = x3 - x2 := by grind
        have e4 : y3 - py - (y1 - py) - (y2 - y1) = y3 - y2 := by grind
        simp only [val_of_isInt32 h1, val_of_isInt32 h2, e1, e2, val_of_isInt32 h3, val_of_isInt32 h4, e3, e4,
          val_of_isInt32 h5, val_of_isInt32 h6]
        congr 2 <;> grind
  | closePath => rfl

/-- **token level**: from an empty operand stack at current point `(px, py)` the bytes of one
command execute exactly that command, leaving an empty stack and the new current point -/
theorem run_command (c : Cmd) (hfit : cmdFits px py c = true) (ho : nops + cmdTokens px py c ≤ maxOps) :
    run subrs (f + cmdTokens px py c) (mk [] acc hs vs wx wy px py closed nops)
        (intBytes px py c ++ rest) callers
      = run subrs f (mk [] (acc ++ cmdOut closed c) hs vs wx wy (cmdEnd px py c).1 (cmdEnd px py c).2
          (cmdClosed closed c) (nops + cmdTokens px py c)) rest callers := by
  cases c with
  | moveTo x y =>
    simp only [cmdFits, Bool.and_eq_true] at hfit
    obtain ⟨hx, hy⟩ := hfit
    simp only [intBytes, cmdTokens, cmdOut, cmdEnd, cmdClosed] at ho ⊢
    have ex : px + (x - px) = x := by grind
    have ey : py + (y - py) = y := by grind
    by_cases h1 : y = py
    · simp only [h1, true_or, if_true, List.append_assoc, List.cons_append, List.nil_append] at ho ⊢
      rw [run_hmoveto subrs callers f acc hs vs wx wy px py closed nops rest _ hx ho, ex, Rat.add_zero]
    · by_cases h2 : x = px
      · simp only [h1, h2, or_true, if_true, if_false, List.append_assoc, List.cons_append, List.nil_append] at ho ⊢
        rw [run_vmoveto subrs callers f acc hs vs wx wy px py closed nops rest _ hy ho, ey, Rat.add_zero]
      · simp only [h1, h2, or_self, if_false, List.append_assoc, List.cons_append, List.nil_append] at ho ⊢
        rw [run_rmoveto subrs callers f acc hs vs wx wy px py closed nops rest _ _ hx hy ho, ex, ey]
  | lineTo x y =>
    simp only [cmdFits, Bool.and_eq_true] at hfit
    obtain ⟨hx, hy⟩ := hfit
    simp only [intBytes, cmdTokens, cmdOut, cmdEnd, cmdClosed] at ho ⊢
    have ex : px + (x - px) = x := by grind
    have ey : py + (y - py) = y := by grind
    by_cases h1 : y = py
    · simp only [h1, true_or, if_true, List.append_assoc, List.cons_append, List.nil_append] at ho ⊢
      rw [run_hlineto subrs callers f acc hs vs wx wy px py closed nops rest _ hx ho, ex, Rat.add_zero]
    · by_cases h2 : x = px
      · simp only [h1, h2, or_true, if_true, if_false, List.append_assoc, List.cons_append, List.nil_append] at ho ⊢
        rw [run_vlineto subrs callers f acc hs vs wx wy px py closed nops rest _ hy ho, ey, Rat.add_zero]
      · simp only [h1, h2, or_self, if_false, List.append_assoc, List.cons_append, List.nil_append] at ho ⊢
        rw [run_rlineto subrs callers f acc hs vs wx wy px py closed nops rest _ _ hx hy ho, ex, ey]
  | curveTo x1 y1 x2 y2 x3 y3 =>
    simp only [cmdFits, Bool.and_eq_true] at hfit
    obtain ⟨⟨⟨⟨⟨h1, h2⟩, h3⟩, h4⟩, h5⟩, h6⟩ := hfit
    simp only [intBytes, cmdTokens, cmdOut, cmdEnd, cmdClosed] at ho ⊢
    have ex1 : px + (x1 - px) = x1 := by grind
    have ey1 : py + (y1 - py) = y1 := by grind
    have ex2 : x1 + (x2 - x1) = x2 := by grind
    have ey2 : y1 + (y2 - y1) = y2 := by grind
    have ex3 : x2 + (x3 - x2) = x3 := by grind
    have ey3 : y2 + (y3 - y2) = y3 := by grind
    by_cases c1 : y1 = py ∧ x3 = x2
    · obtain ⟨ha, hb⟩ := c1; subst ha; subst hb
      simp only [eq_self, and_self, true_or, if_true, List.append_assoc, List.cons_append, List.nil_append] at ho ⊢
      rw [run_hvcurveto subrs callers f acc hs vs wx wy px _ closed nops rest _ _ _ _ h1 h3 h4 h6 ho]
      simp only [ex1, ex2, ey2, ey3, Rat.add_zero]
    · by_cases c2 : x1 = px ∧ y3 = y2
      · simp only [c1, if_false, false_or] at ho ⊢
        obtain ⟨ha, hb⟩ := c2; subst ha; subst hb
        simp only [eq_self, and_self, if_true, List.append_assoc, List.cons_append, List.nil_append] at ho ⊢
        rw [run_vhcurveto subrs callers f acc hs vs wx wy _ py closed nops rest _ _ _ _ h2 h3 h4 h5 ho]
        simp only [ex2, ex3, ey1, ey2, Rat.add_zero]
      · simp only [c1, c2, or_self, if_false, List.append_assoc, List.cons_append, List.nil_append] at ho ⊢
        rw [run_rrcurveto subrs callers f acc hs vs wx wy px py closed nops rest _ _ _ _ _ _ h1 h2 h3 h4 h5 h6 ho]
        rw [ex1, ey1, ex2, ey2, ex3, ey3]
  | closePath =>
    simp only [intBytes, cmdTokens, cmdOut, cmdEnd, cmdClosed, List.cons_append, List.nil_append] at ho ⊢
    rw [run_closepath subrs callers f acc hs vs wx wy px py closed nops rest ho]

end

/-! ## the whole path -/

/-- every operand written for the path, started at `(px, py)`, is an `int32` integer -/
def pathFits : Rat → Rat → List Cmd → Bool
  | _, _, [] => true
  | px, py, c :: cs => cmdFits px py c && pathFits (cmdEnd px py c).1 (cmdEnd px py c).2 cs

/-- number of tokens written for the path -/
def pathTokens : Rat → Rat → List Cmd → Nat
  | _, _, [] => 0
  | px, py, c :: cs => cmdTokens px py c + pathTokens (cmdEnd px py c).1 (cmdEnd px py c).2 cs

/-- current point after the path -/
def pathEnd : Rat → Rat → List Cmd → Rat × Rat
  | px, py, [] => (px, py)
  | px, py, c :: cs => pathEnd (cmdEnd px py c).1 (cmdEnd px py c).2 cs

/-- the commands the decoder produces for the path (before the final implicit closepath) -/
def pathOut : Bool → List Cmd → List Cmd
  | _, [] => []
  | closed, c :: cs => cmdOut closed c ++ pathOut (cmdClosed closed c) cs

/-- the decoder's `isClosed` flag after the path -/
def pathClosed : Bool → List Cmd → Bool
  | closed, [] => closed
  | closed, c :: cs => pathClosed (cmdClosed closed c) cs

/-- **the decoder's normal form of an outline**: a `closePath` is inserted before every `moveTo`
that follows a `lineTo` without an intervening `closePath`, and at the end under the same
condition.  (A contour made of `curveTo`s only is *not* closed implicitly: `rCurveTo` does not
reset `isClosed`.) -/
def normCmds (closed : Bool) (cs : List Cmd) : List Cmd :=
  pathOut closed cs ++ (if pathClosed closed cs then [] else [.closePath])

theorem pathTokens_le (cs : List Cmd) : ∀ px py, pathTokens px py cs ≤ 7 * cs.length := by
  induction cs with
  | nil => intros; simp [pathTokens]
  | cons c cs ih =>
    intro px py
    have h1 := cmdTokens_le px py c
    have h2 := ih (cmdEnd px py c).1 (cmdEnd px py c).2
    simp only [pathTokens, List.length_cons]; omega

theorem length_le_pathTokens (cs : List Cmd) : ∀ px py, cs.length ≤ pathTokens px py cs := by
  induction cs with
  | nil => intros; simp [pathTokens]
  | cons c cs ih =>
    intro px py
    have h1 := cmdTokens_pos px py c
    have h2 := ih (cmdEnd px py c).1 (cmdEnd px py c).2
    simp only [pathTokens, List.length_cons]; omega

section
variable (subrs : List (List Nat)) (callers : List (List Nat))
variable (hs vs : List Int) (wx wy : Rat) (rest : List Nat)

/-- **list induction**: the encoder's tracked position and the decoder's current point agree
after every command; the budget consumed is exactly `pathTokens` -/
theorem run_path (cs : List Cmd) : ∀ (f : Nat) (acc : List Cmd) (px py : Rat) (closed : Bool) (nops : Nat),
    pathFits px py cs = true → nops + pathTokens px py cs ≤ maxOps →
    run subrs (f + pathTokens px py cs) (mk [] acc hs vs wx wy px py closed nops)
        (encodePathBytes px py cs ++ rest) callers
      = run subrs f (mk [] (acc ++ pathOut closed cs) hs vs wx wy (pathEnd px py cs).1 (pathEnd px py cs).2
          (pathClosed closed cs) (nops + pathTokens px py cs)) rest callers := by
  induction cs with
  | nil =>
    intro f acc px py closed nops _ _
    simp [pathTokens, encodePathBytes, pathOut, pathEnd, pathClosed]
  | cons c cs ih =>
    intro f acc px py closed nops hfit ho
    simp only [pathFits, Bool.and_eq_true] at hfit
    obtain ⟨hc, hcs⟩ := hfit
    simp only [pathTokens] at ho
    simp only [encodePathBytes, encodeCmdBytes_int px py c hc, pathTokens, pathOut, pathEnd, pathClosed,
      List.append_assoc]
    have ef : f + (cmdTokens px py c + pathTokens (cmdEnd px py c).1 (cmdEnd px py c).2 cs)
        = (f + pathTokens (cmdEnd px py c).1 (cmdEnd px py c).2 cs) + cmdTokens px py c := by omega
    rw [ef, run_command subrs callers _ acc hs vs wx wy px py closed nops _ c hc (by omega)]
    rw [ih f _ _ _ _ _ hcs (by omega)]
    simp only [List.append_assoc, Nat.add_assoc]

end

/-! ## hints -/

/-- the hint values that are written: complete pairs only (`for i := 0; i+1 < len; i += 2`) -/
def stemsNorm : List Int → List Int
  | a :: b :: rest => a :: b :: stemsNorm rest
  | _ => []

def stemTokens : List Int → Nat
  | _ :: _ :: rest => 3 + stemTokens rest
  | _ => 0

/-- Go type of the hints: `funit.Int16` -/
def stemsFit (l : List Int) : Bool := l.all fun a => decide (inInt16 a)

theorem stemTokens_le : ∀ l : List Int, 2 * stemTokens l ≤ 3 * l.length
  | [] => by simp [stemTokens]
  | [_] => by simp [stemTokens]
  | _ :: _ :: l => by have := stemTokens_le l; simp only [stemTokens, List.length_cons]; omega

theorem stemsNorm_of_even : ∀ l : List Int, l.length % 2 = 0 → stemsNorm l = l
  | [], _ => rfl
  | [_], h => by simp at h
  | a :: b :: l, h => by
    simp only [List.length_cons] at h
    simp only [stemsNorm, stemsNorm_of_even l (by omega)]

section
variable (subrs : List (List Nat)) (callers : List (List Nat))
variable (f : Nat) (acc : List Cmd) (hs vs : List Int) (wx wy px py : Rat) (closed : Bool) (nops : Nat)
variable (rest : List Nat)

theorem run_hstem_pair (a b : Int) (ha : inInt16 a) (hb : inInt16 b) (ho : nops + 3 ≤ maxOps) :
    run subrs (f + 3) (mk [] acc hs vs wx wy px py closed nops)
        (appendInt a ++ (appendInt (b - a) ++ (1 :: rest))) callers
      = run subrs f (mk [] acc (hs ++ [a, b]) vs wx wy px py closed (nops + 3)) rest callers := by
  have h32a : inInt32 a := by unfold inInt16 at ha; unfold inInt32; omega
  have h32b : inInt32 (b - a) := by unfold inInt16 at ha hb; unfold inInt32; omega
  rw [run_int subrs callers (f + 2) _ a h32a _ (by simp [mk, maxStack]) (by simp [mk]; omega)]
  rw [run_int subrs callers (f + 1) _ (b - a) h32b _ (by simp [mk, maxStack]) (by simp [mk]; omega)]
  rw [run_op_cont subrs callers f _
    (mk [] acc (hs ++ [wrap16 (0 + int16OfRound ((a : Int) : Rat)), wrap16 (wrap16 (0 + int16OfRound ((a : Int) : Rat)) + int16OfRound ((b - a : Int) : Rat))]) vs wx wy px py closed (nops + 3)) 1 rest
    (by omega) (by omega) (by simp [mk, maxStack]) (by simp [mk]; omega) rfl]
  rw [int16OfRound_intCast, int16OfRound_intCast, (stem_pair a b ha hb).1, (stem_pair a b ha hb).2]

theorem run_vstem_pair (a b : Int) (ha : inInt16 a) (hb : inInt16 b) (ho : nops + 3 ≤ maxOps) :
    run subrs (f + 3) (mk [] acc hs vs wx wy px py closed nops)
        (appendInt a ++ (appendInt (b - a) ++ (3 :: rest))) callers
      = run subrs f (mk [] acc hs (vs ++ [a, b]) wx wy px py closed (nops + 3)) rest callers := by
  have h32a : inInt32 a := by unfold inInt16 at ha; unfold inInt32; omega
  have h32b : inInt32 (b - a) := by unfold inInt16 at ha hb; unfold inInt32; omega
  rw [run_int subrs callers (f + 2) _ a h32a _ (by simp [mk, maxStack]) (by simp [mk]; omega)]
  rw [run_int subrs callers (f + 1) _ (b - a) h32b _ (by simp [mk, maxStack]) (by simp [mk]; omega)]
  rw [run_op_cont subrs callers f _
    (mk [] acc hs (vs ++ [wrap16 (0 + int16OfRound ((a : Int) : Rat)), wrap16 (wrap16 (0 + int16OfRound ((a : Int) : Rat)) + int16OfRound ((b - a : Int) : Rat))]) wx wy px py closed (nops + 3)) 3 rest
    (by omega) (by omega) (by simp [mk, maxStack]) (by simp [mk]; omega) rfl]
  rw [int16OfRound_intCast, int16OfRound_intCast, (stem_pair a b ha hb).1, (stem_pair a b ha hb).2]

end

section
variable (subrs : List (List Nat)) (callers : List (List Nat))
variable (acc : List Cmd) (wx wy px py : Rat) (closed : Bool) (rest : List Nat)

theorem run_hstems : ∀ (l : List Int) (f : Nat) (hs vs : List Int) (nops : Nat),
    stemsFit l = true → nops + stemTokens l ≤ maxOps →
    run subrs (f + stemTokens l) (mk [] acc hs vs wx wy px py closed nops) (encodeStems 1 l ++ rest) callers
      = run subrs f (mk [] acc (hs ++ stemsNorm l) vs wx wy px py closed (nops + stemTokens l)) rest callers
  | [], f, hs, vs, nops, _, _ => by simp [stemTokens, encodeStems, stemsNorm]
  | [a], f, hs, vs, nops, _, _ => by simp [stemTokens, encodeStems, stemsNorm]
  | a :: b :: l, f, hs, vs, nops, hfit, ho => by
    simp only [stemsFit, List.all_cons, Bool.and_eq_true, decide_eq_true_eq] at hfit
    obtain ⟨ha, hb, hl⟩ := hfit
    simp only [stemTokens] at ho
    have eop : appendOp 1 = [1] := rfl
    simp only [stemTokens, encodeStems, stemsNorm, eop, List.append_assoc, List.cons_append, List.nil_append]
    have ef : f + (3 + stemTokens l) = (f + stemTokens l) + 3 := by omega
    rw [ef, run_hstem_pair subrs callers _ acc hs vs wx wy px py closed nops _ a b ha hb (by omega)]
    rw [run_hstems l f _ _ _ hl (by omega)]
    simp only [List.append_assoc, List.cons_append, List.nil_append, Nat.add_assoc]

theorem run_vstems : ∀ (l : List Int) (f : Nat) (hs vs : List Int) (nops : Nat),
    stemsFit l = true → nops + stemTokens l ≤ maxOps →
    run subrs (f + stemTokens l) (mk [] acc hs vs wx wy px py closed nops) (encodeStems 3 l ++ rest) callers
      = run subrs f (mk [] acc hs (vs ++ stemsNorm l) wx wy px py closed (nops + stemTokens l)) rest callers
  | [], f, hs, vs, nops, _, _ => by simp [stemTokens, encodeStems, stemsNorm]
  | [a], f, hs, vs, nops, _, _ => by simp [stemTokens, encodeStems, stemsNorm]
  | a :: b :: l, f, hs, vs, nops, hfit, ho => by
    simp only [stemsFit, List.all_cons, Bool.and_eq_true, decide_eq_true_eq] at hfit
    obtain ⟨ha, hb, hl⟩ := hfit
    simp only [stemTokens] at ho
    have eop : appendOp 3 = [3] := rfl
    simp only [stemTokens, encodeStems, stemsNorm, eop, List.append_assoc, List.cons_append, List.nil_append]
    have ef : f + (3 + stemTokens l) = (f + stemTokens l) + 3 := by omega
    rw [ef, run_vstem_pair subrs callers _ acc hs vs wx wy px py closed nops _ a b ha hb (by omega)]
    rw [run_vstems l f _ _ _ hl (by omega)]
    simp only [List.append_assoc, List.cons_append, List.nil_append, Nat.add_assoc]

end

/-! ## prologue, epilogue, and the assembled charstring -/

theorem int16OfRound_zero : int16OfRound ((0 : Int) : Rat) = 0 := by
  rw [int16OfRound_intCast]; decide

section
variable (subrs : List (List Nat)) (callers : List (List Nat)) (f : Nat) (rest : List Nat)

theorem run_hsbw (wx : Int) (hwx : inInt32 wx) :
    run subrs (f + 3) (mk [] [] [] [] 0 0 0 0 true 0) (appendInt 0 ++ (appendInt wx ++ (13 :: rest))) callers
      = run subrs f (mk [] [] [] [] wx 0 0 0 true 3) rest callers := by
  have hm : (0 : Nat) + 3 ≤ maxOps := by decide
  rw [run_int subrs callers (f + 2) _ 0 (by decide) _ (by simp [mk, maxStack]) (by simp [mk, maxOps])]
  rw [run_int subrs callers (f + 1) _ wx hwx _ (by simp [mk, maxStack]) (by simp [mk, maxOps])]
  rw [run_op_cont subrs callers f _
    { mk [] [] [] [] wx 0 ((0 : Int) : Rat) 0 true 3 with lsbX := int16OfRound ((0 : Int) : Rat) } 13 rest
    (by omega) (by omega) (by simp [mk, maxStack]) (by simp [mk, maxOps]) rfl]
  rw [int16OfRound_zero]
  rfl

theorem run_sbw (wx wy : Int) (hwx : inInt32 wx) (hwy : inInt32 wy) :
    run subrs (f + 5) (mk [] [] [] [] 0 0 0 0 true 0)
        (appendInt 0 ++ (appendInt 0 ++ (appendInt wx ++ (appendInt wy ++ (12 :: 7 :: rest))))) callers
      = run subrs f (mk [] [] [] [] wx wy 0 0 true 5) rest callers := by
  rw [run_int subrs callers (f + 4) _ 0 (by decide) _ (by simp [mk, maxStack]) (by simp [mk, maxOps])]
  rw [run_int subrs callers (f + 3) _ 0 (by decide) _ (by simp [mk, maxStack]) (by simp [mk, maxOps])]
  rw [run_int subrs callers (f + 2) _ wx hwx _ (by simp [mk, maxStack]) (by simp [mk, maxOps])]
  rw [run_int subrs callers (f + 1) _ wy hwy _ (by simp [mk, maxStack]) (by simp [mk, maxOps])]
  rw [run_op2_cont subrs callers f _
    { mk [] [] [] [] wx wy ((0 : Int) : Rat) ((0 : Int) : Rat) true 5 with
        lsbX := int16OfRound ((0 : Int) : Rat), lsbY := int16OfRound ((0 : Int) : Rat) } 7 rest
    (by simp [mk, maxStack]) (by simp [mk, maxOps]) rfl]
  rw [int16OfRound_zero]
  rfl

end

/-- the decoder's last step: `if !isClosed { rClosePath() }` -/
def finish (d : DState) : DState := if !d.isClosed then closePath d else d

theorem decodeCharString_eq (subrs : List (List Nat)) (code : List Nat) (d : DState)
    (h : run subrs (2 * maxOps + 64) {} code [] = .ok d) :
    decodeCharString subrs code = .ok (finish d) := by
  unfold decodeCharString finish; rw [h]

theorem finish_mk (cmds hs vs wx wy px py closed nops) :
    finish (mk [] cmds hs vs wx wy px py closed nops)
      = mk [] (cmds ++ (if closed then [] else [.closePath])) hs vs wx wy px py true nops := by
  cases closed <;> simp [finish, mk, closePath]

/-- tokens of the whole charstring -/
def tokens (g : PsVerif.Model.T1Encode.Glyph) (wy : Int) : Nat :=
  (if wy = 0 then 3 else 5) + stemTokens g.hstem + stemTokens g.vstem + pathTokens 0 0 g.cmds + 1

/-- the budget is linear in the size of the glyph -/
theorem tokens_le (g : PsVerif.Model.T1Encode.Glyph) (wy : Int) :
    tokens g wy ≤ 7 * g.cmds.length + 2 * (g.hstem.length + g.vstem.length) + 6 := by
  unfold tokens
  have h1 := stemTokens_le g.hstem
  have h2 := stemTokens_le g.vstem
  have h3 := pathTokens_le g.cmds 0 0
  split <;> omega

/-- **assembled round trip**, with the hypotheses spelled out -/
theorem decode_encode_state (subrs : List (List Nat)) (g : PsVerif.Model.T1Encode.Glyph) (wx wy : Int)
    (hwx : inInt32 wx) (hwy : inInt32 wy)
    (hh : stemsFit g.hstem = true) (hv : stemsFit g.vstem = true)
    (hp : pathFits 0 0 g.cmds = true) (hb : tokens g wy ≤ maxOps) :
    decodeCharString subrs (encodeCharString g wx wy)
      = .ok (mk [] (normCmds true g.cmds) (stemsNorm g.hstem) (stemsNorm g.vstem) wx wy
          (pathEnd 0 0 g.cmds).1 (pathEnd 0 0 g.cmds).2 true (tokens g wy)) := by
  generalize hH : stemTokens g.hstem = H at *
  generalize hV : stemTokens g.vstem = V at *
  generalize hP : pathTokens 0 0 g.cmds = P at *
  have e14 : appendOp 14 = [14] := rfl
  have e13 : appendOp 13 = [13] := rfl
  have e3079 : appendOp (12 * 256 + 7) = [12, 7] := rfl
  by_cases hwy0 : wy = 0
  · subst hwy0
    simp only [tokens, if_true, hH, hV, hP] at hb ⊢
    have key : run subrs (2 * maxOps + 64) {} (encodeCharString g wx 0) []
        = .ok (mk [] (pathOut true g.cmds) (stemsNorm g.hstem) (stemsNorm g.vstem) wx ((0 : Int) : Rat)
            (pathEnd 0 0 g.cmds).1 (pathEnd 0 0 g.cmds).2 (pathClosed true g.cmds) (3 + H + V + P + 1)) := by
      have ef : 2 * maxOps + 64 = (((((2 * maxOps + 64 - (3 + H + V + P + 1)) + 1) + P) + V) + H) + 3 := by omega
      simp only [encodeCharString, if_true, e13, e14, List.append_assoc, List.cons_append, List.nil_append]
      rw [ef, init_eq, run_hsbw subrs [] _ _ wx hwx]
      rw [← hH, run_hstems subrs [] [] wx 0 0 0 true _ g.hstem _ [] [] 3 hh (by omega)]
      rw [← hV, run_vstems subrs [] [] wx 0 0 0 true _ g.vstem _ _ [] _ hv (by omega)]
      rw [← hP, run_path subrs [] _ _ wx 0 _ g.cmds _ [] 0 0 true _ hp (by omega)]
      rw [run_endchar subrs [] _ _ [] (by simp [mk, maxStack]) (by simp only [mk]; omega)]
      simp only [List.nil_append, hH, hV, hP]
      rfl
    rw [decodeCharString_eq subrs _ _ key, finish_mk]
    rfl
  · simp only [tokens, if_neg hwy0, hH, hV, hP] at hb ⊢
    have key : run subrs (2 * maxOps + 64) {} (encodeCharString g wx wy) []
        = .ok (mk [] (pathOut true g.cmds) (stemsNorm g.hstem) (stemsNorm g.vstem) wx wy
            (pathEnd 0 0 g.cmds).1 (pathEnd 0 0 g.cmds).2 (pathClosed true g.cmds) (5 + H + V + P + 1)) := by
      have ef : 2 * maxOps + 64 = (((((2 * maxOps + 64 - (5 + H + V + P + 1)) + 1) + P) + V) + H) + 5 := by omega
      simp only [encodeCharString, if_neg hwy0, e3079, e14, List.append_assoc, List.cons_append, List.nil_append]
      rw [ef, init_eq, run_sbw subrs [] _ _ wx wy hwx hwy]
      rw [← hH, run_hstems subrs [] [] wx wy 0 0 true _ g.hstem _ [] [] 5 hh (by omega)]
      rw [← hV, run_vstems subrs [] [] wx wy 0 0 true _ g.vstem _ _ [] _ hv (by omega)]
      rw [← hP, run_path subrs [] _ _ wx wy _ g.cmds _ [] 0 0 true _ hp (by omega)]
      rw [run_endchar subrs [] _ _ [] (by simp [mk, maxStack]) (by simp only [mk]; omega)]
      simp only [List.nil_append, hH, hV, hP]
      rfl
    rw [decodeCharString_eq subrs _ _ key, finish_mk]
    rfl

/-! ## outlines that are already in the decoder's normal form -/

/-- no `moveTo` inside an open contour and no open contour at the end, where "open" is the
decoder's notion (`cmdClosed`): a `lineTo` was drawn since the last `closePath`/`moveTo` -/
def wellClosed : Bool → List Cmd → Bool
  | closed, [] => closed
  | closed, .moveTo _ _ :: cs => closed && wellClosed true cs
  | closed, c :: cs => wellClosed (cmdClosed closed c) cs

theorem normCmds_cons (closed : Bool) (c : Cmd) (cs : List Cmd) :
    normCmds closed (c :: cs) = cmdOut closed c ++ normCmds (cmdClosed closed c) cs := by
  unfold normCmds
  rw [← List.append_assoc]
  rfl

theorem normCmds_of_wellClosed (cs : List Cmd) : ∀ closed, wellClosed closed cs = true → normCmds closed cs = cs := by
  induction cs with
  | nil => intro closed h; simp [wellClosed] at h; simp [normCmds, pathOut, pathClosed, h]
  | cons c cs ih =>
    intro closed h
    rw [normCmds_cons]
    cases c with
    | moveTo x y =>
      simp only [wellClosed, Bool.and_eq_true] at h
      simp only [cmdOut, cmdClosed, h.1, if_true, List.nil_append, List.cons_append, ih true h.2]
    | lineTo x y => simp only [wellClosed] at h; simp only [cmdOut, List.cons_append, List.nil_append, ih _ h]
    | curveTo x1 y1 x2 y2 x3 y3 => simp only [wellClosed] at h; simp only [cmdOut, List.cons_append, List.nil_append, ih _ h]
    | closePath => simp only [wellClosed] at h; simp only [cmdOut, List.cons_append, List.nil_append, ih _ h]

/-! ## a simple sufficient condition for `pathFits` -/

/-- an integer of absolute value at most `2^30 - 1` -/
def smallInt (x : Rat) : Bool := x.den == 1 && decide (-1073741823 ≤ x.num ∧ x.num ≤ 1073741823)

def cmdSmall : Cmd → Bool
  | .moveTo x y => smallInt x && smallInt y
  | .lineTo x y => smallInt x && smallInt y
  | .curveTo x1 y1 x2 y2 x3 y3 => smallInt x1 && smallInt y1 && smallInt x2 && smallInt y2 && smallInt x3 && smallInt y3
  | .closePath => true

theorem isInt32_sub_of_small {a b : Rat} (ha : smallInt a = true) (hb : smallInt b = true) :
    isInt32 (a - b) = true := by
  simp only [smallInt, Bool.and_eq_true, beq_iff_eq, decide_eq_true_eq] at ha hb
  rw [← cast_num_of_den_one a ha.1, ← cast_num_of_den_one b hb.1, ← Rat.intCast_sub]
  apply isInt32_intCast
  unfold inInt32; omega

theorem cmdFits_of_small (px py : Rat) (c : Cmd) (hx : smallInt px = true) (hy : smallInt py = true)
    (hc : cmdSmall c = true) :
    cmdFits px py c = true ∧ smallInt (cmdEnd px py c).1 = true ∧ smallInt (cmdEnd px py c).2 = true := by
  cases c with
  | moveTo x y =>
    simp only [cmdSmall, Bool.and_eq_true] at hc
    simp only [cmdFits, cmdEnd, Bool.and_eq_true, isInt32_sub_of_small hc.1 hx, isInt32_sub_of_small hc.2 hy, hc.1, hc.2, and_self]
  | lineTo x y =>
    simp only [cmdSmall, Bool.and_eq_true] at hc
    simp only [cmdFits, cmdEnd, Bool.and_eq_true, isInt32_sub_of_small hc.1 hx, isInt32_sub_of_small hc.2 hy, hc.1, hc.2, and_self]
  | curveTo x1 y1 x2 y2 x3 y3 =>
    simp only [cmdSmall, Bool.and_eq_true] at hc
    obtain ⟨⟨⟨⟨⟨h1, h2⟩, h3⟩, h4⟩, h5⟩, h6⟩ := hc
    simp only [cmdFits, cmdEnd, Bool.and_eq_true, isInt32_sub_of_small h1 hx, isInt32_sub_of_small h2 hy,
      isInt32_sub_of_small h3 h1, isInt32_sub_of_small h4 h2, isInt32_sub_of_small h5 h3, isInt32_sub_of_small h6 h4,
      h5, h6, and_self]
  | closePath => simp only [cmdFits, cmdEnd, hx, hy, and_self]

theorem pathFits_of_small (cs : List Cmd) : ∀ px py, smallInt px = true → smallInt py = true →
    cs.all cmdSmall = true → pathFits px py cs = true := by
  induction cs with
  | nil => intros; rfl
  | cons c cs ih =>
    intro px py hx hy hall
    simp only [List.all_cons, Bool.and_eq_true] at hall
    obtain ⟨h1, h2, h3⟩ := cmdFits_of_small px py c hx hy hall.1
    simp only [pathFits, h1, Bool.true_and]
    exact ih _ _ h2 h3 hall.2

end PsVerif.Proofs.T1RoundTrip
