import PsVerif.Proofs.WF
/-!
# Well-formed interpreter states and the re-entrant half of the interpreter (C01)

Part 1 (scanner): every action of `Model/Scanner.lean` the interpreter uses keeps the
scanner invariant `ScOK` and never fails with `Err.panic`.
-/
namespace PsVerif.Proofs.WFState
open PsVerif.Model PsVerif.Model.Scan PsVerif.Proofs.WF

set_option linter.unusedSimpArgs false
set_option linter.unusedVariables false

/-! ## Part 1: the scanner -/

/-- an error value that is not a model panic -/
def NPE (e : Err) : Prop := ∀ site, e ≠ .panic site

theorem npe_ps (n : ErrName) : NPE (.ps n) := by intro s; simp
theorem npe_eof : NPE .eof := by intro s; simp
theorem npe_other (t : String) : NPE (.other t) := by intro s; simp
theorem npe_io (t : String) : NPE (.io t) := by intro s; simp

/-- the sticky error is never a panic -/
def ErrOK (sc : Scanner) : Prop := ∀ e, sc.err = some e → NPE e

/-- scanner invariant: the sticky error is harmless; replay mode (`regurgitate`) is only
on while an eexec section is being opened -/
structure ScOK (sc : Scanner) : Prop where
  err : ErrOK sc
  reg : sc.eexec = 0 → sc.regurgitate = false

theorem bind_eq {α β : Type} (m : SM α) (f : α → SM β) (s : Scanner) :
    (m >>= f) s = match m s with
      | (.ok a, s') => f a s'
      | (.error e, s') => (.error e, s') := by
  show (ExceptT.bind m f) s = _
  unfold ExceptT.bind ExceptT.mk ExceptT.bindCont
  show (StateT.bind _ _) s = _
  unfold StateT.bind
  dsimp only
  generalize m s = p
  obtain ⟨r, s'⟩ := p
  cases r <;> rfl

/-- what a result `p` of an action started in `s` must satisfy -/
structure SafeRes {α : Type} (s : Scanner) (p : Except Err α × Scanner) : Prop where
  eexec : p.2.eexec = s.eexec
  reg : p.2.regurgitate = s.regurgitate
  err : ErrOK p.2
  res : ∀ e, p.1 = .error e → NPE e

def SafeAt {α : Type} (m : SM α) (s : Scanner) : Prop := SafeRes s (m s)

/-- the action leaves `eexec`/`regurgitate` alone, keeps the sticky error harmless and
does not fail with a panic -/
structure Safe {α : Type} (m : SM α) : Prop where
  run : ∀ s, ErrOK s → SafeAt m s

theorem Safe.pure {α : Type} (a : α) : Safe (pure a : SM α) :=
  ⟨fun s h => ⟨rfl, rfl, h, by intro e he; cases he⟩⟩

theorem Safe.getS : Safe Scan.getS :=
  ⟨fun s h => ⟨rfl, rfl, h, by intro e he; cases he⟩⟩

theorem Safe.fail {α : Type} (e : Err) (he : NPE e) : Safe (Scan.fail e : SM α) :=
  ⟨fun s h => ⟨rfl, rfl, h, by intro e' h'; cases h'; exact he⟩⟩

theorem Safe.modS (f : Scanner → Scanner)
    (hf : ∀ s, (f s).eexec = s.eexec ∧ (f s).regurgitate = s.regurgitate ∧ (f s).err = s.err) :
    Safe (Scan.modS f) :=
  ⟨fun s h => ⟨(hf s).1, (hf s).2.1, by intro e he; exact h e (by rw [← (hf s).2.2]; exact he),
    by intro e he; cases he⟩⟩

theorem SafeAt.bind {α β : Type} {m : SM α} {f : α → SM β} {s : Scanner}
    (hm : SafeAt m s) (hf : ∀ a s', m s = (.ok a, s') → SafeAt (f a) s') : SafeAt (m >>= f) s := by
  have e := bind_eq m f s
  unfold SafeAt at hm hf ⊢
  rw [e]
  generalize hp : m s = p at hm hf
  obtain ⟨r, s'⟩ := p
  obtain ⟨h1, h2, h3, h4⟩ := hm
  cases r with
  | error x => dsimp only; exact ⟨h1, h2, h3, by intro e he; cases he; exact h4 _ rfl⟩
  | ok a =>
    obtain ⟨g1, g2, g3, g4⟩ := hf a s' rfl
    dsimp only at h1 h2 h3 ⊢
    exact ⟨by rw [g1, h1], by rw [g2, h2], g3, g4⟩

theorem Safe.bind {α β : Type} {m : SM α} {f : α → SM β} (hm : Safe m) (hf : ∀ a, Safe (f a)) :
    Safe (m >>= f) := by
  refine ⟨fun s h => SafeAt.bind (hm.run s h) ?_⟩
  intro a s' e
  have := (hm.run s h).err
  rw [e] at this
  exact (hf a).run s' this

theorem Safe.attempt {α : Type} {m : SM α} (hm : Safe m) : Safe (Scan.attempt m) := by
  refine ⟨fun s h => ?_⟩
  obtain ⟨h1, h2, h3, h4⟩ := hm.run s h
  unfold SafeAt Scan.attempt
  generalize m s = p at h1 h2 h3 h4
  obtain ⟨r, s'⟩ := p
  exact ⟨h1, h2, h3, by intro e he; cases he⟩

/-- `getS` followed by a continuation that may use what it read -/
theorem SafeAt.getS_bind {β : Type} {f : Scanner → SM β} {s : Scanner} (hf : SafeAt (f s) s) :
    SafeAt (Scan.getS >>= f) s := by
  have e : (Scan.getS >>= f) s = f s s := bind_eq Scan.getS f s
  unfold SafeAt at hf ⊢
  rw [e]; exact hf

/-- a state update that touches none of `eexec`, `regurgitate`, `err` -/
macro "frame_fun" : tactic =>
  `(tactic| (intro s; dsimp only; (repeat' split) <;> exact ⟨rfl, rfl, rfl⟩))

/-- decompose an action built from `bind`, `pure`, `attempt`, `getS`, `modS`, `fail`,
`if` and `match` -/
macro "safe_auto" : tactic =>
  `(tactic| repeat' (first
    | exact Safe.pure _
    | exact Safe.getS
    | exact Safe.fail _ (by intro s; simp [Scan.syntaxErr])
    | (apply Safe.modS; frame_fun)
    | apply Safe.attempt
    | apply Safe.bind
    | assumption
    | apply_assumption
    | intro _
    | split))

theorem safe_readByteRaw : Safe readByteRaw := by
  refine ⟨fun s h => ?_⟩
  unfold SafeAt readByteRaw
  dsimp only
  split
  · rename_i hc
    split
    · exact ⟨rfl, rfl, h, by intro e he; cases he⟩
    · rename_i hp; simp [hp] at hc
  · split
    · rename_i e he
      split
      · exact ⟨rfl, rfl, h, by intro e he; cases he⟩
      · exact ⟨rfl, rfl, h, by intro e' he'; cases he'; exact h e he⟩
    · split
      · exact ⟨rfl, rfl, h, by intro e he; cases he⟩
      · refine ⟨rfl, rfl, ?_, ?_⟩
        · intro e he
          dsimp only at he
          cases he
          split
          · exact npe_eof
          · exact npe_io _
        · intro e he
          cases he
          split
          · exact npe_eof
          · exact npe_io _

theorem safe_readHexPair : ∀ fuel i out, Safe (readHexPair fuel i out) := by
  intro fuel
  induction fuel with
  | zero => intro i out; unfold readHexPair; safe_auto
  | succ n ih =>
    intro i out
    unfold readHexPair
    have := safe_readByteRaw
    safe_auto

end PsVerif.Proofs.WFState
