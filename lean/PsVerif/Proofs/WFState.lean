import PsVerif.Proofs.WF
/-!
# Well-formed interpreter states and the re-entrant half of the interpreter (C01)

Part 1 (scanner): every action of `Model/Scanner.lean` the interpreter uses keeps the
scanner invariant `ScOK` and never fails with `Err.panic`.
-/
namespace PsVerif.Proofs.WFState
open PsVerif.Model PsVerif.Model.Scan PsVerif.Proofs.WF

set_option linter.unusedSimpArgs false
set_option linter.unusedVariables false

/-! ## Part 1: the scanner -/

/-- an error value that is not a model panic -/
def NPE (e : Err) : Prop := ∀ site, e ≠ .panic site

theorem npe_ps (n : ErrName) : NPE (.ps n) := by intro s; simp
theorem npe_eof : NPE .eof := by intro s; simp
theorem npe_other (t : String) : NPE (.other t) := by intro s; simp
theorem npe_io (t : String) : NPE (.io t) := by intro s; simp

/-- the sticky error is never a panic -/
def ErrOK (sc : Scanner) : Prop := ∀ e, sc.err = some e → NPE e

/-- scanner invariant: the sticky error is harmless; replay mode (`regurgitate`) is only
on while an eexec section is being opened -/
structure ScOK (sc : Scanner) : Prop where
  err : ErrOK sc
  reg : sc.eexec = 0 → sc.regurgitate = false

theorem bind_eq {α β : Type} (m : SM α) (f : α → SM β) (s : Scanner) :
    (m >>= f) s = match m s with
      | (.ok a, s') => f a s'
      | (.error e, s') => (.error e, s') := by
  show (ExceptT.bind m f) s = _
  unfold ExceptT.bind ExceptT.mk ExceptT.bindCont
  show (StateT.bind _ _) s = _
  unfold StateT.bind
  dsimp only
  generalize m s = p
  obtain ⟨r, s'⟩ := p
  cases r <;> rfl

/-- what a result `p` of an action started in `s` must satisfy; `Q` is a postcondition
on the value returned -/
structure SafeRes {α : Type} (Q : α → Prop) (s : Scanner) (p : Except Err α × Scanner) : Prop where
  eexec : p.2.eexec = s.eexec
  reg : p.2.regurgitate = s.regurgitate
  err : ErrOK p.2
  res : ∀ e, p.1 = .error e → NPE e
  val : ∀ a, p.1 = .ok a → Q a

def SafeAt {α : Type} (m : SM α) (Q : α → Prop) (s : Scanner) : Prop := SafeRes Q s (m s)

/-- the action leaves `eexec`/`regurgitate` alone, keeps the sticky error harmless, does
not fail with a panic, and its value satisfies `Q` -/
structure SafeP {α : Type} (m : SM α) (Q : α → Prop) : Prop where
  run : ∀ s, ErrOK s → SafeAt m Q s

abbrev Safe {α : Type} (m : SM α) : Prop := SafeP m (fun _ => True)

/-- a captured result whose error (if any) is harmless -/
def ResOK {α : Type} (r : Except Err α) : Prop := ∀ e, r = .error e → NPE e

theorem SafeP.pure {α : Type} {Q : α → Prop} (a : α) (h : Q a) : SafeP (pure a : SM α) Q :=
  ⟨fun s hs => ⟨rfl, rfl, hs, (by intro e he; cases he), by intro b hb; cases hb; exact h⟩⟩

theorem SafeP.pureT {α : Type} (a : α) : SafeP (Pure.pure a : SM α) (fun _ => True) := SafeP.pure a trivial

theorem SafeP.ite {α : Type} {Q : α → Prop} {c : Prop} [Decidable c] {a b : SM α}
    (ha : SafeP a Q) (hb : SafeP b Q) : SafeP (if c then a else b) Q := by
  split
  · exact ha
  · exact hb

theorem SafeP.getS : SafeP Scan.getS (fun _ => True) :=
  ⟨fun s h => ⟨rfl, rfl, h, (by intro e he; cases he), fun _ _ => trivial⟩⟩

theorem SafeP.fail {α : Type} {Q : α → Prop} (e : Err) (he : NPE e) : SafeP (Scan.fail e : SM α) Q :=
  ⟨fun s h => ⟨rfl, rfl, h, (by intro e' h'; cases h'; exact he), by intro a ha; cases ha⟩⟩

theorem SafeP.modS (f : Scanner → Scanner)
    (hf : ∀ s, (f s).eexec = s.eexec ∧ (f s).regurgitate = s.regurgitate ∧ (f s).err = s.err) :
    SafeP (Scan.modS f) (fun _ => True) :=
  ⟨fun s h => ⟨(hf s).1, (hf s).2.1, (by intro e he; exact h e (by rw [← (hf s).2.2]; exact he)),
    (by intro e he; cases he), fun _ _ => trivial⟩⟩

theorem SafeAt.bind {α β : Type} {m : SM α} {f : α → SM β} {s : Scanner} {Q : α → Prop} {R : β → Prop}
    (hm : SafeAt m Q s) (hf : ∀ a s', m s = (.ok a, s') → SafeAt (f a) R s') : SafeAt (m >>= f) R s := by
  have e := bind_eq m f s
  unfold SafeAt at hm hf ⊢
  rw [e]
  generalize hp : m s = p at hm hf
  obtain ⟨r, s'⟩ := p
  obtain ⟨h1, h2, h3, h4, h5⟩ := hm
  cases r with
  | error x =>
    dsimp only
    exact ⟨h1, h2, h3, (by intro e he; cases he; exact h4 _ rfl), by intro a ha; cases ha⟩
  | ok a =>
    obtain ⟨g1, g2, g3, g4, g5⟩ := hf a s' rfl
    dsimp only at h1 h2 h3 ⊢
    exact ⟨by rw [g1, h1], by rw [g2, h2], g3, g4, g5⟩

theorem SafeP.bind {α β : Type} {m : SM α} {f : α → SM β} {Q : α → Prop} {R : β → Prop}
    (hm : SafeP m Q) (hf : ∀ a, Q a → SafeP (f a) R) : SafeP (m >>= f) R := by
  refine ⟨fun s h => SafeAt.bind (hm.run s h) ?_⟩
  intro a s' e
  have h3 := (hm.run s h).err
  have h5 := (hm.run s h).val
  rw [e] at h3 h5
  exact (hf a (h5 a rfl)).run s' h3

theorem SafeP.attempt {α : Type} {m : SM α} {Q : α → Prop} (hm : SafeP m Q) :
    SafeP (Scan.attempt m) ResOK := by
  refine ⟨fun s h => ?_⟩
  obtain ⟨h1, h2, h3, h4, h5⟩ := hm.run s h
  unfold SafeAt Scan.attempt
  generalize m s = p at h1 h2 h3 h4 h5
  obtain ⟨r, s'⟩ := p
  exact ⟨h1, h2, h3, (by intro e he; cases he), by intro a ha; cases ha; exact h4⟩

theorem SafeP.weaken {α : Type} {m : SM α} {Q R : α → Prop} (hm : SafeP m Q) (h : ∀ a, Q a → R a) :
    SafeP m R :=
  ⟨fun s hs => ⟨(hm.run s hs).eexec, (hm.run s hs).reg, (hm.run s hs).err, (hm.run s hs).res,
    fun a ha => h a ((hm.run s hs).val a ha)⟩⟩

/-- `getS` followed by a continuation that may use what it read -/
theorem SafeAt.getS_bind {β : Type} {f : Scanner → SM β} {s : Scanner} {R : β → Prop} (hf : SafeAt (f s) R s) :
    SafeAt (Scan.getS >>= f) R s := by
  have e : (Scan.getS >>= f) s = f s s := bind_eq Scan.getS f s
  unfold SafeAt at hf ⊢
  rw [e]; exact hf

/-- a state update that touches none of `eexec`, `regurgitate`, `err` -/
macro "frame_fun" : tactic =>
  `(tactic| (intro s; dsimp only; (repeat' split) <;> exact ⟨rfl, rfl, rfl⟩))

/-- tries the lemmas proved so far (extended by `macro_rules` after each lemma) -/
syntax "safe_lemma" : tactic
macro_rules | `(tactic| safe_lemma) => `(tactic| fail "no lemma applies")

/-- decompose an action built from `bind`, `pure`, `attempt`, `getS`, `modS`, `fail`,
`if` and `match` -/
macro "safe_with" ih:ident : tactic =>
  `(tactic| repeat' (first
    | assumption
    | apply $ih
    | safe_lemma
    | exact SafeP.pureT _
    | exact SafeP.getS
    | (refine SafeP.modS _ ?_; frame_fun)
    | (show SafeP _ _; apply SafeP.attempt)
    | (show SafeP _ _; apply SafeP.bind)
    | (refine SafeP.fail _ ?_; first | (intro s; simp [Scan.syntaxErr]; done) | (apply_assumption; rfl))
    | refine SafeP.ite ?_ ?_
    | intro _
    | split
    | dsimp only))

macro "safe_auto" : tactic => `(tactic| (have trivialHyp : True := trivial; safe_with trivialHyp))

/-- `Safe` for a function that recurses on its first (fuel or count) argument -/
macro "safe_rec" f:ident : tactic =>
  `(tactic| (intro fuel; induction fuel with
    | zero => intros; unfold $f; safe_auto
    | succ n ih => intros; unfold $f; safe_with ih))

theorem safe_readByteRaw : Safe readByteRaw := by
  refine ⟨fun s h => ?_⟩
  unfold SafeAt readByteRaw
  dsimp only
  split
  · rename_i hc
    split
    · exact ⟨rfl, rfl, h, (by intro e he; cases he), fun _ _ => trivial⟩
    · rename_i hp; simp [hp] at hc
  · split
    · rename_i e he
      split
      · exact ⟨rfl, rfl, h, (by intro e he; cases he), fun _ _ => trivial⟩
      · exact ⟨rfl, rfl, h, (by intro e' he'; cases he'; exact h e he), fun _ _ => trivial⟩
    · split
      · exact ⟨rfl, rfl, h, (by intro e he; cases he), fun _ _ => trivial⟩
      · refine ⟨rfl, rfl, ?_, ?_, fun _ _ => trivial⟩
        · intro e he
          dsimp only at he
          cases he
          split
          · exact npe_eof
          · exact npe_io _
        · intro e he
          cases he
          split
          · exact npe_eof
          · exact npe_io _

macro_rules | `(tactic| safe_lemma) => `(tactic| exact safe_readByteRaw)

theorem safe_readHexPair : ∀ fuel i out, Safe (readHexPair fuel i out) := by safe_rec readHexPair
macro_rules | `(tactic| safe_lemma) => `(tactic| apply safe_readHexPair)

theorem safe_readByteEexec : Safe readByteEexec := by unfold readByteEexec; safe_auto
macro_rules | `(tactic| safe_lemma) => `(tactic| exact safe_readByteEexec)

theorem safe_readByte : Safe readByte := by
  unfold readByte
  apply SafeP.bind
  · exact SafeP.getS
  intro s _
  split
  · safe_lemma
  apply SafeP.bind
  · safe_lemma
  intro b _
  apply SafeP.bind
  · exact SafeP.getS
  intro s2 _
  generalize Cipher.decStep s2.r b = q
  obtain ⟨p, r'⟩ := q
  dsimp only
  safe_auto
macro_rules | `(tactic| safe_lemma) => `(tactic| exact safe_readByte)

theorem safe_next : Safe next := by
  unfold next
  safe_auto
  rename_i s hc _ hp
  simp [hp] at hc
macro_rules | `(tactic| safe_lemma) => `(tactic| exact safe_next)

theorem safe_peek : Safe peek := by unfold peek; safe_auto
macro_rules | `(tactic| safe_lemma) => `(tactic| exact safe_peek)

theorem safe_peekN (n : Nat) : ∀ fuel, Safe (peekN n fuel) := by safe_rec peekN
macro_rules | `(tactic| safe_lemma) => `(tactic| apply safe_peekN)

theorem safe_lookingAt (pat : List UInt8) : Safe (lookingAt pat) := by unfold lookingAt; safe_auto
macro_rules | `(tactic| safe_lemma) => `(tactic| apply safe_lookingAt)

theorem safe_skipByte : Safe skipByte := by unfold skipByte; safe_auto
macro_rules | `(tactic| safe_lemma) => `(tactic| exact safe_skipByte)

theorem safe_skipN : ∀ n, Safe (skipN n) := by safe_rec skipN
macro_rules | `(tactic| safe_lemma) => `(tactic| apply safe_skipN)

theorem safe_skipRequiredByte (b : UInt8) : Safe (skipRequiredByte b) := by unfold skipRequiredByte; safe_auto
macro_rules | `(tactic| safe_lemma) => `(tactic| apply safe_skipRequiredByte)

theorem safe_skipOptionalByte (b : UInt8) : Safe (skipOptionalByte b) := by unfold skipOptionalByte; safe_auto
macro_rules | `(tactic| safe_lemma) => `(tactic| apply safe_skipOptionalByte)

theorem safe_skipToEOL : ∀ fuel, Safe (skipToEOL fuel) := by safe_rec skipToEOL
macro_rules | `(tactic| safe_lemma) => `(tactic| apply safe_skipToEOL)

theorem safe_skipComment : Safe skipComment := by unfold skipComment; safe_auto
macro_rules | `(tactic| safe_lemma) => `(tactic| exact safe_skipComment)

theorem safe_readCommentKey : ∀ fuel acc, Safe (readCommentKey fuel acc) := by safe_rec readCommentKey
macro_rules | `(tactic| safe_lemma) => `(tactic| apply safe_readCommentKey)

theorem safe_skipBlanks : ∀ fuel, Safe (skipBlanks fuel) := by safe_rec skipBlanks
macro_rules | `(tactic| safe_lemma) => `(tactic| apply safe_skipBlanks)

theorem safe_readLine : ∀ fuel acc, Safe (readLine fuel acc) := by safe_rec readLine
macro_rules | `(tactic| safe_lemma) => `(tactic| apply safe_readLine)

theorem safe_readCommentValue : ∀ fuel acc, Safe (readCommentValue fuel acc) := by safe_rec readCommentValue
macro_rules | `(tactic| safe_lemma) => `(tactic| apply safe_readCommentValue)

theorem safe_readStructuredComment : Safe readStructuredComment := by unfold readStructuredComment; safe_auto
macro_rules | `(tactic| safe_lemma) => `(tactic| exact safe_readStructuredComment)

theorem safe_skipWhiteSpace : ∀ fuel, Safe (skipWhiteSpace fuel) := by safe_rec skipWhiteSpace
macro_rules | `(tactic| safe_lemma) => `(tactic| apply safe_skipWhiteSpace)

theorem safe_readOctal : ∀ n oct, Safe (readOctal n oct) := by safe_rec readOctal
macro_rules | `(tactic| safe_lemma) => `(tactic| apply safe_readOctal)

theorem safe_readStringBody : ∀ fuel res level ign, Safe (readStringBody fuel res level ign) := by
  safe_rec readStringBody
macro_rules | `(tactic| safe_lemma) => `(tactic| apply safe_readStringBody)

theorem safe_readString : Safe readString := by unfold readString; safe_auto
macro_rules | `(tactic| safe_lemma) => `(tactic| exact safe_readString)

theorem safe_readHexBody : ∀ fuel res first hi, Safe (readHexBody fuel res first hi) := by safe_rec readHexBody
macro_rules | `(tactic| safe_lemma) => `(tactic| apply safe_readHexBody)

theorem safe_readHexString : Safe readHexString := by unfold readHexString; safe_auto
macro_rules | `(tactic| safe_lemma) => `(tactic| exact safe_readHexString)

theorem safe_readA85Body : ∀ fuel res pos val, Safe (readA85Body fuel res pos val) := by safe_rec readA85Body
macro_rules | `(tactic| safe_lemma) => `(tactic| apply safe_readA85Body)

theorem safe_readBase85String : Safe readBase85String := by unfold readBase85String; safe_auto
macro_rules | `(tactic| safe_lemma) => `(tactic| exact safe_readBase85String)

theorem safe_readRegular : ∀ fuel acc, Safe (readRegular fuel acc) := by safe_rec readRegular
macro_rules | `(tactic| safe_lemma) => `(tactic| apply safe_readRegular)

theorem safe_skipEexecSpace : ∀ fuel, Safe (skipEexecSpace fuel) := by safe_rec skipEexecSpace
macro_rules | `(tactic| safe_lemma) => `(tactic| apply safe_skipEexecSpace)

theorem safe_skipIV : ∀ n, Safe (skipIV n) := by safe_rec skipIV
macro_rules | `(tactic| safe_lemma) => `(tactic| apply safe_skipIV)

theorem safe_readN : ∀ n acc, Safe (readN n acc) := by safe_rec readN
macro_rules | `(tactic| safe_lemma) => `(tactic| apply safe_readN)

/-! ### opening and closing an eexec section -/

/-- outside eexec sections and replay mode `readByte` is `readByteRaw`, which only fails
after recording a sticky error -/
theorem readByte_plain (s : Scanner) (he : s.eexec = 0) (hr : s.regurgitate = false) :
    (∀ e, (readByte s).1 = .error e → (readByte s).2.err ≠ none) ∧
    (readByte s).2.peek = s.peek := by
  have e1 : readByte s = readByteRaw s := by
    unfold readByte
    rw [bind_eq]
    simp [Scan.getS, he]
  rw [e1]
  unfold readByteRaw
  cases hsrc : s.src <;> cases herr : s.err <;> simp [hr, hsrc, herr]

theorem peekN_short (n : Nat) : ∀ fuel s, ErrOK s → s.eexec = 0 → s.regurgitate = false →
    n ≤ s.peek.length + fuel →
    ∀ bb, (peekN n fuel s).1 = .ok bb → bb.length < n → (peekN n fuel s).2.err ≠ none := by
  intro fuel
  induction fuel with
  | zero =>
    intro s _ _ _ hn bb hb hl
    unfold peekN at hb
    rw [bind_eq] at hb
    simp [Scan.getS, pure, ExceptT.pure, ExceptT.mk, StateT.pure] at hb
    subst hb
    simp at hl
    omega
  | succ f ih =>
    intro s hs he hr hn bb hb hl
    unfold peekN at hb ⊢
    rw [bind_eq] at hb ⊢
    simp only [Scan.getS] at hb ⊢
    by_cases hc : s.peek.length ≥ n
    · simp only [hc, if_true] at hb
      simp [pure, ExceptT.pure, ExceptT.mk, StateT.pure] at hb
      subst hb
      simp at hl
      omega
    · simp only [hc, if_false] at hb ⊢
      rw [bind_eq] at hb ⊢
      have hp := readByte_plain s he hr
      have hsafe := safe_readByte.run s hs
      unfold SafeAt at hsafe
      unfold Scan.attempt at hb ⊢
      generalize readByte s = p at hp hsafe hb
      obtain ⟨r, s1⟩ := p
      obtain ⟨g1, g2, g3, g4, g5⟩ := hsafe
      dsimp only at hp g1 g2 g3 hb ⊢
      cases r with
      | error e =>
        dsimp only at hb ⊢
        rw [bind_eq]
        simp only [Scan.getS]
        exact hp.1 e rfl
      | ok b =>
        dsimp only at hb ⊢
        rw [bind_eq] at hb ⊢
        simp only [Scan.modS] at hb ⊢
        refine ih _ ?_ ?_ ?_ ?_ bb hb hl
        · exact g3
        · rw [← he]; exact g1
        · rw [← hr]; exact g2
        · simp only [List.length_append, List.length_cons, List.length_nil]
          rw [hp.2]; omega

theorem beginEexec_busy (s : Scanner) (h : s.eexec ≠ 0) :
    beginEexec s = (.error (.ps "invalidaccess"), s) := by
  unfold beginEexec
  rw [bind_eq]
  simp only [Scan.getS]
  have hc : (s.eexec != 0) = true := by simp [h]
  simp only [hc, if_true]
  rw [bind_eq]
  rfl

/-- what `beginEexec` guarantees -/
structure BeginPost (r : Except Err Unit) (s' : Scanner) : Prop where
  err : ErrOK s'
  res : ResOK r
  reg : s'.eexec = 0 → s'.regurgitate = false
  ok : r = .ok () → s'.eexec ≠ 0 ∧ s'.regurgitate = false

theorem beginEexec_idle (s : Scanner) (hs : ErrOK s) (he : s.eexec = 0) (hr : s.regurgitate = false) :
    BeginPost (beginEexec s).1 (beginEexec s).2 := by
  unfold beginEexec
  rw [bind_eq]
  simp only [Scan.getS]
  have hc : (s.eexec != 0) = false := by simp [he]
  simp only [hc, Bool.false_eq_true, if_false]
  rw [bind_eq]
  have h1 := (safe_skipEexecSpace (fuelOf s)).run s hs
  unfold SafeAt at h1
  generalize skipEexecSpace (fuelOf s) s = p1 at h1
  obtain ⟨r1, s1⟩ := p1
  obtain ⟨a1, a2, a3, a4, a5⟩ := h1
  dsimp only at a1 a2 a3
  cases r1 with
  | error e =>
    exact ⟨a3, (by intro e' h'; cases h'; exact a4 _ rfl), (by intro _; rw [a2]; exact hr), (by intro h; cases h)⟩
  | ok u =>
    dsimp only
    rw [bind_eq]
    have h2 := (safe_peekN 4 5).run s1 a3
    have hshort := peekN_short 4 5 s1 a3 (by rw [a1]; exact he) (by rw [a2]; exact hr) (by omega)
    unfold SafeAt at h2
    generalize peekN 4 5 s1 = p2 at h2 hshort
    obtain ⟨r2, s2⟩ := p2
    obtain ⟨b1, b2, b3, b4, b5⟩ := h2
    dsimp only at b1 b2 b3 hshort
    cases r2 with
    | error e =>
      exact ⟨b3, (by intro e' h'; cases h'; exact b4 _ rfl), (by intro _; rw [b2, a2]; exact hr), (by intro h; cases h)⟩
    | ok bb =>
      dsimp only
      by_cases hl : bb.length < 4
      · simp only [hl, if_true]
        rw [bind_eq]
        simp only [Scan.getS]
        cases herr : s2.err with
        | none => exact absurd herr (hshort bb rfl hl)
        | some e =>
          dsimp only
          rw [bind_eq]
          simp only [Scan.fail]
          exact ⟨b3, (by intro e' h'; cases h'; exact b3 e herr), (by intro _; rw [b2, a2]; exact hr), (by intro h; cases h)⟩
      · simp only [hl, if_false]
        rw [bind_eq]
        simp only [Scan.modS]
        rw [bind_eq]
        generalize hs3 : Scanner.mk s2.src s2.fault s2.peek true (if (!bb.all isHexDigit) = true then 2 else 1)
          Cipher.eexecR s2.line s2.col s2.crSeen s2.dsc s2.err = s3
        have e3 : s3.eexec ≠ 0 := by subst hs3; dsimp only; split <;> omega
        have ok3 : ErrOK s3 := by subst hs3; exact b3
        have h3 := (safe_skipIV 4).run s3 ok3
        unfold SafeAt at h3
        generalize skipIV 4 s3 = p4 at h3
        obtain ⟨r4, s4⟩ := p4
        obtain ⟨c1, c2, c3, c4, c5⟩ := h3
        dsimp only at c1 c2 c3
        cases r4 with
        | error e =>
          exact ⟨c3, (by intro e' h'; cases h'; exact c4 _ rfl), (by intro h0; rw [c1] at h0; exact absurd h0 e3),
            (by intro h; cases h)⟩
        | ok u =>
          exact ⟨c3, (by intro e' h'; cases h'), (by intro h0; exact absurd (c1 ▸ h0) e3),
            (by intro _; exact ⟨by show s4.eexec ≠ 0; rw [c1]; exact e3, rfl⟩)⟩

theorem beginEexec_post (s : Scanner) (h : ScOK s) : BeginPost (beginEexec s).1 (beginEexec s).2 := by
  by_cases he : s.eexec = 0
  · exact beginEexec_idle s h.err he (h.reg he)
  · rw [beginEexec_busy s he]
    exact ⟨h.err, (by intro e h'; cases h'; exact npe_ps _), h.reg, (by intro h'; cases h')⟩

theorem endEexec_eq (s : Scanner) : endEexec s = (.ok (), { s with eexec := 0 }) := rfl

/-! ### scanned tokens are simple objects -/

/-- an object without references: fine in every heap -/
def Simple (o : Obj) : Prop := ∀ h res, objOK h res o

def TokOK : Tok → Prop
  | .obj o => Simple o
  | .str _ => True

theorem simple_op (n : Name) : Simple (.op n) := fun _ _ => trivial
theorem simple_name (n : Name) : Simple (.name n) := fun _ _ => trivial
theorem simple_int (n : Int) : Simple (.int n) := fun _ _ => trivial
theorem simple_real (n : UInt64) : Simple (.real n) := fun _ _ => trivial

theorem parseNumber_simple {bs : List UInt8} {x : Obj} (h : parseNumber bs = some x) : Simple x := by
  unfold parseNumber at h
  split at h
  · cases h; exact simple_int _
  · dsimp only at h
    split at h
    · rename_i r hr
      split at hr
      · split at hr
        · cases hr; cases h; exact simple_real _
        · cases hr; cases h
      · cases hr
    · split at h
      · cases h; exact simple_int _
      · cases h

theorem failSticky_any {α : Type} {R : α → Prop} (bb : List UInt8) :
    SafeP (do
      let s ← getS
      match (if bb.length < 2 then s.err else none) with
      | some e => (fail e : SM α)
      | none => fail syntaxErr) R := by
  refine ⟨fun s h => SafeAt.getS_bind ?_⟩
  split
  · rename_i e he
    refine (SafeP.fail e ?_).run s h
    split at he
    · exact h e he
    · cases he
  · exact (SafeP.fail _ (npe_ps _)).run s h
macro_rules | `(tactic| safe_lemma) => `(tactic| exact failSticky_any _)

theorem scanToken_tok : SafeP scanToken TokOK := by
  unfold scanToken
  safe_auto
  all_goals first
    | exact SafeP.pure _ trivial
    | exact SafeP.pure _ (simple_op _)
    | exact SafeP.pure _ (simple_name _)
    | exact SafeP.pure _ (parseNumber_simple (by assumption))

end PsVerif.Proofs.WFState
