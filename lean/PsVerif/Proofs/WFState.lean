import PsVerif.Proofs.WF
/-!
# Well-formed interpreter states and the re-entrant half of the interpreter (C01)

`Proofs/WF.lean` shows that the data operators keep the heap invariant `WF` and never hit a
panic site.  This file does the same for the rest of the interpreter model: the scanner
(`Model/Scanner.lean`) and the thirteen mutually recursive functions of `Model/Interp.lean`.

Part 1 (scanner).  `ScOK sc`: the sticky error `sc.err` is not a panic value, and replay mode
(`regurgitate`) is only on while an eexec section is open (`eexec = 0 → regurgitate = false`).
`SafeP m Q` says that the scanner action `m`, started in any state with a harmless sticky
error, leaves `eexec`/`regurgitate` alone, keeps the sticky error harmless, does not fail with
`Err.panic`, and returns a value satisfying `Q`.  The 31 lemmas `safe_*` cover every action of
the scanner below `scanToken` (proved by the small decomposition tactic `safe_auto`);
`readN_val` adds the length bound `readstring` needs; `scanToken_tok`: scanned tokens are strings or
reference-free objects; `beginEexec_post`: `BeginEexec` keeps `ScOK`, never panics (the
"nil error returned" site needs `peekN_short`: a short look-ahead outside eexec mode implies
a recorded error) and leaves the scanner in eexec mode on success; `beginEexec_busy`: inside
an eexec section it fails without touching the scanner.

Part 2 (states).  `WFS s` = `WF s.vm ∧ ScOK s.scanner`.  `PostS s p` is the postcondition of
every interpreter function started in `s`: the final state is `WFS`, the heap is only
extended (`Ext`), `roots` and `scannerDepth` are unchanged, an open eexec section stays open
(`busy`), and the result is not `Err.panic`.  `All m fuel` states this for the 13 functions
(objects handed to `executeOne` are `objOK` in the current heap; views handed to the loops
lie inside their stores, which stays true while the heap is extended); `all_fuel` proves it by
induction on the fuel.  `execute_post` is the statement for `Execute`.
-/
namespace PsVerif.Proofs.WFState
open PsVerif.Model PsVerif.Model.Scan PsVerif.Proofs.WF

set_option linter.unusedSimpArgs false
set_option linter.unusedVariables false

/-! ## Part 1: the scanner -/

/-- an error value that is not a model panic -/
def NPE (e : Err) : Prop := ∀ site, e ≠ .panic site

theorem npe_ps (n : ErrName) : NPE (.ps n) := by intro s; simp
theorem npe_eof : NPE .eof := by intro s; simp
theorem npe_other (t : String) : NPE (.other t) := by intro s; simp
theorem npe_io (t : String) : NPE (.io t) := by intro s; simp

/-- the sticky error is never a panic -/
def ErrOK (sc : Scanner) : Prop := ∀ e, sc.err = some e → NPE e

/-- scanner invariant: the sticky error is harmless; replay mode (`regurgitate`) is only
on while an eexec section is being opened -/
structure ScOK (sc : Scanner) : Prop where
  err : ErrOK sc
  reg : sc.eexec = 0 → sc.regurgitate = false

theorem bind_eq {α β : Type} (m : SM α) (f : α → SM β) (s : Scanner) :
    (m >>= f) s = match m s with
      | (.ok a, s') => f a s'
      | (.error e, s') => (.error e, s') := by
  show (ExceptT.bind m f) s = _
  unfold ExceptT.bind ExceptT.mk ExceptT.bindCont
  show (StateT.bind _ _) s = _
  unfold StateT.bind
  dsimp only
  generalize m s = p
  obtain ⟨r, s'⟩ := p
  cases r <;> rfl

/-- what a result `p` of an action started in `s` must satisfy; `Q` is a postcondition
on the value returned -/
structure SafeRes {α : Type} (Q : α → Prop) (s : Scanner) (p : Except Err α × Scanner) : Prop where
  eexec : p.2.eexec = s.eexec
  reg : p.2.regurgitate = s.regurgitate
  err : ErrOK p.2
  res : ∀ e, p.1 = .error e → NPE e
  val : ∀ a, p.1 = .ok a → Q a

def SafeAt {α : Type} (m : SM α) (Q : α → Prop) (s : Scanner) : Prop := SafeRes Q s (m s)

/-- the action leaves `eexec`/`regurgitate` alone, keeps the sticky error harmless, does
not fail with a panic, and its value satisfies `Q` -/
structure SafeP {α : Type} (m : SM α) (Q : α → Prop) : Prop where
  run : ∀ s, ErrOK s → SafeAt m Q s

abbrev Safe {α : Type} (m : SM α) : Prop := SafeP m (fun _ => True)

/-- a captured result whose error (if any) is harmless -/
def ResOK {α : Type} (r : Except Err α) : Prop := ∀ e, r = .error e → NPE e

theorem SafeP.pure {α : Type} {Q : α → Prop} (a : α) (h : Q a) : SafeP (pure a : SM α) Q :=
  ⟨fun s hs => ⟨rfl, rfl, hs, (by intro e he; cases he), by intro b hb; cases hb; exact h⟩⟩

theorem SafeP.pureT {α : Type} (a : α) : SafeP (Pure.pure a : SM α) (fun _ => True) := SafeP.pure a trivial

theorem SafeP.ite {α : Type} {Q : α → Prop} {c : Prop} [Decidable c] {a b : SM α}
    (ha : SafeP a Q) (hb : SafeP b Q) : SafeP (if c then a else b) Q := by
  split
  · exact ha
  · exact hb

theorem SafeP.getS : SafeP Scan.getS (fun _ => True) :=
  ⟨fun s h => ⟨rfl, rfl, h, (by intro e he; cases he), fun _ _ => trivial⟩⟩

theorem SafeP.fail {α : Type} {Q : α → Prop} (e : Err) (he : NPE e) : SafeP (Scan.fail e : SM α) Q :=
  ⟨fun s h => ⟨rfl, rfl, h, (by intro e' h'; cases h'; exact he), by intro a ha; cases ha⟩⟩

theorem SafeP.modS (f : Scanner → Scanner)
    (hf : ∀ s, (f s).eexec = s.eexec ∧ (f s).regurgitate = s.regurgitate ∧ (f s).err = s.err) :
    SafeP (Scan.modS f) (fun _ => True) :=
  ⟨fun s h => ⟨(hf s).1, (hf s).2.1, (by intro e he; exact h e (by rw [← (hf s).2.2]; exact he)),
    (by intro e he; cases he), fun _ _ => trivial⟩⟩

theorem SafeAt.bind {α β : Type} {m : SM α} {f : α → SM β} {s : Scanner} {Q : α → Prop} {R : β → Prop}
    (hm : SafeAt m Q s) (hf : ∀ a s', m s = (.ok a, s') → SafeAt (f a) R s') : SafeAt (m >>= f) R s := by
  have e := bind_eq m f s
  unfold SafeAt at hm hf ⊢
  rw [e]
  generalize hp : m s = p at hm hf
  obtain ⟨r, s'⟩ := p
  obtain ⟨h1, h2, h3, h4, h5⟩ := hm
  cases r with
  | error x =>
    dsimp only
    exact ⟨h1, h2, h3, (by intro e he; cases he; exact h4 _ rfl), by intro a ha; cases ha⟩
  | ok a =>
    obtain ⟨g1, g2, g3, g4, g5⟩ := hf a s' rfl
    dsimp only at h1 h2 h3 ⊢
    exact ⟨by rw [g1, h1], by rw [g2, h2], g3, g4, g5⟩

theorem SafeP.bind {α β : Type} {m : SM α} {f : α → SM β} {Q : α → Prop} {R : β → Prop}
    (hm : SafeP m Q) (hf : ∀ a, Q a → SafeP (f a) R) : SafeP (m >>= f) R := by
  refine ⟨fun s h => SafeAt.bind (hm.run s h) ?_⟩
  intro a s' e
  have h3 := (hm.run s h).err
  have h5 := (hm.run s h).val
  rw [e] at h3 h5
  exact (hf a (h5 a rfl)).run s' h3

theorem SafeP.attempt {α : Type} {m : SM α} {Q : α → Prop} (hm : SafeP m Q) :
    SafeP (Scan.attempt m) ResOK := by
  refine ⟨fun s h => ?_⟩
  obtain ⟨h1, h2, h3, h4, h5⟩ := hm.run s h
  unfold SafeAt Scan.attempt
  generalize m s = p at h1 h2 h3 h4 h5
  obtain ⟨r, s'⟩ := p
  exact ⟨h1, h2, h3, (by intro e he; cases he), by intro a ha; cases ha; exact h4⟩

theorem SafeP.weaken {α : Type} {m : SM α} {Q R : α → Prop} (hm : SafeP m Q) (h : ∀ a, Q a → R a) :
    SafeP m R :=
  ⟨fun s hs => ⟨(hm.run s hs).eexec, (hm.run s hs).reg, (hm.run s hs).err, (hm.run s hs).res,
    fun a ha => h a ((hm.run s hs).val a ha)⟩⟩

/-- `getS` followed by a continuation that may use what it read -/
theorem SafeAt.getS_bind {β : Type} {f : Scanner → SM β} {s : Scanner} {R : β → Prop} (hf : SafeAt (f s) R s) :
    SafeAt (Scan.getS >>= f) R s := by
  have e : (Scan.getS >>= f) s = f s s := bind_eq Scan.getS f s
  unfold SafeAt at hf ⊢
  rw [e]; exact hf

/-- a state update that touches none of `eexec`, `regurgitate`, `err` -/
macro "frame_fun" : tactic =>
  `(tactic| (intro s; dsimp only; (repeat' split) <;> exact ⟨rfl, rfl, rfl⟩))

/-- tries the lemmas proved so far (extended by `macro_rules` after each lemma) -/
syntax "safe_lemma" : tactic
macro_rules | `(tactic| safe_lemma) => `(tactic| fail "no lemma applies")

/-- decompose an action built from `bind`, `pure`, `attempt`, `getS`, `modS`, `fail`,
`if` and `match` -/
macro "safe_with" ih:ident : tactic =>
  `(tactic| repeat' (first
    | assumption
    | apply $ih
    | safe_lemma
    | exact SafeP.pureT _
    | exact SafeP.getS
    | (refine SafeP.modS _ ?_; frame_fun)
    | (show SafeP _ _; apply SafeP.attempt)
    | (show SafeP _ _; apply SafeP.bind)
    | (refine SafeP.fail _ ?_; first | (intro s; simp [Scan.syntaxErr]; done) | (apply_assumption; rfl))
    | refine SafeP.ite ?_ ?_
    | intro _
    | split
    | dsimp only))

macro "safe_auto" : tactic => `(tactic| (have trivialHyp : True := trivial; safe_with trivialHyp))

/-- `Safe` for a function that recurses on its first (fuel or count) argument -/
macro "safe_rec" f:ident : tactic =>
  `(tactic| (intro fuel; induction fuel with
    | zero => intros; unfold $f; safe_auto
    | succ n ih => intros; unfold $f; safe_with ih))

theorem safe_readByteRaw : Safe readByteRaw := by
  refine ⟨fun s h => ?_⟩
  unfold SafeAt readByteRaw
  dsimp only
  split
  · rename_i hc
    split
    · exact ⟨rfl, rfl, h, (by intro e he; cases he), fun _ _ => trivial⟩
    · rename_i hp; simp [hp] at hc
  · split
    · rename_i e he
      split
      · exact ⟨rfl, rfl, h, (by intro e he; cases he), fun _ _ => trivial⟩
      · exact ⟨rfl, rfl, h, (by intro e' he'; cases he'; exact h e he), fun _ _ => trivial⟩
    · split
      · exact ⟨rfl, rfl, h, (by intro e he; cases he), fun _ _ => trivial⟩
      · refine ⟨rfl, rfl, ?_, ?_, fun _ _ => trivial⟩
        · intro e he
          dsimp only at he
          cases he
          split
          · exact npe_eof
          · exact npe_io _
        · intro e he
          cases he
          split
          · exact npe_eof
          · exact npe_io _

macro_rules | `(tactic| safe_lemma) => `(tactic| exact safe_readByteRaw)

theorem safe_readHexPair : ∀ fuel i out, Safe (readHexPair fuel i out) := by safe_rec readHexPair
macro_rules | `(tactic| safe_lemma) => `(tactic| apply safe_readHexPair)

theorem safe_readByteEexec : Safe readByteEexec := by unfold readByteEexec; safe_auto
macro_rules | `(tactic| safe_lemma) => `(tactic| exact safe_readByteEexec)

theorem safe_readByte : Safe readByte := by
  unfold readByte
  apply SafeP.bind
  · exact SafeP.getS
  intro s _
  split
  · safe_lemma
  apply SafeP.bind
  · safe_lemma
  intro b _
  apply SafeP.bind
  · exact SafeP.getS
  intro s2 _
  generalize Cipher.decStep s2.r b = q
  obtain ⟨p, r'⟩ := q
  dsimp only
  safe_auto
macro_rules | `(tactic| safe_lemma) => `(tactic| exact safe_readByte)

theorem safe_next : Safe next := by
  unfold next
  safe_auto
  rename_i s hc _ hp
  simp [hp] at hc
macro_rules | `(tactic| safe_lemma) => `(tactic| exact safe_next)

theorem safe_peek : Safe peek := by unfold peek; safe_auto
macro_rules | `(tactic| safe_lemma) => `(tactic| exact safe_peek)

theorem safe_peekN (n : Nat) : ∀ fuel, Safe (peekN n fuel) := by safe_rec peekN
macro_rules | `(tactic| safe_lemma) => `(tactic| apply safe_peekN)

theorem safe_lookingAt (pat : List UInt8) : Safe (lookingAt pat) := by unfold lookingAt; safe_auto
macro_rules | `(tactic| safe_lemma) => `(tactic| apply safe_lookingAt)

theorem safe_skipByte : Safe skipByte := by unfold skipByte; safe_auto
macro_rules | `(tactic| safe_lemma) => `(tactic| exact safe_skipByte)

theorem safe_skipN : ∀ n, Safe (skipN n) := by safe_rec skipN
macro_rules | `(tactic| safe_lemma) => `(tactic| apply safe_skipN)

theorem safe_skipRequiredByte (b : UInt8) : Safe (skipRequiredByte b) := by unfold skipRequiredByte; safe_auto
macro_rules | `(tactic| safe_lemma) => `(tactic| apply safe_skipRequiredByte)

theorem safe_skipOptionalByte (b : UInt8) : Safe (skipOptionalByte b) := by unfold skipOptionalByte; safe_auto
macro_rules | `(tactic| safe_lemma) => `(tactic| apply safe_skipOptionalByte)

theorem safe_skipToEOL : ∀ fuel, Safe (skipToEOL fuel) := by safe_rec skipToEOL
macro_rules | `(tactic| safe_lemma) => `(tactic| apply safe_skipToEOL)

theorem safe_skipComment : Safe skipComment := by unfold skipComment; safe_auto
macro_rules | `(tactic| safe_lemma) => `(tactic| exact safe_skipComment)

theorem safe_readCommentKey : ∀ fuel acc, Safe (readCommentKey fuel acc) := by safe_rec readCommentKey
macro_rules | `(tactic| safe_lemma) => `(tactic| apply safe_readCommentKey)

theorem safe_skipBlanks : ∀ fuel, Safe (skipBlanks fuel) := by safe_rec skipBlanks
macro_rules | `(tactic| safe_lemma) => `(tactic| apply safe_skipBlanks)

theorem safe_readLine : ∀ fuel acc, Safe (readLine fuel acc) := by safe_rec readLine
macro_rules | `(tactic| safe_lemma) => `(tactic| apply safe_readLine)

theorem safe_readCommentValue : ∀ fuel acc, Safe (readCommentValue fuel acc) := by safe_rec readCommentValue
macro_rules | `(tactic| safe_lemma) => `(tactic| apply safe_readCommentValue)

theorem safe_readStructuredComment : Safe readStructuredComment := by unfold readStructuredComment; safe_auto
macro_rules | `(tactic| safe_lemma) => `(tactic| exact safe_readStructuredComment)

theorem safe_skipWhiteSpace : ∀ fuel, Safe (skipWhiteSpace fuel) := by safe_rec skipWhiteSpace
macro_rules | `(tactic| safe_lemma) => `(tactic| apply safe_skipWhiteSpace)

theorem safe_readOctal : ∀ n oct, Safe (readOctal n oct) := by safe_rec readOctal
macro_rules | `(tactic| safe_lemma) => `(tactic| apply safe_readOctal)

theorem safe_readStringBody : ∀ fuel res level ign, Safe (readStringBody fuel res level ign) := by
  safe_rec readStringBody
macro_rules | `(tactic| safe_lemma) => `(tactic| apply safe_readStringBody)

theorem safe_readString : Safe readString := by unfold readString; safe_auto
macro_rules | `(tactic| safe_lemma) => `(tactic| exact safe_readString)

theorem safe_readHexBody : ∀ fuel res first hi, Safe (readHexBody fuel res first hi) := by safe_rec readHexBody
macro_rules | `(tactic| safe_lemma) => `(tactic| apply safe_readHexBody)

theorem safe_readHexString : Safe readHexString := by unfold readHexString; safe_auto
macro_rules | `(tactic| safe_lemma) => `(tactic| exact safe_readHexString)

theorem safe_readA85Body : ∀ fuel res pos val, Safe (readA85Body fuel res pos val) := by safe_rec readA85Body
macro_rules | `(tactic| safe_lemma) => `(tactic| apply safe_readA85Body)

theorem safe_readBase85String : Safe readBase85String := by unfold readBase85String; safe_auto
macro_rules | `(tactic| safe_lemma) => `(tactic| exact safe_readBase85String)

theorem safe_readRegular : ∀ fuel acc, Safe (readRegular fuel acc) := by safe_rec readRegular
macro_rules | `(tactic| safe_lemma) => `(tactic| apply safe_readRegular)

theorem safe_skipEexecSpace : ∀ fuel, Safe (skipEexecSpace fuel) := by safe_rec skipEexecSpace
macro_rules | `(tactic| safe_lemma) => `(tactic| apply safe_skipEexecSpace)

theorem safe_skipIV : ∀ n, Safe (skipIV n) := by safe_rec skipIV
macro_rules | `(tactic| safe_lemma) => `(tactic| apply safe_skipIV)

theorem safe_readN : ∀ n acc, Safe (readN n acc) := by safe_rec readN
macro_rules | `(tactic| safe_lemma) => `(tactic| apply safe_readN)

/-! ### opening and closing an eexec section -/

/-- outside eexec sections and replay mode `readByte` is `readByteRaw`, which only fails
after recording a sticky error -/
theorem readByte_plain (s : Scanner) (he : s.eexec = 0) (hr : s.regurgitate = false) :
    (∀ e, (readByte s).1 = .error e → (readByte s).2.err ≠ none) ∧
    (readByte s).2.peek = s.peek := by
  have e1 : readByte s = readByteRaw s := by
    unfold readByte
    rw [bind_eq]
    simp [Scan.getS, he]
  rw [e1]
  unfold readByteRaw
  cases hsrc : s.src <;> cases herr : s.err <;> simp [hr, hsrc, herr]

theorem peekN_short (n : Nat) : ∀ fuel s, ErrOK s → s.eexec = 0 → s.regurgitate = false →
    n ≤ s.peek.length + fuel →
    ∀ bb, (peekN n fuel s).1 = .ok bb → bb.length < n → (peekN n fuel s).2.err ≠ none := by
  intro fuel
  induction fuel with
  | zero =>
    intro s _ _ _ hn bb hb hl
    unfold peekN at hb
    rw [bind_eq] at hb
    simp [Scan.getS, pure, ExceptT.pure, ExceptT.mk, StateT.pure] at hb
    subst hb
    simp at hl
    omega
  | succ f ih =>
    intro s hs he hr hn bb hb hl
    unfold peekN at hb ⊢
    rw [bind_eq] at hb ⊢
    simp only [Scan.getS] at hb ⊢
    by_cases hc : s.peek.length ≥ n
    · simp only [hc, if_true] at hb
      simp [pure, ExceptT.pure, ExceptT.mk, StateT.pure] at hb
      subst hb
      simp at hl
      omega
    · simp only [hc, if_false] at hb ⊢
      rw [bind_eq] at hb ⊢
      have hp := readByte_plain s he hr
      have hsafe := safe_readByte.run s hs
      unfold SafeAt at hsafe
      unfold Scan.attempt at hb ⊢
      generalize readByte s = p at hp hsafe hb
      obtain ⟨r, s1⟩ := p
      obtain ⟨g1, g2, g3, g4, g5⟩ := hsafe
      dsimp only at hp g1 g2 g3 hb ⊢
      cases r with
      | error e =>
        dsimp only at hb ⊢
        rw [bind_eq]
        simp only [Scan.getS]
        exact hp.1 e rfl
      | ok b =>
        dsimp only at hb ⊢
        rw [bind_eq] at hb ⊢
        simp only [Scan.modS] at hb ⊢
        refine ih _ ?_ ?_ ?_ ?_ bb hb hl
        · exact g3
        · rw [← he]; exact g1
        · rw [← hr]; exact g2
        · simp only [List.length_append, List.length_cons, List.length_nil]
          rw [hp.2]; omega

theorem beginEexec_busy (s : Scanner) (h : s.eexec ≠ 0) :
    beginEexec s = (.error (.ps "invalidaccess"), s) := by
  unfold beginEexec
  rw [bind_eq]
  simp only [Scan.getS]
  have hc : (s.eexec != 0) = true := by simp [h]
  simp only [hc, if_true]
  rw [bind_eq]
  rfl

/-- what `beginEexec` guarantees -/
structure BeginPost (r : Except Err Unit) (s' : Scanner) : Prop where
  err : ErrOK s'
  res : ResOK r
  reg : s'.eexec = 0 → s'.regurgitate = false
  ok : r = .ok () → s'.eexec ≠ 0 ∧ s'.regurgitate = false

theorem beginEexec_idle (s : Scanner) (hs : ErrOK s) (he : s.eexec = 0) (hr : s.regurgitate = false) :
    BeginPost (beginEexec s).1 (beginEexec s).2 := by
  unfold beginEexec
  rw [bind_eq]
  simp only [Scan.getS]
  have hc : (s.eexec != 0) = false := by simp [he]
  simp only [hc, Bool.false_eq_true, if_false]
  rw [bind_eq]
  have h1 := (safe_skipEexecSpace (fuelOf s)).run s hs
  unfold SafeAt at h1
  generalize skipEexecSpace (fuelOf s) s = p1 at h1
  obtain ⟨r1, s1⟩ := p1
  obtain ⟨a1, a2, a3, a4, a5⟩ := h1
  dsimp only at a1 a2 a3
  cases r1 with
  | error e =>
    exact ⟨a3, (by intro e' h'; cases h'; exact a4 _ rfl), (by intro _; rw [a2]; exact hr), (by intro h; cases h)⟩
  | ok u =>
    dsimp only
    rw [bind_eq]
    have h2 := (safe_peekN 4 5).run s1 a3
    have hshort := peekN_short 4 5 s1 a3 (by rw [a1]; exact he) (by rw [a2]; exact hr) (by omega)
    unfold SafeAt at h2
    generalize peekN 4 5 s1 = p2 at h2 hshort
    obtain ⟨r2, s2⟩ := p2
    obtain ⟨b1, b2, b3, b4, b5⟩ := h2
    dsimp only at b1 b2 b3 hshort
    cases r2 with
    | error e =>
      exact ⟨b3, (by intro e' h'; cases h'; exact b4 _ rfl), (by intro _; rw [b2, a2]; exact hr), (by intro h; cases h)⟩
    | ok bb =>
      dsimp only
      by_cases hl : bb.length < 4
      · simp only [hl, if_true]
        rw [bind_eq]
        simp only [Scan.getS]
        cases herr : s2.err with
        | none => exact absurd herr (hshort bb rfl hl)
        | some e =>
          dsimp only
          rw [bind_eq]
          simp only [Scan.fail]
          exact ⟨b3, (by intro e' h'; cases h'; exact b3 e herr), (by intro _; rw [b2, a2]; exact hr), (by intro h; cases h)⟩
      · simp only [hl, if_false]
        rw [bind_eq]
        simp only [Scan.modS]
        rw [bind_eq]
        generalize hs3 : Scanner.mk s2.src s2.fault s2.peek true (if (!bb.all isHexDigit) = true then 2 else 1)
          Cipher.eexecR s2.line s2.col s2.crSeen s2.dsc s2.err = s3
        have e3 : s3.eexec ≠ 0 := by subst hs3; dsimp only; split <;> omega
        have ok3 : ErrOK s3 := by subst hs3; exact b3
        have h3 := (safe_skipIV 4).run s3 ok3
        unfold SafeAt at h3
        generalize skipIV 4 s3 = p4 at h3
        obtain ⟨r4, s4⟩ := p4
        obtain ⟨c1, c2, c3, c4, c5⟩ := h3
        dsimp only at c1 c2 c3
        cases r4 with
        | error e =>
          exact ⟨c3, (by intro e' h'; cases h'; exact c4 _ rfl), (by intro h0; rw [c1] at h0; exact absurd h0 e3),
            (by intro h; cases h)⟩
        | ok u =>
          exact ⟨c3, (by intro e' h'; cases h'), (by intro h0; exact absurd (c1 ▸ h0) e3),
            (by intro _; exact ⟨by show s4.eexec ≠ 0; rw [c1]; exact e3, rfl⟩)⟩

theorem beginEexec_post (s : Scanner) (h : ScOK s) : BeginPost (beginEexec s).1 (beginEexec s).2 := by
  by_cases he : s.eexec = 0
  · exact beginEexec_idle s h.err he (h.reg he)
  · rw [beginEexec_busy s he]
    exact ⟨h.err, (by intro e h'; cases h'; exact npe_ps _), h.reg, (by intro h'; cases h')⟩

theorem endEexec_eq (s : Scanner) : endEexec s = (.ok (), { s with eexec := 0 }) := rfl

/-! ### scanned tokens are simple objects -/

/-- an object without references: fine in every heap -/
def Simple (o : Obj) : Prop := ∀ h res, objOK h res o

def TokOK : Tok → Prop
  | .obj o => Simple o
  | .str _ => True

theorem simple_op (n : Name) : Simple (.op n) := fun _ _ => trivial
theorem simple_name (n : Name) : Simple (.name n) := fun _ _ => trivial
theorem simple_int (n : Int) : Simple (.int n) := fun _ _ => trivial
theorem simple_real (n : UInt64) : Simple (.real n) := fun _ _ => trivial

theorem parseNumber_simple {bs : List UInt8} {x : Obj} (h : parseNumber bs = some x) : Simple x := by
  unfold parseNumber at h
  split at h
  · cases h; exact simple_int _
  · dsimp only at h
    split at h
    · rename_i r hr
      split at hr
      · split at hr
        · cases hr; cases h; exact simple_real _
        · cases hr; cases h
      · cases hr
    · split at h
      · cases h; exact simple_int _
      · cases h

theorem failSticky_any {α : Type} {R : α → Prop} (bb : List UInt8) :
    SafeP (do
      let s ← getS
      match (if bb.length < 2 then s.err else none) with
      | some e => (fail e : SM α)
      | none => fail syntaxErr) R := by
  refine ⟨fun s h => SafeAt.getS_bind ?_⟩
  split
  · rename_i e he
    refine (SafeP.fail e ?_).run s h
    split at he
    · exact h e he
    · cases he
  · exact (SafeP.fail _ (npe_ps _)).run s h
macro_rules | `(tactic| safe_lemma) => `(tactic| exact failSticky_any _)

theorem scanToken_tok : SafeP scanToken TokOK := by
  unfold scanToken
  safe_auto
  all_goals first
    | exact SafeP.pure _ trivial
    | exact SafeP.pure _ (simple_op _)
    | exact SafeP.pure _ (simple_name _)
    | exact SafeP.pure _ (parseNumber_simple (by assumption))

/-! ## Part 2: interpreter states -/

/-- well-formed interpreter state: well-formed data, harmless scanner -/
structure WFS (s : State) : Prop where
  vm : WF s.vm
  sc : ScOK s.scanner

/-- `o` is meaningful in the heap of `s` -/
abbrev OK (s : State) (o : Obj) : Prop := objOK s.vm.heap s.vm.roots.resources o

/-- `s'` differs from `s` in control fields only -/
structure Ctl (s s' : State) : Prop where
  vm : s'.vm = s.vm
  sc : s'.scanner = s.scanner
  depth : s'.scannerDepth = s.scannerDepth

theorem Ctl.refl (s : State) : Ctl s s := ⟨rfl, rfl, rfl⟩
theorem Ctl.trans {a b c : State} (h1 : Ctl a b) (h2 : Ctl b c) : Ctl a c :=
  ⟨h2.vm.trans h1.vm, h2.sc.trans h1.sc, h2.depth.trans h1.depth⟩
theorem Ctl.symm {a b : State} (h : Ctl a b) : Ctl b a := ⟨h.vm.symm, h.sc.symm, h.depth.symm⟩

theorem WFS.ctl {s s' : State} (h : WFS s) (c : Ctl s s') : WFS s' :=
  ⟨by rw [c.vm]; exact h.vm, by rw [c.sc]; exact h.sc⟩

/-- `s'` has the heap, roots and scanner of `s` (its stacks may differ) -/
structure Sim (s s' : State) : Prop where
  heap : s'.vm.heap = s.vm.heap
  roots : s'.vm.roots = s.vm.roots
  sc : s'.scanner = s.scanner
  depth : s'.scannerDepth = s.scannerDepth

theorem Ctl.sim {s s' : State} (c : Ctl s s') : Sim s s' :=
  ⟨by rw [c.vm], by rw [c.vm], c.sc, c.depth⟩

/-- what every function of the interpreter guarantees when started in a well-formed `s` -/
structure PostS (s : State) (p : State × Res) : Prop where
  wf : WFS p.1
  ext : Ext s.vm.heap p.1.vm.heap
  roots : p.1.vm.roots = s.vm.roots
  depth : p.1.scannerDepth = s.scannerDepth
  busy : s.scanner.eexec ≠ 0 →
    p.1.scanner.eexec = s.scanner.eexec ∧ p.1.scanner.regurgitate = s.scanner.regurgitate
  nopanic : NoPanic p.2

theorem noPanic_err {e : Err} (h : NPE e) : NoPanic (.err e) := by
  intro site h'; cases h'; exact h site rfl

theorem noPanic_exit : NoPanic (.err .exit) := by intro s; simp
theorem noPanic_limit : NoPanic (.err .limit) := by intro s; simp

theorem PostS.refl {s : State} (h : WFS s) {r : Res} (hn : NoPanic r) : PostS s (s, r) :=
  ⟨h, Ext.refl _, rfl, rfl, fun _ => ⟨rfl, rfl⟩, hn⟩

theorem PostS.ctl {s s' : State} (h : WFS s) (c : Ctl s s') {r : Res} (hn : NoPanic r) : PostS s (s', r) :=
  ⟨h.ctl c, by show Ext s.vm.heap s'.vm.heap; rw [c.vm]; exact Ext.refl _, by show s'.vm.roots = _; rw [c.vm],
   c.depth, fun _ => by show s'.scanner.eexec = _ ∧ s'.scanner.regurgitate = _; rw [c.sc]; exact ⟨rfl, rfl⟩, hn⟩

theorem PostS.start {s0 s : State} {p : State × Res} (e : Sim s0 s) (g : PostS s p) : PostS s0 p :=
  ⟨g.wf, by rw [← e.heap]; exact g.ext, by rw [g.roots, e.roots], by rw [g.depth, e.depth],
   by rw [← e.sc]; exact g.busy, g.nopanic⟩

theorem PostS.finish {s s1 s2 : State} {r : Res} (g : PostS s (s1, r)) (c : Ctl s1 s2) : PostS s (s2, r) :=
  ⟨g.wf.ctl c, by show Ext s.vm.heap s2.vm.heap; rw [c.vm]; exact g.ext,
   by show s2.vm.roots = _; rw [c.vm]; exact g.roots, by show s2.scannerDepth = _; rw [c.depth]; exact g.depth,
   by show _ → s2.scanner.eexec = _ ∧ s2.scanner.regurgitate = _; rw [c.sc]; exact g.busy, g.nopanic⟩

theorem PostS.withRes {s s1 : State} {r : Res} (g : PostS s (s1, r)) {r' : Res} (hn : NoPanic r') :
    PostS s (s1, r') := ⟨g.wf, g.ext, g.roots, g.depth, g.busy, hn⟩

theorem PostS.seq {s s1 : State} {r1 : Res} {p : State × Res} (g1 : PostS s (s1, r1)) (g2 : PostS s1 p) :
    PostS s p :=
  ⟨g2.wf, Ext.trans g1.ext g2.ext, g2.roots.trans g1.roots, g2.depth.trans g1.depth,
   fun h => by
     have a := g1.busy h
     have b := g2.busy (by show s1.scanner.eexec ≠ 0; rw [a.1]; exact h)
     exact ⟨b.1.trans a.1, b.2.trans a.2⟩,
   g2.nopanic⟩

/-- objects stay meaningful along a run -/
theorem PostS.ok {s s1 : State} {r : Res} (g : PostS s (s1, r)) {o : Obj} (h : OK s o) : OK s1 o := by
  show objOK s1.vm.heap s1.vm.roots.resources o
  rw [g.roots]; exact objOK_mono g.ext h

theorem Sim.ok {s s1 : State} (e : Sim s s1) {o : Obj} (h : OK s o) : OK s1 o := by
  show objOK s1.vm.heap s1.vm.roots.resources o
  rw [e.heap, e.roots]; exact h

theorem postS_psErrS {s s' : State} (h : WFS s) (c : Ctl s s') (n : ErrName) : PostS s (psErrS s' n) :=
  PostS.ctl h c (noPanic_ps n)
theorem postS_okS {s s' : State} (h : WFS s) (c : Ctl s s') : PostS s (okS s') :=
  PostS.ctl h c noPanic_ok

/-- a data operator applied to the data half -/
theorem PostS.vm {s : State} (h : WFS s) {v : VM} {r : Res} (hp : Post s.vm (v, r)) :
    PostS s ({ s with vm := v }, r) :=
  ⟨⟨hp.wf, h.sc⟩, hp.ext, hp.roots, rfl, fun _ => ⟨rfl, rfl⟩, hp.nopanic⟩

/-- precondition of everything below `scanLoop`: a scanner is installed -/
def Pre (s : State) : Prop := WFS s ∧ s.scannerDepth ≠ 0

theorem PostS.pre {s s1 : State} {r : Res} (g : PostS s (s1, r)) (hp : Pre s) : Pre s1 :=
  ⟨g.wf, by rw [g.depth]; exact hp.2⟩

theorem Pre.ctl {s s' : State} (h : Pre s) (c : Ctl s s') : Pre s' := ⟨h.1.ctl c, by rw [c.depth]; exact h.2⟩

/-- replacing the operand stack by objects that are fine in the current heap -/
theorem wfs_setStack {s : State} (h : WFS s) {st : List Obj} (hst : ∀ o ∈ st, OK s o) : WFS (setStack s st) :=
  ⟨(Post.same (v' := { s.vm with stack := st }) (r := .ok) h.vm rfl rfl rfl rfl rfl hst noPanic_ok).wf, h.sc⟩

theorem sim_setStack (s : State) (st : List Obj) : Sim s (setStack s st) := ⟨rfl, rfl, rfl, rfl⟩

theorem pre_setStack {s : State} (h : Pre s) {st : List Obj} (hst : ∀ o ∈ st, OK s o) : Pre (setStack s st) :=
  ⟨wfs_setStack h.1 hst, h.2⟩

theorem pushS_eq (s : State) (o : Obj) : pushS s o = setStack s (o :: s.vm.stack) := rfl

theorem wfs_pushS {s : State} (h : WFS s) {o : Obj} (ho : OK s o) : WFS (pushS s o) := by
  rw [pushS_eq]
  refine wfs_setStack h ?_
  intro x hx
  rcases List.mem_cons.mp hx with rfl | hx
  · exact ho
  · exact h.vm.stack x hx

theorem postS_pushS {s : State} (h : WFS s) {o : Obj} (ho : OK s o) : PostS s (okS (pushS s o)) :=
  PostS.start (sim_setStack s _) (PostS.refl (wfs_pushS h ho) noPanic_ok)

/-- views -/
def ViewObjs (s : State) (ref lim : Nat) : Prop := ∃ n, shapeAt s.vm.heap ref = some (.objs n) ∧ lim ≤ n
def ViewBytes (s : State) (ref lim : Nat) : Prop := ∃ n, shapeAt s.vm.heap ref = some (.bytes n) ∧ lim ≤ n

theorem PostS.viewObjs {s s1 : State} {r : Res} (g : PostS s (s1, r)) {ref lim : Nat} (h : ViewObjs s ref lim) :
    ViewObjs s1 ref lim := by
  obtain ⟨n, h1, h2⟩ := h; exact ⟨n, g.ext _ _ h1, h2⟩
theorem PostS.viewBytes {s s1 : State} {r : Res} (g : PostS s (s1, r)) {ref lim : Nat} (h : ViewBytes s ref lim) :
    ViewBytes s1 ref lim := by
  obtain ⟨n, h1, h2⟩ := h; exact ⟨n, g.ext _ _ h1, h2⟩
theorem Sim.viewObjs {s s1 : State} (e : Sim s s1) {ref lim : Nat} (h : ViewObjs s ref lim) : ViewObjs s1 ref lim := by
  unfold ViewObjs; rw [e.heap]; exact h
theorem Sim.viewBytes {s s1 : State} (e : Sim s s1) {ref lim : Nat} (h : ViewBytes s ref lim) : ViewBytes s1 ref lim := by
  unfold ViewBytes; rw [e.heap]; exact h

/-- an element inside a valid view exists and is a meaningful object -/
theorem view_get {s : State} (h : WFS s) {ref lim k : Nat} (hv : ViewObjs s ref lim) (hk : k < lim) :
    ∃ x, (s.vm.getObjs ref)[k]? = some x ∧ OK s x := by
  obtain ⟨n, h1, h2⟩ := hv
  have := objsAt_ok h.vm.heap h1
  rw [getObjs_eq]
  have hlt : k < (objsAt s.vm.heap ref).size := by rw [this.1]; omega
  refine ⟨(objsAt s.vm.heap ref)[k], by simp [hlt], this.2 _ (Array.getElem_mem hlt)⟩

theorem view_get_bytes {s : State} (h : WFS s) {ref lim k : Nat} (hv : ViewBytes s ref lim) (hk : k < lim) :
    ∃ x, (s.vm.getBytes ref)[k]? = some x := by
  obtain ⟨n, h1, h2⟩ := hv
  obtain ⟨a, ha, hn, hq⟩ := cell_of_shape_bytes h1
  rw [getBytes_eq, hq]
  have hlt : k < a.size := by omega
  exact ⟨a[k], by simp [hlt]⟩

/-! ### scanner actions on a state -/

theorem withScanner_fst {α : Type} (s : State) (m : SM α) :
    (withScanner s m).1 = { s with scanner := (m s.scanner).2 } := rfl
theorem withScanner_snd {α : Type} (s : State) (m : SM α) : (withScanner s m).2 = (m s.scanner).1 := rfl

/-- a `Safe` scanner action: data untouched, scanner still fine, `eexec`/`regurgitate` kept -/
structure ScanStep (s s1 : State) : Prop where
  vm : s1.vm = s.vm
  depth : s1.scannerDepth = s.scannerDepth
  eexec : s1.scanner.eexec = s.scanner.eexec
  reg : s1.scanner.regurgitate = s.scanner.regurgitate
  err : ErrOK s1.scanner

theorem ScanStep.wfs {s s1 : State} (c : ScanStep s s1) (h : WFS s) : WFS s1 :=
  ⟨by rw [c.vm]; exact h.vm, ⟨c.err, by rw [c.eexec, c.reg]; exact h.sc.reg⟩⟩

theorem ScanStep.post {s s1 : State} (c : ScanStep s s1) (h : WFS s) {r : Res} (hn : NoPanic r) : PostS s (s1, r) :=
  ⟨c.wfs h, by show Ext s.vm.heap s1.vm.heap; rw [c.vm]; exact Ext.refl _, by show s1.vm.roots = _; rw [c.vm],
   c.depth, fun _ => ⟨c.eexec, c.reg⟩, hn⟩

theorem withScanner_safe {α : Type} {m : SM α} {Q : α → Prop} (hm : SafeP m Q) (s : State) (h : WFS s) :
    ScanStep s (withScanner s m).1 ∧ ResOK (withScanner s m).2 ∧ ∀ a, (withScanner s m).2 = .ok a → Q a := by
  obtain ⟨g1, g2, g3, g4, g5⟩ := hm.run s.scanner h.sc.err
  exact ⟨⟨rfl, rfl, g1, g2, g3⟩, g4, g5⟩

/-- the token handed to `executeOne` -/
theorem objOfTok_post {s : State} (h : WFS s) {tok : Tok} (ht : TokOK tok) :
    PostS s ((objOfTok s tok).1, .ok) ∧ OK (objOfTok s tok).1 (objOfTok s tok).2 := by
  cases tok with
  | obj o => exact ⟨PostS.refl h noPanic_ok, ht _ _⟩
  | str bytes =>
    unfold objOfTok VM.alloc
    dsimp only
    have hp : Post s.vm ({ s.vm with heap := s.vm.heap.push (.bytes bytes.toArray) }, .ok) :=
      Post.alloc h.vm (by simp only [cellOK]) rfl rfl rfl rfl rfl
        (fun o ho => objOK_push _ (h.vm.stack o ho))
    refine ⟨PostS.vm h hp, ?_⟩
    show objOK (s.vm.heap.push (.bytes bytes.toArray)) s.vm.roots.resources (.str s.vm.heap.size 0 bytes.length)
    exact ⟨bytes.toArray.size, shapeAt_push_self _ _, by simp⟩

/-! ### the dictionary stack around `eexec` -/

theorem wf_pushDict {v : VM} (h : WF v) {d : Nat} (hd : isDictRef v.heap v.roots.resources d)
    {st : List Obj} (hst : ∀ o ∈ st, objOK v.heap v.roots.resources o) :
    WF (pushDict { v with stack := st } d) := by
  refine h.update' rfl (Ext.refl _) h.heap rfl ?_ ?_ ?_ h.cmap hst
  · show 2 ≤ (d :: v.dictStack).length
    have := h.dsLen; simp only [List.length_cons]; omega
  · intro r hr
    rcases List.mem_cons.mp hr with rfl | hr
    · exact hd
    · exact h.ds r hr
  · intro r hr
    exact h.ghost r (List.mem_of_mem_tail hr)

theorem wf_truncDictStack {v : VM} (h : WF v) {k : Nat} (hk : 2 ≤ k) : WF (truncDictStack v k) := by
  unfold truncDictStack
  dsimp only
  split
  · rename_i hle
    refine h.update' rfl (Ext.refl _) h.heap rfl ?_ ?_ ?_ h.cmap h.stack
    · show 2 ≤ (v.dictStack.drop (v.dictStack.length - k)).length
      simp only [List.length_drop]; omega
    · intro r hr; exact h.ds r (List.mem_of_mem_drop hr)
    · intro r hr
      rcases List.mem_append.mp hr with hr | hr
      · exact h.ds r (List.mem_of_mem_take (List.mem_reverse.mp hr))
      · exact h.ghost r hr
  · refine h.update' rfl (Ext.refl _) h.heap rfl ?_ ?_ ?_ h.cmap h.stack
    · show 2 ≤ ((v.dictGhost.take (k - v.dictStack.length)).reverse ++ v.dictStack).length
      have := h.dsLen
      simp only [List.length_append]; omega
    · intro r hr
      rcases List.mem_append.mp hr with hr | hr
      · exact h.ghost r (List.mem_of_mem_take (List.mem_reverse.mp hr))
      · exact h.ds r hr
    · intro r hr; exact h.ghost r (List.mem_of_mem_drop hr)

theorem truncDictStack_heap (v : VM) (k : Nat) : (truncDictStack v k).heap = v.heap := by
  unfold truncDictStack; dsimp only; split <;> rfl
theorem truncDictStack_roots (v : VM) (k : Nat) : (truncDictStack v k).roots = v.roots := by
  unfold truncDictStack; dsimp only; split <;> rfl

/-- finishing with a truncated dictionary stack and possibly another scanner state -/
theorem PostS.trunc {s s1 : State} {r : Res} (g : PostS s (s1, r)) {k : Nat} (hk : 2 ≤ k) {r' : Res}
    (hn : NoPanic r') : PostS s ({ s1 with vm := truncDictStack s1.vm k }, r') :=
  ⟨⟨wf_truncDictStack g.wf.vm hk, g.wf.sc⟩,
   by show Ext s.vm.heap (truncDictStack s1.vm k).heap; rw [truncDictStack_heap]; exact g.ext,
   by show (truncDictStack s1.vm k).roots = _; rw [truncDictStack_roots]; exact g.roots,
   g.depth, g.busy, hn⟩

theorem defaultErrorHandler_post {s : State} (h : WFS s) : PostS s (defaultErrorHandler s) := by
  unfold defaultErrorHandler
  split
  · exact PostS.refl h noPanic_ok
  · exact PostS.refl h (noPanic_ps _)

/-! ### `readstring` -/

theorem readN_val : ∀ n acc, SafeP (readN n acc)
    (fun p => p.1.length ≤ acc.length + n ∧ ∀ e, p.2 = some e → NPE e) := by
  intro n
  induction n with
  | zero =>
    intro acc; unfold readN
    exact SafeP.pure _ ⟨Nat.le_refl _, by intro e h; cases h⟩
  | succ k ih =>
    intro acc; unfold readN
    refine SafeP.bind (SafeP.attempt safe_next) ?_
    intro r hr
    split
    · rename_i e
      exact SafeP.pure _ ⟨by simp only; omega, by intro e' h; cases h; exact hr _ rfl⟩
    · rename_i b
      refine SafeP.weaken (ih (acc ++ [b])) ?_
      intro p hp
      refine ⟨?_, hp.2⟩
      have := hp.1
      simp only [List.length_append, List.length_cons, List.length_nil] at this
      omega

theorem readstring_post {s : State} (hp : Pre s) : PostS s (bReadstring s) := by
  obtain ⟨h, hd⟩ := hp
  unfold bReadstring readstringCore
  split
  · rename_i buf x rest hst
    have hrest : ∀ o ∈ rest, OK s o := by
      intro o ho; exact h.vm.stack o (by rw [hst]; simp [ho])
    have hbuf : OK s buf := h.vm.stack buf (by rw [hst]; simp)
    split
    · rename_i r o l
      have hd' : (s.scannerDepth == 0) = false := by simp [hd]
      simp only [hd', Bool.false_eq_true, if_false]
      -- first byte
      have h1 := safe_next.run s.scanner h.sc.err
      unfold SafeAt at h1
      generalize Scan.next s.scanner = p1 at h1
      obtain ⟨r1, sc2⟩ := p1
      obtain ⟨a1, a2, a3, a4, a5⟩ := h1
      dsimp only at a1 a2 a3 ⊢
      have wf1 : WF ({ s.vm with stack := rest } : VM) :=
        (Post.same (v' := { s.vm with stack := rest }) (r := .ok) h.vm rfl rfl rfl rfl rfl hrest noPanic_ok).wf
      have sc2ok : ScOK sc2 := ⟨a3, by rw [a1, a2]; exact h.sc.reg⟩
      split
      · -- the reader failed
        rename_i e hstop
        refine ⟨⟨wf1, sc2ok⟩, Ext.refl _, rfl, rfl, fun _ => ⟨a1, a2⟩, ?_⟩
        apply noPanic_err
        split at hstop
        · cases hstop
        · rename_i e' _; cases hstop; exact a4 _ rfl
        · cases hstop
      · -- read up to `l` bytes
        have h2 := (readN_val l []).run sc2 a3
        unfold SafeAt at h2
        generalize Scan.readN l [] sc2 = p2 at h2
        obtain ⟨r2, sc3⟩ := p2
        obtain ⟨b1, b2, b3, b4, b5⟩ := h2
        dsimp only at b1 b2 b3 ⊢
        have sc3ok : ScOK sc3 := ⟨b3, by rw [b1, b2, a1, a2]; exact h.sc.reg⟩
        have busy3 : s.scanner.eexec ≠ 0 → sc3.eexec = s.scanner.eexec ∧ sc3.regurgitate = s.scanner.regurgitate :=
          fun _ => ⟨b1.trans a1, b2.trans a2⟩
        split
        · rename_i e
          exact ⟨⟨wf1, sc3ok⟩, Ext.refl _, rfl, rfl, busy3, noPanic_err (b4 _ rfl)⟩
        · rename_i bytes eo
          have hval := b5 _ rfl
          dsimp only at hval
          obtain ⟨n, hn, hle⟩ := hbuf
          have hn1 : shapeAt ({ s.vm with stack := rest } : VM).heap r = some (.bytes n) := hn
          have hsz : (writeAt (({ s.vm with stack := rest } : VM).getBytes r) o bytes).size =
              (({ s.vm with stack := rest } : VM).getBytes r).size := writeAt_size _ _ _
          have hrest1 : ∀ x ∈ rest, objOK ({ s.vm with stack := rest } : VM).heap
              ({ s.vm with stack := rest } : VM).roots.resources x := hrest
          split
          · rename_i e hbad
            have hnp : NoPanic (.err e) := by
              apply noPanic_err
              split at hbad
              · cases hbad
              · rename_i e' _; cases hbad; exact hval.2 _ rfl
              · cases hbad
            have pp := put_bytes (v' := ({ s.vm with stack := rest } : VM).setCell r
                (.bytes (writeAt (({ s.vm with stack := rest } : VM).getBytes r) o bytes)))
              wf1 hn1 hsz rfl rfl rfl rfl rfl hrest1 hnp
            exact ⟨⟨pp.wf, sc3ok⟩, pp.ext, pp.roots, rfl, busy3, hnp⟩
          · have hst2 : ∀ x ∈ (Obj.bool (bytes.length == l) :: Obj.str r o bytes.length :: rest),
                objOK ({ s.vm with stack := rest } : VM).heap ({ s.vm with stack := rest } : VM).roots.resources x := by
              intro x hx
              rcases List.mem_cons.mp hx with rfl | hx
              · trivial
              · rcases List.mem_cons.mp hx with rfl | hx
                · refine ⟨n, hn, ?_⟩
                  have := hval.1
                  simp only [List.length_nil] at this
                  omega
                · exact hrest x hx
            have pp := put_bytes (v' := { (({ s.vm with stack := rest } : VM).setCell r
                (.bytes (writeAt (({ s.vm with stack := rest } : VM).getBytes r) o bytes))) with
                  stack := Obj.bool (bytes.length == l) :: Obj.str r o bytes.length :: rest })
              wf1 hn1 hsz rfl rfl rfl rfl rfl hst2 noPanic_ok
            exact ⟨⟨pp.wf, sc3ok⟩, pp.ext, pp.roots, rfl, busy3, noPanic_ok⟩
    · exact PostS.refl h (noPanic_ps _)
  · exact PostS.refl h (noPanic_ps _)

/-! ### the simultaneous induction over the interpreter's mutual block -/

/-- the statement proved for all functions of the mutual block at once -/
structure All (m fuel : Nat) : Prop where
  one : ∀ s o b, Pre s → OK s o → PostS s (execOne fuel m s o b)
  body : ∀ s o b, Pre s → OK s o → PostS s (execBody fuel m s o b)
  tail : ∀ s o b c, Pre s → OK s o → PostS s (execTail fuel m s o b c)
  run : ∀ s r o i n, Pre s → ViewObjs s r (o + i + n) → PostS s (runBody fuel m s r o i n)
  call : ∀ s id, Pre s → knownBuiltin id → PostS s (callBuiltin fuel m s id)
  forL : ∀ s v i l p, Pre s → OK s p → PostS s (forLoop fuel m s v i l p)
  rep : ∀ s k p, Pre s → OK s p → PostS s (repeatLoop fuel m s k p)
  loop : ∀ s p, Pre s → OK s p → PostS s (loopLoop fuel m s p)
  fArr : ∀ s r o i n p, Pre s → OK s p → ViewObjs s r (o + i + n) → PostS s (forallArr fuel m s r o i n p)
  fStr : ∀ s r o i n p, Pre s → OK s p → ViewBytes s r (o + i + n) → PostS s (forallStr fuel m s r o i n p)
  fDict : ∀ s d ks p, Pre s → OK s p → isDictRef s.vm.heap s.vm.roots.resources d →
    PostS s (forallDict fuel m s d ks p)
  sRun : ∀ s, WFS s → PostS s (scanRun fuel m s)
  sLoop : ∀ s, Pre s → PostS s (scanLoop fuel m s)

theorem all_zero (m : Nat) : All m 0 where
  one := by intro s o b hp _; simp only [execOne]; exact PostS.refl hp.1 noPanic_fuel
  body := by intro s o b hp _; simp only [execBody]; exact PostS.refl hp.1 noPanic_fuel
  tail := by intro s o b c hp _; simp only [execTail]; exact PostS.refl hp.1 noPanic_fuel
  run := by intro s r o i n hp _; simp only [runBody]; exact PostS.refl hp.1 noPanic_fuel
  call := by intro s id hp _; simp only [callBuiltin]; exact PostS.refl hp.1 noPanic_fuel
  forL := by intro s v i l p hp _; simp only [forLoop]; exact PostS.refl hp.1 noPanic_fuel
  rep := by intro s k p hp _; simp only [repeatLoop]; exact PostS.refl hp.1 noPanic_fuel
  loop := by intro s p hp _; simp only [loopLoop]; exact PostS.refl hp.1 noPanic_fuel
  fArr := by intro s r o i n p hp _ _; simp only [forallArr]; exact PostS.refl hp.1 noPanic_fuel
  fStr := by intro s r o i n p hp _ _; simp only [forallStr]; exact PostS.refl hp.1 noPanic_fuel
  fDict := by intro s d ks p hp _ _; simp only [forallDict]; exact PostS.refl hp.1 noPanic_fuel
  sRun := by intro s h; simp only [scanRun]; exact PostS.refl h noPanic_fuel
  sLoop := by intro s hp; simp only [scanLoop]; exact PostS.refl hp.1 noPanic_fuel

theorem step_execOne {m n : Nat} (ih : All m n) (s : State) (o : Obj) (b : Bool) (hp : Pre s) (ho : OK s o) :
    PostS s (execOne (n + 1) m s o b) := by
  simp only [execOne]
  split
  · split
    · exact PostS.refl hp.1 (noPanic_ps _)
    · generalize hs' : ({ s with execDepth := s.execDepth + 1, hiDepth := max s.hiDepth (s.execDepth + 1) } : State) = s'
      have c : Ctl s s' := by subst hs'; exact ⟨rfl, rfl, rfl⟩
      have g := ih.body s' o true (hp.ctl c) (c.sim.ok ho)
      generalize execBody n m s' o true = p at g
      obtain ⟨s1, r⟩ := p
      exact (PostS.start c.sim g).finish ⟨rfl, rfl, rfl⟩
  · exact ih.body s o false hp ho

theorem step_execBody {m n : Nat} (ih : All m n) (s : State) (o : Obj) (b : Bool) (hp : Pre s) (ho : OK s o) :
    PostS s (execBody (n + 1) m s o b) := by
  simp only [execBody]
  split
  · exact PostS.refl hp.1 (noPanic_ps _)
  · split
    · split
      · exact PostS.refl hp.1 (noPanic_ps _)
      · rename_i a ps _
        split
        · exact postS_psErrS hp.1 (by exact ⟨rfl, rfl, rfl⟩) _
        · rename_i hba
          unfold VM.alloc
          dsimp only
          have hbody : cellOK s.vm.heap s.vm.roots.resources
              (.objs (s.vm.stack.take (s.vm.stack.length - a)).reverse.toArray) := by
            simp only [cellOK]
            intro x hx
            have hx' : x ∈ (s.vm.stack.take (s.vm.stack.length - a)).reverse := by simpa using hx
            exact hp.1.vm.stack x (List.mem_of_mem_take (List.mem_reverse.mp hx'))
          have hpost := Post.alloc (v := s.vm)
            (v' := { s.vm with heap := s.vm.heap.push (.objs (s.vm.stack.take (s.vm.stack.length - a)).reverse.toArray),
                               stack := .proc s.vm.heap.size 0 (s.vm.stack.length - a) :: s.vm.stack.drop (s.vm.stack.length - a) })
            hp.1.vm hbody rfl rfl rfl rfl rfl (by
              intro x hx
              rcases List.mem_cons.mp hx with rfl | hx
              · refine ⟨_, shapeAt_push_self _ _, ?_⟩
                simp only [shape, List.size_toArray, List.length_reverse, List.length_take]
                omega
              · exact objOK_push _ (hp.1.vm.stack x (List.mem_of_mem_drop hx)))
          exact (PostS.vm hp.1 hpost).finish ⟨rfl, rfl, rfl⟩
    · split
      · exact postS_okS hp.1 (by exact ⟨rfl, rfl, rfl⟩)
      · split
        · exact postS_pushS hp.1 ho
        · exact ih.tail s o b b hp ho

theorem ctl_enterLevel (c : Bool) (s : State) : Ctl s (enterLevel c s) := by
  unfold enterLevel; split <;> exact ⟨rfl, rfl, rfl⟩

theorem postS_leaveLevel {s : State} {p : State × Res} (c : Bool) (g : PostS s p) : PostS s (leaveLevel c p) := by
  unfold leaveLevel
  split
  · exact g
  · exact PostS.finish (s1 := p.1) (r := p.2) g ⟨rfl, rfl, rfl⟩

theorem viewObjs_of_ok {s : State} {r o l : Nat} (h : OK s (.proc r o l)) : ViewObjs s r (o + l) := h
theorem viewObjs_of_arr {s : State} {r o l : Nat} (h : OK s (.arr r o l)) : ViewObjs s r (o + l) := h
theorem viewBytes_of_str {s : State} {r o l : Nat} (h : OK s (.str r o l)) : ViewBytes s r (o + l) := h

theorem ViewObjs.le {s : State} {r a b : Nat} (h : ViewObjs s r a) (hle : b ≤ a) : ViewObjs s r b := by
  obtain ⟨n, h1, h2⟩ := h; exact ⟨n, h1, by omega⟩
theorem ViewBytes.le {s : State} {r a b : Nat} (h : ViewBytes s r a) (hle : b ≤ a) : ViewBytes s r b := by
  obtain ⟨n, h1, h2⟩ := h; exact ⟨n, h1, by omega⟩

/-- the `Procedure` case of the `recurseTail` loop, for any state -/
theorem proc_case {m n : Nat} (ih : All m n) (s' : State) (ref off len : Nat) (b c : Bool)
    (hp' : Pre s') (ho' : OK s' (.proc ref off len)) :
    PostS s'
      (if b = true then
        if (len == 0) = true then okS s'
        else
          if (!c && decide (s'.execDepth ≥ execDepthLimit)) = true then psErrS s' "execstackoverflow"
          else
            leaveLevel c
              (match runBody n m (enterLevel c s') ref off 0 (len - 1) with
               | (s1, r) =>
                 (match r with
                  | .ok =>
                    match (s1.vm.getObjs ref)[off + (len - 1)]? with
                    | some last => execTail n m s1 last false true
                    | none => (s1, .err (.panic "procedure view outside its store"))
                  | _ => (s1, r) : State × Res))
      else okS (pushS s' (Obj.proc ref off len))) := by
  split
  · split
    · exact PostS.refl hp'.1 noPanic_ok
    · split
      · exact PostS.refl hp'.1 (noPanic_ps _)
      · apply postS_leaveLevel
        rename_i hlen _
        have hlen' : len ≠ 0 := by simpa using hlen
        have ce := ctl_enterLevel c s'
        generalize enterLevel c s' = s'' at ce
        apply PostS.start ce.sim
        have hp'' : Pre s'' := hp'.ctl ce
        have hv : ViewObjs s'' ref (off + len) := ce.sim.viewObjs (viewObjs_of_ok ho')
        have g1 := ih.run s'' ref off 0 (len - 1) hp'' (hv.le (by omega))
        generalize runBody n m s'' ref off 0 (len - 1) = p1 at g1
        obtain ⟨s1, r⟩ := p1
        simp only
        split
        · obtain ⟨x, hx, hxok⟩ := view_get g1.wf (g1.viewObjs hv) (k := off + (len - 1)) (by omega)
          split
          · rename_i last hl
            rw [hx] at hl
            cases hl
            exact g1.seq (ih.tail s1 _ false true (g1.pre hp'') hxok)
          · rename_i hl
            rw [hx] at hl
            cases hl
        · exact g1
  · exact postS_pushS hp'.1 ho'

theorem step_execTail {m n : Nat} (ih : All m n) (s : State) (o : Obj) (b cnt : Bool) (hp : Pre s) (ho : OK s o) :
    PostS s (execTail (n + 1) m s o b cnt) := by
  unfold execTail
  dsimp only
  split
  · exact PostS.ctl hp.1 (by exact ⟨rfl, rfl, rfl⟩) noPanic_limit
  · split
    · -- executable name
      rename_i nm
      generalize hs' : ({ s with numOps := s.numOps + 1 } : State) = s'
      have c : Ctl s s' := by subst hs'; exact ⟨rfl, rfl, rfl⟩
      have hp' : Pre s' := hp.ctl c
      have ho' := c.sim.ok ho
      apply PostS.start c.sim
      split
      · exact PostS.refl hp'.1 (noPanic_ps _)
      · rename_i v hv
        exact ih.tail s' v true cnt hp' (c.sim.ok (lookupName_ok hp.1.vm hv))
    · -- builtin
      rename_i id
      generalize hs' : ({ s with numOps := s.numOps + 1 } : State) = s'
      have c : Ctl s s' := by subst hs'; exact ⟨rfl, rfl, rfl⟩
      have hp' : Pre s' := hp.ctl c
      have ho' := c.sim.ok ho
      apply PostS.start c.sim
      have g1 := ih.call s' id hp' ho'
      generalize callBuiltin n m s' id = p1 at g1
      obtain ⟨s1, r⟩ := p1
      simp only
      have hp1 : Pre s1 := g1.pre hp'
      split
      · rename_i name
        split
        · generalize hs2 : ({ s1 with errors := name :: s1.errors, hiErrors := max s1.hiErrors (s1.errors.length + 1) } : State) = s2
          have c2 : Ctl s1 s2 := by subst hs2; exact ⟨rfl, rfl, rfl⟩
          have hp2 : Pre s2 := hp1.ctl c2
          split
          · rename_i handler hh
            have hok : OK s1 handler := dictGet_ok hp1.1.vm hp1.1.vm.rError.1 hh
            have g3 := ih.one s2 handler true hp2 (c2.sim.ok hok)
            generalize execOne n m s2 handler true = p3 at g3
            obtain ⟨s3, r3⟩ := p3
            exact g1.seq (PostS.start c2.sim (g3.finish (by exact ⟨rfl, rfl, rfl⟩)))
          · exact (g1.finish c2).finish (by exact ⟨rfl, rfl, rfl⟩)
        · exact g1
      · exact g1
    · -- procedure
      rename_i ref off len
      exact PostS.start (Ctl.sim (by exact ⟨rfl, rfl, rfl⟩))
        (proc_case ih _ ref off len b cnt (hp.ctl (by exact ⟨rfl, rfl, rfl⟩)) ho)
    · generalize hs' : ({ s with numOps := s.numOps + 1 } : State) = s'
      have c : Ctl s s' := by subst hs'; exact ⟨rfl, rfl, rfl⟩
      have hp' : Pre s' := hp.ctl c
      have ho' := c.sim.ok ho
      apply PostS.start c.sim
      exact postS_pushS hp'.1 ho'

theorem step_runBody {m n : Nat} (ih : All m n) (s : State) (r o i t : Nat) (hp : Pre s)
    (hv : ViewObjs s r (o + i + t)) : PostS s (runBody (n + 1) m s r o i t) := by
  cases t with
  | zero => simp only [runBody]; exact PostS.refl hp.1 noPanic_ok
  | succ t =>
    simp only [runBody]
    obtain ⟨x, hx, hxok⟩ := view_get hp.1 hv (k := o + i) (by omega)
    split
    · rename_i hnone; rw [hx] at hnone; cases hnone
    · rename_i tok htok
      rw [hx] at htok; cases htok
      have g1 := ih.one s x false hp hxok
      generalize execOne n m s x false = p1 at g1
      obtain ⟨s1, r1⟩ := p1
      dsimp only
      split
      · exact g1.seq (ih.run s1 r o (i + 1) t (g1.pre hp) ((g1.viewObjs hv).le (by omega)))
      · exact g1

/-- the common shape of the looping operators -/
def loopResult (r1 : Res) (s1 : State) (next : State × Res) : State × Res :=
  match r1 with
  | .err .exit => okS s1
  | .ok => next
  | _ => (s1, r1)

theorem postS_loop {s s0 s1 : State} {r1 : Res} {next : State × Res} (e : Sim s s0)
    (g1 : PostS s0 (s1, r1)) (gn : PostS s1 next) : PostS s (loopResult r1 s1 next) := by
  apply PostS.start e
  unfold loopResult
  split
  · exact g1.withRes noPanic_ok
  · exact g1.seq gn
  · exact g1

theorem step_forLoop {m n : Nat} (ih : All m n) (s : State) (v i l : Int) (p : Obj) (hp : Pre s) (ho : OK s p) :
    PostS s (forLoop (n + 1) m s v i l p) := by
  simp only [forLoop]
  split
  · exact PostS.refl hp.1 noPanic_ok
  · have hp0 : Pre (pushS s (.int v)) := ⟨wfs_pushS hp.1 (by trivial), hp.2⟩
    have g1 := ih.one (pushS s (.int v)) p true hp0 ho
    generalize execOne n m (pushS s (.int v)) p true = p1 at g1
    obtain ⟨s1, r1⟩ := p1
    dsimp only
    refine postS_loop (next := if (i > 0 ∧ v > maxInt64 - i) ∨ (i < 0 ∧ v < minInt64 - i) then okS s1
      else forLoop n m s1 (wrap64 (v + i)) i l p) (sim_setStack s _) g1 ?_
    split
    · exact PostS.refl g1.wf noPanic_ok
    · exact ih.forL s1 _ i l p (g1.pre hp0) (g1.ok ho)

theorem step_repeatLoop {m n : Nat} (ih : All m n) (s : State) (k : Nat) (p : Obj) (hp : Pre s) (ho : OK s p) :
    PostS s (repeatLoop (n + 1) m s k p) := by
  cases k with
  | zero => simp only [repeatLoop]; exact PostS.refl hp.1 noPanic_ok
  | succ k =>
    simp only [repeatLoop]
    have g1 := ih.one s p true hp ho
    generalize execOne n m s p true = p1 at g1
    obtain ⟨s1, r1⟩ := p1
    dsimp only
    exact postS_loop (Ctl.refl s).sim g1 (ih.rep s1 k p (g1.pre hp) (g1.ok ho))

theorem step_loopLoop {m n : Nat} (ih : All m n) (s : State) (p : Obj) (hp : Pre s) (ho : OK s p) :
    PostS s (loopLoop (n + 1) m s p) := by
  simp only [loopLoop]
  have g1 := ih.one s p true hp ho
  generalize execOne n m s p true = p1 at g1
  obtain ⟨s1, r1⟩ := p1
  dsimp only
  exact postS_loop (Ctl.refl s).sim g1 (ih.loop s1 p (g1.pre hp) (g1.ok ho))

theorem step_forallArr {m n : Nat} (ih : All m n) (s : State) (r o i t : Nat) (p : Obj) (hp : Pre s)
    (ho : OK s p) (hv : ViewObjs s r (o + i + t)) : PostS s (forallArr (n + 1) m s r o i t p) := by
  cases t with
  | zero => simp only [forallArr]; exact PostS.refl hp.1 noPanic_ok
  | succ t =>
    simp only [forallArr]
    obtain ⟨x, hx, hxok⟩ := view_get hp.1 hv (k := o + i) (by omega)
    split
    · rename_i hnone; rw [hx] at hnone; cases hnone
    · rename_i v hv'
      rw [hx] at hv'; cases hv'
      have hp0 : Pre (pushS s x) := ⟨wfs_pushS hp.1 hxok, hp.2⟩
      have g1 := ih.one (pushS s x) p true hp0 ho
      generalize execOne n m (pushS s x) p true = p1 at g1
      obtain ⟨s1, r1⟩ := p1
      dsimp only
      exact postS_loop (sim_setStack s _) g1
        (ih.fArr s1 r o (i + 1) t p (g1.pre hp0) (g1.ok ho) ((g1.viewObjs (s := pushS s x) hv).le (by omega)))

theorem step_forallStr {m n : Nat} (ih : All m n) (s : State) (r o i t : Nat) (p : Obj) (hp : Pre s)
    (ho : OK s p) (hv : ViewBytes s r (o + i + t)) : PostS s (forallStr (n + 1) m s r o i t p) := by
  cases t with
  | zero => simp only [forallStr]; exact PostS.refl hp.1 noPanic_ok
  | succ t =>
    simp only [forallStr]
    obtain ⟨x, hx⟩ := view_get_bytes hp.1 hv (k := o + i) (by omega)
    split
    · rename_i hnone; rw [hx] at hnone; cases hnone
    · rename_i c hc
      have hp0 : Pre (pushS s (.int c.toNat)) := ⟨wfs_pushS hp.1 (by trivial), hp.2⟩
      have g1 := ih.one (pushS s (.int c.toNat)) p true hp0 ho
      generalize execOne n m (pushS s (.int c.toNat)) p true = p1 at g1
      obtain ⟨s1, r1⟩ := p1
      dsimp only
      exact postS_loop (sim_setStack s _) g1
        (ih.fStr s1 r o (i + 1) t p (g1.pre hp0) (g1.ok ho)
          ((g1.viewBytes (s := pushS s (.int c.toNat)) hv).le (by omega)))

theorem step_forallDict {m n : Nat} (ih : All m n) (s : State) (d : Nat) (ks : List Name) (p : Obj) (hp : Pre s)
    (ho : OK s p) (hd : isDictRef s.vm.heap s.vm.roots.resources d) :
    PostS s (forallDict (n + 1) m s d ks p) := by
  cases ks with
  | nil => simp only [forallDict]; exact PostS.refl hp.1 noPanic_ok
  | cons k ks =>
    simp only [forallDict]
    split
    · exact ih.fDict s d ks p hp ho hd
    · rename_i v hv
      have hvok : OK s v := dictGet_ok hp.1.vm hd.1 hv
      have hst : ∀ x ∈ (v :: Obj.name k :: s.vm.stack), OK s x := by
        intro x hx
        rcases List.mem_cons.mp hx with rfl | hx
        · exact hvok
        · rcases List.mem_cons.mp hx with rfl | hx
          · trivial
          · exact hp.1.vm.stack x hx
      have hp0 : Pre (setStack s (v :: .name k :: s.vm.stack)) := pre_setStack hp hst
      have g1 := ih.one (setStack s (v :: .name k :: s.vm.stack)) p true hp0 ho
      generalize execOne n m (setStack s (v :: .name k :: s.vm.stack)) p true = p1 at g1
      obtain ⟨s1, r1⟩ := p1
      dsimp only
      refine postS_loop (sim_setStack s _) g1 (ih.fDict s1 d ks p (g1.pre hp0) (g1.ok ho) ?_)
      rw [g1.roots]
      exact isDictRef_mono g1.ext hd

theorem step_scanLoop {m n : Nat} (ih : All m n) (s : State) (hp : Pre s) : PostS s (scanLoop (n + 1) m s) := by
  simp only [scanLoop]
  obtain ⟨st, hres, hval⟩ := withScanner_safe scanToken_tok s hp.1
  generalize withScanner s Scan.scanToken = p0 at st hres hval
  obtain ⟨s1, r0⟩ := p0
  dsimp only at st hres hval ⊢
  have g0 : PostS s (s1, .ok) := st.post hp.1 noPanic_ok
  split
  · exact st.post hp.1 noPanic_ok
  · rename_i e _
    exact st.post hp.1 (noPanic_err (hres e rfl))
  · rename_i tok
    obtain ⟨g2, ok2⟩ := objOfTok_post g0.wf (hval tok rfl)
    generalize objOfTok s1 tok = p2 at g2 ok2
    obtain ⟨s2, o⟩ := p2
    dsimp only at g2 ok2 ⊢
    have g02 := g0.seq g2
    have hp2 : Pre s2 := g02.pre hp
    have g3 := ih.one s2 o false hp2 ok2
    generalize execOne n m s2 o false = p3 at g3
    obtain ⟨s3, r3⟩ := p3
    dsimp only
    split
    · exact g02.seq (g3.seq (ih.sLoop s3 (g3.pre hp2)))
    · exact g02.seq g3

theorem npe_noPS : NPE .noPS := by intro s; simp

theorem step_scanRun {m n : Nat} (ih : All m n) (s : State) (h : WFS s) : PostS s (scanRun (n + 1) m s) := by
  simp only [scanRun]
  have key : ∀ (st : State × Option Err), ScanStep s st.1 → (∀ e, st.2 = some e → NPE e) →
      PostS s (match st with
        | (s1, some e) => (s1, Res.err e)
        | (s1, none) =>
          match scanLoop n m { s1 with scannerDepth := s1.scannerDepth + 1 } with
          | (s2, r) => ({ s2 with scannerDepth := s2.scannerDepth - 1 }, r)) := by
    intro st hst he
    obtain ⟨s1, eo⟩ := st
    dsimp only at hst he
    cases eo with
    | some e => exact hst.post h (noPanic_err (he e rfl))
    | none =>
      dsimp only
      have w1 : WFS s1 := hst.wfs h
      have g := ih.sLoop { s1 with scannerDepth := s1.scannerDepth + 1 } ⟨⟨w1.vm, w1.sc⟩, Nat.succ_ne_zero _⟩
      generalize scanLoop n m { s1 with scannerDepth := s1.scannerDepth + 1 } = p at g
      obtain ⟨s2, r⟩ := p
      refine ⟨⟨g.wf.vm, g.wf.sc⟩, ?_, ?_, ?_, ?_, g.nopanic⟩
      · have := g.ext
        dsimp only at this ⊢
        rw [hst.vm] at this
        exact this
      · have := g.roots
        dsimp only at this ⊢
        rw [hst.vm] at this
        exact this
      · have := g.depth
        have := hst.depth
        dsimp only at *
        omega
      · intro hne
        have hne1 : s1.scanner.eexec ≠ 0 := by rw [hst.eexec]; exact hne
        have := g.busy hne1
        dsimp only at this ⊢
        exact ⟨this.1.trans hst.eexec, this.2.trans hst.reg⟩
  apply key
  · split
    · obtain ⟨st, hres, _⟩ := withScanner_safe (safe_peekN 2 3) s h
      generalize withScanner s (Scan.peekN 2 3) = p0 at st hres
      obtain ⟨s1, r0⟩ := p0
      dsimp only at st hres ⊢
      split
      · split
        · exact ⟨st.vm, st.depth, st.eexec, st.reg, st.err⟩
        · split <;> exact st
      · exact st
    · exact ⟨rfl, rfl, rfl, rfl, h.sc.err⟩
  · split
    · obtain ⟨st, hres, _⟩ := withScanner_safe (safe_peekN 2 3) s h
      generalize withScanner s (Scan.peekN 2 3) = p0 at st hres
      obtain ⟨s1, r0⟩ := p0
      dsimp only at st hres ⊢
      split
      · split
        · intro e he; cases he
        · split
          · intro e he; cases he; exact npe_noPS
          · intro e he; cases he; exact npe_noPS
          · rename_i e' _ hc
            intro e he; cases he
            split at hc
            · exact st.err _ hc
            · cases hc
      · rename_i e' 
        intro e he; cases he
        exact hres _ rfl
    · intro e he; cases he

theorem stk {s : State} (h : WFS s) {l : List Obj} (hst : s.vm.stack = l) : ∀ o ∈ l, OK s o := by
  intro o ho; exact h.vm.stack o (by rw [hst]; exact ho)

theorem step_callBuiltin {m n : Nat} (ih : All m n) (s : State) (id : String) (hp : Pre s)
    (hk : knownBuiltin id) : PostS s (callBuiltin (n + 1) m s id) := by
  unfold callBuiltin
  split
  · -- exec
    split
    · exact PostS.refl hp.1 (noPanic_ps _)
    · rename_i obj rest hst
      have hall := stk hp.1 hst
      have hobj : OK s obj := hall obj (by simp)
      have hrest : ∀ o ∈ rest, OK s o := fun o ho => hall o (by simp [ho])
      dsimp only
      split
      · rename_i b
        exact PostS.start (sim_setStack s rest) (ih.call _ b (pre_setStack hp hrest) hobj)
      · exact PostS.start (sim_setStack s rest) (ih.one _ _ true (pre_setStack hp hrest) hobj)
      · exact PostS.start (sim_setStack s rest) (PostS.refl (wfs_setStack hp.1 hrest) (noPanic_ps _))
  · -- if
    split
    · rename_i proc c rest hst
      have hall := stk hp.1 hst
      have hproc : OK s proc := hall proc (by simp)
      have hrest : ∀ o ∈ rest, OK s o := fun o ho => hall o (by simp [ho])
      split
      · dsimp only
        split
        · exact PostS.start (sim_setStack s rest) (ih.one _ _ true (pre_setStack hp hrest) hproc)
        · exact PostS.start (sim_setStack s rest) (PostS.refl (wfs_setStack hp.1 hrest) noPanic_ok)
      · exact PostS.refl hp.1 (noPanic_ps _)
    · exact PostS.refl hp.1 (noPanic_ps _)
  · -- ifelse
    split
    · rename_i p2 p1 c rest hst
      have hall := stk hp.1 hst
      have hp2 : OK s p2 := hall p2 (by simp)
      have hp1 : OK s p1 := hall p1 (by simp)
      have hrest : ∀ o ∈ rest, OK s o := fun o ho => hall o (by simp [ho])
      split
      · dsimp only
        split
        · exact PostS.start (sim_setStack s rest) (ih.one _ _ true (pre_setStack hp hrest) hp1)
        · exact PostS.start (sim_setStack s rest) (ih.one _ _ true (pre_setStack hp hrest) hp2)
      · exact PostS.refl hp.1 (noPanic_ps _)
    · exact PostS.refl hp.1 (noPanic_ps _)
  · -- for
    split
    · rename_i proc lim inc ini rest hst
      have hall := stk hp.1 hst
      have hproc : OK s proc := hall proc (by simp)
      have hrest : ∀ o ∈ rest, OK s o := fun o ho => hall o (by simp [ho])
      repeat' split
      all_goals first
        | exact PostS.refl hp.1 (noPanic_ps _)
        | exact PostS.start (sim_setStack s rest) (ih.forL _ _ _ _ _ (pre_setStack hp hrest) hproc)
    · exact PostS.refl hp.1 (noPanic_ps _)
  · -- repeat
    split
    · rename_i proc c rest hst
      have hall := stk hp.1 hst
      have hproc : OK s proc := hall proc (by simp)
      have hrest : ∀ o ∈ rest, OK s o := fun o ho => hall o (by simp [ho])
      repeat' split
      all_goals first
        | exact PostS.refl hp.1 (noPanic_ps _)
        | exact PostS.start (sim_setStack s rest) (ih.rep _ _ _ (pre_setStack hp hrest) hproc)
    · exact PostS.refl hp.1 (noPanic_ps _)
  · -- loop
    split
    · exact PostS.refl hp.1 (noPanic_ps _)
    · rename_i proc rest hst
      have hall := stk hp.1 hst
      have hproc : OK s proc := hall proc (by simp)
      have hrest : ∀ o ∈ rest, OK s o := fun o ho => hall o (by simp [ho])
      exact PostS.start (sim_setStack s rest) (ih.loop _ _ (pre_setStack hp hrest) hproc)
  · -- forall
    split
    · rename_i proc obj rest hst
      have hall := stk hp.1 hst
      have hproc : OK s proc := hall proc (by simp)
      have hobj : OK s obj := hall obj (by simp)
      have hrest : ∀ o ∈ rest, OK s o := fun o ho => hall o (by simp [ho])
      split
      · split
        · rename_i r o l
          refine PostS.start (sim_setStack s rest) (ih.fArr _ r o 0 l _ (pre_setStack hp hrest) hproc ?_)
          exact (viewObjs_of_arr hobj).le (by omega)
        · rename_i r o l
          refine PostS.start (sim_setStack s rest) (ih.fStr _ r o 0 l _ (pre_setStack hp hrest) hproc ?_)
          exact (viewBytes_of_str hobj).le (by omega)
        · rename_i d
          exact PostS.start (sim_setStack s rest) (ih.fDict _ d _ _ (pre_setStack hp hrest) hproc hobj)
        · exact PostS.refl hp.1 (noPanic_ps _)
      · exact PostS.refl hp.1 (noPanic_ps _)
    · exact PostS.refl hp.1 (noPanic_ps _)
  · exact readstring_post hp
  · exact defaultErrorHandler_post hp.1
  · -- eexec
    split
    · exact PostS.refl hp.1 (noPanic_ps _)
    · rename_i rest hst
      have hall := stk hp.1 hst
      have hrest : ∀ o ∈ rest, OK s o := fun o ho => hall o (by simp [ho])
      dsimp only
      have hd' : (s.scannerDepth == 0) = false := by simp [hp.2]
      simp only [hd', Bool.false_eq_true, if_false]
      have hk2 : 2 ≤ s.vm.dictStack.length := hp.1.vm.dsLen
      have wf1 : WF (pushDict { s.vm with stack := rest } s.vm.roots.systemDict) :=
        wf_pushDict hp.1.vm hp.1.vm.rSystem hrest
      have hb := beginEexec_post s.scanner hp.1.sc
      have hbusy := beginEexec_busy s.scanner
      unfold withScanner
      dsimp only
      generalize Scan.beginEexec s.scanner = pb at hb hbusy
      obtain ⟨rb, scb⟩ := pb
      dsimp only at hb ⊢
      have wfs2 : WFS ({ s with vm := pushDict { s.vm with stack := rest } s.vm.roots.systemDict, scanner := scb } : State) :=
        ⟨wf1, ⟨hb.err, hb.reg⟩⟩
      cases rb with
      | error e =>
        dsimp only
        refine ⟨⟨wf_truncDictStack wf1 hk2, ⟨hb.err, hb.reg⟩⟩, ?_, ?_, rfl, ?_, noPanic_err (hb.res e rfl)⟩
        · show Ext s.vm.heap (truncDictStack _ _).heap
          rw [truncDictStack_heap]; exact Ext.refl _
        · show (truncDictStack _ _).roots = _
          rw [truncDictStack_roots]; rfl
        · intro hne
          have := hbusy hne
          cases this
          exact ⟨rfl, rfl⟩
      | ok u =>
        dsimp only
        have hok := hb.ok rfl
        have g3 := ih.sRun _ wfs2
        generalize scanRun n m _ = p3 at g3
        obtain ⟨s3, r3⟩ := p3
        dsimp only
        have hbz := g3.busy hok.1
        dsimp only at hbz
        have nobusy : s.scanner.eexec ≠ 0 → False := by
          intro hne
          have := hbusy hne
          cases this
        have fin : ∀ (sc' : Scanner) (r' : Res), ScOK sc' → NoPanic r' →
            PostS s ({ s3 with scanner := sc', vm := truncDictStack s3.vm s.vm.dictStack.length }, r') := by
          intro sc' r' hsc hn
          refine ⟨⟨wf_truncDictStack g3.wf.vm hk2, hsc⟩, ?_, ?_, g3.depth, fun hne => (nobusy hne).elim, hn⟩
          · show Ext s.vm.heap (truncDictStack _ _).heap
            rw [truncDictStack_heap]; exact g3.ext
          · show (truncDictStack _ _).roots = _
            rw [truncDictStack_roots]; exact g3.roots
        have sc4 : ScOK { s3.scanner with eexec := 0 } :=
          ⟨g3.wf.sc.err, fun _ => by show s3.scanner.regurgitate = false; rw [hbz.2]; exact hok.2⟩
        split
        · exact fin _ _ sc4 noPanic_ok
        · exact fin _ _ sc4 noPanic_ok
        · exact fin s3.scanner r3 g3.wf.sc g3.nopanic
    · exact PostS.refl hp.1 (noPanic_ps _)
  · -- operators without re-entry
    rename_i h1 h2 h3 h4 h5 h6 h7 h8 h9 h10
    split
    · rename_i v r hv
      exact PostS.vm hp.1 (pure_post id s.vm (v, r) hp.1.vm hv)
    · rename_i hnone
      rcases known_dispatch id s.vm hk with hm | hs
      · simp only [reentrantIds, List.mem_cons, List.not_mem_nil, or_false] at hm
        rcases hm with rfl | rfl | rfl | rfl | rfl | rfl | rfl | rfl | rfl | rfl <;> simp_all
      · rw [hnone] at hs; cases hs

theorem all_fuel (m : Nat) : ∀ fuel, All m fuel := by
  intro fuel
  induction fuel with
  | zero => exact all_zero m
  | succ n ih =>
    exact ⟨step_execOne ih, step_execBody ih, step_execTail ih, step_runBody ih, step_callBuiltin ih,
      step_forLoop ih, step_repeatLoop ih, step_loopLoop ih, step_forallArr ih, step_forallStr ih,
      step_forallDict ih, step_scanRun ih, step_scanLoop ih⟩

/-! ### `Execute` -/

theorem scOK_fresh (input : List UInt8) (fault : Option String) :
    ScOK ({ src := input, fault := fault } : Scanner) :=
  ⟨(by intro e he; cases he), fun _ => rfl⟩

theorem wfs_newInterpreter : WFS newInterpreter := ⟨wf_newVM, scOK_fresh [] none⟩

/-- one call of `Execute` on a well-formed interpreter: the interpreter stays well-formed,
its heap is only extended, and the result is not a panic -/
theorem execute_post (fuel m : Nat) (s : State) (h : WFS s) (input : List UInt8) (fault : Option String) :
    WFS (execute fuel m s input fault).1 ∧
    Ext s.vm.heap (execute fuel m s input fault).1.vm.heap ∧
    (execute fuel m s input fault).1.vm.roots = s.vm.roots ∧
    NoPanic (execute fuel m s input fault).2 := by
  unfold execute
  dsimp only
  have w0 : WFS ({ s with scanner := { src := input, fault := fault } } : State) := ⟨h.vm, scOK_fresh input fault⟩
  have g := (all_fuel m fuel).sRun _ w0
  generalize scanRun fuel m _ = p at g
  obtain ⟨s1, r⟩ := p
  dsimp only
  split
  · exact ⟨⟨g.wf.vm, g.wf.sc⟩, g.ext, g.roots, noPanic_ps _⟩
  · exact ⟨⟨g.wf.vm, g.wf.sc⟩, g.ext, g.roots, noPanic_ok⟩
  · exact ⟨⟨g.wf.vm, g.wf.sc⟩, g.ext, g.roots, noPanic_ok⟩
  · exact ⟨⟨g.wf.vm, g.wf.sc⟩, g.ext, g.roots, g.nopanic⟩

end PsVerif.Proofs.WFState

#print axioms PsVerif.Proofs.WFState.scanToken_tok
#print axioms PsVerif.Proofs.WFState.beginEexec_post
#print axioms PsVerif.Proofs.WFState.all_fuel
#print axioms PsVerif.Proofs.WFState.execute_post
