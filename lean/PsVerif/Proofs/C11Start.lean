import PsVerif.Proofs.IoErr
import PsVerif.Proofs.WF
/-!
# C11, start check: helper lemmas

* pass over the scanner (`Nf`): no scanner function ever produces `Err.noPS`, neither as its
  error nor as the sticky error of the scanner (pattern of pass 1 of `Proofs/IoErr.lean`);
* no data operator returns `Err.noPS`;
* the 13 functions of the interpreter's mutual block never set `checkStart`, and with
  `checkStart = false` never return `Err.noPS` (simultaneous induction on the fuel, pattern
  of `Proofs/InterpCtl.lean`).
-/
namespace PsVerif.Proofs.C11Start
open PsVerif.Model PsVerif.Model.Scan PsVerif.Proofs.IoErr

/-- the sticky error of the scanner is not the not-a-PostScript-file error -/
def J (sc : Scanner) : Prop := sc.err ≠ some .noPS

/-- frame property: `J` kept, no `Err.noPS` produced, results satisfy `Q` -/
def Nf {α : Type} (Q : α → Prop) (m : SM α) : Prop :=
  Tr J m (Post (fun a sc => J sc ∧ Q a) (fun e sc => J sc ∧ e ≠ .noPS))

def NoNR {α : Type} (Q : α → Prop) : Except Err α → Prop
  | .ok a => Q a
  | .error e => e ≠ .noPS

theorem nf_bind {α β : Type} {Q1 : α → Prop} {Q : β → Prop} {m : SM α} {f : α → SM β}
    (h1 : Nf Q1 m) (h2 : ∀ a, Q1 a → Nf Q (f a)) : Nf Q (m >>= f) := by
  refine tr_bind h1 (fun a => ?_) (fun e sc h => h)
  intro sc h
  exact h2 a h.2 sc h.1

theorem nf_pure {α : Type} {Q : α → Prop} {a : α} (h : Q a) : Nf Q (pure a : SM α) :=
  fun _ hp => ⟨hp, h⟩

theorem nf_fail {α : Type} {Q : α → Prop} {e : Err} (h : e ≠ .noPS) : Nf Q (fail e : SM α) :=
  fun _ hp => ⟨hp, h⟩

theorem nf_getS : Nf (fun s => J s) getS := fun _ hp => ⟨hp, hp⟩

theorem nf_modS {f : Scanner → Scanner} (h : ∀ sc, J sc → J (f sc)) : Nf (fun _ => True) (modS f) :=
  fun sc hp => ⟨h sc hp, trivial⟩

theorem nf_attempt {α : Type} {Q : α → Prop} {m : SM α} (h : Nf Q m) : Nf (NoNR Q) (attempt m) := by
  intro sc hp
  have := h sc hp
  unfold attempt
  generalize m sc = p at this
  obtain ⟨r, s1⟩ := p
  cases r with
  | ok a => exact ⟨this.1, this.2⟩
  | error e => exact ⟨this.1, this.2⟩

theorem nf_weaken {α : Type} {Q Q' : α → Prop} {m : SM α} (h : Nf Q m) (hq : ∀ a, Q a → Q' a) : Nf Q' m :=
  tr_post h (fun a _ h => ⟨h.1, hq a h.2⟩) (fun _ _ h => h)

theorem j_err_ne {sc : Scanner} {e : Err} (h : J sc) (he : sc.err = some e) : e ≠ .noPS := by
  intro h'; subst h'; exact h he

theorem nf_readByteRaw : Nf (fun _ => True) readByteRaw := by
  intro sc h
  unfold readByteRaw
  split
  · split
    · exact ⟨h, trivial⟩
    · exact ⟨h, by simp⟩
  · split
    · rename_i e hse
      split
      · exact ⟨h, trivial⟩
      · exact ⟨h, j_err_ne h hse⟩
    · split
      · exact ⟨h, trivial⟩
      · split
        · exact ⟨by simp [J], by simp⟩
        · exact ⟨by simp [J], by simp⟩

theorem nf_readHexPair : ∀ (fuel i : Nat) (out : UInt8), Nf (fun _ => True) (readHexPair fuel i out) := by
  intro fuel
  induction fuel with
  | zero => intro i out; unfold readHexPair; exact nf_fail (by simp)
  | succ n ih =>
    intro i out
    unfold readHexPair
    split
    · exact nf_pure trivial
    · refine nf_bind nf_readByteRaw (fun a _ => ?_)
      split
      · exact ih _ _
      · split
        · exact ih _ _
        · exact nf_fail (by simp)

theorem nf_readByteEexec : Nf (fun _ => True) readByteEexec := by
  unfold readByteEexec
  refine nf_bind nf_getS (fun s _ => ?_)
  split
  · exact nf_readByteRaw
  · exact nf_readHexPair _ _ _

theorem nf_readByte : Nf (fun _ => True) readByte := by
  unfold readByte
  refine nf_bind nf_getS (fun s _ => ?_)
  split
  · exact nf_readByteRaw
  · refine nf_bind nf_readByteEexec (fun a _ => ?_)
    refine nf_bind nf_getS (fun s _ => ?_)
    generalize Cipher.decStep s.r a = pr
    obtain ⟨p, r'⟩ := pr
    dsimp only
    refine nf_bind (nf_modS (fun sc h => h)) (fun _ _ => ?_)
    exact nf_pure trivial

theorem nf_next : Nf (fun _ => True) next := by
  unfold next
  refine nf_bind nf_getS (fun s _ => ?_)
  refine nf_bind (Q1 := fun _ => True) ?_ (fun a _ => ?_)
  · split
    · split
      · refine nf_bind (nf_modS (fun sc h => h)) (fun _ _ => ?_)
        exact nf_pure trivial
      · exact nf_fail (by simp)
    · exact nf_readByte
  · refine nf_bind (nf_modS (fun sc h => ?_)) (fun _ _ => nf_pure trivial)
    dsimp only
    split
    · exact h
    · split
      · exact h
      · exact h

theorem nf_peek : Nf (fun _ => True) peek := by
  unfold peek
  refine nf_bind nf_getS (fun s _ => ?_)
  split
  · exact nf_pure trivial
  · refine nf_bind nf_readByte (fun a _ => ?_)
    refine nf_bind (nf_modS (fun sc h => h)) (fun _ _ => ?_)
    exact nf_pure trivial
theorem nf_ite {α : Type} {Q : α → Prop} {c : Prop} [Decidable c] {m1 m2 : SM α}
    (h1 : Nf Q m1) (h2 : Nf Q m2) : Nf Q (if c then m1 else m2) := by
  split
  · exact h1
  · exact h2

theorem nf_fail_bind {α β : Type} {Q : β → Prop} {e : Err} {f : α → SM β} (h : e ≠ .noPS) :
    Nf Q ((fail e : SM α) >>= f) := by
  intro sc hp
  have : ((fail e : SM α) >>= f) sc = (.error e, sc) := by rw [bind_eq]; rfl
  rw [this]
  exact ⟨hp, h⟩

theorem nf_peekN (n : Nat) : ∀ fuel, Nf (fun _ => True) (peekN n fuel) := by
  intro fuel
  induction fuel with
  | zero => unfold peekN; exact nf_bind nf_getS (fun s _ => nf_pure trivial)
  | succ k ih =>
    unfold peekN
    refine nf_bind nf_getS (fun s _ => ?_)
    split
    · exact nf_pure trivial
    · refine nf_bind (nf_attempt nf_readByte) (fun r _ => ?_)
      split
      · exact nf_bind nf_getS (fun s _ => nf_pure trivial)
      · exact nf_bind (nf_modS (fun sc h => h)) (fun _ _ => ih)

theorem nf_lookingAt (pat : List UInt8) : Nf (fun _ => True) (lookingAt pat) := by
  unfold lookingAt
  exact nf_bind (nf_peekN _ _) (fun _ _ => nf_pure trivial)

theorem nf_skipByte : Nf (fun _ => True) skipByte := by
  unfold skipByte
  exact nf_bind (nf_attempt nf_next) (fun _ _ => nf_pure trivial)

theorem nf_skipN : ∀ n, Nf (fun _ => True) (skipN n) := by
  intro n
  induction n with
  | zero => unfold skipN; exact nf_pure trivial
  | succ k ih => unfold skipN; exact nf_bind nf_skipByte (fun _ _ => ih)

theorem syntaxErr_ne' : syntaxErr ≠ .noPS := by simp [syntaxErr]

theorem nf_skipRequiredByte (x : UInt8) : Nf (fun _ => True) (skipRequiredByte x) := by
  unfold skipRequiredByte
  refine nf_bind nf_next (fun a _ => ?_)
  split
  · exact nf_fail syntaxErr_ne'
  · exact nf_pure trivial

theorem nf_skipOptionalByte (x : UInt8) : Nf (fun _ => True) (skipOptionalByte x) := by
  unfold skipOptionalByte
  refine nf_bind (nf_attempt nf_peek) (fun r _ => ?_)
  split
  · split
    · exact nf_skipByte
    · exact nf_pure trivial
  · exact nf_pure trivial

theorem nf_skipToEOL : ∀ fuel, Nf (fun _ => True) (skipToEOL fuel) := by
  intro fuel
  induction fuel with
  | zero => unfold skipToEOL; exact nf_pure trivial
  | succ k ih =>
    unfold skipToEOL
    refine nf_bind (nf_attempt nf_next) (fun r _ => ?_)
    split
    · exact nf_pure trivial
    · split
      · exact nf_pure trivial
      · split
        · exact nf_skipOptionalByte _
        · exact ih

theorem nf_skipComment : Nf (fun _ => True) skipComment := by
  unfold skipComment
  refine nf_bind (nf_attempt (nf_skipRequiredByte _)) (fun r _ => ?_)
  split
  · exact nf_bind nf_getS (fun s _ => nf_skipToEOL _)
  · exact nf_pure trivial

theorem nf_readCommentKey : ∀ fuel acc, Nf (fun _ => True) (readCommentKey fuel acc) := by
  intro fuel
  induction fuel with
  | zero => intro acc; unfold readCommentKey; exact nf_pure trivial
  | succ k ih =>
    intro acc
    unfold readCommentKey
    refine nf_bind (nf_attempt nf_peek) (fun r hr => ?_)
    split
    · exact nf_pure trivial
    · exact nf_fail hr
    · split
      · exact nf_pure trivial
      · refine nf_bind nf_skipByte (fun _ _ => ?_)
        split
        · exact nf_pure trivial
        · exact ih _

theorem nf_skipBlanks : ∀ fuel, Nf (fun _ => True) (skipBlanks fuel) := by
  intro fuel
  induction fuel with
  | zero => unfold skipBlanks; exact nf_pure trivial
  | succ k ih =>
    unfold skipBlanks
    refine nf_bind (nf_attempt nf_peek) (fun r hr => ?_)
    split
    · exact nf_pure trivial
    · exact nf_fail hr
    · split
      · exact nf_pure trivial
      · exact nf_bind nf_skipByte (fun _ _ => ih)

theorem nf_readLine : ∀ fuel acc, Nf (fun _ => True) (readLine fuel acc) := by
  intro fuel
  induction fuel with
  | zero => intro acc; unfold readLine; exact nf_pure trivial
  | succ k ih =>
    intro acc
    unfold readLine
    refine nf_bind (nf_attempt nf_next) (fun r hr => ?_)
    split
    · exact nf_pure trivial
    · exact nf_fail hr
    · split
      · exact nf_pure trivial
      · split
        · exact nf_bind (nf_skipOptionalByte _) (fun _ _ => nf_pure trivial)
        · exact ih _

theorem nf_readCommentValue : ∀ fuel acc, Nf (fun _ => True) (readCommentValue fuel acc) := by
  intro fuel
  induction fuel with
  | zero => intro acc; unfold readCommentValue; exact nf_pure trivial
  | succ k ih =>
    intro acc
    unfold readCommentValue
    refine nf_bind nf_getS (fun s _ => ?_)
    refine nf_bind (nf_skipBlanks _) (fun _ _ => ?_)
    refine nf_bind nf_getS (fun s _ => ?_)
    refine nf_bind (nf_readLine _ _) (fun acc' _ => ?_)
    refine nf_bind (nf_lookingAt _) (fun c _ => ?_)
    split
    · exact nf_bind (nf_skipN _) (fun _ _ => ih _)
    · exact nf_pure trivial

theorem nf_readStructuredComment : Nf (fun _ => True) readStructuredComment := by
  unfold readStructuredComment
  refine nf_bind (nf_lookingAt _) (fun c _ => ?_)
  split
  · exact nf_pure trivial
  · refine nf_bind (nf_skipN _) (fun _ _ => ?_)
    refine nf_bind nf_getS (fun s _ => ?_)
    refine nf_bind (nf_attempt (nf_readCommentKey _ _)) (fun r _ => ?_)
    split
    · exact nf_bind nf_getS (fun s _ => nf_bind (nf_skipToEOL _) (fun _ _ => nf_pure trivial))
    · split
      · exact nf_bind nf_getS (fun s _ => nf_bind (nf_skipToEOL _) (fun _ _ => nf_pure trivial))
      · refine nf_bind nf_getS (fun s _ => ?_)
        refine nf_bind (nf_attempt (nf_readCommentValue _ _)) (fun r _ => ?_)
        split
        · exact nf_pure trivial
        · exact nf_pure trivial

theorem nf_skipWhiteSpace : ∀ fuel, Nf (fun _ => True) (skipWhiteSpace fuel) := by
  intro fuel
  induction fuel with
  | zero => unfold skipWhiteSpace; exact nf_fail (by simp)
  | succ k ih =>
    unfold skipWhiteSpace
    refine nf_bind nf_peek (fun c _ => ?_)
    split
    · exact nf_bind nf_skipByte (fun _ _ => ih)
    · split
      · refine nf_bind nf_getS (fun s _ => ?_)
        refine nf_bind (nf_lookingAt _) (fun c _ => ?_)
        split
        · refine nf_bind nf_readStructuredComment (fun r _ => ?_)
          dsimp only
          split
          · exact nf_bind (nf_modS (fun sc h => h)) (fun _ _ => ih)
          · exact ih
        · exact nf_bind nf_skipComment (fun _ _ => ih)
      · exact nf_pure trivial

theorem nf_readOctal : ∀ n oct, Nf (fun _ => True) (readOctal n oct) := by
  intro n
  induction n with
  | zero => intro oct; unfold readOctal; exact nf_pure trivial
  | succ k ih =>
    intro oct
    unfold readOctal
    refine nf_bind (nf_attempt nf_peek) (fun r hr => ?_)
    split
    · exact nf_pure trivial
    · exact nf_fail hr
    · split
      · exact nf_pure trivial
      · exact nf_bind nf_skipByte (fun _ _ => ih _)

theorem nf_readStringBody : ∀ fuel res level ig, Nf (fun _ => True) (readStringBody fuel res level ig) := by
  intro fuel
  induction fuel with
  | zero => intro res level ig; unfold readStringBody; exact nf_fail (by simp)
  | succ k ih =>
    intro res level ig
    unfold readStringBody
    refine nf_bind nf_next (fun c _ => ?_)
    repeat' (first
      | exact ih _ _ _
      | exact nf_pure trivial
      | refine nf_ite ?_ ?_
      | refine nf_bind nf_next (fun e _ => ?_)
      | exact nf_bind (nf_readOctal _ _) (fun _ _ => ih _ _ _))

theorem nf_readString : Nf (fun _ => True) readString := by
  unfold readString
  exact nf_bind (nf_skipRequiredByte _) (fun _ _ => nf_bind nf_getS (fun s _ => nf_readStringBody _ _ _ _))

theorem nf_readHexBody : ∀ fuel res first hi, Nf (fun _ => True) (readHexBody fuel res first hi) := by
  intro fuel
  induction fuel with
  | zero => intro res first hi; unfold readHexBody; exact nf_fail (by simp)
  | succ k ih =>
    intro res first hi
    unfold readHexBody
    refine nf_bind nf_next (fun c _ => ?_)
    refine nf_ite (nf_pure trivial) (nf_ite (ih _ _ _) ?_)
    split
    · exact nf_fail syntaxErr_ne'
    · exact nf_ite (ih _ _ _) (ih _ _ _)

theorem nf_readHexString : Nf (fun _ => True) readHexString := by
  unfold readHexString
  exact nf_bind (nf_skipRequiredByte _) (fun _ _ => nf_bind nf_getS (fun s _ => nf_readHexBody _ _ _ _))

theorem nf_readA85Body : ∀ fuel res pos val, Nf (fun _ => True) (readA85Body fuel res pos val) := by
  intro fuel
  induction fuel with
  | zero => intro res pos val; unfold readA85Body; exact nf_fail (by simp)
  | succ k ih =>
    intro res pos val
    unfold readA85Body
    refine nf_bind nf_next (fun c _ => ?_)
    dsimp only
    repeat' (first
      | exact ih _ _ _
      | exact nf_pure trivial
      | exact nf_fail syntaxErr_ne'
      | refine nf_ite ?_ ?_)

theorem nf_readBase85String : Nf (fun _ => True) readBase85String := by
  unfold readBase85String
  refine nf_bind (nf_skipRequiredByte _) (fun _ _ => ?_)
  refine nf_bind (nf_skipRequiredByte _) (fun _ _ => ?_)
  refine nf_bind nf_getS (fun s _ => ?_)
  refine nf_bind (nf_readA85Body _ _ _ _) (fun r _ => ?_)
  obtain ⟨res, pos, val⟩ := r
  dsimp only
  refine nf_bind (Q1 := fun _ => True) ?_ (fun _ _ => nf_bind (nf_skipRequiredByte _) (fun _ _ => nf_pure trivial))
  repeat' split
  all_goals first
    | exact nf_pure trivial
    | exact nf_fail syntaxErr_ne'

theorem nf_readRegular : ∀ fuel acc, Nf (fun _ => True) (readRegular fuel acc) := by
  intro fuel
  induction fuel with
  | zero => intro acc; unfold readRegular; exact nf_pure trivial
  | succ k ih =>
    intro acc
    unfold readRegular
    refine nf_bind (nf_attempt nf_peek) (fun r hr => ?_)
    split
    · exact nf_pure trivial
    · exact nf_fail hr
    · split
      · exact nf_pure trivial
      · exact nf_bind nf_skipByte (fun _ _ => ih _)

theorem nf_scanTokenRest : Nf (fun _ => True) scanTokenRest := by
  unfold scanTokenRest
  refine nf_bind nf_peek (fun c _ => ?_)
  split
  · exact nf_bind nf_readString (fun _ _ => nf_pure trivial)
  · split
    · refine nf_bind (nf_peekN _ _) (fun bb _ => ?_)
      split
      · exact nf_bind nf_skipByte (fun _ _ => nf_bind nf_skipByte (fun _ _ => nf_pure trivial))
      · split
        · exact nf_bind nf_readBase85String (fun _ _ => nf_pure trivial)
        · exact nf_bind nf_readHexString (fun _ _ => nf_pure trivial)
    · split
      · refine nf_bind (nf_peekN _ _) (fun bb _ => ?_)
        split
        · exact nf_bind nf_skipByte (fun _ _ => nf_bind nf_skipByte (fun _ _ => nf_pure trivial))
        · refine nf_bind nf_getS (fun s hs => ?_)
          split
          · rename_i e he
            refine nf_fail ?_
            split at he
            · exact j_err_ne hs he
            · cases he
          · exact nf_fail syntaxErr_ne'
      · split
        · refine nf_bind nf_skipByte (fun _ _ => ?_)
          refine nf_bind nf_getS (fun s _ => ?_)
          exact nf_bind (nf_readRegular _ _) (fun _ _ => nf_pure trivial)
        · refine nf_bind nf_skipByte (fun _ _ => ?_)
          refine nf_bind nf_getS (fun s _ => ?_)
          refine nf_bind (Q1 := fun _ => True) ?_ (fun bytes _ => ?_)
          · split
            · exact nf_readRegular _ _
            · exact nf_pure trivial
          · split
            · exact nf_pure trivial
            · exact nf_pure trivial

theorem nf_scanToken : Nf (fun _ => True) scanToken := by
  rw [scanToken_eq]
  exact nf_bind nf_getS (fun s _ => nf_bind (nf_skipWhiteSpace _) (fun _ _ => nf_scanTokenRest))

theorem nf_skipEexecSpace : ∀ fuel, Nf (fun _ => True) (skipEexecSpace fuel) := by
  intro fuel
  induction fuel with
  | zero => unfold skipEexecSpace; exact nf_fail (by simp)
  | succ k ih =>
    unfold skipEexecSpace
    refine nf_bind nf_peek (fun c _ => ?_)
    split
    · exact nf_bind nf_skipByte (fun _ _ => ih)
    · exact nf_pure trivial

theorem nf_skipIV : ∀ n, Nf (fun _ => True) (skipIV n) := by
  intro n
  induction n with
  | zero => unfold skipIV; exact nf_pure trivial
  | succ k ih => unfold skipIV; exact nf_bind nf_next (fun _ _ => ih)

theorem nf_beginEexec : Nf (fun _ => True) beginEexec := by
  unfold beginEexec
  refine nf_bind nf_getS (fun s _ => ?_)
  dsimp only
  refine nf_ite (nf_fail_bind (by simp)) ?_
  refine nf_bind (nf_skipEexecSpace _) (fun _ _ => ?_)
  refine nf_bind (nf_peekN _ _) (fun bb _ => ?_)
  refine nf_ite ?_ ?_
  · refine nf_bind nf_getS (fun s hs => ?_)
    split
    · rename_i e he
      exact nf_fail_bind (j_err_ne hs he)
    · exact nf_fail_bind (by simp)
  · refine nf_bind (nf_modS (fun sc h => h)) (fun _ _ => ?_)
    refine nf_bind (nf_skipIV _) (fun _ _ => ?_)
    exact nf_modS (fun sc h => h)

theorem nf_endEexec : Nf (fun _ => True) endEexec := by
  unfold endEexec
  exact nf_modS (fun sc h => h)

/-- the error reported by `readN` next to the bytes is never `io.EOF` -/
theorem nf_readN : ∀ n acc, Nf (fun r => ∀ e, r.2 = some e → e ≠ .noPS) (readN n acc) := by
  intro n
  induction n with
  | zero => intro acc; unfold readN; exact nf_pure (by simp)
  | succ k ih =>
    intro acc
    unfold readN
    refine nf_bind (nf_attempt nf_next) (fun r hr => ?_)
    split
    · refine nf_pure ?_
      intro e he
      cases he
      exact hr
    · exact ih _

/-! ### no data operator returns `Err.noPS` -/

theorem bind_noPS : ∀ fuel,
    (∀ s r o l d, (bindProc fuel s r o l d).2 ≠ .err .noPS) ∧
    (∀ s r o d i t, (bindLoop fuel s r o d i t).2 ≠ .err .noPS) := by
  intro fuel
  induction fuel with
  | zero => constructor <;> intros <;> simp [bindProc, bindLoop]
  | succ n ih =>
    constructor
    · intro s r o l d
      unfold bindProc
      split
      · simp [psErr]
      · split
        · simp [okRes]
        · split
          · simp [okRes]
          · exact ih.2 _ _ _ _ _ _
    · intro s r o d i t
      cases t with
      | zero => simp [bindLoop, okRes]
      | succ t =>
        unfold bindLoop
        split
        · simp
        · split
          · split
            · exact ih.2 _ _ _ _ _ _
            · exact ih.2 _ _ _ _ _ _
          · rename_i r' o' l' _
            have h := ih.1 s r' o' l' (d + 1)
            generalize bindProc n s r' o' l' (d + 1) = p at h ⊢
            obtain ⟨s2, res⟩ := p
            dsimp only
            split
            · exact ih.2 _ _ _ _ _ _
            · exact h
          · exact ih.2 _ _ _ _ _ _

theorem bBind_noPS (v : VM) : (bBind v).2 ≠ .err .noPS := by
  unfold bBind
  split
  · simp [psErr]
  · next r o l rest hst =>
    have q := (bind_noPS ((heapSlots v + 2) * (maxBindDepth + 3))).1 { v with bindSeen := [] } r o l 0
    generalize bindProc ((heapSlots v + 2) * (maxBindDepth + 3)) { v with bindSeen := [] } r o l 0 = p at q ⊢
    obtain ⟨s', res⟩ := p
    exact q
  · simp [psErr]

theorem pure_noPS (id : String) (v : VM) (p : VM × Res) (e : pureBuiltin id v = some p) :
    p.2 ≠ .err .noPS := by
  unfold pureBuiltin at e
  split at e <;> first
    | (have e' := Option.some.inj e
       rw [← e']
       first
       | exact bBind_noPS v
       | (simp only [bMark, bListEnd, bDictEnd, bAbs, bAdd, bSub, bMul, arith, bAnd, bOr, bNot, bArray, bBegin,
            bCleartomark, bClosefile, bCopy, bCount, bCurrentdict, bCurrentfile, bCvx, bDef, bDefinefont,
            bDefineresource, bDict, bDup, bEnd, bEq, bNe, bEqNe, bExch, bNop, bFindfont, bFindresource, bGet,
            bGetinterval, bIndex, bInternaldict, bKnown, bLength, bLoad, bMatrix, bMaxlength, bPop, bPut,
            bPutinterval, bRoll, bString, bType, bWhere, VM.alloc]
          (repeat' (first | split | dsimp only)) <;> simp [psErr, okRes, VM.push]))
    | (unfold cmapBuiltin at e
       split at e <;> first
         | (have e' := Option.some.inj e
            rw [← e']
            simp only [bBegincmap, bEndcmap, bUsecmap, bBegincodespacerange, bEndcodespacerange, bBeginChars,
              bBeginRanges, bEndcidchar, bEndbfchar, bEndnotdefchar, bEndcidrange, bEndbfrange, bEndnotdefrange,
              endChars, endRanges, beginBlock, withCMap, VM.alloc]
            (repeat' (first | split | dsimp only)) <;> simp [psErr, okRes])
         | (simp at e; done))

/-! ### the interpreter never arms the start check, and without it never reports `Err.noPS` -/

/-- postcondition of every function of the mutual block, relative to the start state `s`: with the
start check off it stays off, and (the sticky scanner error not being `Err.noPS`) the result is not
the not-a-PostScript-file error -/
def Ok (s : State) (p : State × Res) : Prop :=
  s.checkStart = false → p.1.checkStart = false ∧ (J s.scanner → J p.1.scanner ∧ p.2 ≠ .err .noPS)

/-- the two states agree on the fields the invariant talks about -/
structure Same (s s' : State) : Prop where
  cs : s'.checkStart = s.checkStart
  sc : s'.scanner = s.scanner

theorem Same.rfl' (s : State) : Same s s := ⟨rfl, rfl⟩

theorem Same.trans {a b c : State} (h1 : Same a b) (h2 : Same b c) : Same a c :=
  ⟨h2.cs.trans h1.cs, h2.sc.trans h1.sc⟩

theorem ok_of_same {s s' : State} (r : Res) (h : Same s s') (hr : r ≠ .err .noPS := by simp) : Ok s (s', r) := by
  intro hc
  refine ⟨by rw [h.cs]; exact hc, fun hj => ⟨by rw [h.sc]; exact hj, hr⟩⟩

theorem ok_start {s0 s : State} {p : State × Res} (h : Same s0 s) (g : Ok s p) : Ok s0 p := by
  intro hc
  have := g (by rw [h.cs]; exact hc)
  exact ⟨this.1, fun hj => this.2 (by rw [h.sc]; exact hj)⟩

theorem ok_end {s s1 s2 : State} {r : Res} (g : Ok s (s1, r)) (h : Same s1 s2) : Ok s (s2, r) := by
  intro hc
  have := g hc
  exact ⟨by rw [h.cs]; exact this.1, fun hj => ⟨by rw [h.sc]; exact (this.2 hj).1, (this.2 hj).2⟩⟩

theorem ok_seq {s s1 : State} {r1 : Res} {p : State × Res} (g1 : Ok s (s1, r1)) (g2 : Ok s1 p) : Ok s p := by
  intro hc
  have h1 := g1 hc
  have h2 := g2 h1.1
  exact ⟨h2.1, fun hj => h2.2 (h1.2 hj).1⟩

theorem ok_change_res {s s1 s2 : State} {r : Res} (r' : Res) (g : Ok s (s1, r)) (hr : r' ≠ .err .noPS)
    (h : Same s1 s2) : Ok s (s2, r') := by
  intro hc
  have := g hc
  exact ⟨by rw [h.cs]; exact this.1, fun hj => ⟨by rw [h.sc]; exact (this.2 hj).1, hr⟩⟩

theorem same_setStack (s : State) (st : List Obj) : Same s (setStack s st) := ⟨rfl, rfl⟩
theorem same_pushS (s : State) (o : Obj) : Same s (pushS s o) := ⟨rfl, rfl⟩
theorem same_vm (s : State) (v : VM) : Same s { s with vm := v } := ⟨rfl, rfl⟩
theorem same_objOfTok (s : State) (t : Scan.Tok) : Same s (objOfTok s t).1 := by
  cases t <;> exact ⟨rfl, rfl⟩

theorem ok_defaultErrorHandler (s : State) : Ok s (defaultErrorHandler s) := by
  unfold defaultErrorHandler; split
  · exact ok_of_same _ (Same.rfl' s)
  · exact ok_of_same _ (Same.rfl' s)

/-- a scanner action run on the interpreter's scanner -/
theorem ok_withScanner {α : Type} {Q : α → Prop} {mm : SM α} (h : Nf Q mm) (s : State) :
    (withScanner s mm).1.checkStart = s.checkStart ∧
    (J s.scanner → J (withScanner s mm).1.scanner ∧ NoNR Q (withScanner s mm).2) := by
  refine ⟨rfl, fun hj => ?_⟩
  have := h s.scanner hj
  unfold withScanner
  generalize mm s.scanner = p at this
  obtain ⟨r, sc⟩ := p
  cases r with
  | ok a => exact ⟨this.1, this.2⟩
  | error e => exact ⟨this.1, this.2⟩

/-- the statement proved for all functions of the mutual block at once -/
def AllOk (m fuel : Nat) : Prop :=
  (∀ s o b, Ok s (execOne fuel m s o b)) ∧
  (∀ s o b, Ok s (execBody fuel m s o b)) ∧
  (∀ s o b c, Ok s (execTail fuel m s o b c)) ∧
  (∀ s r o i n, Ok s (runBody fuel m s r o i n)) ∧
  (∀ s id, Ok s (callBuiltin fuel m s id)) ∧
  (∀ s v i l p, Ok s (forLoop fuel m s v i l p)) ∧
  (∀ s n p, Ok s (repeatLoop fuel m s n p)) ∧
  (∀ s p, Ok s (loopLoop fuel m s p)) ∧
  (∀ s r o i n p, Ok s (forallArr fuel m s r o i n p)) ∧
  (∀ s r o i n p, Ok s (forallStr fuel m s r o i n p)) ∧
  (∀ s d ks p, Ok s (forallDict fuel m s d ks p)) ∧
  (∀ s, Ok s (scanRun fuel m s)) ∧
  (∀ s, Ok s (scanLoop fuel m s))

theorem ok_level {s s' : State} {r : Res} (_hd : s.execDepth < execDepthLimit)
    (g : Ok { s with execDepth := s.execDepth + 1, hiDepth := max s.hiDepth (s.execDepth + 1) } (s', r)) :
    Ok s ({ s' with execDepth := s'.execDepth - 1 }, r) := g

theorem ok_incr {m : Nat} {s : State} {p : State × Res} (_hnl : ¬ (m > 0 ∧ s.numOps + 1 > m))
    (g : Ok { s with numOps := s.numOps + 1 } p) : Ok s p := g

theorem ok_limit {m : Nat} (s : State) (_hl : m > 0 ∧ s.numOps + 1 > m) :
    Ok s ({ s with numOps := m + 1 }, .err .limit) := ok_of_same _ ⟨rfl, rfl⟩

theorem ok_handler {s1 s3 : State} {r3 : Res} (name : ErrName)
    (g3 : Ok { s1 with errors := name :: s1.errors, hiErrors := max s1.hiErrors (s1.errors.length + 1) } (s3, r3))
    (_hl : s1.errors.length < errorNestingLimit) :
    Ok s1 ({ s3 with errors := s3.errors.drop (s3.errors.length - s1.errors.length) }, r3) := g3

theorem ok_fuel (s : State) : Ok s (s, .fuel) := ok_of_same _ (Same.rfl' s)

theorem allOk_zero (m : Nat) : AllOk m 0 := by
  refine ⟨?_, ?_, ?_, ?_, ?_, ?_, ?_, ?_, ?_, ?_, ?_, ?_, ?_⟩ <;> intros
  · simp only [execOne]; exact ok_fuel _
  · simp only [execBody]; exact ok_fuel _
  · simp only [execTail]; exact ok_fuel _
  · simp only [runBody]; exact ok_fuel _
  · simp only [callBuiltin]; exact ok_fuel _
  · simp only [forLoop]; exact ok_fuel _
  · simp only [repeatLoop]; exact ok_fuel _
  · simp only [loopLoop]; exact ok_fuel _
  · simp only [forallArr]; exact ok_fuel _
  · simp only [forallStr]; exact ok_fuel _
  · simp only [forallDict]; exact ok_fuel _
  · simp only [scanRun]; exact ok_fuel _
  · simp only [scanLoop]; exact ok_fuel _

theorem step_execOne {m n : Nat} (ih : AllOk m n) (s : State) (o : Obj) (b : Bool) :
    Ok s (execOne (n + 1) m s o b) := by
  simp only [execOne]
  split
  · split
    · exact ok_of_same _ (Same.rfl' s)
    · rename_i hd
      have g := ih.2.1 { s with execDepth := s.execDepth + 1, hiDepth := max s.hiDepth (s.execDepth + 1) } o true
      generalize execBody n m { s with execDepth := s.execDepth + 1, hiDepth := max s.hiDepth (s.execDepth + 1) } o true = p at g
      obtain ⟨s', r⟩ := p
      exact ok_level (by omega) g
  · exact ih.2.1 s o false

theorem step_execBody {m n : Nat} (ih : AllOk m n) (s : State) (o : Obj) (b : Bool) :
    Ok s (execBody (n + 1) m s o b) := by
  simp only [execBody]
  split
  · exact ok_of_same _ (Same.rfl' s)
  · split
    · split
      · exact ok_of_same _ (Same.rfl' s)
      · split
        · exact ok_of_same _ ⟨rfl, rfl⟩
        · exact ok_of_same _ ⟨rfl, rfl⟩
    · split
      · exact ok_of_same _ ⟨rfl, rfl⟩
      · split
        · exact ok_of_same _ (same_pushS s o)
        · exact ih.2.2.1 s o b b

/-- the `Procedure` case of the `recurseTail` loop, for any state -/
theorem ok_proc_case {m n : Nat} (ih : AllOk m n) (s' : State) (ref off len : Nat) (b c : Bool) :
    Ok s'
      (if b = true then
        if (len == 0) = true then okS s'
        else
          if (!c && decide (s'.execDepth ≥ execDepthLimit)) = true then psErrS s' "execstackoverflow"
          else
            leaveLevel c
              (match runBody n m (enterLevel c s') ref off 0 (len - 1) with
               | (s1, r) =>
                 (match r with
                  | .ok =>
                    match (s1.vm.getObjs ref)[off + (len - 1)]? with
                    | some last => execTail n m s1 last false true
                    | none => (s1, .err (.panic "procedure view outside its store"))
                  | _ => (s1, r) : State × Res))
      else okS (pushS s' (Obj.proc ref off len))) := by
  split
  · split
    · exact ok_of_same _ (Same.rfl' s')
    · split
      · exact ok_of_same _ (Same.rfl' s')
      · rename_i hd
        have body : ∀ s0 : State, Ok s0
            (match runBody n m s0 ref off 0 (len - 1) with
             | (s1, r) =>
               (match r with
                | .ok =>
                  match (s1.vm.getObjs ref)[off + (len - 1)]? with
                  | some last => execTail n m s1 last false true
                  | none => (s1, .err (.panic "procedure view outside its store"))
                | _ => (s1, r) : State × Res)) := by
          intro s0
          have g1 := ih.2.2.2.1 s0 ref off 0 (len - 1)
          generalize runBody n m s0 ref off 0 (len - 1) = p1 at g1
          obtain ⟨s1, r⟩ := p1
          simp only
          split
          · split
            · exact ok_seq g1 (ih.2.2.1 s1 _ false true)
            · exact ok_seq g1 (ok_of_same _ (Same.rfl' s1))
          · exact g1
        have g := body (enterLevel c s')
        revert g
        generalize (match runBody n m (enterLevel c s') ref off 0 (len - 1) with
             | (s1, r) =>
               (match r with
                | .ok =>
                  match (s1.vm.getObjs ref)[off + (len - 1)]? with
                  | some last => execTail n m s1 last false true
                  | none => (s1, .err (.panic "procedure view outside its store"))
                | _ => (s1, r) : State × Res)) = p
        intro g
        obtain ⟨s2, r2⟩ := p
        cases c
        · -- called by name: one more level
          simp only [Bool.not_false, Bool.true_and, decide_eq_true_eq] at hd
          simp only [enterLevel, Bool.false_eq_true, if_false] at g
          simp only [leaveLevel, Bool.false_eq_true, if_false]
          exact ok_level (by omega) g
        · simp only [enterLevel, if_true] at g
          simp only [leaveLevel, if_true]
          exact g
  · exact ok_of_same _ (same_pushS s' _)

theorem step_execTail {m n : Nat} (ih : AllOk m n) (s : State) (o : Obj) (b c : Bool) :
    Ok s (execTail (n + 1) m s o b c) := by
  unfold execTail
  dsimp only
  split
  · rename_i hl
    exact ok_limit s hl
  · rename_i hnl
    apply ok_incr hnl
    split
    · -- executable name
      generalize ({ s with numOps := s.numOps + 1 } : State) = s'
      split
      · exact ok_of_same _ (Same.rfl' s')
      · exact ih.2.2.1 s' _ true c
    · -- builtin
      rename_i id
      generalize ({ s with numOps := s.numOps + 1 } : State) = s'
      have g1 := ih.2.2.2.2.1 s' id
      generalize callBuiltin n m s' id = p1 at g1
      obtain ⟨s1, r⟩ := p1
      simp only
      split
      · rename_i name
        split
        · rename_i hl
          have hr : (Res.err (Err.ps name)) ≠ .err .limit := by simp
          apply ok_seq g1
          split
          · rename_i handler _
            have g3 := ih.1 { s1 with errors := name :: s1.errors, hiErrors := max s1.hiErrors (s1.errors.length + 1) } handler true
            generalize execOne n m { s1 with errors := name :: s1.errors, hiErrors := max s1.hiErrors (s1.errors.length + 1) } handler true = p3 at g3
            obtain ⟨s3, r3⟩ := p3
            exact ok_handler name g3 hl
          · have g3 : Ok { s1 with errors := name :: s1.errors, hiErrors := max s1.hiErrors (s1.errors.length + 1) }
                ({ s1 with errors := name :: s1.errors, hiErrors := max s1.hiErrors (s1.errors.length + 1) }, Res.err (Err.ps name)) :=
              ok_of_same _ (Same.rfl' _)
            exact ok_handler name g3 hl
        · exact g1
      · exact g1
    · -- procedure
      rename_i ref off len
      exact ok_proc_case ih _ ref off len b c
    · exact ok_of_same _ (same_pushS _ _)

theorem step_runBody {m n : Nat} (ih : AllOk m n) (s : State) (r o i t : Nat) :
    Ok s (runBody (n + 1) m s r o i t) := by
  cases t with
  | zero => simp only [runBody]; exact ok_of_same _ (Same.rfl' s)
  | succ t =>
    simp only [runBody]
    split
    · exact ok_of_same _ (Same.rfl' s)
    · rename_i tok _
      have g1 := ih.1 s tok false
      generalize execOne n m s tok false = p1 at g1
      obtain ⟨s1, r1⟩ := p1
      simp only
      split
      · exact ok_seq g1 (ih.2.2.2.1 s1 r o (i + 1) t)
      · exact g1

/-- the common shape of the looping operators: stop at `exit`, continue on `ok`, pass on
anything else -/
def loopResult (r1 : Res) (s1 : State) (next : State × Res) : State × Res :=
  match r1 with
  | .err .exit => okS s1
  | .ok => next
  | _ => (s1, r1)

theorem ok_loop {s s0 s1 : State} {r1 : Res} {next : State × Res}
    (hs : Same s s0) (g1 : Ok s0 (s1, r1)) (gn : Ok s1 next) :
    Ok s (loopResult r1 s1 next) := by
  unfold loopResult
  cases r1 with
  | ok => exact ok_start hs (ok_seq g1 gn)
  | fuel => exact ok_start hs g1
  | err e =>
    cases e with
    | exit => exact ok_start hs (ok_change_res _ g1 (by simp) (Same.rfl' s1))
    | _ => exact ok_start hs g1

theorem step_forLoop {m n : Nat} (ih : AllOk m n) (s : State) (v i l : Int) (p : Obj) :
    Ok s (forLoop (n + 1) m s v i l p) := by
  simp only [forLoop]
  split
  · exact ok_of_same _ (Same.rfl' s)
  · have g1 := ih.1 (pushS s (.int v)) p true
    generalize execOne n m (pushS s (.int v)) p true = p1 at g1
    obtain ⟨s1, r1⟩ := p1
    dsimp only
    refine ok_loop (same_pushS s _) g1 ?_
    split
    · exact ok_of_same _ (Same.rfl' s1)
    · exact ih.2.2.2.2.2.1 s1 _ i l p

theorem step_repeatLoop {m n : Nat} (ih : AllOk m n) (s : State) (k : Nat) (p : Obj) :
    Ok s (repeatLoop (n + 1) m s k p) := by
  cases k with
  | zero => simp only [repeatLoop]; exact ok_of_same _ (Same.rfl' s)
  | succ k =>
    simp only [repeatLoop]
    have g1 := ih.1 s p true
    generalize execOne n m s p true = p1 at g1
    obtain ⟨s1, r1⟩ := p1
    dsimp only
    exact ok_loop (Same.rfl' s) g1 (ih.2.2.2.2.2.2.1 s1 k p)

theorem step_loopLoop {m n : Nat} (ih : AllOk m n) (s : State) (p : Obj) :
    Ok s (loopLoop (n + 1) m s p) := by
  simp only [loopLoop]
  have g1 := ih.1 s p true
  generalize execOne n m s p true = p1 at g1
  obtain ⟨s1, r1⟩ := p1
  dsimp only
  exact ok_loop (Same.rfl' s) g1 (ih.2.2.2.2.2.2.2.1 s1 p)

theorem step_forallArr {m n : Nat} (ih : AllOk m n) (s : State) (r o i t : Nat) (p : Obj) :
    Ok s (forallArr (n + 1) m s r o i t p) := by
  cases t with
  | zero => simp only [forallArr]; exact ok_of_same _ (Same.rfl' s)
  | succ t =>
    simp only [forallArr]
    split
    · exact ok_of_same _ (Same.rfl' s)
    · rename_i v _
      have g1 := ih.1 (pushS s v) p true
      generalize execOne n m (pushS s v) p true = p1 at g1
      obtain ⟨s1, r1⟩ := p1
      dsimp only
      exact ok_loop (same_pushS s _) g1 (ih.2.2.2.2.2.2.2.2.1 s1 r o (i + 1) t p)

theorem step_forallStr {m n : Nat} (ih : AllOk m n) (s : State) (r o i t : Nat) (p : Obj) :
    Ok s (forallStr (n + 1) m s r o i t p) := by
  cases t with
  | zero => simp only [forallStr]; exact ok_of_same _ (Same.rfl' s)
  | succ t =>
    simp only [forallStr]
    split
    · exact ok_of_same _ (Same.rfl' s)
    · rename_i c _
      have g1 := ih.1 (pushS s (.int c.toNat)) p true
      generalize execOne n m (pushS s (.int c.toNat)) p true = p1 at g1
      obtain ⟨s1, r1⟩ := p1
      dsimp only
      exact ok_loop (same_pushS s _) g1 (ih.2.2.2.2.2.2.2.2.2.1 s1 r o (i + 1) t p)

theorem step_forallDict {m n : Nat} (ih : AllOk m n) (s : State) (d : Nat) (ks : List Name) (p : Obj) :
    Ok s (forallDict (n + 1) m s d ks p) := by
  cases ks with
  | nil => simp only [forallDict]; exact ok_of_same _ (Same.rfl' s)
  | cons k ks =>
    simp only [forallDict]
    split
    · exact ih.2.2.2.2.2.2.2.2.2.2.1 s d ks p
    · rename_i v _
      have g1 := ih.1 (setStack s (v :: .name k :: s.vm.stack)) p true
      generalize execOne n m (setStack s (v :: .name k :: s.vm.stack)) p true = p1 at g1
      obtain ⟨s1, r1⟩ := p1
      dsimp only
      exact ok_loop (same_setStack s _) g1 (ih.2.2.2.2.2.2.2.2.2.2.1 s1 d ks p)

theorem step_scanLoop {m n : Nat} (ih : AllOk m n) (s : State) : Ok s (scanLoop (n + 1) m s) := by
  simp only [scanLoop]
  have hs1 := ok_withScanner nf_scanToken s
  generalize withScanner s Scan.scanToken = p0 at hs1
  obtain ⟨s1, r0⟩ := p0
  dsimp only at hs1 ⊢
  split
  · intro hc
    exact ⟨hs1.1.trans hc, fun hj => ⟨(hs1.2 hj).1, by simp [okS]⟩⟩
  · intro hc
    refine ⟨hs1.1.trans hc, fun hj => ⟨(hs1.2 hj).1, ?_⟩⟩
    intro h; cases h; exact (hs1.2 hj).2 rfl
  · rename_i tok
    have g1 : Ok s (s1, .ok) := fun hc => ⟨hs1.1.trans hc, fun hj => ⟨(hs1.2 hj).1, by simp⟩⟩
    have hs2 := same_objOfTok s1 tok
    generalize objOfTok s1 tok = p2 at hs2
    obtain ⟨s2, o⟩ := p2
    dsimp only
    have g3 := ih.1 s2 o false
    generalize execOne n m s2 o false = p3 at g3
    obtain ⟨s3, r3⟩ := p3
    dsimp only
    split
    · exact ok_seq g1 (ok_start hs2 (ok_seq g3 (ih.2.2.2.2.2.2.2.2.2.2.2.2 s3)))
    · exact ok_seq g1 (ok_start hs2 g3)

/-- `scanRun` with the start check off -/
theorem scanRun_off (n m : Nat) (s : State) (hc : s.checkStart = false) :
    scanRun (n + 1) m s =
      ({ (scanLoop n m { s with scannerDepth := s.scannerDepth + 1 }).1 with
          scannerDepth := (scanLoop n m { s with scannerDepth := s.scannerDepth + 1 }).1.scannerDepth - 1 },
        (scanLoop n m { s with scannerDepth := s.scannerDepth + 1 }).2) := by
  simp only [scanRun, hc, Bool.false_eq_true, if_false]

theorem step_scanRun {m n : Nat} (ih : AllOk m n) (s : State) : Ok s (scanRun (n + 1) m s) := by
  intro hc
  rw [scanRun_off n m s hc]
  have g := ih.2.2.2.2.2.2.2.2.2.2.2.2 { s with scannerDepth := s.scannerDepth + 1 }
  generalize scanLoop n m { s with scannerDepth := s.scannerDepth + 1 } = p at g
  obtain ⟨s2, r⟩ := p
  exact (ok_start (s0 := s) ⟨rfl, rfl⟩ (ok_end g ⟨rfl, rfl⟩)) hc

theorem readstringCore_noPS (vm : VM) (sc : Scanner) (d : Nat) (hj : J sc) :
    J (readstringCore vm sc d).2.1 ∧ (readstringCore vm sc d).2.2 ≠ .err .noPS := by
  unfold readstringCore
  split
  · split
    · dsimp only
      split
      · exact ⟨hj, by simp⟩
      · have f1 := nf_next sc hj
        generalize Scan.next sc = p1 at f1
        obtain ⟨r1, sc2⟩ := p1
        dsimp only at f1 ⊢
        have hj2 : J sc2 := by cases r1 <;> exact f1.1
        split
        · rename_i e heq
          refine ⟨hj2, ?_⟩
          split at heq
          · cases heq
          · cases heq
            intro h; cases h; exact f1.2 rfl
          · cases heq
        · rename_i l _ _ _ _
          have g1 := nf_readN l [] sc2 hj2
          generalize readN l [] sc2 = p2 at g1
          obtain ⟨r2, sc3⟩ := p2
          dsimp only at g1 ⊢
          cases r2 with
          | error e =>
            dsimp only
            exact ⟨g1.1, by intro h; cases h; exact g1.2 rfl⟩
          | ok pr =>
            obtain ⟨bytes, eo⟩ := pr
            dsimp only
            split
            · rename_i e heq2
              refine ⟨g1.1, ?_⟩
              split at heq2
              · cases heq2
              · cases heq2
                intro h; cases h; exact g1.2 _ rfl rfl
              · cases heq2
            · exact ⟨g1.1, by simp⟩
    · exact ⟨hj, by simp⟩
  · exact ⟨hj, by simp⟩

theorem ok_readstring (s : State) : Ok s (bReadstring s) := by
  intro hc
  exact ⟨hc, fun hj => readstringCore_noPS s.vm s.scanner s.scannerDepth hj⟩

theorem step_callBuiltin {m n : Nat} (ih : AllOk m n) (s : State) (id : String) :
    Ok s (callBuiltin (n + 1) m s id) := by
  unfold callBuiltin
  split
  · -- exec
    repeat' split
    all_goals first
      | exact ok_of_same _ (Same.rfl' s)
      | exact ok_of_same _ (same_setStack s _)
      | exact ok_start (same_setStack s _) (ih.2.2.2.2.1 _ _)
      | exact ok_start (same_setStack s _) (ih.1 _ _ _)
  · -- if
    repeat' split
    all_goals first
      | exact ok_of_same _ (Same.rfl' s)
      | exact ok_of_same _ (same_setStack s _)
      | exact ok_start (same_setStack s _) (ih.1 _ _ _)
  · -- ifelse
    repeat' split
    all_goals first
      | exact ok_of_same _ (Same.rfl' s)
      | exact ok_start (same_setStack s _) (ih.1 _ _ _)
  · -- for
    repeat' split
    all_goals first
      | exact ok_of_same _ (Same.rfl' s)
      | exact ok_start (same_setStack s _) (ih.2.2.2.2.2.1 _ _ _ _ _)
  · -- repeat
    repeat' split
    all_goals first
      | exact ok_of_same _ (Same.rfl' s)
      | exact ok_start (same_setStack s _) (ih.2.2.2.2.2.2.1 _ _ _)
  · -- loop
    repeat' split
    all_goals first
      | exact ok_of_same _ (Same.rfl' s)
      | exact ok_start (same_setStack s _) (ih.2.2.2.2.2.2.2.1 _ _)
  · -- forall
    repeat' split
    all_goals first
      | exact ok_of_same _ (Same.rfl' s)
      | exact ok_start (same_setStack s _) (ih.2.2.2.2.2.2.2.2.1 _ _ _ _ _ _)
      | exact ok_start (same_setStack s _) (ih.2.2.2.2.2.2.2.2.2.1 _ _ _ _ _ _)
      | exact ok_start (same_setStack s _) (ih.2.2.2.2.2.2.2.2.2.2.1 _ _ _ _)
  · exact ok_readstring s
  · exact ok_defaultErrorHandler s
  · -- eexec
    split
    · exact ok_of_same _ (Same.rfl' s)
    · rename_i rest _
      dsimp only
      split
      · exact ok_of_same _ ⟨rfl, rfl⟩
      · generalize hs1 : ({ s with vm := pushDict { s.vm with stack := rest } s.vm.roots.systemDict } : State) = s1
        have h1 : Same s s1 := by subst hs1; exact ⟨rfl, rfl⟩
        have h2 := ok_withScanner nf_beginEexec s1
        generalize withScanner s1 Scan.beginEexec = p2 at h2
        obtain ⟨s2, r2⟩ := p2
        dsimp only at h2 ⊢
        refine ok_start h1 ?_
        split
        · rename_i e
          intro hc
          refine ⟨h2.1.trans hc, fun hj => ⟨(h2.2 hj).1, ?_⟩⟩
          intro h; cases h; exact (h2.2 hj).2 rfl
        · have g2 : Ok s1 (s2, .ok) := fun hc => ⟨h2.1.trans hc, fun hj => ⟨(h2.2 hj).1, by simp⟩⟩
          refine ok_seq g2 ?_
          have g3 := ih.2.2.2.2.2.2.2.2.2.2.2.1 s2
          generalize scanRun n m s2 = p3 at g3
          obtain ⟨s3, r3⟩ := p3
          dsimp only
          have gend : Ok s3 (okS { (withScanner s3 Scan.endEexec).1 with
              vm := truncDictStack (withScanner s3 Scan.endEexec).1.vm s.vm.dictStack.length }) := by
            have h4 := ok_withScanner nf_endEexec s3
            intro hc
            exact ⟨h4.1.trans hc, fun hj => ⟨(h4.2 hj).1, by simp [okS]⟩⟩
          split
          · exact ok_seq g3 gend
          · exact ok_seq g3 gend
          · exact ok_end g3 ⟨rfl, rfl⟩
    · exact ok_of_same _ (Same.rfl' s)
  · -- operators without re-entry
    split
    · rename_i v r hp
      exact ok_of_same _ (same_vm s _) (pure_noPS _ _ _ hp)
    · exact ok_of_same _ (Same.rfl' s)

/-- **all functions of the mutual block satisfy the control invariant, for every fuel** -/
theorem allOk (m : Nat) : ∀ fuel, AllOk m fuel := by
  intro fuel
  induction fuel with
  | zero => exact allOk_zero m
  | succ n ih =>
    exact ⟨step_execOne ih, step_execBody ih, step_execTail ih, step_runBody ih, step_callBuiltin ih,
      step_forLoop ih, step_repeatLoop ih, step_loopLoop ih, step_forallArr ih, step_forallStr ih,
      step_forallDict ih, step_scanRun ih, step_scanLoop ih⟩


end PsVerif.Proofs.C11Start
