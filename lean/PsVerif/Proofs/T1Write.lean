import PsVerif.Model.T1Write
import PsVerif.Props.Cipher
import PsVerif.Proofs.PFBRefine
import PsVerif.Proofs.EexecStream
import PsVerif.Proofs.AFM
import PsVerif.Props.C20
/-!
Proofs about the Type 1 writer model (`PsVerif.Model.T1Write`), used by `PsVerif.Props.C08`.

* outcomes: `writeFont_ok`, `writePDF_ok` (what `ok` means), `Writable`;
* PFB framing: `assemble_pfb_frame` (the output is `PFBRefine.frame` of three segments plus the end marker);
* cipher: `cipherPart_decrypt`, `cipherPart_head` (first cipher byte is `X`), `cipherPart_binaryLegal`;
* hex lines: `hexGo_filter` (without the line feeds the text is `hexLower`), `hexGo_line` / `hexGo_full_line`
  (39 bytes per line), `hexGo_hexTail` (a legal hex layout in the sense of C05);
* charstrings: `ivSearch_eq` (the lead bytes are always `32 0 0 0`), `obfGlyph_deobf`, `charStrings_sorted`,
  `mem_charStrings`, `csEntry_shape`, `csBytes_toNat`;
* trailer: `sectionC_eq`.
-/
namespace PsVerif.Proofs.T1Write
open PsVerif.Model PsVerif.Model.T1Write PsVerif.Model.Cipher
set_option linter.unusedVariables false
set_option linter.unusedSimpArgs false

/-! ## outcomes -/

theorem writeFont_ok (f : Font) (fmt : Format) (out : Bytes) :
    writeFont f fmt = .ok out ↔ (nameError f = false ∧ supported f = true ∧ out = assemble f fmt) := by
  unfold writeFont
  cases h1 : nameError f <;> cases h2 : supported f <;> simp
  exact eq_comm

theorem writePDF_ok (f : Font) (out : Bytes) (l1 l2 : Nat) :
    writePDF f = .ok (out, l1, l2) ↔
      (nameError f = false ∧ supported f = true ∧ out = sectionA f true ++ cipherPart f ∧
        l1 = (sectionA f true).length ∧ l2 = (cipherPart f).length) := by
  unfold writePDF
  cases h1 : nameError f <;> cases h2 : supported f <;> simp
  constructor
  · rintro ⟨a, b, c⟩; exact ⟨a.symm, b.symm, c.symm⟩
  · rintro ⟨a, b, c⟩; exact ⟨a.symm, b.symm, c.symm⟩

theorem writeFont_error (f : Font) (fmt : Format) :
    writeFont f fmt = .error .error ↔ nameError f = true := by
  unfold writeFont
  cases h1 : nameError f <;> cases h2 : supported f <;> simp

/-! ## PFB framing -/

open PsVerif.Proofs.PFBRefine in
theorem le32_eq (n : Nat) (h : n < 4294967296) : le32 n = le32bytes n := by
  unfold le32 le32bytes
  rw [Nat.mod_eq_of_lt h]

open PsVerif.Proofs.PFBRefine in
theorem assemble_pfb_frame (f : Font)
    (hA : (sectionA f true).length < 4294967296) (hC : (cipherPart f).length < 4294967296)
    (hT : (sectionC true).length < 4294967296) :
    assemble f .pfb =
      frame [⟨1, sectionA f true⟩, ⟨2, cipherPart f⟩, ⟨1, sectionC true⟩] ++ [0x80, 3] := by
  simp only [assemble, pfbSegment, frame, le32_eq _ hA, le32_eq _ hC, le32_eq _ hT]
  have e1 : UInt8.ofNat 1 = 1 := by decide
  have e2 : UInt8.ofNat 2 = 2 := by decide
  simp [e1, e2]

/-! ## the eexec section -/

theorem eexecIV_eq : eexecIV = [0x81, 0, 0, 0] := by decide

theorem cipherPart_decrypt (f : Font) : decrypt eexecR (cipherPart f) = eexecIV ++ sectionB f true := by
  unfold cipherPart eexecEncrypt
  exact PsVerif.Props.Cipher.dec_enc _ _

theorem cipherPart_length (f : Font) : (cipherPart f).length = 4 + (sectionB f true).length := by
  unfold cipherPart eexecEncrypt
  rw [PsVerif.Props.Cipher.encrypt_length, List.length_append, eexecIV_eq]
  rfl

/-- the cipher text starts with `X` and has at least four bytes -/
theorem eexecEncrypt_head (plain : Bytes) : ∃ b c d t, eexecEncrypt plain = 88 :: b :: c :: d :: t := by
  unfold eexecEncrypt
  rw [eexecIV_eq]
  simp only [List.cons_append, List.nil_append, encrypt]
  refine ⟨_, _, _, _, rfl⟩

theorem cipherPart_head (f : Font) : ∃ b c d t, cipherPart f = 88 :: b :: c :: d :: t :=
  eexecEncrypt_head _

open PsVerif.Proofs.EexecStream in
/-- the binary form is legal in the sense of C05: first byte no white space, first four not all hex digits -/
theorem cipherPart_binaryLegal (f : Font) : BinaryLegal (cipherPart f) := by
  obtain ⟨b, c, d, t, h⟩ := cipherPart_head f
  rw [h]
  constructor
  · intro x hx
    simp at hx
    subst hx
    decide
  · have : Scan.isHexDigit 88 = false := by decide
    simp [this]

/-! ## hex lines (`hexWriter`) -/

open PsVerif.Proofs.EexecStream in
theorem hexDigits_facts (c : UInt8) :
    PFB.hexEncode (c >>> 4) ≠ 10 ∧ PFB.hexEncode (c &&& 0x0f) ≠ 10 ∧
    Scan.hexNibble (PFB.hexEncode (c >>> 4)) = some (c >>> 4) ∧
    Scan.hexNibble (PFB.hexEncode (c &&& 0x0f)) = some (c &&& 15) ∧
    Scan.isHexDigit (PFB.hexEncode (c >>> 4)) = true ∧ Scan.isHexDigit (PFB.hexEncode (c &&& 0x0f)) = true := by
  revert c
  apply forall_uint8
  decide +kernel

/-- without the line feeds, the text is the lower-case hexadecimal of the bytes -/
theorem hexGo_filter (cs : Bytes) : ∀ n, (hexGo n cs).filter (fun b => b != 10) = PFB.hexLower cs := by
  induction cs with
  | nil => intro n; unfold hexGo; split <;> simp [PFB.hexLower]
  | cons c cs ih =>
    intro n
    obtain ⟨h1, h2, _⟩ := hexDigits_facts c
    unfold hexGo
    simp only [PFB.hexLower]
    rw [List.filter_cons_of_pos (by simpa using h1), List.filter_cons_of_pos (by simpa using h2)]
    split
    · rw [List.filter_cons_of_neg (by simp), ih]
    · rw [ih]

/-- a line that is not full: the hex digits and one line feed (`Close`) -/
theorem hexGo_line (a : Bytes) : ∀ n, n + 2 * a.length < 78 → (n ≠ 0 ∨ a ≠ []) →
    hexGo n a = PFB.hexLower a ++ [10] := by
  induction a with
  | nil =>
    intro n _ h0
    have : n ≠ 0 := by rcases h0 with h | h; exact h; exact absurd rfl h
    simp [hexGo, PFB.hexLower, this]
  | cons c a ih =>
    intro n hn _
    simp only [List.length_cons] at hn
    unfold hexGo
    have : ¬ (n + 2 ≥ 78) := by omega
    simp only [this, if_false, PFB.hexLower, List.cons_append]
    rw [ih (n + 2) (by omega) (Or.inl (by omega))]

/-- a line is flushed as soon as it holds 78 digits (39 bytes) -/
theorem hexGo_full_line (a b : Bytes) : ∀ n, n + 2 * a.length = 78 → a ≠ [] →
    hexGo n (a ++ b) = PFB.hexLower a ++ 10 :: hexGo 0 b := by
  induction a with
  | nil => intro n _ h; exact absurd rfl h
  | cons c a ih =>
    intro n hn _
    simp only [List.length_cons] at hn
    simp only [List.cons_append]
    conv => lhs; unfold hexGo
    cases a with
    | nil =>
      have : n + 2 ≥ 78 := by simp at hn; omega
      simp [this, PFB.hexLower]
    | cons c' a' =>
      have : ¬ (n + 2 ≥ 78) := by simp at hn; omega
      simp only [this, if_false, PFB.hexLower, List.cons_append]
      have := ih (n + 2) (by simp at hn ⊢; omega) (by simp)
      simp only [List.cons_append, PFB.hexLower] at this
      rw [this]

open PsVerif.Proofs.EexecStream in
theorem hexTail_ws_cons {cs t : Bytes} (c : UInt8) (h : HexTail (c :: cs) t) : HexTail (c :: cs) (10 :: t) := by
  cases h with
  | cons hs ht =>
    rename_i t1 ts
    obtain ⟨w1, hh, w2, l, e, hw1, hw2, n1, n2⟩ := hs
    have : SpellsByte c (10 :: t1) := by
      refine ⟨10 :: w1, hh, w2, l, by rw [e]; rfl, ?_, hw2, n1, n2⟩
      intro b hb
      simp at hb
      rcases hb with hb | hb
      · subst hb; decide
      · exact hw1 b hb
    exact HexTail.cons this ht

open PsVerif.Proofs.EexecStream in
theorem spells_pair (c : UInt8) : SpellsByte c [PFB.hexEncode (c >>> 4), PFB.hexEncode (c &&& 0x0f)] := by
  obtain ⟨_, _, h3, h4, _⟩ := hexDigits_facts c
  exact ⟨[], _, [], _, rfl, by intro b hb; simp at hb, by intro b hb; simp at hb, h3, h4⟩

open PsVerif.Proofs.EexecStream in
/-- what `hexWriter` emits is a hex spelling of the bytes in the sense of C05 (line feeds in front of digits only),
followed by one line feed -/
theorem hexGo_hexTail (cs : Bytes) : ∀ n, (n ≠ 0 ∨ cs ≠ []) → ∃ t, hexGo n cs = t ++ [10] ∧ HexTail cs t := by
  induction cs with
  | nil =>
    intro n h0
    have : n ≠ 0 := by rcases h0 with h | h; exact h; exact absurd rfl h
    exact ⟨[], by simp [hexGo, this], HexTail.nil⟩
  | cons c cs ih =>
    intro n _
    unfold hexGo
    split
    · cases cs with
      | nil =>
        refine ⟨[PFB.hexEncode (c >>> 4), PFB.hexEncode (c &&& 0x0f)], by simp [hexGo], ?_⟩
        have := HexTail.cons (spells_pair c) HexTail.nil
        simpa using this
      | cons c' cs' =>
        obtain ⟨t, e, ht⟩ := ih 0 (Or.inr (by simp))
        refine ⟨[PFB.hexEncode (c >>> 4), PFB.hexEncode (c &&& 0x0f)] ++ (10 :: t), by rw [e]; simp, ?_⟩
        exact HexTail.cons (spells_pair c) (hexTail_ws_cons c' ht)
    · obtain ⟨t, e, ht⟩ := ih (n + 2) (Or.inl (by omega))
      refine ⟨[PFB.hexEncode (c >>> 4), PFB.hexEncode (c &&& 0x0f)] ++ t, by rw [e]; simp, ?_⟩
      exact HexTail.cons (spells_pair c) ht

open PsVerif.Proofs.EexecStream in
/-- the PFA form of the eexec section is a legal hexadecimal layout in the sense of C05, followed by a line feed -/
theorem hexGo_hexLayout (c1 c2 : UInt8) (r : Bytes) :
    ∃ t, hexGo 0 (c1 :: c2 :: r) = t ++ [10] ∧ HexLayout (c1 :: c2 :: r) t := by
  obtain ⟨t, e, ht⟩ := hexGo_hexTail r 4 (Or.inl (by decide))
  obtain ⟨_, _, _, _, d1, d2⟩ := hexDigits_facts c1
  obtain ⟨_, _, _, _, d3, d4⟩ := hexDigits_facts c2
  refine ⟨[PFB.hexEncode (c1 >>> 4), PFB.hexEncode (c1 &&& 0x0f)] ++
      ([PFB.hexEncode (c2 >>> 4), PFB.hexEncode (c2 &&& 0x0f)] ++ t), ?_, ?_, ?_⟩
  · simp [hexGo, e]
  · exact HexTail.cons (spells_pair c1) (HexTail.cons (spells_pair c2) ht)
  · simp [d1, d2, d3, d4]

/-! ## charstrings: the lead-byte search -/

/-- the test of the search loop looks at the four lead bytes only -/
theorem csAccept_obf (a b c d : UInt8) (cs : Bytes) :
    csAccept (obfuscate [a, b, c, d] cs) = csAccept (encrypt charstringR [a, b, c, d]) := by
  simp [obfuscate, encrypt, csAccept]

theorem acc_false : ∀ k, k < 32 → csAccept (encrypt charstringR [UInt8.ofNat k, 0, 0, 0]) = false := by
  decide +kernel

theorem acc_true : csAccept (encrypt charstringR [32, 0, 0, 0]) = true := by decide +kernel

theorem next_iv : ∀ k, k < 32 → nextIV [UInt8.ofNat k, 0, 0, 0] = [UInt8.ofNat (k + 1), 0, 0, 0] := by
  decide +kernel

theorem search_from (cs : Bytes) : ∀ (d k fuel : Nat), k + d = 32 → d < fuel →
    ivSearch fuel [UInt8.ofNat k, 0, 0, 0] cs = obfuscate [32, 0, 0, 0] cs := by
  intro d
  induction d with
  | zero =>
    intro k fuel hk hf
    have hk' : k = 32 := by omega
    subst hk'
    cases fuel with
    | zero => omega
    | succ fuel =>
      unfold ivSearch
      have e : (UInt8.ofNat 32) = 32 := by decide
      simp only [e, csAccept_obf, acc_true, if_true]
  | succ d ih =>
    intro k fuel hk hf
    cases fuel with
    | zero => omega
    | succ fuel =>
      unfold ivSearch
      simp only [csAccept_obf, acc_false k (by omega), next_iv k (by omega)]
      exact ih (k + 1) fuel (by omega) (by omega)

/-- **the lead bytes are always `32 0 0 0`** (first cipher byte `0`): the search of `encodeCharstrings` ends after
33 iterations whatever the charstring is -/
theorem ivSearch_eq (cs : Bytes) : ivSearch 256 [0, 0, 0, 0] cs = obfuscate [32, 0, 0, 0] cs :=
  search_from cs 32 0 256 rfl (by decide)

theorem obfGlyph_eq (g : Glyph) : obfGlyph g = obfuscate [32, 0, 0, 0] (csBytes g) := ivSearch_eq _

/-- deobfuscating an entry with `lenIV = 4` gives the charstring -/
theorem obfGlyph_deobf (g : Glyph) : deobfuscate (obfGlyph g) 4 = some (csBytes g) := by
  rw [obfGlyph_eq]
  exact PsVerif.Props.Cipher.deobf_obf [32, 0, 0, 0] (csBytes g)

theorem obfGlyph_length (g : Glyph) : (obfGlyph g).length = 4 + (csBytes g).length := by
  rw [obfGlyph_eq, obfuscate, PsVerif.Props.Cipher.encrypt_length]
  simp
  omega

/-! ## charstrings: order and contents of the dictionary -/

theorem nameLe_total : ∀ a b : Bytes, (nameLe a b || nameLe b a) = true := by
  intro a
  induction a with
  | nil => intro b; simp [nameLe]
  | cons x a ih =>
    intro b
    cases b with
    | nil => simp [nameLe]
    | cons y b =>
      have := ih b
      simp only [nameLe, Bool.or_eq_true, Bool.and_eq_true, decide_eq_true_eq, beq_iff_eq] at this ⊢
      rcases Nat.lt_trichotomy x.toNat y.toNat with h | h | h
      · exact Or.inl (Or.inl (UInt8.lt_iff_toNat_lt.mpr h))
      · have e : x = y := UInt8.toNat_inj.mp h
        subst e
        rcases this with t | t
        · exact Or.inl (Or.inr ⟨rfl, t⟩)
        · exact Or.inr (Or.inr ⟨rfl, t⟩)
      · exact Or.inr (Or.inl (UInt8.lt_iff_toNat_lt.mpr h))

theorem nameLe_trans : ∀ a b c : Bytes, nameLe a b = true → nameLe b c = true → nameLe a c = true := by
  intro a
  induction a with
  | nil => intro b c _ _; simp [nameLe]
  | cons x a ih =>
    intro b c h1 h2
    cases b with
    | nil => simp [nameLe] at h1
    | cons y b =>
      cases c with
      | nil => simp [nameLe] at h2
      | cons z c =>
        simp only [nameLe, Bool.or_eq_true, Bool.and_eq_true, decide_eq_true_eq, beq_iff_eq] at h1 h2 ⊢
        rcases h1 with h1 | ⟨e1, h1⟩
        · rcases h2 with h2 | ⟨e2, h2⟩
          · exact Or.inl (UInt8.lt_trans h1 h2)
          · subst e2; exact Or.inl h1
        · subst e1
          rcases h2 with h2 | ⟨e2, h2⟩
          · exact Or.inl h2
          · subst e2; exact Or.inr ⟨rfl, ih b c h1 h2⟩

theorem insertG_perm (p : Bytes × T1Write.Glyph) : ∀ l, (insertG p l).Perm (p :: l) := by
  intro l
  induction l with
  | nil => exact List.Perm.refl _
  | cons q r ih =>
    unfold insertG
    split
    · exact List.Perm.refl _
    · exact ((List.Perm.cons q ih).trans (List.Perm.swap p q r))

theorem sortGlyphs_perm : ∀ l, (sortGlyphs l).Perm l := by
  intro l
  induction l with
  | nil => exact List.Perm.refl _
  | cons p r ih =>
    unfold sortGlyphs
    exact (insertG_perm p _).trans (List.Perm.cons p ih)

theorem insertG_sorted (p : Bytes × T1Write.Glyph) : ∀ l, l.Pairwise (fun a b => nameLe a.1 b.1 = true) →
    (insertG p l).Pairwise (fun a b => nameLe a.1 b.1 = true) := by
  intro l
  induction l with
  | nil => intro _; simp [insertG]
  | cons q r ih =>
    intro h
    rw [List.pairwise_cons] at h
    unfold insertG
    split
    · rename_i hle
      rw [List.pairwise_cons]
      refine ⟨?_, List.pairwise_cons.mpr h⟩
      intro x hx
      rcases List.mem_cons.mp hx with hx | hx
      · subst hx; exact hle
      · exact nameLe_trans _ _ _ hle (h.1 x hx)
    · rename_i hle
      rw [List.pairwise_cons]
      refine ⟨?_, ih h.2⟩
      intro x hx
      rcases List.mem_cons.mp ((insertG_perm p r).mem_iff.mp hx) with hx | hx
      · subst hx
        have := nameLe_total x.1 q.1
        simp only [Bool.or_eq_true] at this
        rcases this with t | t
        · exact absurd t hle
        · exact t
      · exact h.1 x hx

theorem sortGlyphs_sorted : ∀ l, (sortGlyphs l).Pairwise (fun a b => nameLe a.1 b.1 = true) := by
  intro l
  induction l with
  | nil => simp [sortGlyphs]
  | cons p r ih => unfold sortGlyphs; exact insertG_sorted p _ ih

/-- the entries are visited in sorted name order (bytewise, as Go compares strings) -/
theorem charStrings_sorted (f : Font) :
    ((charStrings f).map (·.1)).Pairwise (fun a b => nameLe a b = true) := by
  unfold charStrings
  rw [List.map_map, List.pairwise_map]
  exact sortGlyphs_sorted f.glyphs

/-- the names written are the glyph names, each as often as it occurs in the font (once) -/
theorem charStrings_names_perm (f : Font) : ((charStrings f).map (·.1)).Perm (f.glyphs.map (·.1)) := by
  unfold charStrings
  rw [List.map_map]
  exact (sortGlyphs_perm f.glyphs).map _

/-- every entry is the obfuscated charstring of the glyph of that name, and every glyph has its entry -/
theorem mem_charStrings (f : Font) (e : Bytes × Bytes) :
    e ∈ charStrings f ↔ ∃ g, (e.1, g) ∈ f.glyphs ∧ e.2 = obfGlyph g := by
  unfold charStrings
  simp only [List.mem_map]
  constructor
  · rintro ⟨p, hp, rfl⟩
    exact ⟨p.2, (sortGlyphs_perm f.glyphs).mem_iff.mp hp, rfl⟩
  · rintro ⟨g, hg, he⟩
    refine ⟨(e.1, g), (sortGlyphs_perm f.glyphs).mem_iff.mpr hg, ?_⟩
    cases e
    simp at he ⊢
    exact he.symm

theorem charStrings_length (f : Font) : (charStrings f).length = f.glyphs.length := by
  unfold charStrings
  rw [List.length_map]
  exact (sortGlyphs_perm f.glyphs).length_eq

/-! ## the template texts around a charstring, and the trailer -/

theorem piece58 : piece 58 = [32] := by decide +kernel
theorem piece59 : piece 59 = [32, 82, 68, 32] := by decide +kernel            -- " RD "
theorem piece60 : piece 60 = [32, 78, 68, 10] := by decide +kernel            -- " ND\n"

/-- `/name n RD <bytes> ND` + line feed, `n` the decimal byte count -/
theorem csEntry_shape (name obf : Bytes) :
    csEntry (name, obf) = 47 :: name ++ [32] ++ decN obf.length ++ [32, 82, 68, 32] ++ obf ++ [32, 78, 68, 10] := by
  unfold csEntry
  rw [piece58, piece59, piece60]
  rfl

/-- the decimal number in an entry reads back as the byte count -/
theorem decN_reads_back (n : Nat) : AFM.parseNat ((decN n).map UInt8.toNat) = n := by
  unfold decN ofNats
  rw [List.map_map]
  have h : ∀ l : List Nat, (∀ b ∈ l, b < 256) → l.map (UInt8.toNat ∘ UInt8.ofNat) = l := by
    intro l hl
    induction l with
    | nil => rfl
    | cons a l ih =>
      simp only [List.map_cons, Function.comp]
      rw [ih (fun b hb => hl b (List.mem_cons_of_mem _ hb))]
      have : a < 256 := hl a (List.mem_cons_self)
      simp [UInt8.toNat_ofNat', Nat.mod_eq_of_lt this]
  rw [h]
  · exact PsVerif.Proofs.AFM.parseNat_decNat n
  · intro b hb
    have := PsVerif.Proofs.AFM.decNat_digits n b hb
    simp [AFM.isDigit] at this
    omega

def zeros64 : Bytes := List.replicate 64 48 ++ [10]

/-- the trailer: eight lines of 64 zeros and `cleartomark` -/
theorem sectionC_eq : sectionC true =
    zeros64 ++ zeros64 ++ zeros64 ++ zeros64 ++ zeros64 ++ zeros64 ++ zeros64 ++ zeros64 ++
      [99, 108, 101, 97, 114, 116, 111, 109, 97, 114, 107, 10] := by decide +kernel

theorem sectionC_length : (sectionC true).length = 532 := by decide +kernel

theorem sectionC_false : sectionC false = [] := rfl

/-- `currentfile eexec` + line feed ends the clear text -/
theorem piece24 : piece 24 = [99, 117, 114, 114, 101, 110, 116, 102, 105, 108, 101, 32, 101, 101, 120, 101, 99, 10] := by
  decide +kernel

theorem sectionA_eexec (f : Font) : sectionA f true = sectionA f false ++ piece 24 := by
  unfold sectionA sectionABody
  simp

/-- `mark currentfile closefile` + line feed ends the encrypted text -/
theorem piece62 : piece 62 = [109, 97, 114, 107, 32, 99, 117, 114, 114, 101, 110, 116, 102, 105, 108, 101, 32,
    99, 108, 111, 115, 101, 102, 105, 108, 101, 10] := by decide +kernel

theorem sectionB_eexec (f : Font) : sectionB f true = sectionB f false ++ piece 62 := by
  unfold sectionB privateTail
  simp

/-! ## the header comments -/

theorem piece1 : piece 1 = [37, 33, 70, 111, 110, 116, 84, 121, 112, 101, 49, 45, 49, 46, 49, 58, 32] := by
  decide +kernel                                                                  -- "%!FontType1-1.1: "
theorem piece2 : piece 2 = [32] := by decide +kernel
theorem piece3 : piece 3 = [10] := by decide +kernel
theorem piece4 : piece 4 = [37, 37, 67, 114, 101, 97, 116, 105, 111, 110, 68, 97, 116, 101, 58, 32] := by
  decide +kernel                                                                  -- "%%CreationDate: "
theorem piece5 : piece 5 = [10] := by decide +kernel
/-- the dictionary part starts with `10 dict begin` + line feed -/
theorem piece6_head : (piece 6).take 14 = [49, 48, 32, 100, 105, 99, 116, 32, 98, 101, 103, 105, 110, 10] := by
  decide +kernel

/-- what `L` returns contains no line feed, carriage return or form feed -/
theorem oneLine_no_break (s : Bytes) : ∀ b ∈ oneLine s, isBreak b = false := by
  intro b hb
  unfold oneLine at hb
  obtain ⟨c, _, rfl⟩ := List.mem_map.mp hb
  by_cases h : isBreak c = true
  · simp only [h, if_true]; decide
  · simp only [h]; simpa using h

/-- a regular character is no line end -/
theorem regular_no_break : ∀ b : UInt8, Scan.isRegular b = true → isBreak b = false := by
  apply PsVerif.Proofs.EexecStream.forall_uint8
  decide +kernel

theorem name_no_break (n : Bytes) (h : Ser.namePSPanics n = false) : ∀ b ∈ n, isBreak b = false := by
  intro b hb
  unfold Ser.namePSPanics at h
  simp only [Bool.not_eq_false', List.all_eq_true] at h
  exact regular_no_break b (h b hb)

theorem piece1_no_break : ∀ b ∈ piece 1, isBreak b = false := by rw [piece1]; decide
theorem piece2_no_break : ∀ b ∈ piece 2, isBreak b = false := by rw [piece2]; decide
theorem piece4_no_break : ∀ b ∈ piece 4, isBreak b = false := by rw [piece4]; decide

theorem headerLine2_no_break (d : Bytes) : ∀ b ∈ headerLine2 d, isBreak b = false := by
  intro b hb
  unfold headerLine2 at hb
  rcases List.mem_append.mp hb with hb | hb
  · exact piece4_no_break b hb
  · exact oneLine_no_break d b hb

theorem headerLine1_no_break (f : Font) (h : Ser.namePSPanics f.info.fontName = false) :
    ∀ b ∈ headerLine1 f, isBreak b = false := by
  intro b hb
  unfold headerLine1 at hb
  simp only [List.mem_append] at hb
  rcases hb with ((hb | hb) | hb) | hb
  · exact piece1_no_break b hb
  · exact name_no_break _ h b hb
  · exact piece2_no_break b hb
  · exact oneLine_no_break _ b hb

/-! ## the charstring bytes are bytes: `List Nat` (the charstring models) and `List UInt8` (the writer) agree -/

section bytes
open PsVerif.Model.T1Num PsVerif.Model.T1Encode

def AllB (l : List Nat) : Prop := ∀ b ∈ l, b < 256

theorem allB_append {a b : List Nat} : AllB (a ++ b) ↔ AllB a ∧ AllB b := List.forall_mem_append

theorem allB_nil : AllB [] := by intro b hb; simp at hb

theorem allB_appendInt (x : Int) : AllB (appendInt x) := PsVerif.Props.C20.appendInt_bytes x

theorem allB_appendOp (op : Nat) : AllB (appendOp op) := by
  unfold appendOp
  split
  · intro b hb; simp at hb; omega
  · intro b hb; simp at hb; omega

theorem allB_num (x : Rat) : AllB (num x) := by
  unfold num appendNumber
  split
  · exact allB_appendInt _
  · simp only [allB_append]
    exact ⟨⟨allB_appendInt _, allB_appendInt _⟩, allB_appendOp _⟩

theorem allB_cmd (px py : Rat) (c : Cmd) : AllB (encodeCmdBytes px py c).1 := by
  cases c <;> simp only [encodeCmdBytes] <;> (repeat' split) <;>
    simp only [allB_append, allB_num, allB_appendOp, and_self]

theorem allB_path (cs : List Cmd) : ∀ px py : Rat, AllB (encodePathBytes px py cs) := by
  induction cs with
  | nil => intro px py; exact allB_nil
  | cons c cs ih =>
    intro px py
    unfold encodePathBytes
    simp only [allB_append]
    exact ⟨allB_cmd px py c, ih _ _⟩

theorem allB_stems (op : Nat) (l : List Int) : AllB (encodeStems op l) := by
  induction l using encodeStems.induct with
  | case1 a b rest ih =>
    unfold encodeStems
    simp only [allB_append]
    exact ⟨⟨⟨allB_appendInt _, allB_appendInt _⟩, allB_appendOp _⟩, ih⟩
  | case2 l h =>
    unfold encodeStems
    split
    · rename_i a b rest; exact absurd rfl (h a b rest)
    · exact allB_nil

theorem allB_charString (g : T1Encode.Glyph) (wx wy : Int) : AllB (encodeCharString g wx wy) := by
  unfold encodeCharString
  simp only [allB_append]
  refine ⟨⟨⟨⟨?_, allB_stems _ _⟩, allB_stems _ _⟩, allB_path _ _ _⟩, allB_appendOp _⟩
  split
  · simp only [allB_append]; exact ⟨⟨allB_appendInt _, allB_appendInt _⟩, allB_appendOp _⟩
  · simp only [allB_append]
    exact ⟨⟨⟨⟨allB_appendInt _, allB_appendInt _⟩, allB_appendInt _⟩, allB_appendInt _⟩, allB_appendOp _⟩

theorem toNat_ofNats (l : List Nat) (h : AllB l) : (ofNats l).map UInt8.toNat = l := by
  unfold ofNats
  induction l with
  | nil => rfl
  | cons a l ih =>
    simp only [List.map_cons]
    rw [ih (fun b hb => h b (List.mem_cons_of_mem _ hb))]
    have : a < 256 := h a (List.mem_cons_self)
    simp [UInt8.toNat_ofNat', Nat.mod_eq_of_lt this]

/-- the writer's bytes, read as numbers, are the bytes of the charstring encoder -/
theorem csBytes_toNat (g : T1Write.Glyph) :
    (csBytes g).map UInt8.toNat = encodeCharString g.outline (wInt g.widthX) (wInt g.widthY) :=
  toNat_ofNats _ (allB_charString _ _ _)

end bytes

end PsVerif.Proofs.T1Write
