import PsVerif.Model.Init
/-!
# Closed forms of the looping operators (helper lemmas of C03, control-flow part)

The looping operators of the model (`repeatLoop`, `forLoop`, `loopLoop`, `forallArr`,
`forallStr`, `forallDict` of `Model/Interp.lean`) are characterised for **every** number of
turns, by induction on the number of turns, against an abstract description of the body:

* a *trace* `σ : Nat → State` lists the states between the turns (`σ 0` = state in which the
  loop starts, `σ (i+1)` = state after turn `i`);
* `Runs f0 m p s q` says that executing the procedure object `p` exactly as the looping
  operators do (`executeOne(p, true)`, i.e. `execOne _ m s p true`) from the state `s` has the
  outcome `q` for every fuel `≥ f0`.  (With fuel monotonicity, `Proofs/InterpFuel.lean`, one
  fuel with a result other than `Res.fuel` is enough: `Props/C03Loops.lean`.)

The operation budget `m` (`m = 0`: no budget) is the same in the hypotheses about the body and
in the conclusion about the loop: "no turn hits the budget" is carried by the hypotheses that
the turns end with `ok`; a turn that ends with `.err .limit` is covered by the `…_breaks`
theorems (the loop passes the error on).

This file depends on `Model/Interp.lean` only (the one-step unfoldings are re-proved here, they
are the ones of `Props/C03.lean`).
-/
namespace PsVerif.Proofs.Loops
open PsVerif.Model

/-! ### one turn -/

/-- what a looping operator does with the result of one turn of its body (the definition of
`Props/C03.lean`): `exit` ends the loop normally, `ok` continues with `next`, anything else
(errors, `stop`, the budget error, `fuel`) is passed on -/
def afterTurn (p : State × Res) (next : State → State × Res) : State × Res :=
  if p.2 = .err .exit then (p.1, .ok) else if p.2 = .ok then next p.1 else p

/-- how a loop ends when a turn of its body ends in the state `s'` with a result `r` other
than `ok`: `exit` is consumed (the loop ends normally, in the state the body left: the looping
operators of `builtin.go` keep no bookkeeping in the interpreter state, so there is nothing to
undo), every other result is passed on unchanged -/
def broken (s' : State) (r : Res) : State × Res := if r = .err .exit then (s', .ok) else (s', r)

theorem afterTurn_ok (s : State) (next : State → State × Res) : afterTurn (s, .ok) next = next s := by
  simp [afterTurn]

theorem afterTurn_broken (s : State) (r : Res) (next : State → State × Res) (h : r ≠ .ok) :
    afterTurn (s, r) next = broken s r := by
  simp [afterTurn, broken, h]

theorem broken_exit (s : State) : broken s (.err .exit) = (s, .ok) := by simp [broken]

theorem broken_err (s : State) (e : Err) (h : e ≠ .exit) : broken s (.err e) = (s, .err e) := by
  simp [broken, h]

/-- `Runs f0 m p s q`: `executeOne(p, true)` from `s` has the outcome `q`, for every fuel from `f0` on -/
def Runs (f0 m : Nat) (p : Obj) (s : State) (q : State × Res) : Prop :=
  ∀ f, f0 ≤ f → execOne f m s p true = q

theorem Runs.mono {f0 f1 m : Nat} {p : Obj} {s : State} {q : State × Res} (h : Runs f0 m p s q)
    (hf : f0 ≤ f1) : Runs f1 m p s q := fun f hf' => h f (Nat.le_trans hf hf')

/-! ### one-step unfoldings (as in `Props/C03.lean`) -/

theorem repeat_step (f m : Nat) (s : State) (n : Nat) (p : Obj) :
    repeatLoop (f + 1) m s (n + 1) p = afterTurn (execOne f m s p true) (fun s1 => repeatLoop f m s1 n p) := by
  simp only [repeatLoop, afterTurn]
  generalize execOne f m s p true = q
  obtain ⟨s1, r1⟩ := q
  cases r1 with
  | err e => cases e <;> simp [okS]
  | _ => simp

theorem repeat_zero (f m : Nat) (s : State) (p : Obj) : repeatLoop (f + 1) m s 0 p = (s, .ok) := by
  simp [repeatLoop, okS]

/-- the termination test of `for` on the control value `v` -/
def forPast (inc lim v : Int) : Prop := (inc > 0 ∧ v > lim) ∨ (inc < 0 ∧ v < lim)

instance (inc lim v : Int) : Decidable (forPast inc lim v) := by unfold forPast; infer_instance

/-- the overflow guard of `for` after a turn with control value `v`: the next control value
would lie outside the `int64` range (hence beyond every limit), the loop ends -/
def forOver (inc v : Int) : Prop := (inc > 0 ∧ v > maxInt64 - inc) ∨ (inc < 0 ∧ v < minInt64 - inc)

instance (inc v : Int) : Decidable (forOver inc v) := by unfold forOver; infer_instance

theorem for_step (f m : Nat) (s : State) (v inc lim : Int) (p : Obj) :
    forLoop (f + 1) m s v inc lim p =
      (if forPast inc lim v then (s, .ok)
       else afterTurn (execOne f m (pushS s (.int v)) p true)
         (fun s1 => if forOver inc v then (s1, .ok) else forLoop f m s1 (wrap64 (v + inc)) inc lim p)) := by
  by_cases hc : forPast inc lim v
  · rw [if_pos hc]
    unfold forPast at hc
    simp only [forLoop, if_pos hc, okS]
  · rw [if_neg hc]
    unfold forPast at hc
    simp only [forLoop, if_neg hc, afterTurn, forOver]
    generalize execOne f m (pushS s (.int v)) p true = q
    obtain ⟨s1, r1⟩ := q
    cases r1 with
    | err e => cases e <;> simp [okS]
    | ok => simp [okS]
    | fuel => simp

theorem loop_step (f m : Nat) (s : State) (p : Obj) :
    loopLoop (f + 1) m s p = afterTurn (execOne f m s p true) (fun s1 => loopLoop f m s1 p) := by
  simp only [loopLoop, afterTurn]
  generalize execOne f m s p true = q
  obtain ⟨s1, r1⟩ := q
  cases r1 with
  | err e => cases e <;> simp [okS]
  | _ => simp

theorem forallArr_step (f m : Nat) (s : State) (r o i t : Nat) (p x : Obj)
    (hx : (s.vm.getObjs r)[o + i]? = some x) :
    forallArr (f + 1) m s r o i (t + 1) p =
      afterTurn (execOne f m (pushS s x) p true) (fun s1 => forallArr f m s1 r o (i + 1) t p) := by
  simp only [forallArr, afterTurn, hx]
  generalize execOne f m (pushS s x) p true = q
  obtain ⟨s1, r1⟩ := q
  cases r1 with
  | err e => cases e <;> simp [okS]
  | _ => simp

theorem forallArr_zero (f m : Nat) (s : State) (r o i : Nat) (p : Obj) :
    forallArr (f + 1) m s r o i 0 p = (s, .ok) := by
  simp [forallArr, okS]

theorem forallStr_step (f m : Nat) (s : State) (r o i t : Nat) (p : Obj) (c : UInt8)
    (hx : (s.vm.getBytes r)[o + i]? = some c) :
    forallStr (f + 1) m s r o i (t + 1) p =
      afterTurn (execOne f m (pushS s (.int c.toNat)) p true) (fun s1 => forallStr f m s1 r o (i + 1) t p) := by
  simp only [forallStr, afterTurn, hx]
  generalize execOne f m (pushS s (.int c.toNat)) p true = q
  obtain ⟨s1, r1⟩ := q
  cases r1 with
  | err e => cases e <;> simp [okS]
  | _ => simp

theorem forallStr_zero (f m : Nat) (s : State) (r o i : Nat) (p : Obj) :
    forallStr (f + 1) m s r o i 0 p = (s, .ok) := by
  simp [forallStr, okS]

/-- `forall` over a dictionary: a key of the snapshot that has meanwhile been removed is skipped -/
theorem forallDict_skip (f m : Nat) (s : State) (d : Nat) (k : Name) (ks : List Name) (p : Obj)
    (hk : s.vm.dictGet d k = none) :
    forallDict (f + 1) m s d (k :: ks) p = forallDict f m s d ks p := by
  simp only [forallDict, hk]

/-- … and for a key that is present, key and (current) value are pushed -/
theorem forallDict_step (f m : Nat) (s : State) (d : Nat) (k : Name) (ks : List Name) (p v : Obj)
    (hk : s.vm.dictGet d k = some v) :
    forallDict (f + 1) m s d (k :: ks) p =
      afterTurn (execOne f m (setStack s (v :: .name k :: s.vm.stack)) p true)
        (fun s1 => forallDict f m s1 d ks p) := by
  simp only [forallDict, afterTurn, hk]
  generalize execOne f m (setStack s (v :: .name k :: s.vm.stack)) p true = q
  obtain ⟨s1, r1⟩ := q
  cases r1 with
  | err e => cases e <;> simp [okS]
  | _ => simp

theorem forallDict_nil (f m : Nat) (s : State) (d : Nat) (p : Obj) :
    forallDict (f + 1) m s d [] p = (s, .ok) := by
  simp [forallDict, okS]

/-! ### `repeat` -/

/-- `j` turns that end with `ok` are peeled off -/
theorem repeat_prefix {f0 m : Nat} {p : Obj} (σ : Nat → State) :
    ∀ (j : Nat), (∀ i, i < j → Runs f0 m p (σ i) (σ (i + 1), .ok)) →
    ∀ (n F : Nat), f0 ≤ F →
      repeatLoop (F + 1 + j) m (σ 0) (n + j) p = repeatLoop (F + 1) m (σ j) n p := by
  intro j
  induction j with
  | zero => intros; rfl
  | succ j ih =>
    intro h n F hF
    have e := ih (fun i hi => h i (Nat.lt_succ_of_lt hi)) (n + 1) (F + 1) (Nat.le_succ_of_le hF)
    have e1 : F + 1 + (j + 1) = F + 1 + 1 + j := by omega
    have e2 : n + (j + 1) = n + 1 + j := by omega
    rw [e1, e2, e, repeat_step, h j (Nat.lt_succ_self j) (F + 1) (Nat.le_succ_of_le hF), afterTurn_ok]

/-- **`repeat` runs its body exactly `n` times** (any `n`): if the turns `0 … n-1` end with `ok`
along the trace `σ`, `n p repeat` ends with `ok` in the state `σ n` -/
theorem repeat_count {f0 m : Nat} {p : Obj} (σ : Nat → State) (n : Nat)
    (h : ∀ i, i < n → Runs f0 m p (σ i) (σ (i + 1), .ok)) :
    ∀ fuel, f0 + n + 1 ≤ fuel → repeatLoop fuel m (σ 0) n p = (σ n, .ok) := by
  intro fuel hf
  obtain ⟨F, rfl⟩ : ∃ F, fuel = F + 1 + n := ⟨fuel - 1 - n, by omega⟩
  have e := repeat_prefix σ n h 0 F (by omega)
  rw [Nat.zero_add] at e
  rw [e, repeat_zero]

/-- a turn `j < n` that does not end with `ok` ends the loop: `exit` normally, anything else
with that result -/
theorem repeat_breaks {f0 m : Nat} {p : Obj} (σ : Nat → State) (n j : Nat) (hj : j < n)
    (h : ∀ i, i < j → Runs f0 m p (σ i) (σ (i + 1), .ok))
    (s' : State) (r : Res) (hr : r ≠ .ok) (hlast : Runs f0 m p (σ j) (s', r)) :
    ∀ fuel, f0 + j + 2 ≤ fuel → repeatLoop fuel m (σ 0) n p = broken s' r := by
  intro fuel hf
  obtain ⟨F, rfl⟩ : ∃ F, fuel = F + 1 + 1 + j := ⟨fuel - 2 - j, by omega⟩
  obtain ⟨n', rfl⟩ : ∃ n', n = n' + 1 + j := ⟨n - 1 - j, by omega⟩
  rw [repeat_prefix σ j h (n' + 1) (F + 1) (by omega), repeat_step, hlast (F + 1) (by omega),
    afterTurn_broken _ _ _ hr]

/-! ### `loop` -/

theorem loop_prefix {f0 m : Nat} {p : Obj} (σ : Nat → State) :
    ∀ (j : Nat), (∀ i, i < j → Runs f0 m p (σ i) (σ (i + 1), .ok)) →
    ∀ (F : Nat), f0 ≤ F → loopLoop (F + 1 + j) m (σ 0) p = loopLoop (F + 1) m (σ j) p := by
  intro j
  induction j with
  | zero => intros; rfl
  | succ j ih =>
    intro h F hF
    have e := ih (fun i hi => h i (Nat.lt_succ_of_lt hi)) (F + 1) (Nat.le_succ_of_le hF)
    have e1 : F + 1 + (j + 1) = F + 1 + 1 + j := by omega
    rw [e1, e, loop_step, h j (Nat.lt_succ_self j) (F + 1) (Nat.le_succ_of_le hF), afterTurn_ok]

/-- `loop` runs its body until a turn does not end with `ok` -/
theorem loop_breaks {f0 m : Nat} {p : Obj} (σ : Nat → State) (j : Nat)
    (h : ∀ i, i < j → Runs f0 m p (σ i) (σ (i + 1), .ok))
    (s' : State) (r : Res) (hr : r ≠ .ok) (hlast : Runs f0 m p (σ j) (s', r)) :
    ∀ fuel, f0 + j + 2 ≤ fuel → loopLoop fuel m (σ 0) p = broken s' r := by
  intro fuel hf
  obtain ⟨F, rfl⟩ : ∃ F, fuel = F + 1 + 1 + j := ⟨fuel - 2 - j, by omega⟩
  rw [loop_prefix σ j h (F + 1) (by omega), loop_step, hlast (F + 1) (by omega), afterTurn_broken _ _ _ hr]

/-! ### `for` (integer control values; `builtin.go` has no real-valued `for`) -/

theorem for_prefix {f0 m : Nat} {p : Obj} (inc lim : Int) (val : Nat → Int) (σ : Nat → State) :
    ∀ (j : Nat), (∀ i, i < j → ¬ forPast inc lim (val i)) →
    (∀ i, i < j → ¬ forOver inc (val i)) →
    (∀ i, i < j → wrap64 (val i + inc) = val (i + 1)) →
    (∀ i, i < j → Runs f0 m p (pushS (σ i) (.int (val i))) (σ (i + 1), .ok)) →
    ∀ (F : Nat), f0 ≤ F →
      forLoop (F + 1 + j) m (σ 0) (val 0) inc lim p = forLoop (F + 1) m (σ j) (val j) inc lim p := by
  intro j
  induction j with
  | zero => intros; rfl
  | succ j ih =>
    intro hp ho hw h F hF
    have e := ih (fun i hi => hp i (Nat.lt_succ_of_lt hi)) (fun i hi => ho i (Nat.lt_succ_of_lt hi))
      (fun i hi => hw i (Nat.lt_succ_of_lt hi))
      (fun i hi => h i (Nat.lt_succ_of_lt hi)) (F + 1) (Nat.le_succ_of_le hF)
    have e1 : F + 1 + (j + 1) = F + 1 + 1 + j := by omega
    rw [e1, e, for_step, if_neg (hp j (Nat.lt_succ_self j)),
      h j (Nat.lt_succ_self j) (F + 1) (Nat.le_succ_of_le hF), afterTurn_ok,
      if_neg (ho j (Nat.lt_succ_self j)), hw j (Nat.lt_succ_self j)]

/-- `for` along a sequence `val` of control values (`val (i+1)` = Go's `val i + inc` on `int`):
`n` turns, then the termination test succeeds -/
theorem for_count_gen {f0 m : Nat} {p : Obj} (inc lim : Int) (val : Nat → Int) (σ : Nat → State) (n : Nat)
    (hp : ∀ i, i < n → ¬ forPast inc lim (val i))
    (ho : ∀ i, i < n → ¬ forOver inc (val i))
    (hw : ∀ i, i < n → wrap64 (val i + inc) = val (i + 1))
    (hend : forPast inc lim (val n))
    (h : ∀ i, i < n → Runs f0 m p (pushS (σ i) (.int (val i))) (σ (i + 1), .ok)) :
    ∀ fuel, f0 + n + 1 ≤ fuel → forLoop fuel m (σ 0) (val 0) inc lim p = (σ n, .ok) := by
  intro fuel hf
  obtain ⟨F, rfl⟩ : ∃ F, fuel = F + 1 + n := ⟨fuel - 1 - n, by omega⟩
  rw [for_prefix inc lim val σ n hp ho hw h F (by omega), for_step, if_pos hend]

/-- … `j + 1` turns, then the overflow guard ends the loop (the next control value would not be
an `int64`) -/
theorem for_count_gen_over {f0 m : Nat} {p : Obj} (inc lim : Int) (val : Nat → Int) (σ : Nat → State) (j : Nat)
    (hp : ∀ i, i ≤ j → ¬ forPast inc lim (val i))
    (ho : ∀ i, i < j → ¬ forOver inc (val i))
    (hw : ∀ i, i < j → wrap64 (val i + inc) = val (i + 1))
    (hend : forOver inc (val j))
    (h : ∀ i, i ≤ j → Runs f0 m p (pushS (σ i) (.int (val i))) (σ (i + 1), .ok)) :
    ∀ fuel, f0 + j + 2 ≤ fuel → forLoop fuel m (σ 0) (val 0) inc lim p = (σ (j + 1), .ok) := by
  intro fuel hf
  obtain ⟨F, rfl⟩ : ∃ F, fuel = F + 1 + 1 + j := ⟨fuel - 2 - j, by omega⟩
  rw [for_prefix inc lim val σ j (fun i hi => hp i (Nat.le_of_lt hi)) ho hw
    (fun i hi => h i (Nat.le_of_lt hi)) (F + 1) (by omega), for_step,
    if_neg (hp j (Nat.le_refl j)), h j (Nat.le_refl j) (F + 1) (by omega), afterTurn_ok, if_pos hend]

theorem for_breaks_gen {f0 m : Nat} {p : Obj} (inc lim : Int) (val : Nat → Int) (σ : Nat → State) (j : Nat)
    (hp : ∀ i, i ≤ j → ¬ forPast inc lim (val i))
    (ho : ∀ i, i < j → ¬ forOver inc (val i))
    (hw : ∀ i, i < j → wrap64 (val i + inc) = val (i + 1))
    (h : ∀ i, i < j → Runs f0 m p (pushS (σ i) (.int (val i))) (σ (i + 1), .ok))
    (s' : State) (r : Res) (hr : r ≠ .ok) (hlast : Runs f0 m p (pushS (σ j) (.int (val j))) (s', r)) :
    ∀ fuel, f0 + j + 2 ≤ fuel → forLoop fuel m (σ 0) (val 0) inc lim p = broken s' r := by
  intro fuel hf
  obtain ⟨F, rfl⟩ : ∃ F, fuel = F + 1 + 1 + j := ⟨fuel - 2 - j, by omega⟩
  rw [for_prefix inc lim val σ j (fun i hi => hp i (Nat.le_of_lt hi)) ho hw h (F + 1) (by omega), for_step,
    if_neg (hp j (Nat.le_refl j)), hlast (F + 1) (by omega), afterTurn_broken _ _ _ hr]

/-! ### `forall` over arrays and strings

The model (like Go's `for _, val := range obj` over a slice) fixes the number of turns at the
start and reads element `i` from the store *when turn `i` starts*: a body that writes into a
later element of the array it is traversing sees the new value.  Hence the hypothesis `hx`
speaks about the state `σ i` at the start of turn `i`. -/

theorem forallArr_prefix {f0 m : Nat} {p : Obj} (r o i0 : Nat) (x : Nat → Obj) (σ : Nat → State) :
    ∀ (j : Nat), (∀ i, i < j → ((σ i).vm.getObjs r)[o + (i0 + i)]? = some (x i)) →
    (∀ i, i < j → Runs f0 m p (pushS (σ i) (x i)) (σ (i + 1), .ok)) →
    ∀ (t F : Nat), f0 ≤ F →
      forallArr (F + 1 + j) m (σ 0) r o i0 (t + j) p = forallArr (F + 1) m (σ j) r o (i0 + j) t p := by
  intro j
  induction j with
  | zero => intros; rfl
  | succ j ih =>
    intro hx h t F hF
    have e := ih (fun i hi => hx i (Nat.lt_succ_of_lt hi)) (fun i hi => h i (Nat.lt_succ_of_lt hi))
      (t + 1) (F + 1) (Nat.le_succ_of_le hF)
    have e1 : F + 1 + (j + 1) = F + 1 + 1 + j := by omega
    have e2 : t + (j + 1) = t + 1 + j := by omega
    rw [e1, e2, e, forallArr_step _ _ _ _ _ _ _ _ _ (hx j (Nat.lt_succ_self j)),
      h j (Nat.lt_succ_self j) (F + 1) (Nat.le_succ_of_le hF), afterTurn_ok]
    rfl

theorem forallArr_count_gen {f0 m : Nat} {p : Obj} (r o i0 : Nat) (x : Nat → Obj) (σ : Nat → State) (n : Nat)
    (hx : ∀ i, i < n → ((σ i).vm.getObjs r)[o + (i0 + i)]? = some (x i))
    (h : ∀ i, i < n → Runs f0 m p (pushS (σ i) (x i)) (σ (i + 1), .ok)) :
    ∀ fuel, f0 + n + 1 ≤ fuel → forallArr fuel m (σ 0) r o i0 n p = (σ n, .ok) := by
  intro fuel hf
  obtain ⟨F, rfl⟩ : ∃ F, fuel = F + 1 + n := ⟨fuel - 1 - n, by omega⟩
  have e := forallArr_prefix r o i0 x σ n hx h 0 F (by omega)
  rw [Nat.zero_add] at e
  rw [e, forallArr_zero]

theorem forallArr_breaks_gen {f0 m : Nat} {p : Obj} (r o i0 : Nat) (x : Nat → Obj) (σ : Nat → State) (n j : Nat)
    (hj : j < n)
    (hx : ∀ i, i ≤ j → ((σ i).vm.getObjs r)[o + (i0 + i)]? = some (x i))
    (h : ∀ i, i < j → Runs f0 m p (pushS (σ i) (x i)) (σ (i + 1), .ok))
    (s' : State) (res : Res) (hr : res ≠ .ok) (hlast : Runs f0 m p (pushS (σ j) (x j)) (s', res)) :
    ∀ fuel, f0 + j + 2 ≤ fuel → forallArr fuel m (σ 0) r o i0 n p = broken s' res := by
  intro fuel hf
  obtain ⟨F, rfl⟩ : ∃ F, fuel = F + 1 + 1 + j := ⟨fuel - 2 - j, by omega⟩
  obtain ⟨n', rfl⟩ : ∃ n', n = n' + 1 + j := ⟨n - 1 - j, by omega⟩
  rw [forallArr_prefix r o i0 x σ j (fun i hi => hx i (Nat.le_of_lt hi)) h (n' + 1) (F + 1) (by omega),
    forallArr_step _ _ _ _ _ _ _ _ _ (hx j (Nat.le_refl j)), hlast (F + 1) (by omega), afterTurn_broken _ _ _ hr]

theorem forallStr_prefix {f0 m : Nat} {p : Obj} (r o i0 : Nat) (c : Nat → UInt8) (σ : Nat → State) :
    ∀ (j : Nat), (∀ i, i < j → ((σ i).vm.getBytes r)[o + (i0 + i)]? = some (c i)) →
    (∀ i, i < j → Runs f0 m p (pushS (σ i) (.int (c i).toNat)) (σ (i + 1), .ok)) →
    ∀ (t F : Nat), f0 ≤ F →
      forallStr (F + 1 + j) m (σ 0) r o i0 (t + j) p = forallStr (F + 1) m (σ j) r o (i0 + j) t p := by
  intro j
  induction j with
  | zero => intros; rfl
  | succ j ih =>
    intro hx h t F hF
    have e := ih (fun i hi => hx i (Nat.lt_succ_of_lt hi)) (fun i hi => h i (Nat.lt_succ_of_lt hi))
      (t + 1) (F + 1) (Nat.le_succ_of_le hF)
    have e1 : F + 1 + (j + 1) = F + 1 + 1 + j := by omega
    have e2 : t + (j + 1) = t + 1 + j := by omega
    rw [e1, e2, e, forallStr_step _ _ _ _ _ _ _ _ _ (hx j (Nat.lt_succ_self j)),
      h j (Nat.lt_succ_self j) (F + 1) (Nat.le_succ_of_le hF), afterTurn_ok]
    rfl

theorem forallStr_count_gen {f0 m : Nat} {p : Obj} (r o i0 : Nat) (c : Nat → UInt8) (σ : Nat → State) (n : Nat)
    (hx : ∀ i, i < n → ((σ i).vm.getBytes r)[o + (i0 + i)]? = some (c i))
    (h : ∀ i, i < n → Runs f0 m p (pushS (σ i) (.int (c i).toNat)) (σ (i + 1), .ok)) :
    ∀ fuel, f0 + n + 1 ≤ fuel → forallStr fuel m (σ 0) r o i0 n p = (σ n, .ok) := by
  intro fuel hf
  obtain ⟨F, rfl⟩ : ∃ F, fuel = F + 1 + n := ⟨fuel - 1 - n, by omega⟩
  have e := forallStr_prefix r o i0 c σ n hx h 0 F (by omega)
  rw [Nat.zero_add] at e
  rw [e, forallStr_zero]

theorem forallStr_breaks_gen {f0 m : Nat} {p : Obj} (r o i0 : Nat) (c : Nat → UInt8) (σ : Nat → State) (n j : Nat)
    (hj : j < n)
    (hx : ∀ i, i ≤ j → ((σ i).vm.getBytes r)[o + (i0 + i)]? = some (c i))
    (h : ∀ i, i < j → Runs f0 m p (pushS (σ i) (.int (c i).toNat)) (σ (i + 1), .ok))
    (s' : State) (res : Res) (hr : res ≠ .ok) (hlast : Runs f0 m p (pushS (σ j) (.int (c j).toNat)) (s', res)) :
    ∀ fuel, f0 + j + 2 ≤ fuel → forallStr fuel m (σ 0) r o i0 n p = broken s' res := by
  intro fuel hf
  obtain ⟨F, rfl⟩ : ∃ F, fuel = F + 1 + 1 + j := ⟨fuel - 2 - j, by omega⟩
  obtain ⟨n', rfl⟩ : ∃ n', n = n' + 1 + j := ⟨n - 1 - j, by omega⟩
  rw [forallStr_prefix r o i0 c σ j (fun i hi => hx i (Nat.le_of_lt hi)) h (n' + 1) (F + 1) (by omega),
    forallStr_step _ _ _ _ _ _ _ _ _ (hx j (Nat.le_refl j)), hlast (F + 1) (by omega), afterTurn_broken _ _ _ hr]

/-! ### `forall` over a dictionary

The Go code takes a snapshot of the keys, sorts it ascending in the byte order of the names
(`sortNames`; before the repair it ranged over the map in Go's unspecified order) and looks each
key up again when its turn comes: the value is the current one, a key removed meanwhile is
skipped. -/

/-- the sorted key list has the same elements … -/
theorem sortNames_perm (ks : List Name) : (sortNames ks).Perm ks := List.mergeSort_perm ks _

theorem mem_sortNames {k : Name} {ks : List Name} : k ∈ sortNames ks ↔ k ∈ ks := List.mem_mergeSort

theorem length_sortNames (ks : List Name) : (sortNames ks).length = ks.length := (sortNames_perm ks).length_eq

/-- … and is ascending in the (byte) order of the names -/
theorem sortNames_sorted (ks : List Name) : (sortNames ks).Pairwise (fun a b => a ≤ b) := by
  have h := List.pairwise_mergeSort (le := fun (a b : Name) => decide (a ≤ b))
    (fun a b c hab hbc => by
      simp only [decide_eq_true_eq] at hab hbc ⊢
      exact String.le_trans hab hbc)
    (fun a b => by
      simp only [Bool.or_eq_true, decide_eq_true_eq]
      exact String.le_total a b) ks
  unfold sortNames
  simpa using h

/-- no later key is smaller than an earlier one (Go's `less` is `keys[i] < keys[j]`) -/
theorem sortNames_sorted' (ks : List Name) : (sortNames ks).Pairwise (fun a b => ¬ b < a) :=
  (sortNames_sorted ks).imp (fun h => String.not_lt.mpr h)

/-- distinct keys (those of a dictionary) come out strictly ascending -/
theorem sortNames_strict (ks : List Name) (hnd : ks.Nodup) : (sortNames ks).Pairwise (fun a b => a < b) := by
  have hnd' : (sortNames ks).Nodup := (sortNames_perm ks).nodup_iff.mpr hnd
  have hs := sortNames_sorted ks
  unfold List.Nodup at hnd'
  refine (hs.and hnd').imp ?_
  intro a b h
  rcases Decidable.em (a < b) with hlt | hlt
  · exact hlt
  · exact absurd (String.le_antisymm h.1 (String.not_lt.mp hlt)) h.2

/-- **the sorted list depends only on the set of keys, not on their order** -/
theorem sortNames_perm_eq {ks₁ ks₂ : List Name} (h : ks₁.Perm ks₂) : sortNames ks₁ = sortNames ks₂ :=
  List.Perm.eq_of_pairwise (le := fun (a b : Name) => a ≤ b)
    (fun _ _ _ _ hab hba => String.le_antisymm hab hba)
    (sortNames_sorted ks₁) (sortNames_sorted ks₂)
    (((sortNames_perm ks₁).trans h).trans (sortNames_perm ks₂).symm)

/-- a list that is already sorted stays as it is -/
theorem sortNames_of_sorted {ks : List Name} (h : ks.Pairwise (fun a b => a ≤ b)) : sortNames ks = ks :=
  List.Perm.eq_of_pairwise (le := fun (a b : Name) => a ≤ b)
    (fun _ _ _ _ hab hba => String.le_antisymm hab hba) (sortNames_sorted ks) h (sortNames_perm ks)

/-- the turn for key `k`: nothing happens when `k` is not (any longer) in the dictionary,
otherwise the body runs with key and value pushed and ends with `ok` in `s1` -/
def DictTurn (f0 m : Nat) (p : Obj) (d : Nat) (k : Name) (s s1 : State) : Prop :=
  match s.vm.dictGet d k with
  | none => s1 = s
  | some v => Runs f0 m p (setStack s (v :: .name k :: s.vm.stack)) (s1, .ok)

theorem forallDict_prefix {f0 m : Nat} {p : Obj} (d : Nat) :
    ∀ (pre : List Name) (σ : Nat → State),
    (∀ i (hi : i < pre.length), DictTurn f0 m p d pre[i] (σ i) (σ (i + 1))) →
    ∀ (rest : List Name) (F : Nat), f0 ≤ F →
      forallDict (F + 1 + pre.length) m (σ 0) d (pre ++ rest) p = forallDict (F + 1) m (σ pre.length) d rest p := by
  intro pre
  induction pre with
  | nil => intros; rfl
  | cons k pre ih =>
    intro σ h rest F hF
    have h0 := h 0 (by simp)
    have ih' := ih (fun i => σ (i + 1)) (fun i hi => by
      have := h (i + 1) (by simp; omega)
      simpa using this) rest F hF
    have e1 : F + 1 + (k :: pre).length = (F + 1 + pre.length) + 1 := by simp; omega
    have e2 : (k :: pre).length = pre.length + 1 := by simp
    rw [e1, e2, List.cons_append]
    simp only [List.getElem_cons_zero, DictTurn] at h0
    cases hk : (σ 0).vm.dictGet d k with
    | none =>
      rw [hk] at h0
      dsimp only at h0
      rw [forallDict_skip _ _ _ _ _ _ _ hk, ← h0]
      exact ih'
    | some v =>
      rw [hk] at h0
      dsimp only at h0
      rw [forallDict_step _ _ _ _ _ _ _ _ hk, h0 (F + 1 + pre.length) (by omega), afterTurn_ok]
      exact ih'

/-- `forall` over a dictionary: one turn per key of `ks` that is still present, in that order -/
theorem forallDict_count_gen {f0 m : Nat} {p : Obj} (d : Nat) (ks : List Name) (σ : Nat → State)
    (h : ∀ i (hi : i < ks.length), DictTurn f0 m p d ks[i] (σ i) (σ (i + 1))) :
    ∀ fuel, f0 + ks.length + 1 ≤ fuel → forallDict fuel m (σ 0) d ks p = (σ ks.length, .ok) := by
  intro fuel hf
  obtain ⟨F, rfl⟩ : ∃ F, fuel = F + 1 + ks.length := ⟨fuel - 1 - ks.length, by omega⟩
  have e := forallDict_prefix d ks σ h [] F (by omega)
  rw [List.append_nil] at e
  rw [e, forallDict_nil]

theorem forallDict_breaks_gen {f0 m : Nat} {p : Obj} (d : Nat) (pre : List Name) (k : Name) (rest : List Name)
    (σ : Nat → State)
    (h : ∀ i (hi : i < pre.length), DictTurn f0 m p d pre[i] (σ i) (σ (i + 1)))
    (v : Obj) (hk : (σ pre.length).vm.dictGet d k = some v)
    (s' : State) (res : Res) (hr : res ≠ .ok)
    (hlast : Runs f0 m p (setStack (σ pre.length) (v :: .name k :: (σ pre.length).vm.stack)) (s', res)) :
    ∀ fuel, f0 + pre.length + 2 ≤ fuel → forallDict fuel m (σ 0) d (pre ++ k :: rest) p = broken s' res := by
  intro fuel hf
  obtain ⟨F, rfl⟩ : ∃ F, fuel = F + 1 + 1 + pre.length := ⟨fuel - 2 - pre.length, by omega⟩
  rw [forallDict_prefix d pre σ h (k :: rest) (F + 1) (by omega), forallDict_step _ _ _ _ _ _ _ _ hk,
    hlast (F + 1) (by omega), afterTurn_broken _ _ _ hr]

/-! ### the number of turns of `for` -/

/-- the PLRM's number of turns of `initial increment limit proc for` (`increment ≠ 0`):
`max 0 (⌊(limit - initial) / increment⌋ + 1)` -/
def forCount (init inc lim : Int) : Nat :=
  if inc > 0 then ((lim - init) / inc + 1).toNat
  else if inc < 0 then ((init - lim) / (-inc) + 1).toNat
  else 0

theorem forCount_pos_below {init inc lim : Int} (hinc : 0 < inc) {i : Nat} (hi : i < forCount init inc lim) :
    init + (i : Int) * inc ≤ lim := by
  unfold forCount at hi
  rw [if_pos hinc] at hi
  have h1 : (i : Int) ≤ (lim - init) / inc := by omega
  have h2 := Int.mul_le_mul_of_nonneg_right h1 (Int.le_of_lt hinc)
  have h3 := Int.ediv_mul_le (lim - init) (Int.ne_of_gt hinc)
  omega

theorem forCount_pos_past {init inc lim : Int} (hinc : 0 < inc) :
    lim < init + (forCount init inc lim : Int) * inc := by
  unfold forCount
  rw [if_pos hinc]
  have h1 : (lim - init) / inc + 1 ≤ ((((lim - init) / inc + 1).toNat : Nat) : Int) := by omega
  have h2 := Int.mul_le_mul_of_nonneg_right h1 (Int.le_of_lt hinc)
  have h3 := Int.lt_ediv_add_one_mul_self (lim - init) hinc
  omega

theorem forCount_neg_below {init inc lim : Int} (hinc : inc < 0) {i : Nat} (hi : i < forCount init inc lim) :
    lim ≤ init + (i : Int) * inc := by
  unfold forCount at hi
  rw [if_neg (by omega), if_pos hinc] at hi
  have hpos : 0 < -inc := by omega
  have h1 : (i : Int) ≤ (init - lim) / (-inc) := by omega
  have h2 := Int.mul_le_mul_of_nonneg_right h1 (Int.le_of_lt hpos)
  have h3 := Int.ediv_mul_le (init - lim) (Int.ne_of_gt hpos)
  rw [Int.mul_neg] at h2
  omega

theorem forCount_neg_past {init inc lim : Int} (hinc : inc < 0) :
    init + (forCount init inc lim : Int) * inc < lim := by
  unfold forCount
  rw [if_neg (by omega), if_pos hinc]
  have hpos : 0 < -inc := by omega
  have h1 : (init - lim) / (-inc) + 1 ≤ ((((init - lim) / (-inc) + 1).toNat : Nat) : Int) := by omega
  have h2 := Int.mul_le_mul_of_nonneg_right h1 (Int.le_of_lt hpos)
  have h3 := Int.lt_ediv_add_one_mul_self (init - lim) hpos
  simp only [Int.mul_neg] at h2 h3
  omega

theorem wrap64_id' (x : Int) (h1 : minInt64 ≤ x) (h2 : x ≤ maxInt64) : wrap64 x = x := by
  unfold minInt64 at h1
  unfold maxInt64 at h2
  unfold wrap64
  dsimp only
  split <;> omega

theorem natCast_succ_mul (i : Nat) (inc : Int) : ((i + 1 : Nat) : Int) * inc = (i : Int) * inc + inc := by
  rw [Int.natCast_succ, Int.add_mul, Int.one_mul]

/-- **`for` with a positive increment runs its body exactly `forCount` times**, turn `i` with
`initial + i·increment` pushed — for all `int64` operands: when the control value after the
last turn would not be an `int64`, the overflow guard of `bFor` ends the loop at the same count -/
theorem for_count_pos {f0 m : Nat} {p : Obj} (init inc lim : Int) (hinc : 0 < inc)
    (hlo : minInt64 ≤ init) (hinit : init ≤ maxInt64) (hhi : lim ≤ maxInt64) (σ : Nat → State)
    (h : ∀ i, i < forCount init inc lim →
      Runs f0 m p (pushS (σ i) (.int (init + (i : Int) * inc))) (σ (i + 1), .ok)) :
    ∀ fuel, f0 + forCount init inc lim + 1 ≤ fuel →
      forLoop fuel m (σ 0) init inc lim p = (σ (forCount init inc lim), .ok) := by
  intro fuel hf
  have e0 : init = init + ((0 : Nat) : Int) * inc := by simp
  have hnn : ∀ i : Nat, 0 ≤ (i : Int) * inc := fun i => Int.mul_nonneg (Int.natCast_nonneg i) (Int.le_of_lt hinc)
  -- below the last turn the next control value is still within the limit
  have hnext : ∀ i, i + 1 < forCount init inc lim →
      ¬ forOver inc (init + (i : Int) * inc) ∧ wrap64 (init + (i : Int) * inc + inc) = init + ((i + 1 : Nat) : Int) * inc := by
    intro i hi
    have hb := forCount_pos_below hinc hi
    rw [natCast_succ_mul] at hb ⊢
    have := hnn i
    refine ⟨by unfold forOver; omega, ?_⟩
    rw [wrap64_id' _ (by omega) (by omega)]
    omega
  by_cases hov : init + (forCount init inc lim : Int) * inc ≤ maxInt64
  · -- the loop ends by its termination test
    have hstep : ∀ i, i < forCount init inc lim →
        ¬ forOver inc (init + (i : Int) * inc) ∧ wrap64 (init + (i : Int) * inc + inc) = init + ((i + 1 : Nat) : Int) * inc := by
      intro i hi
      by_cases hl : i + 1 < forCount init inc lim
      · exact hnext i hl
      · have e : forCount init inc lim = i + 1 := by omega
        rw [e, natCast_succ_mul] at hov
        rw [natCast_succ_mul]
        have := hnn i
        refine ⟨by unfold forOver; omega, ?_⟩
        rw [wrap64_id' _ (by omega) (by omega)]
        omega
    have key := for_count_gen (f0 := f0) (m := m) (p := p) inc lim (fun i => init + (i : Int) * inc) σ
      (forCount init inc lim)
      (fun i hi => by
        have := forCount_pos_below hinc hi
        unfold forPast; omega)
      (fun i hi => (hstep i hi).1) (fun i hi => (hstep i hi).2)
      (by
        have := forCount_pos_past (init := init) (lim := lim) hinc
        unfold forPast; omega)
      h fuel hf
    rw [← e0] at key
    exact key
  · -- the loop ends by the overflow guard after the last turn
    have hpos : 0 < forCount init inc lim := by
      apply Nat.pos_of_ne_zero
      intro e
      rw [e] at hov
      have hi0 : init > lim := by
        have := forCount_pos_past (init := init) (lim := lim) hinc
        rw [e] at this
        simpa using this
      apply hov
      simp only [Int.natCast_zero, Int.zero_mul, Int.add_zero]
      omega
    obtain ⟨j, hj⟩ : ∃ j, forCount init inc lim = j + 1 := ⟨forCount init inc lim - 1, by omega⟩
    rw [hj] at hov hf h hnext ⊢
    have key := for_count_gen_over (f0 := f0) (m := m) (p := p) inc lim (fun i => init + (i : Int) * inc) σ j
      (fun i hi => by
        have := forCount_pos_below (init := init) (lim := lim) hinc (i := i) (by omega)
        unfold forPast; omega)
      (fun i hi => (hnext i (by omega)).1) (fun i hi => (hnext i (by omega)).2)
      (by
        rw [natCast_succ_mul] at hov
        unfold forOver; left; exact ⟨hinc, by omega⟩)
      (fun i hi => h i (by omega)) fuel (by omega)
    rw [← e0] at key
    exact key

/-- … and with a negative increment -/
theorem for_count_neg {f0 m : Nat} {p : Obj} (init inc lim : Int) (hinc : inc < 0)
    (hhi : init ≤ maxInt64) (hinit : minInt64 ≤ init) (hlo : minInt64 ≤ lim) (σ : Nat → State)
    (h : ∀ i, i < forCount init inc lim →
      Runs f0 m p (pushS (σ i) (.int (init + (i : Int) * inc))) (σ (i + 1), .ok)) :
    ∀ fuel, f0 + forCount init inc lim + 1 ≤ fuel →
      forLoop fuel m (σ 0) init inc lim p = (σ (forCount init inc lim), .ok) := by
  intro fuel hf
  have e0 : init = init + ((0 : Nat) : Int) * inc := by simp
  have hnn : ∀ i : Nat, (i : Int) * inc ≤ 0 := fun i =>
    Int.mul_nonpos_of_nonneg_of_nonpos (Int.natCast_nonneg i) (Int.le_of_lt hinc)
  have hnext : ∀ i, i + 1 < forCount init inc lim →
      ¬ forOver inc (init + (i : Int) * inc) ∧ wrap64 (init + (i : Int) * inc + inc) = init + ((i + 1 : Nat) : Int) * inc := by
    intro i hi
    have hb := forCount_neg_below hinc hi
    rw [natCast_succ_mul] at hb ⊢
    have := hnn i
    refine ⟨by unfold forOver; omega, ?_⟩
    rw [wrap64_id' _ (by omega) (by omega)]
    omega
  by_cases hov : minInt64 ≤ init + (forCount init inc lim : Int) * inc
  · have hstep : ∀ i, i < forCount init inc lim →
        ¬ forOver inc (init + (i : Int) * inc) ∧ wrap64 (init + (i : Int) * inc + inc) = init + ((i + 1 : Nat) : Int) * inc := by
      intro i hi
      by_cases hl : i + 1 < forCount init inc lim
      · exact hnext i hl
      · have e : forCount init inc lim = i + 1 := by omega
        rw [e, natCast_succ_mul] at hov
        rw [natCast_succ_mul]
        have := hnn i
        refine ⟨by unfold forOver; omega, ?_⟩
        rw [wrap64_id' _ (by omega) (by omega)]
        omega
    have key := for_count_gen (f0 := f0) (m := m) (p := p) inc lim (fun i => init + (i : Int) * inc) σ
      (forCount init inc lim)
      (fun i hi => by
        have := forCount_neg_below hinc hi
        unfold forPast; omega)
      (fun i hi => (hstep i hi).1) (fun i hi => (hstep i hi).2)
      (by
        have := forCount_neg_past (init := init) (lim := lim) hinc
        unfold forPast; omega)
      h fuel hf
    rw [← e0] at key
    exact key
  · have hpos : 0 < forCount init inc lim := by
      apply Nat.pos_of_ne_zero
      intro e
      rw [e] at hov
      have hi0 : init < lim := by
        have := forCount_neg_past (init := init) (lim := lim) hinc
        rw [e] at this
        simpa using this
      apply hov
      simp only [Int.natCast_zero, Int.zero_mul, Int.add_zero]
      omega
    obtain ⟨j, hj⟩ : ∃ j, forCount init inc lim = j + 1 := ⟨forCount init inc lim - 1, by omega⟩
    rw [hj] at hov hf h hnext ⊢
    have key := for_count_gen_over (f0 := f0) (m := m) (p := p) inc lim (fun i => init + (i : Int) * inc) σ j
      (fun i hi => by
        have := forCount_neg_below (init := init) (lim := lim) hinc (i := i) (by omega)
        unfold forPast; omega)
      (fun i hi => (hnext i (by omega)).1) (fun i hi => (hnext i (by omega)).2)
      (by
        rw [natCast_succ_mul] at hov
        unfold forOver; right; exact ⟨hinc, by omega⟩)
      (fun i hi => h i (by omega)) fuel (by omega)
    rw [← e0] at key
    exact key

/-! ### `for`: zero increment; the former overflow witness -/

/-- with a zero increment the termination test never succeeds (Go: `increment > 0 && … ||
increment < 0 && …`): the loop can only be left by `exit`, `stop` or an error -/
theorem for_zero_never_past (lim v : Int) : ¬ forPast 0 lim v := by
  unfold forPast; omega

theorem for_zero_never_over (v : Int) : ¬ forOver 0 v := by
  unfold forOver; omega

/-- `j` turns of `for` with increment 0: the control value stays `init` -/
theorem for_zero_prefix {f0 m : Nat} {p : Obj} (init lim : Int) (hlo : minInt64 ≤ init) (hhi : init ≤ maxInt64)
    (σ : Nat → State) (j : Nat)
    (h : ∀ i, i < j → Runs f0 m p (pushS (σ i) (.int init)) (σ (i + 1), .ok)) :
    ∀ (F : Nat), f0 ≤ F → forLoop (F + 1 + j) m (σ 0) init 0 lim p = forLoop (F + 1) m (σ j) init 0 lim p :=
  for_prefix 0 lim (fun _ => init) σ j (fun _ _ => for_zero_never_past lim init)
    (fun _ _ => for_zero_never_over init)
    (fun _ _ => by rw [Int.add_zero]; exact wrap64_id' init hlo hhi) h

theorem for_zero_breaks {f0 m : Nat} {p : Obj} (init lim : Int) (hlo : minInt64 ≤ init) (hhi : init ≤ maxInt64)
    (σ : Nat → State) (j : Nat)
    (h : ∀ i, i < j → Runs f0 m p (pushS (σ i) (.int init)) (σ (i + 1), .ok))
    (s' : State) (r : Res) (hr : r ≠ .ok) (hlast : Runs f0 m p (pushS (σ j) (.int init)) (s', r)) :
    ∀ fuel, f0 + j + 2 ≤ fuel → forLoop fuel m (σ 0) init 0 lim p = broken s' r :=
  for_breaks_gen 0 lim (fun _ => init) σ j (fun _ _ => for_zero_never_past lim init)
    (fun _ _ => for_zero_never_over init)
    (fun _ _ => by rw [Int.add_zero]; exact wrap64_id' init hlo hhi) h s' r hr hlast

/-- **the former overflow witness**: `0 4611686018427387904 9223372036854775807 proc for` runs
`proc` exactly twice, with `0` and `2^62` pushed (before the repair of `bFor` the control value
wrapped around to `-2^63` and the loop never ended) — instance of `for_count_pos` -/
theorem for_overflow_fixed {f0 m : Nat} {p : Obj} (σ : Nat → State)
    (h0 : Runs f0 m p (pushS (σ 0) (.int 0)) (σ 1, .ok))
    (h1 : Runs f0 m p (pushS (σ 1) (.int 4611686018427387904)) (σ 2, .ok)) :
    forCount 0 4611686018427387904 9223372036854775807 = 2 ∧
    ∀ fuel, f0 + 3 ≤ fuel →
      forLoop fuel m (σ 0) 0 4611686018427387904 9223372036854775807 p = (σ 2, .ok) := by
  have hc : forCount 0 4611686018427387904 9223372036854775807 = 2 := by decide +kernel
  refine ⟨hc, ?_⟩
  intro fuel hf
  have key := for_count_pos (f0 := f0) (m := m) (p := p) 0 4611686018427387904 9223372036854775807
    (by decide) (by decide) (by decide) (by decide) σ
    (by
      rw [hc]
      intro i hi
      have : i = 0 ∨ i = 1 := by omega
      rcases this with rfl | rfl
      · exact h0
      · exact h1)
    fuel (by rw [hc]; omega)
  rw [hc] at key
  exact key

/-! ### the operators: from `callBuiltin` to the loop functions -/

theorem repeat_op (f m : Nat) (s : State) (r o l : Nat) (n : Int) (rest : List Obj)
    (hs : s.vm.stack = .proc r o l :: .int n :: rest) (hn : 0 ≤ n) :
    callBuiltin (f + 1) m s "repeat" = repeatLoop f m (setStack s rest) n.toNat (.proc r o l) := by
  unfold callBuiltin
  have : ¬ n < 0 := by omega
  simp [hs, this]

theorem repeat_op_negative (f m : Nat) (s : State) (q : Obj) (n : Int) (rest : List Obj)
    (hs : s.vm.stack = q :: .int n :: rest) (hn : n < 0) :
    callBuiltin (f + 1) m s "repeat" = (s, .err (.ps "rangecheck")) := by
  unfold callBuiltin
  simp [hs, hn, psErrS]

theorem for_op (f m : Nat) (s : State) (q : Obj) (init inc lim : Int) (rest : List Obj)
    (hs : s.vm.stack = q :: .int lim :: .int inc :: .int init :: rest) :
    callBuiltin (f + 1) m s "for" = forLoop f m (setStack s rest) init inc lim q := by
  unfold callBuiltin
  simp [hs]

theorem loop_op (f m : Nat) (s : State) (q : Obj) (rest : List Obj) (hs : s.vm.stack = q :: rest) :
    callBuiltin (f + 1) m s "loop" = loopLoop f m (setStack s rest) q := by
  unfold callBuiltin
  simp [hs]

theorem forall_op_array (f m : Nat) (s : State) (r o l ar ao al : Nat) (rest : List Obj)
    (hs : s.vm.stack = .proc r o l :: .arr ar ao al :: rest) :
    callBuiltin (f + 1) m s "forall" = forallArr f m (setStack s rest) ar ao 0 al (.proc r o l) := by
  unfold callBuiltin
  simp [hs]

theorem forall_op_string (f m : Nat) (s : State) (r o l ar ao al : Nat) (rest : List Obj)
    (hs : s.vm.stack = .proc r o l :: .str ar ao al :: rest) :
    callBuiltin (f + 1) m s "forall" = forallStr f m (setStack s rest) ar ao 0 al (.proc r o l) := by
  unfold callBuiltin
  simp [hs]

theorem forall_op_dict (f m : Nat) (s : State) (r o l d : Nat) (rest : List Obj)
    (hs : s.vm.stack = .proc r o l :: .dict d :: rest) :
    callBuiltin (f + 1) m s "forall" =
      forallDict f m (setStack s rest) d (sortNames ((s.vm.getDict d).map (·.1))) (.proc r o l) := by
  unfold callBuiltin
  simp [hs]

/-- `for` with a real among its three numbers is a `typecheck` -/
theorem for_op_real_increment (f m : Nat) (s : State) (q lim ini : Obj) (b : UInt64) (rest : List Obj)
    (hs : s.vm.stack = q :: lim :: .real b :: ini :: rest) :
    callBuiltin (f + 1) m s "for" = (s, .err (.ps "typecheck")) := by
  unfold callBuiltin
  simp only [hs]
  cases ini <;> simp [psErrS]


/-! ### executing a concrete body: `{ 1 add }` -/

theorem int_element (f m : Nat) (s : State) (k : Int) (h : s.vm.stack.length ≤ 500)
    (hp : s.procStart = []) (hb : ¬ (m > 0 ∧ s.numOps + 1 > m)) :
    execOne (f + 3) m s (.int k) false = (pushS { s with numOps := s.numOps + 1 } (.int k), .ok) := by
  simp only [execOne, execBody]
  have h0 : ¬ s.vm.stack.length > maxOperandStackDepth := by unfold maxOperandStackDepth; omega
  have e1 : (Obj.int k == Obj.op "}") = false := by simp
  have e2 : (Obj.int k == Obj.op "{") = false := by simp
  have e3 : s.procStart.isEmpty = true := by rw [hp]; rfl
  simp only [h0, if_false, e1, e2, e3, Bool.not_true, Bool.false_eq_true]
  unfold execTail
  simp [hb, okS]

theorem add_named (f m : Nat) (s : State) (a b : Int) (rest : List Obj) (c : Bool)
    (hst : s.vm.stack = .int b :: .int a :: rest)
    (hl : lookupName s.vm "add" = some (.builtin "add"))
    (hb : ¬ (m > 0 ∧ s.numOps + 2 > m))
    (hov : addOverflow a b (wrap64 (a + b)) = false) :
    execTail (f + 3) m s (.op "add") c true =
      ({ s with numOps := s.numOps + 2, vm := { s.vm with stack := .int (wrap64 (a + b)) :: rest } }, .ok) := by
  have hb1 : ¬ (m > 0 ∧ s.numOps + 1 > m) := by omega
  have hb2 : ¬ (m > 0 ∧ s.numOps + 1 + 1 > m) := by omega
  unfold execTail
  simp only [hb1, if_false, hl]
  unfold execTail
  simp only [hb2, if_false]
  unfold callBuiltin
  simp [pureBuiltin, bAdd, arith, hst, isNumber, hov, okRes, VM.push]

/-- entering / leaving a level of the execution stack in `executeOne(obj, true)` -/
def enterDepth (s : State) : State :=
  { s with execDepth := s.execDepth + 1, hiDepth := max s.hiDepth (s.execDepth + 1) }

def leaveDepth (q : State × Res) : State × Res := ({ q.1 with execDepth := q.1.execDepth - 1 }, q.2)

/-- `executeOne(obj, true)`: the depth bookkeeping around `execBody` -/
theorem execOne_true (f m : Nat) (s : State) (o : Obj) (hd : s.execDepth < 100) :
    execOne (f + 1) m s o true = leaveDepth (execBody f m (enterDepth s) o true) := by
  have hd' : ¬ s.execDepth ≥ execDepthLimit := by unfold execDepthLimit; omega
  simp only [execOne, if_true, hd', if_false, leaveDepth, enterDepth]

/-- outside an open `{`, anything but a brace goes to the `recurseTail` loop -/
theorem execBody_plain (f m : Nat) (s : State) (o : Obj) (b : Bool) (h : s.vm.stack.length ≤ 500)
    (hp : s.procStart = []) (h1 : o ≠ .op "}") (h2 : o ≠ .op "{") :
    execBody (f + 1) m s o b = execTail f m s o b b := by
  simp only [execBody]
  have h0 : ¬ s.vm.stack.length > maxOperandStackDepth := by unfold maxOperandStackDepth; omega
  have e3 : s.procStart.isEmpty = true := by rw [hp]; rfl
  simp [h0, h1, h2, e3]

/-- the state after one run of `{ 1 add }` on an integer `v` on top of the stack -/
def incrState (s : State) (v : Int) (rest : List Obj) : State :=
  { s with numOps := s.numOps + 4, hiDepth := max s.hiDepth (s.execDepth + 1),
           vm := { s.vm with stack := .int (v + 1) :: rest } }

theorem runBody_single (f m : Nat) (s : State) (r o i : Nat) (tok : Obj) (s1 : State)
    (ht : (s.vm.getObjs r)[o + i]? = some tok) (h : execOne (f + 1) m s tok false = (s1, .ok)) :
    runBody (f + 2) m s r o i 1 = (s1, .ok) := by
  simp only [runBody, ht, h, okS]

theorem incr_tail (f m : Nat) (s : State) (r : Nat) (v : Int) (rest : List Obj)
    (hp : s.procStart = [])
    (hst : s.vm.stack = .int v :: rest) (hlen : rest.length + 2 ≤ 500)
    (hcell : s.vm.getObjs r = #[.int 1, .op "add"])
    (hl : lookupName s.vm "add" = some (.builtin "add"))
    (hb : m = 0 ∨ s.numOps + 4 ≤ m)
    (hv1 : minInt64 ≤ v) (hv2 : v + 1 ≤ maxInt64) :
    execTail (f + 5) m s (.proc r 0 2) true true =
      ({ s with numOps := s.numOps + 4, vm := { s.vm with stack := .int (v + 1) :: rest } }, .ok) := by
  have hb1 : ¬ (m > 0 ∧ s.numOps + 1 > m) := by omega
  conv => lhs; unfold execTail
  have e0 : ((2 : Nat) == 0) = false := by decide
  simp only [hb1, if_false, if_true, enterLevel, leaveLevel, e0, Bool.false_eq_true, Bool.not_true, Bool.false_and]
  have hrun : runBody (f + 4) m { s with numOps := s.numOps + 1 } r 0 0 (2 - 1) =
      (pushS { s with numOps := s.numOps + 1 + 1 } (.int 1), .ok) := by
    apply runBody_single (f + 2) m { s with numOps := s.numOps + 1 } r 0 0 (.int 1)
    · show (s.vm.getObjs r)[0 + 0]? = _
      rw [hcell]; rfl
    · exact int_element f m { s with numOps := s.numOps + 1 } 1
        (by show s.vm.stack.length ≤ 500; rw [hst]; simp; omega) hp
        (by show ¬ (m > 0 ∧ s.numOps + 1 + 1 > m); omega)
  rw [hrun]
  have hlast : (VM.getObjs (pushS { s with numOps := s.numOps + 1 + 1 } (.int 1)).vm r)[0 + (2 - 1)]? = some (.op "add") := by
    show (s.vm.getObjs r)[0 + (2 - 1)]? = _
    rw [hcell]; rfl
  dsimp only
  rw [hlast]
  dsimp only
  have hw : wrap64 (v + 1) = v + 1 := wrap64_id' _ (by omega) hv2
  have hov : addOverflow v 1 (wrap64 (v + 1)) = false := by
    rw [hw]; unfold addOverflow; unfold minInt64 at hv1; simp; omega
  rw [add_named (f + 1) m (pushS { s with numOps := s.numOps + 1 + 1 } (.int 1)) v 1 rest false
    (by show (Obj.int 1 :: s.vm.stack) = _; rw [hst]) hl
    (by show ¬ (m > 0 ∧ s.numOps + 1 + 1 + 2 > m); omega) hov, hw]
  rfl

theorem incr_body (f m : Nat) (s : State) (r : Nat) (v : Int) (rest : List Obj)
    (hd : s.execDepth < 100) (hp : s.procStart = [])
    (hst : s.vm.stack = .int v :: rest) (hlen : rest.length + 2 ≤ 500)
    (hcell : s.vm.getObjs r = #[.int 1, .op "add"])
    (hl : lookupName s.vm "add" = some (.builtin "add"))
    (hb : m = 0 ∨ s.numOps + 4 ≤ m)
    (hv1 : minInt64 ≤ v) (hv2 : v + 1 ≤ maxInt64) :
    execOne (f + 7) m s (.proc r 0 2) true = (incrState s v rest, .ok) := by
  rw [execOne_true _ _ _ _ hd, execBody_plain (f + 5) m (enterDepth s) (.proc r 0 2) true
    (by show s.vm.stack.length ≤ 500; rw [hst]; simp; omega) hp (by simp) (by simp)]
  rw [incr_tail f m (enterDepth s) r v rest hp hst hlen hcell hl hb hv1 hv2]
  simp [incrState, leaveDepth, enterDepth]


/-! ### executing a concrete body: `{ add }` -/

/-- the state after one run of `{ add }` with result `c` -/
def addState (s : State) (c : Int) (rest : List Obj) : State :=
  { s with numOps := s.numOps + 3, hiDepth := max s.hiDepth (s.execDepth + 1),
           vm := { s.vm with stack := .int c :: rest } }

theorem add_tail (f m : Nat) (s : State) (r : Nat) (a b : Int) (rest : List Obj)
    (hst : s.vm.stack = .int b :: .int a :: rest)
    (hcell : s.vm.getObjs r = #[.op "add"])
    (hl : lookupName s.vm "add" = some (.builtin "add"))
    (hb : m = 0 ∨ s.numOps + 3 ≤ m)
    (h1 : minInt64 ≤ a + b) (h2 : a + b ≤ maxInt64) :
    execTail (f + 4) m s (.proc r 0 1) true true =
      ({ s with numOps := s.numOps + 3, vm := { s.vm with stack := .int (a + b) :: rest } }, .ok) := by
  have hb1 : ¬ (m > 0 ∧ s.numOps + 1 > m) := by omega
  conv => lhs; unfold execTail
  have e0 : ((1 : Nat) == 0) = false := by decide
  simp only [hb1, if_false, if_true, enterLevel, leaveLevel, e0, Bool.false_eq_true, Bool.not_true, Bool.false_and]
  have hrun : runBody (f + 3) m { s with numOps := s.numOps + 1 } r 0 0 (1 - 1) =
      ({ s with numOps := s.numOps + 1 }, .ok) := by
    show runBody (f + 2 + 1) m _ r 0 0 0 = _
    simp only [runBody, okS]
  rw [hrun]
  have hlast : (VM.getObjs ({ s with numOps := s.numOps + 1 } : State).vm r)[0 + (1 - 1)]? = some (.op "add") := by
    show (s.vm.getObjs r)[0 + (1 - 1)]? = _
    rw [hcell]; rfl
  dsimp only
  rw [hlast]
  dsimp only
  have hw : wrap64 (a + b) = a + b := wrap64_id' _ h1 h2
  have hov : addOverflow a b (wrap64 (a + b)) = false := by
    rw [hw]; unfold addOverflow; unfold minInt64 at h1; unfold maxInt64 at h2
    simp only [Bool.or_eq_false_iff, Bool.and_eq_false_iff, decide_eq_false_iff_not]
    omega
  rw [add_named f m { s with numOps := s.numOps + 1 } a b rest false hst hl
    (by show ¬ (m > 0 ∧ s.numOps + 1 + 2 > m); omega) hov, hw]

theorem add_body (f m : Nat) (s : State) (r : Nat) (a b : Int) (rest : List Obj)
    (hd : s.execDepth < 100) (hp : s.procStart = [])
    (hst : s.vm.stack = .int b :: .int a :: rest) (hlen : rest.length + 2 ≤ 500)
    (hcell : s.vm.getObjs r = #[.op "add"])
    (hl : lookupName s.vm "add" = some (.builtin "add"))
    (hb : m = 0 ∨ s.numOps + 3 ≤ m)
    (h1 : minInt64 ≤ a + b) (h2 : a + b ≤ maxInt64) :
    execOne (f + 6) m s (.proc r 0 1) true = (addState s (a + b) rest, .ok) := by
  rw [execOne_true _ _ _ _ hd, execBody_plain (f + 4) m (enterDepth s) (.proc r 0 1) true
    (by show s.vm.stack.length ≤ 500; rw [hst]; simp; omega) hp (by simp) (by simp)]
  rw [add_tail f m (enterDepth s) r a b rest hst hcell hl hb h1 h2]
  simp [addState, leaveDepth, enterDepth]

/-! ### executing a concrete body: `{ pop }` -/

theorem pop_named (f m : Nat) (s : State) (a : Obj) (rest : List Obj) (c : Bool)
    (hst : s.vm.stack = a :: rest)
    (hl : lookupName s.vm "pop" = some (.builtin "pop"))
    (hb : ¬ (m > 0 ∧ s.numOps + 2 > m)) :
    execTail (f + 3) m s (.op "pop") c true =
      ({ s with numOps := s.numOps + 2, vm := { s.vm with stack := rest } }, .ok) := by
  have hb1 : ¬ (m > 0 ∧ s.numOps + 1 > m) := by omega
  have hb2 : ¬ (m > 0 ∧ s.numOps + 1 + 1 > m) := by omega
  unfold execTail
  simp only [hb1, if_false, hl]
  unfold execTail
  simp only [hb2, if_false]
  unfold callBuiltin
  simp [pureBuiltin, bPop, hst, okRes]

/-- the state after one run of `{ pop }` -/
def popState (s : State) (rest : List Obj) : State :=
  { s with numOps := s.numOps + 3, hiDepth := max s.hiDepth (s.execDepth + 1),
           vm := { s.vm with stack := rest } }

theorem pop_body (f m : Nat) (s : State) (r : Nat) (a : Obj) (rest : List Obj)
    (hd : s.execDepth < 100) (hp : s.procStart = [])
    (hst : s.vm.stack = a :: rest) (hlen : rest.length + 1 ≤ 500)
    (hcell : s.vm.getObjs r = #[.op "pop"])
    (hl : lookupName s.vm "pop" = some (.builtin "pop"))
    (hb : m = 0 ∨ s.numOps + 3 ≤ m) :
    execOne (f + 6) m s (.proc r 0 1) true = (popState s rest, .ok) := by
  rw [execOne_true _ _ _ _ hd, execBody_plain (f + 4) m (enterDepth s) (.proc r 0 1) true
    (by show s.vm.stack.length ≤ 500; rw [hst]; simp; omega) hp (by simp) (by simp)]
  have hb1 : ¬ (m > 0 ∧ (enterDepth s).numOps + 1 > m) := by show ¬ (m > 0 ∧ s.numOps + 1 > m); omega
  conv => lhs; arg 1; unfold execTail
  have e0 : ((1 : Nat) == 0) = false := by decide
  simp only [hb1, if_false, if_true, enterLevel, leaveLevel, e0, Bool.false_eq_true, Bool.not_true, Bool.false_and]
  have hrun : runBody (f + 3) m { enterDepth s with numOps := (enterDepth s).numOps + 1 } r 0 0 (1 - 1) =
      ({ enterDepth s with numOps := (enterDepth s).numOps + 1 }, .ok) := by
    show runBody (f + 2 + 1) m _ r 0 0 0 = _
    simp only [runBody, okS]
  rw [hrun]
  have hlast : (VM.getObjs ({ enterDepth s with numOps := (enterDepth s).numOps + 1 } : State).vm r)[0 + (1 - 1)]? =
      some (.op "pop") := by
    show (s.vm.getObjs r)[0 + (1 - 1)]? = _
    rw [hcell]; rfl
  dsimp only
  rw [hlast]
  dsimp only
  rw [pop_named f m { enterDepth s with numOps := (enterDepth s).numOps + 1 } a rest false hst hl
    (by show ¬ (m > 0 ∧ s.numOps + 1 + 2 > m); omega)]
  simp [popState, leaveDepth, enterDepth]

#print axioms repeat_count
#print axioms repeat_breaks
#print axioms loop_breaks
#print axioms for_count_gen
#print axioms for_breaks_gen
#print axioms for_count_pos
#print axioms for_count_neg
#print axioms for_zero_breaks
#print axioms for_count_gen_over
#print axioms for_overflow_fixed
#print axioms forallArr_count_gen
#print axioms forallArr_breaks_gen
#print axioms forallStr_count_gen
#print axioms forallStr_breaks_gen
#print axioms forallDict_count_gen
#print axioms forallDict_breaks_gen
#print axioms sortNames_sorted
#print axioms sortNames_strict
#print axioms sortNames_perm_eq
#print axioms sortNames_of_sorted
#print axioms for_op_real_increment
#print axioms incr_body
#print axioms add_body
#print axioms pop_body

end PsVerif.Proofs.Loops
