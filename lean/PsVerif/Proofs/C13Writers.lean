import PsVerif.Model.T1Writers
/-!
Helper lemmas for `Props/C13Writers.lean`: the buffering writers `eexecWriter` and `hexWriter` over a fallible
underlying writer (`Model/T1Writers.lean`).

* `…_ok` lemmas: what an operation does on an underlying writer that never fails (`failAt = none`);
* `…_twin` lemmas: an operation run on a writer failing at call `k` next to the same operation on its fault-free
  twin: either no error, same state, still twins; or an error, and the accepted blocks are the first `k` blocks
  of the fault-free run.
-/
namespace PsVerif.Proofs.C13Writers
open PsVerif.Model PsVerif.Model.T1Writers PsVerif.Model.Cipher

/-! ## cipher -/

theorem encLoop_fst (r : UInt16) (ps : Bytes) : (encLoop r ps).1 = encrypt r ps := by
  induction ps generalizing r with
  | nil => rfl
  | cons p ps ih => simp [encLoop, encrypt, ih]

theorem encrypt_append (r : UInt16) (a b : Bytes) :
    encrypt r (a ++ b) = encrypt r a ++ encrypt (encLoop r a).2 b := by
  induction a generalizing r with
  | nil => rfl
  | cons p ps ih => simp [encLoop, encrypt, ih]

theorem encrypt_length (r : UInt16) (ps : Bytes) : (encrypt r ps).length = ps.length := by
  induction ps generalizing r with
  | nil => rfl
  | cons p ps ih => simp [encrypt, ih]

/-! ## lists -/

theorem flatten_length_of_all (c : Nat) (l : List Bytes) (h : ∀ b ∈ l, b.length = c) :
    l.flatten.length = c * l.length := by
  induction l with
  | nil => simp
  | cons b l ih =>
    have hb := h b (by simp)
    have := ih (fun x hx => h x (by simp [hx]))
    simp [List.flatten_cons, hb, this, Nat.mul_add]
    omega

theorem take_prefix {α : Type} (l m : List α) (k : Nat) (h : l.length = k) : (l ++ m).take k = l := by
  subst h; simp

/-! ## the underlying writer -/

theorem uwWrite_none (w : UW) (p : Bytes) (hf : w.failAt = none) :
    uwWrite w p = ({ w with blocks := w.blocks ++ [p], calls := w.calls + 1 }, false) := by
  simp [uwWrite, hf]

/-- writers that agree so far: `w` fails at call `k`, `w0` never; no call has failed yet -/
structure Twin (k : Nat) (w w0 : UW) : Prop where
  fa : w.failAt = some k
  fa0 : w0.failAt = none
  bl : w.blocks = w0.blocks
  ca : w.calls = w0.calls
  len : w0.calls = w0.blocks.length
  le : w0.calls ≤ k

/-- `w` has failed: it holds the first `k` blocks of what the fault-free `w0` holds -/
def Failed (k : Nat) (w w0 : UW) : Prop := w.blocks = w0.blocks.take k ∧ k < w0.blocks.length

theorem Failed.mono {k : Nat} {w w0 w0' : UW} (h : Failed k w w0) (ext : List Bytes)
    (he : w0'.blocks = w0.blocks ++ ext) : Failed k w w0' := by
  obtain ⟨h1, h2⟩ := h
  refine ⟨?_, ?_⟩
  · rw [he, h1, List.take_append_of_le_length (by omega)]
  · rw [he]; simp; omega

theorem uwWrite_twin {k : Nat} {w w0 : UW} (ht : Twin k w w0) (p : Bytes) :
    ((uwWrite w p).2 = false ∧ Twin k (uwWrite w p).1 (uwWrite w0 p).1 ∧ w0.calls < k) ∨
    ((uwWrite w p).2 = true ∧ (uwWrite w p).1.blocks = w0.blocks ∧ w0.blocks.length = k) := by
  obtain ⟨fa, fa0, bl, ca, len, le⟩ := ht
  rw [uwWrite_none w0 p fa0]
  by_cases hk : w0.calls = k
  · right
    have : w.failAt = some w.calls := by rw [fa, ca, hk]
    simp [uwWrite, this, bl]; omega
  · left
    have : ¬ w.failAt = some w.calls := by rw [fa, ca]; simp; omega
    simp only [uwWrite, this, if_false, true_and]
    refine ⟨⟨fa, fa0, ?_, ?_, ?_, ?_⟩, by omega⟩
    · simp [bl]
    · simp [ca]
    · simp [len]
    · simp; omega

/-! ## `eexecWriter`, fault-free -/

theorem ewFlush_ok (e : EW) (w : UW) (hf : w.failAt = none) :
    ewFlush e w = ({ buf := [], R := (encLoop e.R e.buf).2 },
      { w with blocks := w.blocks ++ [encrypt e.R e.buf], calls := w.calls + 1 }, false) := by
  simp [ewFlush, uwWrite_none w _ hf, encLoop_fst]

theorem ewWriteLoop_ok (fuel : Nat) (e : EW) (w : UW) (p : Bytes) (n : Nat)
    (hf : w.failAt = none) (hb : e.buf.length < cap) (hfuel : p.length < fuel) :
    ∃ (new : List Bytes) (e' : EW),
      ewWriteLoop fuel e w p n =
        (e', { w with blocks := w.blocks ++ new, calls := w.calls + new.length }, n + p.length, false) ∧
      e'.buf.length < cap ∧ (∀ b ∈ new, b.length = cap) ∧
      ∀ q, encrypt e.R (e.buf ++ p ++ q) = new.flatten ++ encrypt e'.R (e'.buf ++ q) := by
  induction fuel generalizing e w p n with
  | zero => omega
  | succ fuel ih =>
    unfold ewWriteLoop
    cases p with
    | nil =>
      refine ⟨[], e, ?_, hb, by simp, by simp⟩
      simp
    | cons c cs =>
      simp only [List.isEmpty_cons, Bool.false_eq_true, if_false]
      generalize hk : min (cap - e.buf.length) (c :: cs).length = k
      have hk1 : 1 ≤ k := by simp at hk; omega
      have hk2 : k ≤ (c :: cs).length := by omega
      have hdrop : ((c :: cs).drop k).length < fuel := by simp at hfuel ⊢; omega
      by_cases hc : (e.buf ++ (c :: cs).take k).length ≥ cap
      · simp only [hc, if_true, ewFlush_ok _ w hf]
        have hlen : (e.buf ++ (c :: cs).take k).length = cap := by
          simp at hc ⊢; omega
        obtain ⟨new, e', h1, h2, h3, h4⟩ := ih { buf := [], R := (encLoop e.R (e.buf ++ (c :: cs).take k)).2 }
          { w with blocks := w.blocks ++ [encrypt e.R (e.buf ++ (c :: cs).take k)], calls := w.calls + 1 }
          ((c :: cs).drop k) (n + k) hf (by simp [cap]) hdrop
        refine ⟨encrypt e.R (e.buf ++ (c :: cs).take k) :: new, e', ?_, h2, ?_, ?_⟩
        · simp only [Bool.false_eq_true, if_false]
          rw [h1]
          simp only [List.length_drop, List.length_cons, List.append_assoc, List.singleton_append, Prod.mk.injEq,
            true_and, and_true]
          refine ⟨?_, ?_⟩
          · congr 1; omega
          · simp at hk2; omega
        · intro b hb'
          simp at hb'
          rcases hb' with rfl | hb'
          · rw [encrypt_length]; exact hlen
          · exact h3 b hb'
        · intro q
          have := h4 q
          simp only [List.nil_append] at this
          have e1 : e.buf ++ (c :: cs) ++ q = (e.buf ++ (c :: cs).take k) ++ ((c :: cs).drop k ++ q) := by
            rw [List.append_assoc, List.append_assoc, ← List.append_assoc ((c :: cs).take k),
              List.take_append_drop]
          rw [e1, encrypt_append, this, List.flatten_cons, List.append_assoc]
      · simp only [hc, if_false]
        have hkk : k = (c :: cs).length := by simp at hc hk ⊢; omega
        have htake : (c :: cs).take k = c :: cs := by rw [hkk]; simp
        have hdrop0 : (c :: cs).drop k = [] := by rw [hkk]; simp
        obtain ⟨new, e', h1, h2, h3, h4⟩ := ih { e with buf := e.buf ++ (c :: cs).take k } w
          ((c :: cs).drop k) (n + k) hf (by simpa using hc) hdrop
        refine ⟨new, e', ?_, h2, h3, ?_⟩
        · rw [h1, hdrop0, hkk]; simp
        · intro q
          have := h4 q
          simp only [htake, hdrop0, List.append_nil] at this
          exact this

theorem ewWrite_ok (e : EW) (w : UW) (p : Bytes) (hf : w.failAt = none) (hb : e.buf.length < cap) :
    ∃ (new : List Bytes) (e' : EW),
      ewWrite e w p =
        (e', { w with blocks := w.blocks ++ new, calls := w.calls + new.length }, p.length, false) ∧
      e'.buf.length < cap ∧ (∀ b ∈ new, b.length = cap) ∧
      ∀ q, encrypt e.R (e.buf ++ p ++ q) = new.flatten ++ encrypt e'.R (e'.buf ++ q) := by
  have := ewWriteLoop_ok (p.length + 1) e w p 0 hf hb (by omega)
  simpa [ewWrite] using this

theorem ewRun_ok (e : EW) (w : UW) (ps : List Bytes) (hf : w.failAt = none) (hb : e.buf.length < cap) :
    ∃ (full : List Bytes) (last : Bytes),
      ewRun e w ps = (ps.map List.length, true,
        { w with blocks := w.blocks ++ (full ++ [last]), calls := w.calls + (full.length + 1) }) ∧
      (∀ b ∈ full, b.length = cap) ∧ last.length < cap ∧
      full.flatten ++ last = encrypt e.R (e.buf ++ ps.flatten) := by
  induction ps generalizing e w with
  | nil =>
    refine ⟨[], encrypt e.R e.buf, ?_, by simp, by rw [encrypt_length]; exact hb, by simp⟩
    simp [ewRun, ewClose, ewFlush_ok e w hf]
  | cons p ps ih =>
    obtain ⟨new, e', h1, h2, h3, h4⟩ := ewWrite_ok e w p hf hb
    obtain ⟨full, last, g1, g2, g3, g4⟩ := ih e'
      { w with blocks := w.blocks ++ new, calls := w.calls + new.length } hf h2
    refine ⟨new ++ full, last, ?_, ?_, g3, ?_⟩
    · unfold ewRun
      simp only [h1, Bool.false_eq_true, if_false, g1]
      simp [Nat.add_assoc]
    · intro b hb'
      rcases List.mem_append.mp hb' with hb' | hb'
      · exact h3 b hb'
      · exact g2 b hb'
    · have := h4 ps.flatten
      simp only [List.flatten_cons, List.flatten_append, List.append_assoc] at this ⊢
      rw [this, g4]

/-! ## `eexecWriter`, next to a failing twin -/

theorem ewFlush_twin {k : Nat} {w w0 : UW} (ht : Twin k w w0) (e : EW) :
    ((ewFlush e w).2.2 = false ∧ (ewFlush e w).1 = (ewFlush e w0).1 ∧
      Twin k (ewFlush e w).2.1 (ewFlush e w0).2.1 ∧ w0.calls < k) ∨
    ((ewFlush e w).2.2 = true ∧ (ewFlush e w).2.1.blocks = w0.blocks ∧ w0.blocks.length = k) := by
  rcases uwWrite_twin ht (encLoop e.R e.buf).1 with ⟨h1, h2, h3⟩ | ⟨h1, h2, h3⟩
  · left
    have h0 : (uwWrite w0 (encLoop e.R e.buf).1).2 = false := by rw [uwWrite_none _ _ ht.fa0]
    simp only [ewFlush, h1, h0, Bool.false_eq_true, if_false, true_and]
    exact ⟨h2, h3⟩
  · right
    simp only [ewFlush, h1, if_true, true_and]
    exact ⟨h2, h3⟩

theorem ewWriteLoop_twin {k : Nat} (fuel : Nat) (e : EW) (w w0 : UW) (p : Bytes) (n : Nat)
    (ht : Twin k w w0) (hb : e.buf.length < cap) (hfuel : p.length < fuel) :
    ((ewWriteLoop fuel e w p n).2.2.2 = false ∧
      (ewWriteLoop fuel e w p n).1 = (ewWriteLoop fuel e w0 p n).1 ∧
      (ewWriteLoop fuel e w p n).2.2.1 = (ewWriteLoop fuel e w0 p n).2.2.1 ∧
      Twin k (ewWriteLoop fuel e w p n).2.1 (ewWriteLoop fuel e w0 p n).2.1) ∨
    ((ewWriteLoop fuel e w p n).2.2.2 = true ∧
      Failed k (ewWriteLoop fuel e w p n).2.1 (ewWriteLoop fuel e w0 p n).2.1) := by
  induction fuel generalizing e w w0 p n with
  | zero => omega
  | succ fuel ih =>
    unfold ewWriteLoop
    cases p with
    | nil => left; simp [ht]
    | cons c cs =>
      simp only [List.isEmpty_cons, Bool.false_eq_true, if_false]
      generalize hk : min (cap - e.buf.length) (c :: cs).length = k'
      have hk1 : 1 ≤ k' := by simp at hk; omega
      have hdrop : ((c :: cs).drop k').length < fuel := by simp at hfuel ⊢; omega
      by_cases hc : (e.buf ++ (c :: cs).take k').length ≥ cap
      · simp only [hc, if_true]
        rcases ewFlush_twin ht { e with buf := e.buf ++ (c :: cs).take k' } with ⟨h1, h2, h3, _⟩ | ⟨h1, h2, h3⟩
        · have h0 : (ewFlush { e with buf := e.buf ++ (c :: cs).take k' } w0).2.2 = false := by
            rw [ewFlush_ok _ _ ht.fa0]
          simp only [h1, h0, Bool.false_eq_true, if_false]
          rw [h2]
          exact ih _ _ _ _ _ h3 (by rw [ewFlush_ok _ _ ht.fa0]; simp [cap]) hdrop
        · right
          simp only [h1, if_true, true_and]
          rw [ewFlush_ok _ _ ht.fa0]
          simp only [Bool.false_eq_true, if_false]
          obtain ⟨new, e', g1, _⟩ := ewWriteLoop_ok fuel
            { buf := [], R := (encLoop e.R (e.buf ++ (c :: cs).take k')).2 }
            { w0 with blocks := w0.blocks ++ [encrypt e.R (e.buf ++ (c :: cs).take k')], calls := w0.calls + 1 }
            ((c :: cs).drop k') (n + k') ht.fa0 (by simp [cap]) hdrop
          rw [g1]
          refine ⟨?_, ?_⟩
          · simp only [h2]
            rw [List.append_assoc, take_prefix _ _ _ h3]
          · simp; omega
      · simp only [hc, if_false]
        exact ih _ _ _ _ _ ht (by simpa using hc) hdrop

theorem ewRun_twin {k : Nat} (e : EW) (w w0 : UW) (ps : List Bytes)
    (ht : Twin k w w0) (hb : e.buf.length < cap) :
    ((ewRun e w ps).2.1 = true ∧ (ewRun e w ps).1 = (ewRun e w0 ps).1 ∧
      (ewRun e w ps).2.2.blocks = (ewRun e w0 ps).2.2.blocks ∧ (ewRun e w0 ps).2.2.blocks.length ≤ k) ∨
    ((ewRun e w ps).2.1 = false ∧ Failed k (ewRun e w ps).2.2 (ewRun e w0 ps).2.2) := by
  induction ps generalizing e w w0 with
  | nil =>
    unfold ewRun ewClose
    rcases ewFlush_twin ht e with ⟨h1, h2, h3, h4⟩ | ⟨h1, h2, h3⟩
    · left
      simp only [h1, Bool.not_false, true_and]
      refine ⟨h3.bl, ?_⟩
      rw [← h3.len]; exact h3.le
    · right
      simp only [h1, Bool.not_true, true_and]
      rw [ewFlush_ok _ _ ht.fa0]
      refine ⟨?_, ?_⟩
      · simp only [h2]; rw [take_prefix _ _ _ h3]
      · simp; omega
  | cons p ps ih =>
    unfold ewRun
    obtain ⟨new, e', g1, g2, _⟩ := ewWrite_ok e w0 p ht.fa0 hb
    have tw := ewWriteLoop_twin (p.length + 1) e w w0 p 0 ht hb (by omega)
    rw [show ewWriteLoop (p.length + 1) e w p 0 = ewWrite e w p from rfl,
      show ewWriteLoop (p.length + 1) e w0 p 0 = ewWrite e w0 p from rfl] at tw
    rcases tw with ⟨h1, h2, h3, h4⟩ | ⟨h1, h2⟩
    · have h0 : (ewWrite e w0 p).2.2.2 = false := by rw [g1]
      simp only [h1, h0, Bool.false_eq_true, if_false]
      rw [h2, h3]
      have hb' : (ewWrite e w0 p).1.buf.length < cap := by rw [g1]; exact g2
      rcases ih _ _ _ h4 hb' with ⟨i1, i2, i3, i4⟩ | ⟨i1, i2⟩
      · left; exact ⟨i1, by rw [i2], i3, i4⟩
      · right; exact ⟨i1, i2⟩
    · right
      have h0 : (ewWrite e w0 p).2.2.2 = false := by rw [g1]
      simp only [h1, h0, if_true, Bool.false_eq_true, if_false, true_and]
      have hf' : (ewWrite e w0 p).2.1.failAt = none := by rw [g1]; exact ht.fa0
      have hb' : (ewWrite e w0 p).1.buf.length < cap := by rw [g1]; exact g2
      obtain ⟨full, last, r1, _⟩ := ewRun_ok _ _ ps hf' hb'
      exact h2.mono (full ++ [last]) (by rw [r1])

theorem ewNew_eq (w : UW) : ewNew w = ({ buf := iv, R := eexecR }, w, false) := by
  simp [ewNew, ewWrite, ewWriteLoop, iv, cap]

/-! ## `hexWriter` -/

/-- the hex digits of the bytes, two per byte -/
def hexOf : Bytes → Bytes
  | [] => []
  | c :: cs => hexDigit (c >>> 4) :: hexDigit (c &&& 0x0f) :: hexOf cs

/-- one output line for the bytes `g` -/
def line (g : Bytes) : Bytes := hexOf g ++ [10]

theorem hexOf_append (a b : Bytes) : hexOf (a ++ b) = hexOf a ++ hexOf b := by
  induction a with
  | nil => rfl
  | cons c cs ih => simp [hexOf, ih]

theorem hexOf_length (a : Bytes) : (hexOf a).length = 2 * a.length := by
  induction a with
  | nil => rfl
  | cons c cs ih => simp [hexOf, ih]; omega

theorem hexOf_eq_nil (a : Bytes) : hexOf a = [] ↔ a = [] := by
  cases a <;> simp [hexOf]

theorem hwFlush_ok (pend : Bytes) (w : UW) (hf : w.failAt = none) (hp : pend ≠ []) :
    hwFlush { buf := hexOf pend } w =
      ({ buf := [] }, { w with blocks := w.blocks ++ [line pend], calls := w.calls + 1 }, false) := by
  have : hexOf pend ≠ [] := fun h => hp ((hexOf_eq_nil pend).mp h)
  simp [hwFlush, this, uwWrite_none w _ hf, line]

theorem hwWriteLoop_ok (h : HW) (w : UW) (p : Bytes) (n : Nat) (pend : Bytes)
    (hf : w.failAt = none) (hbuf : h.buf = hexOf pend) (hp : pend.length < 39) :
    ∃ (groups : List Bytes) (pend' : Bytes),
      hwWriteLoop h w p n = ({ buf := hexOf pend' },
        { w with blocks := w.blocks ++ groups.map line, calls := w.calls + groups.length }, n + p.length, false) ∧
      pend'.length < 39 ∧ (∀ g ∈ groups, g.length = 39) ∧ pend ++ p = groups.flatten ++ pend' := by
  induction p generalizing h w n pend with
  | nil =>
    refine ⟨[], pend, ?_, hp, by simp, by simp⟩
    cases h; simp at hbuf; simp [hwWriteLoop, hbuf]
  | cons c cs ih =>
    unfold hwWriteLoop
    have hb1 : h.buf ++ [hexDigit (c >>> 4), hexDigit (c &&& 0x0f)] = hexOf (pend ++ [c]) := by
      rw [hexOf_append, hbuf]; rfl
    simp only [hb1]
    by_cases hc : (hexOf (pend ++ [c])).length ≥ 78
    · simp only [hc, if_true]
      rw [hwFlush_ok _ w hf (by simp)]
      simp only [Bool.false_eq_true, if_false]
      obtain ⟨groups, pend', h1, h2, h3, h4⟩ := ih { buf := [] }
        { w with blocks := w.blocks ++ [line (pend ++ [c])], calls := w.calls + 1 } (n + 1) [] hf rfl (by simp)
      refine ⟨(pend ++ [c]) :: groups, pend', ?_, h2, ?_, ?_⟩
      · rw [h1]
        simp only [List.length_cons, List.map_cons, List.append_assoc, List.singleton_append, Prod.mk.injEq, true_and,
          and_true]
        refine ⟨?_, by omega⟩
        congr 1; omega
      · intro g hg
        simp at hg
        rcases hg with rfl | hg
        · rw [hexOf_length] at hc; simp at hc ⊢; omega
        · exact h3 g hg
      · simp only [List.nil_append] at h4
        rw [List.flatten_cons, List.append_assoc, ← h4]; simp
    · simp only [hc, if_false]
      obtain ⟨groups, pend', h1, h2, h3, h4⟩ := ih { buf := hexOf (pend ++ [c]) } w (n + 1) (pend ++ [c]) hf rfl
        (by rw [hexOf_length] at hc; simp at hc ⊢; omega)
      refine ⟨groups, pend', ?_, h2, h3, ?_⟩
      · rw [h1]; simp; omega
      · rw [← h4]; simp

theorem hwWrite_ok (w : UW) (p : Bytes) (pend : Bytes) (hf : w.failAt = none) (hp : pend.length < 39) :
    ∃ (groups : List Bytes) (pend' : Bytes),
      hwWrite { buf := hexOf pend } w p = ({ buf := hexOf pend' },
        { w with blocks := w.blocks ++ groups.map line, calls := w.calls + groups.length }, p.length, false) ∧
      pend'.length < 39 ∧ (∀ g ∈ groups, g.length = 39) ∧ pend ++ p = groups.flatten ++ pend' := by
  obtain ⟨groups, pend', h1, h2, h3, h4⟩ := hwWriteLoop_ok { buf := hexOf pend } w p 0 pend hf rfl hp
  exact ⟨groups, pend', by simp [hwWrite, h1], h2, h3, h4⟩

/-- the last, shorter line: present only if non-empty -/
def lastLine (rest : Bytes) : List Bytes := if rest = [] then [] else [line rest]

theorem hwRun_ok (w : UW) (ps : List Bytes) (pend : Bytes) (hf : w.failAt = none) (hp : pend.length < 39) :
    ∃ (full : List Bytes) (rest : Bytes),
      hwRun { buf := hexOf pend } w ps = (ps.map List.length, true,
        { w with blocks := w.blocks ++ (full.map line ++ lastLine rest),
                 calls := w.calls + (full.map line ++ lastLine rest).length }) ∧
      (∀ g ∈ full, g.length = 39) ∧ rest.length < 39 ∧ full.flatten ++ rest = pend ++ ps.flatten := by
  induction ps generalizing w pend with
  | nil =>
    refine ⟨[], pend, ?_, by simp, hp, by simp⟩
    unfold hwRun hwClose
    by_cases hpe : pend = []
    · subst hpe; simp [hwFlush, hexOf, lastLine]
    · rw [hwFlush_ok _ w hf hpe]; simp [lastLine, hpe]
  | cons p ps ih =>
    obtain ⟨groups, pend', h1, h2, h3, h4⟩ := hwWrite_ok w p pend hf hp
    obtain ⟨full, rest, g1, g2, g3, g4⟩ := ih
      { w with blocks := w.blocks ++ groups.map line, calls := w.calls + groups.length } pend' hf h2
    refine ⟨groups ++ full, rest, ?_, ?_, g3, ?_⟩
    · unfold hwRun
      simp only [h1, Bool.false_eq_true, if_false, g1]
      simp [Nat.add_assoc]
    · intro b hb'
      rcases List.mem_append.mp hb' with hb' | hb'
      · exact h3 b hb'
      · exact g2 b hb'
    · simp only [List.flatten_cons, List.flatten_append, List.append_assoc]
      rw [g4, ← List.append_assoc, ← h4, List.append_assoc]

theorem hwFlush_twin {k : Nat} {w w0 : UW} (ht : Twin k w w0) (h : HW) :
    ((hwFlush h w).2.2 = false ∧ (hwFlush h w).1 = (hwFlush h w0).1 ∧
      Twin k (hwFlush h w).2.1 (hwFlush h w0).2.1) ∨
    ((hwFlush h w).2.2 = true ∧ h.buf ≠ [] ∧ (hwFlush h w).2.1.blocks = w0.blocks ∧ w0.blocks.length = k) := by
  unfold hwFlush
  by_cases hb : h.buf = []
  · left; simp [hb, ht]
  · simp only [List.isEmpty_iff, hb, if_false]
    rcases uwWrite_twin ht (h.buf ++ [10]) with ⟨h1, h2, _⟩ | ⟨h1, h2, h3⟩
    · left; exact ⟨h1, trivial, h2⟩
    · right; exact ⟨h1, by simpa using hb, h2, h3⟩

theorem hwWriteLoop_twin {k : Nat} (h : HW) (w w0 : UW) (p : Bytes) (n : Nat) (pend : Bytes)
    (ht : Twin k w w0) (hbuf : h.buf = hexOf pend) (hp : pend.length < 39) :
    ((hwWriteLoop h w p n).2.2.2 = false ∧
      (hwWriteLoop h w p n).1 = (hwWriteLoop h w0 p n).1 ∧
      (hwWriteLoop h w p n).2.2.1 = (hwWriteLoop h w0 p n).2.2.1 ∧
      Twin k (hwWriteLoop h w p n).2.1 (hwWriteLoop h w0 p n).2.1) ∨
    ((hwWriteLoop h w p n).2.2.2 = true ∧
      Failed k (hwWriteLoop h w p n).2.1 (hwWriteLoop h w0 p n).2.1) := by
  induction p generalizing h w w0 n pend with
  | nil => left; simp [hwWriteLoop, ht]
  | cons c cs ih =>
    unfold hwWriteLoop
    have hb1 : h.buf ++ [hexDigit (c >>> 4), hexDigit (c &&& 0x0f)] = hexOf (pend ++ [c]) := by
      rw [hexOf_append, hbuf]; rfl
    simp only [hb1]
    by_cases hc : (hexOf (pend ++ [c])).length ≥ 78
    · simp only [hc, if_true]
      have h0 := hwFlush_ok (pend ++ [c]) w0 ht.fa0 (by simp)
      rcases hwFlush_twin ht { buf := hexOf (pend ++ [c]) } with ⟨h1, h2, h3⟩ | ⟨h1, _, h2, h3⟩
      · simp only [h1, Bool.false_eq_true, if_false]
        rw [h2]
        simp only [h0, Bool.false_eq_true, if_false] at h3 ⊢
        exact ih _ _ _ _ [] h3 rfl (by simp)
      · right
        simp only [h1, if_true, true_and, h0, Bool.false_eq_true, if_false]
        obtain ⟨groups, pend', g1, _⟩ := hwWriteLoop_ok { buf := [] }
          { w0 with blocks := w0.blocks ++ [line (pend ++ [c])], calls := w0.calls + 1 } cs (n + 1) [] ht.fa0 rfl
          (by simp)
        rw [g1]
        refine ⟨?_, ?_⟩
        · simp only [h2]
          rw [List.append_assoc, take_prefix _ _ _ h3]
        · simp; omega
    · simp only [hc, if_false]
      exact ih _ _ _ _ (pend ++ [c]) ht rfl (by rw [hexOf_length] at hc; simp at hc ⊢; omega)

theorem hwWrite_twin {k : Nat} (w w0 : UW) (p : Bytes) (pend : Bytes)
    (ht : Twin k w w0) (hp : pend.length < 39) :
    ((hwWrite { buf := hexOf pend } w p).2.2.2 = false ∧
      (hwWrite { buf := hexOf pend } w p).1 = (hwWrite { buf := hexOf pend } w0 p).1 ∧
      (hwWrite { buf := hexOf pend } w p).2.2.1 = (hwWrite { buf := hexOf pend } w0 p).2.2.1 ∧
      Twin k (hwWrite { buf := hexOf pend } w p).2.1 (hwWrite { buf := hexOf pend } w0 p).2.1) ∨
    ((hwWrite { buf := hexOf pend } w p).2.2.2 = true ∧
      Failed k (hwWrite { buf := hexOf pend } w p).2.1 (hwWrite { buf := hexOf pend } w0 p).2.1) := by
  obtain ⟨groups, pend', g1, _⟩ := hwWriteLoop_ok { buf := hexOf pend } w0 p 0 pend ht.fa0 rfl hp
  have h0 : (hwWriteLoop { buf := hexOf pend } w0 p 0).2.2.2 = false := by rw [g1]
  rcases hwWriteLoop_twin { buf := hexOf pend } w w0 p 0 pend ht rfl hp with ⟨h1, h2, h3, h4⟩ | ⟨h1, h2⟩
  · left
    simp only [hwWrite, h1, h0, Bool.false_eq_true, if_false, true_and]
    exact ⟨h2, h4⟩
  · right
    simp only [hwWrite, h1, h0, Bool.false_eq_true, if_false, if_true, true_and]
    exact h2

theorem hwRun_twin {k : Nat} (w w0 : UW) (ps : List Bytes) (pend : Bytes)
    (ht : Twin k w w0) (hp : pend.length < 39) :
    ((hwRun { buf := hexOf pend } w ps).2.1 = true ∧
      (hwRun { buf := hexOf pend } w ps).1 = (hwRun { buf := hexOf pend } w0 ps).1 ∧
      (hwRun { buf := hexOf pend } w ps).2.2.blocks = (hwRun { buf := hexOf pend } w0 ps).2.2.blocks ∧
      (hwRun { buf := hexOf pend } w0 ps).2.2.blocks.length ≤ k) ∨
    ((hwRun { buf := hexOf pend } w ps).2.1 = false ∧
      Failed k (hwRun { buf := hexOf pend } w ps).2.2 (hwRun { buf := hexOf pend } w0 ps).2.2) := by
  induction ps generalizing w w0 pend with
  | nil =>
    unfold hwRun hwClose
    rcases hwFlush_twin ht { buf := hexOf pend } with ⟨h1, h2, h3⟩ | ⟨h1, hne, h2, h3⟩
    · left
      simp only [h1, Bool.not_false, true_and]
      refine ⟨h3.bl, ?_⟩
      rw [← h3.len]; exact h3.le
    · right
      simp only [h1, Bool.not_true, true_and]
      have hpe : pend ≠ [] := fun h => hne (by simp [h, hexOf])
      rw [hwFlush_ok _ _ ht.fa0 hpe]
      refine ⟨?_, ?_⟩
      · simp only [h2]; rw [take_prefix _ _ _ h3]
      · simp; omega
  | cons p ps ih =>
    unfold hwRun
    obtain ⟨groups, pend', g1, g2, _⟩ := hwWrite_ok w0 p pend ht.fa0 hp
    have h0 : (hwWrite { buf := hexOf pend } w0 p).2.2.2 = false := by rw [g1]
    rcases hwWrite_twin w w0 p pend ht hp with ⟨h1, h2, h3, h4⟩ | ⟨h1, h2⟩
    · simp only [h1, h0, Bool.false_eq_true, if_false]
      rw [h2, h3]
      rw [g1] at h4 ⊢
      rcases ih _ _ pend' h4 g2 with ⟨i1, i2, i3, i4⟩ | ⟨i1, i2⟩
      · left; exact ⟨i1, by rw [i2], i3, i4⟩
      · right; exact ⟨i1, i2⟩
    · right
      simp only [h1, h0, if_true, Bool.false_eq_true, if_false, true_and]
      rw [g1] at h2 ⊢
      obtain ⟨full, rest, r1, _⟩ := hwRun_ok
        { w0 with blocks := w0.blocks ++ groups.map line, calls := w0.calls + groups.length } ps pend' ht.fa0 g2
      exact h2.mono _ (by rw [r1])

end PsVerif.Proofs.C13Writers
