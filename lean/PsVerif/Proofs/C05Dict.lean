import PsVerif.Model.Interp
/-!
# The dictionary stack across `eexec` (helpers for `Props/C05Dict.lean`)

`dcap v = v.dictStack.length + v.dictGhost.length` is the part of the capacity of the Go slice `DictStack`
the model keeps track of: its length plus the stale entries above the length.  Nothing in the interpreter ever
makes it smaller: `begin`/`pushDict` move one entry from the stale part to the live part (or append when there is
none), `end` moves one entry the other way, `DictStack[:k]` (`truncDictStack`) moves entries either way, every
other operator leaves both lists alone (`Keeps`).  `allMono` proves `cap s ≤ cap s'` for all thirteen functions of
the interpreter's mutual block by induction on the fuel, with no hypothesis on the state.
-/
set_option linter.unusedSimpArgs false
set_option linter.unusedVariables false
namespace PsVerif.Proofs.C05Dict
open PsVerif.Model PsVerif.Model.Scan

/-- the Go slice `DictStack` and the stale part of its backing array are both untouched -/
def Keeps (v : VM) (p : VM × Res) : Prop := p.1.dictStack = v.dictStack ∧ p.1.dictGhost = v.dictGhost

theorem keeps_mk {v v' : VM} {r : Res} (h1 : v'.dictStack = v.dictStack) (h2 : v'.dictGhost = v.dictGhost) :
    Keeps v (v', r) := ⟨h1, h2⟩

macro "keeps_auto" : tactic => `(tactic| (
  try simp only [VM.alloc, withCMap]
  repeat' split
  all_goals first
    | exact ⟨rfl, rfl⟩
    | (simp [Keeps, psErr, okRes, VM.push, VM.alloc, VM.setCell, VM.dictPut, setCMap]; done)
    | (simp [Keeps, psErr, okRes, VM.push, VM.alloc, VM.setCell, VM.dictPut, setCMap] at *; subst_vars; simp; done)
    | (simp [Keeps, psErr, okRes, VM.push, VM.alloc, VM.setCell, VM.dictPut, setCMap] at *; repeat' split; all_goals simp_all)))

theorem k_bMark (v : VM) : Keeps v (bMark v) := by unfold bMark; keeps_auto
theorem k_bListEnd (v : VM) : Keeps v (bListEnd v) := by unfold bListEnd; keeps_auto
theorem k_bDictEnd (v : VM) : Keeps v (bDictEnd v) := by unfold bDictEnd; keeps_auto
theorem k_bAbs (v : VM) : Keeps v (bAbs v) := by unfold bAbs; keeps_auto
theorem k_bAdd (v : VM) : Keeps v (bAdd v) := by unfold bAdd arith; keeps_auto
theorem k_bSub (v : VM) : Keeps v (bSub v) := by unfold bSub arith; keeps_auto
theorem k_bMul (v : VM) : Keeps v (bMul v) := by unfold bMul arith; keeps_auto
theorem k_bAnd (v : VM) : Keeps v (bAnd v) := by unfold bAnd; keeps_auto
theorem k_bOr (v : VM) : Keeps v (bOr v) := by unfold bOr; keeps_auto
theorem k_bNot (v : VM) : Keeps v (bNot v) := by unfold bNot; keeps_auto
theorem k_bArray (v : VM) : Keeps v (bArray v) := by unfold bArray; keeps_auto
theorem k_bString (v : VM) : Keeps v (bString v) := by unfold bString; keeps_auto
theorem k_bDict (v : VM) : Keeps v (bDict v) := by unfold bDict; keeps_auto
theorem k_bMatrix (v : VM) : Keeps v (bMatrix v) := by unfold bMatrix; keeps_auto
theorem k_bCvx (v : VM) : Keeps v (bCvx v) := by unfold bCvx; keeps_auto
theorem k_bCleartomark (v : VM) : Keeps v (bCleartomark v) := by unfold bCleartomark; keeps_auto
theorem k_bClosefile (v : VM) : Keeps v (bClosefile v) := by unfold bClosefile; keeps_auto
theorem k_bCopy (v : VM) : Keeps v (bCopy v) := by unfold bCopy; keeps_auto
theorem k_bCount (v : VM) : Keeps v (bCount v) := by unfold bCount; keeps_auto
theorem k_bCurrentdict (v : VM) : Keeps v (bCurrentdict v) := by unfold bCurrentdict; keeps_auto
theorem k_bCurrentfile (v : VM) : Keeps v (bCurrentfile v) := by unfold bCurrentfile; keeps_auto
theorem k_bDef (v : VM) : Keeps v (bDef v) := by unfold bDef; keeps_auto
theorem k_bDefinefont (v : VM) : Keeps v (bDefinefont v) := by unfold bDefinefont; keeps_auto
theorem k_bDefineresource (v : VM) : Keeps v (bDefineresource v) := by unfold bDefineresource; keeps_auto
theorem k_bDup (v : VM) : Keeps v (bDup v) := by unfold bDup; keeps_auto
theorem k_bEq (v : VM) : Keeps v (bEq v) := by unfold bEq bEqNe; keeps_auto
theorem k_bNe (v : VM) : Keeps v (bNe v) := by unfold bNe bEqNe; keeps_auto
theorem k_bExch (v : VM) : Keeps v (bExch v) := by unfold bExch; keeps_auto
theorem k_bNop (v : VM) : Keeps v (bNop v) := by unfold bNop; keeps_auto
theorem k_bFindfont (v : VM) : Keeps v (bFindfont v) := by unfold bFindfont; keeps_auto
theorem k_bFindresource (v : VM) : Keeps v (bFindresource v) := by unfold bFindresource; keeps_auto
theorem k_bGet (v : VM) : Keeps v (bGet v) := by unfold bGet; keeps_auto
theorem k_bGetinterval (v : VM) : Keeps v (bGetinterval v) := by unfold bGetinterval; keeps_auto
theorem k_bIndex (v : VM) : Keeps v (bIndex v) := by unfold bIndex; keeps_auto
theorem k_bInternaldict (v : VM) : Keeps v (bInternaldict v) := by unfold bInternaldict; keeps_auto
theorem k_bKnown (v : VM) : Keeps v (bKnown v) := by unfold bKnown; keeps_auto
theorem k_bLength (v : VM) : Keeps v (bLength v) := by unfold bLength; keeps_auto
theorem k_bLoad (v : VM) : Keeps v (bLoad v) := by unfold bLoad; keeps_auto
theorem k_bMaxlength (v : VM) : Keeps v (bMaxlength v) := by unfold bMaxlength; keeps_auto
theorem k_bPop (v : VM) : Keeps v (bPop v) := by unfold bPop; keeps_auto
theorem k_bPut (v : VM) : Keeps v (bPut v) := by unfold bPut; keeps_auto
theorem k_bPutinterval (v : VM) : Keeps v (bPutinterval v) := by unfold bPutinterval; keeps_auto
theorem k_bRoll (v : VM) : Keeps v (bRoll v) := by unfold bRoll; keeps_auto
theorem k_bType (v : VM) : Keeps v (bType v) := by unfold bType; keeps_auto
theorem k_bWhere (v : VM) : Keeps v (bWhere v) := by unfold bWhere; keeps_auto
theorem k_bBegincmap (v : VM) : Keeps v (bBegincmap v) := by unfold bBegincmap; keeps_auto
theorem k_bEndcmap (v : VM) : Keeps v (bEndcmap v) := by unfold bEndcmap; keeps_auto
theorem k_bUsecmap (v : VM) : Keeps v (bUsecmap v) := by unfold bUsecmap; keeps_auto
theorem k_bBegincodespacerange (v : VM) : Keeps v (bBegincodespacerange v) := by unfold bBegincodespacerange beginBlock; keeps_auto
theorem k_bBeginChars (v : VM) : Keeps v (bBeginChars v) := by unfold bBeginChars beginBlock; keeps_auto
theorem k_bBeginRanges (v : VM) : Keeps v (bBeginRanges v) := by unfold bBeginRanges beginBlock; keeps_auto
theorem k_bEndcodespacerange (v : VM) : Keeps v (bEndcodespacerange v) := by unfold bEndcodespacerange; keeps_auto
theorem k_endChars (a b) (v : VM) : Keeps v (endChars a b v) := by unfold endChars; keeps_auto
theorem k_endRanges (a b) (v : VM) : Keeps v (endRanges a b v) := by unfold endRanges; keeps_auto

theorem k_bEndcidchar (v : VM) : Keeps v (bEndcidchar v) := k_endChars _ _ v
theorem k_bEndbfchar (v : VM) : Keeps v (bEndbfchar v) := k_endChars _ _ v
theorem k_bEndnotdefchar (v : VM) : Keeps v (bEndnotdefchar v) := k_endChars _ _ v
theorem k_bEndcidrange (v : VM) : Keeps v (bEndcidrange v) := k_endRanges _ _ v
theorem k_bEndbfrange (v : VM) : Keeps v (bEndbfrange v) := k_endRanges _ _ v
theorem k_bEndnotdefrange (v : VM) : Keeps v (bEndnotdefrange v) := k_endRanges _ _ v

theorem Keeps.trans {a : VM} {b : VM} {r : Res} {p : VM × Res} (h1 : Keeps a (b, r)) (h2 : Keeps b p) : Keeps a p :=
  ⟨h2.1.trans h1.1, h2.2.trans h1.2⟩

theorem k_bind : ∀ fuel, (∀ s r o l d, Keeps s (bindProc fuel s r o l d)) ∧
    (∀ s r o d i t, Keeps s (bindLoop fuel s r o d i t)) := by
  intro fuel
  induction fuel with
  | zero => exact ⟨fun s r o l d => by simp only [bindProc]; exact ⟨rfl, rfl⟩,
                   fun s r o d i t => by simp only [bindLoop]; exact ⟨rfl, rfl⟩⟩
  | succ n ih =>
    refine ⟨fun s r o l d => ?_, fun s r o d i t => ?_⟩
    · simp only [bindProc]
      split
      · exact ⟨rfl, rfl⟩
      · split
        · exact ⟨rfl, rfl⟩
        · split
          · exact ⟨rfl, rfl⟩
          · exact ih.2 _ r o d 0 l
    · cases t with
      | zero => simp only [bindLoop]; exact ⟨rfl, rfl⟩
      | succ t =>
        simp only [bindLoop]
        split
        · exact ⟨rfl, rfl⟩
        · split
          · split
            · exact ih.2 _ r o d (i + 1) t
            · exact ih.2 _ r o d (i + 1) t
          · rename_i r2 o2 l2 _
            have g := ih.1 s r2 o2 l2 (d + 1)
            generalize bindProc n s r2 o2 l2 (d + 1) = p at g
            obtain ⟨s2, res⟩ := p
            simp only
            split
            · exact g.trans (ih.2 s2 r o d (i + 1) t)
            · exact g
          · exact ih.2 _ r o d (i + 1) t

theorem k_bBind (v : VM) : Keeps v (bBind v) := by
  unfold bBind
  split
  · exact ⟨rfl, rfl⟩
  · rename_i r o l _ _
    have g := (k_bind ((heapSlots v + 2) * (maxBindDepth + 3))).1 { v with bindSeen := [] } r o l 0
    generalize bindProc _ _ r o l 0 = p at g
    obtain ⟨s', res⟩ := p
    exact g
  · exact ⟨rfl, rfl⟩

/-! ## the capacity never shrinks -/

/-- length of `DictStack` plus the stale entries above it -/
def dcap (v : VM) : Nat := v.dictStack.length + v.dictGhost.length

theorem Keeps.dcap {v : VM} {p : VM × Res} (h : Keeps v p) : dcap p.1 = dcap v := by
  show p.1.dictStack.length + p.1.dictGhost.length = v.dictStack.length + v.dictGhost.length
  rw [h.1, h.2]

theorem dcap_pushDict (v : VM) (d : Nat) : dcap v ≤ dcap (pushDict v d) := by
  unfold dcap pushDict
  simp only [List.length_cons, List.length_tail]
  omega

theorem dcap_truncDictStack (v : VM) (k : Nat) : dcap (truncDictStack v k) = dcap v := by
  unfold dcap truncDictStack
  dsimp only
  split
  · simp only [List.length_drop, List.length_append, List.length_reverse, List.length_take]; omega
  · simp only [List.length_drop, List.length_append, List.length_reverse, List.length_take]; omega

theorem dcap_bBegin (v : VM) : dcap v ≤ dcap (bBegin v).1 := by
  unfold bBegin
  split
  · exact Nat.le_refl _
  · split
    · exact Nat.le_refl _
    · split
      · unfold dcap okRes
        simp only [List.length_cons, List.length_tail]
        omega
      · exact Nat.le_refl _

theorem dcap_bEnd (v : VM) : dcap v ≤ dcap (bEnd v).1 := by
  unfold bEnd
  split
  · exact Nat.le_refl _
  · unfold dcap okRes
    simp only [List.length_cons, List.length_tail]
    omega

theorem cmap_mono (id : String) (v : VM) (p : VM × Res) (e : cmapBuiltin id v = some p) : dcap v ≤ dcap p.1 := by
  unfold cmapBuiltin at e
  split at e <;> first
    | (have e' := Option.some.inj e
       rw [← e']
       apply Nat.le_of_eq
       apply Eq.symm
       apply Keeps.dcap
       first
       | exact k_bBegincmap v | exact k_bEndcmap v | exact k_bUsecmap v
       | exact k_bBegincodespacerange v | exact k_bEndcodespacerange v
       | exact k_bBeginChars v | exact k_bBeginRanges v
       | exact k_bEndcidchar v | exact k_bEndbfchar v | exact k_bEndnotdefchar v
       | exact k_bEndcidrange v | exact k_bEndbfrange v | exact k_bEndnotdefrange v)
    | (simp at e; done)

/-- no operator of `pureBuiltin` shrinks the capacity -/
theorem pure_mono (id : String) (v : VM) (p : VM × Res) (e : pureBuiltin id v = some p) : dcap v ≤ dcap p.1 := by
  unfold pureBuiltin at e
  split at e <;> first
    | exact cmap_mono id v p e
    | (have e' := Option.some.inj e
       rw [← e']
       first
       | exact dcap_bBegin v
       | exact dcap_bEnd v
       | exact Nat.le_refl _
       | (apply Nat.le_of_eq
          apply Eq.symm
          apply Keeps.dcap
          first
          | exact k_bMark v | exact k_bListEnd v | exact k_bDictEnd v | exact k_bAbs v
          | exact k_bAdd v | exact k_bAnd v | exact k_bArray v
          | exact k_bBind v | exact k_bCleartomark v | exact k_bClosefile v
          | exact k_bCopy v | exact k_bCount v | exact k_bCurrentdict v
          | exact k_bCurrentfile v | exact k_bCvx v | exact k_bDef v
          | exact k_bDefinefont v | exact k_bDefineresource v | exact k_bDict v
          | exact k_bDup v | exact k_bEq v | exact k_bExch v
          | exact k_bNop v | exact k_bFindfont v
          | exact k_bFindresource v | exact k_bGet v | exact k_bGetinterval v
          | exact k_bIndex v | exact k_bInternaldict v | exact k_bKnown v
          | exact k_bLength v | exact k_bLoad v | exact k_bMatrix v
          | exact k_bMaxlength v | exact k_bMul v | exact k_bNe v | exact k_bNot v
          | exact k_bOr v | exact k_bPop v | exact k_bPut v | exact k_bPutinterval v
          | exact k_bRoll v | exact k_bString v | exact k_bSub v | exact k_bType v
          | exact k_bWhere v))

/-! ## the interpreter

`cap s = dcap s.vm`; `Le s p`: the call that returned `p` from `s` did not shrink the capacity. -/

def cap (s : State) : Nat := dcap s.vm

/-- the function did not shrink the capacity -/
def Le (s : State) (p : State × Res) : Prop := cap s ≤ cap p.1

theorem Le.refl (s : State) (r : Res) : Le s (s, r) := Nat.le_refl _
theorem le_same {s s' : State} {r : Res} (h : cap s' = cap s) : Le s (s', r) := Nat.le_of_eq h.symm
theorem Le.seq {s s1 : State} {r1 : Res} {p : State × Res} (g1 : Le s (s1, r1)) (g2 : Le s1 p) : Le s p :=
  Nat.le_trans g1 g2

theorem le_readstring (s : State) : Le s (bReadstring s) := by
  have h : Keeps s.vm ((readstringCore s.vm s.scanner s.scannerDepth).1, Res.ok) := by
    unfold readstringCore
    keeps_auto
  exact Nat.le_of_eq h.dcap.symm

theorem cap_objOfTok (s : State) (t : Tok) : cap (objOfTok s t).1 = cap s := by
  cases t <;> rfl

structure All (m fuel : Nat) : Prop where
  one : ∀ s o b, Le s (execOne fuel m s o b)
  body : ∀ s o b, Le s (execBody fuel m s o b)
  tail : ∀ s o b c, Le s (execTail fuel m s o b c)
  run : ∀ s r o i n, Le s (runBody fuel m s r o i n)
  call : ∀ s id, Le s (callBuiltin fuel m s id)
  forL : ∀ s v i l p, Le s (forLoop fuel m s v i l p)
  rep : ∀ s k p, Le s (repeatLoop fuel m s k p)
  loop : ∀ s p, Le s (loopLoop fuel m s p)
  fArr : ∀ s r o i n p, Le s (forallArr fuel m s r o i n p)
  fStr : ∀ s r o i n p, Le s (forallStr fuel m s r o i n p)
  fDict : ∀ s d ks p, Le s (forallDict fuel m s d ks p)
  sRun : ∀ s, Le s (scanRun fuel m s)
  sLoop : ∀ s, Le s (scanLoop fuel m s)

theorem all_zero (m : Nat) : All m 0 where
  one := by intro s o b; simp only [execOne]; exact Le.refl _ _
  body := by intro s o b; simp only [execBody]; exact Le.refl _ _
  tail := by intro s o b c; simp only [execTail]; exact Le.refl _ _
  run := by intro s r o i n; simp only [runBody]; exact Le.refl _ _
  call := by intro s id; simp only [callBuiltin]; exact Le.refl _ _
  forL := by intro s v i l p; simp only [forLoop]; exact Le.refl _ _
  rep := by intro s k p; simp only [repeatLoop]; exact Le.refl _ _
  loop := by intro s p; simp only [loopLoop]; exact Le.refl _ _
  fArr := by intro s r o i n p; simp only [forallArr]; exact Le.refl _ _
  fStr := by intro s r o i n p; simp only [forallStr]; exact Le.refl _ _
  fDict := by intro s d ks p; simp only [forallDict]; exact Le.refl _ _
  sRun := by intro s; simp only [scanRun]; exact Le.refl _ _
  sLoop := by intro s; simp only [scanLoop]; exact Le.refl _ _

theorem step_execOne {m n : Nat} (ih : All m n) (s : State) (o : Obj) (b : Bool) : Le s (execOne (n + 1) m s o b) := by
  simp only [execOne]
  split
  · split
    · exact le_same rfl
    · have g := ih.body { s with execDepth := s.execDepth + 1, hiDepth := max s.hiDepth (s.execDepth + 1) } o true
      generalize execBody n m _ o true = p at g
      obtain ⟨s1, r⟩ := p
      exact g
  · exact ih.body s o false

theorem step_execBody {m n : Nat} (ih : All m n) (s : State) (o : Obj) (b : Bool) : Le s (execBody (n + 1) m s o b) := by
  simp only [execBody]
  split
  · exact le_same rfl
  · split
    · split
      · exact le_same rfl
      · split
        · exact le_same rfl
        · exact le_same rfl
    · split
      · exact le_same rfl
      · split
        · exact le_same rfl
        · exact ih.tail s o b b

theorem le_leaveLevel {s : State} {p : State × Res} (c : Bool) (g : Le s p) : Le s (leaveLevel c p) := by
  unfold leaveLevel
  split
  · exact g
  · exact g

theorem cap_enterLevel (c : Bool) (s : State) : cap (enterLevel c s) = cap s := by
  unfold enterLevel; split <;> rfl

theorem step_execTail {m n : Nat} (ih : All m n) (s : State) (o : Obj) (b cnt : Bool) :
    Le s (execTail (n + 1) m s o b cnt) := by
  unfold execTail
  dsimp only
  split
  · exact le_same rfl
  · split
    · split
      · exact le_same rfl
      · rename_i v hv
        exact ih.tail { s with numOps := s.numOps + 1 } v true cnt
    · rename_i id
      have g1 := ih.call { s with numOps := s.numOps + 1 } id
      generalize callBuiltin n m _ id = p1 at g1
      obtain ⟨s1, r⟩ := p1
      simp only
      split
      · rename_i name
        split
        · split
          · rename_i handler hh
            have g3 := ih.one { s1 with errors := name :: s1.errors, hiErrors := max s1.hiErrors (s1.errors.length + 1) } handler true
            generalize execOne n m _ handler true = p3 at g3
            obtain ⟨s3, r3⟩ := p3
            exact Le.seq (s1 := s1) (r1 := .ok) g1 g3
          · exact g1
        · exact g1
      · exact g1
    · rename_i ref off len
      split
      · split
        · exact le_same rfl
        · split
          · exact le_same rfl
          · apply le_leaveLevel
            have ce := cap_enterLevel cnt { s with numOps := s.numOps + 1 }
            generalize enterLevel cnt { s with numOps := s.numOps + 1 } = s'' at ce
            have g1 := ih.run s'' ref off 0 (len - 1)
            generalize runBody n m s'' ref off 0 (len - 1) = p1 at g1
            obtain ⟨s1, r⟩ := p1
            have ce' : cap s'' = cap s := ce
            have g0 : Le s (s1, r) := by unfold Le at *; rw [ce'] at g1; exact g1
            simp only
            split
            · split
              · exact g0.seq (ih.tail s1 _ false true)
              · exact g0
            · exact g0
      · exact le_same rfl
    · exact le_same rfl

theorem step_runBody {m n : Nat} (ih : All m n) (s : State) (r o i t : Nat) : Le s (runBody (n + 1) m s r o i t) := by
  cases t with
  | zero => simp only [runBody]; exact le_same rfl
  | succ t =>
    simp only [runBody]
    split
    · exact le_same rfl
    · rename_i tok htok
      have g1 := ih.one s tok false
      generalize execOne n m s tok false = p1 at g1
      obtain ⟨s1, r1⟩ := p1
      simp only
      split
      · exact g1.seq (ih.run s1 r o (i + 1) t)
      · exact g1


theorem step_forLoop {m n : Nat} (ih : All m n) (s : State) (v i l : Int) (p : Obj) :
    Le s (forLoop (n + 1) m s v i l p) := by
  simp only [forLoop]
  split
  · exact le_same rfl
  · have g1 := ih.one (pushS s (.int v)) p true
    generalize execOne n m (pushS s (.int v)) p true = p1 at g1
    obtain ⟨s1, r1⟩ := p1
    have g0 : Le s (s1, r1) := g1
    simp only
    split
    · exact g0
    · split
      · exact g0
      · exact g0.seq (ih.forL s1 _ i l p)
    · exact g0

theorem step_repeatLoop {m n : Nat} (ih : All m n) (s : State) (k : Nat) (p : Obj) :
    Le s (repeatLoop (n + 1) m s k p) := by
  cases k with
  | zero => simp only [repeatLoop]; exact le_same rfl
  | succ k =>
    simp only [repeatLoop]
    have g1 := ih.one s p true
    generalize execOne n m s p true = p1 at g1
    obtain ⟨s1, r1⟩ := p1
    simp only
    split
    · exact g1
    · exact g1.seq (ih.rep s1 k p)
    · exact g1

theorem step_loopLoop {m n : Nat} (ih : All m n) (s : State) (p : Obj) : Le s (loopLoop (n + 1) m s p) := by
  simp only [loopLoop]
  have g1 := ih.one s p true
  generalize execOne n m s p true = p1 at g1
  obtain ⟨s1, r1⟩ := p1
  simp only
  split
  · exact g1
  · exact g1.seq (ih.loop s1 p)
  · exact g1

theorem step_forallArr {m n : Nat} (ih : All m n) (s : State) (r o i t : Nat) (p : Obj) :
    Le s (forallArr (n + 1) m s r o i t p) := by
  cases t with
  | zero => simp only [forallArr]; exact le_same rfl
  | succ t =>
    simp only [forallArr]
    split
    · exact le_same rfl
    · rename_i x hx
      have g1 := ih.one (pushS s x) p true
      generalize execOne n m (pushS s x) p true = p1 at g1
      obtain ⟨s1, r1⟩ := p1
      have g0 : Le s (s1, r1) := g1
      simp only
      split
      · exact g0
      · exact g0.seq (ih.fArr s1 r o (i + 1) t p)
      · exact g0

theorem step_forallStr {m n : Nat} (ih : All m n) (s : State) (r o i t : Nat) (p : Obj) :
    Le s (forallStr (n + 1) m s r o i t p) := by
  cases t with
  | zero => simp only [forallStr]; exact le_same rfl
  | succ t =>
    simp only [forallStr]
    split
    · exact le_same rfl
    · rename_i x hx
      have g1 := ih.one (pushS s (.int x.toNat)) p true
      generalize execOne n m (pushS s (.int x.toNat)) p true = p1 at g1
      obtain ⟨s1, r1⟩ := p1
      have g0 : Le s (s1, r1) := g1
      simp only
      split
      · exact g0
      · exact g0.seq (ih.fStr s1 r o (i + 1) t p)
      · exact g0

theorem step_forallDict {m n : Nat} (ih : All m n) (s : State) (d : Nat) (ks : List Name) (p : Obj) :
    Le s (forallDict (n + 1) m s d ks p) := by
  cases ks with
  | nil => simp only [forallDict]; exact le_same rfl
  | cons k ks =>
    simp only [forallDict]
    split
    · exact ih.fDict s d ks p
    · rename_i x hx
      have g1 := ih.one (setStack s (x :: .name k :: s.vm.stack)) p true
      generalize execOne n m (setStack s (x :: .name k :: s.vm.stack)) p true = p1 at g1
      obtain ⟨s1, r1⟩ := p1
      have g0 : Le s (s1, r1) := g1
      simp only
      split
      · exact g0
      · exact g0.seq (ih.fDict s1 d ks p)
      · exact g0

theorem step_scanLoop {m n : Nat} (ih : All m n) (s : State) : Le s (scanLoop (n + 1) m s) := by
  simp only [scanLoop]
  generalize hw : withScanner s scanToken = w
  obtain ⟨s1, r⟩ := w
  have h1 : cap s1 = cap s := by
    have := congrArg (fun q => cap q.1) hw
    exact this.symm
  simp only
  split
  · exact le_same h1
  · exact le_same h1
  · rename_i tok
    have h2 := cap_objOfTok s1 tok
    generalize objOfTok s1 tok = q at h2
    obtain ⟨s2, o⟩ := q
    have g3 := ih.one s2 o false
    generalize execOne n m s2 o false = p3 at g3
    obtain ⟨s3, r3⟩ := p3
    have g0 : Le s (s3, r3) := by
      unfold Le at *
      simp only at h2 g3 ⊢
      omega
    simp only
    split
    · exact g0.seq (ih.sLoop s3)
    · exact g0

theorem step_scanRun {m n : Nat} (ih : All m n) (s : State) : Le s (scanRun (n + 1) m s) := by
  simp only [scanRun]
  split
  · rename_i s1 e hstart
    apply le_same
    split at hstart
    · generalize hw : withScanner s (peekN 2 3) = w at hstart
      obtain ⟨s0, r⟩ := w
      have h1 : cap s0 = cap s := (congrArg (fun q => cap q.1) hw).symm
      simp only at hstart
      split at hstart
      · split at hstart
        · cases hstart
        · split at hstart <;> (cases hstart; exact h1)
      · cases hstart; exact h1
    · cases hstart
  · rename_i s1 hstart
    have h1 : cap s1 = cap s := by
      split at hstart
      · generalize hw : withScanner s (peekN 2 3) = w at hstart
        obtain ⟨s0, r⟩ := w
        have h1 : cap s0 = cap s := (congrArg (fun q => cap q.1) hw).symm
        simp only at hstart
        split at hstart
        · split at hstart
          · cases hstart; exact h1
          · split at hstart <;> cases hstart
        · cases hstart
      · cases hstart; rfl
    have g := ih.sLoop { s1 with scannerDepth := s1.scannerDepth + 1 }
    generalize scanLoop n m _ = p at g
    obtain ⟨s2, r⟩ := p
    unfold Le at *
    show cap s ≤ cap s2
    have g' : cap s1 ≤ cap s2 := g
    omega


theorem le_start {s0 s : State} {p : State × Res} (e : cap s = cap s0) (g : Le s p) : Le s0 p := by
  unfold Le at *; omega

theorem cap_withScanner {α : Type} (s : State) (a : SM α) : cap (withScanner s a).1 = cap s := rfl

theorem le_trunc {s s3 : State} {r r' : Res} (g : Le s (s3, r)) (k : Nat) (sc : Scanner) :
    Le s ({ s3 with scanner := sc, vm := truncDictStack s3.vm k }, r') := by
  unfold Le cap at *
  show dcap s.vm ≤ dcap (truncDictStack s3.vm k)
  rw [dcap_truncDictStack]
  exact g

theorem step_callBuiltin {m n : Nat} (ih : All m n) (s : State) (id : String) : Le s (callBuiltin (n + 1) m s id) := by
  unfold callBuiltin
  split
  · -- exec
    split
    · exact le_same rfl
    · split
      · exact le_start (e := by rfl) (ih.call _ _)
      · exact le_start (e := by rfl) (ih.one _ _ true)
      · exact le_same rfl
  · -- if
    split
    · split
      · dsimp only
        split
        · exact le_start (e := by rfl) (ih.one _ _ true)
        · exact le_same rfl
      · exact le_same rfl
    · exact le_same rfl
  · -- ifelse
    split
    · split
      · dsimp only
        split
        · exact le_start (e := by rfl) (ih.one _ _ true)
        · exact le_start (e := by rfl) (ih.one _ _ true)
      · exact le_same rfl
    · exact le_same rfl
  · -- for
    split
    · split
      · split
        · split
          · exact le_start (e := by rfl) (ih.forL _ _ _ _ _)
          · exact le_same rfl
        · exact le_same rfl
      · exact le_same rfl
    · exact le_same rfl
  · -- repeat
    split
    · split
      · split
        · exact le_same rfl
        · split
          · exact le_start (e := by rfl) (ih.rep _ _ _)
          · exact le_same rfl
      · exact le_same rfl
    · exact le_same rfl
  · -- loop
    split
    · exact le_same rfl
    · exact le_start (e := by rfl) (ih.loop _ _)
  · -- forall
    split
    · split
      · split
        · exact le_start (e := by rfl) (ih.fArr _ _ _ _ _ _)
        · exact le_start (e := by rfl) (ih.fStr _ _ _ _ _ _)
        · exact le_start (e := by rfl) (ih.fDict _ _ _ _)
        · exact le_same rfl
      · exact le_same rfl
    · exact le_same rfl
  · exact le_readstring s
  · unfold defaultErrorHandler
    split
    · exact le_same rfl
    · exact le_same rfl
  · -- eexec
    split
    · exact le_same rfl
    · rename_i rest hst
      dsimp only
      have hpush : cap s ≤ dcap (pushDict { s.vm with stack := rest } s.vm.roots.systemDict) :=
        dcap_pushDict { s.vm with stack := rest } s.vm.roots.systemDict
      split
      · exact hpush
      · generalize hb : beginEexec s.scanner = b
        obtain ⟨rb, sc2⟩ := b
        simp only [withScanner, hb]
        split
        · have g : Le s ({ s with vm := pushDict { s.vm with stack := rest } s.vm.roots.systemDict, scanner := sc2 }, Res.ok) := hpush
          exact le_trunc g _ _
        · generalize hs2 : ({ s with vm := pushDict { s.vm with stack := rest } s.vm.roots.systemDict, scanner := sc2 } : State) = s2
          have g2 : Le s (s2, Res.ok) := by subst hs2; exact hpush
          have g3 := ih.sRun s2
          generalize scanRun n m s2 = p3 at g3
          obtain ⟨s3, r3⟩ := p3
          have g : Le s (s3, r3) := g2.seq g3
          simp only
          split
          · exact le_trunc g _ _
          · exact le_trunc g _ _
          · exact le_trunc g _ _
    · exact le_same rfl
  · -- data operators
    split
    · rename_i v r hv
      exact pure_mono id s.vm (v, r) hv
    · exact le_same rfl

theorem all_succ {m n : Nat} (ih : All m n) : All m (n + 1) where
  one := step_execOne ih
  body := step_execBody ih
  tail := step_execTail ih
  run := step_runBody ih
  call := step_callBuiltin ih
  forL := step_forLoop ih
  rep := step_repeatLoop ih
  loop := step_loopLoop ih
  fArr := step_forallArr ih
  fStr := step_forallStr ih
  fDict := step_forallDict ih
  sRun := step_scanRun ih
  sLoop := step_scanLoop ih

/-- no function of the interpreter shrinks `DictStack`'s capacity, whatever the state and the budget -/
theorem allMono (m : Nat) : ∀ fuel, All m fuel
  | 0 => all_zero m
  | n + 1 => all_succ (allMono m n)

end PsVerif.Proofs.C05Dict
