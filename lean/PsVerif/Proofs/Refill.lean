import PsVerif.Model.Refill
/-!
# The buffered scanner refines the abstract one, for every delivery schedule

`Model/Refill.lean` models `refill`/`readByteRaw` over a 512-byte buffer and a reader that
answers according to an arbitrary schedule.  Here: the simulation relation `R` between the
buffered state and the abstract `Scanner` of `Model/Scanner.lean`, preserved by every raw
operation with equal observations.
-/
namespace PsVerif.Proofs.Refill
open PsVerif.Model PsVerif.Model.Refill

/-! ### laws of the reader -/

theorem read_nil (r : Rd) (k : Nat) (h : r.chunks = []) : r.read k = ([], some r.fin, r) := by
  unfold Rd.read; rw [h]

theorem read_fit (r : Rd) (k : Nat) (c : Chunk) (rest : List Chunk) (h : r.chunks = c :: rest)
    (hk : c.data.length ≤ k) : r.read k = (c.data, c.err, { r with chunks := rest }) := by
  unfold Rd.read; rw [h]; simp only [hk, if_true]

theorem read_split (r : Rd) (k : Nat) (c : Chunk) (rest : List Chunk) (h : r.chunks = c :: rest)
    (hk : ¬ c.data.length ≤ k) :
    r.read k = (c.data.take k, none, { r with chunks := { c with data := c.data.drop k } :: rest }) := by
  unfold Rd.read; rw [h]; simp only [hk, if_false]

theorem read_len (r : Rd) (k : Nat) : (r.read k).1.length ≤ k := by
  cases hcs : r.chunks with
  | nil => rw [read_nil r k hcs]; simp
  | cons c rest =>
    by_cases hk : c.data.length ≤ k
    · rw [read_fit r k c rest hcs hk]; exact hk
    · rw [read_split r k c rest hcs hk]; simp; omega

theorem read_fin (r : Rd) (k : Nat) : (r.read k).2.2.fin = r.fin := by
  cases hcs : r.chunks with
  | nil => rw [read_nil r k hcs]
  | cons c rest =>
    by_cases hk : c.data.length ≤ k
    · rw [read_fit r k c rest hcs hk]
    · rw [read_split r k c rest hcs hk]

/-- a call returning nil: what it returns is the beginning of what the reader delivers -/
theorem read_ok (r : Rd) (k : Nat) (h : (r.read k).2.1 = none) :
    r.delivered = ((r.read k).1 ++ (r.read k).2.2.delivered.1, (r.read k).2.2.delivered.2) := by
  unfold Rd.delivered
  cases hcs : r.chunks with
  | nil => rw [read_nil r k hcs] at h; simp at h
  | cons c rest =>
    by_cases hk : c.data.length ≤ k
    · rw [read_fit r k c rest hcs hk] at h ⊢
      simp only at h
      simp [deliveredL, h]
    · rw [read_split r k c rest hcs hk]
      cases he : c.err <;> simp [deliveredL, he, ← List.append_assoc]

/-- a call returning an error: the bytes coming with it are the last ones -/
theorem read_err (r : Rd) (k : Nat) (e : RdErr) (h : (r.read k).2.1 = some e) :
    r.delivered = ((r.read k).1, e) := by
  unfold Rd.delivered
  cases hcs : r.chunks with
  | nil =>
    rw [read_nil r k hcs] at h ⊢
    simp at h
    simp [deliveredL, h]
  | cons c rest =>
    by_cases hk : c.data.length ≤ k
    · rw [read_fit r k c rest hcs hk] at h ⊢
      simp only at h
      simp [deliveredL, h]
    · rw [read_split r k c rest hcs hk] at h; simp at h

theorem read_chunks_le (r : Rd) (k : Nat) : (r.read k).2.2.chunks.length ≤ r.chunks.length := by
  cases hcs : r.chunks with
  | nil => rw [read_nil r k hcs]; simp [hcs]
  | cons c rest =>
    by_cases hk : c.data.length ≤ k
    · rw [read_fit r k c rest hcs hk]; simp
    · rw [read_split r k c rest hcs hk]; simp

/-- a zero-progress answer uses up a chunk -/
theorem read_chunks_lt (r : Rd) (k : Nat) (hk0 : 0 < k) (h0 : (r.read k).1 = [])
    (h : (r.read k).2.1 = none) : (r.read k).2.2.chunks.length < r.chunks.length := by
  cases hcs : r.chunks with
  | nil => rw [read_nil r k hcs] at h; simp at h
  | cons c rest =>
    by_cases hk : c.data.length ≤ k
    · rw [read_fit r k c rest hcs hk]; simp
    · rw [read_split r k c rest hcs hk] at h0
      simp only at h0
      have : (c.data.take k).length = 0 := by rw [h0]; rfl
      rw [List.length_take] at this
      omega

/-! ### the buffer -/

/-- the indices are in range and the buffer is not empty (`make([]byte, 512)`) -/
def WF (b : Buf) : Prop := b.pos ≤ b.used ∧ b.used ≤ b.buf.length ∧ 0 < b.buf.length

/-- the unread bytes `buf[pos:used]` -/
def pending (b : Buf) : List UInt8 := (b.buf.drop b.pos).take (b.used - b.pos)

/-- what the reader will still deliver: nothing after its first error -/
def stream (b : Buf) : List UInt8 × RdErr :=
  match b.srcErr with
  | some e => ([], e)
  | none => b.rd.delivered

theorem refill_sticky (b : Buf) (e : RdErr) (h : b.srcErr = some e) : refill b = (some e.toErr, b) := by
  unfold refill; rw [h]

theorem move_length (buf : List UInt8) (pos used : Nat) (h1 : pos ≤ used) (h2 : used ≤ buf.length) :
    ((buf.drop pos).take (used - pos) ++ buf.drop (used - pos)).length = buf.length := by
  simp [List.length_take, List.length_drop]; omega

theorem refill_read (b : Buf) (hw : WF b) (h : b.srcErr = none) :
    refill b =
      (if (b.rd.read (b.buf.length - (b.used - b.pos))).1.length > 0 then none
        else (b.rd.read (b.buf.length - (b.used - b.pos))).2.1.map RdErr.toErr,
       { b with
          buf := ((b.buf.drop b.pos).take (b.used - b.pos) ++ b.buf.drop (b.used - b.pos)).take (b.used - b.pos)
            ++ (b.rd.read (b.buf.length - (b.used - b.pos))).1
            ++ ((b.buf.drop b.pos).take (b.used - b.pos) ++ b.buf.drop (b.used - b.pos)).drop
                ((b.used - b.pos) + (b.rd.read (b.buf.length - (b.used - b.pos))).1.length),
          pos := 0,
          used := (b.used - b.pos) + (b.rd.read (b.buf.length - (b.used - b.pos))).1.length,
          srcErr := (b.rd.read (b.buf.length - (b.used - b.pos))).2.1,
          rd := (b.rd.read (b.buf.length - (b.used - b.pos))).2.2 }) := by
  obtain ⟨h1, h2, _⟩ := hw
  unfold refill
  rw [h]
  have hc : ¬ (b.pos > b.used ∨ b.used > b.buf.length) := by omega
  simp only [hc, if_false]
  rw [move_length b.buf b.pos b.used h1 h2]

/-- the answer of the reader to the `Read` issued by `refill` -/
def rr (b : Buf) : List UInt8 × Option RdErr × Rd := b.rd.read (b.buf.length - (b.used - b.pos))

theorem list_fill {α : Type} (P Y d X : List α) (m : Nat) (hP : P.length = m) :
    (((P ++ Y).take m ++ d ++ X).drop 0).take (m + d.length - 0) = P ++ d := by
  subst hP
  simp
  rw [← List.append_assoc]
  exact List.take_left' (by simp)

theorem pending_len (b : Buf) (hw : WF b) : (pending b).length = b.used - b.pos := by
  unfold pending
  obtain ⟨h1, h2, _⟩ := hw
  simp [List.length_take, List.length_drop]; omega

/-- `refill` with no error pending: the unread bytes are kept (moved to the front), the bytes
read are appended, the indices stay in range, the capacity is unchanged -/
theorem refill_spec (b : Buf) (hw : WF b) (h : b.srcErr = none) :
    WF (refill b).2 ∧ (refill b).2.buf.length = b.buf.length
    ∧ pending (refill b).2 = pending b ++ (rr b).1
    ∧ (refill b).2.srcErr = (rr b).2.1 ∧ (refill b).2.rd = (rr b).2.2
    ∧ (refill b).2.pos = 0 ∧ (refill b).2.used = (b.used - b.pos) + (rr b).1.length
    ∧ (refill b).1 = (if (rr b).1.length > 0 then none else (rr b).2.1.map RdErr.toErr)
    ∧ (refill b).2.peek = b.peek ∧ (refill b).2.regurgitate = b.regurgitate ∧ (refill b).2.err = b.err := by
  rw [refill_read b hw h]
  have hl := read_len b.rd (b.buf.length - (b.used - b.pos))
  have hpl := pending_len b hw
  obtain ⟨h1, h2, h3⟩ := hw
  have hml := move_length b.buf b.pos b.used h1 h2
  unfold rr
  generalize b.rd.read (b.buf.length - (b.used - b.pos)) = r at hl ⊢
  obtain ⟨d, e, rd'⟩ := r
  simp only at hl
  have hlen : (List.take (b.used - b.pos) (List.take (b.used - b.pos) (List.drop b.pos b.buf) ++ List.drop (b.used - b.pos) b.buf) ++ d ++
          List.drop (b.used - b.pos + d.length)
            (List.take (b.used - b.pos) (List.drop b.pos b.buf) ++ List.drop (b.used - b.pos) b.buf)).length = b.buf.length := by
    rw [List.length_append, List.length_append, List.length_take, List.length_drop, hml]
    omega
  refine ⟨⟨?_, ?_, ?_⟩, hlen, ?_, rfl, rfl, rfl, rfl, rfl, rfl, rfl, rfl⟩
  · simp
  · simp only []; rw [hlen]; omega
  · simp only []; rw [hlen]; exact h3
  · unfold pending
    simp only []
    exact list_fill _ _ _ _ _ hpl

/-- `refill` does not change what is still to come: unread bytes followed by the rest of the
reader's stream, and the final error -/
theorem refill_stream (b : Buf) (hw : WF b) (h : b.srcErr = none) :
    pending (refill b).2 ++ (stream (refill b).2).1 = pending b ++ (stream b).1
    ∧ (stream (refill b).2).2 = (stream b).2 := by
  obtain ⟨_, _, hp, he, hr, _⟩ := refill_spec b hw h
  unfold stream
  rw [hp, he, hr, h]
  unfold rr
  cases hx : (b.rd.read (b.buf.length - (b.used - b.pos))).2.1 with
  | none =>
    simp only []
    rw [read_ok b.rd _ hx]
    simp
  | some x =>
    simp only []
    rw [read_err b.rd _ x hx]
    simp

/-- `b'` is a later state of `b` with the same future -/
structure Later (b b' : Buf) : Prop where
  wf : WF b'
  cap : b'.buf.length = b.buf.length
  src : pending b' ++ (stream b').1 = pending b ++ (stream b).1
  fin : (stream b').2 = (stream b).2
  peek : b'.peek = b.peek
  reg : b'.regurgitate = b.regurgitate

theorem Later.refl (b : Buf) (hw : WF b) : Later b b := ⟨hw, rfl, rfl, rfl, rfl, rfl⟩

theorem Later.trans {a b c : Buf} (h1 : Later a b) (h2 : Later b c) : Later a c :=
  ⟨h2.wf, h2.cap.trans h1.cap, h2.src.trans h1.src, h2.fin.trans h1.fin, h2.peek.trans h1.peek,
    h2.reg.trans h1.reg⟩

theorem fillLoop_succ (fuel : Nat) (b : Buf) :
    fillLoop (fuel + 1) b =
      if b.pos ≥ b.used then
        (match (refill b).1 with
         | some e => (some e, { (refill b).2 with err := some e })
         | none => fillLoop fuel (refill b).2)
      else (none, b) := by
  simp only [fillLoop]
  split
  · generalize refill b = r
    obtain ⟨r1, r2⟩ := r
    cases r1 <;> rfl
  · rfl

/-- the outcome of the refill loop -/
def FillOut (b : Buf) (r : Option Err × Buf) : Prop :=
  (r.1 = none ∧ r.2.pos < r.2.used ∧ r.2.err = b.err)
  ∨ (∃ x : RdErr, r.1 = some x.toErr ∧ r.2.err = some x.toErr ∧ r.2.srcErr = some x ∧ pending r.2 = [])

/-- the refill loop: never runs out of fuel, never panics, keeps the future, and ends either
with an unread byte in the buffer or with the reader's error (then also stored in `err`) -/
theorem fillLoop_spec (fuel : Nat) (b : Buf) (hw : WF b) (hf : b.rd.chunks.length + 2 ≤ fuel) :
    Later b (fillLoop fuel b).2 ∧ FillOut b (fillLoop fuel b) := by
  induction fuel generalizing b with
  | zero => omega
  | succ fuel ih =>
    rw [fillLoop_succ]
    by_cases hp : b.pos ≥ b.used
    · simp only [hp, if_true]
      have hpu : b.used - b.pos = 0 := by omega
      cases hs : b.srcErr with
      | some e =>
        rw [refill_sticky b e hs]
        simp only []
        refine ⟨⟨hw, rfl, ?_, ?_, rfl, rfl⟩, Or.inr ⟨e, rfl, rfl, hs, ?_⟩⟩
        · rfl
        · rfl
        · show pending b = []
          have := pending_len b hw
          rw [hpu] at this
          exact List.eq_nil_of_length_eq_zero this
      | none =>
        obtain ⟨hw', hcap, hpe, hse, hrd, hpos, hused, hret, hpk, hrg, herr⟩ := refill_spec b hw hs
        obtain ⟨hsrc, hfin⟩ := refill_stream b hw hs
        have hl : Later b (refill b).2 := ⟨hw', hcap, hsrc, hfin, hpk, hrg⟩
        by_cases hd : (rr b).1.length > 0
        · -- progress: the loop ends
          simp only [hd, if_true] at hret
          rw [hret]
          simp only []
          have hlt : (refill b).2.pos < (refill b).2.used := by rw [hpos, hused]; omega
          obtain ⟨f', rfl⟩ : ∃ f', fuel = f' + 1 := ⟨fuel - 1, by omega⟩
          rw [fillLoop_succ]
          have : ¬ (refill b).2.pos ≥ (refill b).2.used := by omega
          simp only [this, if_false]
          exact ⟨hl, Or.inl ⟨rfl, hlt, herr⟩⟩
        · simp only [hd, if_false] at hret
          have hd0 : (rr b).1 = [] := List.eq_nil_of_length_eq_zero (by omega)
          cases he : (rr b).2.1 with
          | none =>
            rw [he] at hret
            simp only [Option.map] at hret
            rw [hret]
            simp only []
            have hk : 0 < b.buf.length - (b.used - b.pos) := by rw [hpu]; have := hw.2.2; omega
            have hlt := read_chunks_lt b.rd _ hk hd0 he
            have hf' : (refill b).2.rd.chunks.length + 2 ≤ fuel := by
              rw [hrd]; unfold rr; omega
            obtain ⟨l2, o2⟩ := ih (refill b).2 hw' hf'
            refine ⟨hl.trans l2, ?_⟩
            rcases o2 with ⟨a1, a2, a3⟩ | ⟨x, a1, a2, a3, a4⟩
            · exact Or.inl ⟨a1, a2, a3.trans herr⟩
            · exact Or.inr ⟨x, a1, a2, a3, a4⟩
          | some x =>
            rw [he] at hret
            simp only [Option.map] at hret
            rw [hret]
            simp only []
            refine ⟨⟨hw', hcap, hsrc, hfin, hpk, hrg⟩, Or.inr ⟨x, rfl, rfl, ?_, ?_⟩⟩
            · show (refill b).2.srcErr = some x
              rw [hse, he]
            · show pending (refill b).2 = []
              rw [hpe, hd0]
              have := pending_len b hw
              rw [hpu] at this
              simp [List.eq_nil_of_length_eq_zero this]
    · simp only [hp, if_false]
      exact ⟨Later.refl b hw, Or.inl ⟨rfl, by show b.pos < b.used; omega, rfl⟩⟩

/-- Whenever the loop of `readByteRaw` calls `refill` the buffer is empty, so the reader is
offered the whole buffer: `Read` is never called with an empty slice -/
theorem fillLoop_offers_cap (b : Buf) (hw : WF b) (hp : b.pos ≥ b.used) :
    rr b = b.rd.read b.buf.length ∧ 0 < b.buf.length := by
  unfold rr
  have : b.used - b.pos = 0 := by omega
  rw [this]
  exact ⟨rfl, hw.2.2⟩

/-! ### the abstract `readByteRaw`, case by case -/

/-- the error the abstract scanner produces at the end of `src` -/
def faultErr (f : Option String) : Err := match f with | none => .eof | some t => .io t

theorem faultErr_toFault (x : RdErr) : faultErr x.toFault = x.toErr := by cases x <;> rfl

theorem abs_reg (a : Scanner) (x : UInt8) (rest : List UInt8) (h1 : a.regurgitate = true)
    (h2 : a.peek = x :: rest) : Scan.readByteRaw a = (.ok x, { a with peek := rest }) := by
  unfold Scan.readByteRaw
  simp [h1, h2]

theorem abs_cons (a : Scanner) (x : UInt8) (rest : List UInt8)
    (hc : (a.regurgitate && !a.peek.isEmpty) = false) (hs : a.src = x :: rest) :
    Scan.readByteRaw a = (.ok x, { a with src := rest }) := by
  unfold Scan.readByteRaw
  simp only [hc, hs]
  cases a.err <;> simp

theorem abs_nil_some (a : Scanner) (e : Err) (hc : (a.regurgitate && !a.peek.isEmpty) = false)
    (hs : a.src = []) (he : a.err = some e) : Scan.readByteRaw a = (.error e, a) := by
  unfold Scan.readByteRaw
  simp [hc, hs, he]

theorem abs_nil_none (a : Scanner) (hc : (a.regurgitate && !a.peek.isEmpty) = false)
    (hs : a.src = []) (he : a.err = none) :
    Scan.readByteRaw a = (.error (faultErr a.fault), { a with err := some (faultErr a.fault) }) := by
  unfold Scan.readByteRaw faultErr
  simp only [hc, he, Bool.false_eq_true, if_false]
  rw [hs]
  rfl

/-! ### the simulation -/

theorem pending_cons (b : Buf) (h1 : b.pos < b.used) (h2 : b.used ≤ b.buf.length) :
    ∃ x, b.buf[b.pos]? = some x ∧ pending b = x :: pending { b with pos := b.pos + 1 } := by
  have hlt : b.pos < b.buf.length := by omega
  refine ⟨b.buf[b.pos], List.getElem?_eq_getElem hlt, ?_⟩
  unfold pending
  simp only []
  rw [List.drop_eq_getElem_cons hlt]
  have : b.used - b.pos = (b.used - (b.pos + 1)) + 1 := by omega
  rw [this, List.take_succ_cons]

/-- The simulation relation between the buffered scanner (with the reader's remaining
schedule inside) and the abstract scanner: the abstract `src` is the unread part of the
buffer followed by everything the reader will still deliver, `fault` is the error it will
end with, and `peek`, `regurgitate` and the visible `err` are equal. -/
structure R (b : Buf) (a : Scanner) : Prop where
  wf : WF b
  src : a.src = pending b ++ (stream b).1
  fault : a.fault = (stream b).2.toFault
  peek : a.peek = b.peek
  reg : a.regurgitate = b.regurgitate
  err : a.err = b.err
  errInv : ∀ e, a.err = some e → e = (stream b).2.toErr

/-- `readByteRaw` on both sides: same return value, related states -/
theorem read_sim (b : Buf) (a : Scanner) (h : R b a) :
    (readByteRaw b).1 = (Scan.readByteRaw a).1 ∧ R (readByteRaw b).2 (Scan.readByteRaw a).2 := by
  by_cases hreg : (b.regurgitate && !b.peek.isEmpty) = true
  · cases hpk : b.peek with
    | nil => simp [hpk] at hreg
    | cons x rest =>
      have hr : b.regurgitate = true := by simp at hreg; exact hreg.1
      rw [abs_reg a x rest (h.reg.trans hr) (h.peek.trans hpk)]
      unfold readByteRaw
      simp only [hreg, if_true]
      simp only [hpk]
      exact ⟨trivial, ⟨h.wf, h.src, h.fault, rfl, h.reg, h.err, h.errInv⟩⟩
  · have hreg' : (b.regurgitate && !b.peek.isEmpty) = false := by simpa using hreg
    have hca : (a.regurgitate && !a.peek.isEmpty) = false := by rw [h.reg, h.peek]; exact hreg'
    unfold readByteRaw
    simp only [hreg', Bool.false_eq_true, if_false]
    obtain ⟨hl, ho⟩ := fillLoop_spec _ b h.wf (Nat.le_refl _)
    generalize fillLoop (b.rd.chunks.length + 2) b = r at hl ho
    obtain ⟨r1, b'⟩ := r
    simp only [FillOut] at hl ho
    rcases ho with ⟨h1, h2, h3⟩ | ⟨x, h1, h2, h3, h4⟩
    · subst h1
      simp only []
      obtain ⟨y, hy, hpc⟩ := pending_cons b' h2 hl.wf.2.1
      rw [hy]
      simp only []
      have hsrc : a.src = y :: (pending { b' with pos := b'.pos + 1 } ++ (stream b').1) := by
        rw [h.src, ← hl.src, hpc]; rfl
      rw [abs_cons a y _ hca hsrc]
      refine ⟨rfl, ⟨?_, rfl, ?_, ?_, ?_, ?_, ?_⟩⟩
      · exact ⟨by show b'.pos + 1 ≤ b'.used; omega, hl.wf.2.1, hl.wf.2.2⟩
      · show a.fault = (stream b').2.toFault
        rw [h.fault, hl.fin]
      · exact h.peek.trans hl.peek.symm
      · exact h.reg.trans hl.reg.symm
      · exact h.err.trans h3.symm
      · intro e he
        show e = (stream b').2.toErr
        rw [hl.fin]; exact h.errInv e he
    · subst h1
      simp only []
      have hst : stream b' = ([], x) := by unfold stream; rw [h3]
      have hsrc : a.src = [] := by
        rw [h.src, ← hl.src, h4, hst]; rfl
      have hfin : (stream b).2 = x := by rw [← hl.fin, hst]
      cases ha : a.err with
      | none =>
        have hfe : faultErr a.fault = x.toErr := by rw [h.fault, hfin, faultErr_toFault]
        rw [abs_nil_none a hca hsrc ha, hfe]
        refine ⟨rfl, ⟨hl.wf, ?_, ?_, ?_, ?_, ?_, ?_⟩⟩
        · show a.src = _
          rw [hsrc, h4, hst]; rfl
        · show a.fault = _
          rw [h.fault, hl.fin]
        · exact h.peek.trans hl.peek.symm
        · exact h.reg.trans hl.reg.symm
        · exact h2.symm
        · intro e he
          simp only [Option.some.injEq] at he
          rw [hst, ← he]
      | some e =>
        rw [abs_nil_some a e hca hsrc ha]
        have hee : e = x.toErr := by rw [← hfin]; exact h.errInv e ha
        refine ⟨by rw [hee], ⟨hl.wf, ?_, ?_, ?_, ?_, ?_, ?_⟩⟩
        · rw [hsrc, h4, hst]; rfl
        · rw [h.fault, hl.fin]
        · exact h.peek.trans hl.peek.symm
        · exact h.reg.trans hl.reg.symm
        · rw [ha, h2, hee]
        · intro e' he'
          rw [hl.fin]; exact h.errInv e' he'

/-- every operation of the upper layers: same observation, related states -/
theorem step_sim (op : Op) (b : Buf) (a : Scanner) (h : R b a) :
    (stepB op b).1 = (stepA op a).1 ∧ R (stepB op b).2 (stepA op a).2 := by
  cases op with
  | read =>
    obtain ⟨h1, h2⟩ := read_sim b a h
    simp only [stepB, stepA]
    exact ⟨by rw [h1], h2⟩
  | getErr =>
    simp only [stepB, stepA]
    exact ⟨by rw [h.err], h⟩
  | setRegurgitate v =>
    simp only [stepB, stepA]
    exact ⟨trivial, ⟨h.wf, h.src, h.fault, h.peek, rfl, h.err, h.errInv⟩⟩
  | setPeek p =>
    simp only [stepB, stepA]
    exact ⟨trivial, ⟨h.wf, h.src, h.fault, rfl, h.reg, h.err, h.errInv⟩⟩

/-- any sequence of operations observes the same on both sides -/
theorem run_sim (ops : List Op) (b : Buf) (a : Scanner) (h : R b a) : runB ops b = runA ops a := by
  induction ops generalizing b a with
  | nil => rfl
  | cons op ops ih =>
    obtain ⟨h1, h2⟩ := step_sim op b a h
    simp only [runB, runA]
    rw [h1, ih _ _ h2]

/-- any adaptive client observes the same on both sides -/
theorem drive_sim (c : Client) (n : Nat) (hist : List Obs) (b : Buf) (a : Scanner) (h : R b a) :
    driveB c n hist b = driveA c n hist a := by
  induction n generalizing hist b a with
  | zero => rfl
  | succ n ih =>
    simp only [driveB, driveA]
    cases c hist with
    | none => rfl
    | some op =>
      obtain ⟨h1, h2⟩ := step_sim op b a h
      simp only []
      rw [h1, ih _ _ _ h2]

/-- a fresh scanner over a reader that delivers `bs` and then `e` is related to the abstract
scanner with `src = bs` and the fault `e` -/
theorem init_sim (cap : Nat) (hc : 0 < cap) (rd : Rd) (bs : List UInt8) (e : RdErr)
    (hd : rd.delivered = (bs, e)) : R (newBuf cap rd) (absInit bs e) := by
  refine ⟨⟨Nat.le_refl _, ?_, ?_⟩, ?_, ?_, rfl, rfl, rfl, ?_⟩
  · simp [newBuf]
  · simp [newBuf]; exact hc
  · show bs = pending (newBuf cap rd) ++ (stream (newBuf cap rd)).1
    have : stream (newBuf cap rd) = rd.delivered := rfl
    rw [this, hd]
    simp [pending, newBuf]
  · show e.toFault = (stream (newBuf cap rd)).2.toFault
    have : stream (newBuf cap rd) = rd.delivered := rfl
    rw [this, hd]
  · intro e' he'
    simp [absInit] at he'

/-- `n` successive `readByteRaw` on the abstract scanner: the bytes of `src`, then the error -/
theorem runA_reads (n : Nat) (a : Scanner) (hreg : a.regurgitate = false)
    (herr : ∀ e, a.err = some e → e = faultErr a.fault) :
    runA (List.replicate n .read) a
      = (a.src.map Obs.byte ++ List.replicate n (Obs.fail (faultErr a.fault))).take n := by
  induction n generalizing a with
  | zero => simp [runA]
  | succ n ih =>
    have hc : (a.regurgitate && !a.peek.isEmpty) = false := by simp [hreg]
    simp only [List.replicate_succ, runA, stepA]
    cases hs : a.src with
    | cons x rest =>
      rw [abs_cons a x rest hc hs]
      simp only [obsOf]
      rw [ih { a with src := rest } hreg herr]
      simp only [List.map_cons, List.cons_append, List.take_succ_cons]
      congr 1
      rw [List.take_append, List.take_append]
      congr 1
      simp only [List.length_map]
      rw [← List.replicate_succ, List.take_replicate, List.take_replicate]
      congr 1
      omega
    | nil =>
      cases he : a.err with
      | none =>
        rw [abs_nil_none a hc hs he]
        simp only [obsOf]
        rw [ih { a with err := some (faultErr a.fault) } hreg (by intro e h; simp at h; exact h.symm)]
        simp [hs]
      | some e =>
        rw [abs_nil_some a e hc hs he]
        simp only [obsOf]
        rw [ih a hreg herr, herr e he]
        simp [hs]

/-! ### what `readByteRaw` can return -/

theorem abs_result (a : Scanner) :
    (∃ y, (Scan.readByteRaw a).1 = .ok y)
    ∨ ((a.regurgitate && !a.peek.isEmpty) = false ∧ a.src = []
        ∧ ((a.err = none ∧ (Scan.readByteRaw a).1 = .error (faultErr a.fault))
           ∨ (∃ e, a.err = some e ∧ (Scan.readByteRaw a).1 = .error e))) := by
  by_cases hreg : (a.regurgitate && !a.peek.isEmpty) = true
  · cases hpk : a.peek with
    | nil => simp [hpk] at hreg
    | cons x rest =>
      have hr : a.regurgitate = true := by simp at hreg; exact hreg.1
      rw [abs_reg a x rest hr hpk]
      exact Or.inl ⟨x, rfl⟩
  · have hc : (a.regurgitate && !a.peek.isEmpty) = false := by simpa using hreg
    cases hs : a.src with
    | cons x rest => rw [abs_cons a x rest hc hs]; exact Or.inl ⟨x, rfl⟩
    | nil =>
      refine Or.inr ⟨hc, rfl, ?_⟩
      cases he : a.err with
      | none => rw [abs_nil_none a hc hs he]; exact Or.inl ⟨rfl, rfl⟩
      | some e => rw [abs_nil_some a e hc hs he]; exact Or.inr ⟨e, rfl, rfl⟩

/-- `readByteRaw` returns a byte or the reader's final error: the index `buf[pos]` is in
range, the slice in `refill` is valid, the loop ends (no `panic`, no fuel error) -/
theorem readByteRaw_result (b : Buf) (a : Scanner) (h : R b a) :
    (∃ y, (readByteRaw b).1 = .ok y) ∨ (readByteRaw b).1 = .error (stream b).2.toErr := by
  rw [(read_sim b a h).1]
  rcases abs_result a with ⟨y, hy⟩ | ⟨_, _, ⟨_, h2⟩ | ⟨e, h1, h2⟩⟩
  · exact Or.inl ⟨y, hy⟩
  · right; rw [h2, h.fault, faultErr_toFault]
  · right; rw [h2, h.errInv e h1]

/-- after its first error the reader is never called again -/
theorem no_read_after_error (b : Buf) (e : RdErr) (h : b.srcErr = some e) : (refill b).2 = b := by
  rw [refill_sticky b e h]

/-! ### `type1/peekreader.go` -/

/-- a `peekReader` answers every `Read` exactly like the schedule `toRd` -/
theorem peekRd_read (p : PeekRd) (k : Nat) :
    p.toRd.read k = ((p.read k).1, (p.read k).2.1, (p.read k).2.2.toRd) := by
  unfold PeekRd.read PeekRd.toRd
  by_cases h0 : p.buf.length = 0
  · simp only [h0, if_true]
  · simp only [h0, if_false]
    by_cases hk : k > p.buf.length
    · simp only [hk, if_true]
      have hfit : p.buf.length ≤ k := by omega
      rw [read_fit _ k { data := p.buf } p.r.chunks rfl hfit]
      simp
    · simp only [hk, if_false]
      by_cases hk2 : p.buf.length ≤ k
      · have : k = p.buf.length := by omega
        subst this
        rw [read_fit _ _ { data := p.buf } p.r.chunks rfl (Nat.le_refl _)]
        simp
      · rw [read_split _ k { data := p.buf } p.r.chunks rfl hk2]
        have : ¬ (p.buf.length - k = 0) := by omega
        simp [this]

/-- successive `Read` calls with the given slice lengths -/
def Rd.reads : List Nat → Rd → List (List UInt8 × Option RdErr)
  | [], _ => []
  | k :: ks, r => ((r.read k).1, (r.read k).2.1) :: Rd.reads ks (r.read k).2.2

def PeekRd.reads : List Nat → PeekRd → List (List UInt8 × Option RdErr)
  | [], _ => []
  | k :: ks, p => ((p.read k).1, (p.read k).2.1) :: PeekRd.reads ks (p.read k).2.2

theorem peekRd_reads (ks : List Nat) (p : PeekRd) : PeekRd.reads ks p = Rd.reads ks p.toRd := by
  induction ks generalizing p with
  | nil => rfl
  | cons k ks ih =>
    simp only [PeekRd.reads, Rd.reads]
    rw [peekRd_read p k]
    simp only []
    rw [ih]

theorem toRd_delivered (p : PeekRd) : p.toRd.delivered = (p.buf ++ p.r.delivered.1, p.r.delivered.2) := by
  unfold PeekRd.toRd
  by_cases h0 : p.buf.length = 0
  · simp only [h0, if_true]
    rw [List.eq_nil_of_length_eq_zero h0]
    simp
  · simp only [h0, if_false]
    simp [Rd.delivered, deliveredL]

theorem deliveredL_all (rest : List Chunk) (x : RdErr)
    (h : rest.all (fun c' => c'.data.isEmpty && c'.err == some x) = true) : deliveredL rest x = ([], x) := by
  cases rest with
  | nil => rfl
  | cons c rest =>
    simp at h
    obtain ⟨⟨h1, h2⟩, _⟩ := h
    simp [deliveredL, h1, h2]

theorem sticky_err (r : Rd) (k : Nat) (x : RdErr) (hs : r.sticky = true) (h : (r.read k).2.1 = some x) :
    (r.read k).2.2.delivered = ([], x) := by
  unfold Rd.sticky at hs
  unfold Rd.delivered
  cases hcs : r.chunks with
  | nil =>
    rw [read_nil r k hcs] at h ⊢
    simp at h
    simp [hcs, deliveredL, h]
  | cons c rest =>
    rw [hcs] at hs
    by_cases hk : c.data.length ≤ k
    · rw [read_fit r k c rest hcs hk] at h ⊢
      simp only at h
      simp [stickyL, h] at hs
      simp only []
      rw [hs.1]
      exact deliveredL_all rest x (by simpa using hs.2)
    · rw [read_split r k c rest hcs hk] at h; simp at h

theorem sticky_ok (r : Rd) (k : Nat) (hs : r.sticky = true) (h : (r.read k).2.1 = none) :
    (r.read k).2.2.sticky = true := by
  unfold Rd.sticky at hs ⊢
  cases hcs : r.chunks with
  | nil => rw [read_nil r k hcs] at h; simp at h
  | cons c rest =>
    rw [hcs] at hs
    by_cases hk : c.data.length ≤ k
    · rw [read_fit r k c rest hcs hk] at h ⊢
      simp only at h
      simpa [stickyL, h] using hs
    · rw [read_split r k c rest hcs hk]
      simpa [stickyL] using hs

/-- the outcome of the `io.ReadFull` loop -/
def FullOut (r : Rd) (need : Nat) (acc : List UInt8) (out : List UInt8 × Option RdErr × Rd) : Prop :=
  ∃ d : List UInt8, out.1 = acc ++ d ∧ d.length ≤ need ∧
    ((out.2.1 = none ∧ d.length = need
        ∧ r.delivered = (d ++ out.2.2.delivered.1, out.2.2.delivered.2)
        ∧ (r.sticky = true → out.2.2.sticky = true))
     ∨ (∃ x, out.2.1 = some x ∧ r.delivered = (d, x)
        ∧ (r.sticky = true → out.2.2.delivered = ([], x))))

theorem readFullLoop_spec (fuel : Nat) (r : Rd) (need : Nat) (acc : List UInt8)
    (hf : r.chunks.length + need + 1 ≤ fuel) : FullOut r need acc (readFullLoop fuel r need acc) := by
  induction fuel generalizing r need acc with
  | zero => omega
  | succ fuel ih =>
    simp only [readFullLoop]
    by_cases hn : need = 0
    · simp only [hn, if_true]
      exact ⟨[], by simp, by simp, Or.inl ⟨rfl, rfl, by simp, fun h => h⟩⟩
    · simp only [hn, if_false]
      have hlen := read_len r need
      cases he : (r.read need).2.1 with
      | some x =>
        have hd := read_err r need x he
        have hst := sticky_err r need x
        generalize r.read need = rr' at he hd hst hlen
        obtain ⟨d, e, r'⟩ := rr'
        simp only at he hd hst hlen
        subst he
        simp only []
        exact ⟨d, rfl, hlen, Or.inr ⟨x, rfl, hd, fun h => hst h rfl⟩⟩
      | none =>
        have hd := read_ok r need he
        have hst := sticky_ok r need
        have hle := read_chunks_le r need
        have hlt := read_chunks_lt r need (by omega)
        generalize r.read need = rr' at he hd hst hlen hle hlt
        obtain ⟨d, e, r'⟩ := rr'
        simp only at he hd hst hlen hle hlt
        subst he
        simp only []
        have hf' : r'.chunks.length + (need - d.length) + 1 ≤ fuel := by
          by_cases hd0 : d = []
          · have := hlt hd0 rfl; omega
          · have : 0 < d.length := List.length_pos_iff.mpr hd0
            omega
        obtain ⟨d2, h1, h2, h3⟩ := ih r' (need - d.length) (acc ++ d) hf'
        refine ⟨d ++ d2, by rw [h1, List.append_assoc], by simp; omega, ?_⟩
        rcases h3 with ⟨a1, a2, a3, a4⟩ | ⟨x, a1, a2, a3⟩
        · refine Or.inl ⟨a1, by simp; omega, ?_, fun h => a4 (hst h rfl)⟩
          rw [hd, a3]; simp
        · refine Or.inr ⟨x, a1, ?_, fun h => a3 (hst h rfl)⟩
          rw [hd, a2]

/-- `peek` succeeded: the returned `peekReader` delivers exactly what the reader would have
delivered, and `head` is the first `n` bytes of it.  Stickiness (the reader repeats its error)
is only used when the error arrived during the look-ahead. -/
theorem peek_ok (r : Rd) (n : Nat) (hs : r.sticky = true) (head : List UInt8) (p : PeekRd)
    (h : peek r n = .ok (head, p)) :
    p.toRd.delivered = r.delivered ∧ head = r.delivered.1.take n ∧ p.buf = head := by
  unfold peek at h
  obtain ⟨d, h1, h2, h3⟩ := readFullLoop_spec (r.chunks.length + n + 2) r n [] (by omega)
  generalize readFullLoop (r.chunks.length + n + 2) r n [] = out at h h1 h2 h3
  obtain ⟨got, e, r'⟩ := out
  simp only [List.nil_append] at h h1 h2 h3
  subst h1
  have key : ∀ (hd : List UInt8) (q : PeekRd), hd = got → q = { buf := got, r := r' } →
      q.toRd.delivered = r.delivered ∧ hd = r.delivered.1.take n ∧ q.buf = hd := by
    intro hd q e1 e2
    subst e1 e2
    rw [toRd_delivered]
    simp only []
    rcases h3 with ⟨_, a2, a3, _⟩ | ⟨x, _, a2, a3⟩
    · rw [a3]
      refine ⟨rfl, ?_, trivial⟩
      simp only []
      rw [← a2, List.take_left]
    · rw [a3 hs, a2]
      refine ⟨by simp, ?_, trivial⟩
      simp only []
      rw [List.take_of_length_le h2]
  by_cases hg : got.length ≥ n
  · simp only [hg, if_true] at h
    simp only [Except.ok.injEq, Prod.mk.injEq] at h
    exact key head p h.1.symm h.2.symm
  · simp only [hg, if_false] at h
    cases e with
    | none =>
      simp only [Except.ok.injEq, Prod.mk.injEq] at h
      exact key head p h.1.symm h.2.symm
    | some x =>
      cases x with
      | eof =>
        simp only [Except.ok.injEq, Prod.mk.injEq] at h
        exact key head p h.1.symm h.2.symm
      | fault t => simp at h

/-- `peek` failed: the reader itself fails, with that error, before `n` bytes -/
theorem peek_error (r : Rd) (n : Nat) (e : RdErr) (h : peek r n = .error e) :
    r.delivered.2 = e ∧ r.delivered.1.length < n ∧ e ≠ .eof := by
  unfold peek at h
  obtain ⟨d, h1, h2, h3⟩ := readFullLoop_spec (r.chunks.length + n + 2) r n [] (by omega)
  generalize readFullLoop (r.chunks.length + n + 2) r n [] = out at h h1 h2 h3
  obtain ⟨got, e', r'⟩ := out
  simp only [List.nil_append] at h h1 h2 h3
  subst h1
  by_cases hg : got.length ≥ n
  · simp [hg] at h
  · simp only [hg, if_false] at h
    cases e' with
    | none => simp at h
    | some x =>
      cases x with
      | eof => simp at h
      | fault t =>
        simp only [Except.error.injEq] at h
        subst h
        rcases h3 with ⟨a1, _⟩ | ⟨x, a1, a2, _⟩
        · simp at a1
        · simp only [Option.some.injEq] at a1
          subst a1
          rw [a2]
          exact ⟨rfl, by simp only []; omega, by simp⟩

end PsVerif.Proofs.Refill
