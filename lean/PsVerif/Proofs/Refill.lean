import PsVerif.Model.Refill
/-!
# The buffered scanner refines the abstract one, for every delivery schedule

`Model/Refill.lean` models `refill`/`readByteRaw` over a 512-byte buffer and a reader that
answers according to an arbitrary schedule.  Here: the simulation relation `R` between the
buffered state and the abstract `Scanner` of `Model/Scanner.lean`, preserved by every raw
operation with equal observations.
-/
namespace PsVerif.Proofs.Refill
open PsVerif.Model PsVerif.Model.Refill

/-! ### laws of the reader -/

theorem read_len (r : Rd) (k : Nat) : (r.read k).1.length ≤ k := by
  unfold Rd.read
  split
  · simp
  · split
    · assumption
    · simp; omega

theorem read_fin (r : Rd) (k : Nat) : (r.read k).2.2.fin = r.fin := by
  unfold Rd.read
  split
  · rfl
  · split <;> rfl

/-- a call returning nil: what it returns is the beginning of what the reader delivers -/
theorem read_ok (r : Rd) (k : Nat) (h : (r.read k).2.1 = none) :
    r.delivered = ((r.read k).1 ++ (r.read k).2.2.delivered.1, (r.read k).2.2.delivered.2) := by
  unfold Rd.read at h ⊢
  unfold Rd.delivered
  split at h
  · simp at h
  · rename_i c rest hc
    rw [hc]
    split at h
    · rename_i hk
      simp only [hk, if_true]
      simp only at h
      simp [deliveredL, h]
    · rename_i hk
      simp only [hk, if_false]
      cases he : c.err <;> simp [deliveredL, he]

/-- a call returning an error: the bytes coming with it are the last ones -/
theorem read_err (r : Rd) (k : Nat) (e : RdErr) (h : (r.read k).2.1 = some e) :
    r.delivered = ((r.read k).1, e) := by
  unfold Rd.read at h ⊢
  unfold Rd.delivered
  split at h
  · rename_i hc
    rw [hc]
    simp at h
    simp [deliveredL, h]
  · rename_i c rest hc
    rw [hc]
    split at h
    · rename_i hk
      simp only [hk, if_true]
      simp only at h
      simp [deliveredL, h]
    · simp at h

theorem read_chunks_le (r : Rd) (k : Nat) : (r.read k).2.2.chunks.length ≤ r.chunks.length := by
  unfold Rd.read
  split
  · omega
  · rename_i c rest hc
    rw [hc]
    split <;> simp

/-- a zero-progress answer uses up a chunk -/
theorem read_chunks_lt (r : Rd) (k : Nat) (hk : 0 < k) (h0 : (r.read k).1 = [])
    (h : (r.read k).2.1 = none) : (r.read k).2.2.chunks.length < r.chunks.length := by
  unfold Rd.read at h h0 ⊢
  split at h
  · simp at h
  · rename_i c rest hc
    rw [hc]
    split at h
    · rename_i hl
      simp [hl]
    · rename_i hl
      simp only [hl, if_false] at h0
      have : (c.data.take k).length = 0 := by rw [h0]; rfl
      simp at this
      omega

theorem read_clean_ok (r : Rd) (k : Nat) (hc : r.clean = true) (h : (r.read k).2.1 = none) :
    (r.read k).2.2.clean = true := by
  unfold Rd.read at h ⊢
  unfold Rd.clean at hc ⊢
  split at h
  · simp at h
  · rename_i c rest hcs
    rw [hcs] at hc
    split at h
    · rename_i hl
      simp only [hl, if_true]
      simp only at h
      simpa [cleanL, h] using hc
    · rename_i hl
      simp only [hl, if_false]
      cases he : c.err with
      | none => simpa [cleanL, he] using hc
      | some e =>
        simp [cleanL, he] at hc
        simp [hc] at hl

theorem read_clean_err (r : Rd) (k : Nat) (e : RdErr) (hc : r.clean = true)
    (h : (r.read k).2.1 = some e) : (r.read k).1 = [] := by
  unfold Rd.read at h ⊢
  unfold Rd.clean at hc
  split at h
  · rfl
  · rename_i c rest hcs
    rw [hcs] at hc
    split at h
    · rename_i hl
      simp only [hl, if_true]
      simp only at h
      simpa [cleanL, h] using hc
    · simp at h

end PsVerif.Proofs.Refill
