import PsVerif.Proofs.ScanRoundTrip
/-
C04, first sentence: every legal lexical form is read back as the object it denotes — on the scanner
model (`Model/Scanner.lean`).  The legal spellings are defined here as explicit relations, independent
of the scanner's control flow; each form is proved for ALL values and ALL spellings (no length bound),
after ANY separator (white space and comments) and before ANY continuation (numbers and names: any
continuation that starts with white space or a delimiter).

Framework.  `pend s = s.peek ++ s.src` is the input still to be delivered; `Reads m s a r` says that `m`
run on `s` returns `a`, leaves exactly `r` pending and stays in plain (non-eexec) mode.  All token
theorems have the form  `OK s → Sep sp → pend s = sp ++ spelling ++ rest → Reads scanToken s tok rest`.
After a number or a name the delimiter that ended it sits in the peek buffer; `pend` hides that, and the
sequence theorem `reads_spelled_sequence` chains any number of tokens.

Comments: `Sep` allows every `%` comment that ends with LF, FF or CR (no LF, FF, CR inside), also those
that begin with `%%`; at the start of a line the tokenizer parses these as DSC comments
(`readStructuredComment`: key, value, `%%+` continuation lines) — `reads_structuredComment`,
`sep_contLines` and `skipSpec_all` show that it skips exactly comment lines of the separator on that path
too.  What it records (`Scanner.dsc`) is not specified here.

Spelling relations: `Sep`, `SpellInt`, `SpellRadix`, `SpellReal` (value relative to the model's
`realValue` = `SoftFloat.ofDecimal`), `SpellLitString` (`StrBody`), `SpellHex` (`HexBody`), `SpellA85`
(`A85Groups`, `A85Tail`), literal names, `SpellExecName`, `isSingle`, `<<`, `>>`; collected in `Spell`.
Fuel: every loop is given `fuelOf` of the current state = `pend.length + 8` (`fuelOf_pend`); the lemmas
show it suffices (each asks for `text.length + 1 ≤ fuel`).
-/
namespace PsVerif.Proofs.LexForms
open PsVerif.Model PsVerif.Model.Scan PsVerif.Proofs.ScanRoundTrip

/-! ### the reading framework -/

/-- the input still to be delivered by `Next`: the peek buffer, then the source -/
def pend (s : Scanner) : List UInt8 := s.peek ++ s.src

/-- plain (not eexec) reading -/
def OK (s : Scanner) : Prop := s.eexec = 0 ∧ s.regurgitate = false

/-- `m`, run on `s`, returns `a` and leaves exactly `r` pending -/
structure Reads {α : Type} (m : SM α) (s : Scanner) (a : α) (r : List UInt8) : Prop where
  val : (m s).1 = .ok a
  rest : pend (m s).2 = r
  ok : OK (m s).2

theorem fuelOf_pend (s : Scanner) : fuelOf s = (pend s).length + 8 := by
  simp only [fuelOf, pend, List.length_append]; omega

theorem Reads.bind {α β : Type} {m : SM α} {k : α → SM β} {s : Scanner} {a : α} {r : List UInt8} {c : β} {r' : List UInt8}
    (h : Reads m s a r) (hk : ∀ s', OK s' → pend s' = r → Reads (k a) s' c r') : Reads (m >>= k) s c r' := by
  have e : m s = (.ok a, (m s).2) := Prod.ext h.val rfl
  have := bind_ok m k s _ a e
  have h2 := hk (m s).2 h.ok h.rest
  exact ⟨by rw [this]; exact h2.val, by rw [this]; exact h2.rest, by rw [this]; exact h2.ok⟩

theorem Reads.pure {α : Type} (s : Scanner) (a : α) (h : OK s) : Reads (pure a : SM α) s a (pend s) := ⟨rfl, rfl, h⟩

theorem Reads.pure' {α : Type} {s : Scanner} {a : α} {r : List UInt8} (h : OK s) (hp : pend s = r) : Reads (Pure.pure a : SM α) s a r :=
  ⟨rfl, hp, h⟩

theorem getS_bind {β : Type} (k : Scanner → SM β) (s : Scanner) : (getS >>= k) s = k s s := rfl

theorem Reads.attempt {α : Type} {m : SM α} {s : Scanner} {a : α} {r : List UInt8} (h : Reads m s a r) :
    Reads (attempt m) s (.ok a) r :=
  ⟨by show Except.ok (m s).1 = _; rw [h.val], h.rest, h.ok⟩

theorem bump_frame (s : Scanner) (b : UInt8) :
    (bump s b).peek = s.peek ∧ (bump s b).src = s.src ∧ (bump s b).eexec = s.eexec ∧ (bump s b).regurgitate = s.regurgitate := by
  unfold bump
  dsimp only
  split
  · simp
  · split <;> simp

theorem next_peeked (s : Scanner) (p : UInt8) (ps : List UInt8) (h : OK s) (hp : s.peek = p :: ps) :
    next s = (.ok p, bump { s with peek := ps } p) := by
  obtain ⟨he, hg⟩ := h
  obtain ⟨src, fault, peek, reg, eexec, rr, line, col, crSeen, dsc, err⟩ := s
  simp only at he hg hp
  subst he hg hp
  rfl

theorem reads_next (s : Scanner) (b : UInt8) (r : List UInt8) (h : OK s) (hp : pend s = b :: r) : Reads next s b r := by
  cases hpk : s.peek with
  | nil =>
    have hs : s.src = b :: r := by simpa [pend, hpk] using hp
    have e := next_cons s b r ⟨hpk, h.1⟩ hs
    obtain ⟨_, g2, g3, g4, _⟩ := adv_frame s b
    refine ⟨by rw [e], ?_, ?_⟩
    · rw [e]; show (adv s b).peek ++ (adv s b).src = r
      rw [g2, adv_src_cons s b r hs, hpk]; rfl
    · rw [e]; exact ⟨g4.trans h.1, g3.trans h.2⟩
  | cons p ps =>
    have hp' : p = b ∧ ps ++ s.src = r := by simpa [pend, hpk] using hp
    obtain ⟨h1, h2⟩ := hp'
    subst h1
    have e := next_peeked s p ps h hpk
    obtain ⟨g1, g2, g3, g4⟩ := bump_frame { s with peek := ps } p
    refine ⟨by rw [e], ?_, ?_⟩
    · rw [e]; show (bump _ p).peek ++ (bump _ p).src = r
      rw [g1, g2]; exact h2
    · rw [e]; exact ⟨g3.trans h.1, g4.trans h.2⟩

theorem reads_peek (s : Scanner) (b : UInt8) (r : List UInt8) (h : OK s) (hp : pend s = b :: r) : Reads peek s b (b :: r) := by
  obtain ⟨he, hg⟩ := h
  obtain ⟨src, fault, peek, reg, eexec, rr, line, col, crSeen, dsc, err⟩ := s
  simp only at he hg
  subst he hg
  cases peek with
  | nil =>
    simp only [pend, List.nil_append] at hp
    subst hp
    cases err <;> exact ⟨rfl, rfl, rfl, rfl⟩
  | cons p ps =>
    simp only [pend, List.cons_append, List.cons.injEq] at hp
    obtain ⟨h1, h2⟩ := hp
    subst h1 h2
    exact ⟨rfl, rfl, rfl, rfl⟩

theorem reads_skipByte (s : Scanner) (b : UInt8) (r : List UInt8) (h : OK s) (hp : pend s = b :: r) : Reads skipByte s () r := by
  have h1 := (reads_next s b r h hp).attempt
  exact h1.bind (fun s' ok' hp' => Reads.pure' ok' hp')

theorem reads_peekN2 (s : Scanner) (a b : UInt8) (r : List UInt8) (h : OK s) (hp : pend s = a :: b :: r) :
    Reads (peekN 2 3) s [a, b] (a :: b :: r) := by
  obtain ⟨he, hg⟩ := h
  obtain ⟨src, fault, peek, reg, eexec, rr, line, col, crSeen, dsc, err⟩ := s
  simp only at he hg
  subst he hg
  match peek, hp with
  | [], hp =>
    simp only [pend, List.nil_append] at hp
    subst hp
    cases err <;> exact ⟨rfl, rfl, rfl, rfl⟩
  | [p], hp =>
    simp only [pend, List.cons_append, List.nil_append, List.cons.injEq] at hp
    obtain ⟨h1, h2⟩ := hp
    subst h1 h2
    cases err <;> exact ⟨rfl, rfl, rfl, rfl⟩
  | p :: q :: ps, hp =>
    simp only [pend, List.cons_append, List.cons.injEq] at hp
    obtain ⟨h1, h2, h3⟩ := hp
    subst h1 h2 h3
    exact ⟨rfl, rfl, rfl, rfl⟩

theorem Reads.getS {β : Type} {k : Scanner → SM β} {s : Scanner} {a : β} {r : List UInt8}
    (h : Reads (k s) s a r) : Reads (getS >>= k) s a r := ⟨h.val, h.rest, h.ok⟩

theorem reads_attempt_peek_nil (s : Scanner) (h : OK s) (hp : pend s = []) :
    ∃ e, Reads (attempt peek) s (.error e) [] := by
  obtain ⟨he, hg⟩ := h
  obtain ⟨src, fault, peek, reg, eexec, rr, line, col, crSeen, dsc, err⟩ := s
  simp only at he hg
  subst he hg
  have h1 : peek = [] ∧ src = [] := by simpa [pend] using hp
  obtain ⟨h1, h2⟩ := h1
  subst h1 h2
  cases err with
  | none => cases fault <;> exact ⟨_, rfl, rfl, rfl, rfl⟩
  | some e => exact ⟨_, rfl, rfl, rfl, rfl⟩

theorem reads_skipRequired (s : Scanner) (c : UInt8) (r : List UInt8) (h : OK s) (hp : pend s = c :: r) :
    Reads (skipRequiredByte c) s () r := by
  unfold skipRequiredByte
  refine (reads_next s c r h hp).bind (fun s' ok' hp' => ?_)
  simp only [bne_self_eq_false, Bool.false_eq_true, if_false]
  exact Reads.pure' ok' hp'

/-! ### separators: white space and comments -/

/-- what follows a CR: an immediately following LF belongs to the same line end -/
def dropLF : List UInt8 → List UInt8
  | 10 :: r => r
  | r => r

/-- the input after the line end `e` (LF, FF, or CR with an optional LF) -/
def eolRest (e : UInt8) (r : List UInt8) : List UInt8 := if e = 13 then dropLF r else r

/-- no byte that ends a comment: LF, CR, FF -/
def NoBreak (body : List UInt8) : Prop := ∀ x ∈ body, x ≠ 10 ∧ x ≠ 13 ∧ x ≠ 12

theorem NoBreak.tail {b : UInt8} {body : List UInt8} (h : NoBreak (b :: body)) : NoBreak body := fun x hx => h x (by simp [hx])

theorem reads_skipOptionalLF (s : Scanner) (h : OK s) : Reads (skipOptionalByte 10) s () (dropLF (pend s)) := by
  unfold skipOptionalByte
  cases hp : pend s with
  | nil =>
    obtain ⟨e, he⟩ := reads_attempt_peek_nil s h hp
    exact he.bind (fun s' ok' hp' => Reads.pure' ok' hp')
  | cons b r =>
    refine (reads_peek s b r h hp).attempt.bind (fun s' ok' hp' => ?_)
    dsimp only
    by_cases hb : b = 10
    · subst hb
      simp only [beq_self_eq_true, if_true]
      exact reads_skipByte s' 10 r ok' hp'
    · have : (b == 10) = false := by simpa using hb
      simp only [this, Bool.false_eq_true, if_false]
      have e : dropLF (b :: r) = b :: r := by
        unfold dropLF; split
        · rename_i h; injection h with h1 _; exact absurd h1 hb
        · rfl
      rw [e]; exact Reads.pure' ok' hp'

/-- `SkipToEOL`: up to and including the first LF, FF or CR (with the LF of a CR LF) -/
theorem reads_skipToEOL (body : List UInt8) : ∀ (s : Scanner) (fuel : Nat) (e : UInt8) (r : List UInt8),
    OK s → NoBreak body → (e = 10 ∨ e = 12 ∨ e = 13) → pend s = body ++ e :: r → body.length + 1 ≤ fuel →
    Reads (skipToEOL fuel) s () (eolRest e r) := by
  induction body with
  | nil =>
    intro s fuel e r h _ he hp hf
    obtain ⟨f, rfl⟩ : ∃ f, fuel = f + 1 := ⟨fuel - 1, by simp at hf; omega⟩
    rw [List.nil_append] at hp
    unfold skipToEOL
    refine (reads_next s e r h hp).attempt.bind (fun s' ok' hp' => ?_)
    dsimp only
    rcases he with he | he | he <;> subst he
    · have e1 : eolRest 10 r = r := by simp [eolRest]
      simp only [beq_self_eq_true, Bool.true_or, if_true, e1]
      exact Reads.pure' ok' hp'
    · have e1 : eolRest 12 r = r := by simp [eolRest]
      simp only [beq_self_eq_true, Bool.or_true, if_true, e1]
      exact Reads.pure' ok' hp'
    · have c : ((13 : UInt8) == 10 || (13 : UInt8) == 12) = false := by decide
      have e1 : eolRest 13 r = dropLF r := by simp [eolRest]
      simp only [c, Bool.false_eq_true, if_false, beq_self_eq_true, if_true, e1]
      have := reads_skipOptionalLF s' ok'
      rw [hp'] at this
      exact this
  | cons b body ih =>
    intro s fuel e r h hb he hp hf
    obtain ⟨f, rfl⟩ : ∃ f, fuel = f + 1 := ⟨fuel - 1, by simp at hf; omega⟩
    rw [List.cons_append] at hp
    unfold skipToEOL
    refine (reads_next s b _ h hp).attempt.bind (fun s' ok' hp' => ?_)
    dsimp only
    have hb1 := hb b (by simp)
    have c : (b == 10 || b == 12) = false := by simp [hb1.1, hb1.2.2]
    have h13 : (b == 13) = false := by simpa using hb1.2.1
    simp only [c, h13, Bool.false_eq_true, if_false]
    exact ih s' f e r ok' hb.tail he hp' (by simp at hf ⊢; omega)

theorem reads_skipComment (s : Scanner) (body : List UInt8) (e : UInt8) (r : List UInt8) (h : OK s)
    (hb : NoBreak body) (he : e = 10 ∨ e = 12 ∨ e = 13) (hp : pend s = 37 :: (body ++ e :: r)) :
    Reads skipComment s () (eolRest e r) := by
  unfold skipComment
  refine (reads_skipRequired s 37 _ h hp).attempt.bind (fun s' ok' hp' => ?_)
  dsimp only
  apply Reads.getS
  refine reads_skipToEOL body s' _ e r ok' hb he hp' ?_
  rw [fuelOf_pend, hp']; simp; omega

/-! ### look-ahead of any length -/

theorem readByte_cons (s : Scanner) (b : UInt8) (r : List UInt8) (h : OK s) (hs : s.src = b :: r) :
    readByte s = (.ok b, { s with src := r }) := by
  obtain ⟨he, hg⟩ := h
  obtain ⟨src, fault, peek, reg, eexec, rr, line, col, crSeen, dsc, err⟩ := s
  simp only at he hg hs
  subst he hg hs
  cases err <;> rfl

theorem readByte_nil (s : Scanner) (h : OK s) (hs : s.src = []) :
    ∃ e s', readByte s = (.error e, s') ∧ s'.peek = s.peek ∧ s'.src = [] ∧ OK s' := by
  obtain ⟨he, hg⟩ := h
  obtain ⟨src, fault, peek, reg, eexec, rr, line, col, crSeen, dsc, err⟩ := s
  simp only at he hg hs
  subst he hg hs
  cases err with
  | none => cases fault <;> exact ⟨_, _, rfl, rfl, rfl, rfl, rfl⟩
  | some e => exact ⟨_, _, rfl, rfl, rfl, rfl, rfl⟩

theorem Reads.bind_eq {α β : Type} {m : SM α} {k : α → SM β} {s s' : Scanner} {a : α} {c : β} {r : List UInt8}
    (h : m s = (.ok a, s')) (hk : Reads (k a) s' c r) : Reads (m >>= k) s c r := by
  have := bind_ok m k s s' a h
  exact ⟨by rw [this]; exact hk.val, by rw [this]; exact hk.rest, by rw [this]; exact hk.ok⟩

/-- `PeekN n`: the first `n` pending bytes (fewer at the end of the input); nothing is consumed -/
theorem reads_peekN (n : Nat) : ∀ (fuel : Nat) (s : Scanner), OK s → n + 1 ≤ fuel + s.peek.length →
    Reads (peekN n fuel) s ((pend s).take n) (pend s) := by
  intro fuel
  induction fuel with
  | zero =>
    intro s ok hf
    have hlen : n ≤ s.peek.length := by omega
    refine ⟨?_, rfl, ok⟩
    show Except.ok (s.peek.take n) = _
    simp [pend, List.take_append_of_le_length hlen]
  | succ fuel ih =>
    intro s ok hf
    unfold peekN
    apply Reads.getS
    by_cases hlen : s.peek.length ≥ n
    · simp only [hlen, if_true]
      refine ⟨?_, rfl, ok⟩
      show Except.ok (s.peek.take n) = _
      simp [pend, List.take_append_of_le_length hlen]
    · simp only [hlen, if_false]
      cases hsrc : s.src with
      | nil =>
        obtain ⟨e, s', hrb, hpk, hsr, ok'⟩ := readByte_nil s ok hsrc
        have ha : attempt readByte s = (.ok (.error e), s') := by
          show (Except.ok (readByte s).1, (readByte s).2) = _
          rw [hrb]
        refine Reads.bind_eq ha ?_
        dsimp only
        have hp' : pend s' = pend s := by simp [pend, hpk, hsr, hsrc]
        have hlen' : s.peek.length < n := by omega
        refine ⟨?_, hp', ok'⟩
        show Except.ok s'.peek = _
        rw [hpk]
        simp only [pend, hsrc, List.append_nil]
        rw [List.take_of_length_le (by omega)]
      | cons b r =>
        have hrb := readByte_cons s b r ok hsrc
        have ha : attempt readByte s = (.ok (.ok b), { s with src := r }) := by
          show (Except.ok (readByte s).1, (readByte s).2) = _
          rw [hrb]
        refine Reads.bind_eq ha ?_
        dsimp only
        have hm : modS (fun s => { s with peek := s.peek ++ [b] }) { s with src := r } =
            (.ok (), { s with src := r, peek := s.peek ++ [b] }) := rfl
        refine Reads.bind_eq hm ?_
        have ok2 : OK { s with src := r, peek := s.peek ++ [b] } := ok
        have := ih { s with src := r, peek := s.peek ++ [b] } ok2 (by simp; omega)
        have hp2 : pend { s with src := r, peek := s.peek ++ [b] } = pend s := by simp [pend, hsrc]
        rw [hp2] at this
        exact this

theorem reads_lookingAt (pat : List UInt8) (s : Scanner) (ok : OK s) :
    Reads (lookingAt pat) s ((pend s).take pat.length == pat) (pend s) := by
  unfold lookingAt
  refine (reads_peekN pat.length (pat.length + 1) s ok (by omega)).bind (fun s' ok' hp' => ?_)
  exact Reads.pure' ok' hp'

theorem reads_skipN (l : List UInt8) : ∀ (s : Scanner) (r : List UInt8), OK s → pend s = l ++ r → Reads (skipN l.length) s () r := by
  induction l with
  | nil => intro s r ok hp; exact Reads.pure' ok (by simpa using hp)
  | cons b l ih =>
    intro s r ok hp
    show Reads (skipByte >>= fun _ => skipN l.length) s () r
    exact (reads_skipByte s b _ ok hp).bind (fun s' ok' hp' => ih s' r ok' hp')

/-! ### DSC comments (`%%Key: value` at the start of a line, with `%%+` continuation lines) -/


/-- the key of a DSC comment and the rest of the line -/
def keyScan : List UInt8 → List UInt8 → List UInt8 × List UInt8
  | acc, [] => (acc, [])
  | acc, b :: body => if b ≤ 32 then (acc, b :: body) else if b == 58 then (acc, body) else keyScan (acc ++ [b]) body

theorem keyScan_rest (body : List UInt8) : ∀ acc, (∀ x ∈ (keyScan acc body).2, x ∈ body) ∧ (keyScan acc body).2.length ≤ body.length := by
  induction body with
  | nil => intro acc; exact ⟨fun _ h => h, Nat.le_refl _⟩
  | cons b body ih =>
    intro acc
    unfold keyScan
    split
    · exact ⟨fun _ h => h, Nat.le_refl _⟩
    · split
      · exact ⟨fun x h => by simp [h], by simp⟩
      · obtain ⟨h1, h2⟩ := ih (acc ++ [b])
        exact ⟨fun x h => by simp [h1 x h], by simp; omega⟩

theorem reads_commentKey (body : List UInt8) : ∀ (s : Scanner) (fuel : Nat) (acc : List UInt8) (e : UInt8) (X : List UInt8),
    OK s → e ≤ 32 → pend s = body ++ e :: X → body.length + 1 ≤ fuel →
    Reads (readCommentKey fuel acc) s (keyScan acc body).1 ((keyScan acc body).2 ++ e :: X) := by
  induction body with
  | nil =>
    intro s fuel acc e X ok he hp hf
    obtain ⟨f, rfl⟩ : ∃ f, fuel = f + 1 := ⟨fuel - 1, by simp at hf; omega⟩
    unfold readCommentKey
    rw [List.nil_append] at hp
    refine (reads_peek s e X ok hp).attempt.bind (fun s1 ok1 hp1 => ?_)
    simp only [he, if_true]
    exact Reads.pure' ok1 (by simpa [keyScan] using hp1)
  | cons b body ih =>
    intro s fuel acc e X ok he hp hf
    obtain ⟨f, rfl⟩ : ∃ f, fuel = f + 1 := ⟨fuel - 1, by simp at hf; omega⟩
    rw [List.cons_append] at hp
    unfold readCommentKey
    refine (reads_peek s b _ ok hp).attempt.bind (fun s1 ok1 hp1 => ?_)
    by_cases hb32 : b ≤ 32
    · simp only [hb32, if_true, keyScan]
      exact Reads.pure' ok1 hp1
    · simp only [hb32, if_false, keyScan]
      refine (reads_skipByte s1 b _ ok1 hp1).bind (fun s2 ok2 hp2 => ?_)
      by_cases h58 : b = 58
      · simp only [h58, beq_self_eq_true, if_true]
        exact Reads.pure' ok2 hp2
      · have : (b == 58) = false := by simpa using h58
        simp only [this, Bool.false_eq_true, if_false]
        exact ih s2 f (acc ++ [b]) e X ok2 he hp2 (by simp at hf; omega)

/-- `skipBlanks` inside a line: leading bytes 0..32 are dropped -/
theorem reads_skipBlanks (body : List UInt8) : ∀ (s : Scanner) (fuel : Nat) (e : UInt8) (X : List UInt8),
    OK s → NoBreak body → (e = 10 ∨ e = 12 ∨ e = 13) → pend s = body ++ e :: X → body.length + 1 ≤ fuel →
    Reads (skipBlanks fuel) s () (body.dropWhile (· ≤ 32) ++ e :: X) := by
  induction body with
  | nil =>
    intro s fuel e X ok _ he hp hf
    obtain ⟨f, rfl⟩ : ∃ f, fuel = f + 1 := ⟨fuel - 1, by simp at hf; omega⟩
    unfold skipBlanks
    rw [List.nil_append] at hp
    refine (reads_peek s e X ok hp).attempt.bind (fun s1 ok1 hp1 => ?_)
    have : (e == 10 || e == 13 || e == 12 || decide (e > 32)) = true := by rcases he with h | h | h <;> subst h <;> decide
    simp only [this, if_true]
    exact Reads.pure' ok1 (by simpa using hp1)
  | cons b body ih =>
    intro s fuel e X ok hb he hp hf
    obtain ⟨f, rfl⟩ : ∃ f, fuel = f + 1 := ⟨fuel - 1, by simp at hf; omega⟩
    rw [List.cons_append] at hp
    unfold skipBlanks
    refine (reads_peek s b _ ok hp).attempt.bind (fun s1 ok1 hp1 => ?_)
    have hb1 := hb b (by simp)
    by_cases hb32 : b ≤ 32
    · have c : (b == 10 || b == 13 || b == 12 || decide (b > 32)) = false := by
        have : ¬ (b > 32) := UInt8.not_lt.mpr hb32
        simp [hb1.1, hb1.2.1, hb1.2.2, this]
      simp only [c, Bool.false_eq_true, if_false]
      refine (reads_skipByte s1 b _ ok1 hp1).bind (fun s2 ok2 hp2 => ?_)
      have := ih s2 f e X ok2 hb.tail he hp2 (by simp at hf; omega)
      simpa [List.dropWhile_cons, hb32] using this
    · have c : (b == 10 || b == 13 || b == 12 || decide (b > 32)) = true := by
        have : b > 32 := UInt8.not_le.mp hb32
        simp [this]
      simp only [c, if_true]
      have e' : (b :: body).dropWhile (· ≤ 32) = b :: body := by simp [hb32]
      rw [e']
      exact Reads.pure' ok1 hp1

theorem noBreak_dropWhile (body : List UInt8) (h : NoBreak body) : NoBreak (body.dropWhile (· ≤ 32)) :=
  fun x hx => h x ((List.dropWhile_suffix _).subset hx)

/-- `readLine`: the rest of the line is consumed including its line end -/
theorem reads_readLine (body : List UInt8) : ∀ (s : Scanner) (fuel : Nat) (acc : List UInt8) (e : UInt8) (X : List UInt8),
    OK s → NoBreak body → (e = 10 ∨ e = 12 ∨ e = 13) → pend s = body ++ e :: X → body.length + 1 ≤ fuel →
    Reads (readLine fuel acc) s (acc ++ body) (eolRest e X) := by
  induction body with
  | nil =>
    intro s fuel acc e X ok _ he hp hf
    obtain ⟨f, rfl⟩ : ∃ f, fuel = f + 1 := ⟨fuel - 1, by simp at hf; omega⟩
    unfold readLine
    rw [List.nil_append] at hp
    refine (reads_next s e X ok hp).attempt.bind (fun s1 ok1 hp1 => ?_)
    rcases he with he | he | he <;> subst he
    · have e1 : eolRest 10 X = X := by simp [eolRest]
      simp only [beq_self_eq_true, Bool.true_or, if_true, e1, List.append_nil]
      exact Reads.pure' ok1 hp1
    · have e1 : eolRest 12 X = X := by simp [eolRest]
      simp only [beq_self_eq_true, Bool.or_true, if_true, e1, List.append_nil]
      exact Reads.pure' ok1 hp1
    · have : ((13 : UInt8) == 10 || (13 : UInt8) == 12) = false := by decide
      have e1 : eolRest 13 X = dropLF X := by simp [eolRest]
      simp only [this, Bool.false_eq_true, if_false, beq_self_eq_true, if_true, List.append_nil, e1]
      have h2 := reads_skipOptionalLF s1 ok1
      rw [hp1] at h2
      refine h2.bind (fun s2 ok2 hp2 => ?_)
      exact Reads.pure' ok2 hp2
  | cons b body ih =>
    intro s fuel acc e X ok hb he hp hf
    obtain ⟨f, rfl⟩ : ∃ f, fuel = f + 1 := ⟨fuel - 1, by simp at hf; omega⟩
    rw [List.cons_append] at hp
    unfold readLine
    refine (reads_next s b _ ok hp).attempt.bind (fun s1 ok1 hp1 => ?_)
    have hb1 := hb b (by simp)
    have c : (b == 10 || b == 12) = false := by simp [hb1.1, hb1.2.2]
    have h13 : (b == 13) = false := by simpa using hb1.2.1
    simp only [c, h13, Bool.false_eq_true, if_false]
    have := ih s1 f (acc ++ [b]) e X ok1 hb.tail he hp1 (by simp at hf; omega)
    simpa using this

/-- `m` returns some value and leaves exactly `r` pending -/
def ReadsSome {α : Type} (m : SM α) (s : Scanner) (r : List UInt8) : Prop := ∃ a, Reads m s a r

theorem Reads.bindSome {α β : Type} {m : SM α} {k : α → SM β} {s : Scanner} {a : α} {r r' : List UInt8}
    (h : Reads m s a r) (hk : ∀ s', OK s' → pend s' = r → ReadsSome (k a) s' r') : ReadsSome (m >>= k) s r' := by
  obtain ⟨c, hc⟩ := hk (m s).2 h.ok h.rest
  exact ⟨c, Reads.bind_eq (Prod.ext h.val rfl) hc⟩

theorem ReadsSome.bind {α β : Type} {m : SM α} {k : α → SM β} {s : Scanner} {r r' : List UInt8} {c : β}
    (h : ReadsSome m s r) (hk : ∀ a s', OK s' → pend s' = r → Reads (k a) s' c r') : Reads (m >>= k) s c r' := by
  obtain ⟨a, ha⟩ := h
  exact ha.bind (hk a)

theorem ReadsSome.getS {β : Type} {k : Scanner → SM β} {s : Scanner} {r : List UInt8}
    (h : ReadsSome (k s) s r) : ReadsSome (getS >>= k) s r := by
  obtain ⟨a, ha⟩ := h
  exact ⟨a, Reads.getS ha⟩

/-- continuation lines of a DSC comment: from the text `cur` after a line end, `readCommentValue` goes on
through every directly following line that starts with `%%+`, and stops at `fin` -/
inductive ContLines : List UInt8 → List UInt8 → Prop
  | stop (cur : List UInt8) : (cur.take 3 == [37, 37, 43]) = false → ContLines cur cur
  | line (body : List UInt8) (e : UInt8) (X fin : List UInt8) : NoBreak body → (e = 10 ∨ e = 12 ∨ e = 13) →
      ContLines (eolRest e X) fin → ContLines (37 :: 37 :: 43 :: (body ++ e :: X)) fin

theorem eolRest_length (e : UInt8) (X : List UInt8) : (eolRest e X).length ≤ X.length := by
  unfold eolRest
  split
  · unfold dropLF; split <;> simp
  · exact Nat.le_refl _

theorem reads_commentValue (cur fin : List UInt8) (h : ContLines cur fin) :
    ∀ (s : Scanner) (fuel : Nat) (acc body : List UInt8) (e : UInt8) (X : List UInt8),
    cur = eolRest e X → OK s → NoBreak body → (e = 10 ∨ e = 12 ∨ e = 13) → pend s = body ++ e :: X → X.length + 1 ≤ fuel →
    ReadsSome (readCommentValue fuel acc) s fin := by
  induction h with
  | stop cur hno =>
    intro s fuel acc body e X hcur ok hb he hp hf
    obtain ⟨f, rfl⟩ : ∃ f, fuel = f + 1 := ⟨fuel - 1, by omega⟩
    unfold readCommentValue
    apply ReadsSome.getS
    refine (reads_skipBlanks body s (fuelOf s) e X ok hb he hp (by rw [fuelOf_pend, hp]; simp; omega)).bindSome
      (fun s1 ok1 hp1 => ?_)
    apply ReadsSome.getS
    refine (reads_readLine _ s1 (fuelOf s1) acc e X ok1 (noBreak_dropWhile body hb) he hp1
      (by rw [fuelOf_pend, hp1]; simp; omega)).bindSome (fun s2 ok2 hp2 => ?_)
    have hla := reads_lookingAt [37, 37, 43] s2 ok2
    rw [hp2, ← hcur] at hla
    refine hla.bindSome (fun s3 ok3 hp3 => ?_)
    generalize hq : (List.take [37, 37, 43].length cur == [37, 37, 43]) = q
    have hq' : q = false := by rw [← hq]; exact hno
    subst hq'
    simp only [Bool.false_eq_true, if_false]
    exact ⟨_, Reads.pure' ok3 hp3⟩
  | line body' e' X' fin hb' he' _ ih =>
    intro s fuel acc body e X hcur ok hb he hp hf
    obtain ⟨f, rfl⟩ : ∃ f, fuel = f + 1 := ⟨fuel - 1, by omega⟩
    unfold readCommentValue
    apply ReadsSome.getS
    refine (reads_skipBlanks body s (fuelOf s) e X ok hb he hp (by rw [fuelOf_pend, hp]; simp; omega)).bindSome
      (fun s1 ok1 hp1 => ?_)
    apply ReadsSome.getS
    refine (reads_readLine _ s1 (fuelOf s1) acc e X ok1 (noBreak_dropWhile body hb) he hp1
      (by rw [fuelOf_pend, hp1]; simp; omega)).bindSome (fun s2 ok2 hp2 => ?_)
    have hla := reads_lookingAt [37, 37, 43] s2 ok2
    rw [hp2, ← hcur] at hla
    refine hla.bindSome (fun s3 ok3 hp3 => ?_)
    generalize hq : (List.take [37, 37, 43].length (37 :: 37 :: 43 :: (body' ++ e' :: X')) == [37, 37, 43]) = q
    have hq' : q = true := by rw [← hq]; simp
    subst hq'
    simp only [if_true]
    have hsk := reads_skipN [37, 37, 43] s3 (body' ++ e' :: X') ok3 (by simpa using hp3)
    refine hsk.bindSome (fun s4 ok4 hp4 => ?_)
    have hlen : (37 :: 37 :: 43 :: (body' ++ e' :: X')).length ≤ X.length := by
      rw [hcur]; exact eolRest_length e X
    exact ih s4 f _ body' e' X' rfl ok4 hb' he' hp4 (by simp at hlen; omega)

/-- **separators**: any mixture of white-space bytes (0..32) and comments.  A comment is `%`, then any bytes
other than LF, CR and FF, then LF, FF or CR (a LF directly after the CR belongs to the line end: it is
white space, so it is covered by the next `ws`).  Comments that begin with `%%` are included: at the start
of a line the tokenizer treats them as DSC comments (`%%Key: value`, with `%%+` continuation lines), which
changes what it records but not what it skips. -/
inductive Sep : List UInt8 → Prop
  | nil : Sep []
  | ws (b : UInt8) (r : List UInt8) : b ≤ 32 → Sep r → Sep (b :: r)
  | comment (body : List UInt8) (e : UInt8) (r : List UInt8) :
      NoBreak body → (e = 10 ∨ e = 12 ∨ e = 13) → Sep r → Sep (37 :: (body ++ e :: r))

/-- the first byte of a token: not white space, not the start of a comment -/
def TokStart (rest : List UInt8) : Prop := ∃ c t, rest = c :: t ∧ 32 < c ∧ c ≠ 37

theorem Sep.inv {sp : List UInt8} (h : Sep sp) :
    sp = [] ∨ (∃ b r, sp = b :: r ∧ b ≤ 32 ∧ Sep r) ∨
    (∃ body e r, sp = 37 :: (body ++ e :: r) ∧ NoBreak body ∧ (e = 10 ∨ e = 12 ∨ e = 13) ∧ Sep r) := by
  cases h with
  | nil => exact Or.inl rfl
  | ws b r hb hr => exact Or.inr (Or.inl ⟨b, r, rfl, hb, hr⟩)
  | comment body e r hb he hr => exact Or.inr (Or.inr ⟨body, e, r, rfl, hb, he, hr⟩)

/-- dropping the LF of a CR LF line end stays inside the separator -/
theorem sep_dropLF (r rest : List UInt8) (h : Sep r) (ts : TokStart rest) :
    ∃ r0, dropLF (r ++ rest) = r0 ++ rest ∧ Sep r0 ∧ r0.length ≤ r.length := by
  cases r with
  | nil =>
    obtain ⟨c, t, hr, hc, _⟩ := ts
    refine ⟨[], ?_, .nil, Nat.le_refl _⟩
    rw [List.nil_append, hr]; unfold dropLF; split
    · rename_i h'; injection h' with h1 _; subst h1; exact absurd hc (by decide)
    · rfl
  | cons x r' =>
    by_cases hx : x = 10
    · subst hx
      have hr' : Sep r' := by
        rcases h.inv with h' | ⟨b, r, h', _, hs⟩ | ⟨body, e, r, h', _⟩
        · cases h'
        · injection h' with _ h2; subst h2; exact hs
        · injection h' with h1 _; exact absurd h1 (by decide)
      exact ⟨r', rfl, hr', by simp⟩
    · refine ⟨x :: r', ?_, h, Nat.le_refl _⟩
      rw [List.cons_append]; unfold dropLF; split
      · rename_i h'; injection h' with h1 _; exact absurd h1 hx
      · rfl

theorem sep_eolRest (e : UInt8) (r rest : List UInt8) (h : Sep r) (ts : TokStart rest) :
    ∃ r0, eolRest e (r ++ rest) = r0 ++ rest ∧ Sep r0 ∧ r0.length ≤ r.length := by
  unfold eolRest
  split
  · exact sep_dropLF r rest h ts
  · exact ⟨r, rfl, h, Nat.le_refl _⟩

/-- the `%%+` continuation lines that follow a DSC comment are part of the separator -/
theorem sep_contLines (rest : List UInt8) (ts : TokStart rest) : ∀ (n : Nat) (r : List UInt8), r.length ≤ n → Sep r →
    ∃ r', ContLines (r ++ rest) (r' ++ rest) ∧ Sep r' ∧ r'.length ≤ r.length := by
  intro n
  induction n with
  | zero =>
    intro r hl hs
    have : r = [] := List.eq_nil_of_length_eq_zero (by omega)
    subst this
    obtain ⟨c, t, hr, hc, hc'⟩ := ts
    refine ⟨[], .stop _ ?_, .nil, Nat.le_refl _⟩
    rw [List.nil_append, hr]
    have : c ≠ 37 := hc'
    simp [List.take, this]
  | succ n ih =>
    intro r hl hs
    by_cases hq : ((r ++ rest).take 3 == [37, 37, 43]) = false
    · exact ⟨r, .stop _ hq, hs, Nat.le_refl _⟩
    · have hq' : ((r ++ rest).take 3 == [37, 37, 43]) = true := by simpa using hq
      rcases hs.inv with h' | ⟨b, r1, h', hb, _⟩ | ⟨body, e, r1, h', hbody, he, hs1⟩
      · subst h'
        obtain ⟨c, t, hr, _, hc'⟩ := ts
        rw [List.nil_append, hr] at hq'
        simp [List.take] at hq'
        exact absurd hq'.1 hc'
      · subst h'
        rw [List.cons_append] at hq'
        simp [List.take] at hq'
        have := hq'.1; subst this
        exact absurd hb (by decide)
      · subst h'
        -- the body starts with `%+`
        obtain ⟨body1, hb1⟩ : ∃ body1, body = 37 :: 43 :: body1 := by
          match body, hq' with
          | [], hq' =>
            simp [List.take] at hq'
            rcases he with h | h | h <;> subst h <;> simp at hq'
          | [x], hq' =>
            simp [List.take] at hq'
            rcases he with h | h | h <;> subst h <;> simp at hq'
          | x :: y :: body1, hq' =>
            simp [List.take] at hq'
            exact ⟨body1, by rw [hq'.1, hq'.2]⟩
        subst hb1
        obtain ⟨r0, hr0, hs0, hl0⟩ := sep_eolRest e r1 rest hs1 ts
        obtain ⟨r', hc, hs', hl'⟩ := ih r0 (by simp at hl; omega) hs0
        refine ⟨r', ?_, hs', by simp; omega⟩
        have e1 : 37 :: (37 :: 43 :: body1 ++ e :: r1) ++ rest = 37 :: 37 :: 43 :: (body1 ++ e :: (r1 ++ rest)) := by simp
        rw [e1]
        refine .line body1 e (r1 ++ rest) _ (fun x hx => hbody x (by simp [hx])) he ?_
        rw [hr0]; exact hc

theorem Reads.modS (f : Scanner → Scanner) (s : Scanner) (h : OK (f s)) : Reads (modS f) s () (pend (f s)) := ⟨rfl, rfl, h⟩

/-- `readStructuredComment` on a line that starts with `%%`: it skips the line, and — when the line has a
key — the `%%+` continuation lines after it -/
theorem reads_structuredComment (s : Scanner) (body : List UInt8) (e : UInt8) (X fin : List UInt8) (ok : OK s)
    (hb : NoBreak body) (he : e = 10 ∨ e = 12 ∨ e = 13) (hc : ContLines (eolRest e X) fin)
    (hp : pend s = 37 :: 37 :: (body ++ e :: X)) :
    ReadsSome readStructuredComment s (eolRest e X) ∨ ReadsSome readStructuredComment s fin := by
  have he32 : e ≤ 32 := by rcases he with h | h | h <;> subst h <;> decide
  have hla := reads_lookingAt [37, 37] s ok
  generalize hqq : ((pend s).take [37, 37].length == [37, 37]) = q at hla
  have hq : q = true := by rw [← hqq, hp]; simp
  subst hq
  obtain ⟨hsub, hk2⟩ := keyScan_rest body []
  have hk1 : NoBreak (keyScan [] body).2 := fun x hx => hb x (hsub x hx)
  by_cases hkey : (keyScan [] body).1.isEmpty = true
  · left
    unfold readStructuredComment
    refine hla.bindSome (fun s1 ok1 hp1 => ?_)
    simp only [Bool.not_true, Bool.false_eq_true, if_false]
    refine (reads_skipN [37, 37] s1 _ ok1 (by rw [hp1, hp]; rfl)).bindSome (fun s2 ok2 hp2 => ?_)
    apply ReadsSome.getS
    refine (reads_commentKey body s2 (fuelOf s2) [] e X ok2 he32 hp2 (by rw [fuelOf_pend, hp2]; simp; omega)).attempt.bindSome
      (fun s3 ok3 hp3 => ?_)
    simp only [hkey, if_true]
    apply ReadsSome.getS
    refine (reads_skipToEOL _ s3 (fuelOf s3) e X ok3 hk1 he hp3 (by rw [fuelOf_pend, hp3]; simp; omega)).bindSome
      (fun s4 ok4 hp4 => ?_)
    exact ⟨_, Reads.pure' ok4 hp4⟩
  · right
    unfold readStructuredComment
    refine hla.bindSome (fun s1 ok1 hp1 => ?_)
    simp only [Bool.not_true, Bool.false_eq_true, if_false]
    refine (reads_skipN [37, 37] s1 _ ok1 (by rw [hp1, hp]; rfl)).bindSome (fun s2 ok2 hp2 => ?_)
    apply ReadsSome.getS
    refine (reads_commentKey body s2 (fuelOf s2) [] e X ok2 he32 hp2 (by rw [fuelOf_pend, hp2]; simp; omega)).attempt.bindSome
      (fun s3 ok3 hp3 => ?_)
    simp only [hkey]
    apply ReadsSome.getS
    obtain ⟨v, hv⟩ := reads_commentValue _ fin hc s3 (fuelOf s3) [] _ e X rfl ok3 hk1 he hp3
      (by rw [fuelOf_pend, hp3]; simp; omega)
    refine hv.attempt.bindSome (fun s4 ok4 hp4 => ?_)
    exact ⟨_, Reads.pure' ok4 hp4⟩

def SkipSpec (sp : List UInt8) : Prop :=
  ∀ (s : Scanner) (fuel : Nat) (rest : List UInt8), OK s → pend s = sp ++ rest → TokStart rest → sp.length + 1 ≤ fuel →
    Reads (skipWhiteSpace fuel) s () rest

theorem skipSpec_all : ∀ (n : Nat) (sp : List UInt8), sp.length ≤ n → Sep sp → SkipSpec sp := by
  intro n
  induction n using Nat.strongRecOn with
  | _ n ih =>
    intro sp hl hs s fuel rest ok hp ts hf
    obtain ⟨f, rfl⟩ : ∃ f, fuel = f + 1 := ⟨fuel - 1, by omega⟩
    rcases hs.inv with h' | ⟨b, r, h', hb, hr⟩ | ⟨body, e, r, h', hbody, he, hr⟩
    · subst h'
      obtain ⟨c, t, hrest, hc, hc'⟩ := ts
      rw [List.nil_append, hrest] at hp
      unfold skipWhiteSpace
      refine (reads_peek s c t ok hp).bind (fun s' ok' hp' => ?_)
      have h1 : ¬ (c ≤ 32) := UInt8.not_le.mpr hc
      have h2 : (c == 37) = false := by simpa using hc'
      simp only [h1, h2, if_false, Bool.false_eq_true]
      rw [hrest]; exact Reads.pure' ok' hp'
    · subst h'
      rw [List.cons_append] at hp
      unfold skipWhiteSpace
      refine (reads_peek s b _ ok hp).bind (fun s' ok' hp' => ?_)
      simp only [hb, if_true]
      refine (reads_skipByte s' b _ ok' hp').bind (fun s'' ok'' hp'' => ?_)
      simp only [List.length_cons] at hl hf
      exact ih (n - 1) (by omega) r (by omega) hr s'' f rest ok'' hp'' ts (by omega)
    · subst h'
      simp only [List.length_cons, List.length_append] at hl hf
      have hp0 : pend s = 37 :: (body ++ e :: (r ++ rest)) := by rw [hp]; simp
      -- whatever is skipped, what remains is a shorter separator followed by `rest`
      have fin : ∀ (r0 : List UInt8) (s' : Scanner), Sep r0 → r0.length ≤ r.length → OK s' → pend s' = r0 ++ rest →
          Reads (skipWhiteSpace f) s' () rest :=
        fun r0 s' hs0 hl0 ok' hp' => ih (n - 1) (by omega) r0 (by omega) hs0 s' f rest ok' hp' ts (by omega)
      unfold skipWhiteSpace
      refine (reads_peek s 37 _ ok hp0).bind (fun s1 ok1 hp1 => ?_)
      have h1 : ¬ ((37 : UInt8) ≤ 32) := by decide
      simp only [h1, if_false, beq_self_eq_true, if_true]
      apply Reads.getS
      have hla := reads_lookingAt [37, 37] s1 ok1
      generalize hq : ((pend s1).take [37, 37].length == [37, 37]) = q at hla
      refine hla.bind (fun s2 ok2 hp2 => ?_)
      rw [hp1] at hp2 hq
      by_cases hcond : (s1.col == 0 && q) = true
      · -- the DSC path
        simp only [hcond, if_true]
        have hqt : q = true := by simp at hcond; exact hcond.2
        subst hqt
        obtain ⟨body1, hb1⟩ : ∃ body1, body = 37 :: body1 := by
          cases body with
          | nil => simp [List.take] at hq; rcases he with h | h | h <;> subst h <;> simp at hq
          | cons x body1 => simp [List.take] at hq; exact ⟨body1, by rw [hq]⟩
        subst hb1
        obtain ⟨r0, hr0, hs0, hl0⟩ := sep_eolRest e r rest hr ts
        obtain ⟨r', hcl, hs', hl'⟩ := sep_contLines rest ts r0.length r0 (Nat.le_refl _) hs0
        rw [← hr0] at hcl
        have hsc := reads_structuredComment s2 body1 e (r ++ rest) (r' ++ rest) ok2 (hbody.tail) he hcl (by rw [hp2]; rfl)
        rcases hsc with hsc | hsc
        · refine hsc.bind (fun a s3 ok3 hp3 => ?_)
          rw [hr0] at hp3
          cases a with
          | none =>
            show Reads ((pure () : SM Unit) >>= fun _ => skipWhiteSpace f) s3 () rest
            exact (Reads.pure' (a := ()) ok3 hp3).bind (fun s4 ok4 hp4 => fin r0 s4 hs0 hl0 ok4 hp4)
          | some kv =>
            obtain ⟨k, v⟩ := kv
            exact (Reads.modS _ s3 ok3).bind (fun s4 ok4 hp4 => fin r0 s4 hs0 hl0 ok4 (hp4.trans hp3))
        · refine hsc.bind (fun a s3 ok3 hp3 => ?_)
          cases a with
          | none =>
            show Reads ((pure () : SM Unit) >>= fun _ => skipWhiteSpace f) s3 () rest
            exact (Reads.pure' (a := ()) ok3 hp3).bind (fun s4 ok4 hp4 => fin r' s4 hs' (by omega) ok4 hp4)
          | some kv =>
            obtain ⟨k, v⟩ := kv
            exact (Reads.modS _ s3 ok3).bind (fun s4 ok4 hp4 => fin r' s4 hs' (by omega) ok4 (hp4.trans hp3))
      · -- an ordinary comment
        have hcond' : (s1.col == 0 && q) = false := by simpa using hcond
        simp only [hcond', Bool.false_eq_true, if_false]
        refine (reads_skipComment s2 body e (r ++ rest) ok2 hbody he hp2).bind (fun s3 ok3 hp3 => ?_)
        obtain ⟨r0, hr0, hs0, hl0⟩ := sep_eolRest e r rest hr ts
        rw [hr0] at hp3
        exact fin r0 s3 hs0 hl0 ok3 hp3

/-- `SkipWhiteSpace` consumes exactly a separator that is followed by the first byte of a token -/
theorem reads_skipWhiteSpace (sp : List UInt8) (h : Sep sp) : SkipSpec sp := skipSpec_all sp.length sp (Nat.le_refl _) h

/-! ### `ScanToken`: dispatch on the first byte -/

/-- the body of `ScanToken` after the first byte `b` of the token has been peeked -/
def afterPeek (b : UInt8) : SM Tok :=
  if b == 40 then do pure (.str (← readString))
  else if b == 60 then do
    let bb ← peekN 2 3
    if bb == [60, 60] then do skipByte; skipByte; pure (.obj (.op "<<"))
    else if bb == [60, 126] then do pure (.str (← readBase85String))
    else do pure (.str (← readHexString))
  else if b == 62 then do
    let bb ← peekN 2 3
    if bb == [62, 62] then do skipByte; skipByte; pure (.obj (.op ">>"))
    else do
      let s ← getS
      match (if bb.length < 2 then s.err else none) with
      | some e => fail e
      | none => fail syntaxErr
  else if b == 47 then do
    skipByte
    let s ← getS
    let name ← readRegular (fuelOf s) []
    pure (.obj (.name (bytesToString name)))
  else do
    skipByte
    let s ← getS
    let bytes ← (if isRegular b then readRegular (fuelOf s) [b] else pure [b])
    match parseNumber bytes with
    | some x => pure (.obj x)
    | none => pure (.obj (.op (bytesToString bytes)))

theorem scanToken_eq : scanToken = (do
    let s ← getS
    skipWhiteSpace (fuelOf s + 4)
    let b ← peek
    afterPeek b) := rfl

/-- the common first half of every token theorem: separator, then dispatch on the peeked byte -/
theorem reads_scanToken (s : Scanner) (sp : List UInt8) (c : UInt8) (t rest : List UInt8) (tok : Tok)
    (ok : OK s) (hsep : Sep sp) (hp : pend s = sp ++ c :: t) (hc : 32 < c) (hc' : c ≠ 37)
    (hk : ∀ s', OK s' → pend s' = c :: t → Reads (afterPeek c) s' tok rest) :
    Reads scanToken s tok rest := by
  rw [scanToken_eq]
  apply Reads.getS
  have h1 := reads_skipWhiteSpace sp hsep s (fuelOf s + 4) (c :: t) ok hp ⟨c, t, rfl, hc, hc'⟩
    (by rw [fuelOf_pend, hp]; simp; omega)
  refine h1.bind (fun s1 ok1 hp1 => ?_)
  refine (reads_peek s1 c t ok1 hp1).bind (fun s2 ok2 hp2 => ?_)
  exact hk s2 ok2 hp2

/-! ### runs of regular characters: names and numbers -/

/-- `rest` is empty-proof: it starts with a byte that ends a run of regular characters -/
def Delimited (rest : List UInt8) : Prop := ∃ d r, rest = d :: r ∧ isRegular d = false

theorem reads_readRegular (n : List UInt8) : ∀ (s : Scanner) (fuel : Nat) (acc rest : List UInt8),
    OK s → pend s = n ++ rest → n.all isRegular = true → Delimited rest → n.length + 1 ≤ fuel →
    Reads (readRegular fuel acc) s (acc ++ n) rest := by
  induction n with
  | nil =>
    intro s fuel acc rest ok hp _ ⟨d, r, hr, hd⟩ hf
    obtain ⟨f, rfl⟩ : ∃ f, fuel = f + 1 := ⟨fuel - 1, by simp at hf; omega⟩
    rw [List.nil_append, hr] at hp
    unfold readRegular
    refine (reads_peek s d r ok hp).attempt.bind (fun s' ok' hp' => ?_)
    simp only [hd, Bool.not_false, if_true, List.append_nil]
    rw [hr]; exact Reads.pure' ok' hp'
  | cons b n ih =>
    intro s fuel acc rest ok hp hn hd hf
    obtain ⟨f, rfl⟩ : ∃ f, fuel = f + 1 := ⟨fuel - 1, by simp at hf; omega⟩
    have hb : isRegular b = true := by simp at hn; exact hn.1
    have hn' : n.all isRegular = true := by simp at hn ⊢; exact hn.2
    rw [List.cons_append] at hp
    unfold readRegular
    refine (reads_peek s b _ ok hp).attempt.bind (fun s' ok' hp' => ?_)
    simp only [hb, Bool.not_true, Bool.false_eq_true, if_false]
    refine (reads_skipByte s' b _ ok' hp').bind (fun s2 ok2 hp2 => ?_)
    have := ih s2 f (acc ++ [b]) rest ok2 hp2 hn' hd (by simp at hf ⊢; omega)
    simpa using this

/-- a literal name: `/` and a possibly empty run of regular characters -/
theorem reads_litName (s : Scanner) (sp n rest : List UInt8) (ok : OK s) (hsep : Sep sp)
    (hn : n.all isRegular = true) (hd : Delimited rest) (hp : pend s = sp ++ (47 :: n) ++ rest) :
    Reads scanToken s (.obj (.name (bytesToString n))) rest := by
  rw [List.append_assoc, List.cons_append] at hp
  refine reads_scanToken s sp 47 (n ++ rest) rest _ ok hsep hp (by decide) (by decide) (fun s1 ok1 hp1 => ?_)
  have e : afterPeek 47 = (do
      skipByte
      let s ← getS
      let name ← readRegular (fuelOf s) []
      pure (.obj (.name (bytesToString name)))) := rfl
  rw [e]
  refine (reads_skipByte s1 47 _ ok1 hp1).bind (fun s2 ok2 hp2 => ?_)
  apply Reads.getS
  have := reads_readRegular n s2 (fuelOf s2) [] rest ok2 hp2 hn hd (by rw [fuelOf_pend, hp2]; simp; omega)
  refine this.bind (fun s3 ok3 hp3 => ?_)
  rw [List.nil_append]
  exact Reads.pure' ok3 hp3

/-- the token for a run of regular characters: a number if it parses as one, else an executable name -/
def regularTok (bs : List UInt8) : Tok :=
  match parseNumber bs with
  | some x => .obj x
  | none => .obj (.op (bytesToString bs))

/-- a run of regular characters `b :: n` that does not start with `/`, `(`, `<`, `>` (none of them is regular) -/
theorem reads_regularRun (s : Scanner) (sp : List UInt8) (b : UInt8) (n rest : List UInt8) (ok : OK s) (hsep : Sep sp)
    (hb : isRegular b = true) (hn : n.all isRegular = true) (hd : Delimited rest) (hp : pend s = sp ++ (b :: n) ++ rest) :
    Reads scanToken s (regularTok (b :: n)) rest := by
  rw [List.append_assoc, List.cons_append] at hp
  have hb' := hb
  unfold isRegular at hb'
  have h32 : 32 < b := by
    by_cases h : b ≤ 32
    · simp [h] at hb'
    · exact UInt8.not_le.mp h
  have hne : b ≠ 40 ∧ b ≠ 41 ∧ b ≠ 60 ∧ b ≠ 62 ∧ b ≠ 47 ∧ b ≠ 37 := by
    have h : ¬ (b ≤ 32) := UInt8.not_le.mpr h32
    simp [h] at hb'
    exact ⟨hb'.1.1.1.1.1.1.1.1.1, hb'.1.1.1.1.1.1.1.1.2, hb'.1.1.1.1.1.1.1.2, hb'.1.1.1.1.1.1.2, hb'.1.2, hb'.2⟩
  obtain ⟨h40, _, h60, h62, h47, h37⟩ := hne
  refine reads_scanToken s sp b (n ++ rest) rest _ ok hsep hp h32 h37 (fun s1 ok1 hp1 => ?_)
  have e : afterPeek b = (do
      skipByte
      let s ← getS
      let bytes ← (if isRegular b then readRegular (fuelOf s) [b] else pure [b])
      match parseNumber bytes with
      | some x => pure (.obj x)
      | none => pure (.obj (.op (bytesToString bytes)))) := by
    unfold afterPeek
    simp [h40, h60, h62, h47]
  rw [e]
  refine (reads_skipByte s1 b _ ok1 hp1).bind (fun s2 ok2 hp2 => ?_)
  apply Reads.getS
  simp only [hb, if_true]
  have := reads_readRegular n s2 (fuelOf s2) [b] rest ok2 hp2 hn hd (by rw [fuelOf_pend, hp2]; simp; omega)
  refine this.bind (fun s3 ok3 hp3 => ?_)
  show Reads _ s3 (regularTok ([b] ++ n)) rest
  unfold regularTok
  cases parseNumber ([b] ++ n) <;> exact Reads.pure' ok3 hp3

/-! ### byte classes -/

theorem forall_uint8 (P : UInt8 → Prop) (h : ∀ n : Fin 256, P (UInt8.ofNat n.val)) : ∀ b : UInt8, P b := by
  intro b
  have := h ⟨b.toNat, b.toNat_lt⟩
  simpa using this

theorem digit_regular : ∀ b : UInt8, isDigit b = true → isRegular b = true := by
  apply forall_uint8; decide +kernel

theorem digit_not_sign : ∀ b : UInt8, isDigit b = true → b ≠ 43 ∧ b ≠ 45 ∧ b ≠ 46 ∧ b ≠ 35 ∧ b ≠ 101 ∧ b ≠ 69 := by
  apply forall_uint8; decide +kernel

theorem all_digit_regular (ds : List UInt8) (h : ds.all isDigit = true) : ds.all isRegular = true := by
  simp only [List.all_eq_true] at h ⊢
  exact fun b hb => digit_regular b (h b hb)

/-! ### integers -/

/-- **decimal integer spelling**: an optional sign, one or more decimal digits (leading zeros allowed),
the value within `int64` -/
def SpellInt (n : Int) (bs : List UInt8) : Prop :=
  ∃ (neg : Bool) (sign ds : List UInt8), bs = sign ++ ds ∧
    ((sign = [] ∧ neg = false) ∨ (sign = [43] ∧ neg = false) ∨ (sign = [45] ∧ neg = true)) ∧
    ds ≠ [] ∧ ds.all isDigit = true ∧
    n = (if neg then -(digitsVal ds : Int) else (digitsVal ds : Int)) ∧ minInt64 ≤ n ∧ n ≤ maxInt64

theorem parseDecInt_digits (neg : Bool) (ds : List UInt8) (hne : ds ≠ []) (hd : ds.all isDigit = true)
    (hr : minInt64 ≤ (if neg then -(digitsVal ds : Int) else (digitsVal ds : Int)) ∧
      (if neg then -(digitsVal ds : Int) else (digitsVal ds : Int)) ≤ maxInt64) :
    (if (ds.isEmpty || !ds.all isDigit) = true then none
     else
      let v : Int := digitsVal ds
      let v := if neg then -v else v
      if minInt64 ≤ v ∧ v ≤ maxInt64 then some v else none) =
    some (if neg then -(digitsVal ds : Int) else (digitsVal ds : Int)) := by
  have h1 : ds.isEmpty = false := by cases ds with | nil => exact absurd rfl hne | cons _ _ => rfl
  simp only [h1, hd, Bool.not_true, Bool.or_self, Bool.false_eq_true, if_false]
  rw [if_pos hr]

theorem parseDecInt_spell (n : Int) (bs : List UInt8) (h : SpellInt n bs) : parseDecInt bs = some n := by
  obtain ⟨neg, sign, ds, rfl, hs, hne, hd, hn, h1, h2⟩ := h
  subst hn
  rcases hs with ⟨rfl, rfl⟩ | ⟨rfl, rfl⟩ | ⟨rfl, rfl⟩
  · cases ds with
    | nil => exact absurd rfl hne
    | cons d ds' =>
      have hd0 : isDigit d = true := by simp at hd; exact hd.1
      obtain ⟨n43, n45, _⟩ := digit_not_sign d hd0
      rw [List.nil_append]
      unfold parseDecInt
      split
      rename_i x neg' ds'' h
      split at h
      · rename_i h'; injection h' with h' _; exact absurd h' n43
      · rename_i h'; injection h' with h' _; exact absurd h' n45
      · injection h with e1 e2
        subst e1 e2
        exact parseDecInt_digits false (d :: ds') hne hd ⟨h1, h2⟩
  · exact parseDecInt_digits false ds hne hd ⟨h1, h2⟩
  · exact parseDecInt_digits true ds hne hd ⟨h1, h2⟩

theorem spellInt_regular (n : Int) (bs : List UInt8) (h : SpellInt n bs) :
    ∃ b t, bs = b :: t ∧ isRegular b = true ∧ t.all isRegular = true := by
  obtain ⟨neg, sign, ds, rfl, hs, hne, hd, _⟩ := h
  have hr := all_digit_regular ds hd
  cases ds with
  | nil => exact absurd rfl hne
  | cons d ds' =>
    have hr' : isRegular d = true ∧ ds'.all isRegular = true := by simpa using hr
    rcases hs with ⟨rfl, _⟩ | ⟨rfl, _⟩ | ⟨rfl, _⟩
    · exact ⟨d, ds', rfl, hr'.1, hr'.2⟩
    · exact ⟨43, d :: ds', rfl, by decide, hr⟩
    · exact ⟨45, d :: ds', rfl, by decide, hr⟩

/-- **integers**: every decimal spelling of an `int64` value, after any separator and before any
delimiter, is read as that integer -/
theorem reads_int (s : Scanner) (sp bs rest : List UInt8) (n : Int) (ok : OK s) (hsep : Sep sp) (h : SpellInt n bs)
    (hd : Delimited rest) (hp : pend s = sp ++ bs ++ rest) : Reads scanToken s (.obj (.int n)) rest := by
  obtain ⟨b, t, rfl, hb, ht⟩ := spellInt_regular n bs h
  have := reads_regularRun s sp b t rest ok hsep hb ht hd hp
  have e : regularTok (b :: t) = .obj (.int n) := by
    unfold regularTok parseNumber
    rw [parseDecInt_spell n _ h]
  rwa [e] at this

/-! ### executable names and single-byte delimiters -/

/-- a run that does not begin with a digit, a sign or a dot is not a number -/
theorem parseNumber_none (b : UInt8) (t : List UInt8) (hd : isDigit b = false) (h43 : b ≠ 43) (h45 : b ≠ 45) (h46 : b ≠ 46) :
    parseNumber (b :: t) = none := by
  have e1 : parseDecInt (b :: t) = none := by
    unfold parseDecInt
    split
    rename_i x neg ds h
    split at h
    · rename_i h'; injection h' with h' _; exact absurd h' h43
    · rename_i h'; injection h' with h' _; exact absurd h' h45
    · injection h with e1 e2
      subst e1 e2
      simp [hd]
  have e2 : splitReal (b :: t) = none := by
    unfold splitReal
    split
    rename_i x neg ds h
    split at h
    · rename_i h'; injection h' with h' _; exact absurd h' h43
    · rename_i h'; injection h' with h' _; exact absurd h' h45
    · injection h with e1 e2
      subst e1 e2
      simp only [List.takeWhile_cons, List.dropWhile_cons, hd, Bool.false_eq_true, if_false]
      split
      · rename_i h'; injection h' with h' _; exact absurd h' h46
      · simp
  have e3 : parseRadix (b :: t) = none := by
    unfold parseRadix
    simp only [List.takeWhile_cons, List.dropWhile_cons, hd, Bool.false_eq_true, if_false]
    split <;> simp
  unfold parseNumber
  rw [e1, e2, e3]

/-- **executable name spelling**: one or more regular characters that do not form a number -/
def SpellExecName (bs : List UInt8) : Prop :=
  bs ≠ [] ∧ bs.all isRegular = true ∧ parseNumber bs = none

theorem reads_execName (s : Scanner) (sp bs rest : List UInt8) (ok : OK s) (hsep : Sep sp) (h : SpellExecName bs)
    (hd : Delimited rest) (hp : pend s = sp ++ bs ++ rest) : Reads scanToken s (.obj (.op (bytesToString bs))) rest := by
  obtain ⟨hne, hr, hn⟩ := h
  cases bs with
  | nil => exact absurd rfl hne
  | cons b t =>
    have hr' : isRegular b = true ∧ t.all isRegular = true := by simpa using hr
    have := reads_regularRun s sp b t rest ok hsep hr'.1 hr'.2 hd hp
    have e : regularTok (b :: t) = .obj (.op (bytesToString (b :: t))) := by
      unfold regularTok; rw [hn]
    rwa [e] at this

/-- the self-delimiting one-byte tokens `[ ] { }` (and, for completeness, a stray `)`): read as the
executable name made of that byte, whatever follows -/
def isSingle (b : UInt8) : Bool := b == 91 || b == 93 || b == 123 || b == 125

theorem single_facts : ∀ b : UInt8, isSingle b = true →
    32 < b ∧ b ≠ 37 ∧ b ≠ 40 ∧ b ≠ 60 ∧ b ≠ 62 ∧ b ≠ 47 ∧ isRegular b = false ∧ isDigit b = false ∧ b ≠ 43 ∧ b ≠ 45 ∧ b ≠ 46 := by
  apply forall_uint8; decide +kernel

theorem reads_single (s : Scanner) (sp : List UInt8) (b : UInt8) (rest : List UInt8) (ok : OK s) (hsep : Sep sp)
    (hb : isSingle b = true) (hp : pend s = sp ++ [b] ++ rest) :
    Reads scanToken s (.obj (.op (bytesToString [b]))) rest := by
  obtain ⟨h32, h37, h40, h60, h62, h47, hreg, hdig, h43, h45, h46⟩ := single_facts b hb
  rw [List.append_assoc, List.singleton_append] at hp
  refine reads_scanToken s sp b rest rest _ ok hsep hp h32 h37 (fun s1 ok1 hp1 => ?_)
  have e : afterPeek b = (do
      skipByte
      let s ← getS
      let bytes ← (if isRegular b then readRegular (fuelOf s) [b] else pure [b])
      match parseNumber bytes with
      | some x => pure (.obj x)
      | none => pure (.obj (.op (bytesToString bytes)))) := by
    unfold afterPeek
    simp [h40, h60, h62, h47]
  rw [e]
  refine (reads_skipByte s1 b _ ok1 hp1).bind (fun s2 ok2 hp2 => ?_)
  apply Reads.getS
  simp only [hreg, Bool.false_eq_true, if_false]
  refine (Reads.pure' (a := [b]) ok2 hp2).bind (fun s3 ok3 hp3 => ?_)
  rw [parseNumber_none b [] hdig h43 h45 h46]
  exact Reads.pure' ok3 hp3

/-- `<<` and `>>` -/
theorem reads_dictOpen (s : Scanner) (sp rest : List UInt8) (ok : OK s) (hsep : Sep sp)
    (hp : pend s = sp ++ [60, 60] ++ rest) : Reads scanToken s (.obj (.op "<<")) rest := by
  rw [List.append_assoc] at hp
  refine reads_scanToken s sp 60 (60 :: rest) rest _ ok hsep hp (by decide) (by decide) (fun s1 ok1 hp1 => ?_)
  have e : afterPeek 60 = (do
    let bb ← peekN 2 3
    if bb == [60, 60] then do skipByte; skipByte; pure (.obj (.op "<<"))
    else if bb == [60, 126] then do pure (.str (← readBase85String))
    else do pure (.str (← readHexString))) := rfl
  rw [e]
  refine (reads_peekN2 s1 60 60 rest ok1 hp1).bind (fun s2 ok2 hp2 => ?_)
  simp only [beq_self_eq_true, if_true]
  refine (reads_skipByte s2 60 _ ok2 hp2).bind (fun s3 ok3 hp3 => ?_)
  refine (reads_skipByte s3 60 _ ok3 hp3).bind (fun s4 ok4 hp4 => ?_)
  exact Reads.pure' ok4 hp4

theorem reads_dictClose (s : Scanner) (sp rest : List UInt8) (ok : OK s) (hsep : Sep sp)
    (hp : pend s = sp ++ [62, 62] ++ rest) : Reads scanToken s (.obj (.op ">>")) rest := by
  rw [List.append_assoc] at hp
  refine reads_scanToken s sp 62 (62 :: rest) rest _ ok hsep hp (by decide) (by decide) (fun s1 ok1 hp1 => ?_)
  have e : afterPeek 62 = (do
    let bb ← peekN 2 3
    if bb == [62, 62] then do skipByte; skipByte; pure (.obj (.op ">>"))
    else do
      let s ← getS
      match (if bb.length < 2 then s.err else none) with
      | some e => fail e
      | none => fail syntaxErr) := rfl
  rw [e]
  refine (reads_peekN2 s1 62 62 rest ok1 hp1).bind (fun s2 ok2 hp2 => ?_)
  simp only [beq_self_eq_true, if_true]
  refine (reads_skipByte s2 62 _ ok2 hp2).bind (fun s3 ok3 hp3 => ?_)
  refine (reads_skipByte s3 62 _ ok3 hp3).bind (fun s4 ok4 hp4 => ?_)
  exact Reads.pure' ok4 hp4

/-! ### hexadecimal strings -/

/-- the text between `<` and `>`: hex digits of either case pair up into bytes, white space may stand
anywhere (also between the two digits of a pair), a final single digit is padded with 0 -/
inductive HexBody : List UInt8 → List UInt8 → Prop
  | nil : HexBody [] []
  | ws (b : UInt8) (r v : List UInt8) : b ≤ 32 → HexBody r v → HexBody (b :: r) v
  | pair (a b x y : UInt8) (w r v : List UInt8) : hexNibble a = some x → hexNibble b = some y → (∀ c ∈ w, c ≤ 32) →
      HexBody r v → HexBody (a :: (w ++ b :: r)) ((x <<< 4 ||| y) :: v)
  | odd (a x : UInt8) (w : List UInt8) : hexNibble a = some x → (∀ c ∈ w, c ≤ 32) → HexBody (a :: w) [x <<< 4]

/-- **hexadecimal string spelling** -/
def SpellHex (v bs : List UInt8) : Prop := ∃ body, bs = 60 :: (body ++ [62]) ∧ HexBody body v

theorem hexdigit_facts : ∀ b : UInt8, (hexNibble b).isSome = true → ¬ (b ≤ 32) ∧ b ≠ 62 ∧ b ≠ 60 ∧ b ≠ 126 := by
  apply forall_uint8; decide +kernel

theorem ws_facts : ∀ b : UInt8, b ≤ 32 → b ≠ 62 ∧ b ≠ 60 ∧ b ≠ 126 ∧ b ≠ 122 := by
  apply forall_uint8; decide +kernel

/-- white space inside a hex string is skipped, whatever the state of the digit pairing -/
theorem hex_skip_ws (w : List UInt8) : ∀ (s : Scanner) (fuel : Nat) (res : List UInt8) (first : Bool) (hi : UInt8)
    (X : List UInt8) (a : List UInt8) (r : List UInt8),
    OK s → (∀ c ∈ w, c ≤ 32) → pend s = w ++ X →
    (∀ s', OK s' → pend s' = X → Reads (readHexBody fuel res first hi) s' a r) →
    Reads (readHexBody (fuel + w.length) res first hi) s a r := by
  induction w with
  | nil => intro s fuel res first hi X a r ok _ hp hk; exact hk s ok (by simpa using hp)
  | cons c w ih =>
    intro s fuel res first hi X a r ok hw hp hk
    show Reads (readHexBody ((fuel + w.length) + 1) res first hi) s a r
    unfold readHexBody
    rw [List.cons_append] at hp
    refine (reads_next s c _ ok hp).bind (fun s1 ok1 hp1 => ?_)
    have hc : c ≤ 32 := hw c (by simp)
    have h62 : (c == 62) = false := by simpa using (ws_facts c hc).1
    simp only [h62, Bool.false_eq_true, if_false, hc, if_true]
    exact ih s1 fuel res first hi X a r ok1 (fun x hx => hw x (by simp [hx])) hp1 hk

theorem hex_digit_first (s : Scanner) (fuel : Nat) (res : List UInt8) (a x : UInt8) (X out r : List UInt8) (ok : OK s)
    (ha : hexNibble a = some x) (hp : pend s = a :: X)
    (hk : ∀ s', OK s' → pend s' = X → Reads (readHexBody fuel res false (x <<< 4)) s' out r) :
    Reads (readHexBody (fuel + 1) res true 0) s out r := by
  unfold readHexBody
  refine (reads_next s a _ ok hp).bind (fun s1 ok1 hp1 => ?_)
  obtain ⟨h32, h62, _⟩ := hexdigit_facts a (by rw [ha]; rfl)
  have h62' : (a == 62) = false := by simpa using h62
  simp only [h62', Bool.false_eq_true, if_false, h32, ha, if_true]
  exact hk s1 ok1 hp1

theorem hex_digit_second (s : Scanner) (fuel : Nat) (res : List UInt8) (b y hi : UInt8) (X out r : List UInt8) (ok : OK s)
    (hb : hexNibble b = some y) (hp : pend s = b :: X)
    (hk : ∀ s', OK s' → pend s' = X → Reads (readHexBody fuel (res ++ [hi ||| y]) true 0) s' out r) :
    Reads (readHexBody (fuel + 1) res false hi) s out r := by
  unfold readHexBody
  refine (reads_next s b _ ok hp).bind (fun s1 ok1 hp1 => ?_)
  obtain ⟨h32, h62, _⟩ := hexdigit_facts b (by rw [hb]; rfl)
  have h62' : (b == 62) = false := by simpa using h62
  simp only [h62', Bool.false_eq_true, if_false, h32, hb]
  exact hk s1 ok1 hp1

theorem hex_close (s : Scanner) (fuel : Nat) (res : List UInt8) (first : Bool) (hi : UInt8) (rest : List UInt8) (ok : OK s)
    (hp : pend s = 62 :: rest) :
    Reads (readHexBody (fuel + 1) res first hi) s (if first then res else res ++ [hi]) rest := by
  unfold readHexBody
  refine (reads_next s 62 _ ok hp).bind (fun s1 ok1 hp1 => ?_)
  simp only [beq_self_eq_true, if_true]
  exact Reads.pure' ok1 hp1

theorem reads_hexBody (body v : List UInt8) (h : HexBody body v) : ∀ (s : Scanner) (fuel : Nat) (res rest : List UInt8),
    OK s → pend s = body ++ 62 :: rest → body.length + 1 ≤ fuel →
    Reads (readHexBody fuel res true 0) s (res ++ v) rest := by
  induction h with
  | nil =>
    intro s fuel res rest ok hp hf
    obtain ⟨f, rfl⟩ : ∃ f, fuel = f + 1 := ⟨fuel - 1, by simp at hf; omega⟩
    have := hex_close s f res true 0 rest ok (by simpa using hp)
    simpa using this
  | ws b r v hb _ ih =>
    intro s fuel res rest ok hp hf
    obtain ⟨f, rfl⟩ : ∃ f, fuel = f + 1 := ⟨fuel - 1, by simp at hf; omega⟩
    refine hex_skip_ws [b] s f res true 0 (r ++ 62 :: rest) _ _ ok (by simpa using hb) (by simpa using hp) ?_
    intro s1 ok1 hp1
    exact ih s1 f res rest ok1 hp1 (by simp at hf; omega)
  | pair a b x y w r v ha hb hw _ ih =>
    intro s fuel res rest ok hp hf
    simp only [List.length_cons, List.length_append] at hf
    obtain ⟨f, rfl⟩ : ∃ f, fuel = (f + 1) + w.length + 1 := ⟨fuel - w.length - 2, by omega⟩
    refine hex_digit_first s _ res a x (w ++ b :: r ++ 62 :: rest) _ _ ok ha (by simpa using hp) ?_
    intro s1 ok1 hp1
    refine hex_skip_ws w s1 (f + 1) res false (x <<< 4) (b :: (r ++ 62 :: rest)) _ _ ok1 hw (by simpa using hp1) ?_
    intro s2 ok2 hp2
    refine hex_digit_second s2 f res b y (x <<< 4) (r ++ 62 :: rest) _ _ ok2 hb hp2 ?_
    intro s3 ok3 hp3
    have := ih s3 f (res ++ [x <<< 4 ||| y]) rest ok3 hp3 (by omega)
    simpa using this
  | odd a x w ha hw =>
    intro s fuel res rest ok hp hf
    simp only [List.length_cons] at hf
    obtain ⟨f, rfl⟩ : ∃ f, fuel = (f + 1) + w.length + 1 := ⟨fuel - w.length - 2, by omega⟩
    refine hex_digit_first s _ res a x (w ++ 62 :: rest) _ _ ok ha (by simpa using hp) ?_
    intro s1 ok1 hp1
    refine hex_skip_ws w s1 (f + 1) res false (x <<< 4) (62 :: rest) _ _ ok1 hw hp1 ?_
    intro s2 ok2 hp2
    have := hex_close s2 f res false (x <<< 4) rest ok2 hp2
    simpa using this

theorem hexBody_head (body v : List UInt8) (h : HexBody body v) (rest : List UInt8) :
    ∃ c t, body ++ 62 :: rest = c :: t ∧ c ≠ 60 ∧ c ≠ 126 := by
  cases h with
  | nil => exact ⟨62, rest, rfl, by decide, by decide⟩
  | ws b r v hb _ => exact ⟨b, _, rfl, (ws_facts b hb).2.1, (ws_facts b hb).2.2.1⟩
  | pair a b x y w r v ha _ _ _ =>
    obtain ⟨_, _, h1, h2⟩ := hexdigit_facts a (by rw [ha]; rfl)
    exact ⟨a, _, rfl, h1, h2⟩
  | odd a x w ha _ =>
    obtain ⟨_, _, h1, h2⟩ := hexdigit_facts a (by rw [ha]; rfl)
    exact ⟨a, _, rfl, h1, h2⟩

/-- **hexadecimal strings**: every spelling is read as its bytes; whatever follows is left -/
theorem reads_hex (s : Scanner) (sp bs rest v : List UInt8) (ok : OK s) (hsep : Sep sp) (h : SpellHex v bs)
    (hp : pend s = sp ++ bs ++ rest) : Reads scanToken s (.str v) rest := by
  obtain ⟨body, rfl, hb⟩ := h
  obtain ⟨c, t, hct, h60, h126⟩ := hexBody_head body v hb rest
  have hp0 : pend s = sp ++ 60 :: (body ++ 62 :: rest) := by rw [hp]; simp
  refine reads_scanToken s sp 60 _ rest _ ok hsep hp0 (by decide) (by decide) (fun s1 ok1 hp1 => ?_)
  have e : afterPeek 60 = (do
    let bb ← peekN 2 3
    if bb == [60, 60] then do skipByte; skipByte; pure (.obj (.op "<<"))
    else if bb == [60, 126] then do pure (.str (← readBase85String))
    else do pure (.str (← readHexString))) := rfl
  rw [e]
  rw [hct] at hp1
  refine (reads_peekN2 s1 60 c t ok1 hp1).bind (fun s2 ok2 hp2 => ?_)
  have e1 : ([60, c] == [60, 60]) = false := by simpa using h60
  have e2 : ([60, c] == [60, 126]) = false := by simpa using h126
  simp only [e1, e2, Bool.false_eq_true, if_false]
  rw [← hct] at hp2
  have : Reads readHexString s2 v rest := by
    unfold readHexString
    refine (reads_skipRequired s2 60 _ ok2 hp2).bind (fun s3 ok3 hp3 => ?_)
    apply Reads.getS
    have := reads_hexBody body v hb s3 (fuelOf s3) [] rest ok3 hp3 (by rw [fuelOf_pend, hp3]; simp; omega)
    simpa using this
  refine this.bind (fun s4 ok4 hp4 => ?_)
  exact Reads.pure' ok4 hp4

/-! ### literal strings -/

/-- the byte denoted by a one-character escape `\n \r \t \b \f \\ \( \)` -/
def escLetter (e : UInt8) : Option UInt8 :=
  if e = 110 then some 10 else if e = 114 then some 13 else if e = 116 then some 9 else if e = 98 then some 8
  else if e = 102 then some 12 else if e = 92 then some 92 else if e = 40 then some 40 else if e = 41 then some 41
  else none

/-- octal digits `0`..`7` -/
def isOct (b : UInt8) : Bool := 48 ≤ b && b ≤ 55

/-- the text between the outer parentheses of a literal string, at nesting depth `k` (number of inner
parentheses still open), and the bytes it denotes.

* `raw`: any byte except `( ) \` and CR stands for itself (LF included);
* `open_`/`close`: balanced inner parentheses stand for themselves;
* `cr`/`crlf`: a raw CR or CR LF is read as one LF;
* `esc`: `\n \r \t \b \f \\ \( \)`; `escOther`: before any other character the backslash is ignored;
* `contLF`/`contCR`/`contCRLF`: backslash-newline is a line continuation and denotes nothing;
* `oct1`/`oct2`/`oct3`: `\d`, `\dd`, `\ddd`; the one- and two-digit forms only when the next byte is not
  an octal digit; three digits are taken modulo 256. -/
inductive StrBody : Nat → List UInt8 → List UInt8 → Prop
  | nil : StrBody 0 [] []
  | raw (k : Nat) (c : UInt8) (t v : List UInt8) : c ≠ 40 → c ≠ 41 → c ≠ 92 → c ≠ 13 → StrBody k t v → StrBody k (c :: t) (c :: v)
  | open_ (k : Nat) (t v : List UInt8) : StrBody (k + 1) t v → StrBody k (40 :: t) (40 :: v)
  | close (k : Nat) (t v : List UInt8) : StrBody k t v → StrBody (k + 1) (41 :: t) (41 :: v)
  | cr (k : Nat) (t v : List UInt8) : t.head? ≠ some 10 → StrBody k t v → StrBody k (13 :: t) (10 :: v)
  | crlf (k : Nat) (t v : List UInt8) : StrBody k t v → StrBody k (13 :: 10 :: t) (10 :: v)
  | esc (k : Nat) (e c : UInt8) (t v : List UInt8) : escLetter e = some c → StrBody k t v → StrBody k (92 :: e :: t) (c :: v)
  | escOther (k : Nat) (e : UInt8) (t v : List UInt8) : escLetter e = none → isOct e = false → e ≠ 10 → e ≠ 13 →
      StrBody k t v → StrBody k (92 :: e :: t) (e :: v)
  | contLF (k : Nat) (t v : List UInt8) : StrBody k t v → StrBody k (92 :: 10 :: t) v
  | contCR (k : Nat) (t v : List UInt8) : t.head? ≠ some 10 → StrBody k t v → StrBody k (92 :: 13 :: t) v
  | contCRLF (k : Nat) (t v : List UInt8) : StrBody k t v → StrBody k (92 :: 13 :: 10 :: t) v
  | oct1 (k : Nat) (d : UInt8) (t v : List UInt8) : isOct d = true → (∀ c, t.head? = some c → isOct c = false) →
      StrBody k t v → StrBody k (92 :: d :: t) ((d - 48) :: v)
  | oct2 (k : Nat) (d1 d2 : UInt8) (t v : List UInt8) : isOct d1 = true → isOct d2 = true →
      (∀ c, t.head? = some c → isOct c = false) →
      StrBody k t v → StrBody k (92 :: d1 :: d2 :: t) (((d1 - 48) * 8 + (d2 - 48)) :: v)
  | oct3 (k : Nat) (d1 d2 d3 : UInt8) (t v : List UInt8) : isOct d1 = true → isOct d2 = true → isOct d3 = true →
      StrBody k t v → StrBody k (92 :: d1 :: d2 :: d3 :: t) ((((d1 - 48) * 8 + (d2 - 48)) * 8 + (d3 - 48)) :: v)

/-- **literal string spelling** -/
def SpellLitString (v bs : List UInt8) : Prop := ∃ body, bs = 40 :: (body ++ [41]) ∧ StrBody 0 body v

/-- the `switch b` of `ReadString` -/
def strAfter (fuel : Nat) (res : List UInt8) (level : Nat) (b : UInt8) : SM (List UInt8) :=
  if b == 40 then readStringBody fuel (res ++ [b]) (level + 1) false
  else if b == 41 then
    if level == 1 then pure res else readStringBody fuel (res ++ [b]) (level - 1) false
  else if b == 92 then do
    let e ← next
    if e == 110 then readStringBody fuel (res ++ [10]) level false
    else if e == 114 then readStringBody fuel (res ++ [13]) level false
    else if e == 116 then readStringBody fuel (res ++ [9]) level false
    else if e == 98 then readStringBody fuel (res ++ [8]) level false
    else if e == 102 then readStringBody fuel (res ++ [12]) level false
    else if e == 40 || e == 41 || e == 92 then readStringBody fuel (res ++ [e]) level false
    else if e == 10 then readStringBody fuel res level false
    else if e == 13 then readStringBody fuel res level true
    else if 48 ≤ e && e ≤ 55 then do
      let oct ← readOctal 2 (e - 48)
      readStringBody fuel (res ++ [oct]) level false
    else readStringBody fuel (res ++ [e]) level false
  else if b == 13 then readStringBody fuel (res ++ [10]) level true
  else readStringBody fuel (res ++ [b]) level false

theorem readStringBody_succ (fuel : Nat) (res : List UInt8) (level : Nat) (ign : Bool) :
    readStringBody (fuel + 1) res level ign = (do
      let b ← next
      if ign && b == 10 then readStringBody fuel res level false else strAfter fuel res level b) := by
  conv => lhs; unfold readStringBody
  rfl

/-- one byte of the loop, when it is not a line feed swallowed after a CR -/
theorem str_step (s : Scanner) (fuel : Nat) (res : List UInt8) (level : Nat) (ign : Bool) (b : UInt8) (X out r : List UInt8)
    (ok : OK s) (hp : pend s = b :: X) (hign : ign = true → b ≠ 10)
    (hk : ∀ s', OK s' → pend s' = X → Reads (strAfter fuel res level b) s' out r) :
    Reads (readStringBody (fuel + 1) res level ign) s out r := by
  rw [readStringBody_succ]
  refine (reads_next s b X ok hp).bind (fun s1 ok1 hp1 => ?_)
  have : (ign && b == 10) = false := by
    cases ign with
    | false => rfl
    | true => simpa using hign rfl
  simp only [this, Bool.false_eq_true, if_false]
  exact hk s1 ok1 hp1

/-- the line feed after a CR is dropped -/
theorem str_step_lf (s : Scanner) (fuel : Nat) (res : List UInt8) (level : Nat) (X out r : List UInt8)
    (ok : OK s) (hp : pend s = 10 :: X)
    (hk : ∀ s', OK s' → pend s' = X → Reads (readStringBody fuel res level false) s' out r) :
    Reads (readStringBody (fuel + 1) res level true) s out r := by
  rw [readStringBody_succ]
  refine (reads_next s 10 X ok hp).bind (fun s1 ok1 hp1 => ?_)
  simp only [Bool.true_and, beq_self_eq_true, if_true]
  exact hk s1 ok1 hp1

theorem esc_letters : ∀ e : UInt8, (escLetter e).isSome = true →
    e = 110 ∨ e = 114 ∨ e = 116 ∨ e = 98 ∨ e = 102 ∨ e = 92 ∨ e = 40 ∨ e = 41 := by
  apply forall_uint8; decide +kernel

theorem esc_other_facts : ∀ e : UInt8, escLetter e = none → isOct e = false → e ≠ 10 → e ≠ 13 →
    (e == 110) = false ∧ (e == 114) = false ∧ (e == 116) = false ∧ (e == 98) = false ∧ (e == 102) = false ∧
    (e == 40 || e == 41 || e == 92) = false ∧ (e == 10) = false ∧ (e == 13) = false ∧ (decide (48 ≤ e) && decide (e ≤ 55)) = false := by
  apply forall_uint8; decide +kernel

theorem oct_facts : ∀ e : UInt8, isOct e = true →
    (e == 110) = false ∧ (e == 114) = false ∧ (e == 116) = false ∧ (e == 98) = false ∧ (e == 102) = false ∧
    (e == 40 || e == 41 || e == 92) = false ∧ (e == 10) = false ∧ (e == 13) = false ∧ (decide (48 ≤ e) && decide (e ≤ 55)) = true ∧
    (decide (e < 48) || decide (e > 55)) = false := by
  apply forall_uint8; decide +kernel

theorem notoct_facts : ∀ e : UInt8, isOct e = false → (decide (e < 48) || decide (e > 55)) = true := by
  apply forall_uint8; decide +kernel

/-- the byte after position `t` of a string body: the head of `t`, or the closing parenthesis -/
theorem next_byte (t rest : List UInt8) : ∃ c X, t ++ 41 :: rest = c :: X ∧ (t.head? = some c ∨ (t = [] ∧ c = 41)) := by
  cases t with
  | nil => exact ⟨41, rest, rfl, Or.inr ⟨rfl, rfl⟩⟩
  | cons c t => exact ⟨c, t ++ 41 :: rest, rfl, Or.inl rfl⟩

theorem next_not_lf (t rest : List UInt8) (h : t.head? ≠ some 10) : ∃ c X, t ++ 41 :: rest = c :: X ∧ c ≠ 10 := by
  obtain ⟨c, X, e, hc⟩ := next_byte t rest
  refine ⟨c, X, e, ?_⟩
  rcases hc with hc | ⟨_, hc⟩
  · intro h'; subst h'; exact h hc
  · subst hc; decide

theorem next_not_oct (t rest : List UInt8) (h : ∀ c, t.head? = some c → isOct c = false) :
    ∃ c X, t ++ 41 :: rest = c :: X ∧ isOct c = false := by
  obtain ⟨c, X, e, hc⟩ := next_byte t rest
  refine ⟨c, X, e, ?_⟩
  rcases hc with hc | ⟨_, hc⟩
  · exact h c hc
  · subst hc; decide

theorem readOctal_stop (s : Scanner) (n : Nat) (oct c : UInt8) (X : List UInt8) (ok : OK s) (hp : pend s = c :: X)
    (hc : isOct c = false) : Reads (readOctal n oct) s oct (c :: X) := by
  cases n with
  | zero => exact Reads.pure' ok hp
  | succ n =>
    unfold readOctal
    refine (reads_peek s c X ok hp).attempt.bind (fun s1 ok1 hp1 => ?_)
    simp only [notoct_facts c hc, if_true]
    exact Reads.pure' ok1 hp1

theorem readOctal_digit (s : Scanner) (n : Nat) (oct d : UInt8) (X : List UInt8) (out : UInt8) (r : List UInt8) (ok : OK s)
    (hp : pend s = d :: X) (hd : isOct d = true)
    (hk : ∀ s', OK s' → pend s' = X → Reads (readOctal n (oct * 8 + (d - 48))) s' out r) :
    Reads (readOctal (n + 1) oct) s out r := by
  unfold readOctal
  refine (reads_peek s d X ok hp).attempt.bind (fun s1 ok1 hp1 => ?_)
  simp only [(oct_facts d hd).2.2.2.2.2.2.2.2.2, Bool.false_eq_true, if_false]
  refine (reads_skipByte s1 d X ok1 hp1).bind (fun s2 ok2 hp2 => ?_)
  exact hk s2 ok2 hp2

/-- the `switch` on the byte after a backslash -/
def escAfter (fuel : Nat) (res : List UInt8) (level : Nat) (e : UInt8) : SM (List UInt8) :=
  if e == 110 then readStringBody fuel (res ++ [10]) level false
  else if e == 114 then readStringBody fuel (res ++ [13]) level false
  else if e == 116 then readStringBody fuel (res ++ [9]) level false
  else if e == 98 then readStringBody fuel (res ++ [8]) level false
  else if e == 102 then readStringBody fuel (res ++ [12]) level false
  else if e == 40 || e == 41 || e == 92 then readStringBody fuel (res ++ [e]) level false
  else if e == 10 then readStringBody fuel res level false
  else if e == 13 then readStringBody fuel res level true
  else if 48 ≤ e && e ≤ 55 then do
    let oct ← readOctal 2 (e - 48)
    readStringBody fuel (res ++ [oct]) level false
  else readStringBody fuel (res ++ [e]) level false

theorem strAfter_bs (fuel : Nat) (res : List UInt8) (level : Nat) :
    strAfter fuel res level 92 = (do let e ← next; escAfter fuel res level e) := rfl
theorem strAfter_open (fuel : Nat) (res : List UInt8) (level : Nat) :
    strAfter fuel res level 40 = readStringBody fuel (res ++ [40]) (level + 1) false := rfl
theorem strAfter_cr (fuel : Nat) (res : List UInt8) (level : Nat) :
    strAfter fuel res level 13 = readStringBody fuel (res ++ [10]) level true := rfl
theorem strAfter_close (fuel : Nat) (res : List UInt8) (k : Nat) :
    strAfter fuel res (k + 2) 41 = readStringBody fuel (res ++ [41]) (k + 1) false := by
  unfold strAfter; simp
theorem strAfter_end (fuel : Nat) (res : List UInt8) :
    strAfter fuel res 1 41 = pure res := by
  unfold strAfter; simp
theorem strAfter_raw (fuel : Nat) (res : List UInt8) (level : Nat) (c : UInt8) (h40 : c ≠ 40) (h41 : c ≠ 41) (h92 : c ≠ 92)
    (h13 : c ≠ 13) : strAfter fuel res level c = readStringBody fuel (res ++ [c]) level false := by
  unfold strAfter; simp [h40, h41, h92, h13]

theorem escAfter_letter (fuel : Nat) (res : List UInt8) (level : Nat) (e c : UInt8) (h : escLetter e = some c) :
    escAfter fuel res level e = readStringBody fuel (res ++ [c]) level false := by
  have := esc_letters e (by rw [h]; rfl)
  rcases this with h' | h' | h' | h' | h' | h' | h' | h' <;> subst h' <;>
    (have hc : some c = _ := h.symm; injection hc with hc; subst hc; rfl)

theorem escAfter_other (fuel : Nat) (res : List UInt8) (level : Nat) (e : UInt8) (h1 : escLetter e = none)
    (h2 : isOct e = false) (h3 : e ≠ 10) (h4 : e ≠ 13) :
    escAfter fuel res level e = readStringBody fuel (res ++ [e]) level false := by
  obtain ⟨a1, a2, a3, a4, a5, a6, a7, a8, a9⟩ := esc_other_facts e h1 h2 h3 h4
  unfold escAfter
  simp only [a1, a2, a3, a4, a5, a6, a7, a8, a9, Bool.false_eq_true, if_false]

theorem escAfter_oct (fuel : Nat) (res : List UInt8) (level : Nat) (e : UInt8) (h : isOct e = true) :
    escAfter fuel res level e = (do
      let oct ← readOctal 2 (e - 48)
      readStringBody fuel (res ++ [oct]) level false) := by
  obtain ⟨a1, a2, a3, a4, a5, a6, a7, a8, a9, _⟩ := oct_facts e h
  unfold escAfter
  simp only [a1, a2, a3, a4, a5, a6, a7, a8, a9, Bool.false_eq_true, if_false, if_true]

theorem escAfter_lf (fuel : Nat) (res : List UInt8) (level : Nat) :
    escAfter fuel res level 10 = readStringBody fuel res level false := rfl
theorem escAfter_cr (fuel : Nat) (res : List UInt8) (level : Nat) :
    escAfter fuel res level 13 = readStringBody fuel res level true := rfl

/-- a backslash and the byte after it -/
theorem str_step_esc (s : Scanner) (fuel : Nat) (res : List UInt8) (level : Nat) (ign : Bool) (e : UInt8) (X out r : List UInt8)
    (ok : OK s) (hp : pend s = 92 :: e :: X)
    (hk : ∀ s', OK s' → pend s' = X → Reads (escAfter fuel res level e) s' out r) :
    Reads (readStringBody (fuel + 1) res level ign) s out r := by
  refine str_step s fuel res level ign 92 (e :: X) out r ok hp (fun _ => by decide) (fun s1 ok1 hp1 => ?_)
  rw [strAfter_bs]
  exact (reads_next s1 e X ok1 hp1).bind (fun s2 ok2 hp2 => hk s2 ok2 hp2)

theorem reads_strBody (k : Nat) (t v : List UInt8) (h : StrBody k t v) :
    ∀ (s : Scanner) (fuel : Nat) (res : List UInt8) (ign : Bool) (rest : List UInt8),
    OK s → (ign = true → t.head? ≠ some 10) → pend s = t ++ 41 :: rest → t.length + 1 ≤ fuel →
    Reads (readStringBody fuel res (k + 1) ign) s (res ++ v) rest := by
  induction h with
  | nil =>
    intro s fuel res ign rest ok _ hp hf
    obtain ⟨f, rfl⟩ : ∃ f, fuel = f + 1 := ⟨fuel - 1, by simp at hf; omega⟩
    refine str_step s f res 1 ign 41 rest _ _ ok (by simpa using hp) (fun _ => by decide) (fun s1 ok1 hp1 => ?_)
    rw [strAfter_end, List.append_nil]
    exact Reads.pure' ok1 hp1
  | raw k c t v h40 h41 h92 h13 _ ih =>
    intro s fuel res ign rest ok hign hp hf
    obtain ⟨f, rfl⟩ : ∃ f, fuel = f + 1 := ⟨fuel - 1, by simp at hf; omega⟩
    refine str_step s f res (k + 1) ign c (t ++ 41 :: rest) _ _ ok (by simpa using hp)
      (fun hi => by simpa using hign hi) (fun s1 ok1 hp1 => ?_)
    rw [strAfter_raw f res (k + 1) c h40 h41 h92 h13]
    have := ih s1 f (res ++ [c]) false rest ok1 (fun h => by cases h) hp1 (by simp at hf; omega)
    simpa using this
  | open_ k t v _ ih =>
    intro s fuel res ign rest ok hign hp hf
    obtain ⟨f, rfl⟩ : ∃ f, fuel = f + 1 := ⟨fuel - 1, by simp at hf; omega⟩
    refine str_step s f res (k + 1) ign 40 (t ++ 41 :: rest) _ _ ok (by simpa using hp)
      (fun _ => by decide) (fun s1 ok1 hp1 => ?_)
    rw [strAfter_open]
    have := ih s1 f (res ++ [40]) false rest ok1 (fun h => by cases h) hp1 (by simp at hf; omega)
    simpa using this
  | close k t v _ ih =>
    intro s fuel res ign rest ok hign hp hf
    obtain ⟨f, rfl⟩ : ∃ f, fuel = f + 1 := ⟨fuel - 1, by simp at hf; omega⟩
    refine str_step s f res (k + 1 + 1) ign 41 (t ++ 41 :: rest) _ _ ok (by simpa using hp)
      (fun _ => by decide) (fun s1 ok1 hp1 => ?_)
    rw [strAfter_close]
    have := ih s1 f (res ++ [41]) false rest ok1 (fun h => by cases h) hp1 (by simp at hf; omega)
    simpa using this
  | cr k t v hlf _ ih =>
    intro s fuel res ign rest ok hign hp hf
    obtain ⟨f, rfl⟩ : ∃ f, fuel = f + 1 := ⟨fuel - 1, by simp at hf; omega⟩
    refine str_step s f res (k + 1) ign 13 (t ++ 41 :: rest) _ _ ok (by simpa using hp)
      (fun _ => by decide) (fun s1 ok1 hp1 => ?_)
    rw [strAfter_cr]
    have := ih s1 f (res ++ [10]) true rest ok1 (fun _ => hlf) hp1 (by simp at hf; omega)
    simpa using this
  | crlf k t v _ ih =>
    intro s fuel res ign rest ok hign hp hf
    obtain ⟨f, rfl⟩ : ∃ f, fuel = f + 1 + 1 := ⟨fuel - 2, by simp at hf; omega⟩
    refine str_step s (f + 1) res (k + 1) ign 13 (10 :: (t ++ 41 :: rest)) _ _ ok (by simpa using hp)
      (fun _ => by decide) (fun s1 ok1 hp1 => ?_)
    rw [strAfter_cr]
    refine str_step_lf s1 f (res ++ [10]) (k + 1) (t ++ 41 :: rest) _ _ ok1 hp1 (fun s2 ok2 hp2 => ?_)
    have := ih s2 f (res ++ [10]) false rest ok2 (fun h => by cases h) hp2 (by simp at hf; omega)
    simpa using this
  | esc k e c t v he _ ih =>
    intro s fuel res ign rest ok hign hp hf
    obtain ⟨f, rfl⟩ : ∃ f, fuel = f + 1 := ⟨fuel - 1, by simp at hf; omega⟩
    refine str_step_esc s f res (k + 1) ign e (t ++ 41 :: rest) _ _ ok (by simpa using hp) (fun s1 ok1 hp1 => ?_)
    rw [escAfter_letter f res (k + 1) e c he]
    have := ih s1 f (res ++ [c]) false rest ok1 (fun h => by cases h) hp1 (by simp at hf; omega)
    simpa using this
  | escOther k e t v h1 h2 h3 h4 _ ih =>
    intro s fuel res ign rest ok hign hp hf
    obtain ⟨f, rfl⟩ : ∃ f, fuel = f + 1 := ⟨fuel - 1, by simp at hf; omega⟩
    refine str_step_esc s f res (k + 1) ign e (t ++ 41 :: rest) _ _ ok (by simpa using hp) (fun s1 ok1 hp1 => ?_)
    rw [escAfter_other f res (k + 1) e h1 h2 h3 h4]
    have := ih s1 f (res ++ [e]) false rest ok1 (fun h => by cases h) hp1 (by simp at hf; omega)
    simpa using this
  | contLF k t v _ ih =>
    intro s fuel res ign rest ok hign hp hf
    obtain ⟨f, rfl⟩ : ∃ f, fuel = f + 1 := ⟨fuel - 1, by simp at hf; omega⟩
    refine str_step_esc s f res (k + 1) ign 10 (t ++ 41 :: rest) _ _ ok (by simpa using hp) (fun s1 ok1 hp1 => ?_)
    rw [escAfter_lf]
    exact ih s1 f res false rest ok1 (fun h => by cases h) hp1 (by simp at hf; omega)
  | contCR k t v hlf _ ih =>
    intro s fuel res ign rest ok hign hp hf
    obtain ⟨f, rfl⟩ : ∃ f, fuel = f + 1 := ⟨fuel - 1, by simp at hf; omega⟩
    refine str_step_esc s f res (k + 1) ign 13 (t ++ 41 :: rest) _ _ ok (by simpa using hp) (fun s1 ok1 hp1 => ?_)
    rw [escAfter_cr]
    exact ih s1 f res true rest ok1 (fun _ => hlf) hp1 (by simp at hf; omega)
  | contCRLF k t v _ ih =>
    intro s fuel res ign rest ok hign hp hf
    obtain ⟨f, rfl⟩ : ∃ f, fuel = f + 1 + 1 := ⟨fuel - 2, by simp at hf; omega⟩
    refine str_step_esc s (f + 1) res (k + 1) ign 13 (10 :: (t ++ 41 :: rest)) _ _ ok (by simpa using hp) (fun s1 ok1 hp1 => ?_)
    rw [escAfter_cr]
    refine str_step_lf s1 f res (k + 1) (t ++ 41 :: rest) _ _ ok1 hp1 (fun s2 ok2 hp2 => ?_)
    exact ih s2 f res false rest ok2 (fun h => by cases h) hp2 (by simp at hf; omega)
  | oct1 k d t v hd hnext _ ih =>
    intro s fuel res ign rest ok hign hp hf
    obtain ⟨f, rfl⟩ : ∃ f, fuel = f + 1 := ⟨fuel - 1, by simp at hf; omega⟩
    refine str_step_esc s f res (k + 1) ign d (t ++ 41 :: rest) _ _ ok (by simpa using hp) (fun s1 ok1 hp1 => ?_)
    rw [escAfter_oct f res (k + 1) d hd]
    obtain ⟨c, X, hcx, hc⟩ := next_not_oct t rest hnext
    rw [hcx] at hp1
    refine (readOctal_stop s1 2 (d - 48) c X ok1 hp1 hc).bind (fun s2 ok2 hp2 => ?_)
    rw [← hcx] at hp2
    have := ih s2 f (res ++ [d - 48]) false rest ok2 (fun h => by cases h) hp2 (by simp at hf; omega)
    simpa using this
  | oct2 k d1 d2 t v hd1 hd2 hnext _ ih =>
    intro s fuel res ign rest ok hign hp hf
    obtain ⟨f, rfl⟩ : ∃ f, fuel = f + 1 := ⟨fuel - 1, by simp at hf; omega⟩
    refine str_step_esc s f res (k + 1) ign d1 (d2 :: (t ++ 41 :: rest)) _ _ ok (by simpa using hp) (fun s1 ok1 hp1 => ?_)
    rw [escAfter_oct f res (k + 1) d1 hd1]
    obtain ⟨c, X, hcx, hc⟩ := next_not_oct t rest hnext
    refine Reads.bind (a := (d1 - 48) * 8 + (d2 - 48)) (r := t ++ 41 :: rest) ?_ (fun s2 ok2 hp2 => ?_)
    · refine readOctal_digit s1 1 (d1 - 48) d2 _ _ _ ok1 hp1 hd2 (fun s3 ok3 hp3 => ?_)
      rw [hcx] at hp3 ⊢
      exact readOctal_stop s3 1 _ c X ok3 hp3 hc
    · have := ih s2 f (res ++ [(d1 - 48) * 8 + (d2 - 48)]) false rest ok2 (fun h => by cases h) hp2 (by simp at hf; omega)
      simpa using this
  | oct3 k d1 d2 d3 t v hd1 hd2 hd3 _ ih =>
    intro s fuel res ign rest ok hign hp hf
    obtain ⟨f, rfl⟩ : ∃ f, fuel = f + 1 := ⟨fuel - 1, by simp at hf; omega⟩
    refine str_step_esc s f res (k + 1) ign d1 (d2 :: d3 :: (t ++ 41 :: rest)) _ _ ok (by simpa using hp) (fun s1 ok1 hp1 => ?_)
    rw [escAfter_oct f res (k + 1) d1 hd1]
    refine Reads.bind (a := ((d1 - 48) * 8 + (d2 - 48)) * 8 + (d3 - 48)) (r := t ++ 41 :: rest) ?_ (fun s2 ok2 hp2 => ?_)
    · refine readOctal_digit s1 1 (d1 - 48) d2 _ _ _ ok1 hp1 hd2 (fun s3 ok3 hp3 => ?_)
      refine readOctal_digit s3 0 _ d3 _ _ _ ok3 hp3 hd3 (fun s4 ok4 hp4 => ?_)
      exact Reads.pure' ok4 hp4
    · have := ih s2 f (res ++ [((d1 - 48) * 8 + (d2 - 48)) * 8 + (d3 - 48)]) false rest ok2 (fun h => by cases h) hp2
        (by simp at hf; omega)
      simpa using this

/-- **literal strings**: every spelling is read as the bytes it denotes; whatever follows is left -/
theorem reads_litString (s : Scanner) (sp bs rest v : List UInt8) (ok : OK s) (hsep : Sep sp) (h : SpellLitString v bs)
    (hp : pend s = sp ++ bs ++ rest) : Reads scanToken s (.str v) rest := by
  obtain ⟨body, rfl, hb⟩ := h
  have hp0 : pend s = sp ++ 40 :: (body ++ 41 :: rest) := by rw [hp]; simp
  refine reads_scanToken s sp 40 _ rest _ ok hsep hp0 (by decide) (by decide) (fun s1 ok1 hp1 => ?_)
  have e : afterPeek 40 = (do pure (.str (← readString))) := rfl
  rw [e]
  have : Reads readString s1 v rest := by
    unfold readString
    refine (reads_skipRequired s1 40 _ ok1 hp1).bind (fun s3 ok3 hp3 => ?_)
    apply Reads.getS
    have := reads_strBody 0 body v hb s3 (fuelOf s3) [] false rest ok3 (fun h => by cases h) hp3
      (by rw [fuelOf_pend, hp3]; simp; omega)
    simpa using this
  refine this.bind (fun s4 ok4 hp4 => ?_)
  exact Reads.pure' ok4 hp4

/-! ### ASCII85 strings -/

/-- the characters `!`..`u` that stand for base-85 digits -/
def isA85 (c : UInt8) : Bool := 33 ≤ c && c ≤ 117

/-- the digit a character stands for -/
def dv (c : UInt8) : Nat := (c - 33).toNat

/-- white space (bytes 0..32) -/
def WS (w : List UInt8) : Prop := ∀ c ∈ w, c ≤ 32

/-- the value of four bytes, big endian -/
def be4 (b0 b1 b2 b3 : UInt8) : Nat := b0.toNat * 16777216 + b1.toNat * 65536 + b2.toNat * 256 + b3.toNat

/-- the value of five base-85 digits -/
def v85 (c0 c1 c2 c3 c4 : UInt8) : Nat := (((dv c0 * 85 + dv c1) * 85 + dv c2) * 85 + dv c3) * 85 + dv c4

/-- complete groups between `<~` and `~>`: five digit characters (white space allowed between them)
stand for the four bytes with the same value; `z` stands for four zero bytes; white space is ignored -/
inductive A85Groups : List UInt8 → List UInt8 → Prop
  | nil : A85Groups [] []
  | ws (b : UInt8) (r v : List UInt8) : b ≤ 32 → A85Groups r v → A85Groups (b :: r) v
  | z (r v : List UInt8) : A85Groups r v → A85Groups (122 :: r) (0 :: 0 :: 0 :: 0 :: v)
  | group (c0 c1 c2 c3 c4 b0 b1 b2 b3 : UInt8) (w0 w1 w2 w3 r v : List UInt8) :
      isA85 c0 = true → isA85 c1 = true → isA85 c2 = true → isA85 c3 = true → isA85 c4 = true →
      WS w0 → WS w1 → WS w2 → WS w3 → v85 c0 c1 c2 c3 c4 = be4 b0 b1 b2 b3 → A85Groups r v →
      A85Groups (c0 :: (w0 ++ c1 :: (w1 ++ c2 :: (w2 ++ c3 :: (w3 ++ c4 :: r))))) (b0 :: b1 :: b2 :: b3 :: v)

/-- the final partial group: `n` bytes (1 ≤ n ≤ 3) are padded with zero bytes to four, encoded as five
digits, and the first `n + 1` digits are written (white space allowed between and after them) -/
inductive A85Tail : List UInt8 → List UInt8 → Prop
  | none : A85Tail [] []
  | one (c0 c1 p2 p3 p4 b0 : UInt8) (w0 w1 : List UInt8) :
      isA85 c0 = true → isA85 c1 = true → isA85 p2 = true → isA85 p3 = true → isA85 p4 = true → WS w0 → WS w1 →
      v85 c0 c1 p2 p3 p4 = be4 b0 0 0 0 → A85Tail (c0 :: (w0 ++ c1 :: w1)) [b0]
  | two (c0 c1 c2 p3 p4 b0 b1 : UInt8) (w0 w1 w2 : List UInt8) :
      isA85 c0 = true → isA85 c1 = true → isA85 c2 = true → isA85 p3 = true → isA85 p4 = true → WS w0 → WS w1 → WS w2 →
      v85 c0 c1 c2 p3 p4 = be4 b0 b1 0 0 → A85Tail (c0 :: (w0 ++ c1 :: (w1 ++ c2 :: w2))) [b0, b1]
  | three (c0 c1 c2 c3 p4 b0 b1 b2 : UInt8) (w0 w1 w2 w3 : List UInt8) :
      isA85 c0 = true → isA85 c1 = true → isA85 c2 = true → isA85 c3 = true → isA85 p4 = true →
      WS w0 → WS w1 → WS w2 → WS w3 →
      v85 c0 c1 c2 c3 p4 = be4 b0 b1 b2 0 → A85Tail (c0 :: (w0 ++ c1 :: (w1 ++ c2 :: (w2 ++ c3 :: w3)))) [b0, b1, b2]

/-- **ASCII85 string spelling**: `<~`, complete groups, an optional partial group, `~>` -/
def SpellA85 (v bs : List UInt8) : Prop :=
  ∃ g vg t vt, bs = 60 :: 126 :: (g ++ t ++ [126, 62]) ∧ A85Groups g vg ∧ A85Tail t vt ∧ v = vg ++ vt

theorem a85_facts : ∀ c : UInt8, isA85 c = true →
    (c == 126) = false ∧ ¬ (c ≤ 32) ∧ (c == 122) = false ∧ (decide (33 ≤ c) && decide (c ≤ 117)) = true ∧ (c - 33).toNat ≤ 84 := by
  apply forall_uint8; decide +kernel

theorem a85_ws_skip (w : List UInt8) : ∀ (s : Scanner) (fuel : Nat) (res : List UInt8) (pos val : Nat) (X : List UInt8)
    (out : List UInt8 × Nat × Nat) (r : List UInt8), OK s → WS w → pend s = w ++ X → w.length ≤ fuel →
    (∀ s', OK s' → pend s' = X → Reads (readA85Body (fuel - w.length) res pos val) s' out r) →
    Reads (readA85Body fuel res pos val) s out r := by
  induction w with
  | nil => intro s fuel res pos val X out r ok _ hp _ hk; exact hk s ok (by simpa using hp)
  | cons c w ih =>
    intro s fuel res pos val X out r ok hw hp hf hk
    obtain ⟨f, rfl⟩ : ∃ f, fuel = f + 1 := ⟨fuel - 1, by simp at hf; omega⟩
    unfold readA85Body
    rw [List.cons_append] at hp
    refine (reads_next s c _ ok hp).bind (fun s1 ok1 hp1 => ?_)
    have hc : c ≤ 32 := hw c (by simp)
    have h126 : (c == 126) = false := by simpa using (ws_facts c hc).2.2.1
    simp only [h126, Bool.false_eq_true, if_false, hc, if_true]
    refine ih s1 f res pos val X out r ok1 (fun x hx => hw x (by simp [hx])) hp1 (by simp at hf; omega) ?_
    intro s2 ok2 hp2
    have e : f + 1 - (c :: w).length = f - w.length := by simp
    rw [e] at hk
    exact hk s2 ok2 hp2

theorem a85_digit (s : Scanner) (fuel : Nat) (res : List UInt8) (pos val : Nat) (c : UInt8) (X : List UInt8)
    (out : List UInt8 × Nat × Nat) (r : List UInt8) (ok : OK s) (hc : isA85 c = true) (hp : pend s = c :: X)
    (hpos : pos + 1 ≠ 5) (hf : 1 ≤ fuel)
    (hk : ∀ s', OK s' → pend s' = X → Reads (readA85Body (fuel - 1) res (pos + 1) (val * 85 + dv c)) s' out r) :
    Reads (readA85Body fuel res pos val) s out r := by
  obtain ⟨f, rfl⟩ : ∃ f, fuel = f + 1 := ⟨fuel - 1, by omega⟩
  unfold readA85Body
  refine (reads_next s c _ ok hp).bind (fun s1 ok1 hp1 => ?_)
  obtain ⟨a1, a2, a3, a4, _⟩ := a85_facts c hc
  have e5 : (pos + 1 == 5) = false := by simpa using hpos
  simp only [a1, a2, a3, a4, e5, Bool.false_and, Bool.false_eq_true, if_false, if_true]
  exact hk s1 ok1 hp1

theorem a85_digit5 (s : Scanner) (fuel : Nat) (res : List UInt8) (val : Nat) (c : UInt8) (X : List UInt8)
    (out : List UInt8 × Nat × Nat) (r : List UInt8) (ok : OK s) (hc : isA85 c = true) (hp : pend s = c :: X)
    (hv : val * 85 + dv c ≤ 4294967295) (hf : 1 ≤ fuel)
    (hk : ∀ s', OK s' → pend s' = X → Reads (readA85Body (fuel - 1) (res ++ be32 (val * 85 + dv c)) 0 0) s' out r) :
    Reads (readA85Body fuel res 4 val) s out r := by
  obtain ⟨f, rfl⟩ : ∃ f, fuel = f + 1 := ⟨fuel - 1, by omega⟩
  unfold readA85Body
  refine (reads_next s c _ ok hp).bind (fun s1 ok1 hp1 => ?_)
  obtain ⟨a1, a2, a3, a4, _⟩ := a85_facts c hc
  have hv' : ¬ (val * 85 + (c - 33).toNat > 4294967295) := by unfold dv at hv; omega
  simp only [a1, a2, a3, a4, Bool.false_and, Bool.false_eq_true, if_false, if_true, hv', beq_self_eq_true]
  exact hk s1 ok1 hp1

theorem a85_z (s : Scanner) (fuel : Nat) (res : List UInt8) (val : Nat) (X : List UInt8)
    (out : List UInt8 × Nat × Nat) (r : List UInt8) (ok : OK s) (hp : pend s = 122 :: X) (hf : 1 ≤ fuel)
    (hk : ∀ s', OK s' → pend s' = X → Reads (readA85Body (fuel - 1) (res ++ [0, 0, 0, 0]) 0 val) s' out r) :
    Reads (readA85Body fuel res 0 val) s out r := by
  obtain ⟨f, rfl⟩ : ∃ f, fuel = f + 1 := ⟨fuel - 1, by omega⟩
  unfold readA85Body
  refine (reads_next s 122 _ ok hp).bind (fun s1 ok1 hp1 => ?_)
  have e1 : ((122 : UInt8) == 126) = false := by decide
  have e2 : ¬ ((122 : UInt8) ≤ 32) := by decide
  simp only [e1, e2, Bool.false_eq_true, if_false, beq_self_eq_true, Bool.and_self, if_true]
  exact hk s1 ok1 hp1

theorem a85_end (s : Scanner) (fuel : Nat) (res : List UInt8) (pos val : Nat) (X : List UInt8) (ok : OK s)
    (hp : pend s = 126 :: X) (hf : 1 ≤ fuel) : Reads (readA85Body fuel res pos val) s (res, pos, val) X := by
  obtain ⟨f, rfl⟩ : ∃ f, fuel = f + 1 := ⟨fuel - 1, by omega⟩
  unfold readA85Body
  refine (reads_next s 126 _ ok hp).bind (fun s1 ok1 hp1 => ?_)
  simp only [beq_self_eq_true, if_true]
  exact Reads.pure' ok1 hp1

theorem be32_be4 (b0 b1 b2 b3 : UInt8) : be32 (be4 b0 b1 b2 b3) = [b0, b1, b2, b3] := by
  have h0 := b0.toNat_lt; have h1 := b1.toNat_lt; have h2 := b2.toNat_lt; have h3 := b3.toNat_lt
  unfold be32 be4
  have e0 : (b0.toNat * 16777216 + b1.toNat * 65536 + b2.toNat * 256 + b3.toNat) / 16777216 % 256 = b0.toNat := by omega
  have e1 : (b0.toNat * 16777216 + b1.toNat * 65536 + b2.toNat * 256 + b3.toNat) / 65536 % 256 = b1.toNat := by omega
  have e2 : (b0.toNat * 16777216 + b1.toNat * 65536 + b2.toNat * 256 + b3.toNat) / 256 % 256 = b2.toNat := by omega
  have e3 : (b0.toNat * 16777216 + b1.toNat * 65536 + b2.toNat * 256 + b3.toNat) % 256 = b3.toNat := by omega
  rw [e0, e1, e2, e3]
  simp

theorem be4_le (b0 b1 b2 b3 : UInt8) : be4 b0 b1 b2 b3 ≤ 4294967295 := by
  have h0 := b0.toNat_lt; have h1 := b1.toNat_lt; have h2 := b2.toNat_lt; have h3 := b3.toNat_lt
  unfold be4; omega

theorem reads_a85Groups (g v : List UInt8) (h : A85Groups g v) :
    ∀ (s : Scanner) (fuel : Nat) (res X : List UInt8) (out : List UInt8 × Nat × Nat) (r : List UInt8),
    OK s → pend s = g ++ X → g.length ≤ fuel →
    (∀ s', OK s' → pend s' = X → Reads (readA85Body (fuel - g.length) (res ++ v) 0 0) s' out r) →
    Reads (readA85Body fuel res 0 0) s out r := by
  induction h with
  | nil => intro s fuel res X out r ok hp _ hk; simpa using hk s ok (by simpa using hp)
  | ws b t v hb _ ih =>
    intro s fuel res X out r ok hp hf hk
    refine a85_ws_skip [b] s fuel res 0 0 (t ++ X) out r ok (by intro c hc; simp at hc; subst hc; exact hb)
      (by simpa using hp) (by simp at hf ⊢; omega) (fun s1 ok1 hp1 => ?_)
    refine ih s1 _ res X out r ok1 hp1 (by simp at hf ⊢; omega) (fun s2 ok2 hp2 => ?_)
    have e : fuel - [b].length - t.length = fuel - (b :: t).length := by simp; omega
    rw [e]; exact hk s2 ok2 hp2
  | z t v _ ih =>
    intro s fuel res X out r ok hp hf hk
    refine a85_z s fuel res 0 (t ++ X) out r ok (by simpa using hp) (by simp at hf; omega) (fun s1 ok1 hp1 => ?_)
    refine ih s1 _ (res ++ [0, 0, 0, 0]) X out r ok1 hp1 (by simp at hf ⊢; omega) (fun s2 ok2 hp2 => ?_)
    have e : fuel - 1 - t.length = fuel - (122 :: t).length := by simp; omega
    have e' : res ++ [0, 0, 0, 0] ++ v = res ++ 0 :: 0 :: 0 :: 0 :: v := by simp
    rw [e, e']; exact hk s2 ok2 hp2
  | group c0 c1 c2 c3 c4 b0 b1 b2 b3 w0 w1 w2 w3 t v h0 h1 h2 h3 h4 hw0 hw1 hw2 hw3 hv _ ih =>
    intro s fuel res X out r ok hp hf hk
    simp only [List.length_cons, List.length_append] at hf
    simp only [List.cons_append, List.append_assoc] at hp
    refine a85_digit s fuel res 0 0 c0 _ out r ok h0 hp (by decide) (by omega) (fun s1 ok1 hp1 => ?_)
    refine a85_ws_skip w0 s1 _ res 1 _ _ out r ok1 hw0 hp1 (by omega) (fun s2 ok2 hp2 => ?_)
    refine a85_digit s2 _ res 1 _ c1 _ out r ok2 h1 hp2 (by decide) (by omega) (fun s3 ok3 hp3 => ?_)
    refine a85_ws_skip w1 s3 _ res 2 _ _ out r ok3 hw1 hp3 (by omega) (fun s4 ok4 hp4 => ?_)
    refine a85_digit s4 _ res 2 _ c2 _ out r ok4 h2 hp4 (by decide) (by omega) (fun s5 ok5 hp5 => ?_)
    refine a85_ws_skip w2 s5 _ res 3 _ _ out r ok5 hw2 hp5 (by omega) (fun s6 ok6 hp6 => ?_)
    refine a85_digit s6 _ res 3 _ c3 _ out r ok6 h3 hp6 (by decide) (by omega) (fun s7 ok7 hp7 => ?_)
    refine a85_ws_skip w3 s7 _ res 4 _ _ out r ok7 hw3 hp7 (by omega) (fun s8 ok8 hp8 => ?_)
    have hval : (((0 * 85 + dv c0) * 85 + dv c1) * 85 + dv c2) * 85 + dv c3 = ((dv c0 * 85 + dv c1) * 85 + dv c2) * 85 + dv c3 := by
      omega
    have hv' : ((((0 * 85 + dv c0) * 85 + dv c1) * 85 + dv c2) * 85 + dv c3) * 85 + dv c4 = be4 b0 b1 b2 b3 := by
      rw [← hv]; unfold v85; omega
    refine a85_digit5 s8 _ res _ c4 _ out r ok8 h4 hp8 (by rw [hv']; exact be4_le _ _ _ _) (by omega) (fun s9 ok9 hp9 => ?_)
    rw [hv', be32_be4]
    refine ih s9 _ (res ++ [b0, b1, b2, b3]) X out r ok9 hp9 (by omega) (fun s10 ok10 hp10 => ?_)
    have e' : res ++ [b0, b1, b2, b3] ++ v = res ++ b0 :: b1 :: b2 :: b3 :: v := by simp
    have e : fuel - 1 - w0.length - 1 - w1.length - 1 - w2.length - 1 - w3.length - 1 - t.length =
        fuel - (c0 :: (w0 ++ c1 :: (w1 ++ c2 :: (w2 ++ c3 :: (w3 ++ c4 :: t))))).length := by
      simp only [List.length_cons, List.length_append]; omega
    rw [e, e'] at *
    exact hk s10 ok10 hp10

/-- the end of `ReadBase85String`: the partial group, then `>` -/
def a85Fin (p : List UInt8 × Nat × Nat) : SM (List UInt8) := do
  let res ←
    (if p.2.1 == 0 then pure p.1
     else if p.2.1 == 1 then fail syntaxErr
     else
       let v := padA85 (5 - p.2.1) p.2.2
       if v > 4294967295 then fail syntaxErr
       else pure (p.1 ++ (be32 v).take (p.2.1 - 1)))
  skipRequiredByte 62
  pure res

theorem readBase85String_eq : readBase85String = (do
    skipRequiredByte 60
    skipRequiredByte 126
    let s ← getS
    let p ← readA85Body (fuelOf s) [] 0 0
    a85Fin p) := rfl

theorem a85Fin_ok (s : Scanner) (res : List UInt8) (pos val : Nat) (bytes X : List UInt8) (ok : OK s) (hp : pend s = 62 :: X)
    (v : Nat) (hpad : padA85 (5 - pos) val = v)
    (hpos : 2 ≤ pos) (hv : v ≤ 4294967295) (hb : (be32 v).take (pos - 1) = bytes) :
    Reads (a85Fin (res, pos, val)) s (res ++ bytes) X := by
  subst hpad
  unfold a85Fin
  have e0 : (pos == 0) = false := by simp; omega
  have e1 : (pos == 1) = false := by simp; omega
  have e2 : ¬ (padA85 (5 - pos) val > 4294967295) := by omega
  simp only [e0, e1, e2, Bool.false_eq_true, if_false, hb]
  refine (Reads.pure' (a := res ++ bytes) ok hp).bind (fun s1 ok1 hp1 => ?_)
  refine (reads_skipRequired s1 62 X ok1 hp1).bind (fun s2 ok2 hp2 => ?_)
  exact Reads.pure' ok2 hp2

theorem a85Fin_zero (s : Scanner) (res X : List UInt8) (val : Nat) (ok : OK s) (hp : pend s = 62 :: X) :
    Reads (a85Fin (res, 0, val)) s res X := by
  unfold a85Fin
  simp only [beq_self_eq_true, if_true]
  refine (Reads.pure' (a := res) ok hp).bind (fun s1 ok1 hp1 => ?_)
  refine (reads_skipRequired s1 62 X ok1 hp1).bind (fun s2 ok2 hp2 => ?_)
  exact Reads.pure' ok2 hp2

theorem dv_le (c : UInt8) (h : isA85 c = true) : dv c ≤ 84 := (a85_facts c h).2.2.2.2

set_option maxRecDepth 4000 in
theorem reads_a85Tail (t vt : List UInt8) (h : A85Tail t vt) : ∃ pos val,
    (∀ (s : Scanner) (fuel : Nat) (res X : List UInt8), OK s → pend s = t ++ 126 :: 62 :: X → t.length + 1 ≤ fuel →
      Reads (readA85Body fuel res 0 0) s (res, pos, val) (62 :: X)) ∧
    (∀ (s' : Scanner) (res X : List UInt8), OK s' → pend s' = 62 :: X → Reads (a85Fin (res, pos, val)) s' (res ++ vt) X) := by
  cases h with
  | none =>
    refine ⟨0, 0, fun s fuel res X ok hp hf => a85_end s fuel res 0 0 _ ok (by simpa using hp) (by omega),
      fun s1 res X ok1 hp1 => ?_⟩
    simpa using a85Fin_zero s1 res X 0 ok1 hp1
  | one c0 c1 p2 p3 p4 b0 w0 w1 h0 h1 h2 h3 h4 hw0 hw1 hv =>
    refine ⟨2, (0 * 85 + dv c0) * 85 + dv c1, fun s fuel res X ok hp hf => ?_, fun s' res X ok' hp' => ?_⟩
    · simp only [List.length_cons, List.length_append] at hf
      simp only [List.cons_append, List.append_assoc] at hp
      refine a85_digit s fuel res 0 0 c0 _ _ _ ok h0 hp (by decide) (by omega) (fun s1 ok1 hp1 => ?_)
      refine a85_ws_skip w0 s1 _ res 1 _ _ _ _ ok1 hw0 hp1 (by omega) (fun s2 ok2 hp2 => ?_)
      refine a85_digit s2 _ res 1 _ c1 _ _ _ ok2 h1 hp2 (by decide) (by omega) (fun s3 ok3 hp3 => ?_)
      refine a85_ws_skip w1 s3 _ res 2 _ _ _ _ ok3 hw1 hp3 (by omega) (fun s4 ok4 hp4 => ?_)
      exact a85_end s4 _ res 2 _ _ ok4 hp4 (by omega)
    · have d0 := dv_le c0 h0; have d1 := dv_le c1 h1; have d2 := dv_le p2 h2; have d3 := dv_le p3 h3; have d4 := dv_le p4 h4
      have hb := b0.toNat_lt
      unfold v85 be4 at hv
      have z0 : (0 : UInt8).toNat = 0 := rfl
      rw [z0] at hv
      obtain ⟨v, hvd⟩ : ∃ v, v = ((((0 * 85 + dv c0) * 85 + dv c1) * 85 + 84) * 85 + 84) * 85 + 84 := ⟨_, rfl⟩
      have lo : b0.toNat * 16777216 ≤ v := by omega
      have hi : v < b0.toNat * 16777216 + 16777216 := by omega
      have q0 : v / 16777216 = b0.toNat := by omega
      refine a85Fin_ok s' res 2 _ [b0] X ok' hp' v (by rw [hvd]; rfl) (by omega) (by omega) ?_
      simp [be32, q0, Nat.mod_eq_of_lt hb]
  | two c0 c1 c2 p3 p4 b0 b1 w0 w1 w2 h0 h1 h2 h3 h4 hw0 hw1 hw2 hv =>
    refine ⟨3, ((0 * 85 + dv c0) * 85 + dv c1) * 85 + dv c2, fun s fuel res X ok hp hf => ?_, fun s' res X ok' hp' => ?_⟩
    · simp only [List.length_cons, List.length_append] at hf
      simp only [List.cons_append, List.append_assoc] at hp
      refine a85_digit s fuel res 0 0 c0 _ _ _ ok h0 hp (by decide) (by omega) (fun s1 ok1 hp1 => ?_)
      refine a85_ws_skip w0 s1 _ res 1 _ _ _ _ ok1 hw0 hp1 (by omega) (fun s2 ok2 hp2 => ?_)
      refine a85_digit s2 _ res 1 _ c1 _ _ _ ok2 h1 hp2 (by decide) (by omega) (fun s3 ok3 hp3 => ?_)
      refine a85_ws_skip w1 s3 _ res 2 _ _ _ _ ok3 hw1 hp3 (by omega) (fun s4 ok4 hp4 => ?_)
      refine a85_digit s4 _ res 2 _ c2 _ _ _ ok4 h2 hp4 (by decide) (by omega) (fun s5 ok5 hp5 => ?_)
      refine a85_ws_skip w2 s5 _ res 3 _ _ _ _ ok5 hw2 hp5 (by omega) (fun s6 ok6 hp6 => ?_)
      exact a85_end s6 _ res 3 _ _ ok6 hp6 (by omega)
    · have d0 := dv_le c0 h0; have d1 := dv_le c1 h1; have d2 := dv_le c2 h2; have d3 := dv_le p3 h3; have d4 := dv_le p4 h4
      have hb := b0.toNat_lt; have hb1 := b1.toNat_lt
      unfold v85 be4 at hv
      have z0 : (0 : UInt8).toNat = 0 := rfl
      rw [z0] at hv
      obtain ⟨v, hvd⟩ : ∃ v, v = ((((0 * 85 + dv c0) * 85 + dv c1) * 85 + dv c2) * 85 + 84) * 85 + 84 := ⟨_, rfl⟩
      have lo : (b0.toNat * 256 + b1.toNat) * 65536 ≤ v := by omega
      have hi : v < (b0.toNat * 256 + b1.toNat) * 65536 + 65536 := by omega
      have q1 : v / 65536 = b0.toNat * 256 + b1.toNat := by omega
      have q0 : v / 16777216 = b0.toNat := by omega
      have m1 : (b0.toNat * 256 + b1.toNat) % 256 = b1.toNat := by omega
      refine a85Fin_ok s' res 3 _ [b0, b1] X ok' hp' v (by rw [hvd]; rfl) (by omega) (by omega) ?_
      simp [be32, q0, q1, m1, Nat.mod_eq_of_lt hb]
  | three c0 c1 c2 c3 p4 b0 b1 b2 w0 w1 w2 w3 h0 h1 h2 h3 h4 hw0 hw1 hw2 hw3 hv =>
    refine ⟨4, (((0 * 85 + dv c0) * 85 + dv c1) * 85 + dv c2) * 85 + dv c3, fun s fuel res X ok hp hf => ?_, fun s' res X ok' hp' => ?_⟩
    · simp only [List.length_cons, List.length_append] at hf
      simp only [List.cons_append, List.append_assoc] at hp
      refine a85_digit s fuel res 0 0 c0 _ _ _ ok h0 hp (by decide) (by omega) (fun s1 ok1 hp1 => ?_)
      refine a85_ws_skip w0 s1 _ res 1 _ _ _ _ ok1 hw0 hp1 (by omega) (fun s2 ok2 hp2 => ?_)
      refine a85_digit s2 _ res 1 _ c1 _ _ _ ok2 h1 hp2 (by decide) (by omega) (fun s3 ok3 hp3 => ?_)
      refine a85_ws_skip w1 s3 _ res 2 _ _ _ _ ok3 hw1 hp3 (by omega) (fun s4 ok4 hp4 => ?_)
      refine a85_digit s4 _ res 2 _ c2 _ _ _ ok4 h2 hp4 (by decide) (by omega) (fun s5 ok5 hp5 => ?_)
      refine a85_ws_skip w2 s5 _ res 3 _ _ _ _ ok5 hw2 hp5 (by omega) (fun s6 ok6 hp6 => ?_)
      refine a85_digit s6 _ res 3 _ c3 _ _ _ ok6 h3 hp6 (by decide) (by omega) (fun s7 ok7 hp7 => ?_)
      refine a85_ws_skip w3 s7 _ res 4 _ _ _ _ ok7 hw3 hp7 (by omega) (fun s8 ok8 hp8 => ?_)
      exact a85_end s8 _ res 4 _ _ ok8 hp8 (by omega)
    · have d0 := dv_le c0 h0; have d1 := dv_le c1 h1; have d2 := dv_le c2 h2; have d3 := dv_le c3 h3; have d4 := dv_le p4 h4
      have hb := b0.toNat_lt; have hb1 := b1.toNat_lt; have hb2 := b2.toNat_lt
      unfold v85 be4 at hv
      have z0 : (0 : UInt8).toNat = 0 := rfl
      rw [z0] at hv
      obtain ⟨v, hvd⟩ : ∃ v, v = ((((0 * 85 + dv c0) * 85 + dv c1) * 85 + dv c2) * 85 + dv c3) * 85 + 84 := ⟨_, rfl⟩
      have lo : ((b0.toNat * 256 + b1.toNat) * 256 + b2.toNat) * 256 ≤ v := by omega
      have hi : v < ((b0.toNat * 256 + b1.toNat) * 256 + b2.toNat) * 256 + 256 := by omega
      have q2 : v / 256 = (b0.toNat * 256 + b1.toNat) * 256 + b2.toNat := by omega
      have q1 : v / 65536 = b0.toNat * 256 + b1.toNat := by omega
      have q0 : v / 16777216 = b0.toNat := by omega
      have m1 : (b0.toNat * 256 + b1.toNat) % 256 = b1.toNat := by omega
      have m2 : ((b0.toNat * 256 + b1.toNat) * 256 + b2.toNat) % 256 = b2.toNat := by omega
      refine a85Fin_ok s' res 4 _ [b0, b1, b2] X ok' hp' v (by rw [hvd]; rfl) (by omega) (by omega) ?_
      simp [be32, q0, q1, q2, m1, m2, Nat.mod_eq_of_lt hb]

/-- **ASCII85 strings**: every spelling is read as the bytes it denotes; whatever follows is left -/
theorem reads_a85 (s : Scanner) (sp bs rest v : List UInt8) (ok : OK s) (hsep : Sep sp) (h : SpellA85 v bs)
    (hp : pend s = sp ++ bs ++ rest) : Reads scanToken s (.str v) rest := by
  obtain ⟨g, vg, t, vt, rfl, hg, ht, rfl⟩ := h
  have hp0 : pend s = sp ++ 60 :: 126 :: (g ++ (t ++ 126 :: 62 :: rest)) := by rw [hp]; simp
  refine reads_scanToken s sp 60 _ rest _ ok hsep hp0 (by decide) (by decide) (fun s1 ok1 hp1 => ?_)
  have e : afterPeek 60 = (do
    let bb ← peekN 2 3
    if bb == [60, 60] then do skipByte; skipByte; pure (.obj (.op "<<"))
    else if bb == [60, 126] then do pure (.str (← readBase85String))
    else do pure (.str (← readHexString))) := rfl
  rw [e]
  refine (reads_peekN2 s1 60 126 _ ok1 hp1).bind (fun s2 ok2 hp2 => ?_)
  have e1 : (([60, 126] : List UInt8) == [60, 60]) = false := by decide
  simp only [e1, Bool.false_eq_true, if_false, beq_self_eq_true, if_true]
  have : Reads readBase85String s2 (vg ++ vt) rest := by
    rw [readBase85String_eq]
    refine (reads_skipRequired s2 60 _ ok2 hp2).bind (fun s3 ok3 hp3 => ?_)
    refine (reads_skipRequired s3 126 _ ok3 hp3).bind (fun s4 ok4 hp4 => ?_)
    apply Reads.getS
    have hfu : fuelOf s4 = g.length + (t.length + 1) + (rest.length + 9) := by
      rw [fuelOf_pend, hp4]; simp; omega
    obtain ⟨pos, val, htail, hfin⟩ := reads_a85Tail t vt ht
    refine Reads.bind (a := (vg, pos, val)) (r := 62 :: rest) ?_ (fun s' ok' hp' => hfin s' vg rest ok' hp')
    refine reads_a85Groups g vg hg s4 (fuelOf s4) [] _ _ _ ok4 hp4 (by omega) (fun s5 ok5 hp5 => ?_)
    exact htail s5 _ ([] ++ vg) rest ok5 hp5 (by omega)
  refine this.bind (fun s5 ok5 hp5 => ?_)
  exact Reads.pure' ok5 hp5

/-! ### numbers: helpers for the number parser -/

theorem takeWhile_digits (ds rest : List UInt8) (h : ds.all isDigit = true) (hr : ∀ c t, rest = c :: t → isDigit c = false) :
    (ds ++ rest).takeWhile isDigit = ds ∧ (ds ++ rest).dropWhile isDigit = rest := by
  induction ds with
  | nil =>
    cases rest with
    | nil => exact ⟨rfl, rfl⟩
    | cons c t => simp [hr c t rfl]
  | cons d ds ih =>
    have hd : isDigit d = true ∧ ds.all isDigit = true := by simpa using h
    obtain ⟨i1, i2⟩ := ih hd.2
    simp [hd.1, i1, i2]

/-- `parseDecInt` on text without a sign -/
theorem parseDecInt_nosign (b : UInt8) (t : List UInt8) (h43 : b ≠ 43) (h45 : b ≠ 45) (hnd : (b :: t).all isDigit = false) :
    parseDecInt (b :: t) = none := by
  unfold parseDecInt
  split
  rename_i x neg ds h
  split at h
  · rename_i h'; injection h' with h' _; exact absurd h' h43
  · rename_i h'; injection h' with h' _; exact absurd h' h45
  · injection h with e1 e2
    subst e1 e2
    simp only [hnd, Bool.not_false, Bool.or_true, if_true]

/-- an optional sign -/
def signSplit (bs : List UInt8) : Bool × List UInt8 :=
  match bs with
  | 43 :: r => (false, r)
  | 45 :: r => (true, r)
  | r => (false, r)

/-- an optional dot and fraction digits -/
def dotSplit (r : List UInt8) : List UInt8 × List UInt8 × Bool :=
  match r with
  | 46 :: r' => (r'.takeWhile isDigit, r'.dropWhile isDigit, true)
  | _ => ([], r, false)

/-- an optional exponent, up to the end of the token -/
def expPart (neg : Bool) (ip fp : List UInt8) (r : List UInt8) : Option (Bool × List UInt8 × List UInt8 × Int) :=
  match r with
  | [] => some (neg, ip, fp, 0)
  | e :: r' =>
    if e == 101 || e == 69 then
      let p := signSplit r'
      if p.2.isEmpty || !p.2.all isDigit then none
      else
        let ev : Int := digitsVal p.2
        some (neg, ip, fp, if p.1 then -ev else ev)
    else none

/-- the part of `splitReal` after the sign -/
def realBody (neg : Bool) (r : List UInt8) : Option (Bool × List UInt8 × List UInt8 × Int) :=
  let ip := r.takeWhile isDigit
  let q := dotSplit (r.dropWhile isDigit)
  if ip.isEmpty && !(q.2.2 && !q.1.isEmpty) then none
  else expPart neg ip q.1 q.2.1

/-- the part of `parseDecInt` after the sign -/
def decBody (neg : Bool) (ds : List UInt8) : Option Int :=
  if ds.isEmpty || !ds.all isDigit then none
  else
    let v : Int := digitsVal ds
    let v := if neg then -v else v
    if minInt64 ≤ v ∧ v ≤ maxInt64 then some v else none

theorem parseDecInt_plus (r : List UInt8) : parseDecInt (43 :: r) = decBody false r := rfl
theorem parseDecInt_minus (r : List UInt8) : parseDecInt (45 :: r) = decBody true r := rfl
theorem parseDecInt_other (b : UInt8) (t : List UInt8) (h43 : b ≠ 43) (h45 : b ≠ 45) :
    parseDecInt (b :: t) = decBody false (b :: t) := by
  unfold parseDecInt
  split
  rename_i x neg ds h
  split at h
  · rename_i h'; injection h' with h' _; exact absurd h' h43
  · rename_i h'; injection h' with h' _; exact absurd h' h45
  · injection h with e1 e2
    subst e1 e2
    rfl

theorem signSplit_other (b : UInt8) (t : List UInt8) (h43 : b ≠ 43) (h45 : b ≠ 45) : signSplit (b :: t) = (false, b :: t) := by
  unfold signSplit
  split
  · rename_i h'; injection h' with h' _; exact absurd h' h43
  · rename_i h'; injection h' with h' _; exact absurd h' h45
  · rfl

theorem dotSplit_other (r : List UInt8) (h : ∀ t, r ≠ 46 :: t) : dotSplit r = ([], r, false) := by
  unfold dotSplit
  split
  · exact absurd rfl (h _)
  · rfl

theorem splitReal_plus (r : List UInt8) : splitReal (43 :: r) = realBody false r := rfl
theorem splitReal_minus (r : List UInt8) : splitReal (45 :: r) = realBody true r := rfl
theorem splitReal_nosign (b : UInt8) (t : List UInt8) (h43 : b ≠ 43) (h45 : b ≠ 45) :
    splitReal (b :: t) = realBody false (b :: t) := by
  unfold splitReal
  split
  rename_i x neg ds h
  split at h
  · rename_i h'; injection h' with h' _; exact absurd h' h43
  · rename_i h'; injection h' with h' _; exact absurd h' h45
  · injection h with e1 e2
    subst e1 e2
    rfl
theorem splitReal_nil : splitReal [] = realBody false [] := rfl

/-! ### radix numbers -/

/-- the value of the digits `ds` in base `base` (`radixDigit`: `0-9`, `a-z`, `A-Z` stand for 0..35) -/
def radixVal (base : Nat) (ds : List UInt8) : Nat := ds.foldl (fun v d => v * base + (radixDigit d).getD 0) 0

/-- **radix number spelling** `base#digits`: one or two decimal digits giving a base from 2 to 36, `#`,
one or more digits valid for the base (letters of either case), the value at most `maxInt64` -/
def SpellRadix (n : Int) (bs : List UInt8) : Prop :=
  ∃ bd ds, bs = bd ++ 35 :: ds ∧ bd.all isDigit = true ∧ (bd.length = 1 ∨ bd.length = 2) ∧
    2 ≤ digitsVal bd ∧ digitsVal bd ≤ 36 ∧ ds ≠ [] ∧ (∀ d ∈ ds, ∃ x, radixDigit d = some x ∧ x < digitsVal bd) ∧
    n = (radixVal (digitsVal bd) ds : Int) ∧ n ≤ maxInt64

theorem radix_fold (base : Nat) (f : Option Nat → UInt8 → Option Nat)
    (hf : ∀ (acc : Nat) (d : UInt8) (x : Nat), radixDigit d = some x → x < base → f (some acc) d = some (acc * base + x))
    (ds : List UInt8) (h : ∀ d ∈ ds, ∃ x, radixDigit d = some x ∧ x < base) : ∀ acc : Nat,
    ds.foldl f (some acc) = some (ds.foldl (fun v d => v * base + (radixDigit d).getD 0) acc) := by
  induction ds with
  | nil => intro acc; rfl
  | cons d ds ih =>
    intro acc
    obtain ⟨x, hx, hlt⟩ := h d (by simp)
    simp only [List.foldl_cons, hf acc d x hx hlt, hx, Option.getD_some]
    exact ih (fun d' hd' => h d' (by simp [hd'])) _

theorem radixdigit_regular : ∀ d : UInt8, (radixDigit d).isSome = true → isRegular d = true := by
  apply forall_uint8; decide +kernel

theorem parseRadix_spell (n : Int) (bs : List UInt8) (h : SpellRadix n bs) : parseRadix bs = some n := by
  obtain ⟨bd, ds, rfl, hbd, hlen, h2, h36, hne, hds, hn, hmax⟩ := h
  obtain ⟨t1, t2⟩ := takeWhile_digits bd (35 :: ds) hbd (fun c t e => by injection e with e _; subst e; decide)
  unfold parseRadix
  simp only [t1, t2]
  have c1 : (decide (bd.length < 1) || decide (bd.length > 2) || ds.isEmpty) = false := by
    have : ds.isEmpty = false := by cases ds with | nil => exact absurd rfl hne | cons _ _ => rfl
    rcases hlen with h | h <;> simp [h, this]
  have c2 : (decide (digitsVal bd < 2) || decide (digitsVal bd > 36)) = false := by
    simp; omega
  simp only [c1, c2, Bool.false_eq_true, if_false]
  generalize hf : (fun (acc : Option Nat) (b : UInt8) =>
      match acc, radixDigit b with
      | some n, some d => if d < digitsVal bd then some (n * digitsVal bd + d) else none
      | _, _ => none) = f
  have hfp : ∀ (acc : Nat) (d : UInt8) (x : Nat), radixDigit d = some x → x < digitsVal bd →
      f (some acc) d = some (acc * digitsVal bd + x) := by
    intro acc d x hx hlt
    subst hf
    simp [hx, hlt]
  rw [radix_fold (digitsVal bd) f hfp ds hds 0]
  have : ((List.foldl (fun v d => v * digitsVal bd + (radixDigit d).getD 0) 0 ds : Nat) : Int) = n := by
    rw [hn]; rfl
  simp only [this, hmax, if_true]

theorem spellRadix_shape (n : Int) (bs : List UInt8) (h : SpellRadix n bs) :
    ∃ b t, bs = b :: t ∧ isRegular b = true ∧ t.all isRegular = true ∧ b ≠ 43 ∧ b ≠ 45 ∧ (b :: t).all isDigit = false ∧
      realBody false (b :: t) = none := by
  obtain ⟨bd, ds, rfl, hbd, hlen, h2, h36, hne, hds, hn, hmax⟩ := h
  have hreg : (bd ++ 35 :: ds).all isRegular = true := by
    simp only [List.all_append, List.all_cons, Bool.and_eq_true]
    refine ⟨all_digit_regular bd hbd, by decide, ?_⟩
    simp only [List.all_eq_true]
    intro d hd
    obtain ⟨x, hx, _⟩ := hds d hd
    exact radixdigit_regular d (by rw [hx]; rfl)
  have hnd : (bd ++ 35 :: ds).all isDigit = false := by
    simp only [List.all_append, List.all_cons]
    have : isDigit 35 = false := by decide
    simp [this]
  obtain ⟨t1, t2⟩ := takeWhile_digits bd (35 :: ds) hbd (fun c t e => by injection e with e _; subst e; decide)
  have hrb : realBody false (bd ++ 35 :: ds) = none := by
    unfold realBody
    simp only [t1, t2]
    have : bd.isEmpty = false := by
      cases bd with
      | nil => rcases hlen with h | h <;> simp at h
      | cons _ _ => rfl
    rw [dotSplit_other (35 :: ds) (by intro t e; injection e with e _; exact absurd e (by decide))]
    simp [this, expPart]
  cases bd with
  | nil => rcases hlen with h | h <;> simp at h
  | cons b bd' =>
    have hb : isDigit b = true := by simp at hbd; exact hbd.1
    obtain ⟨n43, n45, _⟩ := digit_not_sign b hb
    have hreg' : isRegular b = true ∧ (bd' ++ 35 :: ds).all isRegular = true := by simpa using hreg
    exact ⟨b, bd' ++ 35 :: ds, rfl, hreg'.1, hreg'.2, n43, n45, hnd, hrb⟩

/-- **radix numbers**: every spelling is read as its value -/
theorem reads_radix (s : Scanner) (sp bs rest : List UInt8) (n : Int) (ok : OK s) (hsep : Sep sp) (h : SpellRadix n bs)
    (hd : Delimited rest) (hp : pend s = sp ++ bs ++ rest) : Reads scanToken s (.obj (.int n)) rest := by
  obtain ⟨b, t, rfl, hb, ht, n43, n45, hnd, hrb⟩ := spellRadix_shape n bs h
  have := reads_regularRun s sp b t rest ok hsep hb ht hd hp
  have e : regularTok (b :: t) = .obj (.int n) := by
    unfold regularTok parseNumber
    rw [parseDecInt_nosign b t n43 n45 hnd, splitReal_nosign b t n43 n45, hrb, parseRadix_spell n _ h]
  rwa [e] at this

/-! ### real numbers -/

/-- an optional sign and what it means -/
def SpellSign (neg : Bool) (sign : List UInt8) : Prop :=
  (sign = [] ∧ neg = false) ∨ (sign = [43] ∧ neg = false) ∨ (sign = [45] ∧ neg = true)

/-- an optional exponent part: `e` or `E`, an optional sign, one or more digits -/
def SpellExp (e : Int) (ex : List UInt8) : Prop :=
  (ex = [] ∧ e = 0) ∨
  ∃ (ec : UInt8) (esign ed : List UInt8) (eneg : Bool), ex = ec :: (esign ++ ed) ∧ (ec = 101 ∨ ec = 69) ∧ SpellSign eneg esign ∧
    ed ≠ [] ∧ ed.all isDigit = true ∧ e = (if eneg then -(digitsVal ed : Int) else (digitsVal ed : Int))

/-- **real number spelling**: sign, integer digits `ip`, an optional `.` with fraction digits `fp`, an optional
exponent; at least one digit before the dot or after it; and not an integer spelling (there is a dot or an
exponent, or the integer is outside `int64`: such integers are read as reals). -/
def SpellReal (neg : Bool) (ip fp : List UInt8) (e : Int) (bs : List UInt8) : Prop :=
  ∃ sign frac ex, bs = sign ++ (ip ++ (frac ++ ex)) ∧ SpellSign neg sign ∧ ip.all isDigit = true ∧ fp.all isDigit = true ∧
    ((frac = [] ∧ fp = []) ∨ frac = 46 :: fp) ∧ (ip ≠ [] ∨ (frac = 46 :: fp ∧ fp ≠ [])) ∧ SpellExp e ex ∧
    (frac ≠ [] ∨ ex ≠ [] ∨
      ¬ (minInt64 ≤ (if neg then -(digitsVal ip : Int) else (digitsVal ip : Int)) ∧
         (if neg then -(digitsVal ip : Int) else (digitsVal ip : Int)) ≤ maxInt64))

theorem signSplit_spell (neg : Bool) (sign ed : List UInt8) (hs : SpellSign neg sign) (hne : ed ≠ []) (hd : ed.all isDigit = true) :
    signSplit (sign ++ ed) = (neg, ed) := by
  rcases hs with ⟨rfl, rfl⟩ | ⟨rfl, rfl⟩ | ⟨rfl, rfl⟩
  · cases ed with
    | nil => exact absurd rfl hne
    | cons d t =>
      have hd0 : isDigit d = true := by simp at hd; exact hd.1
      obtain ⟨n43, n45, _⟩ := digit_not_sign d hd0
      exact signSplit_other d t n43 n45
  · rfl
  · rfl

theorem expPart_spell (neg : Bool) (ip fp : List UInt8) (e : Int) (ex : List UInt8) (h : SpellExp e ex) :
    expPart neg ip fp ex = some (neg, ip, fp, e) := by
  rcases h with ⟨rfl, rfl⟩ | ⟨ec, esign, ed, eneg, rfl, hec, hs, hne, hd, rfl⟩
  · rfl
  · unfold expPart
    have c : (ec == 101 || ec == 69) = true := by rcases hec with h | h <;> subst h <;> decide
    have hemp : ed.isEmpty = false := by cases ed with | nil => exact absurd rfl hne | cons _ _ => rfl
    simp only [c, if_true, signSplit_spell eneg esign ed hs hne hd, hemp, hd, Bool.not_true, Bool.or_self, Bool.false_eq_true, if_false]

theorem exp_head (e : Int) (ex : List UInt8) (h : SpellExp e ex) : ∀ c t, ex = c :: t → isDigit c = false ∧ c ≠ 46 := by
  intro c t hct
  rcases h with ⟨rfl, _⟩ | ⟨ec, esign, ed, eneg, rfl, hec, _⟩
  · cases hct
  · injection hct with h1 _
    subst h1
    rcases hec with h | h <;> subst h <;> exact ⟨by decide, by decide⟩

theorem realBody_spell (neg : Bool) (ip fp frac ex : List UInt8) (e : Int) (hip : ip.all isDigit = true) (hfp : fp.all isDigit = true)
    (hfrac : (frac = [] ∧ fp = []) ∨ frac = 46 :: fp) (hsome : ip ≠ [] ∨ (frac = 46 :: fp ∧ fp ≠ [])) (hex : SpellExp e ex) :
    realBody neg (ip ++ (frac ++ ex)) = some (neg, ip, fp, e) := by
  have hexh := exp_head e ex hex
  have hnd : ∀ c t, frac ++ ex = c :: t → isDigit c = false := by
    intro c t hct
    rcases hfrac with ⟨rfl, _⟩ | rfl
    · exact (hexh c t hct).1
    · injection hct with h1 _; subst h1; decide
  obtain ⟨t1, t2⟩ := takeWhile_digits ip (frac ++ ex) hip hnd
  unfold realBody
  simp only [t1, t2]
  rcases hfrac with ⟨rfl, rfl⟩ | rfl
  · -- no dot
    have hipne : ip.isEmpty = false := by
      rcases hsome with h | ⟨h, _⟩
      · cases ip with | nil => exact absurd rfl h | cons _ _ => rfl
      · cases h
    rw [List.nil_append, dotSplit_other ex (fun t h => (hexh 46 t h).2 rfl)]
    simp only [hipne, Bool.false_and, Bool.false_eq_true, if_false]
    exact expPart_spell neg ip [] e ex hex
  · obtain ⟨u1, u2⟩ := takeWhile_digits fp ex hfp (fun c t h => (hexh c t h).1)
    have hd : dotSplit (46 :: fp ++ ex) = (fp, ex, true) := by
      show ((fp ++ ex).takeWhile isDigit, (fp ++ ex).dropWhile isDigit, true) = _
      rw [u1, u2]
    rw [hd]
    have c : (ip.isEmpty && !(true && !fp.isEmpty)) = false := by
      rcases hsome with h | ⟨_, h⟩
      · cases ip with | nil => exact absurd rfl h | cons _ _ => rfl
      · cases fp with | nil => exact absurd rfl h | cons _ _ => simp
    simp only [c, Bool.false_eq_true, if_false]
    exact expPart_spell neg ip fp e ex hex

theorem real_bytes_regular : ∀ b : UInt8, (isDigit b = true ∨ b = 46 ∨ b = 101 ∨ b = 69 ∨ b = 43 ∨ b = 45) → isRegular b = true := by
  apply forall_uint8; decide +kernel

theorem spellSign_regular (neg : Bool) (sign : List UInt8) (h : SpellSign neg sign) : sign.all isRegular = true := by
  rcases h with ⟨rfl, _⟩ | ⟨rfl, _⟩ | ⟨rfl, _⟩ <;> decide

theorem spellExp_regular (e : Int) (ex : List UInt8) (h : SpellExp e ex) : ex.all isRegular = true := by
  rcases h with ⟨rfl, _⟩ | ⟨ec, esign, ed, eneg, rfl, hec, hs, _, hd, _⟩
  · rfl
  · simp only [List.all_cons, List.all_append, Bool.and_eq_true]
    exact ⟨real_bytes_regular ec (by rcases hec with h | h <;> simp [h]), spellSign_regular eneg esign hs, all_digit_regular ed hd⟩

theorem parseNumber_real (neg : Bool) (ip fp : List UInt8) (e : Int) (bs : List UInt8) (h : SpellReal neg ip fp e bs) :
    (parseNumber bs = match realValue neg ip fp e with
      | some b => some (.real b)
      | none => none) ∧ bs ≠ [] ∧ bs.all isRegular = true := by
  obtain ⟨sign, frac, ex, rfl, hs, hip, hfp, hfrac, hsome, hex, hnotint⟩ := h
  have hrb := realBody_spell neg ip fp frac ex e hip hfp hfrac hsome hex
  -- the body starts with a digit or the dot
  obtain ⟨b, t, hbt, hb⟩ : ∃ b t, ip ++ (frac ++ ex) = b :: t ∧ (isDigit b = true ∨ b = 46) := by
    cases ip with
    | nil =>
      rcases hsome with h | ⟨h, _⟩
      · exact absurd rfl h
      · subst h; exact ⟨46, fp ++ ex, rfl, Or.inr rfl⟩
    | cons d ip' => exact ⟨d, ip' ++ (frac ++ ex), rfl, Or.inl (by simp at hip; exact hip.1)⟩
  have hb43 : b ≠ 43 ∧ b ≠ 45 := by
    rcases hb with hb | hb
    · obtain ⟨a, b', _⟩ := digit_not_sign b hb; exact ⟨a, b'⟩
    · subst hb; exact ⟨by decide, by decide⟩
  -- not an integer
  have hdec : decBody neg (ip ++ (frac ++ ex)) = none := by
    unfold decBody
    by_cases hall : (ip ++ (frac ++ ex)).all isDigit = true
    · -- then there is neither a dot nor an exponent
      have hfe : frac = [] ∧ ex = [] := by
        simp only [List.all_append, Bool.and_eq_true] at hall
        constructor
        · rcases hfrac with ⟨h, _⟩ | h
          · exact h
          · rw [h] at hall; have := hall.2.1; simp at this; exact absurd this.1 (by decide)
        · cases ex with
          | nil => rfl
          | cons c t => have := (exp_head e _ hex c t rfl).1; have h2 := hall.2.2; simp at h2; rw [h2.1] at this; cases this
      obtain ⟨rfl, rfl⟩ := hfe
      simp only [List.append_nil] at hall ⊢
      have hr : ¬ (minInt64 ≤ (if neg then -(digitsVal ip : Int) else (digitsVal ip : Int)) ∧
         (if neg then -(digitsVal ip : Int) else (digitsVal ip : Int)) ≤ maxInt64) := by
        rcases hnotint with h | h | h
        · exact absurd rfl h
        · exact absurd rfl h
        · exact h
      simp only [hall, Bool.not_true, Bool.or_false]
      split
      · rfl
      · rfl
    · have : (ip ++ (frac ++ ex)).all isDigit = false := by simpa using hall
      simp only [this, Bool.not_false, Bool.or_true, if_true]
  have hreg : (sign ++ (ip ++ (frac ++ ex))).all isRegular = true := by
    simp only [List.all_append, Bool.and_eq_true]
    refine ⟨spellSign_regular neg sign hs, all_digit_regular ip hip, ?_, spellExp_regular e ex hex⟩
    rcases hfrac with ⟨rfl, _⟩ | rfl
    · rfl
    · simp only [List.all_cons, Bool.and_eq_true]; exact ⟨by decide, all_digit_regular fp hfp⟩
  refine ⟨?_, ?_, hreg⟩
  · unfold parseNumber
    have e1 : parseDecInt (sign ++ (ip ++ (frac ++ ex))) = none := by
      rcases hs with ⟨rfl, rfl⟩ | ⟨rfl, rfl⟩ | ⟨rfl, rfl⟩
      · rw [List.nil_append, hbt, parseDecInt_other b t hb43.1 hb43.2, ← hbt]; exact hdec
      · exact hdec
      · exact hdec
    have e2 : splitReal (sign ++ (ip ++ (frac ++ ex))) = some (neg, ip, fp, e) := by
      rcases hs with ⟨rfl, rfl⟩ | ⟨rfl, rfl⟩ | ⟨rfl, rfl⟩
      · rw [List.nil_append, hbt, splitReal_nosign b t hb43.1 hb43.2, ← hbt]; exact hrb
      · exact hrb
      · exact hrb
    rw [e1, e2]
    dsimp only
    cases realValue neg ip fp e <;> rfl
  · rw [hbt]; cases sign <;> simp

/-- **real numbers**: every spelling is read as the correctly rounded binary64 value of its decimal
(`SoftFloat.ofDecimal`, via the model's `realValue`), provided that value is finite -/
theorem reads_real (s : Scanner) (sp bs rest : List UInt8) (neg : Bool) (ip fp : List UInt8) (e : Int) (bits : UInt64)
    (ok : OK s) (hsep : Sep sp) (h : SpellReal neg ip fp e bs) (hv : realValue neg ip fp e = some bits)
    (hd : Delimited rest) (hp : pend s = sp ++ bs ++ rest) : Reads scanToken s (.obj (.real bits)) rest := by
  obtain ⟨hpn, hne, hreg⟩ := parseNumber_real neg ip fp e bs h
  cases bs with
  | nil => exact absurd rfl hne
  | cons b t =>
    have hr' : isRegular b = true ∧ t.all isRegular = true := by simpa using hreg
    have := reads_regularRun s sp b t rest ok hsep hr'.1 hr'.2 hd hp
    have e' : regularTok (b :: t) = .obj (.real bits) := by
      unfold regularTok; rw [hpn, hv]
    rwa [e'] at this

/-! ### every value has a spelling -/

theorem digit_of_lt10 : ∀ k : Fin 10, isDigit (UInt8.ofNat (48 + k.val)) = true ∧ (UInt8.ofNat (48 + k.val) - 48).toNat = k.val := by
  decide +kernel

theorem digitsVal_snoc (ds : List UInt8) (d : UInt8) : digitsVal (ds ++ [d]) = digitsVal ds * 10 + (d - 48).toNat := by
  simp [digitsVal, List.foldl_append]

/-- every natural number has a decimal digit string -/
theorem exists_digits (n : Nat) : ∃ ds : List UInt8, ds ≠ [] ∧ ds.all isDigit = true ∧ digitsVal ds = n := by
  induction n using Nat.strongRecOn with
  | _ n ih =>
    by_cases h : n < 10
    · obtain ⟨h1, h2⟩ := digit_of_lt10 ⟨n, h⟩
      refine ⟨[UInt8.ofNat (48 + n)], by simp, by simpa using h1, ?_⟩
      simp only [digitsVal, List.foldl_cons, List.foldl_nil]
      simp only at h2
      omega
    · obtain ⟨ds, hne, hd, hv⟩ := ih (n / 10) (by omega)
      obtain ⟨h1, h2⟩ := digit_of_lt10 ⟨n % 10, by omega⟩
      refine ⟨ds ++ [UInt8.ofNat (48 + n % 10)], by simp, ?_, ?_⟩
      · simp only [List.all_append, hd, List.all_cons, List.all_nil, Bool.and_true, Bool.true_and]; exact h1
      · rw [digitsVal_snoc, hv]; simp only at h2; omega

/-- every `int64` value has a decimal spelling -/
theorem exists_spellInt (n : Int) (h1 : minInt64 ≤ n) (h2 : n ≤ maxInt64) : ∃ bs, SpellInt n bs := by
  by_cases hn : 0 ≤ n
  · obtain ⟨ds, hne, hd, hv⟩ := exists_digits n.toNat
    refine ⟨[] ++ ds, false, [], ds, rfl, Or.inl ⟨rfl, rfl⟩, hne, hd, ?_, h1, h2⟩
    simp only [Bool.false_eq_true, if_false, hv]; omega
  · obtain ⟨ds, hne, hd, hv⟩ := exists_digits (-n).toNat
    refine ⟨[45] ++ ds, true, [45], ds, rfl, Or.inr (Or.inr ⟨rfl, rfl⟩), hne, hd, ?_, h1, h2⟩
    simp only [if_true, hv]; omega

/-- the lower-case hex digit for a nibble -/
def hexChar (n : UInt8) : UInt8 := if n < 10 then 48 + n else 87 + n

theorem hexChar_spec : ∀ b : UInt8, hexNibble (hexChar (b >>> 4)) = some (b >>> 4) ∧
    hexNibble (hexChar (b &&& 15)) = some (b &&& 15) ∧ ((b >>> 4) <<< 4 ||| (b &&& 15)) = b := by
  apply forall_uint8; decide +kernel

/-- every byte string has a hexadecimal spelling -/
theorem exists_spellHex (v : List UInt8) : ∃ bs, SpellHex v bs := by
  have : ∃ body, HexBody body v := by
    induction v with
    | nil => exact ⟨[], .nil⟩
    | cons b v ih =>
      obtain ⟨body, hb⟩ := ih
      obtain ⟨h1, h2, h3⟩ := hexChar_spec b
      refine ⟨hexChar (b >>> 4) :: ([] ++ hexChar (b &&& 15) :: body), ?_⟩
      have := HexBody.pair _ _ _ _ [] body v h1 h2 (fun c hc => by cases hc) hb
      rwa [h3] at this
  obtain ⟨body, hb⟩ := this
  exact ⟨_, body, rfl, hb⟩

/-! ### the serialiser writes legal spellings -/

open PsVerif.Model.Ser in
theorem strBody_escByte_other (bal : Bool) (k : Nat) (c : UInt8) (t v : List UInt8) (h40 : c ≠ 40) (h41 : c ≠ 41)
    (h : StrBody k t v) : StrBody k (escByte bal c ++ t) (c :: v) := by
  by_cases h92 : c = 92
  · subst h92
    have e : escByte bal 92 = [92, 92] := by simp [escByte]
    rw [e]; exact .esc k 92 92 t v (by decide) h
  · by_cases h13 : c = 13
    · subst h13
      have e : escByte bal 13 = [92, 114] := by simp [escByte]
      rw [e]; exact .esc k 114 13 t v (by decide) h
    · have e : escByte bal c = [c] := by simp [escByte, h92, h40, h41, h13]
      rw [e]; exact .raw k c t v h40 h41 h92 h13 h

open PsVerif.Model.Ser in
theorem strBody_unbal (l : List UInt8) : StrBody 0 (escBytes false l) l := by
  induction l with
  | nil => exact .nil
  | cons c l ih =>
    rw [escBytes_cons]
    by_cases h40 : c = 40
    · subst h40; exact .esc 0 40 40 _ _ (by decide) ih
    · by_cases h41 : c = 41
      · subst h41; exact .esc 0 41 41 _ _ (by decide) ih
      · exact strBody_escByte_other false 0 c _ _ h40 h41 ih

open PsVerif.Model.Ser in
theorem strBody_bal (l : List UInt8) : ∀ k : Nat, parenLevel (k : Int) l = 0 → StrBody k (escBytes true l) l := by
  induction l with
  | nil =>
    intro k h
    simp only [parenLevel] at h
    have : k = 0 := by omega
    subst this; exact .nil
  | cons c l ih =>
    intro k h
    rw [escBytes_cons]
    by_cases h40 : c = 40
    · subst h40
      have hp : parenLevel ((k + 1 : Nat) : Int) l = 0 := by simpa [parenLevel] using h
      exact .open_ k _ _ (ih (k + 1) hp)
    · by_cases h41 : c = 41
      · subst h41
        have hk1 : ¬ ((k : Int) - 1 < 0) := by
          intro hlt
          simp [parenLevel, hlt] at h
          omega
        have hp0 : parenLevel ((k : Int) - 1) l = 0 := by simpa [parenLevel, hk1] using h
        obtain ⟨k', rfl⟩ : ∃ k', k = k' + 1 := ⟨k - 1, by omega⟩
        have hp : parenLevel ((k' : Nat) : Int) l = 0 := by
          have e : ((k' + 1 : Nat) : Int) - 1 = (k' : Int) := by omega
          rwa [e] at hp0
        exact .close k' _ _ (ih k' hp)
      · have hp : parenLevel (k : Int) l = 0 := by simpa [parenLevel, h40, h41] using h
        exact strBody_escByte_other true k c _ _ h40 h41 (ih k hp)

open PsVerif.Model.Ser in
/-- the library's own serialisation of a byte string is one of its legal spellings; in particular every
byte string has a literal-string spelling -/
theorem spellLitString_stringPS (bs : List UInt8) : SpellLitString bs (stringPS bs) := by
  refine ⟨escBytes (balanced bs) bs, rfl, ?_⟩
  cases hb : balanced bs with
  | false => exact strBody_unbal bs
  | true =>
    have hp : parenLevel 0 bs = 0 := by simpa [balanced] using hb
    exact strBody_bal bs 0 hp

/-! ### sequences of tokens -/

/-- `bs` spells the token `tok` for the tokenizer: after any separator, and (when `nd`) before any
delimiter, `ScanToken` returns `tok` and leaves exactly what follows the spelling -/
def TokenSpec (tok : Tok) (bs : List UInt8) (nd : Bool) : Prop :=
  ∀ (s : Scanner) (sp rest : List UInt8), OK s → Sep sp → (nd = true → Delimited rest) → pend s = sp ++ bs ++ rest →
    Reads scanToken s tok rest

/-- one written object: the separator before it, its spelling, the token it denotes, and whether the
spelling needs a delimiter after it (numbers and names do; strings, `[ ] { } << >>` do not) -/
structure Item where
  sep : List UInt8
  bs : List UInt8
  tok : Tok
  nd : Bool

/-- the text of a sequence of written objects -/
def text : List Item → List UInt8
  | [] => []
  | i :: is => i.sep ++ i.bs ++ text is

/-- every spelling that needs it is followed by white space or a delimiter -/
def Chained : List Item → List UInt8 → Prop
  | [], _ => True
  | i :: is, rest => (i.nd = true → Delimited (text is ++ rest)) ∧ Chained is rest

/-- `n` calls of `ScanToken` -/
def scanN : Nat → SM (List Tok)
  | 0 => pure []
  | n + 1 => do
    let t ← scanToken
    let ts ← scanN n
    pure (t :: ts)

theorem reads_sequence (its : List Item) : ∀ (s : Scanner) (rest : List UInt8),
    (∀ i ∈ its, Sep i.sep ∧ TokenSpec i.tok i.bs i.nd) → Chained its rest → OK s → pend s = text its ++ rest →
    Reads (scanN its.length) s (its.map (·.tok)) rest := by
  induction its with
  | nil => intro s rest _ _ ok hp; exact Reads.pure' ok (by simpa [text] using hp)
  | cons i its ih =>
    intro s rest hall hch ok hp
    obtain ⟨hsep, hspec⟩ := hall i (by simp)
    have hp' : pend s = i.sep ++ i.bs ++ (text its ++ rest) := by rw [hp]; simp [text]
    have h1 := hspec s i.sep (text its ++ rest) ok hsep hch.1 hp'
    show Reads (scanToken >>= fun t => scanN its.length >>= fun ts => pure (t :: ts)) s _ rest
    refine h1.bind (fun s1 ok1 hp1 => ?_)
    have h2 := ih s1 rest (fun j hj => hall j (by simp [hj])) hch.2 ok1 hp1
    refine h2.bind (fun s2 ok2 hp2 => ?_)
    exact Reads.pure' ok2 hp2

/-! ### all forms together -/

/-- **the legal lexical forms** and the tokens they denote.  The flag says whether the spelling has to be
followed by white space or a delimiter (numbers and names) or is self-delimiting (strings, `[ ] { } << >>`). -/
inductive Spell : Tok → List UInt8 → Bool → Prop
  | int (n : Int) (bs : List UInt8) : SpellInt n bs → Spell (.obj (.int n)) bs true
  | radix (n : Int) (bs : List UInt8) : SpellRadix n bs → Spell (.obj (.int n)) bs true
  | real (neg : Bool) (ip fp : List UInt8) (e : Int) (bs : List UInt8) (bits : UInt64) :
      SpellReal neg ip fp e bs → realValue neg ip fp e = some bits → Spell (.obj (.real bits)) bs true
  | litString (v bs : List UInt8) : SpellLitString v bs → Spell (.str v) bs false
  | hexString (v bs : List UInt8) : SpellHex v bs → Spell (.str v) bs false
  | a85String (v bs : List UInt8) : SpellA85 v bs → Spell (.str v) bs false
  | litName (n : List UInt8) : n.all isRegular = true → Spell (.obj (.name (bytesToString n))) (47 :: n) true
  | execName (bs : List UInt8) : SpellExecName bs → Spell (.obj (.op (bytesToString bs))) bs true
  | single (b : UInt8) : isSingle b = true → Spell (.obj (.op (bytesToString [b]))) [b] false
  | dictOpen : Spell (.obj (.op "<<")) [60, 60] false
  | dictClose : Spell (.obj (.op ">>")) [62, 62] false

theorem spell_tokenSpec (tok : Tok) (bs : List UInt8) (nd : Bool) (h : Spell tok bs nd) : TokenSpec tok bs nd := by
  intro s sp rest ok hsep hd hp
  cases h with
  | int n bs h => exact reads_int s sp bs rest n ok hsep h (hd rfl) hp
  | radix n bs h => exact reads_radix s sp bs rest n ok hsep h (hd rfl) hp
  | real neg ip fp e bs bits h hv => exact reads_real s sp bs rest neg ip fp e bits ok hsep h hv (hd rfl) hp
  | litString v bs h => exact reads_litString s sp bs rest v ok hsep h hp
  | hexString v bs h => exact reads_hex s sp bs rest v ok hsep h hp
  | a85String v bs h => exact reads_a85 s sp bs rest v ok hsep h hp
  | litName n h => exact reads_litName s sp n rest ok hsep h (hd rfl) hp
  | execName bs h => exact reads_execName s sp bs rest ok hsep h (hd rfl) hp
  | single b h => exact reads_single s sp b rest ok hsep h hp
  | dictOpen => exact reads_dictOpen s sp rest ok hsep hp
  | dictClose => exact reads_dictClose s sp rest ok hsep hp

/-- **C04, first sentence, on the model**: a sequence of objects, each written in any legal form after any
separator (white space, comments), numbers and names followed by white space or a delimiter, is read back
by successive `ScanToken` calls as exactly that sequence; what follows the last object is left pending. -/
theorem reads_spelled_sequence (its : List Item) (s : Scanner) (rest : List UInt8)
    (hall : ∀ i ∈ its, Sep i.sep ∧ Spell i.tok i.bs i.nd) (hch : Chained its rest) (ok : OK s)
    (hp : pend s = text its ++ rest) : Reads (scanN its.length) s (its.map (·.tok)) rest :=
  reads_sequence its s rest (fun i hi => ⟨(hall i hi).1, spell_tokenSpec _ _ _ (hall i hi).2⟩) hch ok hp

#print axioms reads_spelled_sequence
#print axioms spell_tokenSpec
#print axioms reads_skipWhiteSpace
#print axioms exists_spellInt
#print axioms exists_spellHex
#print axioms spellLitString_stringPS

end PsVerif.Proofs.LexForms
